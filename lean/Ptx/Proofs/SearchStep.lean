/-
  Ptx.Proofs.SearchStep — dynamics of the search model: the invariant of the initial state and its preservation.
  `HInv` is the part of `BranchInv` that talks about one branch and its helper state only (the state enters through
  "which cached indices are queued for release").
-/
import Ptx.Proofs.SearchInv
import Ptx.Proofs.SearchSat
namespace Ptx.Search
open Ptx

/-! ### association lists -/

theorem aget_amod {κ α} [DecidableEq κ] (d : α) (f : α → α) (m : List (κ × α)) (k k' : κ) :
    aget d (amod d f m k) k' = if k' = k then f (aget d m k) else aget d m k' := by
  induction m with
  | nil =>
    simp only [amod, aget]
  | cons p m ih =>
    obtain ⟨k0, v⟩ := p
    simp only [amod]
    by_cases hk : k = k0
    · subst hk
      simp only [↓reduceIte, aget]
      by_cases hk' : k' = k <;> simp [hk']
    · simp only [hk, ↓reduceIte, aget, ih]
      by_cases hk' : k' = k0
      · subst hk'
        have : ¬ k' = k := fun h => hk h.symm
        simp [this]
      · simp [hk']

theorem mem_aget_foldl {i : Nat} (rs : List RuleId) :
    ∀ (m : List (RuleId × List Nat)) (r : RuleId) (j : Nat),
      j ∈ aget [] (rs.foldl (fun m r => amod [] (· ++ [i]) m r) m) r ↔ j ∈ aget [] m r ∨ (j = i ∧ r ∈ rs) := by
  induction rs with
  | nil => intro m r j; simp
  | cons r0 rs ih =>
    intro m r j
    simp only [List.foldl_cons, ih, aget_amod, List.mem_cons]
    by_cases hr : r = r0
    · subst hr
      simp only [↓reduceIte, List.mem_append, List.mem_singleton, true_or, and_true]
      constructor
      · rintro ((h | h) | h)
        · exact Or.inl h
        · exact Or.inr h
        · exact Or.inr h.1
      · rintro (h | h)
        · exact Or.inl (Or.inl h)
        · exact Or.inl (Or.inr h)
    · simp [hr]

theorem mem_cache_addNode {L : LogicData} {b : Branch} {h : BranchH} {nd : Node} {r : RuleId} {j : Nat} :
    j ∈ (h.addNode L b nd).cache r ↔ j ∈ h.cache r ∨ (j = b.nodes.length ∧ matchesRule r nd = true) := by
  simp only [BranchH.cache, BranchH.addNode, mem_aget_foldl, matchesRule_iff]

theorem mem_cache_tick {h : BranchH} {i : Nat} {r : RuleId} {j : Nat} :
    j ∈ (h.tick i).cache r ↔ j ∈ h.cache r ∧ (ignoreTicked r = true → j ≠ i) := by
  simp only [BranchH.cache, BranchH.tick]
  generalize h.caches = m
  induction m with
  | nil => simp [aget]
  | cons p m ih =>
    obtain ⟨k0, v⟩ := p
    simp only [List.map_cons, aget]
    by_cases hk : r = k0
    · subst hk
      simp only [↓reduceIte]
      by_cases hi : ignoreTicked r = true
      · simp [hi, List.mem_filter]
      · simp [hi]
    · simp only [hk, ↓reduceIte, ih]

/-! ### the branch-local invariant -/

structure HInv (L : LogicData) (mw mc : Nat) (dead : RuleId → Nat → Prop) (b : Branch) (h : BranchH) : Prop where
  windex : ∀ a c, (a, c) ∈ h.windex ↔ Node.access a c ∈ b.nodes
  unserial : ∀ w, w ∈ h.unserial ↔ (w ∈ b.nodes.flatMap Node.worlds ∧ hasAccessFrom b w = false)
  cacheSound : ∀ r i, i ∈ h.cache r → ∃ nd, b.nodes[i]? = some nd ∧ matchesRule r nd = true ∧
      (ignoreTicked r = true → i ∉ b.ticked)
  cacheComplete : ∀ r i nd, b.nodes[i]? = some nd → matchesRule r nd = true →
      (ignoreTicked r = true → i ∉ b.ticked) → (i ∈ h.cache r ∧ ¬ dead r i) ∨ releasable L mw mc b h r i = true
  nwDone : ∀ k i w', (i, w') ∈ h.nw k → ∃ sn d w r whole l0, b.nodes[i]? = some (.sent sn d w) ∧
      L.ruleFor sn d = some (r, whole, l0) ∧ groupsDone b (instGroups whole l0 w none (some w') r) = true
  ticked : ∀ i ∈ b.ticked, ∃ sn d w, b.nodes[i]? = some (.sent sn d w) ∧ tickDone L b sn d w
  closeNone : h.closeT = none → ∀ sn d w, Node.sent sn d w ∈ b.nodes →
      (sn.base.isNeg = false → (L.closure.lookup (b.litSet L sn.base w) == some true) = false) ∧
      L.identCloses (.sent sn d w) = false
  closeSome : ∀ t, h.closeT = some t →
      match t with
      | .lits sn w => ∃ b0 : Branch, (∃ ns, b.nodes = b0.nodes ++ ns) ∧ L.closure.lookup (b0.litSet L sn w) = some true
      | .ident n => ∃ nd, b.nodes[n]? = some nd ∧ L.identCloses nd = true
  worlded : L.modal = true → ∀ sn d w, Node.sent sn d w ∈ b.nodes → w.isSome = true
  lastSerial : ∀ w2, h.lastSerial = some w2 → ∀ sn d, Node.sent sn d (some w2) ∉ b.nodes

theorem mem_live {s : SState} {bi : Nat} {h : BranchH} (hh : s.hs[bi]? = some h) {r : RuleId} {i : Nat} :
    i ∈ s.live r bi ↔ i ∈ h.cache r ∧ (bi, i) ∉ s.garbage r := by
  simp [SState.live, hh, List.mem_filter]

theorem branchInv_iff {L : LogicData} {s : SState} {bi : Nat} {b : Branch} {h : BranchH} (hh : s.hs[bi]? = some h) :
    BranchInv L s bi b h ↔ HInv L s.maxWorlds s.maxConsts (fun r i => (bi, i) ∈ s.garbage r) b h := by
  constructor
  · intro I
    exact { windex := I.windex, unserial := I.unserial, cacheSound := I.cacheSound,
            cacheComplete := fun r i nd hn hm ht => by
              rcases I.cacheComplete r i nd hn hm ht with h1 | h1
              · exact Or.inl ((mem_live hh).1 h1)
              · exact Or.inr h1
            nwDone := I.nwDone, ticked := I.ticked, closeNone := I.closeNone, closeSome := I.closeSome,
            worlded := I.worlded, lastSerial := I.lastSerial }
  · intro H
    exact { windex := H.windex, unserial := H.unserial, cacheSound := H.cacheSound,
            cacheComplete := fun r i nd hn hm ht => by
              rcases H.cacheComplete r i nd hn hm ht with h1 | h1
              · exact Or.inl ((mem_live hh).2 h1)
              · exact Or.inr h1
            nwDone := H.nwDone, ticked := H.ticked, closeNone := H.closeNone, closeSome := H.closeSome,
            worlded := H.worlded, lastSerial := H.lastSerial }


/-! ### growth: monotone facts -/

section mono
variable {L : LogicData} {b b' : Branch}

theorem hasAll_mono (hsub : ∀ x ∈ b.nodes, x ∈ b'.nodes) {g : List Node} (h : b.hasAll g = true) : b'.hasAll g = true := by
  simp only [Branch.hasAll, List.all_eq_true, Branch.hasNode, List.contains_iff_mem] at h ⊢
  exact fun x hx => hsub x (h x hx)

theorem groupsDone_mono (hsub : ∀ x ∈ b.nodes, x ∈ b'.nodes) {gs : Option (List (List Node))}
    (h : groupsDone b gs = true) : groupsDone b' gs = true := by
  unfold groupsDone at h ⊢
  split at h
  · obtain ⟨g, hg, ha⟩ := List.any_eq_true.1 h
    exact List.any_eq_true.2 ⟨g, hg, hasAll_mono hsub ha⟩
  · cases h

theorem worldList_mono (hsub : ∀ x ∈ b.nodes, x ∈ b'.nodes) {w : Nat} (h : w ∈ b.worldList) : w ∈ b'.worldList := by
  simp only [Branch.worldList, dedupNat, List.mem_eraseDups, Branch.worlds, List.mem_flatMap] at h ⊢
  obtain ⟨x, hx, hw⟩ := h
  exact ⟨x, hsub x hx, hw⟩

theorem hasQuit_mono (hsub : ∀ x ∈ b.nodes, x ∈ b'.nodes) (h : b.hasQuit = true) : b'.hasQuit = true := by
  simp only [Branch.hasQuit, List.any_eq_true] at h ⊢
  obtain ⟨x, hx, hp⟩ := h
  exact ⟨x, hsub x hx, hp⟩

theorem tickDone_mono (hsub : ∀ x ∈ b.nodes, x ∈ b'.nodes) {sn : Sent} {d : Option Bool} {w : Option Nat}
    (h : tickDone L b sn d w) : tickDone L b' sn d w := by
  obtain ⟨r, whole, l0, hrf, htk, hd⟩ := h
  refine ⟨r, whole, l0, hrf, htk, ?_⟩
  rcases hd with hq | hd
  · exact Or.inl (hasQuit_mono hsub hq)
  · right
    split
    · next hw => simp only [hw] at hd; exact groupsDone_mono hsub hd
    · next hw =>
      simp only [hw] at hd
      obtain ⟨w', hw', hg⟩ := hd
      exact ⟨w', worldList_mono hsub hw', groupsDone_mono hsub hg⟩
    · trivial

theorem exceeded_mono (mw : Nat) {ns : List Node} (hb : b'.nodes = b.nodes ++ ns) (h : exceeded mw b = true) :
    exceeded mw b' = true := by
  have h1 : mw < (realWorlds b).length := by simpa [exceeded] using h
  have h2 : (realWorlds b).length ≤ (realWorlds b').length := by
    simp only [realWorlds, dedupNat]
    rw [hb, List.flatMap_append, List.eraseDups_append, List.length_append]
    omega
  simp only [exceeded, decide_eq_true_eq]
  omega

theorem constExceeded_mono (mc : Nat) {ns : List Node} (hb : b'.nodes = b.nodes ++ ns) (w : Option Nat)
    (h : constExceeded mc b w = true) : constExceeded mc b' w = true := by
  have h1 : mc < (constsAt b (w.getD 0)).length := by simpa [constExceeded] using h
  have h2 : (constsAt b (w.getD 0)).length ≤ (constsAt b' (w.getD 0)).length := by
    simp only [constsAt, dedupPair]
    rw [hb, List.flatMap_append, List.eraseDups_append, List.length_append]
    omega
  simp only [constExceeded, decide_eq_true_eq]
  omega

end mono

/-! ### one node appended: all `AFTER_NODE_ADD` listeners -/

/-- the branch with one more node -/
def Branch.snoc (b : Branch) (nd : Node) : Branch := { b with nodes := b.nodes ++ [nd] }

theorem snoc_get_lt {b : Branch} {nd : Node} {i : Nat} (h : i < b.nodes.length) : (Branch.snoc b nd).nodes[i]? = b.nodes[i]? := by
  simp [Branch.snoc, List.getElem?_append_left h]

theorem snoc_get_of_some {b : Branch} {nd x : Node} {i : Nat} (h : b.nodes[i]? = some x) : (Branch.snoc b nd).nodes[i]? = some x := by
  have hi : i < b.nodes.length := by
    rcases Nat.lt_or_ge i b.nodes.length with h1 | h1
    · exact h1
    · rw [List.getElem?_eq_none h1] at h; cases h
  rw [snoc_get_lt hi, h]

theorem snoc_get_cases {b : Branch} {nd x : Node} {i : Nat} (h : (Branch.snoc b nd).nodes[i]? = some x) :
    b.nodes[i]? = some x ∨ (i = b.nodes.length ∧ x = nd) := by
  rcases Nat.lt_or_ge i b.nodes.length with h1 | h1
  · rw [snoc_get_lt h1] at h; exact Or.inl h
  · right
    simp only [Branch.snoc, List.getElem?_append_right h1] at h
    have hi : i - b.nodes.length = 0 := by
      rcases Nat.eq_zero_or_pos (i - b.nodes.length) with h0 | h0
      · exact h0
      · rw [List.getElem?_eq_none (by simp only [List.length_cons, List.length_nil]; omega)] at h; cases h
    rw [hi] at h
    simp only [List.getElem?_cons_zero, Option.some.injEq] at h
    exact ⟨by omega, h.symm⟩

theorem snoc_sub (b : Branch) (nd : Node) : ∀ x ∈ b.nodes, x ∈ (Branch.snoc b nd).nodes := by
  intro x hx; simp [Branch.snoc, hx]

theorem windex_addNode {L : LogicData} {b : Branch} {h : BranchH} {nd : Node} {p : Nat × Nat} :
    p ∈ (h.addNode L b nd).windex ↔ p ∈ h.windex ∨ nd = .access p.1 p.2 := by
  obtain ⟨a, c⟩ := p
  simp only [BranchH.addNode]
  cases nd with
  | access a' c' =>
    simp only [Node.access.injEq]
    split
    · next hc =>
      have hc' : (a', c') ∈ h.windex := by simpa using hc
      constructor
      · exact Or.inl
      · rintro (h1 | ⟨rfl, rfl⟩)
        · exact h1
        · exact hc'
    · simp only [List.mem_append, List.mem_singleton, Prod.mk.injEq]
      constructor
      · rintro (h1 | ⟨rfl, rfl⟩)
        · exact Or.inl h1
        · exact Or.inr ⟨rfl, rfl⟩
      · rintro (h1 | ⟨rfl, rfl⟩)
        · exact Or.inl h1
        · exact Or.inr ⟨rfl, rfl⟩
  | sent _ _ _ => simp
  | flag _ => simp
  | ellipsis => simp

theorem releasable_mono {L : LogicData} {mw mc : Nat} {b : Branch} {h : BranchH} {nd : Node} {r : RuleId} {i : Nat}
    (hi : i < b.nodes.length) (hr : releasable L mw mc b h r i = true) :
    releasable L mw mc (Branch.snoc b nd) (h.addNode L b nd) r i = true := by
  have hex : exceeded mw b = true → exceeded mw (Branch.snoc b nd) = true :=
    exceeded_mono mw (ns := [nd]) rfl
  have hwi : ∀ p, p ∈ h.windex → p ∈ (h.addNode L b nd).windex := fun p hp => windex_addNode.2 (Or.inl hp)
  cases r with
  | closure => simp [releasable] at hr
  | ident => simp [releasable] at hr
  | table k =>
    simp only [releasable, snoc_get_lt hi] at hr ⊢
    split at hr
    · next rl hrl =>
      simp only [Bool.or_eq_true, Bool.and_eq_true] at hr ⊢
      rcases hr with hr | hr
      · exact Or.inl ⟨hr.1, hex hr.2⟩
      · refine Or.inr ⟨hr.1, ?_⟩
        split at hr
        · next sn d w hx => exact constExceeded_mono mc (ns := [nd]) rfl w hr.2
        · exact absurd hr.2 (by simp)
    · cases hr
  | frame fr =>
    cases fr with
    | reflexive =>
      simp only [releasable, Bool.or_eq_true, snoc_get_lt hi] at hr ⊢
      rcases hr with hr | hr
      · exact Or.inl (hex hr)
      · right
        split at hr
        · next x hx =>
          simp only [allLooped, List.all_eq_true, List.contains_iff_mem] at hr ⊢
          exact fun w hw => hwi _ (hr w hw)
        · cases hr
    | transitive => simpa [releasable] using hex (by simpa [releasable] using hr)
    | symmetric =>
      simp only [releasable, Bool.or_eq_true, snoc_get_lt hi] at hr ⊢
      rcases hr with hr | hr
      · exact Or.inl (hex hr)
      · right
        split at hr
        · next a c hx => simpa using hwi _ (by simpa using hr)
        · cases hr
    | serial => simp [releasable] at hr


theorem mem_updUnserial_fold (cond : Nat → Bool) (ws : List Nat) :
    ∀ (u : List Nat) (w : Nat),
      w ∈ ws.foldl (fun u w0 => if cond w0 then u.filter (· != w0) else if u.contains w0 then u else u ++ [w0]) u ↔
        (if w ∈ ws then cond w = false else w ∈ u) := by
  induction ws with
  | nil => intro u w; simp
  | cons w0 rest ih =>
    intro u w
    rw [List.foldl_cons, ih]
    by_cases hr : w ∈ rest
    · simp [hr]
    · simp only [hr, ↓reduceIte, List.mem_cons, or_false]
      by_cases hw : w = w0
      · subst hw
        simp only [↓reduceIte]
        cases hc : cond w with
        | true => simp [List.mem_filter]
        | false =>
          simp only [Bool.false_eq_true, ↓reduceIte]
          split
          · next hcon => simpa using hcon
          · simp
      · simp only [hw, ↓reduceIte]
        cases hc : cond w0 with
        | true => simp [List.mem_filter, hw]
        | false =>
          simp only [Bool.false_eq_true, ↓reduceIte]
          split
          · rfl
          · simp [hw]

theorem hasAccessFrom_snoc (b : Branch) (nd : Node) (w : Nat) :
    hasAccessFrom (Branch.snoc b nd) w = (hasAccessFrom b w || world1? nd == some w) := by
  simp only [hasAccessFrom, Branch.snoc, List.any_append, List.any_cons, List.any_nil, Bool.or_false]
  cases nd <;> simp [world1?]

theorem world1_mem_worlds {nd : Node} {w : Nat} (h : (world1? nd == some w) = true) : w ∈ nd.worlds := by
  cases nd with
  | access a c =>
    have : a = w := by simpa [world1?] using h
    subst this; simp [Node.worlds]
  | sent _ _ _ => simp [world1?] at h
  | flag _ => simp [world1?] at h
  | ellipsis => simp [world1?] at h

theorem litSet_snoc_eq {L : LogicData} {b : Branch} {nd : Node} {z : Sent} {w : Option Nat}
    (h : ∀ l ∈ L.allLits, litNode z w l ≠ nd) : (Branch.snoc b nd).litSet L z w = b.litSet L z w := by
  unfold Branch.litSet
  apply List.filter_congr
  intro l hl
  have := h l hl
  simp only [litNode] at this
  simp only [Branch.hasNode, Branch.snoc]
  rw [Bool.eq_iff_iff]
  simp only [List.contains_iff_mem, List.mem_append, List.mem_singleton, this, or_false]

theorem HInv.addNode {L : LogicData} {mw mc : Nat} {dead : RuleId → Nat → Prop} {b : Branch} {h : BranchH}
    (H : HInv L mw mc dead b h) (nd : Node)
    (hwld : L.modal = true → ∀ sn d w, nd = .sent sn d w → w.isSome = true)
    (hdead : ∀ r, ¬ dead r b.nodes.length)
    (hls : ∀ w2, h.lastSerial = some w2 → ∀ sn d, nd ≠ .sent sn d (some w2)) :
    HInv L mw mc dead (Branch.snoc b nd) (h.addNode L b nd) := by
  have hmem : ∀ x, x ∈ (Branch.snoc b nd).nodes ↔ x ∈ b.nodes ∨ x = nd := by
    intro x; simp [Branch.snoc]
  have htk : ∀ i ∈ b.ticked, i < b.nodes.length := by
    intro i hi
    obtain ⟨sn, d, w, hn, _⟩ := H.ticked i hi
    rcases Nat.lt_or_ge i b.nodes.length with h1 | h1
    · exact h1
    · rw [List.getElem?_eq_none h1] at hn; cases hn
  refine { windex := ?_, unserial := ?_, cacheSound := ?_, cacheComplete := ?_, nwDone := ?_, ticked := ?_,
           closeNone := ?_, closeSome := ?_, worlded := ?_, lastSerial := ?_ }
  · intro a c
    rw [windex_addNode, hmem, H.windex]
    constructor
    · rintro (h1 | h1)
      · exact Or.inl h1
      · exact Or.inr h1.symm
    · rintro (h1 | h1)
      · exact Or.inl h1
      · exact Or.inr h1.symm
  · intro w
    have hfold := mem_updUnserial_fold (fun w0 => world1? nd == some w0 || hasAccessFrom (Branch.snoc b nd) w0) nd.worlds
      h.unserial w
    have hun : (h.addNode L b nd).unserial = updUnserial (Branch.snoc b nd) nd h.unserial := rfl
    rw [hun]
    unfold updUnserial
    rw [hfold]
    have hfm : w ∈ (Branch.snoc b nd).nodes.flatMap Node.worlds ↔ w ∈ b.nodes.flatMap Node.worlds ∨ w ∈ nd.worlds := by
      simp [Branch.snoc, List.flatMap_append]
    rw [hfm, hasAccessFrom_snoc]
    by_cases hw : w ∈ nd.worlds
    · simp only [hw, ↓reduceIte, or_true, true_and]
      cases h1 : (world1? nd == some w) <;> simp
    · simp only [hw, ↓reduceIte, or_false]
      have : (world1? nd == some w) = false := by
        rcases Bool.eq_false_or_eq_true (world1? nd == some w) with h1 | h1
        · exact absurd (world1_mem_worlds h1) hw
        · exact h1
      rw [this, Bool.or_false]
      exact H.unserial w
  · intro r i hi
    rcases mem_cache_addNode.1 hi with h1 | ⟨h1, h2⟩
    · obtain ⟨x, hx, hm, ht⟩ := H.cacheSound r i h1
      exact ⟨x, snoc_get_of_some hx, hm, ht⟩
    · subst h1
      refine ⟨nd, by simp [Branch.snoc], h2, fun _ hc => ?_⟩
      exact absurd (htk _ hc) (Nat.lt_irrefl _)
  · intro r i x hx hm ht
    rcases snoc_get_cases hx with h1 | ⟨h1, h2⟩
    · have hi : i < b.nodes.length := by
        rcases Nat.lt_or_ge i b.nodes.length with h3 | h3
        · exact h3
        · rw [List.getElem?_eq_none h3] at h1; cases h1
      rcases H.cacheComplete r i x h1 hm ht with ⟨hc, hd⟩ | hr
      · exact Or.inl ⟨mem_cache_addNode.2 (Or.inl hc), hd⟩
      · exact Or.inr (releasable_mono hi hr)
    · subst h1; subst h2
      exact Or.inl ⟨mem_cache_addNode.2 (Or.inr ⟨rfl, hm⟩), hdead r⟩
  · intro k i w' hm
    obtain ⟨sn, d, w, r, whole, l0, hn, hrf, hg⟩ := H.nwDone k i w' hm
    exact ⟨sn, d, w, r, whole, l0, snoc_get_of_some hn, hrf, groupsDone_mono (snoc_sub b nd) hg⟩
  · intro i hi
    obtain ⟨sn, d, w, hn, hd⟩ := H.ticked i hi
    exact ⟨sn, d, w, snoc_get_of_some hn, tickDone_mono (snoc_sub b nd) hd⟩
  · intro hnone sn d w hx
    have hct : (h.addNode L b nd).closeT =
        match h.closeT with | some t => some t | none => closeHook L (Branch.snoc b nd) b.nodes.length nd := rfl
    rw [hct] at hnone
    cases hc : h.closeT with
    | some t => rw [hc] at hnone; cases hnone
    | none =>
      rw [hc] at hnone
      simp only at hnone
      -- what the hook says about the new node
      have hook : ∀ s1 d1 w1, nd = .sent s1 d1 w1 →
          L.identCloses (.sent s1 d1 w1) = false ∧
          (L.closure.lookup ((Branch.snoc b nd).litSet L s1.base w1) == some true) = false := by
        intro s1 d1 w1 he
        subst he
        simp only [closeHook] at hnone
        split at hnone
        · cases hnone
        · next hi =>
          split at hnone
          · cases hnone
          · next hl => exact ⟨by simpa using hi, by simpa using hl⟩
      rcases (hmem _).1 hx with hold | hnew
      · refine ⟨?_, (H.closeNone hc sn d w hold).2⟩
        intro hneg
        rcases Classical.em (∃ l ∈ L.allLits, litNode sn.base w l = nd) with ⟨l, _, hl⟩ | hno
        · have := (hook _ _ _ hl.symm).2
          have hb : (if l.negated then sn.base.neg else sn.base).base = sn.base := by
            split
            · rfl
            · exact base_of_not_isNeg hneg
          rw [hb] at this
          exact this
        · rw [litSet_snoc_eq (fun l hl he => hno ⟨l, hl, he⟩)]
          exact (H.closeNone hc sn d w hold).1 hneg
      · have := hook sn d w hnew.symm
        exact ⟨fun _ => this.2, this.1⟩
  · intro t ht
    have hct : (h.addNode L b nd).closeT =
        match h.closeT with | some t => some t | none => closeHook L (Branch.snoc b nd) b.nodes.length nd := rfl
    rw [hct] at ht
    cases hc : h.closeT with
    | some t0 =>
      rw [hc] at ht
      simp only [Option.some.injEq] at ht
      subst ht
      have := H.closeSome t0 hc
      cases t0 with
      | lits sn w =>
        obtain ⟨b0, ⟨ns, hns⟩, hl⟩ := this
        exact ⟨b0, ⟨ns ++ [nd], by simp [Branch.snoc, hns]⟩, hl⟩
      | ident n =>
        obtain ⟨x, hx, hi⟩ := this
        exact ⟨x, snoc_get_of_some hx, hi⟩
    | none =>
      rw [hc] at ht
      simp only at ht
      cases nd with
      | sent s1 d1 w1 =>
        simp only [closeHook] at ht
        split at ht
        · next hi =>
          simp only [Option.some.injEq] at ht
          subst ht
          exact ⟨_, by simp [Branch.snoc], hi⟩
        · split at ht
          · next hl =>
            simp only [Option.some.injEq] at ht
            subst ht
            exact ⟨Branch.snoc b (.sent s1 d1 w1), ⟨[], by simp⟩, by simpa using hl⟩
          · cases ht
      | access _ _ => simp [closeHook] at ht
      | flag _ => simp [closeHook] at ht
      | ellipsis => simp [closeHook] at ht
  · intro hmod sn d w hx
    rcases (hmem _).1 hx with hold | hnew
    · exact H.worlded hmod sn d w hold
    · exact hwld hmod sn d w hnew.symm
  · intro w2 hl sn d hx
    have hl' : h.lastSerial = some w2 := hl
    rcases (hmem _).1 hx with hold | hnew
    · exact H.lastSerial w2 hl' sn d hold
    · exact hls w2 hl' sn d hnew.symm


/-- `Branch.extend(nodes)`: the invariant survives any list of appended nodes -/
theorem HInv.grow {L : LogicData} {mw mc : Nat} {dead : RuleId → Nat → Prop} :
    ∀ (ns : List Node) (b : Branch) (h : BranchH), HInv L mw mc dead b h →
      (L.modal = true → ∀ sn d w, Node.sent sn d w ∈ ns → w.isSome = true) →
      (∀ r i, b.nodes.length ≤ i → ¬ dead r i) →
      (∀ w2, h.lastSerial = some w2 → ∀ sn d, Node.sent sn d (some w2) ∉ ns) →
      HInv L mw mc dead { b with nodes := b.nodes ++ ns } (h.grow L b ns)
  | [], b, h, H, _, _, _ => by simpa [BranchH.grow] using H
  | nd :: rest, b, h, H, hw, hd, hl => by
      have H1 := H.addNode nd (fun hm sn d w he => hw hm sn d w (by simp [he])) (fun r => hd r _ (Nat.le_refl _))
        (fun w2 h2 sn d he => hl w2 h2 sn d (by simp [he]))
      have ih := HInv.grow rest (Branch.snoc b nd) (h.addNode L b nd) H1
        (fun hm sn d w hx => hw hm sn d w (List.mem_cons_of_mem _ hx))
        (fun r i hi => hd r i (by simp [Branch.snoc] at hi; omega))
        (fun w2 h2 sn d hx => hl w2 (by simpa [BranchH.addNode] using h2) sn d (List.mem_cons_of_mem _ hx))
      simpa [BranchH.grow, Branch.snoc] using ih

theorem HInv.empty (L : LogicData) (mw mc : Nat) (dead : RuleId → Nat → Prop) :
    HInv L mw mc dead { nodes := [] } {} := by
  refine { windex := ?_, unserial := ?_, cacheSound := ?_, cacheComplete := ?_, nwDone := ?_, ticked := ?_,
           closeNone := ?_, closeSome := ?_, worlded := ?_, lastSerial := ?_ }
  · intro a c; simp
  · intro w; simp
  · intro r i hi; simp [BranchH.cache, aget] at hi
  · intro r i nd hn; simp at hn
  · intro k i w' hm; simp [BranchH.nw, aget] at hm
  · intro i hi; simp at hi
  · intro _ sn d w hm; simp at hm
  · intro t ht; cases ht
  · intro _ sn d w hm; simp at hm
  · intro w2 hl; cases hl

/-- (1a) the state after `build_trunk` satisfies the invariant, for ANY list of trunk nodes whose sentence nodes carry a world
    when the logic is modal -/
theorem inv_init (L : LogicData) (nodes : List Node)
    (hw : L.modal = true → ∀ sn d w, Node.sent sn d w ∈ nodes → w.isSome = true) : Inv L (SState.init L nodes) := by
  refine ⟨rfl, ?_, ?_⟩
  · intro r p hp; simp [SState.init, SState.garbage, aget] at hp
  · intro bi b h hb hh _
    match bi, hb, hh with
    | 0, hb, hh =>
      have hh0 := hh
      simp only [SState.init, List.getElem?_cons_zero, Option.some.injEq] at hb hh
      subst hb; subst hh
      rw [branchInv_iff hh0]
      have := HInv.grow (L := L) (mw := (SState.init L nodes).maxWorlds) (mc := (SState.init L nodes).maxConsts)
        (dead := fun r i => (0, i) ∈ (SState.init L nodes).garbage r) nodes { nodes := [] } {}
        (HInv.empty L _ _ _) hw (fun r i _ hp => by simp [SState.init, SState.garbage, aget] at hp) (fun w2 hl => by cases hl)
      simpa using this
    | (n + 1), hb, _ => simp [SState.init] at hb


/-! ### `Ev.search`: gc and release -/

/-- changing the caches (and what counts as queued) keeps the invariant as long as nothing live is lost without reason -/
theorem HInv.recache {L : LogicData} {mw mc : Nat} {dead dead' : RuleId → Nat → Prop} {b : Branch} {h : BranchH}
    (H : HInv L mw mc dead b h) (c : List (RuleId × List Nat))
    (hsub : ∀ r i, i ∈ aget [] c r → i ∈ h.cache r)
    (hkeep : ∀ r i, i ∈ h.cache r → ¬ dead r i → (i ∈ aget [] c r ∧ ¬ dead' r i) ∨ releasable L mw mc b h r i = true) :
    HInv L mw mc dead' b { h with caches := c } :=
  { windex := H.windex, unserial := H.unserial
    cacheSound := fun r i hi => H.cacheSound r i (hsub r i hi)
    cacheComplete := fun r i nd hn hm ht => by
      rcases H.cacheComplete r i nd hn hm ht with ⟨hc, hd⟩ | hr
      · rcases hkeep r i hc hd with h1 | h1
        · exact Or.inl h1
        · exact Or.inr h1
      · exact Or.inr hr
    nwDone := H.nwDone, ticked := H.ticked, closeNone := H.closeNone, closeSome := H.closeSome,
    worlded := H.worlded, lastSerial := H.lastSerial }

theorem gc_tab (s : SState) (r : RuleId) : (s.gc r).tab = s.tab := rfl
theorem gc_maxWorlds (s : SState) (r : RuleId) : (s.gc r).maxWorlds = s.maxWorlds := rfl
theorem gc_maxConsts (s : SState) (r : RuleId) : (s.gc r).maxConsts = s.maxConsts := rfl

theorem gc_garbage (s : SState) (r r' : RuleId) : (s.gc r).garbage r' = if r' = r then [] else s.garbage r' := by
  by_cases he : (s.garbage r).isEmpty = true
  · have h1 : (s.gc r).garbages = s.garbages := by simp only [SState.gc, he, ↓reduceIte]
    have h2 : (s.gc r).garbage r' = s.garbage r' := by simp only [SState.garbage, h1]
    rw [h2]
    have : s.garbage r = [] := by simpa using he
    by_cases hr : r' = r
    · subst hr; simp [this]
    · simp [hr]
  · have h1 : (s.gc r).garbages = amod [] (fun _ => []) s.garbages r := by simp [SState.gc, he]
    have h2 : (s.gc r).garbage r' = aget [] (amod [] (fun _ => []) s.garbages r) r' := by simp only [SState.garbage, h1]
    rw [h2, aget_amod]
    rfl

theorem gc_hs {s : SState} {r : RuleId} {bj : Nat} {h1 : BranchH} (hh1 : (s.gc r).hs[bj]? = some h1) :
    ∃ h c, s.hs[bj]? = some h ∧ h1 = { h with caches := c } ∧
      ∀ r' i, i ∈ aget [] c r' ↔ i ∈ h.cache r' ∧ (r' = r → (bj, i) ∉ s.garbage r) := by
  by_cases he : (s.garbage r).isEmpty = true
  · have hg : s.garbage r = [] := by simpa using he
    have h0 : (s.gc r).hs = s.hs := by simp only [SState.gc, he, ↓reduceIte]
    rw [h0] at hh1
    refine ⟨h1, h1.caches, hh1, rfl, ?_⟩
    intro r' i
    simp [BranchH.cache, hg]
  · have h0 : (s.gc r).hs = s.hs.zipIdx.map fun (h, bi) =>
        { h with caches := amod [] (fun c => c.filter (fun i => !(s.garbage r).contains (bi, i))) h.caches r } := by
      simp [SState.gc, he]
    rw [h0] at hh1
    simp only [List.getElem?_map, List.getElem?_zipIdx, Option.map_map, Option.map_eq_some_iff] at hh1
    obtain ⟨h, hh, he'⟩ := hh1
    refine ⟨h, _, hh, he'.symm, ?_⟩
    intro r' i
    simp only [Function.comp, Nat.zero_add, aget_amod, BranchH.cache]
    by_cases hr : r' = r
    · subst hr
      simp [List.mem_filter]
    · simp [hr]

theorem gc_len (s : SState) (r : RuleId) : (s.gc r).hs.length = s.hs.length := by
  by_cases he : (s.garbage r).isEmpty = true
  · simp only [SState.gc, he, ↓reduceIte]
  · simp [SState.gc, he]

/-- `gc()` keeps the invariant -/
theorem inv_gc {L : LogicData} {s : SState} (hinv : Inv L s) (r : RuleId) : Inv L (s.gc r) := by
  refine ⟨by rw [gc_len, gc_tab]; exact hinv.len, ?_, ?_⟩
  · intro r' p hp
    rw [gc_garbage] at hp
    split at hp
    · cases hp
    · exact hinv.gb r' p hp
  · intro bj b h1 hb hh1 ho
    obtain ⟨h, c, hh, rfl, hc⟩ := gc_hs hh1
    have I := (branchInv_iff hh).1 (hinv.branch bj b h hb hh ho)
    rw [branchInv_iff hh1]
    refine I.recache c (fun r' i hi => ((hc r' i).1 hi).1) ?_
    intro r' i hi hd
    left
    refine ⟨(hc r' i).2 ⟨hi, fun he => he ▸ hd⟩, ?_⟩
    rw [gc_garbage]
    split
    · simp
    · exact hd

/-- queueing the releasable cached nodes of one rule on one open branch keeps the invariant -/
theorem inv_release {L : LogicData} {s1 : SState} (hinv : Inv L s1) (r : RuleId) (bi : Nat) {b : Branch} {h : BranchH}
    (hg : s1.garbage r = []) (hb : s1.tab[bi]? = some b) (hh : s1.hs[bi]? = some h) (ho : b.closed = false) :
    Inv L { s1 with garbages := amod [] (fun _ =>
      ((h.cache r).filter (releasable L s1.maxWorlds s1.maxConsts b h r)).map (fun i => (bi, i))) s1.garbages r } := by
  have hgar : ∀ r', SState.garbage { s1 with garbages := amod [] (fun _ =>
        ((h.cache r).filter (releasable L s1.maxWorlds s1.maxConsts b h r)).map (fun i => (bi, i))) s1.garbages r } r' =
      if r' = r then ((h.cache r).filter (releasable L s1.maxWorlds s1.maxConsts b h r)).map (fun i => (bi, i)) else s1.garbage r' := by
    intro r'
    simp only [SState.garbage, aget_amod]
  have I0 := (branchInv_iff hh).1 (hinv.branch bi b h hb hh ho)
  refine ⟨hinv.len, ?_, ?_⟩
  · intro r' p hp
    rw [hgar] at hp
    split at hp
    · obtain ⟨i, hi, rfl⟩ := List.mem_map.1 hp
      obtain ⟨nd, hn, _⟩ := I0.cacheSound r i (List.mem_filter.1 hi).1
      refine ⟨b, hb, ?_⟩
      rcases Nat.lt_or_ge i b.nodes.length with h1 | h1
      · exact h1
      · rw [List.getElem?_eq_none h1] at hn; cases hn
    · exact hinv.gb r' p hp
  · intro bj b' h' hb' hh' ho'
    have hh'' : s1.hs[bj]? = some h' := hh'
    have I := (branchInv_iff hh'').1 (hinv.branch bj b' h' hb' hh'' ho')
    rw [branchInv_iff (s := { s1 with garbages := _ }) hh']
    have := I.recache (dead' := fun r' i => (bj, i) ∈ SState.garbage { s1 with garbages := amod [] (fun _ =>
        ((h.cache r).filter (releasable L s1.maxWorlds s1.maxConsts b h r)).map (fun i => (bi, i))) s1.garbages r } r') h'.caches
      (fun r' i hi => hi) ?_
    · exact this
    · intro r' i hi hd
      rw [hgar]
      by_cases hr : r' = r
      · subst hr
        simp only [↓reduceIte, List.mem_map, Prod.mk.injEq, List.mem_filter]
        by_cases hbj : bj = bi
        · subst hbj
          rw [hb] at hb'; rw [hh] at hh''
          simp only [Option.some.injEq] at hb' hh''
          subst hb'; subst hh''
          by_cases hrel : releasable L s1.maxWorlds s1.maxConsts b h r' i = true
          · exact Or.inr hrel
          · left
            refine ⟨hi, ?_⟩
            rintro ⟨j, ⟨_, hj⟩, _, rfl⟩
            exact hrel hj
        · left
          refine ⟨hi, ?_⟩
          rintro ⟨j, _, he, _⟩
          exact hbj he.symm
      · simp only [hr, ↓reduceIte]
        exact Or.inl ⟨hi, hd⟩

/-- (1b) `Ev.search`: a `rule.target(branch)` call (gc, then release of the dead cached nodes) keeps the invariant -/
theorem inv_search {L : LogicData} {s : SState} (hinv : Inv L s) (r : RuleId) (bi : Nat) : Inv L (s.search L r bi) := by
  have h1 := inv_gc hinv r
  have hg : (s.gc r).garbage r = [] := by rw [gc_garbage]; simp
  unfold SState.search
  simp only
  split
  · next b h hb hh =>
    split
    · exact h1
    · next ho =>
      have := inv_release h1 r bi hg hb hh (by simpa using ho)
      rw [gc_maxWorlds, gc_maxConsts] at this
      generalize hrel : ((h.cache r).filter (releasable L s.maxWorlds s.maxConsts b h r)).map (fun i => (bi, i)) = rel at this ⊢
      cases rel with
      | nil => exact h1
      | cons x xs => exact this
  · exact h1

end Ptx.Search
