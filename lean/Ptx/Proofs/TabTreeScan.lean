/-
  Ptx.Proofs.TabTreeScan — lemmas about the pieces of `Tree._build`: first-occurrence dedup (`qset`),
  the `while True` loop (`scanF`), and the branch groups of `_build_branches` (a permutation of the
  branches when every branch has a node at the split depth).
-/
import Ptx.Tab.Tree
namespace Ptx
namespace TabTree

/-! ### `dedupR` -/

theorem mem_dedupR {x : Nat} : ∀ {l : List Nat}, x ∈ dedupR l ↔ x ∈ l
  | [] => by simp [dedupR]
  | y :: ys => by
    simp only [dedupR, List.mem_cons, List.mem_filter, mem_dedupR (l := ys)]
    constructor
    · rintro (h | ⟨h, _⟩)
      · exact Or.inl h
      · exact Or.inr h
    · rintro (h | h)
      · exact Or.inl h
      · by_cases e : x = y
        · exact Or.inl e
        · exact Or.inr ⟨h, by simpa using e⟩

theorem dedupR_nodup : ∀ l : List Nat, (dedupR l).Nodup
  | [] => List.nodup_nil
  | y :: ys => by
    simp only [dedupR, List.nodup_cons, List.mem_filter]
    refine ⟨fun h => ?_, (dedupR_nodup ys).sublist List.filter_sublist⟩
    simp at h

theorem dedupR_eq_nil {l : List Nat} (h : dedupR l = []) : l = [] := by
  cases l with
  | nil => rfl
  | cons y ys => simp [dedupR] at h

/-! ### the branches present at a depth -/

theorem mem_presentAt {brs : List TB} {d : Nat} {b : TB} {o : NObj} :
    (b, o) ∈ presentAt brs d ↔ b ∈ brs ∧ b.r.objs[d]? = some o := by
  simp only [presentAt, List.mem_filterMap, Option.map_eq_some_iff, Prod.mk.injEq]
  constructor
  · rintro ⟨a, ha, o', ho', rfl, rfl⟩; exact ⟨ha, ho'⟩
  · rintro ⟨hb, ho⟩; exact ⟨b, hb, o, ho, rfl, rfl⟩

theorem presentAt_keys (brs : List TB) (d : Nat) :
    (presentAt brs d).map (·.2.orig) = brs.filterMap (fun b => b.keyAt d) := by
  simp only [presentAt, List.map_filterMap, TB.keyAt]
  congr 1
  funext b
  cases b.r.objs[d]? <;> rfl

/-! ### the `while True` loop -/

/-- what the loop of `_build` has done when it breaks: it collected nodes `new` from depth `d` on;
    each collected node is the node of some branch at that depth, and every branch that has a node
    at that depth has one with the same identity; it stops at the first depth where the number of
    distinct identities is not 1. -/
theorem scan_spec : ∀ (f : Nat) (brs : List TB) (d : Nat) (acc sc : Scan), scanF f brs d acc = .ok sc →
    ∃ new : List NObj, sc.nodes = acc.nodes ++ new ∧ sc.depth = d + new.length ∧
      (∀ j o, new[j]? = some o → ∃ c ∈ brs, c.r.objs[d + j]? = some o) ∧
      (∀ b ∈ brs, ∀ j o o', new[j]? = some o → b.r.objs[d + j]? = some o' → o'.orig = o.orig) ∧
      sc.last = dedupR ((presentAt brs sc.depth).map (·.2.orig)) ∧ sc.last.length ≠ 1
  | 0, _, _, _, _, h => by simp [scanF] at h
  | f + 1, brs, d, acc, sc, h => by
    simp only [scanF] at h
    split at h
    · next x sp o rest hk hp =>
      split at h
      · cases h
      · split at h
        · cases h
        · obtain ⟨new', h1, h2, h3, h4, h5, h6⟩ := scan_spec f brs (d + 1) _ sc h
          have hsp : (sp, o) ∈ presentAt brs d := by rw [hp]; exact List.mem_cons_self
          have hall : ∀ b o', (b, o') ∈ presentAt brs d → o'.orig = x := by
            intro b o' hm
            have : o'.orig ∈ dedupR ((presentAt brs d).map (·.2.orig)) :=
              mem_dedupR.2 (List.mem_map.2 ⟨(b, o'), hm, rfl⟩)
            rw [hk] at this
            simpa using this
          refine ⟨o :: new', ?_, ?_, ?_, ?_, h5, h6⟩
          · rw [h1]; simp
          · rw [h2]; simp; omega
          · intro j o' hj
            cases j with
            | zero =>
              simp only [List.getElem?_cons_zero, Option.some.injEq] at hj
              subst hj
              exact ⟨sp, (mem_presentAt.1 hsp).1, (mem_presentAt.1 hsp).2⟩
            | succ j =>
              simp only [List.getElem?_cons_succ] at hj
              obtain ⟨c, hc, hco⟩ := h3 j o' hj
              exact ⟨c, hc, by rw [← hco]; congr 1; omega⟩
          · intro b hb j o1 o2 hj hbo
            cases j with
            | zero =>
              simp only [List.getElem?_cons_zero, Option.some.injEq] at hj
              subst hj
              rw [hall b o2 (mem_presentAt.2 ⟨hb, hbo⟩), hall sp o hsp]
            | succ j =>
              simp only [List.getElem?_cons_succ] at hj
              exact h4 b hb j o1 o2 hj (by rw [← hbo]; congr 1; omega)
    · next ks pr hne =>
      simp only [Except.ok.injEq] at h
      subst h
      refine ⟨[], by simp, by simp, by simp, by simp, rfl, ?_⟩
      intro hlen
      simp only at hlen
      obtain ⟨x, hx⟩ := List.length_eq_one_iff.1 hlen
      cases hpr : presentAt brs d with
      | nil => rw [hpr] at hx; simp [dedupR] at hx
      | cons so rest =>
        obtain ⟨sp, o⟩ := so
        exact hne x sp o rest hx hpr

/-! ### the branch groups are a permutation of the branches -/

theorem filter_key_ne {brs : List TB} {key : TB → Option Nat} {k k' : Nat} (hne : k' ≠ k) :
    brs.filter (fun b => key b == some k') =
      (brs.filter (fun b => !(key b == some k))).filter (fun b => key b == some k') := by
  rw [List.filter_filter]
  apply List.filter_congr
  intro b _
  by_cases e : key b = some k'
  · simp [e, hne]
  · simp [e]

theorem groups_perm_aux (key : TB → Option Nat) : ∀ (K : List Nat) (brs : List TB), K.Nodup →
    (∀ b ∈ brs, ∃ k ∈ K, key b = some k) →
    (K.flatMap (fun k => brs.filter (fun b => key b == some k))).Perm brs
  | [], brs, _, hall => by
    cases brs with
    | nil => simp
    | cons b bs => obtain ⟨k, hk, _⟩ := hall b List.mem_cons_self; cases hk
  | k :: K, brs, hnd, hall => by
    have hk : k ∉ K := (List.nodup_cons.1 hnd).1
    have hK : K.Nodup := (List.nodup_cons.1 hnd).2
    have hrest : K.flatMap (fun k' => brs.filter (fun b => key b == some k')) =
        K.flatMap (fun k' => (brs.filter (fun b => !(key b == some k))).filter (fun b => key b == some k')) := by
      rw [List.flatMap_def, List.flatMap_def]
      congr 1
      apply List.map_congr_left
      intro k' hk'
      exact filter_key_ne (fun e => hk (e ▸ hk'))
    have ih := groups_perm_aux key K (brs.filter (fun b => !(key b == some k))) hK (by
      intro b hb
      simp only [List.mem_filter] at hb
      obtain ⟨k', hk', hkey⟩ := hall b hb.1
      rcases List.mem_cons.1 hk' with rfl | hk'
      · simp [hkey] at hb
      · exact ⟨k', hk', hkey⟩)
    simp only [List.flatMap_cons]
    rw [hrest]
    exact (List.Perm.append_left _ ih).trans (List.filter_append_perm _ brs)

/-- `for node in nodes: [b for b in branches if b[depth] == node]` is a permutation of the branches
    when every branch has a node at `depth` -/
theorem groups_perm {brs : List TB} {d : Nat} (hall : ∀ b ∈ brs, d < b.r.objs.length) :
    ((groupsAt brs d (dedupR ((presentAt brs d).map (·.2.orig)))).flatten).Perm brs := by
  rw [groupsAt, ← List.flatMap_def]
  apply groups_perm_aux (fun b => b.keyAt d) _ brs (dedupR_nodup _)
  intro b hb
  have hlt := hall b hb
  refine ⟨(b.r.objs[d]'hlt).orig, ?_, ?_⟩
  · rw [mem_dedupR, presentAt_keys]
    simp only [List.mem_filterMap]
    exact ⟨b, hb, by simp [TB.keyAt, List.getElem?_eq_getElem hlt]⟩
  · simp [TB.keyAt, List.getElem?_eq_getElem hlt]

end TabTree
end Ptx
