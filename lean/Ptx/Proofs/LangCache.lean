/- helper lemmas for C14: the construction cache (core Lean only) -/
import Ptx.Lang.Cache
namespace Ptx

/-! ### fuel monotonicity of the cache-free meaning -/

theorem runP_mono (f g : Cls → List Arg → R)
    (h : ∀ c a r, f c a = r → r ≠ .error .fuel → g c a = r) :
    ∀ (p : Prog) (r : R), runP f p = r → r ≠ .error .fuel → runP g p = r := by
  intro p
  induction p with
  | ret x => intro r hr _; simpa [runP] using hr
  | fail e => intro r hr _; simpa [runP] using hr
  | call cls args k ih =>
    intro r hr hne
    simp only [runP] at hr ⊢
    cases hf : f cls args with
    | ok x =>
      rw [hf] at hr
      rw [h cls args (.ok x) hf (by simp)]
      exact ih x r hr hne
    | error e =>
      rw [hf] at hr
      simp only at hr
      subst hr
      rw [h cls args (.error e) hf hne]

theorem evalP_mono (fx : Fixes) : ∀ (n : Nat) (cls : Cls) (args : List Arg) (r : R),
    evalP fx n cls args = r → r ≠ .error .fuel → evalP fx (n+1) cls args = r := by
  intro n
  induction n with
  | zero => intro cls args r h hne; simp [evalP] at h; exact absurd h.symm hne
  | succ n ih =>
    intro cls args r h hne
    rw [evalP] at h ⊢
    cases hp : pre fx cls args with
    | some r0 => simpa [hp] using h
    | none =>
      simp only [hp] at h ⊢
      by_cases ha : cls.isAbstract
      · simp only [ha, ↓reduceIte] at h ⊢
        cases hd : decodeIdent cls args with
        | error e => simpa [hd] using h
        | ok t =>
          obtain ⟨cn, sp, tgt⟩ := t
          simp only [hd] at h ⊢
          cases hi : iterate sp with
          | error e => simpa [hi] using h
          | ok xs =>
            simp only [hi] at h ⊢
            cases tgt with
            | lex c => exact ih c xs r h hne
            | quantifier => exact h
            | operator => exact h
      · simp only [ha, Bool.false_eq_true, ↓reduceIte] at h ⊢
        exact runP_mono _ _ (fun c a r => ih c a r) _ r h hne

theorem evalP_mono_le (fx : Fixes) {n m : Nat} (hnm : n ≤ m) (cls : Cls) (args : List Arg) (r : R)
    (h : evalP fx n cls args = r) (hne : r ≠ .error .fuel) : evalP fx m cls args = r := by
  induction hnm with
  | refl => exact h
  | step _ ih => exact evalP_mono fx _ cls args r ih hne

/-- results do not depend on the budget once it suffices -/
theorem evalP_det (fx : Fixes) {n m : Nat} {cls : Cls} {args : List Arg} {v : Item} {r : R}
    (h1 : evalP fx n cls args = .ok v) (h2 : evalP fx m cls args = r) (hne : r ≠ .error .fuel) :
    r = .ok v := by
  rcases Nat.le_total n m with h | h
  · rw [← h2]; exact evalP_mono_le fx h cls args _ h1 (by simp)
  · have := evalP_mono_le fx h cls args _ h2 hne
    rw [h1] at this; exact this.symm

theorem keyBuildP_det (fx : Fixes) {n m : Nat} {k : Arg} {v : Item} {r : R}
    (h1 : keyBuildP fx n k = .ok v) (h2 : keyBuildP fx m k = r) (hne : r ≠ .error .fuel) :
    r = .ok v := by
  unfold keyBuildP at h1 h2
  split at h1
  · rw [← h2, ← h1]
  · rename_i cn sp
    simp only at h2
    cases hl : lexTypeOf cn with
    | error e => simp [hl] at h1
    | ok tgt =>
      simp only [hl] at h1 h2
      cases hi : iterate sp with
      | error e => simp [hi] at h1
      | ok xs =>
        simp only [hi] at h1 h2
        cases tgt with
        | lex c => exact evalP_det fx h1 h2 hne
        | quantifier => rw [← h2, ← h1]
        | operator => rw [← h2, ← h1]
  · simp at h1

/-! ### assoc lists -/

theorem assocGet_mem {α β} [DecidableEq α] {k : α} {v : β} {l : List (α × β)}
    (h : assocGet k l = some v) : (k, v) ∈ l := by
  induction l with
  | nil => simp [assocGet] at h
  | cons e l ih =>
    obtain ⟨k', v'⟩ := e
    simp only [assocGet] at h
    by_cases hk : k' = k
    · simp only [hk, ↓reduceIte, Option.some.injEq] at h; subst h; subst hk; simp
    · simp only [hk, ↓reduceIte] at h; exact List.mem_cons_of_mem _ (ih h)

theorem mem_assocSet {α β} [DecidableEq α] {k k' : α} {v v' : β} {l : List (α × β)}
    (h : (k', v') ∈ assocSet k v l) : (k', v') = (k, v) ∨ (k', v') ∈ l := by
  unfold assocSet at h
  split at h
  · simp only [List.mem_map] at h
    obtain ⟨e, he, heq⟩ := h
    by_cases hk : e.1 = k
    · simp only [hk, ↓reduceIte] at heq; exact Or.inl heq.symm
    · simp only [hk, ↓reduceIte] at heq; subst heq; exact Or.inr he
  · simp only [List.mem_append, List.mem_singleton] at h
    rcases h with h | h
    · exact Or.inr h
    · exact Or.inl h

/-! ### the semantic half of the invariant: every entry is what a fresh build would return -/

/-- `idx[k] = v` only if a fresh build of what `k` denotes returns `v` -/
def Cache.Sound (fx : Fixes) (c : Cache) : Prop :=
  ∀ k v, (k, v) ∈ c.idx → ∃ m, keyBuildP fx m k = .ok v

/-- every constructible item is rebuilt from its ident (the round trip the cache relies on
    when it files an item under `inst.ident`) -/
def RoundTrips (fx : Fixes) : Prop :=
  ∀ n cls args x, evalP fx n cls args = .ok x → ∃ m, keyBuildP fx m (identArg x) = .ok x

def isCrash (r : R) : Prop := r = .error .key ∨ r = .error .index

theorem Sound.bind {fx : Fixes} {c c' : Cache} {key : Arg} {v : Item} (hc : c.Sound fx)
    (hk : ∃ m, keyBuildP fx m key = .ok v) (h : c.bind key v = .ok c') : c'.Sound fx := by
  unfold Cache.bind at h
  split at h
  · simp at h
  · simp only [Except.ok.injEq] at h
    subst h
    intro k w hm
    rcases mem_assocSet hm with h | h
    · simp only [Prod.mk.injEq] at h; rw [h.1, h.2]; exact hk
    · exact hc k w h

theorem Sound.evict {fx : Fixes} {c c' : Cache} (hc : c.Sound fx) (h : c.evict = .ok c') :
    c'.Sound fx := by
  unfold Cache.evict at h
  split at h
  · simp at h
  · split at h
    · simp at h
    · split at h
      · simp only [Except.ok.injEq] at h
        subst h
        intro k w hm
        exact hc k w (List.mem_filter.mp hm).1
      · simp at h

theorem Sound.makeRoom {fx : Fixes} {c c' : Cache} (hc : c.Sound fx) (h : c.makeRoom = .ok c') :
    c'.Sound fx := by
  unfold Cache.makeRoom at h
  split at h
  · exact Sound.evict hc h
  · simp only [Except.ok.injEq] at h; subst h; exact hc

theorem Sound.enroll {fx : Fixes} {c : Cache} (v : Item) (hc : c.Sound fx) : (c.enroll v).Sound fx := by
  intro k w hm
  rcases mem_assocSet hm with h | h
  · simp only [Prod.mk.injEq] at h; rw [h.1, h.2]; exact ⟨0, rfl⟩
  · exact hc k w h

theorem Sound.store {fx : Fixes} {c c' : Cache} {key : Arg} {v : Item} (hc : c.Sound fx)
    (hk : ∃ m, keyBuildP fx m key = .ok v) (h : c.store fx key v = .ok c') : c'.Sound fx := by
  unfold Cache.store at h
  split at h
  · split at h
    · simp at h
    · rename_i w hw
      obtain ⟨m, hm⟩ := hc _ _ (assocGet_mem hw)
      have : v = w := by simpa [keyBuildP] using hm
      subst this
      exact Sound.bind hc hk h
  · split at h
    · simp only [Except.ok.injEq] at h; subst h; exact hc
    · split at h
      · simp at h
      · rename_i c1 hc1
        exact Sound.bind (Sound.enroll v (Sound.makeRoom hc hc1)) hk h

theorem bind_err {c : Cache} {key : Arg} {v : Item} {e : Err} (h : c.bind key v = .error e) :
    e = .key := by
  unfold Cache.bind at h
  split at h
  · simpa using h.symm
  · simp at h

theorem evict_err {c : Cache} {e : Err} (h : c.evict = .error e) : e = .key ∨ e = .index := by
  unfold Cache.evict at h
  split at h
  · right; simpa using h.symm
  · split at h
    · left; simpa using h.symm
    · split at h
      · simp at h
      · left; simpa using h.symm

/-- a failing store is a KeyError / IndexError inside DequeCache -/
theorem store_err {fx : Fixes} {c : Cache} {key : Arg} {v : Item} {e : Err}
    (h : c.store fx key v = .error e) : e = .key ∨ e = .index := by
  unfold Cache.store at h
  split at h
  · split at h
    · left; simpa using h.symm
    · exact Or.inl (bind_err h)
  · split at h
    · simp at h
    · split at h
      · rename_i e' he
        simp only [Except.error.injEq] at h; subst h
        unfold Cache.makeRoom at he
        split at he
        · exact evict_err he
        · simp at he
      · exact Or.inl (bind_err h)

theorem storeBoth_spec {fx : Fixes} {c : Cache} {key : Arg} {x : Item} (hc : c.Sound fx)
    (hk : ∃ m, keyBuildP fx m key = .ok x) (hi : ∃ m, keyBuildP fx m (identArg x) = .ok x) :
    (storeBoth fx c key x).2.Sound fx ∧
      ((storeBoth fx c key x).1 = .ok x ∨ isCrash (storeBoth fx c key x).1) := by
  unfold storeBoth
  cases h1 : c.store fx key x with
  | error e =>
    refine ⟨hc, Or.inr ?_⟩
    rcases store_err h1 with h | h <;> simp [isCrash, h]
  | ok c1 =>
    have hc1 := Sound.store hc hk h1
    simp only
    cases h2 : c1.store fx (identArg x) x with
    | error e =>
      refine ⟨hc1, Or.inr ?_⟩
      rcases store_err h2 with h | h <;> simp [isCrash, h]
    | ok c2 => exact ⟨Sound.store hc1 hi h2, Or.inl rfl⟩

/-! ### keys denote the calls they were stored for -/

theorem Args.toList_ofList (l : List Arg) : (Args.ofList l).toList = l := by
  induction l with
  | nil => rfl
  | cons a l ih => simp [Args.ofList, Args.toList, ih]

theorem iterate_tuple (l : List Arg) : iterate (Arg.tuple l) = .ok l := by
  simp [Arg.tuple, iterate, Args.toList_ofList]

theorem lexTypeByName_cls (cls : Cls) :
    lexTypeByName cls.name = if cls.isAbstract then .error .value else .ok (.lex cls) := by
  cases cls <;> simp [Cls.name, lexTypeByName, Cls.isAbstract]

theorem keyBuildP_callKey (fx : Fixes) (m : Nat) (cls : Cls) (args : List Arg) :
    keyBuildP fx m (callKey cls args) =
      if cls.isAbstract then .error .value else evalP fx m cls args := by
  simp only [callKey, Arg.tuple, Args.ofList, keyBuildP, lexTypeOf, lexTypeByName_cls]
  by_cases h : cls.isAbstract
  · simp [h]
  · simp [h, iterate, Args.toList_ofList]

theorem decodeIdent_lexType {cls : Cls} {args : List Arg} {cn sp : Arg} {tgt : Target}
    (h : decodeIdent cls args = .ok (cn, sp, tgt)) : lexTypeOf cn = .ok tgt := by
  unfold decodeIdent at h
  split at h
  · split at h
    · simp at h
    · rename_i cn' sp' hu
      split at h
      · simp at h
      · rename_i tgt' hl
        split at h
        · simp only [Except.ok.injEq, Prod.mk.injEq] at h
          obtain ⟨h1, _, h3⟩ := h
          subst h1; subst h3; exact hl
        · simp at h
  · simp at h

theorem keyBuildP_pair (fx : Fixes) (m : Nat) (cn sp : Arg) :
    keyBuildP fx m (Arg.tuple [cn, sp]) =
      match lexTypeOf cn with
      | .error e => .error e
      | .ok tgt =>
        match iterate sp with
        | .error e => .error e
        | .ok xs =>
          match tgt with
          | .lex c => evalP fx m c xs
          | .quantifier => enumCall true xs
          | .operator => enumCall false xs := by
  rfl

/-! ### the cached call returns what a fresh build returns -/

/-- the statement proved for every budget `n` -/
def Transparent (fx : Fixes) (n : Nat) : Prop :=
  ∀ cls args c, c.Sound fx → ∀ r, evalP fx n cls args = r → r ≠ .error .fuel →
    (evalC fx n cls args c).2.Sound fx ∧
      ((evalC fx n cls args c).1 = r ∨ isCrash (evalC fx n cls args c).1)

theorem runC_spec (fx : Fixes) (n : Nat) (IH : Transparent fx n) :
    ∀ (p : Prog) (c : Cache), c.Sound fx → ∀ r, runP (evalP fx n) p = r → r ≠ .error .fuel →
      (runC (evalC fx n) p c).2.Sound fx ∧
        ((runC (evalC fx n) p c).1 = r ∨ isCrash (runC (evalC fx n) p c).1) := by
  intro p
  induction p with
  | ret x => intro c hc r hr _; simp only [runP] at hr; subst hr; exact ⟨hc, Or.inl rfl⟩
  | fail e => intro c hc r hr _; simp only [runP] at hr; subst hr; exact ⟨hc, Or.inl rfl⟩
  | call cls args k ih =>
    intro c hc r hr hne
    simp only [runP] at hr
    simp only [runC]
    cases hp : evalP fx n cls args with
    | ok x =>
      rw [hp] at hr
      obtain ⟨hs, hres⟩ := IH cls args c hc (.ok x) hp (by simp)
      rcases hc' : evalC fx n cls args c with ⟨r', c'⟩
      rw [hc'] at hs hres
      simp only at hs hres
      rcases hres with hres | hres
      · subst hres
        exact ih x c' hs r hr hne
      · rcases hres with h | h <;> (subst h; exact ⟨hs, Or.inr (by simp [isCrash])⟩)
    | error e =>
      rw [hp] at hr
      simp only at hr
      subst hr
      obtain ⟨hs, hres⟩ := IH cls args c hc _ hp hne
      rcases hc' : evalC fx n cls args c with ⟨r', c'⟩
      rw [hc'] at hs hres
      simp only at hs hres
      rcases hres with hres | hres
      · subst hres; exact ⟨hs, Or.inl rfl⟩
      · rcases hres with h | h <;> (subst h; exact ⟨hs, Or.inr (by simp [isCrash])⟩)

theorem transparent (fx : Fixes) (hRT : RoundTrips fx) : ∀ n, Transparent fx n := by
  intro n
  induction n with
  | zero =>
    intro cls args c hc r hr hne
    simp only [evalP] at hr
    exact absurd hr.symm hne
  | succ n ih =>
    intro cls args c hc r hr hne
    have hfull := hr
    rw [evalP] at hr
    rw [evalC]
    cases hp : pre fx cls args with
    | some r0 => simp only [hp] at hr ⊢; subst hr; exact ⟨hc, Or.inl rfl⟩
    | none =>
      simp only [hp] at hr ⊢
      -- lookup under (clsname, spec)
      cases hg : c.get (callKey cls args) with
      | some v =>
        simp only
        refine ⟨hc, Or.inl ?_⟩
        obtain ⟨m, hm⟩ := hc _ _ (assocGet_mem hg)
        rw [keyBuildP_callKey] at hm
        by_cases ha : cls.isAbstract
        · simp [ha] at hm
        · simp only [ha, Bool.false_eq_true, ↓reduceIte] at hm
          exact (evalP_det fx hm hfull hne).symm
      | none =>
        simp only
        by_cases ha : cls.isAbstract
        · simp only [ha, ↓reduceIte] at hr ⊢
          cases hd : decodeIdent cls args with
          | error e => simp only [hd] at hr ⊢; subst hr; exact ⟨hc, Or.inl rfl⟩
          | ok t =>
            obtain ⟨cn, sp, tgt⟩ := t
            simp only [hd] at hr ⊢
            have hlt := decodeIdent_lexType hd
            cases hg2 : c.get (Arg.tuple [cn, sp]) with
            | some v =>
              simp only
              refine ⟨hc, Or.inl ?_⟩
              obtain ⟨m, hm⟩ := hc _ _ (assocGet_mem hg2)
              rw [keyBuildP_pair, hlt] at hm
              simp only at hm
              cases hi : iterate sp with
              | error e => simp [hi] at hm
              | ok xs =>
                simp only [hi] at hm hr
                cases tgt with
                | lex c' => exact (evalP_det fx hm hr hne).symm
                | quantifier => rw [← hr, ← hm]
                | operator => rw [← hr, ← hm]
            | none =>
              simp only
              cases hi : iterate sp with
              | error e => simp only [hi] at hr ⊢; subst hr; exact ⟨hc, Or.inl rfl⟩
              | ok xs =>
                simp only [hi] at hr ⊢
                -- the nested call
                have key : ∀ (rc : R × Cache), rc.2.Sound fx → (rc.1 = r ∨ isCrash rc.1) →
                    (∀ x, r = .ok x → ∃ m, keyBuildP fx m (Arg.tuple [cn, sp]) = .ok x) →
                    (match rc with
                      | (.ok x, c') => storeBoth fx c' (Arg.tuple [cn, sp]) x
                      | (.error e, c') => (.error e, c')).2.Sound fx ∧
                    ((match rc with
                      | (.ok x, c') => storeBoth fx c' (Arg.tuple [cn, sp]) x
                      | (.error e, c') => (.error e, c')).1 = r ∨
                     isCrash (match rc with
                      | (.ok x, c') => storeBoth fx c' (Arg.tuple [cn, sp]) x
                      | (.error e, c') => (.error e, c')).1) := by
                  intro rc hs hres hkey
                  obtain ⟨r', c'⟩ := rc
                  simp only at hs hres
                  cases r' with
                  | error e => simp only; exact ⟨hs, hres⟩
                  | ok x =>
                    simp only
                    rcases hres with hres | hres
                    · have hk := hkey x hres.symm
                      have hi' := hRT (n+1) cls args x (by rw [hfull, ← hres])
                      have := storeBoth_spec (key := Arg.tuple [cn, sp]) hs hk hi'
                      rw [← hres]
                      exact this
                    · rcases hres with h | h <;> simp at h
                cases tgt with
                | lex c' =>
                  simp only at hr ⊢
                  obtain ⟨hs, hres⟩ := ih c' xs c hc r hr hne
                  refine key _ hs hres ?_
                  intro x hx
                  refine ⟨n, ?_⟩
                  rw [keyBuildP_pair, hlt]; simp only [hi]; rw [hr, hx]
                | quantifier =>
                  simp only at hr ⊢
                  refine key (enumCall true xs, c) hc (Or.inl hr) ?_
                  intro x hx
                  refine ⟨0, ?_⟩
                  rw [keyBuildP_pair, hlt]; simp only [hi]; rw [hr, hx]
                | operator =>
                  simp only at hr ⊢
                  refine key (enumCall false xs, c) hc (Or.inl hr) ?_
                  intro x hx
                  refine ⟨0, ?_⟩
                  rw [keyBuildP_pair, hlt]; simp only [hi]; rw [hr, hx]
        · simp only [ha, Bool.false_eq_true, ↓reduceIte] at hr ⊢
          obtain ⟨hs, hres⟩ := runC_spec fx n ih (body cls args) c hc r hr hne
          rcases hrc : runC (evalC fx n) (body cls args) c with ⟨r', c'⟩
          rw [hrc] at hs hres
          simp only at hs hres ⊢
          cases r' with
          | error e => simp only; exact ⟨hs, hres⟩
          | ok x =>
            simp only
            rcases hres with hres | hres
            · have hk : ∃ m, keyBuildP fx m (callKey cls args) = .ok x := by
                refine ⟨n+1, ?_⟩
                rw [keyBuildP_callKey]; simp only [ha, Bool.false_eq_true, ↓reduceIte]
                rw [hfull, ← hres]
              have hi' := hRT (n+1) cls args x (by rw [hfull, ← hres])
              have := storeBoth_spec (key := callKey cls args) hs hk hi'
              rw [← hres]
              exact this
            · rcases hres with h | h <;> simp at h

end Ptx
