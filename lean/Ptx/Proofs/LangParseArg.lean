/-
  Helper lemmas for C12: store compatibility from "one arity per symbol", the public Polish
  round trip, `str.split`/`join`, and the argument string.  Core Lean only.
-/
import Ptx.Proofs.LangParseRound
namespace Ptx.Parse
open Ptx Ptx.Sym Ptx.Write

theorem ConsistentPreds.mono {l l' : List Pred} (h : ∀ x ∈ l, x ∈ l') (hc : ConsistentPreds l') :
    ConsistentPreds l := fun p hp q hq => hc p (h p hp) q (h q hq)

/-- with auto-declaration on and a thawed store, "one arity per predicate symbol" (jointly with
    the store) is all the reader needs of the store -/
theorem storeCompat_of_consistent (cfg : Cfg) (hauto : cfg.autoPreds = true) : ∀ (s : Sent) (st : Store),
    st.frozen = false → ConsistentPreds (st.preds ++ userPreds s) →
    StoreCompat cfg st s ∧ (storeAfter st s).frozen = false ∧
      (∀ p ∈ (storeAfter st s).preds, p ∈ st.preds ++ userPreds s) := by
  intro s
  induction s with
  | atom i u => intro st hf _; exact ⟨trivial, hf, by simp [storeAfter, userPreds]⟩
  | pred p ps =>
    intro st hf hcons
    by_cases hneg : p.index < 0
    · exact ⟨Or.inl hneg, by simp [storeAfter, hneg, hf], by simp [storeAfter, hneg, userPreds]⟩
    · simp only [userPreds, hneg, if_false] at hcons
      cases hg : st.get p.index.toNat p.sub with
      | some q =>
        obtain ⟨hq, hi, hs⟩ := Store.get_some hg
        have : q = p := hcons q (by simp [hq]) p (by simp) (by omega) hs
        subst this
        exact ⟨Or.inr (Or.inl hg), by simp [storeAfter, hneg, hg, hf], by simp [storeAfter, hneg, hg, userPreds]; intro x hx; exact Or.inl hx⟩
      | none =>
        exact ⟨Or.inr (Or.inr ⟨hg, hauto, hf⟩), by simp [storeAfter, hneg, hg, hf],
          by simp [storeAfter, hneg, hg, userPreds]⟩
  | quant q vi vs b ih => intro st hf hcons; exact ih st hf hcons
  | op1 o a ih => intro st hf hcons; exact ih st hf hcons
  | op2 o a c iha ihc =>
    intro st hf hcons
    simp only [userPreds] at hcons
    obtain ⟨ha1, ha2, ha3⟩ := iha st hf (hcons.mono (by intro x hx; simp at hx ⊢; grind))
    have hcons2 : ConsistentPreds ((storeAfter st a).preds ++ userPreds c) := by
      apply hcons.mono
      intro x hx
      simp only [List.mem_append] at hx ⊢
      rcases hx with hx | hx
      · have := ha3 x hx
        simp only [List.mem_append] at this
        rcases this with h | h
        · exact Or.inl h
        · exact Or.inr (Or.inl h)
      · exact Or.inr (Or.inr hx)
    obtain ⟨hc1, hc2, hc3⟩ := ihc (storeAfter st a) ha2 hcons2
    refine ⟨⟨ha1, hc1⟩, hc2, ?_⟩
    intro x hx
    have := hc3 x hx
    simp only [List.mem_append, userPreds] at this ⊢
    rcases this with h | h
    · have := ha3 x h
      simp only [List.mem_append] at this
      rcases this with h | h
      · exact Or.inl h
      · exact Or.inr (Or.inl h)
    · exact Or.inr (Or.inr h)

section
variable {cfg : Cfg} {wt : StringTable} (hc : CompatP cfg.table wt cfg.maxi)
include hc

/-- public entry point, any store, trailing whitespace allowed -/
theorem parsePolish_write (s : Sent) (fuel : Nat) (store : Store) (r : List Chr)
    (hf : depth s ≤ fuel) (hwf : WF cfg.maxi s = true) (hsub : subsOK cfg.intMaxDigits s = true)
    (hst : StoreCompat cfg store s) (hr : chomp cfg.table r = []) :
    parsePolish cfg fuel store (writePolish wt s ++ r) = .ok s (storeAfter store s) := by
  have hstop : Stops cfg.table r := by simp [Stops, hr]
  simp only [parsePolish, callDefault, chomp_write hc s [] r hwf,
    readPolish_write hc s fuel [] store r hf hwf hsub hst hstop, exitCtx, hr, chomp, if_true, guard]

/-- every character of a written sentence is a character of the parse table -/
theorem write_chars_known (s : Sent) : ∀ b, wfIn cfg.maxi b s = true →
    ∀ c ∈ writePolish wt s, (cfg.table.lookup c).isSome = true := by
  have hsubc : ∀ n, ∀ c ∈ subChars n, (cfg.table.lookup c).isSome = true := by
    intro n c hcm
    unfold subChars at hcm
    split at hcm
    · cases hcm
    · simp only [List.mem_map] at hcm
      obtain ⟨d, hd, rfl⟩ := hcm
      rw [hc.digit d (decDigits_lt n d hd)]; rfl
  have hpar : ∀ p : Param, paramIdxOK cfg.maxi p = true → ∀ c ∈ render wt (paramToks p), (cfg.table.lookup c).isSome = true := by
    intro p hp c hcm
    obtain ⟨c', h1, h2⟩ := render_param hc p hp
    rw [h1] at hcm
    simp only [List.mem_cons] at hcm
    rcases hcm with rfl | hcm
    · rw [h2]; rfl
    · exact hsubc _ c hcm
  have hpars : ∀ ps : List Param, ps.all (paramIdxOK cfg.maxi) = true → ∀ c ∈ render wt (paramsToks ps), (cfg.table.lookup c).isSome = true := by
    intro ps
    induction ps with
    | nil => intro _ c hcm; simp [paramsToks, render] at hcm
    | cons p ps ih =>
      intro hp c hcm
      simp only [List.all_cons, Bool.and_eq_true] at hp
      simp only [paramsToks_cons, render_append, List.mem_append] at hcm
      rcases hcm with h | h
      · exact hpar p hp.1 c h
      · exact ih hp.2 c h
  induction s with
  | atom i u =>
    intro b hwf c hcm
    obtain ⟨c', h1, h2⟩ := hc.atom i (by simpa [wfIn] using hwf)
    simp only [writePolish_atom hc, h1, List.cons_append, List.nil_append, List.mem_cons] at hcm
    rcases hcm with rfl | hcm
    · rw [h2]; rfl
    · exact hsubc _ c hcm
  | pred p ps =>
    intro b hwf c hcm
    simp only [wfIn, Bool.and_eq_true] at hwf
    obtain ⟨c', h1, h2⟩ := render_pred hc p hwf.1.1
    simp only [writePolish, polishToks, render_append, h1, List.cons_append, List.mem_cons, List.mem_append] at hcm
    rcases hcm with rfl | hcm | hcm
    · rw [h2]; rfl
    · exact hsubc _ c hcm
    · exact hpars ps (all_paramOK_idx hwf.2) c hcm
  | quant q vi vs body ih =>
    intro b hwf c hcm
    simp only [wfIn, Bool.and_eq_true, decide_eq_true_eq] at hwf
    obtain ⟨cq, hq1, hq2⟩ := hc.quant q
    obtain ⟨cv, hv1, hv2⟩ := hc.var vi hwf.1.1.1
    simp only [writePolish_quant hc, hq1, hv1, List.cons_append, List.nil_append, List.mem_cons, List.mem_append] at hcm
    rcases hcm with rfl | rfl | hcm | hcm
    · rw [hq2]; rfl
    · rw [hv2]; rfl
    · exact hsubc _ c hcm
    · exact ih _ hwf.2 c hcm
  | op1 o a ih =>
    intro b hwf c hcm
    obtain ⟨co, h1, h2⟩ := hc.op1 o
    simp only [writePolish_op1 hc, h1, List.cons_append, List.nil_append, List.mem_cons] at hcm
    rcases hcm with rfl | hcm
    · rw [h2]; rfl
    · exact ih b (by simpa [wfIn] using hwf) c hcm
  | op2 o a c' iha ihc =>
    intro b hwf c hcm
    obtain ⟨co, h1, h2⟩ := hc.op2 o
    simp only [wfIn, Bool.and_eq_true] at hwf
    simp only [writePolish_op2, h1, List.cons_append, List.nil_append, List.mem_cons, List.mem_append] at hcm
    rcases hcm with rfl | hcm | hcm
    · rw [h2]; rfl
    · exact iha b hwf.1 c hcm
    · exact ihc b hwf.2 c hcm

end

/-! ### split / join -/

theorem splitOn_ne_nil (sep : Chr) (l : List Chr) : splitOn sep l ≠ [] := by
  induction l with
  | nil => simp [splitOn]
  | cons c r ih =>
    unfold splitOn
    split
    · simp
    · split <;> simp

theorem splitOn_no_sep (sep : Chr) (x : List Chr) (h : sep ∉ x) : splitOn sep x = [x] := by
  induction x with
  | nil => simp [splitOn]
  | cons c r ih =>
    simp only [List.mem_cons, not_or] at h
    have hne : c ≠ sep := fun e => h.1 e.symm
    simp [splitOn, hne, ih h.2]

theorem splitOn_append_sep (sep : Chr) (x rest : List Chr) (h : sep ∉ x) :
    splitOn sep (x ++ sep :: rest) = x :: splitOn sep rest := by
  induction x with
  | nil => simp [splitOn]
  | cons c r ih =>
    simp only [List.mem_cons, not_or] at h
    have hne : c ≠ sep := fun e => h.1 e.symm
    simp [splitOn, hne, ih h.2]

theorem splitOn_intercalate (sep : Chr) : ∀ (x : List Chr) (xs : List (List Chr)),
    (∀ y ∈ x :: xs, sep ∉ y) → splitOn sep (intercalate sep (x :: xs)) = x :: xs := by
  intro x xs
  induction xs generalizing x with
  | nil => intro h; simpa [intercalate] using splitOn_no_sep sep x (h x (by simp))
  | cons y ys ih =>
    intro h
    simp only [intercalate]
    rw [splitOn_append_sep sep x _ (h x (by simp)), ih y (fun z hz => h z (by simp [hz]))]

/-! ### the argument string -/

/-- the store after reading a list of sentences on one parser -/
def storeAfterAll : Store → List Sent → Store
  | st, [] => st
  | st, s :: ss => storeAfterAll (storeAfter st s) ss

def StoreCompatAll (cfg : Cfg) : Store → List Sent → Prop
  | _, [] => True
  | st, s :: ss => StoreCompat cfg st s ∧ StoreCompatAll cfg (storeAfter st s) ss

theorem storeCompatAll_of_consistent (cfg : Cfg) (hauto : cfg.autoPreds = true) : ∀ (ss : List Sent) (st : Store),
    st.frozen = false → ConsistentPreds (st.preds ++ ss.flatMap userPreds) → StoreCompatAll cfg st ss := by
  intro ss
  induction ss with
  | nil => intro _ _ _; trivial
  | cons s ss ih =>
    intro st hf hcons
    simp only [List.flatMap_cons] at hcons
    obtain ⟨h1, h2, h3⟩ := storeCompat_of_consistent cfg hauto s st hf
      (hcons.mono (by intro x hx; simp at hx ⊢; grind))
    refine ⟨h1, ih _ h2 (hcons.mono ?_)⟩
    intro x hx
    simp only [List.mem_append] at hx ⊢
    rcases hx with hx | hx
    · have := h3 x hx
      simp only [List.mem_append] at this
      rcases this with h | h
      · exact Or.inl h
      · exact Or.inr (Or.inl h)
    · exact Or.inr (Or.inr hx)

theorem parseAll_write {cfg : Cfg} {wt : StringTable} (hc : CompatP cfg.table wt cfg.maxi) (fuel : Nat) :
    ∀ (ss : List Sent) (st : Store),
      (∀ s ∈ ss, depth s ≤ fuel ∧ WF cfg.maxi s = true ∧ subsOK cfg.intMaxDigits s = true) →
      StoreCompatAll cfg st ss →
      parseAll cfg fuel st (ss.map (writePolish wt)) = .ok (ss, storeAfterAll st ss) := by
  intro ss
  induction ss with
  | nil => intro st _ _; simp [parseAll, storeAfterAll]
  | cons s ss ih =>
    intro st h hst
    obtain ⟨h1, h2, h3⟩ := h s (by simp)
    have := parsePolish_write hc s fuel st [] h1 h2 h3 hst.1 (by simp [chomp])
    simp only [List.append_nil] at this
    simp only [List.map_cons, parseAll, this, ih (storeAfter st s) (fun x hx => h x (by simp [hx])) hst.2,
      storeAfterAll]

end Ptx.Parse
