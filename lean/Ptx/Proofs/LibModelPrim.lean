/-
  Ptx.Proofs.LibModelPrim — `set_literal_value` / `set_value` reduce to the three primitive setters:
  every such call either raises and leaves the model as it was, or IS one specific call of
  `set_atomic_value` / `set_predicated_value` / `set_opaque_value` (the literal's atom / predication with the
  value negated by the logic's own ¬ table once per stripped negation; an uninterpreted sentence as it is),
  with the same outcome — state and exception — on every model.  Hence a program of public setter calls
  runs exactly like its primitive reduction (`run_reduce`), and the order theorems cover every setter.
-/
import Ptx.Proofs.LibModelSerial
namespace Ptx.LibModel
open Ptx

/-- the primitive call a `set_literal_value(s, v, world=w)` comes down to (`none`: the call raises) -/
def litPrim (L : LogicData) : Sent → V → Nat → Option MOp
  | s, v, w =>
    if !hasVal L v then none else
    if isOpaque L s then some (.setOpaque s v w) else
    match s with
    | .op1 .neg a => litPrim L a (L.T.f1 .neg v) w
    | .atom i j => some (.setAtomic i j v w)
    | .pred p ps => some (.setPred p ps v w)
    | _ => none

/-- the primitive call a public call comes down to (`none`: a setter that raises whatever the model is, or `finish`) -/
def MOp.toPrim (L : LogicData) : MOp → Option MOp
  | .setLiteral s v w => litPrim L s v w
  | .setValue s v w =>
      if !hasVal L v then none else
      if isOpaque L s then some (.setOpaque s v w) else
      if isLiteral L s then litPrim L s v w else none
  | .finish => none
  | op => some op

/-- the reduced call (calls without a reduction stay) -/
def MOp.reduce (L : LogicData) (op : MOp) : MOp := (op.toPrim L).getD op

/-- every call but `finish()` -/
def MOp.setter : MOp → Bool
  | .finish => false
  | _ => true

/-- value-setting primitive calls (no `R.add`) -/
def MOp.valPrim : MOp → Bool
  | .setAtomic _ _ _ _ => true
  | .setPred _ _ _ _ => true
  | .setOpaque _ _ _ => true
  | _ => false

theorem MOp.prim_of_valPrim {op : MOp} (h : op.valPrim = true) : op.prim = true := by
  cases op <;> simp [MOp.valPrim] at h <;> rfl

theorem MOp.setter_of_prim {op : MOp} (h : op.prim = true) : op.setter = true := by
  cases op <;> simp [MOp.prim] at h <;> rfl

theorem step_valPrim_finished {L : LogicData} {hints : Hints} {m : Model} {op : MOp} (h : op.valPrim = true)
    (hfin : m.finished = true) : step L hints m op = (m, some .illegalState) := by
  cases op <;> simp [MOp.valPrim] at h
  · simp [step, setAtomic, hfin]
  · simp [step, setPredicated, hfin]
  · simp [step, setOpaque, hfin]

theorem setLiteral_finished {L : LogicData} {m : Model} (s : Sent) (v : V) (w : Nat) (hfin : m.finished = true) :
    setLiteral L m s v w = (m, some .illegalState) := by
  unfold setLiteral; simp [hfin]

theorem litPrim_valPrim {L : LogicData} : ∀ (s : Sent) (v : V) (w : Nat) (op : MOp), litPrim L s v w = some op →
    op.valPrim = true := by
  intro s
  induction s with
  | atom i j =>
    intro v w op h
    unfold litPrim at h
    split at h
    · cases h
    split at h
    · cases h; rfl
    · cases h; rfl
  | pred p ps =>
    intro v w op h
    unfold litPrim at h
    split at h
    · cases h
    split at h
    · cases h; rfl
    · cases h; rfl
  | quant q vi vs b _ =>
    intro v w op h
    unfold litPrim at h
    split at h
    · cases h
    split at h
    · cases h; rfl
    · cases h
  | op1 o a ih =>
    intro v w op h
    unfold litPrim at h
    split at h
    · cases h
    split at h
    · cases h; rfl
    · cases o
      · cases h
      · exact ih _ w op h
      · cases h
      · cases h
  | op2 o a b _ _ =>
    intro v w op h
    unfold litPrim at h
    split at h
    · cases h
    split at h
    · cases h; rfl
    · cases h

/-- `set_literal_value` IS the primitive call it reduces to -/
theorem setLiteral_eq_prim {L : LogicData} (hints : Hints) : ∀ (s : Sent) (m : Model) (v : V) (w : Nat) (op : MOp),
    litPrim L s v w = some op → setLiteral L m s v w = step L hints m op := by
  intro s
  induction s with
  | atom i j =>
    intro m v w op h
    unfold litPrim at h
    unfold setLiteral
    by_cases hv : (!hasVal L v) = true
    · simp [hv] at h
    simp only [hv, Bool.false_eq_true, ↓reduceIte] at h ⊢
    split at h
    · cases h
      simp only [step]
      by_cases hfin : m.finished = true <;> simp [hfin, setOpaque, *]
    · cases h
      simp only [step]
      by_cases hfin : m.finished = true <;> simp [hfin, setAtomic, *]
  | pred p ps =>
    intro m v w op h
    unfold litPrim at h
    unfold setLiteral
    by_cases hv : (!hasVal L v) = true
    · simp [hv] at h
    simp only [hv, Bool.false_eq_true, ↓reduceIte] at h ⊢
    split at h
    · cases h
      simp only [step]
      by_cases hfin : m.finished = true <;> simp [hfin, setOpaque, *]
    · cases h
      simp only [step]
      by_cases hfin : m.finished = true <;> simp [hfin, setPredicated, *]
  | quant q vi vs b _ =>
    intro m v w op h
    unfold litPrim at h
    unfold setLiteral
    by_cases hv : (!hasVal L v) = true
    · simp [hv] at h
    simp only [hv, Bool.false_eq_true, ↓reduceIte] at h ⊢
    split at h
    · cases h
      simp only [step]
      by_cases hfin : m.finished = true <;> simp [hfin, setOpaque, *]
    · cases h
  | op1 o a ih =>
    intro m v w op h
    unfold litPrim at h
    unfold setLiteral
    by_cases hv : (!hasVal L v) = true
    · simp [hv] at h
    simp only [hv, Bool.false_eq_true, ↓reduceIte] at h ⊢
    split at h
    · cases h
      simp only [step]
      by_cases hfin : m.finished = true <;> simp [hfin, setOpaque, *]
    · next hop =>
      simp only [hop, Bool.false_eq_true, ↓reduceIte]
      cases o
      · cases h
      · simp only at h ⊢
        by_cases hfin : m.finished = true
        · simp only [hfin, ↓reduceIte]
          exact (step_valPrim_finished (litPrim_valPrim _ _ _ _ h) hfin).symm
        · simp only [hfin, Bool.false_eq_true, ↓reduceIte]
          exact ih m _ w op h
      · cases h
      · cases h
  | op2 o a b _ _ =>
    intro m v w op h
    unfold litPrim at h
    unfold setLiteral
    by_cases hv : (!hasVal L v) = true
    · simp [hv] at h
    simp only [hv, Bool.false_eq_true, ↓reduceIte] at h ⊢
    split at h
    · cases h
      simp only [step]
      by_cases hfin : m.finished = true <;> simp [hfin, setOpaque, *]
    · cases h

/-- without a reduction `set_literal_value` raises and leaves the model as it was -/
theorem setLiteral_none {L : LogicData} : ∀ (s : Sent) (m : Model) (v : V) (w : Nat),
    litPrim L s v w = none → ∃ e, setLiteral L m s v w = (m, some e) := by
  intro s
  induction s with
  | atom i j =>
    intro m v w h
    unfold litPrim at h
    unfold setLiteral
    by_cases hfin : m.finished = true
    · exact ⟨.illegalState, by simp [hfin]⟩
    by_cases hv : (!hasVal L v) = true
    · exact ⟨.key, by simp [hfin, hv]⟩
    simp only [hv, Bool.false_eq_true, ↓reduceIte] at h
    split at h <;> cases h
  | pred p ps =>
    intro m v w h
    unfold litPrim at h
    unfold setLiteral
    by_cases hfin : m.finished = true
    · exact ⟨.illegalState, by simp [hfin]⟩
    by_cases hv : (!hasVal L v) = true
    · exact ⟨.key, by simp [hfin, hv]⟩
    simp only [hv, Bool.false_eq_true, ↓reduceIte] at h
    split at h <;> cases h
  | quant q vi vs b _ =>
    intro m v w h
    unfold litPrim at h
    unfold setLiteral
    by_cases hfin : m.finished = true
    · exact ⟨.illegalState, by simp [hfin]⟩
    by_cases hv : (!hasVal L v) = true
    · exact ⟨.key, by simp [hfin, hv]⟩
    simp only [hv, Bool.false_eq_true, ↓reduceIte] at h
    split at h
    · cases h
    · next hop => exact ⟨.notImpl, by simp [hfin, hv, hop]⟩
  | op1 o a ih =>
    intro m v w h
    unfold litPrim at h
    unfold setLiteral
    by_cases hfin : m.finished = true
    · exact ⟨.illegalState, by simp [hfin]⟩
    by_cases hv : (!hasVal L v) = true
    · exact ⟨.key, by simp [hfin, hv]⟩
    simp only [hv, Bool.false_eq_true, ↓reduceIte] at h
    split at h
    · cases h
    · next hop =>
      simp only [hfin, hv, hop, Bool.false_eq_true, ↓reduceIte]
      cases o
      · exact ⟨_, rfl⟩
      · exact ih m _ w h
      · exact ⟨_, rfl⟩
      · exact ⟨_, rfl⟩
  | op2 o a b _ _ =>
    intro m v w h
    unfold litPrim at h
    unfold setLiteral
    by_cases hfin : m.finished = true
    · exact ⟨.illegalState, by simp [hfin]⟩
    by_cases hv : (!hasVal L v) = true
    · exact ⟨.key, by simp [hfin, hv]⟩
    simp only [hv, Bool.false_eq_true, ↓reduceIte] at h
    split at h
    · cases h
    · next hop => exact ⟨.notImpl, by simp [hfin, hv, hop]⟩

theorem MOp.toPrim_prim {L : LogicData} {op op' : MOp} (h : op.toPrim L = some op') : op'.prim = true := by
  cases op with
  | setLiteral s v w => exact MOp.prim_of_valPrim (litPrim_valPrim _ _ _ _ h)
  | setValue s v w =>
    simp only [MOp.toPrim] at h
    split at h
    · cases h
    split at h
    · cases h; rfl
    split at h
    · exact MOp.prim_of_valPrim (litPrim_valPrim _ _ _ _ h)
    · cases h
  | finish => cases h
  | setAtomic i j v w => cases h; rfl
  | setPred p ps v w => cases h; rfl
  | setOpaque s v w => cases h; rfl
  | rAdd a b => cases h; rfl

/-- REDUCTION: a public call that has a reduction has, on every model, exactly the outcome (state and
    exception) of the primitive call -/
theorem step_toPrim {L : LogicData} (hints : Hints) (m : Model) {op op' : MOp} (h : op.toPrim L = some op') :
    step L hints m op = step L hints m op' := by
  cases op with
  | setLiteral s v w => exact setLiteral_eq_prim hints s m v w op' h
  | setValue s v w =>
    simp only [MOp.toPrim] at h
    show setValue L m s v w = step L hints m op'
    unfold setValue
    split at h
    · cases h
    next hv =>
    split at h
    · next hop =>
      cases h
      simp only [step]
      by_cases hfin : m.finished = true <;> simp [hfin, setOpaque, hv, hop]
    next hop =>
    split at h
    · next hlit =>
      simp only [hv, hop, hlit, Bool.false_eq_true, ↓reduceIte]
      by_cases hfin : m.finished = true
      · simp only [hfin, ↓reduceIte]
        exact (step_valPrim_finished (litPrim_valPrim _ _ _ _ h) hfin).symm
      · simp only [hfin, Bool.false_eq_true, ↓reduceIte]
        exact setLiteral_eq_prim hints s m v w op' h
    · cases h
  | finish => cases h
  | setAtomic i j v w => cases h; rfl
  | setPred p ps v w => cases h; rfl
  | setOpaque s v w => cases h; rfl
  | rAdd a b => cases h; rfl

/-- … and a setter call without a reduction raises, leaving the model as it was -/
theorem step_toPrim_none {L : LogicData} (hints : Hints) (m : Model) {op : MOp} (hs : op.setter = true)
    (h : op.toPrim L = none) : ∃ e, step L hints m op = (m, some e) := by
  cases op with
  | setLiteral s v w => exact setLiteral_none s m v w h
  | setValue s v w =>
    simp only [MOp.toPrim] at h
    simp only [step]
    unfold setValue
    by_cases hfin : m.finished = true
    · exact ⟨.illegalState, by simp [hfin]⟩
    by_cases hv : (!hasVal L v) = true
    · exact ⟨.key, by simp [hfin, hv]⟩
    simp only [hv, Bool.false_eq_true, ↓reduceIte] at h
    split at h
    · cases h
    next hop =>
    split at h
    · next hlit =>
      simp only [hfin, hv, hop, hlit, Bool.false_eq_true, ↓reduceIte]
      exact setLiteral_none s m v w h
    · next hlit => exact ⟨.notImpl, by simp [hfin, hv, hop, hlit]⟩
  | finish => cases hs
  | setAtomic i j v w => cases h
  | setPred p ps v w => cases h
  | setOpaque s v w => cases h
  | rAdd a b => cases h

theorem step_reduce {L : LogicData} (hints : Hints) (m : Model) (op : MOp) :
    step L hints m (op.reduce L) = step L hints m op := by
  unfold MOp.reduce
  cases h : op.toPrim L with
  | none => rfl
  | some op' => exact (step_toPrim hints m h).symm

/-- a program runs exactly like its primitive reduction -/
theorem run_reduce {L : LogicData} (hints : Hints) : ∀ (ops : List MOp) (m : Model),
    run L hints m (ops.map (MOp.reduce L)) = run L hints m ops
  | [], _ => rfl
  | op :: ops, m => by
      simp only [List.map_cons, run, step_reduce]
      rw [run_reduce hints ops]

/-- in a program none of whose calls raises, every setter call has a primitive reduction -/
theorem reduce_prim_of_ok {L : LogicData} {hints : Hints} : ∀ (ops : List MOp) (m : Model),
    (∀ op ∈ ops, op.setter = true) → (∀ e ∈ (run L hints m ops).2, e = none) →
    ∀ op ∈ ops.map (MOp.reduce L), op.prim = true
  | [], _, _, _ => by simp
  | op :: ops, m, hs, hok => by
      simp only [run, List.mem_cons, forall_eq_or_imp] at hok
      simp only [List.map_cons, List.mem_cons, forall_eq_or_imp]
      refine ⟨?_, reduce_prim_of_ok ops _ (fun o ho => hs o (List.mem_cons_of_mem _ ho)) hok.2⟩
      unfold MOp.reduce
      cases h : op.toPrim L with
      | none =>
        obtain ⟨e, he⟩ := step_toPrim_none hints m (hs op List.mem_cons_self) h
        rw [he] at hok
        exact absurd hok.1 (by simp)
      | some op' => exact MOp.toPrim_prim h

end Ptx.LibModel
