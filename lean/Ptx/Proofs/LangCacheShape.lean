/- helper lemmas for C14: the structural half of the cache invariant (core Lean only) -/
import Ptx.Proofs.LangCache
namespace Ptx

/-! ### association lists (Python dicts) -/

section assoc
variable {α β : Type} [DecidableEq α]

theorem assocGet_append (k : α) (l l' : List (α × β)) :
    assocGet k (l ++ l') = match assocGet k l with | some v => some v | none => assocGet k l' := by
  induction l with
  | nil => rfl
  | cons e l ih =>
    obtain ⟨a, b⟩ := e
    simp only [List.cons_append, assocGet]
    split
    · rfl
    · exact ih

theorem assocGet_map_ne {k k' : α} (v : β) (h : k' ≠ k) (l : List (α × β)) :
    assocGet k (l.map fun e => if e.1 = k' then (k', v) else e) = assocGet k l := by
  induction l with
  | nil => rfl
  | cons e l ih =>
    obtain ⟨a, b⟩ := e
    simp only [List.map_cons, assocGet]
    by_cases ha : a = k'
    · subst ha; simp [h, ih]
    · simp only [ha, ↓reduceIte, ih]

theorem assocGet_map_eq {k : α} (v : β) (l : List (α × β)) (h : (assocGet k l).isSome = true) :
    assocGet k (l.map fun e => if e.1 = k then (k, v) else e) = some v := by
  induction l with
  | nil => simp [assocGet] at h
  | cons e l ih =>
    obtain ⟨a, b⟩ := e
    simp only [List.map_cons, assocGet]
    by_cases ha : a = k
    · subst ha; simp
    · simp only [assocGet, ha, ↓reduceIte] at h ⊢
      exact ih h

theorem assocGet_assocSet (k k' : α) (v : β) (l : List (α × β)) :
    assocGet k (assocSet k' v l) = if k' = k then some v else assocGet k l := by
  unfold assocSet
  by_cases hk : k' = k
  · subst hk
    simp only [↓reduceIte]
    split
    · rename_i h; exact assocGet_map_eq v l h
    · rename_i h
      rw [assocGet_append]
      cases hg : assocGet k' l with
      | some w => simp [hg] at h
      | none => simp [assocGet]
  · simp only [hk, ↓reduceIte]
    split
    · exact assocGet_map_ne v hk l
    · rw [assocGet_append]
      cases hg : assocGet k l with
      | some w => rfl
      | none => simp [assocGet, hk]

theorem assocGet_filter_key (p : α → Bool) (k : α) (l : List (α × β)) :
    assocGet k (l.filter fun e => p e.1) = if p k then assocGet k l else none := by
  induction l with
  | nil => simp [assocGet]
  | cons e l ih =>
    obtain ⟨a, b⟩ := e
    simp only [List.filter_cons]
    by_cases hpa : p a = true
    · simp only [hpa, ↓reduceIte, assocGet]
      by_cases hak : a = k
      · subst hak; simp [hpa]
      · simp only [hak, ↓reduceIte]; exact ih
    · simp only [hpa, Bool.false_eq_true, ↓reduceIte, assocGet]
      by_cases hak : a = k
      · subst hak; simp only [hpa, Bool.false_eq_true, ↓reduceIte] at ih ⊢; exact ih
      · simp only [hak, ↓reduceIte]; exact ih

theorem assocGet_isSome_iff (k : α) (l : List (α × β)) :
    (assocGet k l).isSome = true ↔ k ∈ l.map (·.1) := by
  induction l with
  | nil => simp [assocGet]
  | cons e l ih =>
    obtain ⟨a, b⟩ := e
    simp only [assocGet, List.map_cons, List.mem_cons]
    by_cases hak : a = k
    · subst hak; simp
    · simp only [hak, ↓reduceIte, ih]
      constructor
      · exact Or.inr
      · rintro (h | h)
        · exact absurd h.symm hak
        · exact h

theorem keys_assocSet (k : α) (v : β) (l : List (α × β)) :
    (assocSet k v l).map (·.1) =
      if (assocGet k l).isSome then l.map (·.1) else l.map (·.1) ++ [k] := by
  unfold assocSet
  split
  · simp only [List.map_map]
    apply List.map_congr_left
    intro e _
    simp only [Function.comp]
    split
    · rename_i h; exact h.symm
    · rfl
  · simp

theorem length_assocSet (k : α) (v : β) (l : List (α × β)) :
    (assocSet k v l).length = if (assocGet k l).isSome then l.length else l.length + 1 := by
  have := congrArg List.length (keys_assocSet k v l)
  simp only [List.length_map] at this
  rw [this]
  split <;> simp

theorem nodup_keys_assocSet (k : α) (v : β) (l : List (α × β)) (h : (l.map (·.1)).Nodup) :
    ((assocSet k v l).map (·.1)).Nodup := by
  rw [keys_assocSet]
  split
  · exact h
  · rename_i hk
    apply List.nodup_append.mpr
    refine ⟨h, by simp, ?_⟩
    intro a ha b hb
    simp only [List.mem_singleton] at hb
    subst hb
    intro hab; subst hab
    exact hk ((assocGet_isSome_iff a l).mpr ha)

omit [DecidableEq α] in
theorem nodup_keys_filter (p : α × β → Bool) (l : List (α × β)) (h : (l.map (·.1)).Nodup) :
    ((l.filter p).map (·.1)).Nodup :=
  List.Nodup.sublist (List.Sublist.map _ List.filter_sublist) h

theorem assocGet_of_mem {k : α} {v : β} {l : List (α × β)} (hn : (l.map (·.1)).Nodup)
    (h : (k, v) ∈ l) : assocGet k l = some v := by
  induction l with
  | nil => simp at h
  | cons e l ih =>
    obtain ⟨a, b⟩ := e
    simp only [List.map_cons, List.nodup_cons] at hn
    simp only [assocGet]
    rcases List.mem_cons.mp h with h | h
    · simp only [Prod.mk.injEq] at h; simp [h.1, h.2]
    · have : a ≠ k := by
        intro hak; subst hak
        exact hn.1 (List.mem_map_of_mem (f := (·.1)) h)
      simp only [this, ↓reduceIte]
      exact ih hn.2 h

omit [DecidableEq α] in
theorem assocGet_head_key {k : α} {ks : List α} {l : List (α × β)} (h : l.map (·.1) = k :: ks) :
    ∃ v r, l = (k, v) :: r ∧ r.map (·.1) = ks := by
  cases l with
  | nil => simp at h
  | cons e r =>
    obtain ⟨a, b⟩ := e
    simp only [List.map_cons, List.cons.injEq] at h
    exact ⟨b, r, by rw [h.1], h.2⟩

end assoc

/-! ### the structural invariant -/

/-- `rev.keys() == queue` (as sequences), no item queued twice, `len(queue) <= maxlen`, every
    key listed in `rev[v]` is bound to `v` in `idx` (and `v` itself is among them), every key of
    `idx` is listed in `rev` of the item it is bound to -/
structure Cache.Shape (c : Cache) : Prop where
  keys : c.rev.map (·.1) = c.queue
  nodup : c.queue.Nodup
  idxNodup : (c.idx.map (·.1)).Nodup
  len : c.queue.length ≤ c.maxlen
  revOK : ∀ v ks, assocGet v c.rev = some ks →
    Arg.item v ∈ ks ∧ ∀ k ∈ ks, assocGet k c.idx = some v
  idxOK : ∀ k v, assocGet k c.idx = some v → ∃ ks, assocGet v c.rev = some ks ∧ k ∈ ks

theorem Shape.empty (n : Nat) : (Cache.empty n).Shape :=
  ⟨rfl, List.nodup_nil, List.nodup_nil, Nat.zero_le _, by intro v ks h; simp [Cache.empty, assocGet] at h,
   by intro k v h; simp [Cache.empty, assocGet] at h⟩

theorem Shape.rev_length {c : Cache} (h : c.Shape) : c.rev.length = c.queue.length := by
  rw [← h.keys, List.length_map]

/-- `idx[key] = v; rev[v].add(key)` keeps the shape, if `key` is not bound to another item -/
theorem Shape.bind {c c' : Cache} {key : Arg} {v : Item} (hS : c.Shape)
    (hclob : ∀ w, assocGet key c.idx = some w → w = v) (h : c.bind key v = .ok c') :
    c'.Shape ∧ c'.maxlen = c.maxlen ∧ c'.queue = c.queue := by
  unfold Cache.bind at h
  split at h
  · simp at h
  · rename_i ks hks
    simp only [Except.ok.injEq] at h
    subst h
    refine ⟨⟨?_, hS.nodup, nodup_keys_assocSet _ _ _ hS.idxNodup, hS.len, ?_, ?_⟩, rfl, rfl⟩
    · simp only [keys_assocSet, hks, Option.isSome_some, ↓reduceIte]; exact hS.keys
    · intro w kw hw
      simp only [assocGet_assocSet] at hw ⊢
      by_cases hvw : v = w
      · subst hvw
        simp only [↓reduceIte, Option.some.injEq] at hw
        obtain ⟨hi, hall⟩ := hS.revOK v ks hks
        subst hw
        constructor
        · split
          · exact hi
          · exact List.mem_append_left _ hi
        · intro k hk
          by_cases hkk : key = k
          · simp [hkk]
          · simp only [hkk, ↓reduceIte]
            apply hall
            split at hk
            · exact hk
            · rcases List.mem_append.mp hk with h | h
              · exact h
              · simp only [List.mem_singleton] at h; exact absurd h.symm hkk
      · simp only [hvw, ↓reduceIte] at hw
        obtain ⟨hi, hall⟩ := hS.revOK w kw hw
        refine ⟨hi, ?_⟩
        intro k hk
        by_cases hkk : key = k
        · subst hkk
          exact absurd (hclob w (hall _ hk)).symm hvw
        · simp only [hkk, ↓reduceIte]; exact hall k hk
    · intro k w hw
      simp only [assocGet_assocSet] at hw ⊢
      by_cases hkk : key = k
      · subst hkk
        simp only [↓reduceIte, Option.some.injEq] at hw
        subst hw
        refine ⟨_, if_pos rfl, ?_⟩
        split
        · assumption
        · simp
      · simp only [hkk, ↓reduceIte] at hw
        obtain ⟨kw, hkw, hmem⟩ := hS.idxOK k w hw
        by_cases hvw : v = w
        · subst hvw
          rw [hks] at hkw
          simp only [Option.some.injEq] at hkw
          subst hkw
          refine ⟨_, if_pos rfl, ?_⟩
          split
          · exact hmem
          · exact List.mem_append_left _ hmem
        · exact ⟨kw, by simp [hvw, hkw], hmem⟩

/-- `bind` only fails when the item is not enrolled -/
theorem bind_ok {c : Cache} {key : Arg} {v : Item} {ks : List Arg} (h : assocGet v c.rev = some ks) :
    ∃ c', c.bind key v = .ok c' := by
  unfold Cache.bind; rw [h]; exact ⟨_, rfl⟩

/-- evicting the oldest item of a non-empty queue succeeds and keeps the shape -/
theorem Shape.evict {c : Cache} (hS : c.Shape) (hne : c.queue ≠ []) :
    ∃ c', c.evict = .ok c' ∧ c'.Shape ∧ c'.maxlen = c.maxlen ∧
      c'.queue.length + 1 = c.queue.length ∧
      (∀ v, assocGet v c.rev = none → assocGet v c'.rev = none) := by
  unfold Cache.evict
  cases hq : c.queue with
  | nil => exact absurd hq hne
  | cons old q =>
    simp only
    have hkeys := hS.keys
    rw [hq] at hkeys
    obtain ⟨ks, r, hrev, hr⟩ := assocGet_head_key hkeys
    have hold : assocGet old c.rev = some ks := by rw [hrev]; simp [assocGet]
    rw [hold]
    simp only
    obtain ⟨hi, hall⟩ := hS.revOK old ks hold
    have hcond : (ks.all fun k => (assocGet k c.idx).isSome) = true := by
      simp only [List.all_eq_true]
      intro k hk; rw [hall k hk]; rfl
    simp only [hcond, ↓reduceIte]
    have hnd := hS.nodup
    rw [hq] at hnd
    have hnotin : old ∉ q := (List.nodup_cons.mp hnd).1
    have hrevget : ∀ w, assocGet w (c.rev.filter fun e => decide (e.1 ≠ old)) =
        if w ≠ old then assocGet w c.rev else none := by
      intro w
      have := assocGet_filter_key (β := List Arg) (fun a => decide (a ≠ old)) w c.rev
      simpa using this
    have hidxget : ∀ k, assocGet k (c.idx.filter fun e => decide (e.1 ∉ ks)) =
        if k ∉ ks then assocGet k c.idx else none := by
      intro k
      have := assocGet_filter_key (β := Item) (fun a => decide (a ∉ ks)) k c.idx
      simpa using this
    refine ⟨_, rfl, ⟨?_, ?_, nodup_keys_filter _ _ hS.idxNodup, ?_, ?_, ?_⟩, rfl, ?_, ?_⟩
    · -- keys
      simp only
      rw [hrev]
      simp only [List.filter_cons, ne_eq, not_true_eq_false, decide_false, Bool.false_eq_true,
        ↓reduceIte]
      have : r.filter (fun e => decide (¬ e.1 = old)) = r := by
        apply List.filter_eq_self.mpr
        intro e he
        have : e.1 ∈ q := by rw [← hr]; exact List.mem_map_of_mem he
        simp only [decide_eq_true_eq]
        intro h; rw [h] at this; exact hnotin this
      rw [this, hr]
    · exact (List.nodup_cons.mp hnd).2
    · have := hS.len; rw [hq] at this; simp only [List.length_cons] at this; simp only; omega
    · intro w kw hw
      simp only [hrevget] at hw
      split at hw
      · rename_i hwo
        obtain ⟨hi', hall'⟩ := hS.revOK w kw hw
        refine ⟨hi', ?_⟩
        intro k hk
        simp only [hidxget]
        have : k ∉ ks := by
          intro hkk
          have h1 := hall k hkk
          have h2 := hall' k hk
          rw [h1] at h2
          simp only [Option.some.injEq] at h2
          exact hwo h2.symm
        simp only [this, not_false_eq_true, ↓reduceIte]
        exact hall' k hk
      · simp at hw
    · intro k w hw
      simp only [hidxget] at hw
      split at hw
      · rename_i hkk
        obtain ⟨kw, hkw, hmem⟩ := hS.idxOK k w hw
        have hwo : w ≠ old := by
          intro h; subst h
          rw [hold] at hkw
          simp only [Option.some.injEq] at hkw
          subst hkw
          exact hkk hmem
        exact ⟨kw, by simp only [hrevget, hwo, ne_eq, not_false_eq_true, ↓reduceIte, hkw], hmem⟩
      · simp at hw
    · simp
    · intro w hw
      simp only [hrevget]
      split
      · exact hw
      · rfl

/-- enrolling a new item into a queue with room keeps the shape -/
theorem Shape.enroll {c : Cache} {value : Item} (hS : c.Shape) (hnew : assocGet value c.rev = none)
    (hlen : c.queue.length < c.maxlen)
    (hitem : ∀ w, assocGet (Arg.item value) c.idx = some w → w = value) :
    (c.enroll value).Shape ∧ assocGet value (c.enroll value).rev = some [Arg.item value] := by
  have hnq : value ∉ c.queue := by
    rw [← hS.keys]
    intro h
    have := (assocGet_isSome_iff value c.rev).mpr h
    rw [hnew] at this; simp at this
  have hq : (c.enroll value).queue = c.queue ++ [value] := by
    simp only [Cache.enroll, List.length_append, List.length_singleton]
    rw [if_neg (by omega)]
  refine ⟨⟨?_, ?_, nodup_keys_assocSet _ _ _ hS.idxNodup, ?_, ?_, ?_⟩, ?_⟩
  · rw [hq]
    simp only [Cache.enroll, keys_assocSet, hnew, Option.isSome_none, Bool.false_eq_true, ↓reduceIte,
      hS.keys]
  · rw [hq]
    apply List.nodup_append.mpr
    refine ⟨hS.nodup, by simp, ?_⟩
    intro a ha b hb
    simp only [List.mem_singleton] at hb
    subst hb
    intro h; subst h; exact hnq ha
  · rw [hq]; simp only [List.length_append, List.length_singleton, Cache.enroll]; omega
  · intro w kw hw
    simp only [Cache.enroll, assocGet_assocSet] at hw ⊢
    by_cases hvw : value = w
    · subst hvw
      simp only [↓reduceIte, Option.some.injEq] at hw
      subst hw
      simp
    · simp only [hvw, ↓reduceIte] at hw
      obtain ⟨hi, hall⟩ := hS.revOK w kw hw
      refine ⟨hi, ?_⟩
      intro k hk
      by_cases hkk : Arg.item value = k
      · subst hkk
        exact absurd (hitem w (hall _ hk)).symm hvw
      · simp only [hkk, ↓reduceIte]; exact hall k hk
  · intro k w hw
    simp only [Cache.enroll, assocGet_assocSet] at hw ⊢
    by_cases hkk : Arg.item value = k
    · subst hkk
      simp only [↓reduceIte, Option.some.injEq] at hw
      subst hw
      exact ⟨_, if_pos rfl, by simp⟩
    · simp only [hkk, ↓reduceIte] at hw
      obtain ⟨kw, hkw, hmem⟩ := hS.idxOK k w hw
      have hvw : value ≠ w := by
        intro h; subst h; rw [hnew] at hkw; simp at hkw
      exact ⟨kw, by simp [hvw, hkw], hmem⟩
  · simp [Cache.enroll, assocGet_assocSet]

end Ptx
