/- helper lemmas for C14: call sequences, no internal KeyError/IndexError in a fresh build,
   `Valid` = constructible (core Lean only) -/
import Ptx.Proofs.LangCacheInv
namespace Ptx

/-! ### a fresh build never raises the KeyError / IndexError of DequeCache -/

def Err.internal : Err → Bool
  | .key => true | .index => true | _ => false

/-- no `fail` of the body is a KeyError / IndexError -/
def Prog.NC : Prog → Prop
  | .ret _ => True
  | .fail e => e.internal = false
  | .call _ _ k => ∀ x, (k x).NC

theorem iterate_err {a : Arg} {e : Err} (h : iterate a = .error e) : e = .type := by
  unfold iterate at h
  split at h <;> simp at h <;> exact h.symm

theorem coordArgs_err {n : Nat} {args : List Arg} {e : Err} (h : coordArgs n args = .error e) :
    e = .type := by
  rw [coordArgs_eq] at h
  generalize (match args with | [a] => iterate a | _ => Except.ok args) = xsE at h
  unfold coordTail at h
  split at h
  · simp at h; exact h.symm
  · split at h
    · simp at h; exact h.symm
    · split at h
      · simp at h
      · simp at h; exact h.symm

theorem enumQuant_err {a : Arg} {e : Err} (h : enumQuant a = .error e) : e = .value := by
  unfold enumQuant at h
  repeat' split at h
  all_goals first | (simp at h; done) | (simp at h; exact h.symm)

theorem enumOp_err {a : Arg} {e : Err} (h : enumOp a = .error e) : e = .value := by
  unfold enumOp at h
  repeat' split at h
  all_goals first | (simp at h; done) | (simp at h; exact h.symm)

theorem callEach_NC (cls : Cls) : ∀ (xs : List Arg) (k : List Item → Prog),
    (∀ items, (k items).NC) → (callEach cls xs k).NC := by
  intro xs
  induction xs with
  | nil => intro k hk; exact hk []
  | cons a as ih =>
    intro k hk
    simp only [callEach, Prog.NC]
    intro x
    exact ih _ (fun items => hk _)

theorem biCoords_NC (maxi : Int) (mk : Nat → Nat → Item) (args : List Arg) :
    (biCoords maxi mk args).NC := by
  unfold biCoords
  split
  · rename_i e he; rw [coordArgs_err he]; rfl
  · repeat' split
    all_goals first | trivial | rfl
  · rfl

theorem predBody_NC (args : List Arg) : (predBody args).NC := by
  rw [predBody_eq]
  generalize (match args with | [a] => iterate a | _ => Except.ok args) = xsE
  unfold predTail
  split
  · rfl
  · rfl
  · split
    · rename_i e he; rw [coordArgs_err he]; rfl
    · repeat' split
      all_goals first | trivial | rfl
    · rfl

theorem predicatedFin_NC (p : Pred) (items : List Item) : (predicatedFin p items).NC := by
  unfold predicatedFin
  repeat' split
  all_goals first | trivial | rfl

theorem operatedFin_NC (o : Op) (items : List Item) : (operatedFin o items).NC := by
  unfold operatedFin
  repeat' split
  all_goals first | trivial | rfl

theorem body_NC (cls : Cls) (args : List Arg) : (body cls args).NC := by
  cases cls <;> simp only [body]
  · exact predBody_NC args
  · exact biCoords_NC _ _ _
  · exact biCoords_NC _ _ _
  · exact biCoords_NC _ _ _
  · cases args with
    | nil => rfl
    | cons pred rest =>
      rw [predicatedBody_cons]
      intro P
      unfold predicatedK
      split
      · split
        · exact predicatedFin_NC _ _
        · split
          · rename_i e he; rw [iterate_err he]; rfl
          · exact callEach_NC _ _ _ (predicatedFin_NC _)
      · rfl
  · unfold quantifiedBody
    split
    · split
      · rename_i e he; rw [enumQuant_err he]; rfl
      · intro V S
        show (match V, S with
          | Item.param (Param.var vi vs), Item.sent b => Prog.ret (Item.sent (Sent.quant _ vi vs b))
          | _, _ => Prog.fail Err.type).NC
        split
        · trivial
        · rfl
    · rfl
  · cases args with
    | nil => rfl
    | cons oper rest =>
      rw [operatedBody_cons]
      split
      · rename_i e he; rw [enumOp_err he]; rfl
      · unfold operatedTail
        split
        · exact operatedFin_NC _ _
        · split
          · rename_i e he; rw [iterate_err he]; rfl
          · exact callEach_NC _ _ _ (operatedFin_NC _)
  all_goals rfl

theorem runP_NC (call : Cls → List Arg → R)
    (hcall : ∀ cls args e, call cls args = .error e → e.internal = false) :
    ∀ (p : Prog) (e : Err), p.NC → runP call p = .error e → e.internal = false := by
  intro p
  induction p with
  | ret y => intro e _ h; simp [runP] at h
  | fail e' => intro e hp h; simp only [runP, Except.error.injEq] at h; subst h; exact hp
  | call cls args k ih =>
    intro e hp h
    simp only [runP] at h
    cases hc : call cls args with
    | ok y => rw [hc] at h; exact ih y e (hp y) h
    | error e' =>
      rw [hc] at h
      simp only [Except.error.injEq] at h
      subst h
      exact hcall cls args _ hc

theorem lexTypeOf_err {a : Arg} {e : Err} (h : lexTypeOf a = .error e) : e = .value := by
  have hn : ∀ s, lexTypeByName s = .error e → e = .value := by
    intro s h
    unfold lexTypeByName at h
    repeat' split at h
    all_goals first | (simp at h; done) | (simp at h; exact h.symm)
  unfold lexTypeOf at h
  split at h
  · exact hn _ h
  · exact hn _ h
  · simp at h; exact h.symm

theorem decodeIdent_err {cls : Cls} {args : List Arg} {e : Err} (h : decodeIdent cls args = .error e) :
    e.internal = false := by
  unfold decodeIdent at h
  split at h
  · split at h
    · rename_i e' he
      simp only [Except.error.injEq] at h; subst h
      unfold unpack2 at he
      split at he
      · rename_i e'' hi
        simp only [Except.error.injEq] at he; subst he; rw [iterate_err hi]; rfl
      · simp at he
      · simp only [Except.error.injEq] at he; subst he; rfl
    · split at h
      · rename_i e' he
        simp only [Except.error.injEq] at h; subst h; rw [lexTypeOf_err he]; rfl
      · split at h
        · simp at h
        · simp only [Except.error.injEq] at h; subst h; rfl
  · simp only [Except.error.injEq] at h; subst h; rfl

theorem enumCall_err {b : Bool} {xs : List Arg} {e : Err} (h : enumCall b xs = .error e) :
    e.internal = false := by
  unfold enumCall at h
  split at h
  · split at h
    · cases hq : enumQuant _ with
      | ok q => rw [hq] at h; simp [Except.map] at h
      | error e' => rw [hq] at h; simp [Except.map] at h; subst h; rw [enumQuant_err hq]; rfl
    · cases hq : enumOp _ with
      | ok q => rw [hq] at h; simp [Except.map] at h
      | error e' => rw [hq] at h; simp [Except.map] at h; subst h; rw [enumOp_err hq]; rfl
  · simp only [Except.error.injEq] at h; subst h; rfl

theorem pre_err {fx : Fixes} {cls : Cls} {args : List Arg} {e : Err}
    (h : pre fx cls args = some (.error e)) : e = .value := by
  unfold pre at h
  simp only at h
  split at h
  · rename_i r hr
    simp only [Option.some.injEq] at h; subst h
    split at hr
    · split at hr <;> simp at hr
    · split at hr
      · simp only [Option.some.injEq] at hr
        unfold sysPredByName at hr
        repeat' split at hr
        all_goals first | (simp at hr; done) | (simp at hr; exact hr.symm)
      · simp at hr
    · simp at hr
  · repeat' split at h
    all_goals simp at h

/-- the cache-free call raises only the documented exceptions (or exhausts the budget):
    never the KeyError / IndexError of `DequeCache` -/
theorem evalP_no_crash (fx : Fixes) : ∀ (n : Nat) (cls : Cls) (args : List Arg) (e : Err),
    evalP fx n cls args = .error e → e.internal = false := by
  intro n
  induction n with
  | zero => intro cls args e h; simp only [evalP, Except.error.injEq] at h; subst h; rfl
  | succ n ih =>
    intro cls args e h
    rw [evalP] at h
    cases hp : pre fx cls args with
    | some r0 =>
      simp only [hp] at h
      subst h
      rw [pre_err hp]; rfl
    | none =>
      simp only [hp] at h
      by_cases hab : cls.isAbstract
      · simp only [hab, ↓reduceIte] at h
        cases hd : decodeIdent cls args with
        | error e' => simp only [hd, Except.error.injEq] at h; subst h; exact decodeIdent_err hd
        | ok t =>
          obtain ⟨cn, sp, tgt⟩ := t
          simp only [hd] at h
          cases hi : iterate sp with
          | error e' => simp only [hi, Except.error.injEq] at h; subst h; rw [iterate_err hi]; rfl
          | ok xs =>
            simp only [hi] at h
            cases tgt with
            | lex c => exact ih c xs e h
            | quantifier => exact enumCall_err h
            | operator => exact enumCall_err h
      · simp only [hab, Bool.false_eq_true, ↓reduceIte] at h
        exact runP_NC _ (fun c a e' he => ih c a e' he) _ e (body_NC cls args) h

theorem build_not_crash (fx : Fixes) (cls : Cls) (args : List Arg) : ¬ isCrash (build fx cls args) := by
  intro h
  rcases h with h | h
  · have := evalP_no_crash fx _ cls args _ h; simp [Err.internal] at this
  · have := evalP_no_crash fx _ cls args _ h; simp [Err.internal] at this

theorem ne_fuel_of_ok {r : R} {x : Item} (h : r = .ok x) : r ≠ .error .fuel := by
  rw [h]; simp

/-! ### sequences of calls against one cache -/

/-- a finite sequence of metaclass calls `cls(*args)` against one cache: the answers, in order,
    and the final cache -/
def runCalls (fx : Fixes) : Cache → List (Cls × List Arg) → List R × Cache
  | c, [] => ([], c)
  | c, cl :: rest =>
    ((metacall fx c cl.1 cl.2).1 :: (runCalls fx (metacall fx c cl.1 cl.2).2 rest).1,
     (runCalls fx (metacall fx c cl.1 cl.2).2 rest).2)

theorem metacall_spec (fx : Fixes) (hsp : fx.sysPred = true) (c : Cache) (hc : c.Inv fx) (cls : Cls)
    (args : List Arg) (hav : argsVI args = true) (hfuel : build fx cls args ≠ .error .fuel) :
    (metacall fx c cls args).1 = build fx cls args ∧ (metacall fx c cls args).2.Inv fx :=
  transparentV fx hsp (fuelFor args) cls args c hav hc _ rfl hfuel

theorem runCalls_spec (fx : Fixes) (hsp : fx.sysPred = true) :
    ∀ (calls : List (Cls × List Arg)) (c : Cache), c.Inv fx →
    (∀ cl ∈ calls, argsVI cl.2 = true ∧ build fx cl.1 cl.2 ≠ .error .fuel) →
    (runCalls fx c calls).1 = calls.map (fun cl => build fx cl.1 cl.2) ∧
      (runCalls fx c calls).2.Inv fx := by
  intro calls
  induction calls with
  | nil => intro c hc _; exact ⟨rfl, hc⟩
  | cons cl rest ih =>
    intro c hc h
    obtain ⟨h1, h2⟩ := metacall_spec fx hsp c hc cl.1 cl.2 (h cl (by simp)).1 (h cl (by simp)).2
    obtain ⟨h3, h4⟩ := ih _ h2 (fun cl' hcl => h cl' (List.mem_cons_of_mem _ hcl))
    simp only [runCalls, List.map_cons, h1, h3]
    exact ⟨trivial, h4⟩

/-! ### `Valid` implies the arity discipline `WF` of the order theorems -/

theorem Sent.valid_arityOK (s : Sent) (h : s.Valid = true) : s.ArityOK = true := by
  induction s with
  | atom i s => rfl
  | pred p ps =>
    simp only [Sent.Valid, Bool.and_eq_true] at h
    simpa [Sent.ArityOK] using h.2
  | quant q vi vs b ih =>
    simp only [Sent.Valid, Bool.and_eq_true] at h
    exact ih h.2
  | op1 o a ih => exact ih h
  | op2 o a b iha ihb =>
    simp only [Sent.Valid, Bool.and_eq_true] at h
    simp [Sent.ArityOK, iha h.1, ihb h.2]

theorem Item.valid_WF (x : Item) (h : x.Valid = true) : x.WF = true := by
  cases x with
  | sent s => exact Sent.valid_arityOK s h
  | _ => rfl

/-! ### `Valid` = constructible from plain values -/

mutual
/-- the argument carries no lexical item (ints, strings, tuples only) -/
def Arg.noItem : Arg → Bool
  | .int _ => true
  | .str _ => true
  | .tup xs => xs.noItem
  | .item _ => false
def Args.noItem : Args → Bool
  | .nil => true
  | .cons a as => a.noItem && as.noItem
end

mutual
theorem Arg.noItem_VI : ∀ a : Arg, a.noItem = true → a.VI = true
  | .int _, _ => rfl
  | .str _, _ => rfl
  | .tup xs, h => by simp only [Arg.noItem] at h; simp only [Arg.VI]; exact Args.noItem_VI xs h
  | .item _, h => by simp [Arg.noItem] at h
theorem Args.noItem_VI : ∀ xs : Args, xs.noItem = true → xs.VI = true
  | .nil, _ => rfl
  | .cons a as, h => by
    simp only [Args.noItem, Bool.and_eq_true] at h
    simp [Args.VI, Arg.noItem_VI a h.1, Args.noItem_VI as h.2]
end

def noItems (l : List Arg) : Bool := (Args.ofList l).noItem

@[simp] theorem noItems_nil : noItems [] = true := rfl
@[simp] theorem noItems_cons (a : Arg) (l : List Arg) : noItems (a :: l) = (a.noItem && noItems l) := rfl
@[simp] theorem noItem_tuple (l : List Arg) : (Arg.tuple l).noItem = noItems l := rfl
@[simp] theorem noItem_int (n : Int) : (Arg.int n).noItem = true := rfl
@[simp] theorem noItem_str (s : String) : (Arg.str s).noItem = true := rfl

theorem noItems_VI {l : List Arg} (h : noItems l = true) : argsVI l = true := by
  have := Args.noItem_VI _ h
  rwa [Args.VI_ofList] at this

theorem identsOfParams_noItems (ps : List Param) : noItems (identsOfParams ps) = true := by
  induction ps with
  | nil => rfl
  | cons p ps ih => cases p <;> simp [identsOfParams, Param.ident, Param.specArgs, ih]

theorem Sent.ident_noItem (s : Sent) : s.ident.noItem = true ∧ noItems s.specArgs = true := by
  induction s with
  | atom i s => simp [Sent.ident, Sent.specArgs]
  | pred p ps => simp [Sent.ident, Sent.specArgs, Pred.specArgs, identsOfParams_noItems]
  | quant q vi vs b ih => simp [Sent.ident, Sent.specArgs, ih.1]
  | op1 o a ih => simp [Sent.ident, Sent.specArgs, ih.1]
  | op2 o a b iha ihb => simp [Sent.ident, Sent.specArgs, iha.1, ihb.1]

/-- the published ident of an item is a plain value -/
theorem identArg_noItem (x : Item) : (identArg x).noItem = true := by
  cases x with
  | pred p => simp [identArg, specArgs, Pred.specArgs]
  | param p => cases p <;> simp [identArg, specArgs, Param.specArgs]
  | quant q => simp [identArg, specArgs]
  | op o => simp [identArg, specArgs]
  | sent s => simp [identArg, specArgs, (Sent.ident_noItem s).2]

/-- `Valid` items are exactly those a fresh process can construct from plain values -/
theorem valid_iff_constructible (fx : Fixes) (hs : fx.sysPred = true) (x : Item) :
    x.Valid = true ↔ ∃ cls args, noItems args = true ∧ build fx cls args = .ok x := by
  constructor
  · intro hv
    exact ⟨.lexicalAbc, [identArg x], by simp [identArg_noItem], ident_roundtrip_gen fx hs x hv⟩
  · rintro ⟨cls, args, hn, hb⟩
    exact evalP_valid fx _ cls args x (noItems_VI hn) hb

/-! ### the invariant in the terms of the three containers -/

theorem Shape.as_stated {c : Cache} (h : c.Shape) :
    c.rev.map (·.1) = c.queue ∧ c.queue.length ≤ c.maxlen ∧
    (∀ e ∈ c.rev, Arg.item e.1 ∈ e.2 ∧ ∀ k ∈ e.2, c.get k = some e.1) ∧
    (∀ e ∈ c.idx, ∃ ks, (e.2, ks) ∈ c.rev ∧ e.1 ∈ ks) := by
  refine ⟨h.keys, h.len, ?_, ?_⟩
  · rintro ⟨v, ks⟩ he
    have hn : (c.rev.map (·.1)).Nodup := by rw [h.keys]; exact h.nodup
    exact h.revOK v ks (assocGet_of_mem hn he)
  · rintro ⟨k, v⟩ he
    obtain ⟨ks, hks, hm⟩ := h.idxOK k v (assocGet_of_mem h.idxNodup he)
    exact ⟨ks, assocGet_mem hks, hm⟩

end Ptx
