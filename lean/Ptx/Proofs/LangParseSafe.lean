/-
  Helper lemmas for C13: specs of the reading primitives (frame, well-formed output, no
  unguarded crash).  Core Lean only.
-/
import Ptx.Proofs.LangParseBasic
import Ptx.Lang.ParseWF
namespace Ptx.Parse
open Ptx Ptx.Sym

theorem readParameter_spec (cfg : Cfg) (st : PState) :
    Frame st (readParameter cfg st) ∧
    ∀ p st', readParameter cfg st = .ok p st' →
      paramOK cfg.maxi st.bound p = true ∧ st'.rest.length < st.rest.length := by
  unfold readParameter
  cases hr : st.rest with
  | nil => simp [Frame]
  | cons c r =>
    simp only
    cases hk : cfg.table.lookup c with
    | none => simp only []; exact ⟨frame_unexp st (by simp [hr]), by simp [unexp, hr]⟩
    | some k =>
      cases k with
      | const i =>
        simp only []
        obtain ⟨hf, hx⟩ := frame_readCoords cfg st c r _ i hr hk rfl
        constructor
        · apply hf.andThen
          intro a st1 _
          split <;> simp [Frame, Kind.guarded]
        · intro p st' h
          cases hc : readCoords cfg st with
          | ok a s1 =>
            rw [hc] at h
            simp only [Res.andThen_ok] at h
            split at h
            · simp at h
            · simp at h
              obtain ⟨rfl, rfl⟩ := h
              have := hx a s1 hc
              exact ⟨by simp [paramOK]; omega, by have := congrArg List.length hr; omega⟩
          | perr s1 => rw [hc] at h; simp at h
          | crash k1 s1 => rw [hc] at h; simp at h
      | var i =>
        simp only []
        obtain ⟨hf, hx⟩ := frame_readCoords cfg st c r _ i hr hk rfl
        constructor
        · apply hf.andThen
          intro a st1 _
          split
          · simp [Frame, Kind.guarded]
          · split <;> simp [Frame]
        · intro p st' h
          cases hc : readCoords cfg st with
          | ok a s1 =>
            rw [hc] at h
            simp only [Res.andThen_ok] at h
            have hfr : Frame st (readCoords cfg st) := hf
            rw [hc] at hfr
            split at h
            · simp at h
            · split at h
              · simp at h
                obtain ⟨rfl, rfl⟩ := h
                have := hx a s1 hc
                rename_i hb
                rw [hfr.2.1] at hb
                exact ⟨by simp [paramOK]; exact ⟨by omega, hb⟩, by have := congrArg List.length hr; omega⟩
              · simp at h
          | perr s1 => rw [hc] at h; simp at h
          | crash k1 s1 => rw [hc] at h; simp at h
      | _ => simp only []; exact ⟨frame_unexp st (by simp [hr]), by simp [unexp, hr]⟩

theorem frame_readParameter (cfg : Cfg) (st : PState) : Frame st (readParameter cfg st) :=
  (readParameter_spec cfg st).1

theorem readParams_spec (cfg : Cfg) : ∀ n st,
    Frame st (readParams cfg n st) ∧
    ∀ ps st', readParams cfg n st = .ok ps st' →
      ps.length = n ∧ ps.all (paramOK cfg.maxi st.bound) = true := by
  intro n
  induction n with
  | zero => intro st; simp [readParams, Frame]
  | succ n ih =>
    intro st
    unfold readParams
    obtain ⟨hf, hp⟩ := readParameter_spec cfg st
    constructor
    · apply hf.andThen
      intro p st1 _
      apply (ih st1).1.andThen
      intro ps st2 _
      simp [Frame]
    · intro ps st' h
      cases hc : readParameter cfg st with
      | ok p s1 =>
        rw [hc] at h hf
        simp only [Res.andThen_ok] at h
        cases hc2 : readParams cfg n s1 with
        | ok ps2 s2 =>
          rw [hc2] at h
          simp at h
          obtain ⟨rfl, rfl⟩ := h
          have h1 := (hp p s1 hc).1
          have h2 := (ih s1).2 ps2 s2 hc2
          rw [hf.2.1] at h2
          simp [h1, h2.1]
          simpa using h2.2
        | perr s2 => rw [hc2] at h; simp at h
        | crash k2 s2 => rw [hc2] at h; simp at h
      | perr s1 => rw [hc] at h; simp at h
      | crash k1 s1 => rw [hc] at h; simp at h

theorem readParamsAuto_spec (cfg : Cfg) : ∀ f st, st.rest.length ≤ f →
    Frame st (readParamsAuto cfg f st) ∧
    ∀ ps st', readParamsAuto cfg f st = .ok ps st' → ps.all (paramOK cfg.maxi st.bound) = true := by
  intro f
  induction f with
  | zero =>
    intro st hl
    have hnil : st.rest = [] := by cases h : st.rest <;> simp [h] at hl ⊢
    unfold readParamsAuto
    simp [isParamStart, hnil, Frame]
  | succ f ih =>
    intro st hl
    unfold readParamsAuto
    split
    · obtain ⟨hf, hp⟩ := readParameter_spec cfg st
      simp only
      constructor
      · apply hf.andThen
        intro p st1 h1
        have hlt := (hp p st1 h1).2
        apply (ih st1 (by omega)).1.andThen
        intro ps st2 _
        simp [Frame]
      · intro ps st' h
        cases hc : readParameter cfg st with
        | ok p s1 =>
          rw [hc] at h hf
          simp only [Res.andThen_ok] at h
          have hlt := (hp p s1 hc).2
          cases hc2 : readParamsAuto cfg f s1 with
          | ok ps2 s2 =>
            rw [hc2] at h
            simp at h
            obtain ⟨rfl, rfl⟩ := h
            have h1 := (hp p s1 hc).1
            have h2 := (ih s1 (by omega)).2 ps2 s2 hc2
            rw [hf.2.1] at h2
            simp [h1]
            simpa using h2
          | perr s2 => rw [hc2] at h; simp at h
          | crash k2 s2 => rw [hc2] at h; simp at h
        | perr s1 => rw [hc] at h; simp at h
        | crash k1 s1 => rw [hc] at h; simp at h
    · simp [Frame]

end Ptx.Parse

namespace Ptx.Parse
open Ptx Ptx.Sym

/-- invariant of the predicate store while parsing under `cfg` -/
structure StoreInv (cfg : Cfg) (s : Store) : Prop where
  ok : s.OK cfg.maxi
  cons : s.Consistent
  thaw : cfg.autoPreds = true → s.frozen = false

/-- spec of a sentence reader started in `st` -/
def ReadSpec (cfg : Cfg) (st : PState) : Res Sent → Prop
  | .ok s st' => StoreInv cfg st'.store ∧ st'.bound = st.bound ∧ wfIn cfg.maxi st.bound s = true
  | .perr st' => StoreInv cfg st'.store
  | .crash k st' => StoreInv cfg st'.store ∧ k.guarded = true

theorem predOK_of_store {cfg : Cfg} {st : Store} (h : StoreInv cfg st) {p : Pred} (hp : p ∈ st.preds) :
    predOK cfg.maxi p = true := by
  have := h.ok p hp
  simp [predOK, this]

theorem readPredicate_spec (cfg : Cfg) (st : PState) (c : Chr) (r : List Chr) (k : Tok)
    (hr : st.rest = c :: r) (hk : cfg.table.lookup c = some k) (hp : k.isPred = true)
    (hinv : StoreInv cfg st.store) :
    Frame st (readPredicate cfg st) ∧
    ∀ x st', readPredicate cfg st = .ok x st' →
      match x with
      | .inl p => predOK cfg.maxi p = true
      | .inr is => st'.store.get is.1 is.2 = none := by
  unfold readPredicate
  simp only [hr, hk]
  cases k with
  | sysPred sp =>
    simp only
    constructor
    · have := advance_length cfg.table st (by simp [hr])
      simp only [Frame, advance_store, advance_bound, true_and]
      omega
    · intro x st' h
      simp at h
      obtain ⟨rfl, rfl⟩ := h
      cases sp <;> simp [SysPred.toPred, predOK]
  | pred i =>
    simp only
    obtain ⟨hf, _⟩ := frame_readCoords cfg st c r _ i hr hk rfl
    constructor
    · apply hf.andThen
      intro a st1 _
      split <;> simp [Frame]
    · intro x st' h
      cases hc : readCoords cfg st with
      | ok a s1 =>
        rw [hc] at h hf
        simp only [Res.andThen_ok] at h
        split at h
        · rename_i p hg
          simp at h
          obtain ⟨rfl, rfl⟩ := h
          have hs : s1.store = st.store := hf.1
          rw [hs] at hg
          exact predOK_of_store hinv (Store.get_some hg).1
        · rename_i hg
          simp at h
          obtain ⟨rfl, rfl⟩ := h
          exact hg
      | perr s1 => rw [hc] at h; simp at h
      | crash k1 s1 => rw [hc] at h; simp at h
  | _ => simp [Tok.isPred] at hp

theorem StoreInv.of_frame {α} {cfg : Cfg} {st : PState} {r : Res α} (h : StoreInv cfg st.store)
    (hf : Frame st r) : StoreInv cfg r.st.store := by
  cases r with
  | ok a s1 => simp only [Res.st]; rw [hf.1]; exact h
  | perr s1 => simp only [Res.st]; rw [hf]; exact h
  | crash k s1 => simp only [Res.st]; rw [hf.1]; exact h

/-- a frame-respecting reader whose `ok` values are well-formed satisfies `ReadSpec` -/
theorem ReadSpec.of_frame {cfg : Cfg} {st : PState} {r : Res Sent} (h : StoreInv cfg st.store)
    (hf : Frame st r) (hwf : ∀ s st', r = .ok s st' → wfIn cfg.maxi st.bound s = true) :
    ReadSpec cfg st r := by
  cases r with
  | ok a s1 => exact ⟨by rw [hf.1]; exact h, hf.2.1, hwf a s1 rfl⟩
  | perr s1 => simp only [ReadSpec]; rw [hf]; exact h
  | crash k s1 => exact ⟨by rw [hf.1]; exact h, hf.2⟩

theorem declare_spec (cfg : Cfg) (is : Nat × Nat) (ps : List Param) (st : PState)
    (hinv : StoreInv cfg st.store) (hauto : cfg.autoPreds = true)
    (hnone : st.store.get is.1 is.2 = none)
    (hps : ps.all (paramOK cfg.maxi st.bound) = true) :
    ReadSpec cfg st (declare cfg is ps st) := by
  unfold declare
  split
  · exact hinv
  · rename_i hc
    have hc1 : ps.length ≠ 0 := fun h => hc (Or.inl h)
    have hc2 : is.1 ≤ cfg.maxi.pred := by
      have : ¬ is.1 > cfg.maxi.pred := fun h => hc (Or.inr h)
      omega
    have hfro := hinv.thaw hauto
    have hfind : st.store.preds.find? (fun q => q.index == (is.1 : Int) && q.sub == is.2) = none := hnone
    simp only [Store.add, hfro, hfind]
    simp only [ReadSpec, Bool.false_eq_true, if_false]
    refine ⟨⟨?_, ?_, ?_⟩, trivial, ?_⟩
    · intro p hp
      simp at hp
      rcases hp with hp | rfl
      · exact hinv.ok p hp
      · simp; omega
    · intro p hp q hq hi hs
      simp at hp hq
      have hno := Store.get_none hnone
      rcases hp with hp | rfl <;> rcases hq with hq | rfl
      · exact hinv.cons p hp q hq hi hs
      · exact absurd ⟨by simpa using hi, by simpa using hs⟩ (hno p hp)
      · exact absurd ⟨by simpa using hi.symm, by simpa using hs.symm⟩ (hno q hq)
      · rfl
    · intro _; rfl
    · simp [wfIn, predOK, hps]
      right
      exact ⟨by omega, by omega⟩

theorem readPredicated_spec (cfg : Cfg) (st : PState) (c : Chr) (r : List Chr) (k : Tok)
    (hr : st.rest = c :: r) (hk : cfg.table.lookup c = some k) (hp : k.isPred = true)
    (hinv : StoreInv cfg st.store) :
    ReadSpec cfg st (readPredicated cfg st) := by
  unfold readPredicated
  obtain ⟨hf, hx⟩ := readPredicate_spec cfg st c r k hr hk hp hinv
  cases hc : readPredicate cfg st with
  | perr s1 => rw [hc] at hf; simp only [Res.andThen_perr, ReadSpec]; rw [hf]; exact hinv
  | crash k1 s1 => rw [hc] at hf; simp only [Res.andThen_crash, ReadSpec]; rw [hf.1]; exact ⟨hinv, hf.2⟩
  | ok x s1 =>
    rw [hc] at hf
    have hx1 := hx x s1 hc
    have hinv1 : StoreInv cfg s1.store := by rw [hf.1]; exact hinv
    simp only [Res.andThen_ok]
    cases x with
    | inl p =>
      simp only at hx1 ⊢
      obtain ⟨hfp, hpp⟩ := readParams_spec cfg p.arity s1
      have : ReadSpec cfg s1 ((readParams cfg p.arity s1).andThen fun ps st2 => Res.ok (Sent.pred p ps) st2) := by
        apply ReadSpec.of_frame hinv1
        · apply hfp.andThen
          intro a st2 _
          simp [Frame]
        · intro s st' h
          cases hc2 : readParams cfg p.arity s1 with
          | ok ps s2 =>
            rw [hc2] at h
            simp at h
            obtain ⟨rfl, rfl⟩ := h
            have := hpp ps s2 hc2
            simp [wfIn, hx1, this.1]
            simpa using this.2
          | perr s2 => rw [hc2] at h; simp at h
          | crash k2 s2 => rw [hc2] at h; simp at h
      revert this
      cases ((readParams cfg p.arity s1).andThen fun ps st2 => Res.ok (Sent.pred p ps) st2) <;>
        simp only [ReadSpec, hf.2.1] <;> exact id
    | inr is =>
      simp only at hx1 ⊢
      cases hauto : cfg.autoPreds with
      | false => simp only [Bool.not_false, if_true, ReadSpec]; exact hinv1
      | true =>
        simp only [Bool.not_true, Bool.false_eq_true, if_false]
        obtain ⟨hfa, hpa⟩ := readParamsAuto_spec cfg s1.rest.length s1 (Nat.le_refl _)
        cases hc2 : readParamsAuto cfg s1.rest.length s1 with
        | perr s2 => rw [hc2] at hfa; simp only [Res.andThen_perr, ReadSpec]; rw [hfa]; exact hinv1
        | crash k2 s2 => rw [hc2] at hfa; simp only [Res.andThen_crash, ReadSpec]; rw [hfa.1]; exact ⟨hinv1, hfa.2⟩
        | ok ps s2 =>
          rw [hc2] at hfa
          simp only [Res.andThen_ok]
          have hps := hpa ps s2 hc2
          have hd := declare_spec cfg is ps s2 (by rw [hfa.1]; exact hinv1) hauto (by rw [hfa.1]; exact hx1)
            (by rw [hfa.2.1]; exact hps)
          revert hd
          cases declare cfg is ps s2 <;> simp only [ReadSpec, hfa.2.1, hf.2.1] <;> exact id

end Ptx.Parse

namespace Ptx.Parse
open Ptx Ptx.Sym

theorem readAtomic_spec (cfg : Cfg) (st : PState) (c : Chr) (r : List Chr) (i : Nat)
    (hr : st.rest = c :: r) (hk : cfg.table.lookup c = some (.atom i))
    (hinv : StoreInv cfg st.store) : ReadSpec cfg st (readAtomic cfg st) := by
  unfold readAtomic
  obtain ⟨hf, _⟩ := frame_readCoords cfg st c r _ i hr hk rfl
  apply ReadSpec.of_frame hinv
  · apply hf.andThen
    intro a st1 _
    split <;> simp [Frame, Kind.guarded]
  · intro s st' h
    cases hc : readCoords cfg st with
    | ok a s1 =>
      rw [hc] at h
      simp only [Res.andThen_ok] at h
      split at h
      · simp at h
      · simp at h
        obtain ⟨rfl, rfl⟩ := h
        simp [wfIn]; omega
    | perr s1 => rw [hc] at h; simp at h
    | crash k1 s1 => rw [hc] at h; simp at h

theorem ReadSpec.perr_of_inv {cfg : Cfg} {st st' : PState} (h : StoreInv cfg st'.store) :
    ReadSpec cfg st (.perr st') := h

theorem readQuantified_spec (cfg : Cfg) (read : PState → Res Sent) (q : Quant) (st : PState)
    (hread : ∀ s, StoreInv cfg s.store → ReadSpec cfg s (read s))
    (hinv : StoreInv cfg st.store) : ReadSpec cfg st (readQuantified cfg read q st) := by
  unfold readQuantified
  have hinv0 : StoreInv cfg (advance cfg.table st).store := hinv
  simp only
  cases hr1 : (advance cfg.table st).rest with
  | nil => exact hinv0
  | cons c r =>
    simp only
    cases hk : cfg.table.lookup c with
    | none =>
      simp only [unexp, hr1]; exact hinv0
    | some k =>
      cases k with
      | var i =>
        simp only
        obtain ⟨hf, _⟩ := frame_readCoords cfg (advance cfg.table st) c r _ i hr1 hk rfl
        cases hc : readCoords cfg (advance cfg.table st) with
        | perr s1 => rw [hc] at hf; simp only [Res.andThen_perr, ReadSpec]; rw [hf]; exact hinv0
        | crash k1 s1 => rw [hc] at hf; simp only [Res.andThen_crash, ReadSpec]; rw [hf.1]; exact ⟨hinv0, hf.2⟩
        | ok v s2 =>
          rw [hc] at hf
          have hinv2 : StoreInv cfg s2.store := by rw [hf.1]; exact hinv0
          have hb2 : s2.bound = st.bound := hf.2.1
          simp only [Res.andThen_ok]
          split
          · exact ⟨hinv2, rfl⟩
          · rename_i hvi
            split
            · exact hinv2
            · rename_i hvb
              have hsp := hread { s2 with bound := v :: s2.bound } hinv2
              cases hb : read { s2 with bound := v :: s2.bound } with
              | perr s3 => rw [hb] at hsp; exact hsp
              | crash k3 s3 => rw [hb] at hsp; exact hsp
              | ok body s3 =>
                rw [hb] at hsp
                obtain ⟨hinv3, hb3, hwf⟩ := hsp
                simp only [Res.andThen_ok]
                split
                · exact hinv3
                · split
                  · exact hinv3
                  · rename_i hocc
                    refine ⟨hinv3, ?_, ?_⟩
                    · simp only at hb3 ⊢
                      rw [hb3, List.erase_cons_head, hb2]
                    · simp only at hwf
                      rw [hb2] at hvb hwf
                      have hocc' : v ∈ sentVars body := by simpa using hocc
                      simp [wfIn, hvb, hocc', hwf]
                      omega
      | _ => simp only [unexp, hr1]; exact hinv0

/-- the main invariant of `PolishParser._read` -/
theorem readPolish_spec (cfg : Cfg) : ∀ fuel st, StoreInv cfg st.store →
    ReadSpec cfg st (readPolish cfg fuel st) := by
  intro fuel
  induction fuel with
  | zero => intro st h; exact ⟨h, rfl⟩
  | succ f ih =>
    intro st hinv
    unfold readPolish
    cases hr : st.rest with
    | nil => exact hinv
    | cons c r =>
      simp only
      have hne : st.rest ≠ [] := by simp [hr]
      have hun : ReadSpec cfg st (unexp st : Res Sent) := by simp only [unexp, hr]; exact hinv
      cases hk : cfg.table.lookup c with
      | none => simpa using hun
      | some k =>
        cases k with
        | op1 o =>
          simp only
          have h1 := ih (advance cfg.table st) hinv
          cases hb : readPolish cfg f (advance cfg.table st) with
          | ok a s1 => rw [hb] at h1; exact ⟨h1.1, h1.2.1, by simpa [wfIn, advance_bound] using h1.2.2⟩
          | perr s1 => rw [hb] at h1; exact h1
          | crash k1 s1 => rw [hb] at h1; exact h1
        | op2 o =>
          simp only
          have h1 := ih (advance cfg.table st) hinv
          cases hb : readPolish cfg f (advance cfg.table st) with
          | perr s1 => rw [hb] at h1; exact h1
          | crash k1 s1 => rw [hb] at h1; exact h1
          | ok a s1 =>
            rw [hb] at h1
            simp only [Res.andThen_ok]
            have h2 := ih s1 h1.1
            cases hb2 : readPolish cfg f s1 with
            | perr s2 => rw [hb2] at h2; exact h2
            | crash k2 s2 => rw [hb2] at h2; exact h2
            | ok b s2 =>
              rw [hb2] at h2
              have hbd : s1.bound = st.bound := h1.2.1
              refine ⟨h2.1, h2.2.1.trans hbd, ?_⟩
              have ha := h1.2.2
              have hb' := h2.2.2
              rw [hbd] at hb'
              simp only [advance_bound] at ha
              simp [wfIn, ha, hb']
        | atom i => simp only; exact readAtomic_spec cfg st c r i hr hk hinv
        | quant q => simp only; exact readQuantified_spec cfg _ q st (fun s hs => ih s hs) hinv
        | pred i => simp only; exact readPredicated_spec cfg st c r _ hr hk rfl hinv
        | sysPred p => simp only; exact readPredicated_spec cfg st c r _ hr hk rfl hinv
        | _ => simpa using hun

end Ptx.Parse

namespace Ptx.Parse
open Ptx Ptx.Sym

theorem ReadSpec.mono_start {cfg : Cfg} {st st1 : PState} {r : Res Sent}
    (hb : st1.bound = st.bound) (h : ReadSpec cfg st1 r) : ReadSpec cfg st r := by
  cases r <;> simp only [ReadSpec, hb] at h ⊢ <;> exact h

theorem readInfix_spec (cfg : Cfg) (st : PState) (hinv : StoreInv cfg st.store) :
    ReadSpec cfg st (readInfix cfg st) := by
  unfold readInfix
  obtain ⟨hf, hp⟩ := readParameter_spec cfg st
  cases hc : readParameter cfg st with
  | perr s1 => rw [hc] at hf; simp only [Res.andThen_perr, ReadSpec]; rw [hf]; exact hinv
  | crash k1 s1 => rw [hc] at hf; simp only [Res.andThen_crash, ReadSpec]; rw [hf.1]; exact ⟨hinv, hf.2⟩
  | ok lhp s1 =>
    rw [hc] at hf
    have hlhp := (hp lhp s1 hc).1
    have hinv1 : StoreInv cfg s1.store := by rw [hf.1]; exact hinv
    have hb1 : s1.bound = st.bound := hf.2.1
    simp only [Res.andThen_ok]
    apply ReadSpec.mono_start hb1
    cases hr1 : s1.rest with
    | nil => exact hinv1
    | cons c r =>
      simp only
      have hun : ReadSpec cfg s1 (unexp s1 : Res Sent) := by simp only [unexp, hr1]; exact hinv1
      cases hk : cfg.table.lookup c with
      | none => exact hun
      | some k =>
        simp only
        cases hkp : k.isPred with
        | false => simpa using hun
        | true =>
          simp only [if_true]
          obtain ⟨hf2, hx⟩ := readPredicate_spec cfg s1 c r k hr1 hk hkp hinv1
          cases hc2 : readPredicate cfg s1 with
          | perr s2 => rw [hc2] at hf2; simp only [Res.andThen_perr, ReadSpec]; rw [hf2]; exact hinv1
          | crash k2 s2 => rw [hc2] at hf2; simp only [Res.andThen_crash, ReadSpec]; rw [hf2.1]; exact ⟨hinv1, hf2.2⟩
          | ok x s2 =>
            rw [hc2] at hf2
            have hx1 := hx x s2 hc2
            have hinv2 : StoreInv cfg s2.store := by rw [hf2.1]; exact hinv1
            have hb2 : s2.bound = s1.bound := hf2.2.1
            simp only [Res.andThen_ok]
            apply ReadSpec.mono_start hb2
            cases x with
            | inl p =>
              simp only at hx1 ⊢
              split
              · exact hinv2
              · rename_i har
                obtain ⟨hfp, hpp⟩ := readParams_spec cfg (p.arity - 1) s2
                apply ReadSpec.of_frame hinv2
                · apply hfp.andThen
                  intro a st3 _
                  simp [Frame]
                · intro s st' h
                  cases hc3 : readParams cfg (p.arity - 1) s2 with
                  | ok ps s3 =>
                    rw [hc3] at h
                    simp at h
                    obtain ⟨rfl, rfl⟩ := h
                    have := hpp ps s3 hc3
                    rw [hb2, hb1] at this ⊢
                    simp [wfIn, hx1, this.1, hlhp]
                    exact ⟨by omega, by simpa using this.2⟩
                  | perr s3 => rw [hc3] at h; simp at h
                  | crash k3 s3 => rw [hc3] at h; simp at h
            | inr is =>
              simp only at hx1 ⊢
              cases hauto : cfg.autoPreds with
              | false => simp only [Bool.not_false, if_true, ReadSpec]; exact hinv2
              | true =>
                simp only [Bool.not_true, Bool.false_eq_true, if_false]
                obtain ⟨hfa, hpa⟩ := readParamsAuto_spec cfg s2.rest.length s2 (Nat.le_refl _)
                cases hc3 : readParamsAuto cfg s2.rest.length s2 with
                | perr s3 => rw [hc3] at hfa; simp only [Res.andThen_perr, ReadSpec]; rw [hfa]; exact hinv2
                | crash k3 s3 => rw [hc3] at hfa; simp only [Res.andThen_crash, ReadSpec]; rw [hfa.1]; exact ⟨hinv2, hfa.2⟩
                | ok ps s3 =>
                  rw [hc3] at hfa
                  simp only [Res.andThen_ok]
                  have hinv3 : StoreInv cfg s3.store := by rw [hfa.1]; exact hinv2
                  split
                  · exact hinv3
                  · have hps := hpa ps s3 hc3
                    apply ReadSpec.mono_start hfa.2.1
                    apply declare_spec cfg is (lhp :: ps) s3 hinv3 hauto (by rw [hfa.1]; exact hx1)
                    rw [hfa.2.1, hb2, hb1]
                    rw [hb2, hb1] at hps
                    simp [hlhp]
                    simpa using hps

theorem chompSt_store (t : ParseTable) (st : PState) : (chompSt t st).store = st.store := rfl
theorem chompSt_bound (t : ParseTable) (st : PState) : (chompSt t st).bound = st.bound := rfl

/-- the main invariant of `StandardParser._read` -/
theorem readStd_spec (cfg : Cfg) : ∀ fuel st, StoreInv cfg st.store →
    ReadSpec cfg st (readStd cfg fuel st) := by
  intro fuel
  induction fuel with
  | zero => intro st h; exact ⟨h, rfl⟩
  | succ f ih =>
    intro st hinv
    unfold readStd
    cases hr : st.rest with
    | nil => exact hinv
    | cons c r =>
      simp only
      have hun : ReadSpec cfg st (unexp st : Res Sent) := by simp only [unexp, hr]; exact hinv
      cases hk : cfg.table.lookup c with
      | none => simpa using hun
      | some k =>
        cases k with
        | op1 o =>
          simp only
          have h1 := ih (advance cfg.table st) hinv
          cases hb : readStd cfg f (advance cfg.table st) with
          | ok a s1 => rw [hb] at h1; exact ⟨h1.1, h1.2.1, by simpa [wfIn, advance_bound] using h1.2.2⟩
          | perr s1 => rw [hb] at h1; exact h1
          | crash k1 s1 => rw [hb] at h1; exact h1
        | op2 o => exact hinv
        | atom i => simp only; exact readAtomic_spec cfg st c r i hr hk hinv
        | quant q => simp only; exact readQuantified_spec cfg _ q st (fun s hs => ih s hs) hinv
        | pred i => simp only; exact readPredicated_spec cfg st c r _ hr hk rfl hinv
        | sysPred p => simp only; exact readPredicated_spec cfg st c r _ hr hk rfl hinv
        | const i => simp only; exact readInfix_spec cfg st hinv
        | var i => simp only; exact readInfix_spec cfg st hinv
        | parenOpen =>
          simp only
          split
          · exact hinv
          · exact hinv
          · exact hinv
          · rename_i o operRemain _
            have h1 := ih (advance cfg.table st) hinv
            cases hb : readStd cfg f (advance cfg.table st) with
            | perr s1 => rw [hb] at h1; exact h1
            | crash k1 s1 => rw [hb] at h1; exact h1
            | ok lhs s1 =>
              rw [hb] at h1
              simp only [Res.andThen_ok]
              split
              · exact h1.1
              · have h2 := ih (advance cfg.table (chompSt cfg.table s1)) h1.1
                cases hb2 : readStd cfg f (advance cfg.table (chompSt cfg.table s1)) with
                | perr s2 => rw [hb2] at h2; exact h2
                | crash k2 s2 => rw [hb2] at h2; exact h2
                | ok rhs s2 =>
                  rw [hb2] at h2
                  simp only [Res.andThen_ok]
                  have hinv2 : StoreInv cfg (chompSt cfg.table s2).store := h2.1
                  split
                  · exact hinv2
                  · split
                    · have hbd : s1.bound = st.bound := h1.2.1
                      have hbd2 : s2.bound = s1.bound := h2.2.1
                      refine ⟨h2.1, ?_, ?_⟩
                      · simp only [advance_bound, chompSt_bound]; exact hbd2.trans hbd
                      · have ha := h1.2.2
                        have hb' := h2.2.2
                        simp only [advance_bound, chompSt_bound] at ha hb'
                        rw [hbd] at hb'
                        simp [wfIn, ha, hb']
                    · exact hinv2
        | _ => simpa using hun

end Ptx.Parse

namespace Ptx.Parse
open Ptx Ptx.Sym

/-- what one public parser call guarantees -/
def OutSpec (cfg : Cfg) : Outcome → Prop
  | .ok s st' => WF cfg.maxi s = true ∧ StoreInv cfg st'
  | .perr st' => StoreInv cfg st'
  | .crash k st' => StoreInv cfg st' ∧ k.guarded = true ∧ cfg.guardEntry = false

theorem callDefault_spec (cfg : Cfg) (read : Nat → PState → Res Sent)
    (hread : ∀ fuel st, StoreInv cfg st.store → ReadSpec cfg st (read fuel st))
    (fuel : Nat) (store : Store) (input : List Chr) (hinv : StoreInv cfg store) :
    OutSpec cfg (callDefault cfg read fuel store input) := by
  unfold callDefault
  have h := hread fuel ⟨chomp cfg.table input, [], store⟩ hinv
  cases hr : read fuel ⟨chomp cfg.table input, [], store⟩ with
  | ok s st' =>
    rw [hr] at h
    simp only [exitCtx]
    split
    · exact ⟨h.2.2, h.1⟩
    · exact h.1
  | perr st' => rw [hr] at h; exact h
  | crash k st' =>
    rw [hr] at h
    simp only [exitCtx]
    split
    · simp only [guard]
      cases hg : cfg.guardEntry
      · simp only [Bool.false_and, Bool.false_eq_true, if_false]; exact ⟨h.1, h.2, hg⟩
      · simp only [h.2, Bool.and_self, if_true]; exact h.1
    · exact h.1

theorem parsePolish_spec (cfg : Cfg) (fuel : Nat) (store : Store) (input : List Chr)
    (hinv : StoreInv cfg store) : OutSpec cfg (parsePolish cfg fuel store input) :=
  callDefault_spec cfg (readPolish cfg) (readPolish_spec cfg) fuel store input hinv

theorem parseStandard_spec (cfg : Cfg) (fuel : Nat) (store : Store) (input : List Chr)
    (hinv : StoreInv cfg store)
    (hpar : cfg.dropParens = true →
      (cfg.table.charOf? .parenOpen).isSome = true ∧ (cfg.table.charOf? .parenClose).isSome = true) :
    OutSpec cfg (parseStandard cfg fuel store input) := by
  unfold parseStandard
  have h1 := callDefault_spec cfg (readStd cfg) (readStd_spec cfg) fuel store input hinv
  cases hc : callDefault cfg (readStd cfg) fuel store input with
  | ok s st' => rw [hc] at h1; exact h1
  | crash k st' => rw [hc] at h1; exact h1
  | perr store1 =>
    rw [hc] at h1
    simp only
    cases hd : cfg.dropParens with
    | false => exact h1
    | true =>
      simp only [if_true]
      obtain ⟨ho, hcl⟩ := hpar hd
      cases hpo : cfg.table.charOf? .parenOpen with
      | none => simp [hpo] at ho
      | some po =>
        cases hpc : cfg.table.charOf? .parenClose with
        | none => simp [hpc] at hcl
        | some pc =>
          simp only
          exact callDefault_spec cfg (readStd cfg) (readStd_spec cfg) fuel store1 _ h1

theorem StoreInv.empty (cfg : Cfg) : StoreInv cfg Store.empty :=
  ⟨by intro p hp; simp [Store.empty] at hp, by intro p hp; simp [Store.empty] at hp, fun _ => rfl⟩

end Ptx.Parse
