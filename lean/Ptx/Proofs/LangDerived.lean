/- helper lemmas for C15 (core Lean only) -/
import Ptx.Lang.Derived
namespace Ptx

theorem Tok.subst_self (p : Param) (t : Tok) : Tok.subst p p t = t := by
  cases t <;> simp [Tok.subst]
  rename_i q; intro h; exact h.symm

theorem map_tok_subst_self (p : Param) (l : List Tok) : l.map (Tok.subst p p) = l := by
  induction l with
  | nil => rfl
  | cons t l ih => simp [Tok.subst_self, ih]

/-- the walk of a substituted sentence is the token-wise substituted walk -/
theorem walk_subst (new old : Param) (s : Sent) :
    (s.subst new old).walk = s.walk.map (Tok.subst new old) := by
  induction s with
  | atom i s => simp [Sent.subst, Sent.walk, Tok.subst]
  | pred p ps =>
    by_cases h : new = old
    · subst h; simp [Sent.subst, map_tok_subst_self]
    · simp [Sent.subst, h, Sent.walk, Tok.subst, List.map_map, Function.comp_def]
  | quant q vi vs b ih =>
    by_cases h : new = old
    · subst h; simp [Sent.subst, map_tok_subst_self]
    · simp [Sent.subst, h, Sent.walk, Tok.subst, ih]
  | op1 o a ih =>
    by_cases h : new = old
    · subst h; simp [Sent.subst, map_tok_subst_self]
    · simp [Sent.subst, h, Sent.walk, Tok.subst, ih]
  | op2 o a b iha ihb =>
    by_cases h : new = old
    · subst h; simp [Sent.subst, map_tok_subst_self]
    · simp [Sent.subst, h, Sent.walk, Tok.subst, iha, ihb]

/-- the walk is a prefix code: it determines the sentence -/
theorem walk_append_inj (s : Sent) : ∀ (t : Sent) (r r' : List Tok),
    s.walk ++ r = t.walk ++ r' → s = t ∧ r = r' := by
  induction s with
  | atom i j => intro t r r' h; cases t <;> simp_all [Sent.walk]
  | pred p ps =>
    intro t r r' h
    cases t with
    | pred p' ps' =>
      simp only [Sent.walk, List.cons_append, List.cons.injEq, Tok.pred.injEq] at h
      obtain ⟨⟨hp, hn⟩, h⟩ := h
      have := List.append_inj h (by simp [hn])
      obtain ⟨h1, h2⟩ := this
      have h3 : ps = ps' := by
        have : Function.Injective Tok.param := by intro a b hab; cases hab; rfl
        exact List.map_inj_right this |>.mp h1
      simp [hp, h3, h2]
    | _ => simp [Sent.walk] at h
  | quant q vi vs b ih =>
    intro t r r' h
    cases t with
    | quant q' vi' vs' b' =>
      simp only [Sent.walk, List.cons_append, List.cons.injEq, Tok.quant.injEq] at h
      obtain ⟨⟨hq, hi, hs⟩, h⟩ := h
      obtain ⟨hb, hr⟩ := ih _ _ _ h
      simp [hq, hi, hs, hb, hr]
    | _ => simp [Sent.walk] at h
  | op1 o a ih =>
    intro t r r' h
    cases t with
    | op1 o' a' =>
      simp only [Sent.walk, List.cons_append, List.cons.injEq, Tok.op.injEq, Op.u.injEq] at h
      obtain ⟨ho, h⟩ := h
      obtain ⟨hb, hr⟩ := ih _ _ _ h
      simp [ho, hb, hr]
    | _ => simp [Sent.walk] at h
  | op2 o a b iha ihb =>
    intro t r r' h
    cases t with
    | op2 o' a' b' =>
      simp only [Sent.walk, List.cons_append, List.cons.injEq, Tok.op.injEq, Op.b.injEq,
        List.append_assoc] at h
      obtain ⟨ho, h⟩ := h
      obtain ⟨ha, h⟩ := iha _ _ _ h
      obtain ⟨hb, hr⟩ := ihb _ _ _ h
      simp [ho, ha, hb, hr]
    | _ => simp [Sent.walk] at h

theorem walk_injective {s t : Sent} (h : s.walk = t.walk) : s = t :=
  (walk_append_inj s t [] [] (by simpa using h)).1

/-! sets as duplicate-free lists -/

theorem mem_toSet {α} [DecidableEq α] (x : α) (l : List α) : x ∈ toSet l ↔ x ∈ l := by
  induction l with
  | nil => simp [toSet]
  | cons y l ih =>
    simp only [toSet, List.mem_cons, List.mem_filter, ih]
    by_cases h : x = y <;> simp [h]

theorem nodup_toSet {α} [DecidableEq α] (l : List α) : (toSet l).Nodup := by
  induction l with
  | nil => simp [toSet]
  | cons y l ih =>
    simp only [toSet, List.nodup_cons, List.mem_filter]
    exact ⟨by simp, ih.filter _⟩

theorem mem_uni {α} [DecidableEq α] (x : α) (a b : List α) : x ∈ uni a b ↔ x ∈ a ∨ x ∈ b := by
  simp only [uni, List.mem_append, List.mem_filter]
  by_cases h : x ∈ a <;> simp [h]

theorem nodup_uni {α} [DecidableEq α] {a b : List α} (ha : a.Nodup) (hb : b.Nodup) :
    (uni a b).Nodup := by
  simp only [uni]
  refine List.nodup_append.mpr ⟨ha, hb.filter _, ?_⟩
  intro x hx y hy hxy
  subst hxy
  simp [List.mem_filter] at hy
  exact hy.2 hx

/-! unfolding of the walk-based specifications, constructor by constructor -/

theorem filterMap_params_none {β} (f : Tok → Option β) (hf : ∀ q, f (Tok.param q) = none)
    (ps : List Param) : List.filterMap f (List.map Tok.param ps) = [] := by
  induction ps with
  | nil => rfl
  | cons x xs ih => simp [hf, ih]

theorem filterMap_params_self (ps : List Param) :
    List.filterMap (fun t => match t with | Tok.param p => some p | _ => none)
      (List.map Tok.param ps) = ps := by
  induction ps with
  | nil => rfl
  | cons x xs ih => simp [ih]

section
variable (i j vi vs : Nat) (p : Pred) (ps : List Param) (q : Quant) (o1 : Op1) (o2 : Op2) (a b : Sent)

theorem paramOccs_atom : paramOccs (.atom i j) = [] := by simp [paramOccs, Sent.walk]
theorem paramOccs_pred : paramOccs (.pred p ps) = ps := by
  simp only [paramOccs, Sent.walk, List.filterMap_cons]
  exact filterMap_params_self ps
theorem paramOccs_quant : paramOccs (.quant q vi vs a) = paramOccs a := by simp [paramOccs, Sent.walk]
theorem paramOccs_op1 : paramOccs (.op1 o1 a) = paramOccs a := by simp [paramOccs, Sent.walk]
theorem paramOccs_op2 : paramOccs (.op2 o2 a b) = paramOccs a ++ paramOccs b := by simp [paramOccs, Sent.walk]

theorem predOccs_atom : predOccs (.atom i j) = [] := by simp [predOccs, Sent.walk]
theorem predOccs_pred : predOccs (.pred p ps) = [p] := by
  simp only [predOccs, Sent.walk, List.filterMap_cons]
  rw [filterMap_params_none _ (fun _ => rfl)]
theorem predOccs_quant : predOccs (.quant q vi vs a) = predOccs a := by simp [predOccs, Sent.walk]
theorem predOccs_op1 : predOccs (.op1 o1 a) = predOccs a := by simp [predOccs, Sent.walk]
theorem predOccs_op2 : predOccs (.op2 o2 a b) = predOccs a ++ predOccs b := by simp [predOccs, Sent.walk]

theorem atomOccs_atom : atomOccs (.atom i j) = [(i, j)] := by simp [atomOccs, Sent.walk]
theorem atomOccs_pred : atomOccs (.pred p ps) = [] := by
  simp only [atomOccs, Sent.walk, List.filterMap_cons]
  rw [filterMap_params_none _ (fun _ => rfl)]
theorem atomOccs_quant : atomOccs (.quant q vi vs a) = atomOccs a := by simp [atomOccs, Sent.walk]
theorem atomOccs_op1 : atomOccs (.op1 o1 a) = atomOccs a := by simp [atomOccs, Sent.walk]
theorem atomOccs_op2 : atomOccs (.op2 o2 a b) = atomOccs a ++ atomOccs b := by simp [atomOccs, Sent.walk]

theorem preorderOps_atom : preorderOps (.atom i j) = [] := by simp [preorderOps, Sent.walk]
theorem preorderOps_pred : preorderOps (.pred p ps) = [] := by
  simp only [preorderOps, Sent.walk, List.filterMap_cons]
  rw [filterMap_params_none _ (fun _ => rfl)]
theorem preorderOps_quant : preorderOps (.quant q vi vs a) = preorderOps a := by simp [preorderOps, Sent.walk]
theorem preorderOps_op1 : preorderOps (.op1 o1 a) = .u o1 :: preorderOps a := by simp [preorderOps, Sent.walk]
theorem preorderOps_op2 : preorderOps (.op2 o2 a b) = .b o2 :: (preorderOps a ++ preorderOps b) := by
  simp [preorderOps, Sent.walk]

theorem preorderQuants_atom : preorderQuants (.atom i j) = [] := by simp [preorderQuants, Sent.walk]
theorem preorderQuants_pred : preorderQuants (.pred p ps) = [] := by
  simp only [preorderQuants, Sent.walk, List.filterMap_cons]
  rw [filterMap_params_none _ (fun _ => rfl)]
theorem preorderQuants_quant : preorderQuants (.quant q vi vs a) = q :: preorderQuants a := by
  simp [preorderQuants, Sent.walk]
theorem preorderQuants_op1 : preorderQuants (.op1 o1 a) = preorderQuants a := by simp [preorderQuants, Sent.walk]
theorem preorderQuants_op2 : preorderQuants (.op2 o2 a b) = preorderQuants a ++ preorderQuants b := by
  simp [preorderQuants, Sent.walk]
end

end Ptx
