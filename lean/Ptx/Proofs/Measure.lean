/-
  Ptx.Proofs.Measure — what the decidable weight check `LogicData.measureOKOnB` MEANS:
  on every concrete node, for every sentence and every witness, each sentence node that the
  node's rule adds weighs strictly less than the node itself (`weight_decreases`), also for the
  groups of a legal step of the calculus (`weight_decreases_step`).  Core tactics only.
-/
import Ptx.Tab.Measure
import Ptx.Tab.Saturated
namespace Ptx

/-! ### sentence weights -/

theorem Weights.ω_psubst (W : Weights) (new old : Param) (s : Sent) : W.ω (s.psubst new old) = W.ω s := by
  induction s with
  | atom i j => simp [Sent.psubst, Weights.ω]
  | pred p ps => simp [Sent.psubst, Weights.ω]
  | quant q vi vs b ih => simp [Sent.psubst, Weights.ω, ih]
  | op1 o a ih => simp [Sent.psubst, Weights.ω, ih]
  | op2 o a b iha ihb => simp [Sent.psubst, Weights.ω, iha, ihb]

/-- instantiating the body of a quantified sentence with a constant does not change the weight -/
theorem Weights.ω_instC (W : Weights) (ci cs : Nat) (q : Quant) (vi vs : Nat) (b : Sent) :
    W.ω ((Sent.quant q vi vs b).instC ci cs) = W.ω b := by
  simp [Sent.instC, Weights.ω_psubst]

private theorem pos_lin {a b x : Nat} (h : 0 < a + b) (hx : 0 < x) : 0 < a * x + b := by
  cases a with
  | zero => omega
  | succ a => exact Nat.lt_of_lt_of_le (Nat.mul_pos (Nat.succ_pos a) hx) (Nat.le_add_right _ _)

theorem Weights.posB_op1 {W : Weights} (h : W.posB = true) (o : Op1) : 0 < W.a1 o + W.b1 o := by
  simp only [Weights.posB, Bool.and_eq_true, List.all_eq_true, decide_eq_true_eq] at h
  exact h.1.1 o (by cases o <;> simp [Op1.all])
theorem Weights.posB_op2 {W : Weights} (h : W.posB = true) (o : Op2) : 0 < W.a2 o + W.b2 o := by
  simp only [Weights.posB, Bool.and_eq_true, List.all_eq_true, decide_eq_true_eq] at h
  exact h.1.2 o (by cases o <;> simp [Op2.all])
theorem Weights.posB_quant {W : Weights} (h : W.posB = true) (q : Quant) : 0 < W.aq q + W.bq q := by
  simp only [Weights.posB, Bool.and_eq_true, List.all_eq_true, decide_eq_true_eq] at h
  exact h.2 q (by cases q <;> simp [Quant.all])

/-- every sentence weighs at least 1 -/
theorem Weights.ω_pos {W : Weights} (h : W.posB = true) (s : Sent) : 0 < W.ω s := by
  induction s with
  | atom i j => simp [Weights.ω]
  | pred p ps => simp [Weights.ω]
  | quant q vi vs b ih => simp only [Weights.ω]; exact pos_lin (Weights.posB_quant h q) ih
  | op1 o a ih => simp only [Weights.ω]; exact pos_lin (Weights.posB_op1 h o) ih
  | op2 o a b iha ihb =>
      simp only [Weights.ω]; exact pos_lin (Weights.posB_op2 h o) (by omega)

/-! ### polynomials -/

theorem Lin.eval_scale (a b : Nat) (p : Lin) (x y : Nat) : (p.scale a b).eval x y = a * p.eval x y + b := by
  simp only [Lin.scale, Lin.eval, Nat.mul_add, Nat.mul_assoc, Nat.add_assoc]

theorem Lin.eval_add (p q : Lin) (x y : Nat) : (p.add q).eval x y = p.eval x y + q.eval x y := by
  simp only [Lin.add, Lin.eval, Nat.add_mul]; omega

/-- the coefficient-wise check is sound: strict inequality for ALL operand weights ≥ 1 -/
theorem Lin.lt_of_ltB {p q : Lin} {dp dq : Nat} (h : p.ltB dp q dq = true) {x y : Nat}
    (hx : 1 ≤ x) (hy : 1 ≤ y) : p.eval x y + dp < q.eval x y + dq := by
  simp only [Lin.ltB, Bool.and_eq_true, decide_eq_true_eq] at h
  obtain ⟨⟨h1, h2⟩, h3⟩ := h
  obtain ⟨x', rfl⟩ : ∃ x', x = x' + 1 := ⟨x - 1, by omega⟩
  obtain ⟨y', rfl⟩ : ∃ y', y = y' + 1 := ⟨y - 1, by omega⟩
  have hx' := Nat.mul_le_mul_right x' h1
  have hy' := Nat.mul_le_mul_right y' h2
  simp only [Lin.eval, Nat.mul_add, Nat.mul_one]
  omega

/-! ### templates -/

/-- inside `bind`: the template over the raw body -/
theorem Weights.ω_instRaw (W : Weights) (wl : Lin) (b : Sent) (y : Nat) :
    ∀ (t : Tm) (s' : Sent), t.instRaw b = some s' → W.ω s' = (W.tmLin wl t).eval (W.ω b) y := by
  intro t
  induction t with
  | lhs => intro s' h; simp [Tm.instRaw] at h
  | rhs => intro s' h; simp [Tm.instRaw] at h
  | whole => intro s' h; simp [Tm.instRaw] at h
  | bind q t _ => intro s' h; simp [Tm.instRaw] at h
  | raw => intro s' h; simp [Tm.instRaw] at h; subst h; simp [Weights.tmLin, Lin.eval]
  | op1 o t ih =>
      intro s' h
      simp only [Tm.instRaw, Option.map_eq_some_iff] at h
      obtain ⟨a, ha, rfl⟩ := h
      simp only [Weights.ω, Weights.tmLin, Lin.eval_scale, ih a ha]
  | op2 o t u iht ihu =>
      intro s' h
      simp only [Tm.instRaw, bind, Option.bind_eq_some_iff, Option.some.injEq] at h
      obtain ⟨a, ha, c, hc, rfl⟩ := h
      simp only [Weights.ω, Weights.tmLin, Lin.eval_scale, Lin.eval_add, iht a ha, ihu c hc]

/-- an instantiated template weighs what its polynomial says, at x = ω(first operand / body),
    y = ω(second operand) -/
theorem Weights.ω_inst (W : Weights) (wl : Lin) (whole l : Sent) (r raw : Option Sent) (var : Nat × Nat)
    (x y : Nat) (hl : W.ω l = x) (hr : ∀ r', r = some r' → W.ω r' = y)
    (hraw : ∀ b, raw = some b → W.ω b = x) (hw : W.ω whole = wl.eval x y) :
    ∀ (t : Tm) (s' : Sent), t.inst whole l r raw var = some s' → W.ω s' = (W.tmLin wl t).eval x y := by
  intro t
  induction t with
  | lhs => intro s' h; simp [Tm.inst] at h; subst h; simp [Weights.tmLin, Lin.eval, hl]
  | rhs => intro s' h; simp only [Tm.inst] at h; simp [Weights.tmLin, Lin.eval, hr s' h]
  | whole => intro s' h; simp [Tm.inst] at h; subst h; simpa [Weights.tmLin] using hw
  | raw => intro s' h; simp [Tm.inst] at h
  | bind q t _ =>
      intro s' h
      simp only [Tm.inst, bind, Option.bind_eq_some_iff, Option.map_eq_some_iff] at h
      obtain ⟨b, hb, a, ha, rfl⟩ := h
      have := W.ω_instRaw wl b y t a ha
      rw [hraw b hb] at this
      simp only [Weights.ω, Weights.tmLin, Lin.eval_scale, this]
  | op1 o t ih =>
      intro s' h
      simp only [Tm.inst, Option.map_eq_some_iff] at h
      obtain ⟨a, ha, rfl⟩ := h
      simp only [Weights.ω, Weights.tmLin, Lin.eval_scale, ih a ha]
  | op2 o t u iht ihu =>
      intro s' h
      simp only [Tm.inst, bind, Option.bind_eq_some_iff, Option.some.injEq] at h
      obtain ⟨a, ha, c, hc, rfl⟩ := h
      simp only [Weights.ω, Weights.tmLin, Lin.eval_scale, Lin.eval_add, iht a ha, ihu c hc]

/-- a sentence node of an instantiated template branch comes from a node template of that branch -/
theorem instAdds_sent {whole l : Sent} {r raw : Option Sent} {var : Nat × Nat} {w wo : Option Nat}
    {br : List AddT} {g : List Node} (h : instAdds whole l r raw var w wo br = some g)
    {s' : Sent} {d' : Option Bool} {w' : Option Nat} (hn : Node.sent s' d' w' ∈ g) :
    ∃ n : NodeT, AddT.node n ∈ br ∧ n.des = d' ∧ n.tm.inst whole l r raw var = some s' := by
  obtain ⟨a, ha, hf⟩ := mapOpt_mem_bwd h _ hn
  cases a with
  | access =>
      exfalso
      revert hf
      cases w <;> cases wo <;> simp
  | node n =>
      refine ⟨n, ha, ?_⟩
      revert hf
      simp only
      cases hi : n.tm.inst whole l r raw var with
      | none => simp
      | some s0 =>
          cases n.other <;> cases wo <;> simp <;> intro h1 h2 <;> simp_all

/-! ### the target node -/

/-- weight of the second operand of a compound (1 if there is none: the value is irrelevant then) -/
def Weights.rhsW (W : Weights) (whole : Sent) : Nat := (whole.rhs?.map W.ω).getD 1

theorem Weights.ω_shape (W : Weights) {whole l0 : Sent} {sh : Shape} (hs : Shape.of whole = some sh)
    (hl : whole.lhs? = some l0) : W.ω whole = (W.shapeLin sh).eval (W.ω l0) (W.rhsW whole) := by
  cases whole with
  | atom i j => simp [Shape.of] at hs
  | pred p ps => simp [Shape.of] at hs
  | quant q vi vs b =>
      simp [Shape.of] at hs; simp [Sent.lhs?] at hl; subst hs hl
      simp [Weights.ω, Weights.shapeLin, Lin.eval]
  | op1 o a =>
      simp [Shape.of] at hs; simp [Sent.lhs?] at hl; subst hs hl
      simp [Weights.ω, Weights.shapeLin, Lin.eval]
  | op2 o a b =>
      simp [Shape.of] at hs; simp [Sent.lhs?] at hl; subst hs hl
      simp [Weights.ω, Weights.shapeLin, Lin.eval, Weights.rhsW, Sent.rhs?, Nat.mul_add]

theorem Sent.decomp_spec {s whole : Sent} {sh : Shape} {ng : Bool} (h : s.decomp = some (sh, ng, whole)) :
    s = (if ng then .op1 .neg whole else whole) ∧ Shape.of whole = some sh := by
  cases s with
  | atom i j => simp [Sent.decomp] at h
  | pred p ps => simp [Sent.decomp] at h
  | quant q vi vs b => simp [Sent.decomp] at h; obtain ⟨rfl, rfl, rfl⟩ := h; simp [Shape.of]
  | op2 o a b => simp [Sent.decomp] at h; obtain ⟨rfl, rfl, rfl⟩ := h; simp [Shape.of]
  | op1 o a =>
    cases o <;> try (simp [Sent.decomp] at h; obtain ⟨rfl, rfl, rfl⟩ := h; simp [Shape.of])
    cases a <;> simp [Sent.decomp] at h <;> obtain ⟨rfl, rfl, rfl⟩ := h <;> simp [Shape.of]

/-- the target node's sentence weighs what the polynomial of its key says -/
theorem Weights.ω_key (W : Weights) {s whole l0 : Sent} {sh : Shape} {ng : Bool} (d : Option Bool)
    (hd : s.decomp = some (sh, ng, whole)) (hl : whole.lhs? = some l0) :
    W.ω s = (W.keyLin ⟨sh, ng, d⟩).eval (W.ω l0) (W.rhsW whole) := by
  obtain ⟨hs, hsh⟩ := Sent.decomp_spec hd
  have hw := W.ω_shape hsh hl
  cases ng with
  | false => simp at hs; subst hs; simpa [Weights.keyLin] using hw
  | true => simp at hs; subst hs; simp [Weights.keyLin, Weights.ω, Lin.eval_scale, hw]

private theorem lookup_mem_meas {α β} [BEq α] [LawfulBEq α] {k : α} {v : β} : ∀ {l : List (α × β)}, l.lookup k = some v → (k, v) ∈ l
  | [], h => by simp at h
  | (k', v') :: l, h => by
      simp only [List.lookup] at h
      split at h
      · next heq => simp at h; subst h; simp [eq_of_beq heq]
      · exact List.mem_cons_of_mem _ (lookup_mem_meas h)

theorem LogicData.rule?_mem {L : LogicData} {k : RuleKey} {r : Rule} (h : L.rule? k = some r) : (k, r) ∈ L.rules :=
  lookup_mem_meas (by simpa [LogicData.rule?] using h)

/-! ### the key lemma -/

/-- all five instantiation modes of `instGroups` / `witnessGroups` in one statement: whatever is
    plugged in for `lhs` weighs ω(first operand), `rhs` (if any) is the second operand, the raw body
    (if any) is the first operand of the compound -/
theorem weight_decreases_adds {L : LogicData} {W : Weights} {p : RuleKey → Bool}
    (h : L.measureOKOnB p W = true)
    {s whole l0 : Sent} {sh : Shape} {ng : Bool} {d : Option Bool} {r : Rule}
    (hd : s.decomp = some (sh, ng, whole)) (hp : p ⟨sh, ng, d⟩ = true)
    (hrule : L.rule? ⟨sh, ng, d⟩ = some r) (hl0 : whole.lhs? = some l0)
    {l : Sent} {rr raw : Option Sent} {var : Nat × Nat} {w wo : Option Nat}
    (hl : Weights.witnessOKB ⟨sh, ng, d⟩ r = true → W.ω l = W.ω l0) (hrr : rr = none ∨ rr = whole.rhs?) (hraw : raw = none ∨ raw = whole.qraw)
    {gs : List (List Node)} (hg : mapOpt (instAdds whole l rr raw var w wo) r.branches = some gs)
    {g : List Node} (hgm : g ∈ gs)
    {s' : Sent} {d' : Option Bool} {w' : Option Nat} (hn : Node.sent s' d' w' ∈ g) :
    W.node s' d' < W.node s d := by
  simp only [LogicData.measureOKOnB, Bool.and_eq_true, List.all_eq_true] at h
  obtain ⟨hpos, hrows⟩ := h
  have hrow := hrows _ (lookup_mem_meas (by simpa [LogicData.rule?] using hrule))
  simp only [hp, Bool.not_true, Bool.false_or, Weights.ruleOKB, Bool.and_eq_true, List.all_eq_true] at hrow
  obtain ⟨hwit, hrow⟩ := hrow
  replace hl := hl hwit
  obtain ⟨br, hbr, hinst⟩ := mapOpt_mem_bwd hg g hgm
  obtain ⟨n, hnb, hdes, htm⟩ := instAdds_sent hinst hn
  have hok := hrow br hbr _ hnb
  simp only [Weights.addOKB] at hok
  obtain ⟨_, hsh⟩ := Sent.decomp_spec hd
  have hws := W.ω_shape hsh hl0
  have hω : W.ω s' = (W.tmLin (W.shapeLin sh) n.tm).eval (W.ω l0) (W.rhsW whole) := by
    refine W.ω_inst (W.shapeLin sh) whole l rr raw var _ _ hl ?_ ?_ hws n.tm s' htm
    · intro r' hr'
      rcases hrr with h0 | h0
      · rw [h0] at hr'; cases hr'
      · rw [h0] at hr'; simp [Weights.rhsW, hr']
    · intro b hb
      rcases hraw with h0 | h0
      · rw [h0] at hb; cases hb
      · rw [h0] at hb
        cases whole <;> simp [Sent.qraw] at hb
        subst hb; simp [Sent.lhs?] at hl0; subst hl0; rfl
  have hlt := Lin.lt_of_ltB hok (x := W.ω l0) (y := W.rhsW whole) (Weights.ω_pos hpos l0) (by
    simp only [Weights.rhsW]
    cases whole.rhs? with
    | none => simp
    | some r' => exact Weights.ω_pos hpos r')
  simp only [Weights.node, hω, W.ω_key d hd hl0, ← hdes]
  exact hlt

/-- `weight_decreases` for a fragment `p` of the rule table -/
theorem weight_decreases_on {L : LogicData} {W : Weights} {p : RuleKey → Bool}
    (h : L.measureOKOnB p W = true)
    {s whole l0 : Sent} {sh : Shape} {ng : Bool} {d : Option Bool} {r : Rule}
    (hd : s.decomp = some (sh, ng, whole)) (hp : p ⟨sh, ng, d⟩ = true)
    (hrule : L.rule? ⟨sh, ng, d⟩ = some r) (hl0 : whole.lhs? = some l0)
    (w : Option Nat) (c : Option (Nat × Nat)) (wo : Option Nat) {gs : List (List Node)}
    (hg : instGroups whole l0 w c wo r = some gs) {g : List Node} (hgm : g ∈ gs)
    {s' : Sent} {d' : Option Bool} {w' : Option Nat} (hn : Node.sent s' d' w' ∈ g) :
    W.node s' d' < W.node s d := by
  obtain ⟨_, hsh⟩ := Sent.decomp_spec hd
  -- with a constant witness the compound is quantified, and instantiation keeps the weight
  have hinstC : ∀ ci cs, (r.witness = .newConst ∨ r.witness = .eachConst) →
      Weights.witnessOKB ⟨sh, ng, d⟩ r = true → W.ω (whole.instC ci cs) = W.ω l0 := by
    intro ci cs hw hok
    cases whole with
    | quant q vi vs b => simp [Sent.lhs?] at hl0; subst hl0; exact W.ω_instC ci cs q vi vs _
    | atom i j => simp [Sent.lhs?] at hl0
    | pred pr ps => simp [Sent.lhs?] at hl0
    | op1 o a => simp [Shape.of] at hsh; subst hsh; rcases hw with hw | hw <;> simp [Weights.witnessOKB, hw] at hok
    | op2 o a b => simp [Shape.of] at hsh; subst hsh; rcases hw with hw | hw <;> simp [Weights.witnessOKB, hw] at hok
  unfold instGroups at hg
  split at hg
  · exact weight_decreases_adds h hd hp hrule hl0 (fun _ => rfl) (.inr rfl) (.inr rfl) hg hgm hn
  · next hw =>
    split at hg
    · next ci cs => exact weight_decreases_adds h hd hp hrule hl0 (hinstC ci cs (.inl hw)) (.inl rfl) (.inr rfl) hg hgm hn
    · cases hg
  · next hw =>
    split at hg
    · next ci cs => exact weight_decreases_adds h hd hp hrule hl0 (hinstC ci cs (.inr hw)) (.inl rfl) (.inr rfl) hg hgm hn
    · cases hg
  · split at hg
    · exact weight_decreases_adds h hd hp hrule hl0 (fun _ => rfl) (.inl rfl) (.inl rfl) hg hgm hn
    · cases hg
  · split at hg
    · exact weight_decreases_adds h hd hp hrule hl0 (fun _ => rfl) (.inl rfl) (.inl rfl) hg hgm hn
    · cases hg

theorem LogicData.ruleFor_eq {L : LogicData} {s whole l0 : Sent} {d : Option Bool} {r : Rule}
    (hr : L.ruleFor s d = some (r, whole, l0)) :
    ∃ sh ng, s.decomp = some (sh, ng, whole) ∧ L.rule? ⟨sh, ng, d⟩ = some r ∧ whole.lhs? = some l0 := by
  unfold LogicData.ruleFor at hr
  split at hr
  · cases hr
  · next sh ng wh hd =>
    split at hr
    · next r0 l hr0 hl =>
      simp only [Option.some.injEq, Prod.mk.injEq] at hr
      obtain ⟨rfl, rfl, rfl⟩ := hr
      exact ⟨sh, ng, hd, hr0, hl⟩
    · cases hr

/-- **the key lemma**: every sentence node a node's rule adds — in any branch group, for any
    witness constant / world — weighs strictly less than the node -/
theorem weight_decreases {L : LogicData} {W : Weights} (h : L.measureOKB W = true)
    {s whole l0 : Sent} {d : Option Bool} {r : Rule}
    (hr : L.ruleFor s d = some (r, whole, l0))
    (w : Option Nat) (c : Option (Nat × Nat)) (wo : Option Nat) {gs : List (List Node)}
    (hg : instGroups whole l0 w c wo r = some gs) {g : List Node} (hgm : g ∈ gs)
    {s' : Sent} {d' : Option Bool} {w' : Option Nat} (hn : Node.sent s' d' w' ∈ g) :
    W.node s' d' < W.node s d := by
  obtain ⟨sh, ng, hd, hrule, hl0⟩ := LogicData.ruleFor_eq hr
  exact weight_decreases_on (p := fun _ => true) h hd rfl hrule hl0 w c wo hg hgm hn

/-- the same through `ruleFor`, for a fragment `p` of the table that contains the node's key -/
theorem weight_decreases_frag {L : LogicData} {W : Weights} {p : RuleKey → Bool}
    (h : L.measureOKOnB p W = true)
    {s whole l0 : Sent} {d : Option Bool} {r : Rule}
    (hr : L.ruleFor s d = some (r, whole, l0))
    (hp : ∀ sh ng, s.decomp = some (sh, ng, whole) → p ⟨sh, ng, d⟩ = true)
    (w : Option Nat) (c : Option (Nat × Nat)) (wo : Option Nat) {gs : List (List Node)}
    (hg : instGroups whole l0 w c wo r = some gs) {g : List Node} (hgm : g ∈ gs)
    {s' : Sent} {d' : Option Bool} {w' : Option Nat} (hn : Node.sent s' d' w' ∈ g) :
    W.node s' d' < W.node s d := by
  obtain ⟨sh, ng, hd, hrule, hl0⟩ := LogicData.ruleFor_eq hr
  exact weight_decreases_on h hd (hp sh ng hd) hrule hl0 w c wo hg hgm hn

/-- the check on the whole table implies the check on every fragment -/
theorem LogicData.measureOKOnB_of_all {L : LogicData} {W : Weights} (h : L.measureOKB W = true)
    (p : RuleKey → Bool) : L.measureOKOnB p W = true := by
  simp only [LogicData.measureOKB, LogicData.measureOKOnB, Bool.and_eq_true, List.all_eq_true] at h ⊢
  refine ⟨h.1, fun x hx => ?_⟩
  have := h.2 x hx
  simp only [Bool.not_true, Bool.false_or] at this
  simp [this]

theorem LogicData.measureOKOnB_mono {L : LogicData} {W : Weights} {p q : RuleKey → Bool}
    (hpq : ∀ k, q k = true → p k = true) (h : L.measureOKOnB p W = true) : L.measureOKOnB q W = true := by
  simp only [LogicData.measureOKOnB, Bool.and_eq_true, List.all_eq_true] at h ⊢
  refine ⟨h.1, fun x hx => ?_⟩
  have := h.2 x hx
  cases hq : q x.1 with
  | false => simp
  | true => simpa [hpq _ hq] using this

/-- a legal witness group of the calculus is an instantiation group -/
theorem witnessGroups_instGroups {b : Branch} {whole l0 : Sent} {w : Option Nat} {c : Option (Nat × Nat)}
    {wo : Option Nat} {r : Rule} {gs : List (List Node)}
    (h : witnessGroups b whole l0 w c wo r = some gs) : instGroups whole l0 w c wo r = some gs := by
  unfold witnessGroups at h
  unfold instGroups
  split at h <;> rename_i hw <;> simp only [hw]
  · split at h
    · cases h
    · exact h
  · split at h
    · split at h
      · cases h
      · exact h
    · cases h
  · split at h
    · split at h
      · cases h
      · exact h
    · cases h
  · split at h
    · split at h
      · cases h
      · exact h
    · cases h
  · split at h
    · split at h
      · cases h
      · exact h
    · cases h

/-- the same for the groups produced by a legal step of the calculus -/
theorem weight_decreases_step_on {L : LogicData} {W : Weights} {p : RuleKey → Bool}
    (h : L.measureOKOnB p W = true)
    {b : Branch} {s : Sent} {d : Option Bool} {w : Option Nat} {c : Option (Nat × Nat)} {wo : Option Nat}
    {r : Rule} {gs : List (List Node)} (hg : L.ruleGroups b s d w c wo = some (r, gs))
    (hp : ∀ sh ng whole, s.decomp = some (sh, ng, whole) → p ⟨sh, ng, d⟩ = true)
    {g : List Node} (hgm : g ∈ gs)
    {s' : Sent} {d' : Option Bool} {w' : Option Nat} (hn : Node.sent s' d' w' ∈ g) :
    W.node s' d' < W.node s d := by
  unfold LogicData.ruleGroups at hg
  split at hg
  · cases hg
  · next sh ng whole hd =>
    split at hg
    · next r0 l0 hrule hl0 =>
      split at hg
      · cases hg
      · split at hg
        · next gs0 hwg =>
          simp only [Option.some.injEq, Prod.mk.injEq] at hg
          obtain ⟨rfl, rfl⟩ := hg
          exact weight_decreases_on h hd (hp sh ng whole hd) hrule hl0 w c wo
            (witnessGroups_instGroups hwg) hgm hn
        · cases hg
    · cases hg

theorem weight_decreases_step {L : LogicData} {W : Weights} (h : L.measureOKB W = true)
    {b : Branch} {s : Sent} {d : Option Bool} {w : Option Nat} {c : Option (Nat × Nat)} {wo : Option Nat}
    {r : Rule} {gs : List (List Node)} (hg : L.ruleGroups b s d w c wo = some (r, gs))
    {g : List Node} (hgm : g ∈ gs)
    {s' : Sent} {d' : Option Bool} {w' : Option Nat} (hn : Node.sent s' d' w' ∈ g) :
    W.node s' d' < W.node s d :=
  weight_decreases_step_on (p := fun _ => true) h hg (fun _ _ _ _ => rfl) hgm hn

/-! ### the check is not vacuous -/

section NonVacuity
/-- unit weights: plain subformula size -/
private def unitW : Weights := ⟨fun _ => 1, fun _ => 1, fun _ => 1, fun _ => 1, fun _ => 1, fun _ => 1, fun _ => 0⟩
private def toyKey (ng : Bool) : RuleKey := ⟨.op2 .conj, ng, some true⟩
private def toy (ng : Bool) (brs : List (List AddT)) : LogicData :=
  { (default : LogicData) with rules := [(toyKey ng, ⟨"toy", true, .none, brs⟩)] }

-- A∧B + ↦ A +, B + : fine with unit weights
example : (toy false [[.node ⟨.lhs, some true, false⟩, .node ⟨.rhs, some true, false⟩]]).measureOKB unitW = true := by
  decide
-- A∧B + ↦ ¬A∨¬B + (not a subformula): rejected with unit weights …
example : (toy false [[.node ⟨.op2 .disj (.op1 .neg .lhs) (.op1 .neg .rhs), some true, false⟩]]).measureOKB unitW = false := by
  decide
-- … accepted once the conjunction's constant pays for it
example : (toy false [[.node ⟨.op2 .disj (.op1 .neg .lhs) (.op1 .neg .rhs), some true, false⟩]]).measureOKB
    { unitW with b2 := fun | .conj => 4 | _ => 1 } = true := by
  decide
-- a flip  A∧B − ↦ ¬(A∧B) +  can only be paid by the designation marker
example : ({ (default : LogicData) with rules := [(⟨.op2 .conj, false, some false⟩,
      ⟨"flip", true, .none, [[.node ⟨.op1 .neg .whole, some true, false⟩]]⟩)] } : LogicData).measureOKB unitW = false := by
  decide
example : ({ (default : LogicData) with rules := [(⟨.op2 .conj, false, some false⟩,
      ⟨"flip", true, .none, [[.node ⟨.op1 .neg .whole, some true, false⟩]]⟩)] } : LogicData).measureOKB
    { unitW with dl := fun | some false => 2 | _ => 0 } = true := by
  decide
-- a rule that re-adds its own target is never accepted
example : (toy false [[.node ⟨.whole, some true, false⟩]]).measureOKB unitW = false := by decide
-- the fragment check ignores rows outside the fragment
example : (toy false [[.node ⟨.whole, some true, false⟩]]).measureOKOnB (fun k => k.negated) unitW = true := by decide
-- weights: ω((p ∧ q) ∨ ¬p) with unit weights is the number of symbols
example : unitW.ω (.op2 .disj (.op2 .conj (.atom 0 0) (.atom 1 0)) (.op1 .neg (.atom 0 0))) = 6 := by decide
end NonVacuity

end Ptx
