/- `wfIn` is the conjunction of the five named properties.  Core Lean only. -/
import Ptx.Lang.ParseWF
namespace Ptx.Parse
open Ptx Ptx.Sym

theorem params_iff (m : MaxIdx) (b : List Var) (ps : List Param) :
    ps.all (paramOK m b) = true ↔
      ((paramVars ps).all fun v => decide (v ∈ b)) = true ∧ ps.all (paramIdxOK m) = true := by
  induction ps with
  | nil => simp [paramVars]
  | cons p ps ih =>
    cases p with
    | const i s => simp only [List.all_cons, paramOK, paramVars, paramIdxOK, Bool.and_eq_true, ih]; grind
    | var i s =>
      simp only [List.all_cons, paramOK, paramVars, paramIdxOK, Bool.and_eq_true, ih, decide_eq_true_eq]
      grind

theorem wfIn_iff (m : MaxIdx) (s : Sent) : ∀ b,
    wfIn m b s = true ↔
      closedIn b s = true ∧ nonVacuous s = true ∧ noRebind b s = true ∧ arityOK s = true ∧ indexOK m s = true := by
  induction s with
  | atom i u => intro b; simp [wfIn, closedIn, nonVacuous, noRebind, arityOK, indexOK]
  | pred p ps =>
    intro b
    simp only [wfIn, closedIn, nonVacuous, noRebind, arityOK, indexOK, Bool.and_eq_true, params_iff]
    grind
  | quant q vi vs body ih =>
    intro b
    simp only [wfIn, closedIn, nonVacuous, noRebind, arityOK, indexOK, Bool.and_eq_true, ih]
    grind
  | op1 o a ih => intro b; simp only [wfIn, closedIn, nonVacuous, noRebind, arityOK, indexOK, ih]
  | op2 o a c iha ihc =>
    intro b
    simp only [wfIn, closedIn, nonVacuous, noRebind, arityOK, indexOK, Bool.and_eq_true, iha, ihc]
    grind

end Ptx.Parse
