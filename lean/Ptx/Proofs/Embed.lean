/-
  Ptx.Proofs.Embed — a logic `L` EXTENDS a weaker logic `L'` (pytableaux: `L.Meta.extension_of ∋ L'`)
  when every interpretation of `L` is an interpretation of `L'` that gives every sentence of
  `L'`'s vocabulary the same value.  `embedsB L' L` is the decidable table-level condition
  (checked by the kernel for every declared pair, regenerated from /repo each run); this file
  proves what it means for arbitrary structures and sentences.
-/
import Ptx.Proofs.Quant
import Ptx.Sem.Extends
namespace Ptx

namespace LogicData

structure Embeds (L' L : LogicData) : Prop where
  vals : ∀ v ∈ L.T.vals, v ∈ L'.T.vals
  des : ∀ v ∈ L.T.vals, L'.T.isDes v = L.T.isDes v
  f1 : ∀ o, o = Op1.asrt ∨ o = Op1.neg → ∀ a ∈ L.T.vals, L'.T.f1 o a = L.T.f1 o a
  f2 : ∀ o, ∀ a ∈ L.T.vals, ∀ b ∈ L.T.vals, L'.T.f2 o a b = L.T.f2 o a b
  quant : L'.quantified = true → L.quantified = true ∧
            ∀ q, ∀ P ∈ L.nonemptyProfiles, L'.T.qfold q P = L.T.qfold q P
  modal : L'.modal = true → L.modal = true ∧
            ∀ o, o = Op1.poss ∨ o = Op1.nec → ∀ P ∈ L.mProfiles, L'.T.mfold o P = L.T.mfold o P
  frame : L.frame.implies L'.frame = true
  classical : (L'.closesSelfIdNeg = true ∨ L'.closesNonExist = true) →
                (L.closesSelfIdNeg = true ∨ L.closesNonExist = true)

theorem embeds_of_embedsB {L' L : LogicData} (h : embedsB L' L = true) : Embeds L' L := by
  simp only [embedsB, Bool.and_eq_true, List.all_eq_true, Bool.or_eq_true, Bool.not_eq_true',
    beq_iff_eq, List.contains_eq_mem, decide_eq_true_eq] at h
  obtain ⟨⟨⟨⟨⟨⟨⟨h1, h2⟩, h3⟩, h4⟩, h5⟩, h6⟩, h7⟩, h8⟩ := h
  refine ⟨h1, h2, ?_, ?_, ?_, ?_, h7, ?_⟩
  · intro o ho a ha
    exact h3 o (by rcases ho with rfl | rfl <;> simp) a ha
  · intro o a ha b hb
    exact h4 o (by cases o <;> simp [Op2.all]) a ha b hb
  · intro hq
    rcases h5 with h5 | h5
    · simp [hq] at h5
    · exact ⟨h5.1, fun q P hP => h5.2 q (by cases q <;> simp [Quant.all]) P hP⟩
  · intro hm
    rcases h6 with h6 | h6
    · simp [hm] at h6
    · exact ⟨h6.1, fun o ho P hP => h6.2 o (by rcases ho with rfl | rfl <;> simp) P hP⟩
  · intro hc
    rcases h8 with h8 | h8
    · rcases hc with hc | hc <;> simp [hc] at h8
    · exact h8

end LogicData

theorem FrameKind.frameOK_of_implies {M : Struct} {k k' : FrameKind} (h : k.implies k' = true)
    (hf : M.FrameOK k) : M.FrameOK k' := by
  cases k <;> cases k' <;> simp [FrameKind.implies] at h <;> simp [Struct.FrameOK] at hf ⊢
  all_goals first
    | exact hf
    | exact fun w => ⟨w, hf w⟩
    | exact fun w => ⟨w, hf.1 w⟩
    | exact hf.1
    | exact ⟨hf.1, hf.2.1⟩

/-- an interpretation of the stronger logic is an interpretation of the weaker one -/
theorem Struct.Interp.of_embeds {M : Struct} {L' L : LogicData} (h : L'.Embeds L) (hM : M.Interp L) :
    M.Interp L' :=
  ⟨⟨fun w i s => h.vals _ (hM.vals.1 w i s), fun w p ds => h.vals _ (hM.vals.2.1 w p ds),
    fun w s => h.vals _ (hM.vals.2.2 w s)⟩,
   FrameKind.frameOK_of_implies h.frame hM.frame,
   fun hc => hM.classical (h.classical hc)⟩

/-- profiles computed against two value lists have the same canonical form in the larger one when
    all values taken lie in the smaller one -/
theorem canon_profile_embed {T' T : Tables} (hv : ∀ v ∈ T.vals, v ∈ T'.vals) {ι : Type}
    (S : ι → Prop) (f f' : ι → V) (hff : ∀ i, f' i = f i) (hf : ∀ i, S i → f i ∈ T.vals) :
    profile T' S f' = T'.canon (profile T S f) := by
  classical
  unfold Tables.canon profile
  apply List.filter_congr
  intro v hv'
  by_cases hx : ∃ i, S i ∧ f i = v
  · have h1 : ∃ i, S i ∧ f' i = v := by
      obtain ⟨i, hi, rfl⟩ := hx; exact ⟨i, hi, hff i⟩
    obtain ⟨i, hi, rfl⟩ := hx
    have : f i ∈ T.vals := hf i hi
    simp [h1, List.mem_filter, this]
    exact ⟨i, hi, rfl⟩
  · have h1 : ¬ ∃ i, S i ∧ f' i = v := by
      rintro ⟨i, hi, rfl⟩; exact hx ⟨i, hi, (hff i).symm⟩
    simp [h1, List.mem_filter]
    intro _ i hi
    intro hfi
    exact hx ⟨i, hi, hfi⟩

theorem Tables.qfold_canon (T : Tables) (q : Quant) (P : List V) : T.qfold q (T.canon P) = T.qfold q P := by
  unfold Tables.qfold
  rw [T.canon_congr (P := T.canon P) (Q := P) (fun v hv => by simp [Tables.mem_canon, hv])]

theorem Tables.mfold_canon (T : Tables) (o : Op1) (P : List V) : T.mfold o (T.canon P) = T.mfold o P := by
  unfold Tables.mfold
  rw [T.canon_congr (P := T.canon P) (Q := P) (fun v hv => by simp [Tables.mem_canon, hv])]

/-- the weaker logic gives every sentence of ITS vocabulary the value the stronger logic gives it,
    in every interpretation of the stronger logic -/
theorem eval_embed {L' L : LogicData} (h : L'.Embeds L) (hT : L.tablesTotalB = true)
    {M : Struct} (hM : M.Interp L) :
    ∀ (s : Sent), s.interp L'.modal L'.quantified = true → ∀ (e : Env M.D) (w : M.W),
      eval L' M e w s = eval L M e w s := by
  intro s
  induction s with
  | atom i s => intro _ e w; simp [eval]
  | pred p ps => intro _ e w; simp [eval]
  | quant q vi vs b ih =>
      intro hs e w
      simp only [Sent.interp, Bool.and_eq_true] at hs
      obtain ⟨hq', hb⟩ := hs
      obtain ⟨hq, hfold⟩ := h.quant hq'
      simp only [eval, hq', hq, if_true]
      have hp := qProfile_mem (L := L) hM hT e w vi vs b
      unfold qProfile at hp
      rw [canon_profile_embed (T' := L'.T) (T := L.T) h.vals (fun _ : M.D => True)
            (fun d => eval L M (e.updVar vi vs d) w b) (fun d => eval L' M (e.updVar vi vs d) w b)
            (fun d => ih hb _ w) (fun d _ => eval_mem_vals L hT M hM b _ w)]
      rw [Tables.qfold_canon]
      exact hfold q _ hp
  | op1 o a ih =>
      intro hs e w
      simp only [Sent.interp, Bool.and_eq_true, Bool.or_eq_true, Bool.not_eq_true'] at hs
      obtain ⟨hvoc, ha⟩ := hs
      simp only [eval]
      by_cases hmo : o.isModal = true
      · have hm' : L'.modal = true := by
          rcases hvoc with hvoc | hvoc
          · simp [hmo] at hvoc
          · exact hvoc
        obtain ⟨hm, hfold⟩ := h.modal hm'
        simp only [hmo, hm', hm, if_true]
        have hp := mProfiles_mem (L := L) hM hT e w a
        rw [canon_profile_embed (T' := L'.T) (T := L.T) h.vals (fun w' => M.R w w')
              (fun w' => eval L M e w' a) (fun w' => eval L' M e w' a)
              (fun w' => ih ha e w') (fun w' _ => eval_mem_vals L hT M hM a e w')]
        rw [Tables.mfold_canon]
        exact hfold o (Op1.modal_cases hmo) _ hp
      · simp only [hmo]
        rw [ih ha e w]
        exact h.f1 o (Op1.nonmodal_cases (by simpa using hmo)) _ (eval_mem_vals L hT M hM a e w)
  | op2 o a b iha ihb =>
      intro hs e w
      simp only [Sent.interp, Bool.and_eq_true] at hs
      simp only [eval]
      rw [iha hs.1 e w, ihb hs.2 e w]
      exact h.f2 o _ (eval_mem_vals L hT M hM a e w) _ (eval_mem_vals L hT M hM b e w)

/-- a countermodel in the stronger logic is a countermodel in the weaker one -/
theorem countermodel_embed {L' L : LogicData} (h : L'.Embeds L) (hT : L.tablesTotalB = true)
    {M : Struct} (hM : M.Interp L) (e : Env M.D) (w0 : M.W) (arg : Argument)
    (hv : arg.inVocab L'.modal L'.quantified = true) (hc : Countermodel L M e w0 arg) :
    Countermodel L' M e w0 arg := by
  simp only [Argument.inVocab, Bool.and_eq_true, List.all_eq_true] at hv
  refine ⟨fun p hp => ?_, ?_⟩
  · rw [eval_embed h hT hM p (hv.1 p hp), h.des _ (eval_mem_vals L hT M hM p e w0)]
    exact hc.1 p hp
  · rw [eval_embed h hT hM _ hv.2, h.des _ (eval_mem_vals L hT M hM _ e w0)]
    exact hc.2

end Ptx
