/-
  Ptx.Proofs.SearchApply — preservation of the invariant by `Ev.apply`, one rule kind at a time.
  `inv_core`: the tableau bookkeeping of `applyTarget` (target branch replaced, new branches appended, all others untouched);
  `upd_extend`: what `BranchH.upd` does for a branch extended by `Branch.extend`; then per step kind.
-/
import Ptx.Proofs.SearchStep
import Ptx.Proofs.Measure
namespace Ptx.Search
open Ptx

/-! ### small changes of the helper state / the branch that do not touch the invariant -/

section tweaks
variable {L : LogicData} {mw mc : Nat} {dead : RuleId → Nat → Prop} {b : Branch} {h : BranchH}

theorem HInv.setLS (H : HInv L mw mc dead b h) (x : Option Nat)
    (hx : ∀ w2, x = some w2 → ∀ sn d, Node.sent sn d (some w2) ∉ b.nodes) :
    HInv L mw mc dead b { h with lastSerial := x } :=
  { windex := H.windex, unserial := H.unserial, cacheSound := H.cacheSound, cacheComplete := H.cacheComplete,
    nwDone := H.nwDone, ticked := H.ticked, closeNone := H.closeNone, closeSome := H.closeSome,
    worlded := H.worlded, lastSerial := hx }

theorem HInv.setQuits (H : HInv L mw mc dead b h) (q : List (RuleKey × Bool)) :
    HInv L mw mc dead b { h with quits := q } :=
  { windex := H.windex, unserial := H.unserial, cacheSound := H.cacheSound, cacheComplete := H.cacheComplete,
    nwDone := H.nwDone, ticked := H.ticked, closeNone := H.closeNone, closeSome := H.closeSome,
    worlded := H.worlded, lastSerial := H.lastSerial }

theorem HInv.setNcs (H : HInv L mw mc dead b h) (q : List ((RuleKey × Nat) × List (Nat × Nat))) :
    HInv L mw mc dead b { h with ncs := q } :=
  { windex := H.windex, unserial := H.unserial, cacheSound := H.cacheSound, cacheComplete := H.cacheComplete,
    nwDone := H.nwDone, ticked := H.ticked, closeNone := H.closeNone, closeSome := H.closeSome,
    worlded := H.worlded, lastSerial := H.lastSerial }

theorem HInv.setParent (H : HInv L mw mc dead b h) (p : Option Nat) :
    HInv L mw mc dead { b with parent := p } h :=
  { windex := H.windex, unserial := H.unserial, cacheSound := H.cacheSound, cacheComplete := H.cacheComplete,
    nwDone := H.nwDone, ticked := H.ticked, closeNone := H.closeNone, closeSome := H.closeSome,
    worlded := H.worlded, lastSerial := H.lastSerial }

theorem HInv.deadImp {dead' : RuleId → Nat → Prop} (H : HInv L mw mc dead b h) (himp : ∀ r i, dead' r i → dead r i) :
    HInv L mw mc dead' b h :=
  H.recache h.caches (fun _ _ hi => hi) (fun r i hi hd => Or.inl ⟨hi, fun hd' => hd (himp r i hd')⟩)

/-- one more recorded (node, world) pair of `NodesWorlds`, with its instance on the branch -/
theorem HInv.addNw (H : HInv L mw mc dead b h) (k : RuleKey) (n w' : Nat)
    (hdone : ∃ sn d w r whole l0, b.nodes[n]? = some (.sent sn d w) ∧
      L.ruleFor sn d = some (r, whole, l0) ∧ groupsDone b (instGroups whole l0 w none (some w') r) = true) :
    HInv L mw mc dead b { h with nws := amod [] (· ++ [(n, w')]) h.nws k } :=
  { windex := H.windex, unserial := H.unserial, cacheSound := H.cacheSound, cacheComplete := H.cacheComplete,
    nwDone := fun k' i w2 hm => by
      have hm' : (i, w2) ∈ aget [] (amod [] (· ++ [(n, w')]) h.nws k) k' := hm
      rw [aget_amod] at hm'
      split at hm'
      · next hk =>
        subst hk
        rcases List.mem_append.1 hm' with h1 | h1
        · exact H.nwDone k' i w2 h1
        · simp only [List.mem_singleton, Prod.mk.injEq] at h1
          obtain ⟨rfl, rfl⟩ := h1
          exact hdone
      · exact H.nwDone k' i w2 hm'
    ticked := H.ticked, closeNone := H.closeNone, closeSome := H.closeSome,
    worlded := H.worlded, lastSerial := H.lastSerial }

/-- `after_node_tick`: node i (unticked so far) is ticked, having received what `tickDone` asks for -/
theorem HInv.tick (H : HInv L mw mc dead b h) (i : Nat) {sn : Sent} {d : Option Bool} {w : Option Nat}
    (hn : b.nodes[i]? = some (.sent sn d w)) (hd : tickDone L b sn d w) :
    HInv L mw mc dead { b with ticked := b.ticked ++ [i] } (h.tick i) :=
  { windex := H.windex, unserial := H.unserial
    cacheSound := fun r j hj => by
      obtain ⟨hc, hne⟩ := mem_cache_tick.1 hj
      obtain ⟨nd, hnd, hm, ht⟩ := H.cacheSound r j hc
      refine ⟨nd, hnd, hm, fun hig hmem => ?_⟩
      rcases List.mem_append.1 hmem with h1 | h1
      · exact ht hig h1
      · exact hne hig (by simpa using h1)
    cacheComplete := fun r j nd hnd hm ht => by
      have ht' : ignoreTicked r = true → j ∉ b.ticked := fun hig hmem => ht hig (List.mem_append_left _ hmem)
      rcases H.cacheComplete r j nd hnd hm ht' with ⟨hc, hdd⟩ | hr
      · refine Or.inl ⟨mem_cache_tick.2 ⟨hc, fun hig he => ?_⟩, hdd⟩
        exact ht hig (by simp [he])
      · exact Or.inr hr
    nwDone := H.nwDone
    ticked := fun j hj => by
      rcases List.mem_append.1 hj with h1 | h1
      · exact H.ticked j h1
      · have : j = i := by simpa using h1
        subst this
        exact ⟨sn, d, w, hn, hd⟩
    closeNone := H.closeNone, closeSome := H.closeSome, worlded := H.worlded, lastSerial := H.lastSerial }

end tweaks


/-! ### `BranchH.upd` on an extended branch -/

theorem filter_not_contains_self (l : List Nat) : l.filter (fun i => !l.contains i) = [] := by
  rw [List.filter_eq_nil_iff]
  intro x hx
  simp [hx]

/-- helper state of a branch extended by `Branch.extend ns tick` (parent field irrelevant): the nodes go through the
    `after_node_add` listeners, then the tick (if the node was not ticked before) -/
theorem upd_extend (L : LogicData) (b : Branch) (h : BranchH) (ns : List Node) (tick : Option Nat) (p : Option Nat) :
    h.upd L b { b.extend ns tick with parent := p } =
      match tick with
      | some n => if b.ticked.contains n then h.grow L b ns else (h.grow L b ns).tick n
      | none => h.grow L b ns := by
  unfold BranchH.upd
  have hd : ({ b.extend ns tick with parent := p } : Branch).nodes.drop b.nodes.length = ns := by
    simp [Branch.extend]
  rw [hd]
  cases tick with
  | none =>
    have : ({ b.extend ns none with parent := p } : Branch).ticked = b.ticked := rfl
    rw [this, filter_not_contains_self]
    rfl
  | some n =>
    by_cases hc : b.ticked.contains n = true
    · have hm : n ∈ b.ticked := by simpa using hc
      have : ({ b.extend ns (some n) with parent := p } : Branch).ticked = b.ticked := by simp [Branch.extend, hm]
      rw [this, filter_not_contains_self]
      simp [hm, BranchH.ticks]
    · have hm : n ∉ b.ticked := by simpa using hc
      have : ({ b.extend ns (some n) with parent := p } : Branch).ticked = b.ticked ++ [n] := by simp [Branch.extend, hm]
      rw [this, List.filter_append, filter_not_contains_self]
      simp [hm, BranchH.ticks]

theorem extend_parent (b : Branch) (ns : List Node) (tick : Option Nat) :
    ({ b.extend ns tick with parent := b.parent } : Branch) = b.extend ns tick := rfl

/-- the invariant of a branch extended through `Branch.extend` with helper state `BranchH.upd` -/
theorem HInv.extend {L : LogicData} {mw mc : Nat} {dead : RuleId → Nat → Prop} {b : Branch} {h : BranchH}
    (H : HInv L mw mc dead b h) (ns : List Node) (tick : Option Nat) (p : Option Nat)
    (hw : L.modal = true → ∀ sn d w, Node.sent sn d w ∈ ns → w.isSome = true)
    (hd : ∀ r i, b.nodes.length ≤ i → ¬ dead r i)
    (hl : ∀ w2, h.lastSerial = some w2 → ∀ sn d, Node.sent sn d (some w2) ∉ ns)
    (htick : ∀ n, tick = some n → n ∉ b.ticked →
      ∃ sn d w, b.nodes[n]? = some (.sent sn d w) ∧ tickDone L { b with nodes := b.nodes ++ ns } sn d w) :
    HInv L mw mc dead { b.extend ns tick with parent := p } (h.upd L b { b.extend ns tick with parent := p }) := by
  rw [upd_extend]
  have G := H.grow ns b h hw hd hl
  cases tick with
  | none => exact G.setParent p
  | some n =>
    by_cases hc : b.ticked.contains n = true
    · simp only [hc, ↓reduceIte]
      have hm : n ∈ b.ticked := by simpa using hc
      have : ({ b.extend ns (some n) with parent := p } : Branch) = { ({ b with nodes := b.nodes ++ ns } : Branch) with parent := p } := by
        simp [Branch.extend, hm]
      rw [this]
      exact G.setParent p
    · simp only [hc, Bool.false_eq_true, ↓reduceIte]
      obtain ⟨sn, d, w, hn, hdone⟩ := htick n rfl (by simpa using hc)
      have hn' : ({ b with nodes := b.nodes ++ ns } : Branch).nodes[n]? = some (.sent sn d w) := by
        have hlt : n < b.nodes.length := by
          rcases Nat.lt_or_ge n b.nodes.length with h1 | h1
          · exact h1
          · rw [List.getElem?_eq_none h1] at hn; cases hn
        simp [List.getElem?_append_left hlt, hn]
      have T := (G.tick n hn' hdone).setParent p
      have : ({ b.extend ns (some n) with parent := p } : Branch) =
          { ({ ({ b with nodes := b.nodes ++ ns } : Branch) with ticked := b.ticked ++ [n] } : Branch) with parent := p } := by
        have hm : n ∉ b.ticked := by simpa using hc
        simp [Branch.extend, hm]
      rw [this]
      exact T

/-! ### the tableau bookkeeping of `applyTarget` -/

theorem inv_core {L : LogicData} {s1 : SState} (hinv : Inv L s1) {bi : Nat} {b : Branch} {h : BranchH}
    (hb : s1.tab[bi]? = some b) (_hh : s1.hs[bi]? = some h)
    (b0 : Branch) (own : BranchH) (extra : List Branch) (extraH : List BranchH)
    (hlen : extraH.length = extra.length)
    (hext : b.nodes.length ≤ b0.nodes.length)
    (hown : b0.closed = false → HInv L s1.maxWorlds s1.maxConsts (fun r i => (bi, i) ∈ s1.garbage r) b0 own)
    (hex : ∀ (k : Nat) bn hn, extra[k]? = some bn → extraH[k]? = some hn → bn.closed = false →
      HInv L s1.maxWorlds s1.maxConsts (fun _ _ => False) bn hn) :
    Inv L { s1 with tab := s1.tab.set bi b0 ++ extra, hs := s1.hs.set bi own ++ extraH } := by
  have hbi : bi < s1.tab.length := by
    rcases Nat.lt_or_ge bi s1.tab.length with h1 | h1
    · exact h1
    · rw [List.getElem?_eq_none h1] at hb; cases hb
  have hl := hinv.len
  refine ⟨by simp [hl, hlen], ?_, ?_⟩
  · intro r p hp
    obtain ⟨b', hb', hlt⟩ := hinv.gb r p hp
    have hp1 : p.1 < s1.tab.length := by
      rcases Nat.lt_or_ge p.1 s1.tab.length with h1 | h1
      · exact h1
      · rw [List.getElem?_eq_none h1] at hb'; cases hb'
    by_cases he : p.1 = bi
    · refine ⟨b0, ?_, ?_⟩
      · simp [List.getElem?_append_left, hp1, he, hbi, List.getElem?_set]
      · rw [he, hb] at hb'
        simp only [Option.some.injEq] at hb'
        subst hb'
        omega
    · refine ⟨b', ?_, hlt⟩
      have : (s1.tab.set bi b0 ++ extra)[p.1]? = s1.tab[p.1]? := by
        rw [List.getElem?_append_left (by simpa using hp1), List.getElem?_set_ne (Ne.symm he)]
      simpa [this] using hb'
  · intro bj b' h' hb' hh' ho'
    simp only at hb' hh'
    rw [branchInv_iff (s := { s1 with tab := _, hs := _ }) hh']
    by_cases hlt : bj < s1.tab.length
    · rw [List.getElem?_append_left (by simpa using hlt)] at hb'
      rw [List.getElem?_append_left (by simpa [hl] using hlt)] at hh'
      by_cases he : bj = bi
      · subst he
        rw [List.getElem?_set_self hlt] at hb'
        rw [List.getElem?_set_self (by omega)] at hh'
        simp only [Option.some.injEq] at hb' hh'
        subst hb'; subst hh'
        exact hown ho'
      · rw [List.getElem?_set_ne (Ne.symm he)] at hb' hh'
        exact (branchInv_iff hh').1 (hinv.branch bj b' h' hb' hh' ho')
    · have hge : s1.tab.length ≤ bj := Nat.le_of_not_lt hlt
      rw [List.getElem?_append_right (by simpa using hge)] at hb'
      rw [List.getElem?_append_right (by simpa [hl] using hge)] at hh'
      simp only [List.length_set] at hb' hh'
      rw [hl] at hh'
      have := hex _ b' h' hb' hh' ho'
      refine this.deadImp ?_
      intro r i hd
      obtain ⟨b2, hb2, _⟩ := hinv.gb r (bj, i) hd
      simp only at hb2
      rw [List.getElem?_eq_none hge] at hb2
      cases hb2


/-! ### `applyTarget` unfolded -/

/-- what the application records as "last Serial world" of the target branch -/
def lsOf : RuleId → Step → Option Nat
  | .frame .serial, .frame _ .serial _ w2 _ => some w2
  | _, _ => none

theorem applyStep_open {L : LogicData} {t t' : Tableau} {st : Step} (h : applyStep L t st = some t') :
    ∃ b, t[st.branch]? = some b ∧ b.closed = false ∧ applyAt L t st.branch b st = some t' := by
  unfold applyStep at h
  split at h
  · cases h
  · next b hb =>
    split at h
    · cases h
    · next hc => exact ⟨b, hb, by simpa using hc, h⟩

theorem applyTarget_eq {L : LogicData} {s1 : SState} {r : RuleId} {st : Step} {b : Branch} {h : BranchH}
    {b0 : Branch} {extra : List Branch}
    (hb : s1.tab[st.branch]? = some b) (hh : s1.hs[st.branch]? = some h)
    (ht : applyStep L s1.tab st = some (s1.tab.set st.branch b0 ++ extra)) :
    applyTarget L s1 r st = some { s1 with
      tab := s1.tab.set st.branch b0 ++ extra
      hs := s1.hs.set st.branch (afterApply L r st (({ h with lastSerial := lsOf r st } : BranchH).upd L b b0)) ++
        extra.map (fun bn => ({ h with lastSerial := none } : BranchH).upd L b bn) } := by
  have hbi : st.branch < s1.tab.length := by
    rcases Nat.lt_or_ge st.branch s1.tab.length with h1 | h1
    · exact h1
    · rw [List.getElem?_eq_none h1] at hb; cases hb
  have h1 : (s1.tab.set st.branch b0 ++ extra)[st.branch]? = some b0 := by
    rw [List.getElem?_append_left (by simpa using hbi), List.getElem?_set_self hbi]
  have h2 : (s1.tab.set st.branch b0 ++ extra).drop s1.tab.length = extra := by
    have : s1.tab.length = (s1.tab.set st.branch b0).length := by simp
    rw [this, List.drop_left]
  unfold applyTarget
  simp only [hb, hh, ht, h1, h2]
  congr 2

/-- the common proof: search state `s1` satisfying `Inv`, a legal step producing `set bi b0 ++ extra`, and the branch-local
    invariant of every resulting open branch -/
theorem inv_applyTarget_of {L : LogicData} {s1 s' : SState} {r : RuleId} {st : Step} (hinv : Inv L s1)
    {b : Branch} {h : BranchH} {b0 : Branch} {extra : List Branch}
    (hb : s1.tab[st.branch]? = some b) (hh : s1.hs[st.branch]? = some h)
    (ht : applyStep L s1.tab st = some (s1.tab.set st.branch b0 ++ extra))
    (hs' : applyTarget L s1 r st = some s')
    (hext : b.nodes.length ≤ b0.nodes.length)
    (hown : b0.closed = false → HInv L s1.maxWorlds s1.maxConsts (fun r' i => (st.branch, i) ∈ s1.garbage r') b0
      (afterApply L r st (({ h with lastSerial := lsOf r st } : BranchH).upd L b b0)))
    (hex : ∀ bn ∈ extra, bn.closed = false →
      HInv L s1.maxWorlds s1.maxConsts (fun _ _ => False) bn (({ h with lastSerial := none } : BranchH).upd L b bn)) :
    Inv L s' := by
  rw [applyTarget_eq hb hh ht] at hs'
  simp only [Option.some.injEq] at hs'
  subst hs'
  refine inv_core hinv hb hh b0 _ extra _ (by simp) hext hown ?_
  intro k bn hn hk hkh ho
  simp only [List.getElem?_map, hk, Option.map_some, Option.some.injEq] at hkh
  subst hkh
  exact hex bn (List.mem_of_getElem? hk) ho


/-! ### what a legal table-rule step adds -/

/-- the element function of `instAdds` -/
def instAdd1 (whole l : Sent) (r raw : Option Sent) (var : Nat × Nat) (w wo : Option Nat) : AddT → Option Node
  | .node n =>
      match n.tm.inst whole l r raw var with
      | none => none
      | some s =>
        if n.other then
          match wo with
          | some w' => some (.sent s n.des (some w'))
          | none => none
        else some (.sent s n.des w)
  | .access =>
      match w, wo with
      | some w, some w' => some (.access w w')
      | _, _ => none

theorem instAdds_eq (whole l : Sent) (r raw : Option Sent) (var : Nat × Nat) (w wo : Option Nat) (br : List AddT) :
    instAdds whole l r raw var w wo br = mapOpt (instAdd1 whole l r raw var w wo) br := by
  unfold instAdds
  congr 1

theorem instAdd1_shape {whole l : Sent} {r raw : Option Sent} {var : Nat × Nat} {w wo : Option Nat} {a : AddT} {x : Node}
    (h : instAdd1 whole l r raw var w wo a = some x) :
    (∃ s d, x = .sent s d w) ∨ (∃ s d w', wo = some w' ∧ x = .sent s d (some w')) ∨
      (∃ a0 w', w = some a0 ∧ wo = some w' ∧ x = .access a0 w') := by
  cases a with
  | node n =>
    simp only [instAdd1] at h
    split at h
    · cases h
    · next s hs =>
      split at h
      · split at h
        · next w' => simp only [Option.some.injEq] at h; exact Or.inr (Or.inl ⟨s, n.des, w', rfl, h.symm⟩)
        · cases h
      · simp only [Option.some.injEq] at h; exact Or.inl ⟨s, n.des, h.symm⟩
  | access =>
    simp only [instAdd1] at h
    split at h
    · next a0 w' => simp only [Option.some.injEq] at h; exact Or.inr (Or.inr ⟨a0, w', rfl, rfl, h.symm⟩)
    · cases h

/-- does a template item mention the witness world -/
def mentionsOther : AddT → Bool
  | .access => true
  | .node n => n.other

theorem instAdd1_mentions {whole l : Sent} {r raw : Option Sent} {var : Nat × Nat} {w : Option Nat} {w' : Nat} {a : AddT} {x : Node}
    (ha : mentionsOther a = true) (h : instAdd1 whole l r raw var w (some w') a = some x) : w' ∈ x.worldsSem := by
  cases a with
  | node n =>
    have hn : n.other = true := ha
    simp only [instAdd1, hn, ↓reduceIte] at h
    split at h
    · cases h
    · simp only [Option.some.injEq] at h; subst h; simp [Node.worldsSem]
  | access =>
    simp only [instAdd1] at h
    split at h
    · next a0 w2 heq1 heq2 =>
      simp only [Option.some.injEq] at h heq2
      subst h; subst heq2; simp [Node.worldsSem]
    · cases h

/-- every legal witness group list is `mapOpt (instAdds …)` of the rule's branches -/
theorem witnessGroups_mapOpt {b : Branch} {whole l0 : Sent} {w : Option Nat} {c : Option (Nat × Nat)} {wo : Option Nat}
    {r : Rule} {gs : List (List Node)} (h : witnessGroups b whole l0 w c wo r = some gs) :
    (∃ l r' raw, mapOpt (instAdds whole l r' raw whole.qvar w wo) r.branches = some gs) ∧
    (∀ w', wo = some w' → (r.witness = .newWorld ∨ r.witness = .eachWorld) ∧ c = none) ∧
    (wo = none → r.witness = .none → c = none) := by
  unfold witnessGroups at h
  split at h <;> rename_i hw
  · split at h
    · cases h
    · next hc =>
      simp only [Bool.or_eq_true, not_or, Bool.not_eq_true, Option.isSome_eq_false_iff, Option.isNone_iff_eq_none] at hc
      obtain ⟨rfl, rfl⟩ := hc
      refine ⟨⟨_, _, _, h⟩, ?_, ?_⟩
      · intro w' he; cases he
      · intro _ _; rfl
  · split at h
    · next ci cs =>
      split at h
      · cases h
      · next hc =>
        simp only [Bool.or_eq_true, not_or, Bool.not_eq_true, Option.isSome_eq_false_iff, Option.isNone_iff_eq_none] at hc
        obtain ⟨_, rfl⟩ := hc
        refine ⟨⟨_, _, _, h⟩, ?_, ?_⟩
        · intro w' he; cases he
        · intro _ hn; rw [hw] at hn; cases hn
    · cases h
  · split at h
    · next ci cs =>
      split at h
      · cases h
      · next hc =>
        have : wo = none := by simpa using hc
        subst this
        refine ⟨⟨_, _, _, h⟩, ?_, ?_⟩
        · intro w' he; cases he
        · intro _ hn; rw [hw] at hn; cases hn
    · cases h
  · split at h
    · next w' w0 =>
      split at h
      · cases h
      · next hc =>
        simp only [Bool.or_eq_true, not_or, Bool.not_eq_true, Option.isSome_eq_false_iff, Option.isNone_iff_eq_none] at hc
        obtain ⟨_, rfl⟩ := hc
        refine ⟨⟨_, _, _, h⟩, ?_, ?_⟩
        · intro w2 _; exact ⟨Or.inl hw, rfl⟩
        · intro he; cases he
    · cases h
  · split at h
    · next w' w0 =>
      split at h
      · cases h
      · next hc =>
        simp only [Bool.or_eq_true, not_or, Bool.not_eq_true, Option.isSome_eq_false_iff, Option.isNone_iff_eq_none] at hc
        obtain ⟨_, rfl⟩ := hc
        refine ⟨⟨_, _, _, h⟩, ?_, ?_⟩
        · intro w2 _; exact ⟨Or.inr hw, rfl⟩
        · intro he; cases he
    · cases h

theorem ruleGroups_unfold {L : LogicData} {b : Branch} {s : Sent} {d : Option Bool} {w : Option Nat}
    {c : Option (Nat × Nat)} {wo : Option Nat} {r : Rule} {gs : List (List Node)}
    (hg : L.ruleGroups b s d w c wo = some (r, gs)) :
    ∃ whole l0, L.ruleFor s d = some (r, whole, l0) ∧ witnessGroups b whole l0 w c wo r = some gs := by
  unfold LogicData.ruleGroups at hg
  split at hg
  · cases hg
  · next sh ng whole hd =>
    split at hg
    · next r0 l0 hrule hl0 =>
      split at hg
      · cases hg
      · split at hg
        · next gs0 hwg =>
          simp only [Option.some.injEq, Prod.mk.injEq] at hg
          obtain ⟨rfl, rfl⟩ := hg
          exact ⟨whole, l0, by simp [LogicData.ruleFor, hd, hrule, hl0], hwg⟩
        · cases hg
    · cases hg


theorem applyTarget_some {L : LogicData} {s1 s' : SState} {r : RuleId} {st : Step} (h : applyTarget L s1 r st = some s') :
    ∃ b hh t', s1.tab[st.branch]? = some b ∧ s1.hs[st.branch]? = some hh ∧ applyStep L s1.tab st = some t' := by
  unfold applyTarget at h
  cases hb : s1.tab[st.branch]? with
  | none => simp [hb] at h
  | some b =>
    cases hhs : s1.hs[st.branch]? with
    | none => simp [hb, hhs] at h
    | some hh =>
      cases ht : applyStep L s1.tab st with
      | none => simp [hb, hhs, ht] at h
      | some t' => exact ⟨b, hh, t', rfl, rfl, rfl⟩

/-- the `AFTER_APPLY` listeners keep the branch-local invariant, given the instance behind a new `NodesWorlds` pair -/
theorem HInv.afterApply {L : LogicData} {mw mc : Nat} {dead : RuleId → Nat → Prop} {b : Branch} {h : BranchH}
    (H : HInv L mw mc dead b h) (r : RuleId) (st : Step)
    (hnw : ∀ bb n c w', st = .rule bb n c (some w') → ∃ sn d w r' whole l0, b.nodes[n]? = some (.sent sn d w) ∧
      L.ruleFor sn d = some (r', whole, l0) ∧ groupsDone b (instGroups whole l0 w none (some w') r') = true) :
    HInv L mw mc dead b (afterApply L r st h) := by
  unfold Ptx.Search.afterApply
  cases r with
  | closure => exact H
  | frame fr => exact H
  | ident => exact H
  | table k =>
    simp only
    split
    · next rl hrl =>
      have H1 : ∀ flag : Bool, HInv L mw mc dead b
          (if (rl.witness != .none) = true then
            { h with quits := amod false (fun _ => flag) h.quits k } else h) := by
        intro flag
        split
        · exact H.setQuits _
        · exact H
      split
      · next bb n c w' hwit =>
        exact (H1 _).addNw k n w' (hnw bb n c w' rfl)
      · exact (H1 _).setNcs _
      · exact H1 _
    · exact H

/-- the `lastSerial` value recorded by an application is justified on the branch before the step -/
theorem lsOf_ok {L : LogicData} {t t' : Tableau} {r : RuleId} {st : Step} {b : Branch}
    (hb : t[st.branch]? = some b) (ht : applyStep L t st = some t') :
    ∀ w2, lsOf r st = some w2 → ∀ sn d, Node.sent sn d (some w2) ∉ b.nodes := by
  intro w2 hl sn d hm
  obtain ⟨b', hb', _, ha⟩ := applyStep_open ht
  rw [hb] at hb'
  simp only [Option.some.injEq] at hb'
  subst hb'
  cases r with
  | frame fr =>
    cases fr with
    | serial =>
      cases st with
      | frame bi fr' w1 w2' w3 =>
        cases fr' with
        | serial =>
          simp only [lsOf, Option.some.injEq] at hl
          subst hl
          simp only [applyAt] at ha
          split at ha
          · cases ha
          · split at ha
            · next nd hfa =>
              simp only [frameAdd] at hfa
              split at hfa
              · next hc =>
                simp only [Bool.and_eq_true, Bool.not_eq_eq_eq_not, Bool.not_true] at hc
                have : w2' ∈ b.worlds := by
                  simp only [Branch.worlds, List.mem_flatMap]
                  exact ⟨_, hm, by simp [Node.worldsSem]⟩
                have := hc.2
                simp_all
              · cases hfa
            · cases ha
        | _ => simp [lsOf] at hl
      | _ => simp [lsOf] at hl
    | _ => cases st <;> simp [lsOf] at hl
  | closure => cases st <;> simp [lsOf] at hl
  | ident => cases st <;> simp [lsOf] at hl
  | table k => cases st <;> simp [lsOf] at hl


/-! ### per step kind -/

theorem closeB_closed (b : Branch) : (closeB b).closed = true := by
  simp [closeB, Branch.extend, Branch.closed, Node.isClosure]

theorem own_dead_bound {L : LogicData} {s1 : SState} (hinv : Inv L s1) {bi : Nat} {b : Branch} (hb : s1.tab[bi]? = some b) :
    ∀ r i, b.nodes.length ≤ i → ¬ (bi, i) ∈ s1.garbage r := by
  intro r i hle hm
  obtain ⟨b', hb', hlt⟩ := hinv.gb r (bi, i) hm
  simp only at hb' hlt
  rw [hb] at hb'
  simp only [Option.some.injEq] at hb'
  subst hb'
  omega

/-- (a) a closure step -/
theorem inv_apply_close {L : LogicData} {s1 s' : SState} {r : RuleId} {st : Step} (hinv : Inv L s1)
    (hk : (∃ bi sn w, st = .close bi sn w) ∨ (∃ bi n, st = .closeIdent bi n))
    (hs' : applyTarget L s1 r st = some s') : Inv L s' := by
  obtain ⟨b, h, t', hb, hh, ht⟩ := applyTarget_some hs'
  obtain ⟨b', hb', ho, ha⟩ := applyStep_open ht
  rw [hb] at hb'; simp only [Option.some.injEq] at hb'; subst hb'
  have ht' : t' = s1.tab.set st.branch (closeB b) ++ [] := by
    rcases hk with ⟨bi, sn, w, rfl⟩ | ⟨bi, n, rfl⟩
    · simp only [applyAt] at ha
      split at ha
      · simpa using ha.symm
      · cases ha
    · simp only [applyAt] at ha
      split at ha
      · split at ha
        · simpa using ha.symm
        · cases ha
      · cases ha
  rw [ht'] at ht
  refine inv_applyTarget_of hinv hb hh ht hs' (by simp [closeB, Branch.extend]) ?_ ?_
  · intro hc; rw [closeB_closed] at hc; cases hc
  · intro bn hbn; cases hbn

theorem frameAdd_access {b : Branch} {fr : FrameRule} {w1 w2 w3 : Nat} {nd : Node} (h : frameAdd b fr w1 w2 w3 = some nd) :
    ∃ a c, nd = .access a c := by
  cases fr <;> simp only [frameAdd] at h <;> split at h <;> first | (simp only [Option.some.injEq] at h; exact ⟨_, _, h.symm⟩) | cases h

/-- (b) a frame-rule step (Reflexive / Transitive / Symmetric / Serial, with the per-branch `lastSerial` update) -/
theorem inv_apply_frame {L : LogicData} {s1 s' : SState} {r : RuleId} {bi : Nat} {fr : FrameRule} {w1 w2 w3 : Nat}
    (hinv : Inv L s1) (hs' : applyTarget L s1 r (.frame bi fr w1 w2 w3) = some s') : Inv L s' := by
  obtain ⟨b, h, t', hb, hh, ht⟩ := applyTarget_some hs'
  obtain ⟨b', hb', ho, ha⟩ := applyStep_open ht
  rw [hb] at hb'; simp only [Option.some.injEq] at hb'; subst hb'
  have hls := lsOf_ok (r := r) hb ht
  simp only [applyAt] at ha
  split at ha
  · cases ha
  · split at ha
    rotate_left
    · cases ha
    next nd hfa =>
    obtain ⟨a, c, rfl⟩ := frameAdd_access hfa
    have ht' : t' = s1.tab.set (Step.frame bi fr w1 w2 w3).branch (b.extend [.access a c] none) ++ [] := by
      simpa using ha.symm
    rw [ht'] at ht
    have H0 := (branchInv_iff hh).1 (hinv.branch _ b h hb hh ho)
    refine inv_applyTarget_of hinv hb hh ht hs' (by simp [Branch.extend]) ?_ ?_
    · intro _
      have H1 := H0.setLS (lsOf r (.frame bi fr w1 w2 w3)) hls
      have H2 := H1.extend [.access a c] none b.parent (fun _ sn d w hm => by simp at hm)
        (own_dead_bound hinv hb) (fun w2 _ sn d hm => by simp at hm) (fun n hn => by cases hn)
      rw [extend_parent] at H2
      exact H2.afterApply r _ (fun bb n c w' he => by cases he)
    · intro bn hbn; cases hbn


theorem hasAll_append_self (b : Branch) (g : List Node) : ({ b with nodes := b.nodes ++ g } : Branch).hasAll g = true := by
  simp only [Branch.hasAll, List.all_eq_true, Branch.hasNode, List.contains_iff_mem, List.mem_append]
  exact fun x hx => Or.inr hx

theorem groupsDone_of_mem {b : Branch} {gs : List (List Node)} {g : List Node} (hg : g ∈ gs) (h : b.hasAll g = true) :
    groupsDone b (some gs) = true := by
  simp only [groupsDone]
  exact List.any_eq_true.2 ⟨g, hg, h⟩

theorem mapOpt_congr' {α β} {f g : α → Option β} : ∀ {xs : List α}, (∀ a ∈ xs, f a = g a) → mapOpt f xs = mapOpt g xs
  | [], _ => rfl
  | x :: xs, h => by
      simp only [mapOpt, h x (by simp), mapOpt_congr' (xs := xs) (fun a ha => h a (List.mem_cons_of_mem _ ha))]

theorem mapOpt_isSome_congr {α β} {f g : α → Option β} :
    ∀ {xs : List α}, (∀ a ∈ xs, (f a).isSome = (g a).isSome) → (mapOpt f xs).isSome = (mapOpt g xs).isSome
  | [], _ => rfl
  | x :: xs, h => by
      have h1 := h x (by simp)
      have h2 := mapOpt_isSome_congr (xs := xs) (fun a ha => h a (List.mem_cons_of_mem _ ha))
      simp only [mapOpt]
      cases hf : f x <;> cases hg : g x <;> simp [hf, hg] at h1
      · rfl
      · cases hf2 : mapOpt f xs <;> cases hg2 : mapOpt g xs <;> simp [hf2, hg2] at h2 <;> rfl

theorem instAdd1_other_indep (whole l : Sent) (r raw : Option Sent) (var : Nat × Nat) (w : Option Nat) (w' w'' : Nat) (a : AddT) :
    (instAdd1 whole l r raw var w (some w') a).isSome = (instAdd1 whole l r raw var w (some w'') a).isSome ∧
    (mentionsOther a = false → instAdd1 whole l r raw var w (some w') a = instAdd1 whole l r raw var w (some w'') a) := by
  cases a with
  | node n =>
    simp only [instAdd1, mentionsOther]
    cases n.tm.inst whole l r raw var with
    | none => exact ⟨rfl, fun _ => rfl⟩
    | some s0 => cases n.other <;> simp
  | access =>
    simp only [instAdd1, mentionsOther]
    cases w <;> simp

/-- what every group of a legal table-rule step brings: worlded nodes, what `tickDone` asks for, the instance behind a
    `NodesWorlds` pair -/
theorem rule_group_facts {L : LogicData} {b : Branch} {sn : Sent} {d : Option Bool}
    {w : Option Nat} {c : Option (Nat × Nat)} {wo : Option Nat} {r' : Rule} {gs : List (List Node)}
    (hnm : Node.sent sn d w ∈ b.nodes) (hwld : L.modal = true → w.isSome = true)
    (hg : L.ruleGroups b sn d w c wo = some (r', gs)) :
    ∃ whole l0, L.ruleFor sn d = some (r', whole, l0) ∧
      ∀ g ∈ gs,
        (L.modal = true → ∀ s1 d1 w1, Node.sent s1 d1 w1 ∈ g → w1.isSome = true) ∧
        (r'.ticks = true → tickDone L { b with nodes := b.nodes ++ g } sn d w) ∧
        (∀ w', wo = some w' →
          groupsDone { b with nodes := b.nodes ++ g } (instGroups whole l0 w none (some w') r') = true) := by
  obtain ⟨whole, l0, hrf, hwg⟩ := ruleGroups_unfold hg
  refine ⟨whole, l0, hrf, ?_⟩
  obtain ⟨⟨l, rr, raw, hmo⟩, hwo, hnone⟩ := witnessGroups_mapOpt hwg
  have hig := witnessGroups_instGroups hwg
  intro g hgm
  obtain ⟨br, hbr, hia⟩ := mapOpt_mem_bwd hmo g hgm
  rw [instAdds_eq] at hia
  have hdone : ∀ c' wo', instGroups whole l0 w c' wo' r' = some gs →
      groupsDone { b with nodes := b.nodes ++ g } (instGroups whole l0 w c' wo' r') = true := by
    intro c' wo' he
    rw [he]
    exact groupsDone_of_mem hgm (hasAll_append_self b g)
  refine ⟨?_, ?_, ?_⟩
  · intro hm s1 d1 w1 hx
    obtain ⟨a, _, ha⟩ := mapOpt_mem_bwd hia _ hx
    rcases instAdd1_shape ha with ⟨s2, d2, he⟩ | ⟨s2, d2, w', _, he⟩ | ⟨a0, w', _, _, he⟩
    · simp only [Node.sent.injEq] at he; rw [he.2.2]; exact hwld hm
    · simp only [Node.sent.injEq] at he; rw [he.2.2]; rfl
    · cases he
  · intro htk
    refine ⟨r', whole, l0, hrf, htk, Or.inr ?_⟩
    cases hwit : r'.witness with
    | none =>
      simp only
      cases wo with
      | some w' => have := (hwo w' rfl).1; rw [hwit] at this; rcases this with h1 | h1 <;> cases h1
      | none =>
        have hc := hnone rfl hwit
        subst hc
        exact hdone _ _ hig
    | newWorld =>
      simp only
      cases wo with
      | none =>
        exfalso
        unfold witnessGroups at hwg
        simp [hwit] at hwg
      | some w' =>
        have hc := (hwo w' rfl).2
        subst hc
        have hw0 : ∃ w0, w = some w0 := by
          unfold witnessGroups at hwg
          simp only [hwit] at hwg
          cases w with
          | none => simp at hwg
          | some w0 => exact ⟨w0, rfl⟩
        obtain ⟨w0, rfl⟩ := hw0
        have hig' : mapOpt (instAdds whole l0 none none whole.qvar (some w0) (some w')) r'.branches = some gs := by
          simpa [instGroups, hwit] using hig
        obtain ⟨br2, hbr2, hia2⟩ := mapOpt_mem_bwd hig' g hgm
        rw [instAdds_eq] at hia2
        by_cases hmen : br2.any mentionsOther = true
        · refine ⟨w', ?_, hdone _ _ hig⟩
          obtain ⟨a, hab, ham⟩ := List.any_eq_true.1 hmen
          obtain ⟨x, hxg, hxa⟩ := mapOpt_mem_fwd hia2 a hab
          have hw' := instAdd1_mentions ham hxa
          simp only [Branch.worldList, dedupNat, List.mem_eraseDups, Branch.worlds, List.mem_flatMap]
          exact ⟨x, List.mem_append_right _ hxg, hw'⟩
        · -- this group does not depend on the witness world: the node's own world serves
          have hnomen : ∀ a ∈ br2, mentionsOther a = false := by
            intro a ha
            rcases Bool.eq_false_or_eq_true (mentionsOther a) with h1 | h1
            · exact absurd (List.any_eq_true.2 ⟨a, ha, h1⟩) hmen
            · exact h1
          have hsome : (mapOpt (instAdds whole l0 none none whole.qvar (some w0) (some w0)) r'.branches).isSome = true := by
            rw [← mapOpt_isSome_congr (f := instAdds whole l0 none none whole.qvar (some w0) (some w'))]
            · simp [hig']
            · intro br' _
              rw [instAdds_eq, instAdds_eq]
              exact mapOpt_isSome_congr (fun a _ => (instAdd1_other_indep _ _ _ _ _ _ w' w0 a).1)
          obtain ⟨gs0, hgs0⟩ := Option.isSome_iff_exists.1 hsome
          have hbr0 : instAdds whole l0 none none whole.qvar (some w0) (some w0) br2 = some g := by
            rw [instAdds_eq, ← hia2]
            exact mapOpt_congr' (fun a ha => ((instAdd1_other_indep _ _ _ _ _ _ w' w0 a).2 (hnomen a ha)).symm)
          obtain ⟨g1, hg1m, hg1⟩ := mapOpt_mem_fwd hgs0 br2 hbr2
          rw [hbr0] at hg1
          simp only [Option.some.injEq] at hg1
          subst hg1
          refine ⟨w0, ?_, ?_⟩
          · simp only [Branch.worldList, dedupNat, List.mem_eraseDups, Branch.worlds, List.mem_flatMap]
            exact ⟨_, List.mem_append_left _ hnm, by simp [Node.worldsSem]⟩
          · have : instGroups whole l0 (some w0) none (some w0) r' = some gs0 := by
              simp only [instGroups, hwit]; exact hgs0
            rw [this]
            exact groupsDone_of_mem hg1m (hasAll_append_self b g)
    | newConst => trivial
    | eachConst => trivial
    | eachWorld => trivial
  · intro w' he
    subst he
    have hc := (hwo w' rfl).2
    subst hc
    exact hdone _ _ hig

theorem lsOf_rule (r : RuleId) (bi n : Nat) (c : Option (Nat × Nat)) (wo : Option Nat) : lsOf r (.rule bi n c wo) = none := by
  cases r with
  | frame fr => cases fr <;> rfl
  | _ => rfl

/-- (c)–(f) a table-rule step `Step.rule` of ANY kind: plain (tick + group), branching (new branches start from the parent's
    helper state before the extension), each-world (`NodesWorlds` update), new-world -/
theorem inv_apply_rule {L : LogicData} {s1 s' : SState} {r : RuleId} {bi n : Nat}
    {c : Option (Nat × Nat)} {wo : Option Nat}
    (hinv : Inv L s1) (hs' : applyTarget L s1 r (.rule bi n c wo) = some s') : Inv L s' := by
  obtain ⟨b, h, t', hb, hh, ht⟩ := applyTarget_some hs'
  obtain ⟨b', hb', ho, ha⟩ := applyStep_open ht
  rw [hb] at hb'; simp only [Option.some.injEq] at hb'; subst hb'
  have hls := lsOf_ok (r := r) hb ht
  have H0 := (branchInv_iff hh).1 (hinv.branch _ b h hb hh ho)
  simp only [applyAt] at ha
  split at ha
  rotate_left
  · cases ha
  next sn d w hn =>
  split at ha
  rotate_left
  · cases ha
  next r' g0 rest hrg =>
  have hnm : Node.sent sn d w ∈ b.nodes := List.mem_of_getElem? hn
  obtain ⟨whole, l0, hrf, hfacts⟩ := rule_group_facts hnm (fun hm => H0.worlded hm sn d w hnm) hrg
  have ht' : t' = s1.tab.set (Step.rule bi n c wo).branch (b.extend g0 (if r'.ticks then some n else none)) ++
      rest.map (fun g => { b.extend g (if r'.ticks then some n else none) with parent := some bi }) := by
    simpa [Tableau.fork, Step.branch] using ha.symm
  rw [ht'] at ht
  have htick : ∀ g ∈ g0 :: rest, ∀ m, (if r'.ticks then some n else none) = some m → m ∉ b.ticked →
      ∃ sn' d' w', b.nodes[m]? = some (.sent sn' d' w') ∧ tickDone L { b with nodes := b.nodes ++ g } sn' d' w' := by
    intro g hg m hm _
    by_cases htk : r'.ticks = true
    · simp only [htk, ↓reduceIte, Option.some.injEq] at hm
      subst hm
      exact ⟨sn, d, w, hn, (hfacts g hg).2.1 htk⟩
    · simp [htk] at hm
  refine inv_applyTarget_of hinv hb hh ht hs' (by simp [Branch.extend]) ?_ ?_
  · intro _
    have H1 := H0.setLS (lsOf r (.rule bi n c wo)) hls
    have H2 := H1.extend g0 (if r'.ticks then some n else none) b.parent (hfacts g0 (by simp)).1
      (own_dead_bound hinv hb) (fun w2 hl => by rw [lsOf_rule] at hl; cases hl) (htick g0 (by simp))
    rw [extend_parent] at H2
    refine H2.afterApply r _ ?_
    intro bb n' c' w' he
    simp only [Step.rule.injEq] at he
    obtain ⟨_, rfl, _, rfl⟩ := he
    refine ⟨sn, d, w, r', whole, l0, ?_, hrf, ?_⟩
    · have hlt : n < b.nodes.length := by
        rcases Nat.lt_or_ge n b.nodes.length with h1 | h1
        · exact h1
        · rw [List.getElem?_eq_none h1] at hn; cases hn
      simp [Branch.extend, List.getElem?_append_left hlt, hn]
    · have := (hfacts g0 (by simp)).2.2 w' rfl
      refine groupsDone_mono (b := { b with nodes := b.nodes ++ g0 }) ?_ this
      intro x hx; simpa [Branch.extend] using hx
  · intro bn hbn _
    obtain ⟨g, hg, rfl⟩ := List.mem_map.1 hbn
    have H1 := (H0.setLS none (fun w2 hl => by cases hl)).deadImp (dead' := fun _ _ => False) (fun _ _ hf => hf.elim)
    exact H1.extend g (if r'.ticks then some n else none) (some bi) (hfacts g (List.mem_cons_of_mem _ hg)).1
      (fun _ _ _ hf => hf) (fun w2 hl => by cases hl) (htick g (List.mem_cons_of_mem _ hg))


theorem lsOf_quit (r : RuleId) (bi : Nat) (name : String) (tick : Option Nat) : lsOf r (.quit bi name tick) = none := by
  cases r with
  | frame fr => cases fr <;> rfl
  | _ => rfl

/-- (f, limit path) a quit-flag step: the flag node is appended; a ticking rule ticks the node it was released for -/
theorem inv_apply_quit {L : LogicData} {s1 s' : SState} {r : RuleId} {bi : Nat} {name : String} {tick : Option Nat}
    (hinv : Inv L s1)
    (htk : ∀ b, s1.tab[bi]? = some b → ∀ n, tick = some n → ∃ sn d w r' whole l0, b.nodes[n]? = some (.sent sn d w) ∧
      L.ruleFor sn d = some (r', whole, l0) ∧ r'.ticks = true)
    (hs' : applyTarget L s1 r (.quit bi name tick) = some s') : Inv L s' := by
  obtain ⟨b, h, t', hb, hh, ht⟩ := applyTarget_some hs'
  obtain ⟨b', hb', ho, ha⟩ := applyStep_open ht
  rw [hb] at hb'; simp only [Option.some.injEq] at hb'; subst hb'
  have hls := lsOf_ok (r := r) hb ht
  have H0 := (branchInv_iff hh).1 (hinv.branch _ b h hb hh ho)
  simp only [applyAt] at ha
  split at ha
  · cases ha
  next hname =>
  have ht' : t' = s1.tab.set (Step.quit bi name tick).branch (b.extend [.flag name] tick) ++ [] := by
    simpa using ha.symm
  rw [ht'] at ht
  refine inv_applyTarget_of hinv hb hh ht hs' (by simp [Branch.extend]) ?_ ?_
  · intro _
    have H1 := H0.setLS (lsOf r (.quit bi name tick)) hls
    have H2 := H1.extend [.flag name] tick b.parent (fun _ sn d w hm => by simp at hm)
      (own_dead_bound hinv hb) (fun w2 _ sn d hm => by simp at hm) ?_
    · rw [extend_parent] at H2
      exact H2.afterApply r _ (fun bb n c w' he => by cases he)
    · intro n hn _
      obtain ⟨sn, d, w, r', whole, l0, hnode, hrf, hticks⟩ := htk b hb n hn
      refine ⟨sn, d, w, hnode, r', whole, l0, hrf, hticks, Or.inl ?_⟩
      simp only [Branch.hasQuit, List.any_append, List.any_cons, List.any_nil, Bool.or_false, Bool.or_eq_true]
      right
      simpa using hname
  · intro bn hbn; cases hbn


/-! ### all `Ev.apply` events -/

theorem mem_targets {L : LogicData} {s : SState} {r : RuleId} {bi : Nat} {st : Step} (h : st ∈ targets L s r bi) :
    ∃ b hh, s.tab[bi]? = some b ∧ s.hs[bi]? = some hh ∧ b.closed = false ∧
      st ∈ (match r with
        | .closure => (hh.closeT.map (closeStep bi)).toList
        | .table k => tableTargets L s.maxWorlds s.maxConsts bi b hh (s.live r bi) k
        | .frame fr => frameTargets L s bi b hh (s.live r bi) fr
        | .ident => identTargets L bi b (s.live r bi)) := by
  unfold targets at h
  split at h
  · next b hh hb hhs =>
    split at h
    · cases h
    · next ho => exact ⟨b, hh, hb, hhs, by simpa using ho, h⟩
  · cases h

theorem search_tab (L : LogicData) (s : SState) (r : RuleId) (bi : Nat) : (s.search L r bi).tab = s.tab := by
  unfold SState.search
  simp only
  split
  · split
    · rfl
    · split <;> rfl
  · rfl

theorem ruleFor_of_key {L : LogicData} {sn : Sent} {d : Option Bool} {w : Option Nat} {k : RuleKey} {rl : Rule}
    (hk : nodeKey (.sent sn d w) = some k) (hr : L.rule? k = some rl) :
    ∃ whole l0, L.ruleFor sn d = some (rl, whole, l0) := by
  simp only [nodeKey] at hk
  split at hk
  · next sh ng whole hdec =>
    simp only [Option.some.injEq] at hk
    subst hk
    have hl : ∃ l0, whole.lhs? = some l0 := by
      cases sn with
      | op1 o a =>
        cases o with
        | neg =>
          cases a <;> simp only [Sent.decomp, Option.some.injEq, Prod.mk.injEq, reduceCtorEq] at hdec
          all_goals (obtain ⟨_, _, rfl⟩ := hdec; exact ⟨_, rfl⟩)
        | _ => simp only [Sent.decomp, Option.some.injEq, Prod.mk.injEq] at hdec; obtain ⟨_, _, rfl⟩ := hdec; exact ⟨_, rfl⟩
      | op2 o a c => simp only [Sent.decomp, Option.some.injEq, Prod.mk.injEq] at hdec; obtain ⟨_, _, rfl⟩ := hdec; exact ⟨_, rfl⟩
      | quant q vi vs body => simp only [Sent.decomp, Option.some.injEq, Prod.mk.injEq] at hdec; obtain ⟨_, _, rfl⟩ := hdec; exact ⟨_, rfl⟩
      | atom _ _ => simp [Sent.decomp] at hdec
      | pred _ _ => simp [Sent.decomp] at hdec
    obtain ⟨l0, hl0⟩ := hl
    exact ⟨whole, l0, by simp [LogicData.ruleFor, hdec, hr, hl0]⟩
  · cases hk

/-- what a target of the identity rule is -/
theorem ident_targets_shape {L : LogicData} {bi : Nat} {b : Branch} {live : List Nat} {st : Step}
    (h : st ∈ identTargets L bi b live) :
    L.closesSelfIdNeg = true ∧ ∃ i j ni np nd, st = .ident bi i j ∧ i ∈ live ∧ j ≠ i ∧ b.nodes[i]? = some ni ∧
      b.nodes[j]? = some np ∧ identAdd ni np = some nd ∧ LogicData.isSelfIdentity nd = false ∧ b.hasNode nd = false := by
  unfold identTargets at h
  split at h
  · cases h
  next hc =>
  refine ⟨by simpa using hc, ?_⟩
  obtain ⟨i, hi, h1⟩ := List.mem_flatMap.1 h
  obtain ⟨j, _, h2⟩ := List.mem_flatMap.1 h1
  split at h2
  · cases h2
  next hji =>
  split at h2
  · next ni np hni hnp =>
    split at h2
    · next nd hnd =>
      split at h2
      · cases h2
      · next hcond =>
        simp only [List.mem_singleton] at h2
        simp only [Bool.or_eq_true, not_or, Bool.not_eq_true] at hcond
        exact ⟨i, j, ni, np, nd, h2, hi, by simpa using hji, hni, hnp, hnd, hcond.1, hcond.2⟩
    · cases h2
  · cases h2

/-- what a quit-flag target of the model ticks: a node of a ticking rule -/
theorem quit_target_tick {L : LogicData} {s : SState} (hinv : Inv L s) {r : RuleId} {bi bi' : Nat} {name : String}
    {tick : Option Nat} (hm : Step.quit bi' name tick ∈ targets L s r bi) :
    ∀ b, s.tab[bi]? = some b → ∀ n, tick = some n → ∃ sn d w r' whole l0, b.nodes[n]? = some (.sent sn d w) ∧
      L.ruleFor sn d = some (r', whole, l0) ∧ r'.ticks = true := by
  obtain ⟨b, hh, hb, hhs, ho, hmem⟩ := mem_targets hm
  intro b' hb' n hn
  rw [hb] at hb'; simp only [Option.some.injEq] at hb'; subst hb'
  have I := hinv.branch bi b hh hb hhs ho
  cases r with
  | ident =>
    obtain ⟨_, i0, j0, _, _, _, he, _⟩ := ident_targets_shape hmem
    cases he
  | closure =>
    simp only at hmem
    cases hc : hh.closeT with
    | none => simp [hc] at hmem
    | some t => cases t <;> simp [hc, closeStep] at hmem
  | frame fr =>
    simp only [frameTargets] at hmem
    split at hmem
    · cases hmem
    · cases fr <;> simp only [List.mem_flatMap, List.mem_map] at hmem
      · obtain ⟨i, _, hx⟩ := hmem
        split at hx
        · obtain ⟨_, _, he⟩ := List.mem_map.1 hx; cases he
        · cases hx
      · obtain ⟨i, _, hx⟩ := hmem
        split at hx
        · obtain ⟨_, _, he⟩ := List.mem_map.1 hx; cases he
        · cases hx
      · obtain ⟨i, _, hx⟩ := hmem
        split at hx
        · split at hx
          · cases hx
          · simp at hx
        · cases hx
      · obtain ⟨_, _, he⟩ := hmem; cases he
  | table k =>
    simp only [tableTargets] at hmem
    split at hmem
    · cases hmem
    · next rl hrl =>
      have key : ∀ l : List Nat, (∀ i ∈ l, i ∈ s.live (.table k) bi) →
          Step.quit bi' name tick ∈ flagTargets bi rl (hh.quit k) l →
          ∃ sn d w r' whole l0, b.nodes[n]? = some (.sent sn d w) ∧
            L.ruleFor sn d = some (r', whole, l0) ∧ r'.ticks = true := by
        intro l hl hf
        unfold flagTargets at hf
        split at hf
        · cases hf
        · obtain ⟨i, hi0, he⟩ := List.mem_map.1 hf
          have hi := hl i hi0
          simp only [Step.quit.injEq] at he
          obtain ⟨_, _, he3⟩ := he
          rw [hn] at he3
          by_cases htk : rl.ticks = true
          · simp only [htk, ↓reduceIte, Option.some.injEq] at he3
            subst he3
            have hc : i ∈ hh.cache (.table k) := ((mem_live hhs).1 hi).1
            obtain ⟨nd, hnd, hmatch, _⟩ := I.cacheSound (.table k) i hc
            have hkk : nodeKey nd = some k := by simpa [matchesRule] using hmatch
            cases nd with
            | sent sn d w =>
              obtain ⟨whole, l0, hrf⟩ := ruleFor_of_key hkk hrl
              exact ⟨sn, d, w, rl, whole, l0, hnd, hrf, htk⟩
            | access _ _ => simp [nodeKey] at hkk
            | flag _ => simp [nodeKey] at hkk
            | ellipsis => simp [nodeKey] at hkk
          · simp [htk] at he3
      split at hmem
      · obtain ⟨_, _, he⟩ := List.mem_map.1 hmem; cases he
      · split at hmem
        · exact key _ (fun _ h => h) hmem
        · obtain ⟨_, _, he⟩ := List.mem_map.1 hmem; cases he
      · split at hmem
        · exact key _ (fun _ h => h) hmem
        · obtain ⟨i, _, hx⟩ := List.mem_flatMap.1 hmem
          split at hx
          · split at hx
            · obtain ⟨_, _, he⟩ := List.mem_map.1 hx; cases he
            · cases hx
          · cases hx
      · obtain ⟨i, hi, hx⟩ := List.mem_flatMap.1 hmem
        split at hx
        · split at hx
          · exact key [i] (fun j hj => by simp at hj; exact hj ▸ hi) hx
          · simp at hx
        · cases hx
      · obtain ⟨i, hi, hx⟩ := List.mem_flatMap.1 hmem
        split at hx
        · split at hx
          · exact key [i] (fun j hj => by simp at hj; exact hj ▸ hi) hx
          · split at hx
            · cases hx
            · split at hx
              · obtain ⟨_, _, he⟩ := List.mem_map.1 hx; cases he
              · split at hx
                · split at hx
                  · cases hx
                  · simp at hx
                · cases hx
        · cases hx

theorem targets_not_ident {L : LogicData} {s : SState} {r : RuleId} {bi b' i p : Nat} (hr : r ≠ .ident) :
    Step.ident b' i p ∉ targets L s r bi := by
  intro hm
  obtain ⟨b, hh, hb, hhs, ho, hmem⟩ := mem_targets hm
  cases r with
  | ident => exact hr rfl
  | closure =>
    simp only at hmem
    cases hc : hh.closeT with
    | none => simp [hc] at hmem
    | some t => cases t <;> simp [hc, closeStep] at hmem
  | frame fr =>
    simp only [frameTargets] at hmem
    split at hmem
    · cases hmem
    · cases fr <;> simp only [List.mem_flatMap, List.mem_map] at hmem
      · obtain ⟨i, _, hx⟩ := hmem
        split at hx
        · obtain ⟨_, _, he⟩ := List.mem_map.1 hx; cases he
        · cases hx
      · obtain ⟨i, _, hx⟩ := hmem
        split at hx
        · obtain ⟨_, _, he⟩ := List.mem_map.1 hx; cases he
        · cases hx
      · obtain ⟨i, _, hx⟩ := hmem
        split at hx
        · split at hx
          · cases hx
          · simp at hx
        · cases hx
      · obtain ⟨_, _, he⟩ := hmem; cases he
  | table k =>
    simp only [tableTargets] at hmem
    split at hmem
    · cases hmem
    · have key : ∀ rl q l, Step.ident b' i p ∉ flagTargets bi rl q l := by
        intro rl q l hf
        unfold flagTargets at hf
        split at hf
        · cases hf
        · obtain ⟨_, _, he⟩ := List.mem_map.1 hf; cases he
      split at hmem
      · obtain ⟨_, _, he⟩ := List.mem_map.1 hmem; cases he
      · split at hmem
        · exact key _ _ _ hmem
        · obtain ⟨_, _, he⟩ := List.mem_map.1 hmem; cases he
      · split at hmem
        · exact key _ _ _ hmem
        · obtain ⟨i, _, hx⟩ := List.mem_flatMap.1 hmem
          split at hx
          · split at hx
            · obtain ⟨_, _, he⟩ := List.mem_map.1 hx; cases he
            · cases hx
          · cases hx
      · obtain ⟨i, _, hx⟩ := List.mem_flatMap.1 hmem
        split at hx
        · split at hx
          · exact key _ _ _ hx
          · simp at hx
        · cases hx
      · obtain ⟨i, _, hx⟩ := List.mem_flatMap.1 hmem
        split at hx
        · split at hx
          · exact key _ _ _ hx
          · split at hx
            · cases hx
            · split at hx
              · obtain ⟨_, _, he⟩ := List.mem_map.1 hx; cases he
              · split at hx
                · split at hx
                  · cases hx
                  · simp at hx
                · cases hx
        · cases hx

theorem mem_enabled {L : LogicData} {s : SState} {r : RuleId} {bi : Nat} {st : Step} (h : st ∈ enabled L s r bi) :
    st ∈ targets L s r bi := by
  unfold enabled at h
  cases r with
  | closure => exact h
  | table k => simp only at h; split at h; exact h; cases h
  | frame fr => simp only at h; split at h; exact h; cases h
  | ident => simp only at h; split at h; exact h; cases h

theorem lsOf_ident (r : RuleId) (bi i p : Nat) : lsOf r (.ident bi i p) = none := by
  cases r with
  | frame fr => cases fr <;> rfl
  | _ => rfl

/-- an identity-substitution step (`cpl.IdentityIndiscernability`): one predication node at the identity's world is appended -/
theorem inv_apply_ident {L : LogicData} {s1 s' : SState} {r : RuleId} {bi i p : Nat}
    (hinv : Inv L s1) (hs' : applyTarget L s1 r (.ident bi i p) = some s') : Inv L s' := by
  obtain ⟨b, h, t', hb, hh, ht⟩ := applyTarget_some hs'
  obtain ⟨b', hb', ho, ha⟩ := applyStep_open ht
  rw [hb] at hb'; simp only [Option.some.injEq] at hb'; subst hb'
  have hls := lsOf_ok (r := r) hb ht
  have H0 := (branchInv_iff hh).1 (hinv.branch _ b h hb hh ho)
  simp only [applyAt] at ha
  split at ha
  · cases ha
  split at ha
  rotate_left
  · cases ha
  next ni np hni hnp =>
  split at ha
  rotate_left
  · cases ha
  next nd hnd =>
  have ht' : t' = s1.tab.set (Step.ident bi i p).branch (b.extend [nd] none) ++ [] := by simpa using ha.symm
  rw [ht'] at ht
  -- the new node sits at the identity node's world
  have hw : L.modal = true → ∀ sn d w, Node.sent sn d w ∈ [nd] → w.isSome = true := by
    intro hm sn d w hx
    simp only [List.mem_singleton] at hx
    subst hx
    unfold identAdd at hnd
    split at hnd
    · next q pa pb w0 pr ps w1 =>
      have hwi := H0.worlded hm _ _ _ (List.mem_of_getElem? hni)
      split at hnd
      · cases hnd
      · split at hnd
        · simp only [Option.some.injEq, Node.sent.injEq] at hnd; rw [← hnd.2.2]; exact hwi
        · split at hnd
          · simp only [Option.some.injEq, Node.sent.injEq] at hnd; rw [← hnd.2.2]; exact hwi
          · cases hnd
    · cases hnd
  refine inv_applyTarget_of hinv hb hh ht hs' (by simp [Branch.extend]) ?_ ?_
  · intro _
    have H1 := H0.setLS (lsOf r (.ident bi i p)) hls
    have H2 := H1.extend [nd] none b.parent hw (own_dead_bound hinv hb)
      (fun w2 hl => by rw [lsOf_ident] at hl; cases hl) (fun n hn => by cases hn)
    rw [extend_parent] at H2
    exact H2.afterApply r _ (fun bb n c w' he => by cases he)
  · intro bn hbn; cases hbn

/-- (1b) every legal `Ev.apply` keeps the invariant -/
theorem inv_apply {L : LogicData} {s s' : SState} (hinv : Inv L s) {r : RuleId} {st : Step}
    (hleg : st ∈ enabled L s r st.branch) (hs' : stepEv L s (.apply r st) = some s') : Inv L s' := by
  simp only [stepEv] at hs'
  have h1 := inv_search hinv r st.branch
  have hm := mem_enabled hleg
  cases st with
  | rule bi n c wo => exact inv_apply_rule h1 hs'
  | close bi sn w => exact inv_apply_close h1 (Or.inl ⟨_, _, _, rfl⟩) hs'
  | closeIdent bi n => exact inv_apply_close h1 (Or.inr ⟨_, _, rfl⟩) hs'
  | frame bi fr w1 w2 w3 => exact inv_apply_frame h1 hs'
  | ident bi i p => exact inv_apply_ident h1 hs'
  | quit bi name tick =>
    refine inv_apply_quit h1 ?_ hs'
    intro b hb
    rw [search_tab] at hb
    exact quit_target_tick hinv hm b hb


/-- (1b) every legal event keeps the invariant -/
theorem inv_stepEv {L : LogicData} {s s' : SState} (hinv : Inv L s) (e : Ev) (hleg : e.legal L s)
    (hs' : stepEv L s e = some s') : Inv L s' := by
  cases e with
  | search r bi =>
    simp only [stepEv, Option.some.injEq] at hs'
    subst hs'
    exact inv_search hinv r bi
  | apply r st => exact inv_apply hinv hleg.2 hs'

/-- the states of the search model for an argument: from the state after `build_trunk`, by legal events (any search, the
    application of any enabled target of any rule — every option combination, score and tie-break) -/
inductive Reach (L : LogicData) (arg : Argument) : SState → Prop
  | init (b : Branch) (hb : b ∈ trunk L arg) : Reach L arg (SState.init L b.nodes)
  | step {s s' : SState} (e : Ev) : Reach L arg s → e.legal L s → stepEv L s e = some s' → Reach L arg s'


/-! ### every run of the search model is a derivation of the calculus -/

theorem deriv_snoc {L : LogicData} {t t' t'' : Tableau} (h : Deriv L t t') (st : Step) (hs : applyStep L t' st = some t'') :
    Deriv L t t'' := by
  induction h with
  | refl t => exact .step st hs (.refl _)
  | step s0 h0 _ ih => exact .step s0 h0 (ih hs)

theorem applyTarget_tab {L : LogicData} {s1 s' : SState} {r : RuleId} {st : Step} (h : applyTarget L s1 r st = some s') :
    applyStep L s1.tab st = some s'.tab := by
  unfold applyTarget at h
  cases hb : s1.tab[st.branch]? with
  | none => simp [hb] at h
  | some b =>
    cases hhs : s1.hs[st.branch]? with
    | none => simp [hb, hhs] at h
    | some hh =>
      cases ht : applyStep L s1.tab st with
      | none => simp [hb, hhs, ht] at h
      | some t' =>
        simp only [hb, hhs, ht, Option.some.injEq] at h
        subst h
        rfl

/-- one event of the search model is zero or one legal step of the calculus (`applyTarget` goes through `applyStep`) -/
theorem stepEv_deriv {L : LogicData} {s s' : SState} {e : Ev} (h : stepEv L s e = some s') : Deriv L s.tab s'.tab := by
  cases e with
  | search r bi =>
    simp only [stepEv, Option.some.injEq] at h
    subst h
    rw [search_tab]
    exact .refl _
  | apply r st =>
    simp only [stepEv] at h
    have := applyTarget_tab h
    rw [search_tab] at this
    exact .step st this (.refl _)

theorem deriv_trans {L : LogicData} {t t' t'' : Tableau} (h1 : Deriv L t t') (h2 : Deriv L t' t'') : Deriv L t t'' := by
  induction h1 with
  | refl t => exact h2
  | step s0 h0 _ ih => exact .step s0 h0 (ih h2)

theorem reach_deriv {L : LogicData} {arg : Argument} {s : SState} (h : Reach L arg s) : Deriv L (trunk L arg) s.tab := by
  induction h with
  | init b hb =>
    simp only [trunk, List.mem_singleton] at hb
    subst hb
    exact .refl _
  | step e _ _ hs ih => exact deriv_trans ih (stepEv_deriv hs)

end Ptx.Search
