/-
  Ptx.Proofs.LibModelOrderAll — order independence of `finish()` for EVERY logic and EVERY public setter:
    * every Access class (the serial one included: `Acc.enforce_set_congr_all`),
    * the classical family when no Identity tuple is set to T (`cplFrames_spec`),
    * programs of `set_literal_value` / `set_value` calls too (through `run_reduce`).
-/
import Ptx.Proofs.LibModelCpl
namespace Ptx.LibModel
open Ptx

theorem completeFrames_pred {L : LogicData} {m m' : Model} (hFK : m.FK) (h : completeFrames L m = .ok m')
    (w : Nat) (p : Pred) (t : Tup) (v : V) :
    m'.has (.at w (.pred p t v)) ↔ m.has (.at w (.pred p t v)) := by
  cases hfc : m.frameComplete with
  | true =>
    unfold completeFrames at h
    simp only [hfc, ↓reduceIte, Except.ok.injEq] at h
    subst h; exact Iff.rfl
  | false =>
    rw [(completeFrames_has hfc hFK h).1]
    simp only [cfHas]

theorem finishBase_eqv (L : LogicData) {a b : Model} (heq : a.Eqv b) (wa : a.R.WF) (wb : b.R.WF) :
    (finishBase L a).1.Eqv (finishBase L b).1 := by
  obtain ⟨ek, ep⟩ := Acc.enforce_set_congr_all L.frame wa wb (fun w => heq.has (.key w)) (fun p => heq.has (.pair p))
  refine ⟨rfl, heq.frameComplete, ?_⟩
  intro φ
  cases φ with
  | key w => exact ek w
  | pair p => exact ep p
  | frame w => exact heq.has (.frame w)
  | «at» w ψ => exact heq.has (.at w ψ)
  | const c => exact heq.has (.const c)
  | sAtom a => exact heq.has (.sAtom a)
  | sPred p => exact heq.has (.sPred p)

/-- `finish()` of ANY logic: models with the same content (in the classical family: without a true Identity
    tuple) either both raise the same exception or finish to models with the same content -/
theorem finish_eqv_gen {L : LogicData} (h₁ h₂ : Hints) {m₁ m₂ : Model} (heq : m₁.Eqv m₂) (hFK₁ : m₁.FK) (hFK₂ : m₂.FK)
    (hwf₁ : m₁.R.WF) (hwf₂ : m₂.R.WF)
    (hno : isClassical L = true → ∀ w t, ¬ m₁.has (.at w (.pred Pred.identity t .T))) :
    (finish L h₁ m₁).2 = (finish L h₂ m₂).2 ∧
    ((finish L h₁ m₁).2 = none → (finish L h₁ m₁).1.Eqv (finish L h₂ m₂).1) := by
  unfold finish finishX
  have hf := heq.finished
  cases hfin : m₁.finished with
  | true =>
    have hfin₂ : m₂.finished = true := hf ▸ hfin
    simp [hfin₂]
  | false =>
    have hfin₂ : m₂.finished = false := hf ▸ hfin
    simp only [hfin₂, Bool.false_eq_true, ↓reduceIte]
    cases hc₁ : completeFrames L m₁ with
    | error e =>
      cases hc₂ : completeFrames L m₂ with
      | error e' =>
        simp only [completeFrames_error hc₁, completeFrames_error hc₂, reduceCtorEq, false_implies, and_self]
      | ok m₂' =>
        obtain ⟨m₁', h', _⟩ := completeFrames_eqv heq.symm hFK₂ hFK₁ hc₂
        rw [hc₁] at h'; cases h'
    | ok m₁' =>
      obtain ⟨m₂', hc₂, heq'⟩ := completeFrames_eqv heq hFK₁ hFK₂ hc₁
      simp only [hc₂]
      have w₁ := completeFrames_WF hwf₁ hc₁
      have w₂ := completeFrames_WF hwf₂ hc₂
      by_cases hcl : isClassical L = true
      · simp only [hcl, ↓reduceIte]
        have hno₁ : ∀ w t, ¬ m₁'.has (.at w (.pred Pred.identity t .T)) := fun w t hh =>
          hno hcl w t ((completeFrames_pred hFK₁ hc₁ w _ t _).1 hh)
        have hno₂ : ∀ w t, ¬ m₂'.has (.at w (.pred Pred.identity t .T)) := fun w t hh =>
          hno₁ w t ((heq'.has _).2 hh)
        obtain ⟨a1, a2⟩ := cplFrames_spec h₁ (completeFrames_FK hFK₁ hc₁) hno₁
        obtain ⟨b1, b2⟩ := cplFrames_spec h₂ (completeFrames_FK hFK₂ hc₂) hno₂
        by_cases hok : cplMOK m₁'
        · obtain ⟨n₁, e₁, c₁, f₁, fc₁, r₁⟩ := a1 hok
          obtain ⟨n₂, e₂, c₂, f₂, fc₂, r₂⟩ := b1 ((cplMOK_congr heq'.has).1 hok)
          simp only [e₁, e₂, true_and, forall_const]
          apply finishBase_eqv L _ (r₁ ▸ w₁) (r₂ ▸ w₂)
          refine ⟨by rw [f₁, f₂]; exact heq'.finished, by rw [fc₁, fc₂]; exact heq'.frameComplete, ?_⟩
          intro φ
          rw [c₁, c₂]
          exact cplMHas_congr heq'.has φ
        · have e₁ := a2 hok
          have e₂ := b2 (fun hh => hok ((cplMOK_congr heq'.has).2 hh))
          simp only [e₁, e₂, reduceCtorEq, false_implies, and_self]
      · have hcl' : isClassical L = false := by simpa using hcl
        simp only [hcl', Bool.false_eq_true, ↓reduceIte, true_and, forall_const]
        exact finishBase_eqv L heq' w₁ w₂

/-! ### programs of public setter calls -/

/-- the call comes down to `set_predicated_value(Identity(…), 'T')` -/
def MOp.setsIdT (L : LogicData) (op : MOp) : Bool :=
  match op.toPrim L with
  | some (.setPred p _ v _) => p == Pred.identity && v == .T
  | _ => false

theorem MOp.setsIdT_of_reduce {L : LogicData} {op : MOp} {ps : Tup} {w : Nat}
    (h : op.reduce L = .setPred Pred.identity ps .T w) : op.setsIdT L = true := by
  unfold MOp.reduce at h
  unfold MOp.setsIdT
  cases ht : op.toPrim L with
  | none =>
    rw [ht] at h
    simp only [Option.getD_none] at h
    subst h
    simp [MOp.toPrim] at ht
  | some op' =>
    rw [ht] at h
    simp only [Option.getD_some] at h
    subst h
    simp

theorem init_no_at (w : Nat) (ψ : FFact) : ¬ Model.init.has (.at w ψ) := by
  have : frameD Model.init w = {} := by
    unfold frameD Model.init
    by_cases hw : w = 0
    · subst hw; simp [List.lookup]
    · have : (w == 0) = false := by simpa using hw
      simp [List.lookup, this]
  rw [has_at, this]
  exact empty_has ψ

/-- a program of successful primitive calls sets an Identity tuple to T only by such a call -/
theorem run_no_idT {L : LogicData} {hints : Hints} {ops : List MOp} (hprim : ∀ op ∈ ops, op.prim = true)
    (hok : ∀ e ∈ (run L hints Model.init ops).2, e = none)
    (hno : ∀ ps w, MOp.setPred Pred.identity ps .T w ∉ ops) :
    ∀ w t, ¬ (run L hints Model.init ops).1.has (.at w (.pred Pred.identity t .T)) := by
  intro w t hh
  rcases ((run_has ops Model.init hprim hok).1 _).1 hh with h | ⟨op, ho, h⟩
  · exact init_no_at _ _ h
  · cases op with
    | setPred p ps v w' =>
      simp only [MOp.gives, Contrib.gives, contribPred, reduceCtorEq, Fact.at.injEq, false_or, and_false, exists_false,
        or_false] at h
      obtain ⟨ψ, hψ, _, rfl⟩ := h
      rcases hψ with h1 | h1
      · cases h1
      · simp only [FFact.pred.injEq] at h1
        obtain ⟨rfl, rfl, rfl⟩ := h1
        exact hno _ _ ho
    | setAtomic i j v w' =>
      simp only [MOp.gives, Contrib.gives, contribAtomic, reduceCtorEq, Fact.at.injEq, false_or, and_false, exists_false,
        or_false, List.not_mem_nil, false_and] at h
      obtain ⟨ψ, hψ, _, rfl⟩ := h
      cases hψ
    | setOpaque s v w' =>
      simp only [MOp.gives, Contrib.gives, contribOpaque, reduceCtorEq, Fact.at.injEq, false_or, and_false, exists_false,
        or_false] at h
      obtain ⟨ψ, hψ, _, rfl⟩ := h
      rcases hψ with h1 | ⟨_, _, h1⟩ <;> cases h1
    | rAdd a b => simp [MOp.gives] at h
    | setLiteral _ _ _ => simp [MOp.gives] at h
    | setValue _ _ _ => simp [MOp.gives] at h
    | finish => simp [MOp.gives] at h

/-- the pieces the order theorems need about two permuted programs of public setter calls, none raising:
    their primitive reductions run the same, are permutations of one another and consist of primitive calls -/
theorem reduce_setup {L : LogicData} (h₁ h₂ : Hints) {ops₁ ops₂ : List MOp} (hperm : ops₁.Perm ops₂)
    (hset : ∀ op ∈ ops₁, op.setter = true)
    (hok₁ : ∀ e ∈ (run L h₁ Model.init ops₁).2, e = none) (hok₂ : ∀ e ∈ (run L h₂ Model.init ops₂).2, e = none) :
    run L h₁ Model.init (ops₁.map (MOp.reduce L)) = run L h₁ Model.init ops₁ ∧
    run L h₂ Model.init (ops₂.map (MOp.reduce L)) = run L h₂ Model.init ops₂ ∧
    (ops₁.map (MOp.reduce L)).Perm (ops₂.map (MOp.reduce L)) ∧
    (∀ op ∈ ops₁.map (MOp.reduce L), op.prim = true) ∧ (∀ op ∈ ops₂.map (MOp.reduce L), op.prim = true) :=
  ⟨run_reduce h₁ ops₁ _, run_reduce h₂ ops₂ _, hperm.map _, reduce_prim_of_ok ops₁ _ hset hok₁,
    reduce_prim_of_ok ops₂ _ (fun op ho => hset op (hperm.mem_iff.2 ho)) hok₂⟩

/-- permuted programs of public setter / `R.add` calls, none raising, assemble the same content -/
theorem run_perm_eqv_gen {L : LogicData} (h₁ h₂ : Hints) {ops₁ ops₂ : List MOp} (hperm : ops₁.Perm ops₂)
    (hset : ∀ op ∈ ops₁, op.setter = true)
    (hok₁ : ∀ e ∈ (run L h₁ Model.init ops₁).2, e = none) (hok₂ : ∀ e ∈ (run L h₂ Model.init ops₂).2, e = none) :
    (run L h₁ Model.init ops₁).1.Eqv (run L h₂ Model.init ops₂).1 := by
  obtain ⟨e₁, e₂, hp, p₁, p₂⟩ := reduce_setup h₁ h₂ hperm hset hok₁ hok₂
  have k₁ : ∀ e ∈ (run L h₁ Model.init (ops₁.map (MOp.reduce L))).2, e = none := by rw [e₁]; exact hok₁
  have k₂ : ∀ e ∈ (run L h₁ Model.init (ops₂.map (MOp.reduce L))).2, e = none := by
    rw [run_hints h₁ h₂ _ _ p₂, e₂]; exact hok₂
  have := run_perm_eqv (hints := h₁) Model.init hp p₁ k₁ k₂
  rw [run_hints h₁ h₂ _ _ p₂, e₁, e₂] at this
  exact this

/-- a successful program of public setter calls leaves the model unfinished, with the access relation relating keys -/
theorem run_setter_facts {L : LogicData} (hints : Hints) {ops : List MOp} (hset : ∀ op ∈ ops, op.setter = true)
    (hok : ∀ e ∈ (run L hints Model.init ops).2, e = none) :
    (run L hints Model.init ops).1.finished = false ∧ (run L hints Model.init ops).1.frameComplete = false ∧
    (run L hints Model.init ops).1.R.WF := by
  have e := run_reduce (L := L) hints ops Model.init
  have p := reduce_prim_of_ok ops Model.init hset hok
  have k : ∀ e ∈ (run L hints Model.init (ops.map (MOp.reduce L))).2, e = none := by rw [e]; exact hok
  have h1 := run_has _ Model.init p k
  have h2 := run_prim_WF p k
  rw [e] at h1 h2
  exact ⟨h1.2.1.trans rfl, h1.2.2.trans rfl, h2⟩

/-- ORDER INDEPENDENCE of `finish()`, every logic, every public setter: two programs of value-setting /
    `R.add` calls that are permutations of one another, none of whose calls raises (in the classical family:
    none of which sets an Identity tuple to T), followed by `finish()`: either both `finish()` calls raise the
    same exception, or the finished models have the same content -/
theorem order_independent_gen {L : LogicData} (h₁ h₂ : Hints) {ops₁ ops₂ : List MOp} (hperm : ops₁.Perm ops₂)
    (hset : ∀ op ∈ ops₁, op.setter = true)
    (hok₁ : ∀ e ∈ (run L h₁ Model.init ops₁).2, e = none) (hok₂ : ∀ e ∈ (run L h₂ Model.init ops₂).2, e = none)
    (hno : isClassical L = true → ∀ op ∈ ops₁, op.setsIdT L = false) :
    (finish L h₁ (run L h₁ Model.init ops₁).1).2 = (finish L h₂ (run L h₂ Model.init ops₂).1).2 ∧
    ((finish L h₁ (run L h₁ Model.init ops₁).1).2 = none →
      (finish L h₁ (run L h₁ Model.init ops₁).1).1.Eqv (finish L h₂ (run L h₂ Model.init ops₂).1).1) := by
  have heq := run_perm_eqv_gen h₁ h₂ hperm hset hok₁ hok₂
  have hset₂ : ∀ op ∈ ops₂, op.setter = true := fun op ho => hset op (hperm.mem_iff.2 ho)
  apply finish_eqv_gen h₁ h₂ heq (run_FK h₁ ops₁ _ init_FK) (run_FK h₂ ops₂ _ init_FK)
    (run_setter_facts h₁ hset hok₁).2.2 (run_setter_facts h₂ hset₂ hok₂).2.2
  intro hcl
  have e := run_reduce (L := L) h₁ ops₁ Model.init
  have p := reduce_prim_of_ok ops₁ Model.init hset hok₁
  have k : ∀ e ∈ (run L h₁ Model.init (ops₁.map (MOp.reduce L))).2, e = none := by rw [e]; exact hok₁
  have := run_no_idT p k (by
    intro ps w hm
    obtain ⟨op, ho, hr⟩ := List.mem_map.1 hm
    have := hno hcl op ho
    rw [MOp.setsIdT_of_reduce hr] at this
    cases this)
  rw [e] at this
  exact this

end Ptx.LibModel
