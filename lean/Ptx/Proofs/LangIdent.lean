/- helper lemmas for C14: every built item is `Valid` (core Lean only) -/
import Ptx.Proofs.LangCache
namespace Ptx

/-! ### call arguments all of whose embedded items are valid

  In Python an argument can only carry lexical items that were constructed before (or the enum
  members / system predicates): `Item.Valid` items.  The model's `Arg.item` can carry ANY value
  of type `Item` (e.g. `Atomic(100, 0)`, which no constructor returns), hence the predicate. -/

mutual
/-- every lexical item embedded in the argument is `Valid` -/
def Arg.VI : Arg → Bool
  | .int _ => true
  | .str _ => true
  | .tup xs => xs.VI
  | .item x => x.Valid
def Args.VI : Args → Bool
  | .nil => true
  | .cons a as => a.VI && as.VI
end

/-- the arguments of a call carry valid items only -/
def argsVI (l : List Arg) : Bool := l.all Arg.VI

theorem Args.VI_toList : ∀ (xs : Args), xs.VI = xs.toList.all Arg.VI
  | .nil => rfl
  | .cons a as => by simp [Args.VI, Args.toList, Args.VI_toList as]

theorem Args.VI_ofList (l : List Arg) : (Args.ofList l).VI = l.all Arg.VI := by
  rw [Args.VI_toList, Args.toList_ofList]

@[simp] theorem Arg.VI_tuple (l : List Arg) : (Arg.tuple l).VI = argsVI l := by
  simp [Arg.tuple, Arg.VI, Args.VI_ofList, argsVI]

@[simp] theorem argsVI_nil : argsVI [] = true := rfl
@[simp] theorem argsVI_cons (a : Arg) (l : List Arg) : argsVI (a :: l) = (a.VI && argsVI l) := by
  simp [argsVI]

theorem argsVI_mem {l : List Arg} (h : argsVI l) {a : Arg} (ha : a ∈ l) : a.VI := by
  simp only [argsVI, List.all_eq_true] at h; exact h a ha

theorem iterate_VI {a : Arg} {xs : List Arg} (h : iterate a = .ok xs) (ha : a.VI) : argsVI xs := by
  unfold iterate at h
  split at h
  · simp at h
  · simp only [Except.ok.injEq] at h; subst h
    simp [argsVI, Arg.VI]
  · simp only [Except.ok.injEq] at h; subst h
    simpa [argsVI, Arg.VI, Args.VI_toList] using ha
  · simp only [Except.ok.injEq] at h; subst h
    simp only [Arg.VI, Item.Valid, Sent.Valid, Bool.and_eq_true, List.all_eq_true] at ha
    simp only [argsVI, List.all_map, List.all_eq_true]
    intro p hp
    simpa [Arg.VI, Item.Valid] using ha.1.2 p hp
  · simp only [Except.ok.injEq] at h; subst h
    simp only [Arg.VI, Item.Valid, Sent.Valid, Bool.and_eq_true] at ha
    simp [argsVI, Arg.VI, Item.Valid, Param.Valid, ha.1, ha.2]
  · simp only [Except.ok.injEq] at h; subst h
    simpa [argsVI, Arg.VI, Item.Valid, Sent.Valid] using ha
  · simp only [Except.ok.injEq] at h; subst h
    simpa [argsVI, Arg.VI, Item.Valid, Sent.Valid] using ha
  · simp at h

/-! ### constructor bodies keep validity -/

/-- a constructor body all of whose nested calls get valid arguments and which returns a valid
    item, provided the nested calls return valid items -/
def Prog.OK : Prog → Prop
  | .ret x => x.Valid = true
  | .fail _ => True
  | .call _ args k => argsVI args = true ∧ ∀ x, x.Valid = true → (k x).OK

theorem callEach_OK (cls : Cls) : ∀ (xs : List Arg) (k : List Item → Prog), argsVI xs →
    (∀ items, (∀ i ∈ items, Item.Valid i = true) → (k items).OK) → (callEach cls xs k).OK := by
  intro xs
  induction xs with
  | nil => intro k _ hk; exact hk [] (by simp)
  | cons a as ih =>
    intro k hx hk
    simp only [argsVI_cons, Bool.and_eq_true] at hx
    simp only [callEach, Prog.OK]
    refine ⟨by simp [hx.1], fun x hxv => ih _ hx.2 ?_⟩
    intro items hi
    apply hk
    intro i him
    rcases List.mem_cons.mp him with rfl | h
    · exact hxv
    · exact hi i h

/-- `coordArgs` after the unpacking of a single argument -/
def coordTail (n : Nat) (xsE : Except Err (List Arg)) : Except Err (List Int) :=
  match xsE with
  | .error _ => .error .type
  | .ok xs =>
    if xs.length ≠ n then .error .type
    else match allInts xs with
      | some l => .ok l
      | none => .error .type

theorem coordArgs_eq (n : Nat) (args : List Arg) :
    coordArgs n args = coordTail n (match args with | [a] => iterate a | _ => .ok args) := rfl

theorem allInts_len : ∀ (xs : List Arg) (l : List Int), allInts xs = some l → l.length = xs.length := by
  intro xs
  induction xs with
  | nil => intro l h; simp [allInts] at h; subst h; rfl
  | cons a as ih =>
    intro l h
    cases a <;> simp [allInts] at h
    obtain ⟨l2, h2, rfl⟩ := h
    simp [ih l2 h2]

theorem coordArgs_len {n : Nat} {args : List Arg} {l : List Int} (h : coordArgs n args = .ok l) :
    l.length = n := by
  rw [coordArgs_eq] at h
  generalize (match args with | [a] => iterate a | _ => Except.ok args) = xsE at h
  unfold coordTail at h
  split at h
  · simp at h
  · split at h
    · simp at h
    · rename_i hlen
      split at h
      · rename_i l' hl
        simp only [Except.ok.injEq] at h; subst h
        rw [allInts_len _ _ hl]; simpa using hlen
      · simp at h

/-- `predBody` after the unpacking of a single argument -/
def predTail (xsE : Except Err (List Arg)) : Prog :=
  match xsE with
  | .error _ => .fail .type
  | .ok [] => .fail .attr
  | .ok xs =>
    match coordArgs 3 (xs.take 3) with
    | .error e => .fail e
    | .ok [i, s, a] =>
      if i > 3 then .fail .value
      else if s < 0 then .fail .value
      else if a ≤ 0 then .fail .value
      else if i < 0 then .fail .value
      else if xs.length ≠ 3 then .fail .type
      else .ret (.pred ⟨i, s.toNat, a.toNat⟩)
    | .ok _ => .fail .type

theorem predBody_eq (args : List Arg) :
    predBody args = predTail (match args with | [a] => iterate a | _ => .ok args) := rfl

theorem biCoords_OK3 (mk : Nat → Nat → Item) (hmk : ∀ i s, i ≤ 3 → (mk i s).Valid = true)
    (args : List Arg) : (biCoords 3 mk args).OK := by
  unfold biCoords
  split
  · trivial
  · rename_i i s _
    split
    · trivial
    · split
      · trivial
      · split
        · trivial
        · exact hmk _ _ (by omega)
  · trivial

theorem biCoords_OK4 (args : List Arg) : (biCoords 4 (fun i s => .sent (.atom i s)) args).OK := by
  unfold biCoords
  split
  · trivial
  · rename_i i s _
    split
    · trivial
    · split
      · trivial
      · split
        · trivial
        · simp only [Prog.OK, Item.Valid, Sent.Valid, decide_eq_true_eq]; omega
  · trivial

theorem predBody_OK (args : List Arg) : (predBody args).OK := by
  rw [predBody_eq]
  generalize (match args with | [a] => iterate a | _ => Except.ok args) = xsE
  unfold predTail
  split
  · trivial
  · trivial
  · split
    · trivial
    · rename_i i s a _
      split
      · trivial
      · split
        · trivial
        · split
          · trivial
          · split
            · trivial
            · split
              · trivial
              · simp only [Prog.OK, Item.Valid, Pred.Valid, Bool.or_eq_true, Bool.and_eq_true,
                  decide_eq_true_eq]
                left; left; omega
    · trivial

theorem itemsToParams_valid : ∀ (items : List Item) (ps : List Param),
    (∀ i ∈ items, Item.Valid i = true) → itemsToParams items = some ps →
    ps.all Param.Valid = true ∧ ps.length = items.length := by
  intro items
  induction items with
  | nil => intro ps _ h; simp [itemsToParams] at h; subst h; simp
  | cons a as ih =>
    intro ps hv h
    cases a <;> simp [itemsToParams] at h
    rename_i p
    obtain ⟨l2, h2, rfl⟩ := h
    have := ih l2 (fun i hi => hv i (List.mem_cons_of_mem _ hi)) h2
    have hp := hv (.param p) (by simp)
    simp only [Item.Valid] at hp
    simp [hp, this.1, this.2]

theorem itemsToSents_valid : ∀ (items : List Item) (ss : List Sent),
    (∀ i ∈ items, Item.Valid i = true) → itemsToSents items = some ss →
    ∀ s ∈ ss, Sent.Valid s = true := by
  intro items
  induction items with
  | nil => intro ss _ h; simp [itemsToSents] at h; subst h; simp
  | cons a as ih =>
    intro ss hv h
    cases a <;> simp [itemsToSents] at h
    rename_i s0
    obtain ⟨l2, h2, rfl⟩ := h
    have := ih l2 (fun i hi => hv i (List.mem_cons_of_mem _ hi)) h2
    have hp := hv (.sent s0) (by simp)
    simp only [Item.Valid] at hp
    intro s hs
    rcases List.mem_cons.mp hs with rfl | hs
    · exact hp
    · exact this s hs

/-- the end of `Predicated.__init__` -/
def predicatedFin (p : Pred) (items : List Item) : Prog :=
  if items.length ≠ p.arity then .fail .type
  else match itemsToParams items with
    | some ps => .ret (.sent (.pred p ps))
    | none => .fail .type

/-- `Predicated.__init__` after `Predicate(pred)` -/
def predicatedK (params : Arg) (P : Item) : Prog :=
  match P with
  | .pred p =>
    match params with
    | .item (.param q) => predicatedFin p [.param q]
    | _ =>
      match iterate params with
      | .error e => .fail e
      | .ok xs => callEach .parameter xs (predicatedFin p)
  | _ => .fail .type

def restArg (rest : List Arg) : Arg :=
  match rest with
  | [one] => one
  | _ => .tuple rest

theorem predicatedBody_cons (pred : Arg) (rest : List Arg) :
    predicatedBody (pred :: rest) = .call .predicate [pred] (predicatedK (restArg rest)) := rfl

theorem restArg_VI {rest : List Arg} (h : argsVI rest) : (restArg rest).VI = true := by
  unfold restArg
  split
  · simpa using h
  · simpa using h

theorem predicatedFin_OK {p : Pred} (hP : p.Valid = true) (items : List Item)
    (hi : ∀ i ∈ items, Item.Valid i = true) : (predicatedFin p items).OK := by
  unfold predicatedFin
  split
  · trivial
  · rename_i hlen
    split
    · rename_i ps hps
      have := itemsToParams_valid items ps hi hps
      simp only [Prog.OK, Item.Valid, Sent.Valid, Bool.and_eq_true, beq_iff_eq]
      refine ⟨⟨hP, this.1⟩, ?_⟩
      rw [this.2]; simpa using hlen
    · trivial

theorem predicatedBody_OK (args : List Arg) (ha : argsVI args) : (predicatedBody args).OK := by
  cases args with
  | nil => trivial
  | cons pred rest =>
    rw [predicatedBody_cons]
    simp only [argsVI_cons, Bool.and_eq_true] at ha
    simp only [Prog.OK]
    refine ⟨by simp [ha.1], ?_⟩
    intro P hP
    have hparams := restArg_VI ha.2
    generalize restArg rest = params at hparams
    unfold predicatedK
    split
    · rename_i p
      simp only [Item.Valid] at hP
      split
      · rename_i q
        apply predicatedFin_OK hP
        intro i hi
        simp only [List.mem_singleton] at hi; subst hi
        simpa [Arg.VI] using hparams
      · split
        · trivial
        · rename_i xs hxs
          exact callEach_OK _ _ _ (iterate_VI hxs hparams) (predicatedFin_OK hP)
    · trivial

theorem quantifiedBody_OK (args : List Arg) (ha : argsVI args) : (quantifiedBody args).OK := by
  unfold quantifiedBody
  split
  · rename_i q v s
    simp only [argsVI_cons, Bool.and_eq_true, argsVI_nil] at ha
    split
    · trivial
    · simp only [Prog.OK]
      refine ⟨by simp [ha.2.1], fun V hV => ⟨by simp [ha.2.2.1], fun S hS => ?_⟩⟩
      split
      · rename_i vi vs b
        simp only [Item.Valid, Param.Valid, decide_eq_true_eq] at hV hS
        simp [Prog.OK, Item.Valid, Sent.Valid, hV, hS]
      · trivial
  · trivial

/-- the end of `Operated.__init__` -/
def operatedFin (o : Op) (items : List Item) : Prog :=
  match itemsToSents items with
  | none => .fail .type
  | some ss =>
    match o, ss with
    | .u o1, [a] => .ret (.sent (.op1 o1 a))
    | .b o2, [a, b] => .ret (.sent (.op2 o2 a b))
    | _, _ => .fail .value

/-- `Operated.__init__` after `Operator(oper)` -/
def operatedTail (o : Op) (operands : Arg) : Prog :=
  match operands with
  | .item (.sent s) => operatedFin o [.sent s]
  | _ =>
    match iterate operands with
    | .error e => .fail e
    | .ok xs => callEach .sentence xs (operatedFin o)

theorem operatedBody_cons (oper : Arg) (rest : List Arg) :
    operatedBody (oper :: rest) =
      match enumOp oper with
      | .error e => .fail e
      | .ok o => operatedTail o (restArg rest) := by
  rfl

theorem operatedFin_OK (o : Op) (items : List Item) (hi : ∀ i ∈ items, Item.Valid i = true) :
    (operatedFin o items).OK := by
  unfold operatedFin
  split
  · trivial
  · rename_i ss hss
    have hv := itemsToSents_valid items ss hi hss
    split
    · simpa [Prog.OK, Item.Valid, Sent.Valid] using hv
    · simpa [Prog.OK, Item.Valid, Sent.Valid] using hv
    · trivial

theorem operatedBody_OK (args : List Arg) (ha : argsVI args) : (operatedBody args).OK := by
  cases args with
  | nil => trivial
  | cons oper rest =>
    rw [operatedBody_cons]
    simp only [argsVI_cons, Bool.and_eq_true] at ha
    split
    · trivial
    · rename_i o _
      have hoperands := restArg_VI ha.2
      generalize restArg rest = operands at hoperands
      unfold operatedTail
      split
      · rename_i s0
        apply operatedFin_OK
        intro i hi
        simp only [List.mem_singleton] at hi; subst hi
        simpa [Arg.VI] using hoperands
      · split
        · trivial
        · rename_i xs hxs
          exact callEach_OK _ _ _ (iterate_VI hxs hoperands) (operatedFin_OK o)

theorem body_OK (cls : Cls) (args : List Arg) (ha : argsVI args) : (body cls args).OK := by
  cases cls <;> simp only [body]
  · exact predBody_OK args
  · exact biCoords_OK3 _ (fun i s h => by simp [Item.Valid, Param.Valid, h]) args
  · exact biCoords_OK3 _ (fun i s h => by simp [Item.Valid, Param.Valid, h]) args
  · exact biCoords_OK4 args
  · exact predicatedBody_OK args ha
  · exact quantifiedBody_OK args ha
  · exact operatedBody_OK args ha
  all_goals trivial

/-! ### every built item is valid -/

theorem runP_valid (call : Cls → List Arg → R)
    (hcall : ∀ cls args x, argsVI args → call cls args = .ok x → x.Valid = true) :
    ∀ (p : Prog) (x : Item), p.OK → runP call p = .ok x → x.Valid = true := by
  intro p
  induction p with
  | ret y => intro x hp h; simp only [runP, Except.ok.injEq] at h; subst h; exact hp
  | fail e => intro x _ h; simp [runP] at h
  | call cls args k ih =>
    intro x hp h
    simp only [runP] at h
    simp only [Prog.OK] at hp
    cases hc : call cls args with
    | ok y =>
      rw [hc] at h
      exact ih y x (hp.2 y (hcall cls args y hp.1 hc)) h
    | error e => rw [hc] at h; simp at h

theorem sysPredByName_valid {s : String} {x : Item} (h : sysPredByName s = .ok x) : x.Valid = true := by
  unfold sysPredByName at h
  split at h
  · simp only [Except.ok.injEq] at h; subst h; decide
  · split at h
    · simp only [Except.ok.injEq] at h; subst h; decide
    · simp at h

theorem pre_valid {fx : Fixes} {cls : Cls} {args : List Arg} {x : Item} (ha : argsVI args)
    (h : pre fx cls args = some (.ok x)) : x.Valid = true := by
  unfold pre at h
  simp only at h
  split at h
  · rename_i r hr
    simp only [Option.some.injEq] at h; subst h
    split at hr
    · rename_i y
      split at hr
      · simp only [Option.some.injEq, Except.ok.injEq] at hr; subst hr
        simpa [Arg.VI] using ha
      · simp at hr
    · split at hr
      · simp only [Option.some.injEq] at hr
        exact sysPredByName_valid hr
      · simp at hr
    · simp at hr
  · have key : ∀ ref : Arg,
        (if ref = Arg.tuple Pred.identity.specArgs then some (Except.ok (Item.pred Pred.identity))
          else if ref = Arg.tuple Pred.existence.specArgs then some (Except.ok (Item.pred Pred.existence))
          else (none : Option R)) = some (.ok x) → x.Valid = true := by
      intro ref h
      split at h
      · simp only [Option.some.injEq, Except.ok.injEq] at h; subst h; decide
      · split at h
        · simp only [Option.some.injEq, Except.ok.injEq] at h; subst h; decide
        · simp at h
    split at h
    · exact key _ h
    · simp at h

theorem decodeIdent_VI {cls : Cls} {args : List Arg} {cn sp : Arg} {tgt : Target} (ha : argsVI args)
    (h : decodeIdent cls args = .ok (cn, sp, tgt)) : sp.VI = true := by
  unfold decodeIdent at h
  split at h
  · rename_i arg
    simp only [argsVI_cons, argsVI_nil, Bool.and_true] at ha
    split at h
    · simp at h
    · rename_i cn' sp' hu
      have hsp : sp'.VI = true := by
        unfold unpack2 at hu
        split at hu
        · simp at hu
        · rename_i x y hit
          simp only [Except.ok.injEq, Prod.mk.injEq] at hu
          have := iterate_VI hit ha
          simp only [argsVI_cons, Bool.and_eq_true] at this
          rw [← hu.2]; exact this.2.1
        · simp at hu
      split at h
      · simp at h
      · split at h
        · simp only [Except.ok.injEq, Prod.mk.injEq] at h
          rw [← h.2.1]; exact hsp
        · simp at h
  · simp at h

theorem enumCall_valid {b : Bool} {xs : List Arg} {x : Item} (h : enumCall b xs = .ok x) :
    x.Valid = true := by
  unfold enumCall at h
  split at h
  · split at h
    · cases hq : enumQuant _ with
      | ok q => rw [hq] at h; simp [Except.map] at h; subst h; rfl
      | error e => rw [hq] at h; simp [Except.map] at h
    · cases hq : enumOp _ with
      | ok q => rw [hq] at h; simp [Except.map] at h; subst h; rfl
      | error e => rw [hq] at h; simp [Except.map] at h
  · simp at h

/-- every item a (cache-free) metaclass call returns is `Valid`, if the items passed in are -/
theorem evalP_valid (fx : Fixes) : ∀ (n : Nat) (cls : Cls) (args : List Arg) (x : Item),
    argsVI args → evalP fx n cls args = .ok x → x.Valid = true := by
  intro n
  induction n with
  | zero => intro cls args x _ h; simp [evalP] at h
  | succ n ih =>
    intro cls args x ha h
    rw [evalP] at h
    cases hp : pre fx cls args with
    | some r0 =>
      simp only [hp] at h
      subst h
      exact pre_valid ha hp
    | none =>
      simp only [hp] at h
      by_cases hab : cls.isAbstract
      · simp only [hab, ↓reduceIte] at h
        cases hd : decodeIdent cls args with
        | error e => simp [hd] at h
        | ok t =>
          obtain ⟨cn, sp, tgt⟩ := t
          simp only [hd] at h
          have hsp := decodeIdent_VI ha hd
          cases hi : iterate sp with
          | error e => simp [hi] at h
          | ok xs =>
            simp only [hi] at h
            have hxs := iterate_VI hi hsp
            cases tgt with
            | lex c => exact ih c xs x hxs h
            | quantifier => exact enumCall_valid h
            | operator => exact enumCall_valid h
      · simp only [hab, Bool.false_eq_true, ↓reduceIte] at h
        exact runP_valid _ (fun c a y hy hc => ih c a y hy hc) _ x (body_OK cls args ha) h

end Ptx
