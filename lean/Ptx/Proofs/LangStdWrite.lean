/-
  C12, standard notation: the output of `StandardLexWriter` (any option set) through a string
  table that is `CompatStd` with the parse table IS a rendering (`Renders`) — for every sentence
  of the language except the two constructs the standard writer does not write in the parser's
  alphabet (`stdReadable`): Existence (`E!a`; the parser's symbol is `!`, and `E` is an atomic)
  and, with `identity_infix`, negated identity (`a != b`; no such parser symbol).
  Core Lean only.
-/
import Ptx.Proofs.LangStdRead
namespace Ptx.Parse
open Ptx Ptx.Sym Ptx.Write

/-- what `CompatStd` (and `Complete`) give, as propositions -/
structure CompatStdP (pt : ParseTable) (wt : StringTable) (m : MaxIdx) : Prop where
  op1 : ∀ o, ∃ c, wt.op1 o = [c] ∧ pt.lookup c = some (.op1 o)
  op2 : ∀ o, ∃ c, wt.op2 o = [c] ∧ pt.lookup c = some (.op2 o)
  quant : ∀ q, ∃ c, wt.quant q = [c] ∧ pt.lookup c = some (.quant q)
  identity : ∃ c, wt.identity = [c] ∧ pt.lookup c = some (.sysPred .identity)
  atom : ∀ i, i ≤ m.atom → ∃ c, StringTable.idx wt.atom i = [c] ∧ pt.lookup c = some (.atom i)
  var : ∀ i, i ≤ m.var → ∃ c, StringTable.idx wt.var i = [c] ∧ pt.lookup c = some (.var i)
  const : ∀ i, i ≤ m.const → ∃ c, StringTable.idx wt.const i = [c] ∧ pt.lookup c = some (.const i)
  pred : ∀ i, i ≤ m.pred → ∃ c, StringTable.idx wt.pred i = [c] ∧ pt.lookup c = some (.pred i)
  subOpen : wt.subOpen = []
  subClose : wt.subClose = []
  digit : ∀ d, d < 10 → pt.lookup (digitChr d) = some (.digit d)
  ws : ∃ c, wt.ws = [c] ∧ pt.lookup c = some .ws
  parenOpen : ∃ c, wt.parenOpen = some [c] ∧ pt.lookup c = some .parenOpen
  parenClose : ∃ c, wt.parenClose = some [c] ∧ pt.lookup c = some .parenClose

theorem CompatStdP.of_bool {pt : ParseTable} {wt : StringTable} {m : MaxIdx}
    (h : CompatStd pt wt = true) (hc : wt.Complete m = true) : CompatStdP pt wt m := by
  simp only [CompatStd, CompatCore, Bool.and_eq_true, List.all_eq_true, beq_iff_eq] at h
  simp only [StringTable.Complete, Bool.and_eq_true, beq_iff_eq] at hc
  obtain ⟨⟨⟨⟨⟨⟨⟨⟨⟨⟨⟨⟨h1, h2⟩, h3⟩, h4⟩, h5⟩, h6⟩, h7⟩, h8⟩, h9, h10⟩, h11⟩, h12⟩, h13⟩, h14⟩ := h
  obtain ⟨⟨⟨c1, c2⟩, c3⟩, c4⟩ := hc
  refine ⟨?_, ?_, ?_, symOK_elim h4, ?_, ?_, ?_, ?_, h9, h10, ?_, symOK_elim h12, ?_, ?_⟩
  · intro o; exact symOK_elim (h1 o (by cases o <;> simp [Op1.all]))
  · intro o; exact symOK_elim (h2 o (by cases o <;> simp [Op2.all]))
  · intro q; exact symOK_elim (h3 q (by cases q <;> simp [Quant.all]))
  · intro i hi; exact idxOK_elim h5 i (by omega)
  · intro i hi; exact idxOK_elim h6 i (by omega)
  · intro i hi; exact idxOK_elim h7 i (by omega)
  · intro i hi; exact idxOK_elim h8 i (by omega)
  · intro d hd; exact h11 d (by simp [hd])
  · cases hpo : wt.parenOpen with
    | none => simp [hpo] at h13
    | some s =>
      rw [hpo] at h13
      obtain ⟨c, rfl, h⟩ := symOK_elim h13
      exact ⟨c, rfl, h⟩
  · cases hpc : wt.parenClose with
    | none => simp [hpc] at h14
    | some s =>
      rw [hpc] at h14
      obtain ⟨c, rfl, h⟩ := symOK_elim h14
      exact ⟨c, rfl, h⟩

/-! ### the constructs the standard writer writes in the parser's alphabet -/

def isIdentityPred : Sent → Bool
  | .pred p _ => p.index == -1
  | _ => false

/-- no Existence predication; with `identity_infix` no negated identity -/
def stdReadable (o : StdOpts) : Sent → Bool
  | .atom _ _ => true
  | .pred p _ => p.index != -2
  | .quant _ _ _ b => stdReadable o b
  | .op1 op a => !(o.identityInfix && op == .neg && isIdentityPred a) && stdReadable o a
  | .op2 _ a b => stdReadable o a && stdReadable o b

theorem stdToksIn_op1_readable (o : StdOpts) (op : Op1) (a : Sent)
    (h : (o.identityInfix && op == .neg && isIdentityPred a) = false) :
    stdToksIn o (.op1 op a) = .op1 op :: stdToksIn o a := by
  rw [stdToksIn.eq_def]
  simp only
  split
  · rename_i p x y
    split
    · rename_i hh
      simp [isIdentityPred, hh.1, hh.2] at h
    · rfl
  · rfl

/-! ### pieces -/

section
variable {pt : ParseTable} {wt : StringTable} {m : MaxIdx} (hc : CompatStdP pt wt m)
include hc

theorem render_subToks_std (n : Nat) : render wt (subToks n) = subChars n := by
  unfold subToks subChars
  split
  · rfl
  · simp [render, renderTok, hc.subOpen, hc.subClose]

theorem digitsR_map (ds : List Nat) (h : ∀ d ∈ ds, d < 10) : DigitsR pt ds (ds.map digitChr) := by
  induction ds with
  | nil => exact DigitsR.nil
  | cons d ds ih =>
    have := DigitsR.cons (hc.digit d (h d (by simp))) (Ws.nil pt) (ih (fun x hx => h x (by simp [hx])))
    simpa using this

theorem subR_subChars (limit n : Nat) (hs : subOK limit n = true) : SubR pt limit n (subChars n) := by
  unfold subChars
  split
  · rename_i h0
    subst h0
    exact SubR.mk (ds := []) DigitsR.nil (by simp)
  · have hd := digitsR_map hc (decDigits n) (decDigits_lt n)
    have hl : limit = 0 ∨ (decDigits n).length ≤ limit := by
      simp only [subOK, Bool.or_eq_true, beq_iff_eq, decide_eq_true_eq] at hs
      exact hs
    have := SubR.mk hd hl
    rwa [horner_decDigits] at this

theorem paramR_write (limit : Nat) (p : Param) (hp : paramIdxOK m p = true) (hs : paramSubOK limit p = true)
    :
    ∃ x, render wt (paramToks p) = x ∧ ParamR pt limit p x := by
  cases p with
  | const i s =>
    obtain ⟨c, h1, h2⟩ := hc.const i (by simpa [paramIdxOK] using hp)
    refine ⟨c :: ([] ++ subChars s), ?_, ParamR.const h2 (Ws.nil pt) (subR_subChars hc limit s hs)⟩
    simp [paramToks, render_cons, renderTok, h1, render_subToks_std hc]
  | var i s =>
    obtain ⟨c, h1, h2⟩ := hc.var i (by simpa [paramIdxOK] using hp)
    refine ⟨c :: ([] ++ subChars s), ?_, ParamR.var h2 (Ws.nil pt) (subR_subChars hc limit s hs)⟩
    simp [paramToks, render_cons, renderTok, h1, render_subToks_std hc]

theorem paramR_write' (limit : Nat) (p : Param) (hp : paramIdxOK m p = true) (hs : paramSubOK limit p = true) :
    ParamR pt limit p (render wt (paramToks p)) := by
  obtain ⟨x, h1, h2⟩ := paramR_write hc limit p hp hs
  rw [h1]; exact h2

theorem paramsR_write (limit : Nat) (ps : List Param) (hp : ps.all (paramIdxOK m) = true)
    (hs : ps.all (paramSubOK limit) = true) : ParamsR pt limit ps (render wt (paramsToks ps)) := by
  induction ps with
  | nil => exact ParamsR.nil
  | cons p ps ih =>
    simp only [List.all_cons, Bool.and_eq_true] at hp hs
    rw [paramsToks_cons, render_append]
    exact ParamsR.cons (paramR_write' hc limit p hp.1 hs.1) (ih hp.2 hs.2)

/-- a predicate symbol other than Existence, followed by the whitespace word `w` when it is
    Identity -/
theorem predSymR_write (limit : Nat) (p : Pred) (hp : predOK m p = true) (hne : p.index ≠ -2)
    (hs : subOK limit p.sub = true) :
    PredSymR pt limit p (render wt (predToks p)) ∧
    (p.index = -1 → ∀ w, Ws pt w → PredSymR pt limit p (render wt (predToks p) ++ w)) := by
  rcases predOK_cases hp with h | h | h
  · subst h
    obtain ⟨c, h1, h2⟩ := hc.identity
    have e : render wt (predToks Pred.identity) = [c] := by
      simp [predToks, Pred.identity, render, renderTok, h1]
    rw [e]
    exact ⟨PredSymR.sys (sp := .identity) h2 (Ws.nil pt), fun _ w hw => PredSymR.sys (sp := .identity) h2 hw⟩
  · subst h; simp [Pred.existence] at hne
  · have hn1 : p.index ≠ -1 := by omega
    obtain ⟨c, h1, h2⟩ := hc.pred p.index.toNat (by omega)
    have e : render wt (predToks p) = c :: ([] ++ subChars p.sub) := by
      simp [predToks, hn1, hne, render_cons, renderTok, h1, render_subToks_std hc]
    have hpe : (⟨((p.index.toNat : Nat) : Int), p.sub, p.arity⟩ : Pred) = p := by
      cases p with
      | mk i u a =>
        simp only at h ⊢
        congr
        omega
    have := PredSymR.user (limit := limit) (a := p.arity) h2 (Ws.nil pt) (subR_subChars hc limit p.sub hs)
    rw [hpe] at this
    rw [e]
    exact ⟨this, fun h' => absurd h' hn1⟩

/-- the writer's inner output is an inner rendering -/
theorem rendersIn_write (o : StdOpts) (limit : Nat) : ∀ (s : Sent) (b : List Var),
    wfIn m b s = true → subsOK limit s = true → stdReadable o s = true →
    RendersIn pt limit s (render wt (stdToksIn o s)) := by
  obtain ⟨sp, hsp1, hsp2⟩ := hc.ws
  have hwsp : Ws pt [sp] := by intro c hcm; simp at hcm; subst hcm; exact hsp2
  intro s
  induction s with
  | atom i u =>
    intro b hwf hsub _
    obtain ⟨c, h1, h2⟩ := hc.atom i (by simpa [wfIn] using hwf)
    have e : render wt (stdToksIn o (.atom i u)) = c :: ([] ++ subChars u) := by
      simp [stdToksIn, render_cons, renderTok, h1, render_subToks_std hc]
    rw [e]
    exact RendersIn.atom h2 (Ws.nil pt) (subR_subChars hc limit u (by simpa [subsOK] using hsub))
  | pred p ps =>
    intro b hwf hsub hrd
    simp only [wfIn, Bool.and_eq_true, beq_iff_eq] at hwf
    obtain ⟨⟨hpok, hlen⟩, hps⟩ := hwf
    simp only [subsOK, Bool.and_eq_true] at hsub
    have hne : p.index ≠ -2 := by simpa [stdReadable] using hrd
    have hidx := all_paramOK_idx hps
    obtain ⟨hsym, hsymw⟩ := predSymR_write hc limit p hpok hne hsub.1
    simp only [stdToksIn, stdPredToks]
    split
    · -- prefix
      rw [render_append]
      exact RendersIn.predPrefix hsym (paramsR_write hc limit ps hidx hsub.2)
    · rename_i hinf
      cases ps with
      | nil =>
        -- arity ≥ 2 excludes it
        simp only [Bool.not_eq_true', Bool.not_eq_false, Bool.and_eq_true, decide_eq_true_eq] at hinf
        simp only [List.length_nil] at hlen
        omega
      | cons a r =>
        simp only [List.all_cons, Bool.and_eq_true] at hidx hsub
        have hr : r ≠ [] := by
          simp only [Bool.not_eq_true', Bool.not_eq_false, Bool.and_eq_true, decide_eq_true_eq] at hinf
          intro hr; subst hr
          simp only [List.length_cons, List.length_nil] at hlen
          omega
        have ha := paramR_write' hc limit a hidx.1 hsub.2.1
        have hrs := paramsR_write hc limit r hidx.2 hsub.2.2
        simp only
        split
        · rename_i hid
          have e : render wt (joinWs [paramToks a, predToks p, paramsToks r])
              = render wt (paramToks a) ++ ([sp] ++ ((render wt (predToks p) ++ [sp]) ++ render wt (paramsToks r))) := by
            simp [joinWs, render_append, render_cons, renderTok, hsp1]
          rw [e]
          exact RendersIn.predInfix hr ha hwsp (hsymw hid [sp] hwsp) hrs
        · have e : render wt (paramToks a ++ predToks p ++ paramsToks r)
              = render wt (paramToks a) ++ ([] ++ (render wt (predToks p) ++ render wt (paramsToks r))) := by
            simp [render_append]
          rw [e]
          exact RendersIn.predInfix hr ha (Ws.nil pt) hsym hrs
  | quant q vi vs body ih =>
    intro b hwf hsub hrd
    simp only [wfIn, Bool.and_eq_true, decide_eq_true_eq] at hwf
    simp only [subsOK, Bool.and_eq_true] at hsub
    obtain ⟨cq, hq1, hq2⟩ := hc.quant q
    obtain ⟨cv, hv1, hv2⟩ := hc.var vi hwf.1.1.1
    have e : render wt (stdToksIn o (.quant q vi vs body))
        = cq :: ([] ++ (cv :: ([] ++ (subChars vs ++ render wt (stdToksIn o body))))) := by
      simp [stdToksIn, render_cons, render_append, renderTok, hq1, hv1, render_subToks_std hc]
    rw [e]
    exact RendersIn.quant hq2 (Ws.nil pt) hv2 (Ws.nil pt) (subR_subChars hc limit vs hsub.1)
      (ih _ hwf.2 hsub.2 (by simpa [stdReadable] using hrd))
  | op1 op a ih =>
    intro b hwf hsub hrd
    simp only [stdReadable, Bool.and_eq_true, Bool.not_eq_true'] at hrd
    obtain ⟨c, h1, h2⟩ := hc.op1 op
    rw [stdToksIn_op1_readable o op a hrd.1]
    have e : render wt (WTok.op1 op :: stdToksIn o a) = c :: ([] ++ render wt (stdToksIn o a)) := by
      simp [render_cons, renderTok, h1]
    rw [e]
    exact RendersIn.op1 h2 (Ws.nil pt) (ih b (by simpa [wfIn] using hwf) (by simpa [subsOK] using hsub) hrd.2)
  | op2 op a c iha ihc =>
    intro b hwf hsub hrd
    simp only [wfIn, Bool.and_eq_true] at hwf
    simp only [subsOK, Bool.and_eq_true] at hsub
    simp only [stdReadable, Bool.and_eq_true] at hrd
    obtain ⟨co, ho1, ho2⟩ := hc.op2 op
    obtain ⟨po, hpo1, hpo2⟩ := hc.parenOpen
    obtain ⟨pc, hpc1, hpc2⟩ := hc.parenClose
    have e : render wt (stdToksIn o (.op2 op a c))
        = po :: ([] ++ (render wt (stdToksIn o a) ++ ([sp] ++ (co :: ([sp] ++ (render wt (stdToksIn o c) ++ ([] ++ (pc :: []))))))))  := by
      simp [stdToksIn, joinWs, render_cons, render_append, render_nil, renderTok, ho1, hpo1, hpc1, hsp1]
    rw [e]
    exact RendersIn.op2 hpo2 (Ws.nil pt) (iha b hwf.1 hsub.1 hrd.1) hwsp ho2 hwsp (ihc b hwf.2 hsub.2 hrd.2)
      (Ws.nil pt) hpc2 (Ws.nil pt)

/-- `StandardLexWriter.__call__`: the writer's output is a rendering, for every option set -/
theorem renders_write (o : StdOpts) (limit : Nat) (s : Sent)
    (hwf : WF m s = true) (hsub : subsOK limit s = true) (hrd : stdReadable o s = true) :
    Renders pt limit s (writeStandard wt o s) := by
  obtain ⟨sp, hsp1, hsp2⟩ := hc.ws
  have hwsp : Ws pt [sp] := by intro c hcm; simp at hcm; subst hcm; exact hsp2
  have hinner : Renders pt limit s (render wt (stdToksIn o s)) := by
    have := Renders.inner (Ws.nil pt) (rendersIn_write hc o limit s [] hwf hsub hrd)
    simpa using this
  unfold writeStandard standardToks
  split
  · rename_i op a c
    split
    · simp only [WF, wfIn, Bool.and_eq_true] at hwf
      simp only [subsOK, Bool.and_eq_true] at hsub
      simp only [stdReadable, Bool.and_eq_true] at hrd
      obtain ⟨co, ho1, ho2⟩ := hc.op2 op
      have e : render wt (joinWs [stdToksIn o a, [WTok.op2 op], stdToksIn o c])
          = [] ++ (render wt (stdToksIn o a) ++ ([sp] ++ (co :: ([sp] ++ render wt (stdToksIn o c))))) := by
        simp [joinWs, render_cons, render_append, renderTok, ho1, hsp1]
      rw [e]
      exact Renders.dropped (Ws.nil pt) (rendersIn_write hc o limit a [] hwf.1 hsub.1 hrd.1) hwsp ho2 hwsp
        (rendersIn_write hc o limit c [] hwf.2 hsub.2 hrd.2)
    · exact hinner
  · exact hinner

end
end Ptx.Parse
