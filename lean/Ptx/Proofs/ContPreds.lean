/-
  Ptx.Proofs.ContPreds — the hooks of the predicate store satisfy `HooksOK` w.r.t. `predSig`:
  the lookup index holds exactly the keys of the members, and `_hook_check` refuses exactly
  the clashes.
-/
import Ptx.Cont.Predicates
import Ptx.Proofs.ContQSet
namespace Ptx.Cont
namespace Preds
set_option linter.unusedSectionVars false

/-- the index is consistent with the member list: it maps exactly the keys of the members,
    each to its member; and no two members clash -/
structure LInv (lk : Lookup) (l : List Pred) : Prop where
  lookup : ∀ r p, lget lk r = some p ↔ p ∈ l ∧ r ∈ keys p
  noclash : ∀ a ∈ l, ∀ b ∈ l, clash a b = false

/-! ### keys -/

theorem clash_symm (a b : Pred) : clash a b = clash b a := by
  unfold clash
  rw [Bool.eq_iff_iff]
  simp only [Bool.and_eq_true, beq_iff_eq, bne_iff_ne, ne_eq]
  constructor <;> rintro ⟨⟨h1, h2⟩, h3⟩ <;> exact ⟨⟨h1.symm, h2.symm⟩, fun h => h3 h.symm⟩

theorem clash_self (a : Pred) : clash a a = false := by simp [clash]

theorem sysName_inj {a b : Pred} {n : String} (ha : sysName a = some n) (hb : sysName b = some n) : a = b := by
  unfold sysName at ha hb
  have hne : ("Identity" : String) ≠ "Existence" := by decide
  split at ha
  · split at hb
    · simp_all
    · split at hb
      · simp only [Option.some.injEq] at ha hb; exact (hne (ha.trans hb.symm)).elim
      · simp at hb
  · split at ha
    · split at hb
      · simp only [Option.some.injEq] at ha hb; exact (hne (hb.trans ha.symm)).elim
      · split at hb
        · simp_all
        · simp at hb
    · simp at ha

theorem mem_keys {r : Ref} {p : Pred} :
    r ∈ keys p ↔ r = .bi p.index p.sub ∨ r = .spec p ∨ r = .ident p ∨ r = .self p ∨ sysName p = some (match r with | .name n => n | _ => "") ∧ (∃ n, r = .name n) := by
  unfold keys refs
  cases hs : sysName p with
  | none =>
    simp only [List.append_nil, List.mem_append, List.mem_cons, List.not_mem_nil, or_false, List.mem_singleton]
    constructor
    · rintro ((h | h | h) | h) <;> simp [h]
    · rintro (h | h | h | h | ⟨h, _⟩) <;> simp_all
  | some n =>
    simp only [List.mem_append, List.mem_cons, List.not_mem_nil, or_false, List.mem_singleton]
    constructor
    · rintro (((h | h | h) | h) | h) <;> simp [h]
    · rintro (h | h | h | h | ⟨h, m, hm⟩)
      · simp [h]
      · simp [h]
      · simp [h]
      · simp [h]
      · subst hm; simp at h; simp [h]

/-- two predicates sharing a key are the same predicate or clash -/
theorem keys_share {r : Ref} {a b : Pred} (ha : r ∈ keys a) (hb : r ∈ keys b) : a = b ∨ clash a b = true := by
  rw [mem_keys] at ha hb
  rcases ha with ha | ha | ha | ha | ⟨ha, n, hn⟩
  · subst ha
    rcases hb with hb | hb | hb | hb | ⟨_, m, hm⟩ <;> (try (simp at hb)) <;> (try (simp at hm))
    obtain ⟨h1, h2⟩ := hb
    by_cases h3 : a.arity = b.arity
    · left
      cases a; cases b; simp_all
    · right; simp [clash, h1, h2, h3]
  · subst ha
    rcases hb with hb | hb | hb | hb | ⟨_, m, hm⟩ <;> (try (simp at hb)) <;> (try (simp at hm))
    exact .inl hb
  · subst ha
    rcases hb with hb | hb | hb | hb | ⟨_, m, hm⟩ <;> (try (simp at hb)) <;> (try (simp at hm))
    exact .inl hb
  · subst ha
    rcases hb with hb | hb | hb | hb | ⟨_, m, hm⟩ <;> (try (simp at hb)) <;> (try (simp at hm))
    exact .inl hb
  · subst hn
    rcases hb with hb | hb | hb | hb | ⟨hb, m, hm⟩ <;> (try (simp at hb))
    simp at ha hb
    exact .inl (sysName_inj ha hb)

theorem refs_sub_keys {r : Ref} {p : Pred} (h : r ∈ refs p) : r ∈ keys p := by
  unfold keys; exact List.mem_append_left _ h

theorem self_mem_keys (p : Pred) : Ref.self p ∈ keys p := by simp [keys]

theorem self_mem_keys_iff (v m : Pred) : Ref.self v ∈ keys m ↔ m = v := by
  rw [mem_keys]; simp; exact eq_comm

theorem bi_mem_refs (p : Pred) : Ref.bi p.index p.sub ∈ refs p := by simp [refs]

/-- clashing predicates share the symbol key -/
theorem clash_share {a b : Pred} (h : clash a b = true) : ∃ r ∈ refs b, r ∈ keys a := by
  refine ⟨.bi b.index b.sub, bi_mem_refs b, ?_⟩
  simp only [clash, Bool.and_eq_true, beq_iff_eq] at h
  rw [← h.1.1, ← h.1.2]
  exact refs_sub_keys (bi_mem_refs a)

/-! ### the association list -/

theorem lget_nil (r : Ref) : lget [] r = none := rfl

theorem lget_lpop (lk : Lookup) (r r' : Ref) : lget (lpop lk r) r' = if r' = r then none else lget lk r' := by
  unfold lget lpop
  induction lk with
  | nil => simp
  | cons e es ih =>
    by_cases h1 : e.1 = r
    · simp only [List.filter_cons, h1, ne_eq, not_true_eq_false, decide_false, Bool.false_eq_true, ↓reduceIte]
      rw [ih]
      by_cases h2 : r' = r
      · simp [h2]
      · have : ¬ (r = r') := fun h => h2 h.symm
        simp [h2, List.find?_cons, h1, this]
    · simp only [List.filter_cons, ne_eq, h1, not_false_eq_true, decide_true, ↓reduceIte, List.find?_cons]
      by_cases h3 : e.1 = r'
      · have : ¬ (r' = r) := fun h => h1 (h3.trans h)
        simp [h3, this]
      · simp only [h3, decide_false]
        exact ih

theorem lget_append_single (lk : Lookup) (r r' : Ref) (p : Pred) :
    lget (lk ++ [(r, p)]) r' = match lget lk r' with | some q => some q | none => if r' = r then some p else none := by
  unfold lget
  induction lk with
  | nil =>
    by_cases h : r = r'
    · simp [h]
    · have : ¬ (r' = r) := fun h' => h h'.symm
      simp [h, this]
  | cons e es ih =>
    by_cases h1 : e.1 = r'
    · simp [List.find?_cons, h1]
    · simp only [List.cons_append, List.find?_cons, h1, decide_false]
      exact ih

theorem lget_lset (lk : Lookup) (r r' : Ref) (p : Pred) :
    lget (lset lk r p) r' = if r' = r then some p else lget lk r' := by
  unfold lset
  rw [lget_append_single, lget_lpop]
  by_cases h : r' = r
  · simp [h]
  · simp only [h, ↓reduceIte]
    cases lget lk r' <;> rfl

theorem lget_foldl_lpop (ks : List Ref) (lk : Lookup) (r' : Ref) :
    lget (ks.foldl lpop lk) r' = if r' ∈ ks then none else lget lk r' := by
  induction ks generalizing lk with
  | nil => simp
  | cons k ks ih =>
    rw [List.foldl_cons, ih, lget_lpop]
    by_cases h1 : r' ∈ ks
    · simp [h1]
    · by_cases h2 : r' = k
      · simp [h2]
      · simp [h1, h2]

theorem lget_foldl_lset (ks : List Ref) (p : Pred) (lk : Lookup) (r' : Ref) :
    lget (ks.foldl (fun lk r => lset lk r p) lk) r' = if r' ∈ ks then some p else lget lk r' := by
  induction ks generalizing lk with
  | nil => simp
  | cons k ks ih =>
    rw [List.foldl_cons, ih, lget_lset]
    by_cases h1 : r' ∈ ks
    · simp [h1]
    · by_cases h2 : r' = k
      · simp [h2]
      · simp [h1, h2]

theorem lget_popAll (leaving : List Pred) (lk : Lookup) (r' : Ref) :
    lget (leaving.foldl (fun lk p => (keys p).foldl lpop lk) lk) r' =
      if ∃ p ∈ leaving, r' ∈ keys p then none else lget lk r' := by
  induction leaving generalizing lk with
  | nil => simp
  | cons q qs ih =>
    rw [List.foldl_cons, ih, lget_foldl_lpop]
    by_cases h1 : ∃ p ∈ qs, r' ∈ keys p
    · have : ∃ p ∈ q :: qs, r' ∈ keys p := by
        obtain ⟨p, hp, hk⟩ := h1; exact ⟨p, by simp [hp], hk⟩
      simp [h1, this]
    · by_cases h2 : r' ∈ keys q
      · have : ∃ p ∈ q :: qs, r' ∈ keys p := ⟨q, by simp, h2⟩
        simp [h1, h2, this]
      · have : ¬ ∃ p ∈ q :: qs, r' ∈ keys p := by
          rintro ⟨p, hp, hk⟩
          rcases List.mem_cons.mp hp with rfl | hp
          · exact h2 hk
          · exact h1 ⟨p, hp, hk⟩
        simp [h1, h2, this]

theorem lget_setAll (arr : List Pred) (lk : Lookup) (r' : Ref) :
    ((∃ a ∈ arr, r' ∈ keys a) → ∃ a ∈ arr, r' ∈ keys a ∧
        lget (arr.foldl (fun lk p => (keys p).foldl (fun lk r => lset lk r p) lk) lk) r' = some a) ∧
    ((¬ ∃ a ∈ arr, r' ∈ keys a) →
        lget (arr.foldl (fun lk p => (keys p).foldl (fun lk r => lset lk r p) lk) lk) r' = lget lk r') := by
  induction arr generalizing lk with
  | nil => simp
  | cons a as ih =>
    rw [List.foldl_cons]
    obtain ⟨ih1, ih2⟩ := ih ((keys a).foldl (fun lk r => lset lk r a) lk)
    constructor
    · intro hex
      by_cases has : ∃ a' ∈ as, r' ∈ keys a'
      · obtain ⟨a', ha', hk, hg⟩ := ih1 has
        exact ⟨a', by simp [ha'], hk, hg⟩
      · obtain ⟨a', ha', hk⟩ := hex
        have : a' = a := by
          rcases List.mem_cons.mp ha' with h | h
          · exact h
          · exact (has ⟨a', h, hk⟩).elim
        subst this
        refine ⟨a', by simp, hk, ?_⟩
        rw [ih2 has, lget_foldl_lset]
        simp [hk]
    · intro hnex
      have has : ¬ ∃ a' ∈ as, r' ∈ keys a' := fun ⟨a', h, hk⟩ => hnex ⟨a', by simp [h], hk⟩
      have hka : r' ∉ keys a := fun hk => hnex ⟨a, by simp, hk⟩
      rw [ih2 has, lget_foldl_lset]
      simp [hka]

/-! ### the hooks -/

theorem has_eq {lk : Lookup} {l : List Pred} (h : LInv lk l) (r : Ref) :
    (lget lk r).isSome = Spec.has predSig l r := by
  unfold Spec.has
  rw [Bool.eq_iff_iff]
  simp only [Option.isSome_iff_exists, h.lookup, List.any_eq_true, decide_eq_true_eq]
  constructor
  · rintro ⟨p, hp, hk⟩; exact ⟨p, hp, hk⟩
  · rintro ⟨p, hp, hk⟩; exact ⟨p, hp, hk⟩

theorem mem_priors {lk : Lookup} {l : List Pred} (h : LInv lk l) (a m : Pred) :
    m ∈ priors lk a ↔ m ∈ l ∧ clash m a = true := by
  unfold priors
  simp only [List.mem_filter, List.mem_filterMap, decide_eq_true_eq, h.lookup]
  constructor
  · rintro ⟨⟨r, hr, hm, hk⟩, hne⟩
    refine ⟨hm, ?_⟩
    rcases keys_share hk (refs_sub_keys hr) with h' | h'
    · exact (hne h').elim
    · exact h'
  · rintro ⟨hm, hc⟩
    obtain ⟨r, hr, hk⟩ := clash_share hc
    refine ⟨⟨r, hr, hm, hk⟩, fun he => ?_⟩
    subst he
    simp [clash_self] at hc

theorem share_refs_iff {p q : Pred} (hne : q ≠ p) :
    (∃ r, r ∈ refs q ∧ r ∈ refs p) ↔ clash p q = true := by
  constructor
  · rintro ⟨r, hr, hrp⟩
    rcases keys_share (refs_sub_keys hrp) (refs_sub_keys hr) with h' | h'
    · exact (hne h'.symm).elim
    · exact h'
  · intro hc
    refine ⟨.bi q.index q.sub, bi_mem_refs q, ?_⟩
    simp only [clash, Bool.and_eq_true, beq_iff_eq] at hc
    rw [← hc.1.1, ← hc.1.2]
    exact bi_mem_refs p

theorem mutualClash_eq (arr : List Pred) :
    mutualClash arr = arr.any (fun a => arr.any fun b => clash a b) := by
  induction arr with
  | nil => rfl
  | cons p ps ih =>
    unfold mutualClash
    rw [ih, Bool.eq_iff_iff]
    simp only [Bool.or_eq_true, List.any_eq_true, Bool.and_eq_true, List.mem_cons, decide_eq_true_eq]
    constructor
    · rintro (⟨q, hq, hne, hsh⟩ | ⟨a, ha, b, hb, hc⟩)
      · have hne' : q ≠ p := by simpa using hne
        exact ⟨p, .inl rfl, q, .inr hq, (share_refs_iff hne').mp hsh⟩
      · exact ⟨a, .inr ha, b, .inr hb, hc⟩
    · rintro ⟨a, ha, b, hb, hc⟩
      have hne : a ≠ b := fun he => by subst he; simp [clash_self] at hc
      rcases ha with rfl | ha <;> rcases hb with rfl | hb
      · exact (hne rfl).elim
      · exact .inl ⟨b, hb, by simpa using (Ne.symm hne), (share_refs_iff (Ne.symm hne)).mpr hc⟩
      · exact .inl ⟨a, ha, by simpa using hne, (share_refs_iff hne).mpr (clash_symm a b ▸ hc)⟩
      · exact .inr ⟨a, ha, b, hb, hc⟩

theorem check_eq {lk : Lookup} {l : List Pred} (h : LInv lk l) (arr leaving : List Pred) :
    check lk arr leaving = if Spec.clashes predSig l arr leaving then some .conflict else none := by
  unfold check Spec.clashes
  rw [mutualClash_eq]
  have hS : predSig.clash = clash := rfl
  rw [hS]
  cases hm : arr.any (fun a => arr.any fun b => clash a b)
  · simp only [Bool.false_eq_true, ↓reduceIte, Bool.or_false]
    have : ((arr.flatMap (priors lk)).all fun x => decide (x ∈ leaving)) =
        !(arr.any fun a => l.any fun m => !(leaving.contains m) && clash m a) := by
      rw [Bool.eq_iff_iff]
      simp only [List.all_eq_true, List.mem_flatMap, decide_eq_true_eq, Bool.not_eq_true',
        List.any_eq_false, List.any_eq_true, Bool.and_eq_true, Bool.not_eq_true',
        List.contains_eq_mem, decide_eq_false_iff_not, not_exists, not_and]
      constructor
      · intro hall a ha m hml hnl hc
        exact hnl (hall m ⟨a, ha, (mem_priors h a m).mpr ⟨hml, hc⟩⟩)
      · rintro hno m ⟨a, ha, hmp⟩
        obtain ⟨hml, hc⟩ := (mem_priors h a m).mp hmp
        refine Classical.byContradiction fun hnl => ?_
        exact hno a ha m hml hnl hc
    rw [this]
    cases arr.any fun a => l.any fun m => !(leaving.contains m) && clash m a <;> rfl
  · simp

theorem done_inv {lk : Lookup} {l : List Pred} (h : LInv lk l) (arr leaving l' : List Pred)
    (hlv : ∀ x ∈ leaving, x ∈ l)
    (hm : ∀ x, x ∈ l' ↔ (x ∈ l ∧ x ∉ leaving) ∨ x ∈ arr)
    (hc : Spec.clashes predSig l arr leaving = false) : LInv (done lk arr leaving) l' := by
  have hS : predSig.clash = clash := rfl
  simp only [Spec.clashes, hS, Bool.or_eq_false_iff, List.any_eq_false, List.any_eq_true,
    Bool.and_eq_true, Bool.not_eq_true', List.contains_eq_mem, decide_eq_false_iff_not,
    not_exists, not_and, Bool.not_eq_true] at hc
  obtain ⟨hc1, hc2⟩ := hc
  -- staying member vs arriving: no clash; arriving vs arriving: no clash
  have hstay : ∀ m ∈ l, m ∉ leaving → ∀ a ∈ arr, clash m a = false := fun m hm hn a ha => hc1 a ha m hm hn
  have harr : ∀ a ∈ arr, ∀ b ∈ arr, clash a b = false := fun a ha b hb => hc2 a ha b hb
  refine ⟨?_, ?_⟩
  · intro r p
    unfold done
    obtain ⟨s1, s2⟩ := lget_setAll arr (leaving.foldl (fun lk p => (keys p).foldl lpop lk) lk) r
    constructor
    · intro hg
      by_cases hex : ∃ a ∈ arr, r ∈ keys a
      · obtain ⟨a, ha, hk, hga⟩ := s1 hex
        have : a = p := by simpa using hga.symm.trans hg
        subst this
        exact ⟨(hm a).mpr (.inr ha), hk⟩
      · rw [s2 hex, lget_popAll] at hg
        by_cases hlv' : ∃ q ∈ leaving, r ∈ keys q
        · simp [hlv'] at hg
        · simp only [hlv', ↓reduceIte] at hg
          obtain ⟨hpl, hk⟩ := (h.lookup r p).mp hg
          exact ⟨(hm p).mpr (.inl ⟨hpl, fun hpv => hlv' ⟨p, hpv, hk⟩⟩), hk⟩
    · rintro ⟨hpl, hk⟩
      rcases (hm p).mp hpl with ⟨hpl, hpn⟩ | hpa
      · by_cases hpa : p ∈ arr
        · obtain ⟨a, ha, hka, hga⟩ := s1 ⟨p, hpa, hk⟩
          rcases keys_share hka hk with he | he
          · exact he ▸ hga
          · rw [harr a ha p hpa] at he; exact Bool.noConfusion he
        · have hex : ¬ ∃ a ∈ arr, r ∈ keys a := by
            rintro ⟨a, ha, hka⟩
            rcases keys_share hk hka with he | he
            · exact hpa (he ▸ ha)
            · rw [hstay p hpl hpn a ha] at he; exact Bool.noConfusion he
          rw [s2 hex, lget_popAll]
          have hlv' : ¬ ∃ q ∈ leaving, r ∈ keys q := by
            rintro ⟨q, hq, hkq⟩
            rcases keys_share hk hkq with he | he
            · exact hpn (he ▸ hq)
            · rw [h.noclash p hpl q (hlv q hq)] at he; exact Bool.noConfusion he
          simp only [hlv', ↓reduceIte]
          exact (h.lookup r p).mpr ⟨hpl, hk⟩
      · obtain ⟨a, ha, hka, hga⟩ := s1 ⟨p, hpa, hk⟩
        rcases keys_share hka hk with he | he
        · exact he ▸ hga
        · rw [harr a ha p hpa] at he; exact Bool.noConfusion he
  · intro a ha b hb
    rcases (hm a).mp ha with ⟨hal, han⟩ | haa <;> rcases (hm b).mp hb with ⟨hbl, hbn⟩ | hba
    · exact h.noclash a hal b hbl
    · exact hstay a hal han b hba
    · rw [clash_symm]; exact hstay b hbl hbn a haa
    · exact harr a haa b hba

/-- the hooks of `Predicates` are correct w.r.t. the specification signature -/
theorem hooksOK : HooksOK hooks predSig LInv where
  init := ⟨fun r p => by simp [hooks, lget_nil], fun a ha => by simp at ha⟩
  toRef := rfl
  rawRef := rfl
  refEq := rfl
  le := rfl
  hasSort := rfl
  hasWedge := rfl
  toRef_keys v m := self_mem_keys_iff v m
  has_eq h _ r := has_eq h r
  check_eq h _ arr leaving _ := check_eq h arr leaving
  done_inv h _ arr leaving l' hlv _ _ hm hc := done_inv h arr leaving l' hlv hm hc
  clear _ := ⟨fun r p => by simp [hooks, lget_nil], fun a ha => by simp at ha⟩
  congr h hiff :=
    ⟨fun r p => (h.lookup r p).trans (by rw [hiff]),
     fun a ha b hb => h.noclash a ((hiff a).mpr ha) b ((hiff b).mpr hb)⟩

end Preds
end Ptx.Cont
