/-
  Ptx.Proofs.LibModelData — the export `getData` against the evaluator and against the model's
  worlds / access relation.
-/
import Ptx.Proofs.LibModelIdent
import Ptx.Proofs.LibModelSort
namespace Ptx.LibModel
open Ptx

/-! ### frames of the export -/

theorem getData_frames {L : LogicData} {m : Model} {w : Nat} {fd : FrameData} (h : (w, fd) ∈ (getData L m).frames) :
    fd = frameData L (frameD m w) := by
  unfold getData at h
  split at h
  · simp only [List.mem_singleton, Prod.mk.injEq] at h
    obtain ⟨rfl, rfl⟩ := h
    rfl
  · simp only [List.mem_map, Prod.mk.injEq] at h
    obtain ⟨w', _, rfl, rfl⟩ := h
    rfl

/-! ### atoms and opaques -/

theorem frameData_atomics {L : LogicData} {f : Frame} {a : Nat × Nat} {v : V} (h : (a, v) ∈ (frameData L f).atomics) :
    f.atomics.lookup a = some v := by
  simp only [frameData, List.mem_filterMap] at h
  obtain ⟨a', _, h⟩ := h
  cases hl : f.atomics.lookup a' with
  | none => simp [hl] at h
  | some v' => simp [hl] at h; obtain ⟨rfl, rfl⟩ := h; exact hl

theorem frameData_atomics_listed {L : LogicData} {f : Frame} {a : Nat × Nat} {v : V} (h : f.atomics.lookup a = some v) :
    (a, v) ∈ (frameData L f).atomics := by
  simp only [frameData, List.mem_filterMap]
  exact ⟨a, (mem_sortByKey _).2 (mem_akeys_of_lookup h), by simp [h]⟩

theorem frameData_opaques {L : LogicData} {f : Frame} {s : Sent} {v : V} (h : (s, v) ∈ (frameData L f).opaques) :
    f.opaques.lookup s = some v := by
  simp only [frameData, List.mem_filterMap] at h
  obtain ⟨a', _, h⟩ := h
  cases hl : f.opaques.lookup a' with
  | none => simp [hl] at h
  | some v' => simp [hl] at h; obtain ⟨rfl, rfl⟩ := h; exact hl

theorem frameData_opaques_listed {L : LogicData} {f : Frame} {s : Sent} {v : V} (h : f.opaques.lookup s = some v) :
    (s, v) ∈ (frameData L f).opaques := by
  simp only [frameData, List.mem_filterMap]
  exact ⟨s, (mem_sortByKey _).2 (mem_akeys_of_lookup h), by simp [h]⟩

theorem valueOf_atom {L : LogicData} {m : Model} (hfin : m.finished = true) {w : Nat}
    (hw : L.modal = true ∨ (m.frames.lookup w).isSome = true) (a : Nat × Nat) :
    valueOf L m (.atom a.1 a.2) w = .ok (((frameD m w).atomics.lookup a).getD L.T.unassigned) := by
  simp [valueOf, valueOfF, Sent.size, hfin, isOpaque, frameOf_ok hw, Except.map]

theorem valueOf_opaque {L : LogicData} {m : Model} (hfin : m.finished = true) {w : Nat}
    (hw : L.modal = true ∨ (m.frames.lookup w).isSome = true) {s : Sent} (hs : isOpaque L s = true) :
    valueOf L m s w = .ok (((frameD m w).opaques.lookup s).getD L.T.unassigned) := by
  unfold valueOf
  have : s.size = (s.size - 1) + 1 := by have := s.size_pos; omega
  rw [this]
  simp [valueOfF, hfin, hs, frameOf_ok hw, Except.map]

theorem valueOf_pred {L : LogicData} {m : Model} (hfin : m.finished = true) {w : Nat}
    (hw : L.modal = true ∨ (m.frames.lookup w).isSome = true) (p : Pred) {t : Tup} (ht : tupInConsts m t = true) :
    valueOf L m (.pred p t) w = .ok ((((frameD m w).interp p).lookup t).getD L.T.unassigned) := by
  simp [valueOf, valueOfF, Sent.size, hfin, isOpaque, ht, frameOf_ok hw, Except.map]

theorem valueOf_pred_denotation {L : LogicData} {m : Model} (hfin : m.finished = true) {w : Nat} (p : Pred) {t : Tup}
    (ht : tupInConsts m t = false) : valueOf L m (.pred p t) w = .error .denotation := by
  simp [valueOf, valueOfF, Sent.size, hfin, isOpaque, ht]

/-! ### extensions -/

theorem frameData_preds {L : LogicData} {f : Frame} {pd : PredData} (h : pd ∈ (frameData L f).preds) :
    pd.pred ∈ akeys f.preds ∧
    pd.ext = sortByKey paramsKey (having (f.interp pd.pred) (knownVals L [.T, .B])) ∧
    pd.anti = if manyValued L then some (sortByKey paramsKey (having (f.interp pd.pred) (knownVals L [.B, .F]))) else none := by
  simp only [frameData, List.mem_map] at h
  obtain ⟨p, hp, rfl⟩ := h
  exact ⟨(mem_sortByKey _).1 hp, rfl, rfl⟩

theorem frameData_preds_listed {L : LogicData} {f : Frame} {p : Pred} (h : p ∈ akeys f.preds) :
    ∃ pd ∈ (frameData L f).preds, pd.pred = p := by
  simp only [frameData, List.mem_map]
  exact ⟨_, ⟨p, (mem_sortByKey _).2 h, rfl⟩, rfl⟩

theorem mem_knownVals {L : LogicData} {names : List V} {v : V} : v ∈ knownVals L names ↔ v ∈ names ∧ v ∈ L.T.vals := by
  simp [knownVals, hasVal]

theorem mem_ext_iff {L : LogicData} {f : Frame} {pd : PredData} (h : pd ∈ (frameData L f).preds) (t : Tup) :
    t ∈ pd.ext ↔ ∃ v, (f.interp pd.pred).lookup t = some v ∧ (v = .T ∨ v = .B) ∧ v ∈ L.T.vals := by
  rw [(frameData_preds h).2.1, mem_sortByKey, having_iff]
  constructor
  · rintro ⟨v, hv, hk⟩
    have := mem_knownVals.1 hk
    exact ⟨v, hv, by simpa using this.1, this.2⟩
  · rintro ⟨v, hv, h1, h2⟩
    exact ⟨v, hv, mem_knownVals.2 ⟨by simpa using h1, h2⟩⟩

theorem mem_anti_iff {L : LogicData} {f : Frame} {pd : PredData} (h : pd ∈ (frameData L f).preds) (hmv : manyValued L = true) :
    ∃ l, pd.anti = some l ∧ ∀ t, t ∈ l ↔ ∃ v, (f.interp pd.pred).lookup t = some v ∧ (v = .B ∨ v = .F) ∧ v ∈ L.T.vals := by
  refine ⟨_, by rw [(frameData_preds h).2.2, if_pos hmv], ?_⟩
  intro t
  rw [mem_sortByKey, having_iff]
  constructor
  · rintro ⟨v, hv, hk⟩
    have := mem_knownVals.1 hk
    exact ⟨v, hv, by simpa using this.1, this.2⟩
  · rintro ⟨v, hv, h1, h2⟩
    exact ⟨v, hv, mem_knownVals.2 ⟨by simpa using h1, h2⟩⟩

/-! ### sortedness -/

theorem frameData_sorted (L : LogicData) (f : Frame) :
    ((frameData L f).atomics.map (·.1)).Pairwise (KLe atomKey) ∧
    ((frameData L f).opaques.map (·.1)).Pairwise (KLe Sent.key) ∧
    ((frameData L f).preds.map (·.pred)).Pairwise (KLe Pred.key) ∧
    ∀ pd ∈ (frameData L f).preds, pd.ext.Pairwise (KLe paramsKey) ∧ ∀ l, pd.anti = some l → l.Pairwise (KLe paramsKey) := by
  refine ⟨?_, ?_, ?_, ?_⟩
  · simp only [frameData, List.map_filterMap]
    apply (sortByKey_sorted atomKey _).filterMap
    intro a a' haa b hb b' hb'
    cases h1 : f.atomics.lookup a <;> simp [h1] at hb
    cases h2 : f.atomics.lookup a' <;> simp [h2] at hb'
    subst hb hb'
    exact haa
  · simp only [frameData, List.map_filterMap]
    apply (sortByKey_sorted Sent.key _).filterMap
    intro a a' haa b hb b' hb'
    cases h1 : f.opaques.lookup a <;> simp [h1] at hb
    cases h2 : f.opaques.lookup a' <;> simp [h2] at hb'
    subst hb hb'
    exact haa
  · simp only [frameData, List.map_map]
    have : (fun p => (PredData.pred ∘ fun p =>
        ({ pred := p, ext := sortByKey paramsKey (having (f.interp p) (knownVals L [.T, .B])),
           anti := if manyValued L then some (sortByKey paramsKey (having (f.interp p) (knownVals L [.B, .F]))) else none } : PredData)) p)
        = id := by funext p; rfl
    simp only [Function.comp_def] at this ⊢
    simpa using sortByKey_sorted Pred.key (akeys f.preds)
  · intro pd hpd
    obtain ⟨_, h1, h2⟩ := frameData_preds hpd
    refine ⟨h1 ▸ sortByKey_sorted _ _, ?_⟩
    intro l hl
    rw [h2] at hl
    split at hl
    · cases hl; exact sortByKey_sorted _ _
    · cases hl

/-! ### worlds and access -/

theorem mem_worlds {L : LogicData} (hm : L.modal = true) {m : Model} {w : Nat} :
    w ∈ (getData L m).worlds ↔ w ∈ akeys m.frames := by
  simp [getData, hm, mem_sortByKey]

theorem mem_access {L : LogicData} (hm : L.modal = true) {m : Model} {p : Nat × Nat} :
    p ∈ (getData L m).access ↔ p.1 ∈ akeys m.frames ∧ p ∈ m.R.pairs := by
  obtain ⟨a, b⟩ := p
  simp only [getData, hm, Bool.not_true, Bool.false_eq_true, ↓reduceIte, List.mem_flatMap, List.mem_map,
    mem_sortByKey, Prod.mk.injEq, Acc.mem_succ]
  constructor
  · rintro ⟨w1, hw1, w2, h2, rfl, rfl⟩; exact ⟨hw1, h2⟩
  · rintro ⟨h1, h2⟩; exact ⟨a, h1, b, h2, rfl, rfl⟩

theorem worlds_sorted (L : LogicData) (m : Model) : (getData L m).worlds.Pairwise (· ≤ ·) := by
  unfold getData
  split
  · simp
  · exact sortNat_sorted _

/-- access pairs come out in lexicographic order (the frames' worlds being pairwise different) -/
theorem access_sorted (L : LogicData) (m : Model) (hnd : (akeys m.frames).Nodup) :
    (getData L m).access.Pairwise fun p q => p.1 ≤ q.1 ∧ (p.1 = q.1 → p.2 ≤ q.2) := by
  unfold getData
  split
  · simp
  · simp only
    rw [List.pairwise_flatMap]
    constructor
    · intro w1 _
      rw [List.pairwise_map]
      exact (sortNat_sorted _).imp fun h => ⟨Nat.le_refl _, fun _ => h⟩
    · have hw := sortNat_sorted (akeys m.frames)
      have hn : (sortByKey natKey (akeys m.frames)).Pairwise (· ≠ ·) :=
        ((sortByKey_perm natKey (akeys m.frames)).nodup_iff).2 hnd
      refine (hw.and hn).imp ?_
      intro a b hab x hx y hy
      obtain ⟨x2, _, rfl⟩ := List.mem_map.1 hx
      obtain ⟨y2, _, rfl⟩ := List.mem_map.1 hy
      exact ⟨hab.1, fun heq => absurd heq hab.2⟩

end Ptx.LibModel
