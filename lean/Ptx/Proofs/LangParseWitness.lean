/-
  Witness computations for C13: on the code WITHOUT the entry guard a digit run longer than the
  int() limit, and a nesting as deep as the available stack, leave the parser as ValueError /
  RecursionError.  Symbolic in the limit and in the fuel (no 4300-element `decide`).
-/
import Ptx.Proofs.LangParseBasic
namespace Ptx.Parse
open Ptx Ptx.Sym

theorem digitsLoop_replicate (t : ParseTable) (cd d : Nat) (h : t.lookup cd = some (.digit d)) :
    ∀ n b, digitsLoop t b (List.replicate n cd) = (List.replicate n d, []) := by
  intro n
  induction n with
  | zero => intro b; simp [digitsLoop]
  | succ n ih => intro b; simp [List.replicate_succ, digitsLoop, h, ih]

theorem chomp_replicate (t : ParseTable) (c : Nat) (h : t.lookup c ≠ some .ws) (n : Nat) :
    chomp t (List.replicate n c) = List.replicate n c := by
  cases n with
  | zero => simp [chomp]
  | succ n => simp [List.replicate_succ, chomp, h]

/-- `<atomic char> <digit char>×(limit+1)` on an unguarded Polish parser: `int()` raises
    ValueError after ALL input has been consumed, so `__exit__` does not mask it. -/
theorem polish_digit_run_crashes (cfg : Cfg) (ca cd i d : Nat) (store : Store) (fuel : Nat)
    (ha : cfg.table.lookup ca = some (.atom i)) (hd : cfg.table.lookup cd = some (.digit d))
    (hlim : cfg.intMaxDigits ≠ 0) (hg : cfg.guardEntry = false) :
    parsePolish cfg (fuel + 1) store (ca :: List.replicate (cfg.intMaxDigits + 1) cd)
      = .crash .value store := by
  have hca : cfg.table.lookup ca ≠ some .ws := by rw [ha]; simp
  have hcd : cfg.table.lookup cd ≠ some .ws := by rw [hd]; simp
  simp only [parsePolish, callDefault, chomp_cons_of_ne _ _ _ hca, readPolish, ha, readAtomic, readCoords,
    Tok.index?, advance, List.tail_cons, chomp_replicate _ _ hcd, readSubscript,
    digitsLoop_replicate _ _ _ hd, List.length_replicate]
  simp [hlim, exitCtx, chomp, guard, hg]

/-- `<unary operator char>×fuel` on an unguarded Polish parser: the `_read` that would look at
    the (absent) next character is the one that overflows the stack; nothing is left unread, so
    the RecursionError escapes. -/
theorem readPolish_nest (cfg : Cfg) (cn : Nat) (o : Op1) (hn : cfg.table.lookup cn = some (.op1 o)) :
    ∀ n b store, readPolish cfg n ⟨List.replicate n cn, b, store⟩ = .crash .recursion ⟨[], b, store⟩ := by
  have hcn : cfg.table.lookup cn ≠ some .ws := by rw [hn]; simp
  intro n
  induction n with
  | zero => intro b store; simp [readPolish]
  | succ n ih =>
    intro b store
    simp only [List.replicate_succ, readPolish, hn, advance, List.tail_cons, chomp_replicate _ _ hcn, ih,
      Res.andThen_crash]

theorem polish_nesting_crashes (cfg : Cfg) (cn : Nat) (o : Op1) (store : Store) (fuel : Nat)
    (hn : cfg.table.lookup cn = some (.op1 o)) (hg : cfg.guardEntry = false) :
    parsePolish cfg fuel store (List.replicate fuel cn) = .crash .recursion store := by
  have hcn : cfg.table.lookup cn ≠ some .ws := by rw [hn]; simp
  simp [parsePolish, callDefault, chomp_replicate _ _ hcn, readPolish_nest cfg cn o hn, exitCtx, chomp,
    guard, hg]

end Ptx.Parse
