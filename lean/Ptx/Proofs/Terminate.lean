/-
  Ptx.Proofs.Terminate — termination of the calculus on the propositional fragment (C03).

  Tableau measure:  μ(t) = Σ_{b open} (K+1)^{pot b},  pot b = Σ_{n unticked sentence node of b} c^{weight n},
  K = largest branching factor of the logic, c = 1 + largest number of nodes a rule branch adds.
  Every legal step that (i) applies a rule to an UNTICKED node, or (ii) closes a branch, strictly
  decreases μ on tableaux all of whose sentences are propositional; hence every such derivation
  from the trunk of a propositional argument has at most μ(trunk) steps — no limit ("quit") flag
  is ever needed to stop it.  See `C03_terminates_partial` for what is excluded and why.
-/
import Ptx.Proofs.Measure
import Ptx.Sem.TruthTable
namespace Ptx

/-! ### small list facts -/

theorem le_listMax : ∀ {xs : List Nat} {x : Nat}, x ∈ xs → x ≤ listMax xs
  | y :: ys, x, h => by
      simp only [listMax]
      cases h with
      | head => exact Nat.le_max_left _ _
      | tail _ h => exact Nat.le_trans (le_listMax h) (Nat.le_max_right _ _)

private theorem mapOpt_len {α β} {f : α → Option β} : ∀ {xs : List α} {ys : List β},
    mapOpt f xs = some ys → ys.length = xs.length
  | [], ys, h => by simp [mapOpt] at h; subst h; rfl
  | a :: xs, ys, h => by
      simp only [mapOpt] at h
      split at h
      · next y ys' _ hys => cases h; simp [mapOpt_len hys]
      · cases h

private theorem sum_map_le_length_mul {α} (f : α → Nat) (M : Nat) : ∀ (xs : List α), (∀ x ∈ xs, f x ≤ M) →
    (xs.map f).sum ≤ xs.length * M
  | [], _ => by simp
  | x :: xs, h => by
      have h1 := h x List.mem_cons_self
      have h2 := sum_map_le_length_mul f M xs (fun y hy => h y (List.mem_cons_of_mem _ hy))
      simp only [List.map_cons, List.sum_cons, List.length_cons, Nat.add_mul, Nat.one_mul]
      omega

private theorem sum_map_set {α} (f : α → Nat) : ∀ (t : List α) (i : Nat) (b b' : α), t[i]? = some b →
    ((t.set i b').map f).sum + f b = (t.map f).sum + f b'
  | [], i, b, b', h => by simp at h
  | x :: xs, 0, b, b', h => by
      simp at h; subst h
      simp only [List.set_cons_zero, List.map_cons, List.sum_cons]; omega
  | x :: xs, i + 1, b, b', h => by
      simp at h
      have := sum_map_set f xs i b b' h
      simp only [List.set_cons_succ, List.map_cons, List.sum_cons]; omega

/-! ### potentials -/

/-- potential of one node: `c ^ weight` for a sentence node, 0 for access nodes / flags -/
def Weights.nodePot (W : Weights) (c : Nat) : Node → Nat
  | .sent s d _ => c ^ W.node s d
  | _ => 0

/-- sum of the potentials of the nodes whose index (counted from `i`) is not ticked -/
def potFrom (W : Weights) (c : Nat) (tk : Nat → Bool) : Nat → List Node → Nat
  | _, [] => 0
  | i, n :: ns => (if tk i then 0 else W.nodePot c n) + potFrom W c tk (i + 1) ns

def Branch.pot (W : Weights) (c : Nat) (b : Branch) : Nat :=
  potFrom W c (fun i => b.ticked.contains i) 0 b.nodes

/-- an open branch counts `(K+1)^pot`, a closed branch nothing -/
def Branch.mu (W : Weights) (c K : Nat) (b : Branch) : Nat :=
  if b.closed then 0 else (K + 1) ^ b.pot W c

/-- the tableau measure -/
def tabMu (W : Weights) (c K : Nat) (t : Tableau) : Nat := (t.map (Branch.mu W c K)).sum

variable {W : Weights} {c : Nat}

theorem potFrom_append (tk : Nat → Bool) : ∀ (xs ys : List Node) (i : Nat),
    potFrom W c tk i (xs ++ ys) = potFrom W c tk i xs + potFrom W c tk (i + xs.length) ys
  | [], ys, i => by simp [potFrom]
  | x :: xs, ys, i => by
      have := potFrom_append tk xs ys (i + 1)
      simp only [List.cons_append, potFrom, this, List.length_cons]
      rw [show i + 1 + xs.length = i + (xs.length + 1) by omega]
      omega

theorem potFrom_le_sum (tk : Nat → Bool) : ∀ (ys : List Node) (i : Nat),
    potFrom W c tk i ys ≤ (ys.map (W.nodePot c)).sum
  | [], i => by simp [potFrom]
  | y :: ys, i => by
      have := potFrom_le_sum tk ys (i + 1)
      simp only [potFrom, List.map_cons, List.sum_cons]
      split <;> omega

theorem potFrom_congr {tk tk' : Nat → Bool} : ∀ (xs : List Node) (i : Nat),
    (∀ j, i ≤ j → tk j = tk' j) → potFrom W c tk i xs = potFrom W c tk' i xs
  | [], i, _ => by simp [potFrom]
  | x :: xs, i, h => by
      simp only [potFrom, h i (Nat.le_refl _),
        potFrom_congr xs (i + 1) (fun j hj => h j (by omega))]

/-- ticking an unticked node removes exactly its potential -/
theorem potFrom_tick (tk : Nat → Bool) (n : Nat) (nd : Node) (hn : tk n = false) :
    ∀ (xs : List Node) (i : Nat), i ≤ n → xs[n - i]? = some nd →
      potFrom W c (fun j => tk j || j == n) i xs + W.nodePot c nd = potFrom W c tk i xs
  | [], i, _, h => by simp at h
  | x :: xs, i, hi, h => by
      by_cases hni : n = i
      · subst hni
        simp at h; subst h
        have := potFrom_congr (W := W) (c := c) (tk := fun j => tk j || j == n) (tk' := tk) xs (n + 1)
          (fun j hj => by
            have : (j == n) = false := by simp; omega
            simp [this])
        simp only [potFrom, this, hn]
        simp
        omega
      · have h' : xs[n - (i + 1)]? = some nd := by
          have : n - i = (n - (i + 1)) + 1 := by omega
          rw [this] at h; simpa using h
        have ih := potFrom_tick tk n nd hn xs (i + 1) (by omega) h'
        have hin : (i == n) = false := by simp; omega
        simp only [potFrom, hin, Bool.or_false]
        omega

theorem nodePot_le_pot {b : Branch} {n : Nat} {nd : Node} (hnd : b.nodes[n]? = some nd)
    (hn : b.ticked.contains n = false) : W.nodePot c nd ≤ b.pot W c := by
  have := potFrom_tick (W := W) (c := c) (fun i => b.ticked.contains i) n nd hn b.nodes 0 (Nat.zero_le _) (by simpa using hnd)
  simp only [Branch.pot]; omega

/-- applying a ticking rule to unticked node `n`: the branch potential loses the node's potential and
    gains at most the potentials of the added nodes -/
theorem pot_extend_tick {b : Branch} {n : Nat} {nd : Node} (g : List Node) (hnd : b.nodes[n]? = some nd)
    (hn : b.ticked.contains n = false) :
    (b.extend g (some n)).pot W c + W.nodePot c nd ≤ b.pot W c + (g.map (W.nodePot c)).sum := by
  have htk : (fun i => (b.extend g (some n)).ticked.contains i) = (fun j => b.ticked.contains j || j == n) := by
    funext i
    have hn' : n ∉ b.ticked := by simpa using hn
    simp only [Branch.extend, hn', List.contains_eq_mem]
    congr 1
    by_cases h : i = n <;> simp [h]
  have h1 := potFrom_tick (W := W) (c := c) (fun i => b.ticked.contains i) n nd hn b.nodes 0 (Nat.zero_le _) (by simpa using hnd)
  have h2 := potFrom_le_sum (W := W) (c := c) (fun j => b.ticked.contains j || j == n) g (0 + b.nodes.length)
  simp only [Branch.pot, htk]
  simp only [Branch.extend, potFrom_append]
  omega

/-- the added nodes of one group weigh, together, less than the target -/
theorem group_pot_lt {N v : Nat} {g : List Node} (hlen : g.length ≤ N)
    (hw : ∀ s d w, Node.sent s d w ∈ g → W.node s d < v) :
    (g.map (W.nodePot (N + 1))).sum < (N + 1) ^ v := by
  have hpos : 0 < (N + 1) ^ v := Nat.pow_pos (Nat.succ_pos N)
  have hall : ∀ x ∈ g.map (W.nodePot (N + 1)), x * (N + 1) ≤ (N + 1) ^ v := by
    intro x hx
    obtain ⟨nd, hnd, rfl⟩ := List.mem_map.1 hx
    cases nd with
    | sent s d w =>
        have := hw s d w hnd
        simp only [Weights.nodePot]
        rw [← Nat.pow_succ]
        exact Nat.pow_le_pow_right (Nat.succ_pos N) this
    | access a b => simp [Weights.nodePot]
    | flag f => simp [Weights.nodePot]
    | ellipsis => simp [Weights.nodePot]
  have hsum : (g.map (W.nodePot (N + 1))).sum * (N + 1) ≤ g.length * (N + 1) ^ v := by
    have := sum_map_le_length_mul (fun x => x * (N + 1)) ((N + 1) ^ v) (g.map (W.nodePot (N + 1))) hall
    simp only [List.length_map] at this
    refine Nat.le_trans (Nat.le_of_eq ?_) this
    clear this hall hw hlen
    induction g with
    | nil => simp
    | cons x xs ih => simp only [List.map_cons, List.sum_cons, Nat.add_mul, ih]
  have h3 : g.length * (N + 1) ^ v ≤ N * (N + 1) ^ v := Nat.mul_le_mul_right _ hlen
  have h4 : N * (N + 1) ^ v < (N + 1) ^ v * (N + 1) := by
    rw [Nat.mul_comm ((N + 1) ^ v), Nat.add_mul, Nat.one_mul]; omega
  exact Nat.lt_of_mul_lt_mul_right (Nat.lt_of_le_of_lt (Nat.le_trans hsum h3) h4)


/-! ### the propositional invariant -/

/-- every sentence on the tableau is propositional -/
def Tableau.allProp (t : Tableau) : Prop :=
  ∀ b ∈ t, ∀ s d w, Node.sent s d w ∈ b.nodes → s.isProp = true

theorem isProp_inst {whole l : Sent} {r raw : Option Sent} {var : Nat × Nat}
    (hw : whole.isProp = true) (hl : l.isProp = true) (hr : ∀ r', r = some r' → r'.isProp = true) :
    ∀ (t : Tm) (s' : Sent), t.isTFB = true → t.inst whole l r raw var = some s' → s'.isProp = true := by
  intro t
  induction t with
  | lhs => intro s' _ h; simp [Tm.inst] at h; subst h; exact hl
  | rhs => intro s' _ h; simp only [Tm.inst] at h; exact hr s' h
  | whole => intro s' _ h; simp [Tm.inst] at h; subst h; exact hw
  | raw => intro s' ht; simp [Tm.isTFB] at ht
  | bind q t _ => intro s' ht; simp [Tm.isTFB] at ht
  | op1 o t ih =>
      intro s' ht h
      simp only [Tm.isTFB, Bool.and_eq_true] at ht
      simp only [Tm.inst, Option.map_eq_some_iff] at h
      obtain ⟨a, ha, rfl⟩ := h
      simp [Sent.isProp, ht.1, ih a ht.2 ha]
  | op2 o t u iht ihu =>
      intro s' ht h
      simp only [Tm.isTFB, Bool.and_eq_true] at ht
      simp only [Tm.inst, bind, Option.bind_eq_some_iff, Option.some.injEq] at h
      obtain ⟨a, ha, c, hc, rfl⟩ := h
      simp [Sent.isProp, iht a ht.1 ha, ihu c ht.2 hc]

/-- a propositional node's key is a truth-functional row; compound and operands are propositional -/
theorem isProp_decomp {s whole : Sent} {sh : Shape} {ng : Bool} (hp : s.isProp = true)
    (hd : s.decomp = some (sh, ng, whole)) (d : Option Bool) :
    RuleKey.isTF ⟨sh, ng, d⟩ = true ∧ whole.isProp = true ∧
      (∀ l0, whole.lhs? = some l0 → l0.isProp = true) ∧ (∀ r', whole.rhs? = some r' → r'.isProp = true) := by
  obtain ⟨hs, hsh⟩ := Sent.decomp_spec hd
  have hw : whole.isProp = true := by
    cases ng with
    | false => simpa [hs] using hp
    | true => rw [hs] at hp; simp [Sent.isProp] at hp; exact hp.2
  refine ⟨?_, hw, ?_, ?_⟩
  · cases whole <;> simp [Shape.of] at hsh <;> subst hsh <;> simp [Sent.isProp] at hw <;> simp [RuleKey.isTF, hw]
  · intro l0 h; cases whole <;> simp [Sent.lhs?] at h <;> subst h <;> simp [Sent.isProp] at hw <;> simp [hw]
  · intro r' h; cases whole <;> simp [Sent.rhs?] at h <;> subst h <;> simp [Sent.isProp] at hw <;> simp [hw]

theorem LogicData.ruleGroups_eq {L : LogicData} {b : Branch} {s : Sent} {d : Option Bool} {w : Option Nat}
    {c : Option (Nat × Nat)} {wo : Option Nat} {r : Rule} {gs : List (List Node)}
    (hg : L.ruleGroups b s d w c wo = some (r, gs)) :
    ∃ sh ng whole l0, s.decomp = some (sh, ng, whole) ∧ L.rule? ⟨sh, ng, d⟩ = some r ∧
      whole.lhs? = some l0 ∧ witnessGroups b whole l0 w c wo r = some gs := by
  unfold LogicData.ruleGroups at hg
  split at hg
  · cases hg
  · next sh ng whole hd =>
    split at hg
    · next r0 l0 hrule hl0 =>
      split at hg
      · cases hg
      · split at hg
        · next gs0 hwg =>
          simp only [Option.some.injEq, Prod.mk.injEq] at hg
          obtain ⟨rfl, rfl⟩ := hg
          exact ⟨sh, ng, whole, l0, hd, hrule, hl0, hwg⟩
        · cases hg
    · cases hg

/-- what `tfRowsOKB` says about one truth-functional row -/
theorem LogicData.tfRow {L : LogicData} (h : L.tfRowsOKB = true) {k : RuleKey} {r : Rule}
    (hr : L.rule? k = some r) (hk : k.isTF = true) :
    r.ticks = true ∧ r.witness = .none ∧
      ∀ br ∈ r.branches, ∀ a ∈ br, ∃ n : NodeT, a = .node n ∧ n.tm.isTFB = true ∧ n.other = false := by
  simp only [LogicData.tfRowsOKB, List.all_eq_true] at h
  have := h _ (LogicData.rule?_mem hr)
  simp only [hk, Bool.not_true, Bool.false_or, Bool.and_eq_true, List.all_eq_true, beq_iff_eq] at this
  refine ⟨this.1.1, this.1.2, fun br hbr a ha => ?_⟩
  have := this.2 br hbr a ha
  cases a with
  | access => simp at this
  | node n => simp only [Bool.and_eq_true, Bool.not_eq_true'] at this; exact ⟨n, rfl, this.1, this.2⟩

theorem LogicData.branches_le {L : LogicData} {k : RuleKey} {r : Rule} (hr : L.rule? k = some r) :
    r.branches.length ≤ L.maxBranching ∧ ∀ br ∈ r.branches, br.length ≤ L.maxGroup := by
  have hm := LogicData.rule?_mem hr
  constructor
  · refine Nat.le_trans (le_listMax (List.mem_map.2 ⟨(k, r), hm, rfl⟩)) (Nat.le_max_right _ _)
  · intro br hbr
    exact le_listMax (List.mem_flatMap.2 ⟨(k, r), hm, List.mem_map.2 ⟨br, hbr, rfl⟩⟩)

/-! ### one step -/

theorem mu_le_of_pot_lt {K p : Nat} {b' : Branch} (h : b'.pot W c < p) : b'.mu W c K ≤ (K + 1) ^ (p - 1) := by
  simp only [Branch.mu]
  split
  · exact Nat.zero_le _
  · exact Nat.pow_le_pow_right (Nat.succ_pos K) (by omega)

theorem closeB_closed (b : Branch) : (closeB b).closed = true := by
  simp [closeB, Branch.extend, Branch.closed, Node.isClosure]

theorem allProp_set {t : Tableau} {i : Nat} {b' : Branch} (ht : t.allProp)
    (hb : ∀ s d w, Node.sent s d w ∈ b'.nodes → s.isProp = true) : Tableau.allProp (t.set i b') := by
  intro b hbm
  rcases List.mem_or_eq_of_mem_set hbm with h | h
  · exact ht b h
  · subst h; exact hb

/-- closing a branch removes its (positive) contribution -/
theorem close_decreases {K : Nat} {t : Tableau} {bi : Nat} {b : Branch} (hb : t[bi]? = some b)
    (hopen : b.closed = false) (ht : t.allProp) :
    tabMu W c K (t.set bi (closeB b)) < tabMu W c K t ∧ Tableau.allProp (t.set bi (closeB b)) := by
  constructor
  · have := sum_map_set (Branch.mu W c K) t bi b (closeB b) hb
    have h1 : (closeB b).mu W c K = 0 := by simp [Branch.mu, closeB_closed]
    have h2 : 0 < b.mu W c K := by simp [Branch.mu, hopen]; exact Nat.pow_pos (Nat.succ_pos K)
    simp only [tabMu]; omega
  · refine allProp_set ht ?_
    intro s d w hm
    simp only [closeB, Branch.extend, List.mem_append, List.mem_singleton] at hm
    rcases hm with hm | hm
    · exact ht b (List.mem_of_getElem? hb) s d w hm
    · cases hm


/-- a group of a truth-functional row on a propositional node: short, propositional, lighter -/
theorem tf_group {L : LogicData} (hm : L.measureOKOnB RuleKey.isTF W = true) (hrows : L.tfRowsOKB = true)
    {b : Branch} {s : Sent} {d : Option Bool} {w : Option Nat} {cw : Option (Nat × Nat)} {wo : Option Nat}
    {r : Rule} {gs : List (List Node)} (hp : s.isProp = true)
    (hg : L.ruleGroups b s d w cw wo = some (r, gs)) :
    r.ticks = true ∧ gs.length ≤ L.maxBranching ∧
    ∀ g ∈ gs, g.length ≤ L.maxGroup ∧
      (∀ s' d' w', Node.sent s' d' w' ∈ g → s'.isProp = true ∧ W.node s' d' < W.node s d) := by
  obtain ⟨sh, ng, whole, l0, hd, hrule, hl0, hwg⟩ := LogicData.ruleGroups_eq hg
  obtain ⟨hk, hwp, hlp, hrp⟩ := isProp_decomp hp hd d
  obtain ⟨hticks, hwit, hadds⟩ := LogicData.tfRow hrows hrule hk
  obtain ⟨hK, hN⟩ := LogicData.branches_le hrule
  have hmap : mapOpt (instAdds whole l0 whole.rhs? whole.qraw whole.qvar w none) r.branches = some gs := by
    have := witnessGroups_instGroups hwg
    simpa [instGroups, hwit] using this
  refine ⟨hticks, by rw [mapOpt_len hmap]; exact hK, fun g hgm => ?_⟩
  obtain ⟨br, hbr, hinst⟩ := mapOpt_mem_bwd hmap g hgm
  refine ⟨by rw [show g.length = br.length from mapOpt_len hinst]; exact hN br hbr, fun s' d' w' hn => ⟨?_, ?_⟩⟩
  · obtain ⟨n, hnb, _, htm⟩ := instAdds_sent hinst hn
    obtain ⟨n', hn', htf, _⟩ := hadds br hbr _ hnb
    cases hn'
    exact isProp_inst hwp (hlp l0 hl0) hrp n.tm s' htf htm
  · exact weight_decreases_step_on hm hg (fun sh' ng' whole' hd' => by
      rw [hd] at hd'; simp only [Option.some.injEq, Prod.mk.injEq] at hd'
      obtain ⟨rfl, rfl, rfl⟩ := hd'; exact hk) hgm hn

/-- applying a rule to an unticked propositional node strictly decreases the tableau measure -/
theorem rule_step_decreases {L : LogicData} (hm : L.measureOKOnB RuleKey.isTF W = true)
    (hrows : L.tfRowsOKB = true) {t : Tableau} (ht : t.allProp) {bi : Nat} {b : Branch}
    (hb : t[bi]? = some b) (hopen : b.closed = false)
    {n : Nat} {s : Sent} {d : Option Bool} {w : Option Nat} {cw : Option (Nat × Nat)} {wo : Option Nat}
    (hnd : b.nodes[n]? = some (.sent s d w)) (hn : b.ticked.contains n = false)
    {r : Rule} {g0 : List Node} {rest : List (List Node)}
    (hg : L.ruleGroups b s d w cw wo = some (r, g0 :: rest)) :
    let tick := if r.ticks then some n else none
    let t' := t.fork bi (b.extend g0 tick) (rest.map fun g => { (b.extend g tick) with parent := some bi })
    tabMu W (L.maxGroup + 1) L.maxBranching t' < tabMu W (L.maxGroup + 1) L.maxBranching t ∧ t'.allProp := by
  intro tick t'
  have hbm : b ∈ t := List.mem_of_getElem? hb
  have hp : s.isProp = true := ht b hbm s d w (List.mem_of_getElem? hnd)
  obtain ⟨hticks, hK, hgs⟩ := tf_group hm hrows hp hg
  have htick : tick = some n := by simp [tick, hticks]
  -- every new branch has a smaller potential
  have hpot : ∀ g ∈ g0 :: rest, (b.extend g tick).pot W (L.maxGroup + 1) < b.pot W (L.maxGroup + 1) := by
    intro g hgm
    obtain ⟨hlen, hnodes⟩ := hgs g hgm
    have h1 := group_pot_lt (W := W) (v := W.node s d) hlen (fun s' d' w' h => (hnodes s' d' w' h).2)
    have h2 := pot_extend_tick (W := W) (c := L.maxGroup + 1) g hnd hn
    rw [htick]
    simp only [Weights.nodePot] at h2
    omega
  have hprop : ∀ g ∈ g0 :: rest, ∀ s' d' w', Node.sent s' d' w' ∈ (b.extend g tick).nodes → s'.isProp = true := by
    intro g hgm s' d' w' h
    simp only [Branch.extend, List.mem_append] at h
    rcases h with h | h
    · exact ht b hbm s' d' w' h
    · exact ((hgs g hgm).2 s' d' w' h).1
  constructor
  · -- arithmetic
    let K := L.maxBranching
    let p := b.pot W (L.maxGroup + 1)
    have hp1 : 1 ≤ p := by
      have := nodePot_le_pot (W := W) (c := L.maxGroup + 1) hnd hn
      have h0 : 0 < (L.maxGroup + 1) ^ W.node s d := Nat.pow_pos (Nat.succ_pos _)
      simp only [Weights.nodePot] at this
      omega
    have hX : 0 < (K + 1) ^ (p - 1) := Nat.pow_pos (Nat.succ_pos K)
    have hpow : (K + 1) ^ p = K * (K + 1) ^ (p - 1) + (K + 1) ^ (p - 1) := by
      have : p = (p - 1) + 1 := by omega
      rw [this, Nat.pow_succ, Nat.mul_comm, Nat.add_mul, Nat.one_mul]
      simp
    have hb0 : (b.extend g0 tick).mu W (L.maxGroup + 1) K ≤ (K + 1) ^ (p - 1) :=
      mu_le_of_pot_lt (hpot g0 List.mem_cons_self)
    have hextra : ((rest.map fun g => ({ (b.extend g tick) with parent := some bi } : Branch)).map
        (Branch.mu W (L.maxGroup + 1) K)).sum ≤ rest.length * (K + 1) ^ (p - 1) := by
      have := sum_map_le_length_mul (Branch.mu W (L.maxGroup + 1) K) ((K + 1) ^ (p - 1))
        (rest.map fun g => ({ (b.extend g tick) with parent := some bi } : Branch)) (by
          intro b' hb'
          obtain ⟨g, hgm, rfl⟩ := List.mem_map.1 hb'
          have := hpot g (List.mem_cons_of_mem _ hgm)
          exact mu_le_of_pot_lt (b' := { (b.extend g tick) with parent := some bi }) this)
      simpa using this
    have hset := sum_map_set (Branch.mu W (L.maxGroup + 1) K) t bi b (b.extend g0 tick) hb
    have hmub : b.mu W (L.maxGroup + 1) K = (K + 1) ^ p := by simp [Branch.mu, hopen, p]
    have hcount : (rest.length + 1) * (K + 1) ^ (p - 1) ≤ K * (K + 1) ^ (p - 1) :=
      Nat.mul_le_mul_right _ (by simpa using hK)
    rw [Nat.add_mul, Nat.one_mul] at hcount
    simp only [tabMu, t', Tableau.fork, List.map_append, List.sum_append]
    simp only [K] at *
    omega
  · intro b' hb'
    simp only [t', Tableau.fork, List.mem_append] at hb'
    rcases hb' with hb' | hb'
    · rcases List.mem_or_eq_of_mem_set hb' with h | h
      · exact ht b' h
      · subst h; exact hprop g0 List.mem_cons_self
    · obtain ⟨g, hgm, rfl⟩ := List.mem_map.1 hb'
      exact hprop g (List.mem_cons_of_mem _ hgm)

/-! ### derivations -/

/-- the steps the termination theorem is about: a rule applied to a node that is NOT yet ticked,
    and the closure rules.  Excluded: frame rules and limit flags (`quit`) — in the calculus model
    both may be repeated at will (the model has no "already there" guard: that is the scheduler's
    business), so no measure can decrease under them. -/
def Step.freshOn (t : Tableau) : Step → Bool
  | .rule b n _ _ =>
      match t[b]? with
      | some br => !br.ticked.contains n
      | none => false
  | .close .. => true
  | .closeIdent .. => true
  | .ident .. => true
  | .frame .. => false
  | .quit .. => false

/-- replay a list of steps, each of which must be legal AND fresh -/
def replayFresh (L : LogicData) : Tableau → List Step → Option Tableau
  | t, [] => some t
  | t, s :: ss => if s.freshOn t then (applyStep L t s).bind (replayFresh L · ss) else none

theorem replayFresh_replay {L : LogicData} : ∀ (ss : List Step) {t t' : Tableau},
    replayFresh L t ss = some t' → replay L t ss = some t'
  | [], t, t', h => by simpa [replayFresh, replay] using h
  | s :: ss, t, t', h => by
      simp only [replayFresh] at h
      split at h
      · simp only [replay]
        cases hs : applyStep L t s with
        | none => simp [hs] at h
        | some t1 => simp only [hs, Option.bind_some] at h ⊢; exact replayFresh_replay ss h
      · cases h

/-- one legal fresh step on a propositional tableau strictly decreases the measure -/
theorem fresh_step_decreases {L : LogicData} (hm : L.measureOKOnB RuleKey.isTF W = true)
    (hrows : L.tfRowsOKB = true) {t t' : Tableau} (ht : t.allProp) {st : Step}
    (hf : st.freshOn t = true) (hs : applyStep L t st = some t') :
    tabMu W (L.maxGroup + 1) L.maxBranching t' < tabMu W (L.maxGroup + 1) L.maxBranching t ∧ t'.allProp := by
  unfold applyStep at hs
  split at hs
  · cases hs
  · next b hb =>
    split at hs
    · cases hs
    · next hopen =>
      have hopen : b.closed = false := by simpa using hopen
      cases st with
      | rule bi n cw wo =>
          simp only [Step.branch] at hb hs
          simp only [Step.freshOn, hb, Bool.not_eq_true'] at hf
          simp only [applyAt] at hs
          split at hs
          · next s d w hnd =>
            split at hs
            · next r g0 rest hg =>
              simp only [Option.some.injEq] at hs
              subst hs
              exact rule_step_decreases hm hrows ht hb hopen hnd hf hg
            · cases hs
          · cases hs
      | close bi s w =>
          simp only [Step.branch] at hb hs
          simp only [applyAt] at hs
          split at hs
          · cases hs; exact close_decreases hb hopen ht
          · cases hs
      | closeIdent bi n =>
          simp only [Step.branch] at hb hs
          simp only [applyAt] at hs
          split at hs
          · split at hs
            · cases hs; exact close_decreases hb hopen ht
            · cases hs
          · cases hs
      | frame bi r w1 w2 w3 => simp [Step.freshOn] at hf
      | quit bi name tick => simp [Step.freshOn] at hf
      | ident bi i p =>
          -- impossible: the identity rule needs a predication node
          exfalso
          simp only [Step.branch] at hb hs
          simp only [applyAt] at hs
          split at hs
          · cases hs
          · split at hs
            · next ni np hi hp =>
              split at hs
              · next nd hid =>
                have hni : ni ∈ b.nodes := List.mem_of_getElem? hi
                unfold identAdd at hid
                split at hid
                · next q pa pb w0 pr ps w1 =>
                  have := ht b (List.mem_of_getElem? hb) _ _ _ hni
                  simp [Sent.isProp] at this
                · cases hid
              · cases hs
            · cases hs

/-- **termination**: a derivation by legal fresh steps is no longer than the measure it starts from -/
theorem replayFresh_length {L : LogicData} (hm : L.measureOKOnB RuleKey.isTF W = true)
    (hrows : L.tfRowsOKB = true) : ∀ (ss : List Step) {t t' : Tableau}, t.allProp →
    replayFresh L t ss = some t' →
    ss.length + tabMu W (L.maxGroup + 1) L.maxBranching t' ≤ tabMu W (L.maxGroup + 1) L.maxBranching t ∧ t'.allProp
  | [], t, t', ht, h => by
      simp [replayFresh] at h; subst h; exact ⟨by simp, ht⟩
  | s :: ss, t, t', ht, h => by
      simp only [replayFresh] at h
      split at h
      · next hf =>
        cases hs : applyStep L t s with
        | none => simp [hs] at h
        | some t1 =>
          simp only [hs, Option.bind_some] at h
          obtain ⟨hlt, ht1⟩ := fresh_step_decreases hm hrows ht hf hs
          obtain ⟨hle, ht'⟩ := replayFresh_length hm hrows ss ht1 h
          exact ⟨by simp only [List.length_cons]; omega, ht'⟩
      · cases h

theorem trunk_allProp (L : LogicData) {arg : Argument} (hp : arg.isProp = true) : (trunk L arg).allProp := by
  simp only [Argument.isProp, Bool.and_eq_true, List.all_eq_true] at hp
  intro b hb s d w hn
  simp only [trunk, List.mem_singleton] at hb
  subst hb
  simp only [List.mem_append, List.mem_map, List.mem_singleton] at hn
  rcases hn with ⟨p, hpm, hpe⟩ | hn
  · cases hpe; exact hp.1 _ hpm
  · cases hn
    split
    · simp [Sent.neg, Sent.isProp, Op1.isModal, hp.2]
    · exact hp.2

/-- the bound: the measure of the trunk -/
def termBound (L : LogicData) (W : Weights) (arg : Argument) : Nat :=
  tabMu W (L.maxGroup + 1) L.maxBranching (trunk L arg)

theorem terminates_prop {L : LogicData} (hm : L.measureOKOnB RuleKey.isTF W = true)
    (hrows : L.tfRowsOKB = true) {arg : Argument} (hp : arg.isProp = true)
    {ss : List Step} {t : Tableau} (h : replayFresh L (trunk L arg) ss = some t) :
    ss.length ≤ termBound L W arg ∧ t.allProp := by
  obtain ⟨hle, ht⟩ := replayFresh_length hm hrows ss (trunk_allProp L hp) h
  exact ⟨by simp only [termBound]; omega, ht⟩


/-! ### no limit flag appears -/

/-- no branch carries a limit ("quit") flag -/
def Tableau.noQuit (t : Tableau) : Prop := ∀ b ∈ t, b.hasQuit = false

theorem hasQuit_extend {b : Branch} {g : List Node} {tick : Option Nat} (hb : b.hasQuit = false)
    (hg : ∀ x ∈ g, ∀ name, x = Node.flag name → name = "closure") : (b.extend g tick).hasQuit = false := by
  simp only [Branch.hasQuit, Branch.extend, List.any_append, Bool.or_eq_false_iff] at hb ⊢
  refine ⟨hb, ?_⟩
  rw [List.any_eq_false]
  intro x hx
  cases x with
  | flag name => simp [hg _ hx name rfl]
  | sent s d w => simp
  | access a c => simp
  | ellipsis => simp

theorem instAdds_noflag {whole l : Sent} {r raw : Option Sent} {var : Nat × Nat} {w wo : Option Nat}
    {br : List AddT} {g : List Node} (h : instAdds whole l r raw var w wo br = some g) :
    ∀ x ∈ g, ∀ name, x = Node.flag name → name = "closure" := by
  intro x hx name hxe
  subst hxe
  obtain ⟨a, _, hf⟩ := mapOpt_mem_bwd h _ hx
  exfalso
  revert hf
  cases a with
  | access => cases w <;> cases wo <;> simp
  | node n =>
      simp only
      cases n.tm.inst whole l r raw var with
      | none => simp
      | some s0 => cases n.other <;> cases wo <;> simp

theorem instGroups_noflag {whole l0 : Sent} {w : Option Nat} {cw : Option (Nat × Nat)} {wo : Option Nat}
    {r : Rule} {gs : List (List Node)} (h : instGroups whole l0 w cw wo r = some gs) {g : List Node}
    (hgm : g ∈ gs) : ∀ x ∈ g, ∀ name, x = Node.flag name → name = "closure" := by
  unfold instGroups at h
  split at h
  · obtain ⟨br, _, hi⟩ := mapOpt_mem_bwd h g hgm; exact instAdds_noflag hi
  · split at h
    · obtain ⟨br, _, hi⟩ := mapOpt_mem_bwd h g hgm; exact instAdds_noflag hi
    · cases h
  · split at h
    · obtain ⟨br, _, hi⟩ := mapOpt_mem_bwd h g hgm; exact instAdds_noflag hi
    · cases h
  · split at h
    · obtain ⟨br, _, hi⟩ := mapOpt_mem_bwd h g hgm; exact instAdds_noflag hi
    · cases h
  · split at h
    · obtain ⟨br, _, hi⟩ := mapOpt_mem_bwd h g hgm; exact instAdds_noflag hi
    · cases h

theorem noQuit_set {t : Tableau} {i : Nat} {b' : Branch} (ht : t.noQuit) (hb : b'.hasQuit = false) :
    Tableau.noQuit (t.set i b') := by
  intro b hbm
  rcases List.mem_or_eq_of_mem_set hbm with h | h
  · exact ht b h
  · subst h; exact hb

/-- legal fresh steps never put a limit flag on a branch (in ANY logic, on any tableau) -/
theorem fresh_step_noQuit {L : LogicData} {t t' : Tableau} (ht : t.noQuit) {st : Step}
    (hf : st.freshOn t = true) (hs : applyStep L t st = some t') : t'.noQuit := by
  unfold applyStep at hs
  split at hs
  · cases hs
  · next b hb =>
    have hbq := ht b (List.mem_of_getElem? hb)
    have hclose : (closeB b).hasQuit = false :=
      hasQuit_extend hbq (by intro x hx name h; simp at hx; subst hx; cases h; rfl)
    split at hs
    · cases hs
    · cases st with
      | rule bi n cw wo =>
          simp only [Step.branch] at hb hs
          simp only [applyAt] at hs
          split at hs
          · next s d w hnd =>
            split at hs
            · next r g0 rest hg =>
              simp only [Option.some.injEq] at hs
              subst hs
              obtain ⟨sh, ng, whole, l0, _, _, _, hwg⟩ := LogicData.ruleGroups_eq hg
              have hig := witnessGroups_instGroups hwg
              intro b' hb'
              simp only [Tableau.fork, List.mem_append] at hb'
              rcases hb' with hb' | hb'
              · exact noQuit_set ht (hasQuit_extend hbq (instGroups_noflag hig List.mem_cons_self)) b' hb'
              · obtain ⟨g, hgm, rfl⟩ := List.mem_map.1 hb'
                have := hasQuit_extend (b := b) (tick := if r.ticks then some n else none) hbq
                  (instGroups_noflag hig (List.mem_cons_of_mem _ hgm))
                simpa [Branch.hasQuit] using this
            · cases hs
          · cases hs
      | close bi s w =>
          simp only [Step.branch] at hb hs
          simp only [applyAt] at hs
          split at hs
          · cases hs; exact noQuit_set ht hclose
          · cases hs
      | closeIdent bi n =>
          simp only [Step.branch] at hb hs
          simp only [applyAt] at hs
          split at hs
          · split at hs
            · cases hs; exact noQuit_set ht hclose
            · cases hs
          · cases hs
      | frame bi r w1 w2 w3 => simp [Step.freshOn] at hf
      | quit bi name tick => simp [Step.freshOn] at hf
      | ident bi i p =>
          simp only [Step.branch] at hb hs
          simp only [applyAt] at hs
          split at hs
          · cases hs
          · split at hs
            · next ni np hi hp =>
              split at hs
              · next nd hid =>
                cases hs
                refine noQuit_set ht (hasQuit_extend hbq ?_)
                intro x hx name hxe
                simp at hx; subst hx; subst hxe
                exfalso
                unfold identAdd at hid
                split at hid
                · split at hid
                  · cases hid
                  · split at hid
                    · cases hid
                    · split at hid <;> cases hid
                · cases hid
              · cases hs
            · cases hs

theorem replayFresh_noQuit {L : LogicData} : ∀ (ss : List Step) {t t' : Tableau}, t.noQuit →
    replayFresh L t ss = some t' → t'.noQuit
  | [], t, t', ht, h => by simp [replayFresh] at h; subst h; exact ht
  | s :: ss, t, t', ht, h => by
      simp only [replayFresh] at h
      split at h
      · next hf =>
        cases hs : applyStep L t s with
        | none => simp [hs] at h
        | some t1 =>
          simp only [hs, Option.bind_some] at h
          exact replayFresh_noQuit ss (fresh_step_noQuit ht hf hs) h
      · cases h

theorem trunk_noQuit (L : LogicData) (arg : Argument) : (trunk L arg).noQuit := by
  intro b hb
  simp only [trunk, List.mem_singleton] at hb
  subst hb
  simp [Branch.hasQuit]

/-! ### C03, part (1) -/

/-
  FULL STATEMENT (DESIGN §6 C03):
    theorem C03_terminates (L) (hm : L.MeasureOK) (arg) (hp : arg.Propositional) :
      ∀ t steps, replay L (trunk L arg) steps = some t → steps.length ≤ bound L arg ∧ t.noQuitFlags
  As stated it is FALSE for the calculus model `applyStep` (Ptx/Tab/Calculus.lean), which deliberately
  over-approximates the scheduler: it lets a rule be re-applied to an already ticked node, a frame
  rule be repeated, and a limit flag be added at any time — each of them forever.  What is proved is
  the statement for derivations that never do that (`replayFresh`: every rule step targets an
  UNTICKED node; closure and identity steps are unrestricted; frame and quit steps do not occur):
  their length is bounded by the measure of the trunk and no limit flag appears.  For the non-modal
  logics (no frame rules) these are exactly the derivations of a scheduler that respects ticks and
  has no limits configured.  `hm` and `hrows` are per-logic kernel-checked facts
  (Ptx/Gen/ObMeasure.lean: `<L>_measure_tf`, `<L>_tfrows`, all 57 logics).
-/
theorem C03_terminates_partial (L : LogicData) (W : Weights)
    (hm : L.measureOKOnB RuleKey.isTF W = true) (hrows : L.tfRowsOKB = true)
    (arg : Argument) (hp : arg.isProp = true) :
    ∀ (t : Tableau) (steps : List Step), replayFresh L (trunk L arg) steps = some t →
      steps.length ≤ termBound L W arg ∧ t.noQuit := by
  intro t steps h
  exact ⟨(terminates_prop hm hrows hp h).1, replayFresh_noQuit steps (trunk_noQuit L arg) h⟩

/-- with weights for the whole table (`measureOKB`) -/
theorem C03_terminates_partial' (L : LogicData) (W : Weights)
    (hm : L.measureOKB W = true) (hrows : L.tfRowsOKB = true)
    (arg : Argument) (hp : arg.isProp = true) :
    ∀ (t : Tableau) (steps : List Step), replayFresh L (trunk L arg) steps = some t →
      steps.length ≤ termBound L W arg ∧ t.noQuit :=
  C03_terminates_partial L W (LogicData.measureOKOnB_of_all hm _) hrows arg hp

/-! ### non-vacuity -/

section NonVacuity
private def toyW : Weights := ⟨fun _ => 1, fun _ => 1, fun _ => 1, fun _ => 1, fun _ => 1, fun _ => 1, fun _ => 0⟩
/-- a two-rule logic with markers: `A∧B +` ↦ `A +`, `B +`;  `A∨B +` ↦ `A +` | `B +` -/
private def toyL : LogicData :=
  { (default : LogicData) with
    marks := true, trunkPrem := some true, trunkConcNeg := false, trunkConc := some false,
    rules := [
      (⟨.op2 .conj, false, some true⟩, ⟨"ConjunctionDesignated", true, .none,
        [[.node ⟨.lhs, some true, false⟩, .node ⟨.rhs, some true, false⟩]]⟩),
      (⟨.op2 .disj, false, some true⟩, ⟨"DisjunctionDesignated", true, .none,
        [[.node ⟨.lhs, some true, false⟩], [.node ⟨.rhs, some true, false⟩]]⟩)] }
private def toyArg : Argument := ⟨[.op2 .conj (.op2 .disj (.atom 0 0) (.atom 1 0)) (.atom 2 0)], .atom 3 0⟩

example : toyL.measureOKOnB RuleKey.isTF toyW = true ∧ toyL.tfRowsOKB = true ∧ toyArg.isProp = true := by decide
-- the bound for this argument: (K+1)^(c^5 + c^1) with K = 2, c = 3
example : termBound toyL toyW toyArg = 3 ^ (3 ^ 5 + 3 ^ 1) := by decide
-- a fresh derivation: the conjunction, then the disjunction it produced (which forks)
example : ((replayFresh toyL (trunk toyL toyArg) [.rule 0 0 none none, .rule 0 2 none none]).map List.length) = some 2 := by
  decide
-- re-applying the rule to the ticked conjunction is legal in the calculus model (hence the full
-- statement over `replay` is false) but not fresh
example : (replay toyL (trunk toyL toyArg) (List.replicate 5 (.rule 0 0 none none))).isSome = true := by decide
example : (replayFresh toyL (trunk toyL toyArg) [.rule 0 0 none none, .rule 0 0 none none]) = none := by decide
end NonVacuity

end Ptx
