/-
  Ptx.Proofs.LibModelCpl — the identity / existence pass of cpl.Model.finish
  (`_agument_extension_with_identicals`, `_ensure_self_identity`, `_ensure_self_existence`: `cplFrames`)
  on a model in which NO Identity tuple has the value T: `_get_identicals` is empty for every constant,
  the augmentation adds nothing, and the pass
    * raises ModelValueError iff some `c = c` or `E!c` (c a model constant) was given a value other than T
      in some frame — a condition on the CONTENT of the model,
    * otherwise adds exactly `c = c := T`, `E!c := T` (and the two predicates) to every frame, when the
      model has a constant — a function of the content (`cplMHas`).
-/
import Ptx.Proofs.LibModelPrim
namespace Ptx.LibModel
open Ptx

/-! ### generic folds -/

theorem foldRes_ok {α β} {step : β → α → Res β} (P : β → Prop) (Q : α → Prop)
    (hstep : ∀ b a, Q a → P b → ∃ b', step b a = .ok b' ∧ P b') :
    ∀ (as : List α) (b : β), (∀ a ∈ as, Q a) → P b → ∃ b', foldRes step b as = .ok b' ∧ P b'
  | [], b, _, hb => ⟨b, rfl, hb⟩
  | a :: as, b, hq, hb => by
      obtain ⟨b1, h1, hb1⟩ := hstep b a (hq a List.mem_cons_self) hb
      obtain ⟨b', h', hb'⟩ := foldRes_ok P Q hstep as b1 (fun x hx => hq x (List.mem_cons_of_mem _ hx)) hb1
      exact ⟨b', by simp only [foldRes, h1, h'], hb'⟩

/-! ### `interp[params] = 'T'`, exactly -/

theorem setT_iff {ip ip' : Interp} {t : Tup} (h : setT ip t = .ok ip') (t' : Tup) (v : V) :
    ip'.lookup t' = some v ↔ ip.lookup t' = some v ∨ (t' = t ∧ v = .T) := by
  unfold setT at h
  split at h
  · next v0 hv0 =>
    split at h
    · next hvT =>
      cases h; subst hvT
      constructor
      · exact Or.inl
      · rintro (h | ⟨rfl, rfl⟩)
        · exact h
        · exact hv0
    · cases h
  · next hn =>
    cases h
    rw [List.lookup_append]
    by_cases ht : t' = t
    · subst ht
      simp only [hn, Option.none_or, List.lookup, beq_self_eq_true, Option.some.injEq, reduceCtorEq, false_or, true_and]
      exact eq_comm
    · have : (t' == t) = false := by simpa using ht
      cases hl : ip.lookup t' <;> simp [List.lookup, this, ht]

theorem setAllT_ok : ∀ (ts : List Tup) (ip : Interp), (∀ t ∈ ts, ∀ v, ip.lookup t = some v → v = .T) →
    ∃ ip', setAllT ip ts = .ok ip' ∧ ∀ t v, ip'.lookup t = some v ↔ ip.lookup t = some v ∨ (t ∈ ts ∧ v = .T)
  | [], ip, _ => ⟨ip, rfl, by simp⟩
  | t :: ts, ip, h => by
      have h1 : ∃ ip1, setT ip t = .ok ip1 := by
        unfold setT
        cases hl : ip.lookup t with
        | none => exact ⟨_, rfl⟩
        | some v => simp [h t List.mem_cons_self v hl]
      obtain ⟨ip1, h1⟩ := h1
      have hiff := setT_iff h1
      obtain ⟨ip', h', hi'⟩ := setAllT_ok ts ip1 (by
        intro t' ht' v hv
        rcases (hiff t' v).1 hv with h2 | ⟨_, h2⟩
        · exact h t' (List.mem_cons_of_mem _ ht') v h2
        · exact h2)
      refine ⟨ip', by simp only [setAllT, h1, h'], ?_⟩
      intro t' v
      rw [hi', hiff]
      simp only [List.mem_cons]
      constructor
      · rintro ((h2 | ⟨h2, h3⟩) | ⟨h2, h3⟩)
        · exact Or.inl h2
        · exact Or.inr ⟨Or.inl h2, h3⟩
        · exact Or.inr ⟨Or.inr h2, h3⟩
      · rintro (h2 | ⟨h2 | h2, h3⟩)
        · exact Or.inl (Or.inl h2)
        · exact Or.inl (Or.inr ⟨h2, h3⟩)
        · exact Or.inr ⟨h2, h3⟩

theorem setAllT_err : ∀ (ts : List Tup) (ip : Interp), (∃ t ∈ ts, ∃ v, ip.lookup t = some v ∧ v ≠ .T) →
    setAllT ip ts = .error .modelValue
  | [], _, h => by obtain ⟨t, ht, _⟩ := h; cases ht
  | t :: ts, ip, h => by
      simp only [setAllT]
      cases hl : ip.lookup t with
      | some v0 =>
        by_cases hv0 : v0 = .T
        · subst hv0
          have h1 : setT ip t = .ok ip := by simp [setT, hl]
          simp only [h1]
          apply setAllT_err ts ip
          obtain ⟨t0, ht0, v, hv, hne⟩ := h
          rcases List.mem_cons.1 ht0 with rfl | ht0
          · rw [hl] at hv; cases hv; exact absurd rfl hne
          · exact ⟨t0, ht0, v, hv, hne⟩
        · have h1 : setT ip t = .error .modelValue := by simp [setT, hl, hv0]
          simp only [h1]
      | none =>
        have h1 : setT ip t = .ok (ip ++ [(t, .T)]) := by simp [setT, hl]
        simp only [h1]
        apply setAllT_err ts
        obtain ⟨t0, ht0, v, hv, hne⟩ := h
        rcases List.mem_cons.1 ht0 with rfl | ht0
        · rw [hl] at hv; cases hv
        · exact ⟨t0, ht0, v, (setT_iff h1 t0 v).2 (Or.inl hv), hne⟩

/-! ### frames -/

/-- no Identity tuple of the frame has the value T -/
def Frame.NoIdT (f : Frame) : Prop := ∀ t, ¬ f.has (.pred Pred.identity t .T)

theorem setInterp_has' (f : Frame) (p : Pred) (ip : Interp) (ψ : FFact) :
    (f.setInterp p ip).has ψ ↔
      match ψ with
      | .atom a v => f.has (.atom a v)
      | .opq s v => f.has (.opq s v)
      | .hasPred p' => f.has (.hasPred p') ∨ p' = p
      | .pred p' t v => if p' = p then ip.lookup t = some v else f.has (.pred p' t v) := by
  cases ψ with
  | atom a v => simp [Frame.has, Frame.setInterp]
  | opq s v => simp [Frame.has, Frame.setInterp]
  | hasPred p' =>
    simp only [Frame.has, Frame.setInterp, akeys_aset]
    split
    · next h =>
      constructor
      · exact Or.inl
      · rintro (h' | rfl)
        · exact h'
        · exact h
    · simp
  | pred p' t v =>
    simp only [Frame.has]
    split
    · next h => subst h; rw [interp_setInterp_self]
    · next h => rw [interp_setInterp_ne _ _ h]

theorem having_nil {ip : Interp} (h : ∀ t, ip.lookup t ≠ some .T) : having ip [.T] = [] := by
  unfold having
  rw [List.filter_eq_nil_iff]
  intro t _
  cases hl : ip.lookup t with
  | none => simp
  | some v =>
    have : v ≠ .T := fun e => h t (e ▸ hl)
    simp [this]

theorem identicals_nil {f : Frame} (h : f.NoIdT) (c : Param) : identicals f c = [] := by
  unfold identicals
  rw [having_nil (fun t => h t)]
  simp [toSet]

theorem flatMap_const_nil {α β : Type} : ∀ (l : List α), l.flatMap (fun _ => ([] : List β)) = []
  | [] => rfl
  | _ :: t => by simp [flatMap_const_nil t]

theorem has_at {m : Model} {w : Nat} {ψ : FFact} : m.has (.at w ψ) ↔ (frameD m w).has ψ := Iff.rfl

/-- one round of the constants loop with no identicals: the Identity predicate becomes known, nothing else -/
theorem augmentC_noT {f : Frame} (h : f.NoIdT) (p : Pred) (c : Param) :
    augmentC f p c = .ok ((f.ensurePred Pred.identity).setInterp p ((f.ensurePred Pred.identity).interp p)) := by
  have h' : (f.ensurePred Pred.identity).NoIdT := by
    intro t ht
    apply h t
    simp only [Frame.has, interp_ensurePred] at ht ⊢
    exact ht
  unfold augmentC
  simp only [identicals_nil h', List.map_nil, flatMap_const_nil, setAllT]

/-- between `f` and `f` + "Identity is known" -/
structure AugRel (cs : List Param) (f f' : Frame) : Prop where
  lower : ∀ ψ, f.has ψ → f'.has ψ
  upper : ∀ ψ, f'.has ψ → f.has ψ ∨ (cs ≠ [] ∧ ψ = .hasPred Pred.identity)

theorem AugRel.noT {cs : List Param} {f f' : Frame} (h : AugRel cs f f') (hno : f.NoIdT) : f'.NoIdT := by
  intro t ht
  rcases h.upper _ ht with h1 | ⟨_, h1⟩
  · exact hno t h1
  · cases h1

theorem augmentC_rel {cs : List Param} (hcs : cs ≠ []) {f f' : Frame} (hno : f.NoIdT) (h : AugRel cs f f') (p : Pred)
    (hp : f'.has (.hasPred p)) (c : Param) :
    ∃ f'', augmentC f' p c = .ok f'' ∧ AugRel cs f f'' ∧ f''.has (.hasPred p) := by
  refine ⟨_, augmentC_noT (h.noT hno) p c, ⟨?_, ?_⟩, ?_⟩
  · intro ψ hψ
    have h1 := (ensurePred_has f' Pred.identity ψ).2 (Or.inl (h.lower ψ hψ))
    rw [setInterp_has']
    cases ψ with
    | atom a v => exact h1
    | opq s v => exact h1
    | hasPred p' => exact Or.inl h1
    | pred p' t v =>
      simp only
      split
      · next e => subst e; exact h1
      · exact h1
  · intro ψ hψ
    rw [setInterp_has'] at hψ
    have key : ∀ ψ', (f'.ensurePred Pred.identity).has ψ' → f.has ψ' ∨ (cs ≠ [] ∧ ψ' = .hasPred Pred.identity) := by
      intro ψ' h'
      rcases (ensurePred_has f' Pred.identity ψ').1 h' with h2 | h2
      · exact h.upper ψ' h2
      · exact Or.inr ⟨hcs, h2⟩
    cases ψ with
    | atom a v => exact key _ hψ
    | opq s v => exact key _ hψ
    | hasPred p' =>
      rcases hψ with h2 | rfl
      · exact key _ h2
      · exact h.upper _ hp
    | pred p' t v =>
      simp only at hψ
      split at hψ
      · next e => subst e; exact key _ hψ
      · exact key _ hψ
  · rw [setInterp_has']
    exact Or.inr rfl

theorem augment_rel {cs : List Param} {f f' : Frame} (hno : f.NoIdT) (h : AugRel cs f f') (p : Pred)
    (hp : f.has (.hasPred p)) : ∃ f'', augment cs f' p = .ok f'' ∧ AugRel cs f f'' := by
  have hp' := h.lower _ hp
  have hsame : ∀ ψ, (f'.ensurePred p).has ψ ↔ f'.has ψ := by
    intro ψ
    rw [ensurePred_has]
    constructor
    · rintro (h1 | rfl)
      · exact h1
      · exact hp'
    · exact Or.inl
  have h0 : AugRel cs f (f'.ensurePred p) ∧ (f'.ensurePred p).has (.hasPred p) :=
    ⟨⟨fun ψ hψ => (hsame ψ).2 (h.lower ψ hψ), fun ψ hψ => h.upper ψ ((hsame ψ).1 hψ)⟩, (hsame _).2 hp'⟩
  unfold augment
  by_cases hcs : cs = []
  · subst hcs
    exact ⟨_, rfl, h0.1⟩
  · obtain ⟨f'', h1, h2⟩ := foldRes_ok (step := fun f c => augmentC f p c)
      (fun g => AugRel cs f g ∧ g.has (.hasPred p)) (fun _ => True)
      (fun g c _ hg => augmentC_rel hcs hno hg.1 p hg.2 c) cs _ (fun _ _ => trivial) h0
    exact ⟨f'', h1, h2.1⟩

/-- `_ensure_self_identity` / `_ensure_self_existence`, exactly -/
theorem ensureSelf_spec (cs : List Param) (p : Pred) (mk : Param → Tup) (f : Frame) :
    ((∀ c ∈ cs, ∀ v, f.has (.pred p (mk c) v) → v = .T) →
      ∃ f', ensureSelf cs p mk f = .ok f' ∧
        ∀ ψ, f'.has ψ ↔ f.has ψ ∨ (cs ≠ [] ∧ (ψ = .hasPred p ∨ ∃ c ∈ cs, ψ = .pred p (mk c) .T))) ∧
    (¬ (∀ c ∈ cs, ∀ v, f.has (.pred p (mk c) v) → v = .T) → ensureSelf cs p mk f = .error .modelValue) := by
  unfold ensureSelf
  by_cases hcs : cs = []
  · subst hcs
    simp
  have hemp : cs.isEmpty = false := by cases cs <;> simp at hcs ⊢
  simp only [hemp, Bool.false_eq_true, ↓reduceIte]
  constructor
  · intro hok
    obtain ⟨ip', h1, h2⟩ := setAllT_ok (cs.map mk) ((f.ensurePred p).interp p) (by
      intro t ht v hv
      obtain ⟨c, hc, rfl⟩ := List.mem_map.1 ht
      rw [interp_ensurePred] at hv
      exact hok c hc v hv)
    refine ⟨(f.ensurePred p).setInterp p ip', by simp only [h1], ?_⟩
    intro ψ
    rw [setInterp_has']
    cases ψ with
    | atom a v => simp [Frame.has, Frame.ensurePred, hcs]
    | opq s v => simp [Frame.has, Frame.ensurePred, hcs]
    | hasPred p' =>
      simp only [ensurePred_has, FFact.hasPred.injEq, reduceCtorEq, and_false, exists_false, or_false, hcs, ne_eq,
        not_false_eq_true, true_and, or_assoc, or_self]
    | pred p' t v =>
      simp only [reduceCtorEq, FFact.pred.injEq, false_or, hcs, ne_eq, not_false_eq_true, true_and]
      split
      · next e =>
        subst e
        rw [h2, interp_ensurePred]
        simp only [Frame.has, List.mem_map, true_and]
        constructor
        · rintro (h3 | ⟨⟨c, hc, rfl⟩, rfl⟩)
          · exact Or.inl h3
          · exact Or.inr ⟨c, hc, rfl, rfl⟩
        · rintro (h3 | ⟨c, hc, rfl, rfl⟩)
          · exact Or.inl h3
          · exact Or.inr ⟨⟨c, hc, rfl⟩, rfl⟩
      · next e =>
        simp only [Frame.has, interp_ensurePred]
        constructor
        · exact Or.inl
        · rintro (h3 | ⟨c, _, h4, _⟩)
          · exact h3
          · exact absurd h4 e
  · intro hbad
    have : ∃ t ∈ cs.map mk, ∃ v, ((f.ensurePred p).interp p).lookup t = some v ∧ v ≠ .T := by
      apply Classical.byContradiction
      intro hn
      apply hbad
      intro c hc v hv
      apply Classical.byContradiction
      intro hvT
      exact hn ⟨mk c, List.mem_map.2 ⟨c, hc, rfl⟩, v, by rw [interp_ensurePred]; exact hv, hvT⟩
    simp only [setAllT_err _ _ this]

def cplOK (cs : List Param) (f : Frame) : Prop :=
  (∀ c ∈ cs, ∀ v, f.has (.pred Pred.identity [c, c] v) → v = .T) ∧
  (∀ c ∈ cs, ∀ v, f.has (.pred Pred.existence [c] v) → v = .T)

def cplHas (cs : List Param) (f : Frame) (ψ : FFact) : Prop :=
  f.has ψ ∨ (cs ≠ [] ∧ (ψ = .hasPred Pred.identity ∨ ψ = .hasPred Pred.existence ∨
    (∃ c ∈ cs, ψ = .pred Pred.identity [c, c] .T) ∨ (∃ c ∈ cs, ψ = .pred Pred.existence [c] .T)))

theorem identity_ne_existence : Pred.identity ≠ Pred.existence := by decide

/-- the body of the per-frame loop of cpl.Model.finish on a frame without a true Identity tuple -/
theorem cplFrame_spec (cs : List Param) (snap : List Pred) {f : Frame} (hno : f.NoIdT)
    (hsnap : ∀ p ∈ snap, f.has (.hasPred p)) :
    (cplOK cs f → ∃ f', cplFrame cs snap f = .ok f' ∧ ∀ ψ, f'.has ψ ↔ cplHas cs f ψ) ∧
    (¬ cplOK cs f → cplFrame cs snap f = .error .modelValue) := by
  obtain ⟨f1, h1, r1⟩ := foldRes_ok (step := augment cs) (fun g => AugRel cs f g) (fun p => f.has (.hasPred p))
    (fun g p hp hg => augment_rel hno hg p hp) snap f hsnap ⟨fun _ h => h, fun _ h => Or.inl h⟩
  have hpred : ∀ p t v, f1.has (.pred p t v) ↔ f.has (.pred p t v) := by
    intro p t v
    constructor
    · intro h
      rcases r1.upper _ h with h2 | ⟨_, h2⟩
      · exact h2
      · cases h2
    · exact r1.lower _
  obtain ⟨a1, a2⟩ := ensureSelf_spec cs Pred.identity (fun c => [c, c]) f1
  unfold cplFrame
  simp only [h1]
  by_cases hid : ∀ c ∈ cs, ∀ v, f.has (.pred Pred.identity [c, c] v) → v = .T
  · obtain ⟨f2, h2, c2⟩ := a1 (fun c hc v hv => hid c hc v ((hpred _ _ _).1 hv))
    simp only [h2]
    obtain ⟨b1, b2⟩ := ensureSelf_spec cs Pred.existence (fun c => [c]) f2
    have hex2 : ∀ c v, f2.has (.pred Pred.existence [c] v) ↔ f.has (.pred Pred.existence [c] v) := by
      intro c v
      rw [c2, hpred]
      constructor
      · rintro (h | ⟨_, h | ⟨c', _, h⟩⟩)
        · exact h
        · cases h
        · simp only [FFact.pred.injEq] at h
          exact absurd h.1.symm identity_ne_existence
      · exact Or.inl
    by_cases hex : ∀ c ∈ cs, ∀ v, f.has (.pred Pred.existence [c] v) → v = .T
    · obtain ⟨f3, h3, c3⟩ := b1 (fun c hc v hv => hex c hc v ((hex2 c v).1 hv))
      refine ⟨fun _ => ⟨f3, h3, ?_⟩, fun hn => absurd ⟨hid, hex⟩ hn⟩
      intro ψ
      rw [c3, c2]
      unfold cplHas
      constructor
      · rintro ((h | ⟨hcs, h⟩) | ⟨hcs, h⟩)
        · rcases r1.upper ψ h with h' | ⟨hcs, h'⟩
          · exact Or.inl h'
          · exact Or.inr ⟨hcs, Or.inl h'⟩
        · rcases h with h | h
          · exact Or.inr ⟨hcs, Or.inl h⟩
          · exact Or.inr ⟨hcs, Or.inr (Or.inr (Or.inl h))⟩
        · rcases h with h | h
          · exact Or.inr ⟨hcs, Or.inr (Or.inl h)⟩
          · exact Or.inr ⟨hcs, Or.inr (Or.inr (Or.inr h))⟩
      · rintro (h | ⟨hcs, h | h | h | h⟩)
        · exact Or.inl (Or.inl (r1.lower ψ h))
        · exact Or.inl (Or.inr ⟨hcs, Or.inl h⟩)
        · exact Or.inr ⟨hcs, Or.inl h⟩
        · exact Or.inl (Or.inr ⟨hcs, Or.inr h⟩)
        · exact Or.inr ⟨hcs, Or.inr h⟩
    · refine ⟨fun hok => absurd hok.2 hex, fun _ => ?_⟩
      exact b2 (fun hh => hex (fun c hc v hv => hh c hc v ((hex2 c v).2 hv)))
  · refine ⟨fun hok => absurd hok.1 hid, fun _ => ?_⟩
    have := a2 (fun hh => hid (fun c hc v hv => hh c hc v ((hpred _ _ _).2 hv)))
    simp only [this]

theorem cplHas_congr {cs cs' : List Param} {f f' : Frame} (hc : ∀ c, c ∈ cs ↔ c ∈ cs') (hf : ∀ ψ, f.has ψ ↔ f'.has ψ)
    (ψ : FFact) : cplHas cs f ψ ↔ cplHas cs' f' ψ := by
  have hne : cs ≠ [] ↔ cs' ≠ [] := by
    constructor
    · intro h e
      cases cs with
      | nil => exact h rfl
      | cons a t => have := (hc a).1 List.mem_cons_self; rw [e] at this; cases this
    · intro h e
      cases cs' with
      | nil => exact h rfl
      | cons a t => have := (hc a).2 List.mem_cons_self; rw [e] at this; cases this
  unfold cplHas
  simp only [hf, hne, hc]

/-! ### the model -/

section lookupmap
variable {κ β γ : Type} [BEq κ] [LawfulBEq κ]

theorem lookup_map_kv (g : κ × β → γ) : ∀ (l : List (κ × β)) (k : κ),
    (l.map fun wf => (wf.1, g wf)).lookup k = (l.lookup k).map fun v => g (k, v)
  | [], _ => rfl
  | (k', v) :: r, k => by
      by_cases h : k = k'
      · subst h; simp [List.lookup]
      · have : (k == k') = false := by simpa using h
        simp [List.lookup, this, lookup_map_kv g r k]
end lookupmap

theorem foldRes_frames_ok (g : Nat × Frame → Res Frame) (G : Nat × Frame → Frame) :
    ∀ (todo acc : List (Nat × Frame)), (∀ wf ∈ todo, g wf = .ok (G wf)) →
      foldRes (fun (acc : List (Nat × Frame)) (wf : Nat × Frame) =>
        match g wf with
        | .ok f => Except.ok (acc ++ [(wf.1, f)])
        | .error e => .error e) acc todo = .ok (acc ++ todo.map fun wf => (wf.1, G wf))
  | [], acc, _ => by simp [foldRes]
  | wf :: todo, acc, h => by
      simp only [foldRes, h wf List.mem_cons_self]
      rw [foldRes_frames_ok g G todo _ fun x hx => h x (List.mem_cons_of_mem _ hx)]
      simp

theorem foldRes_frames_err (g : Nat × Frame → Res Frame) (E : Err) :
    ∀ (todo acc : List (Nat × Frame)), (∀ wf ∈ todo, ∀ e, g wf = .error e → e = E) →
      (∃ wf ∈ todo, ∃ e, g wf = .error e) →
      foldRes (fun (acc : List (Nat × Frame)) (wf : Nat × Frame) =>
        match g wf with
        | .ok f => Except.ok (acc ++ [(wf.1, f)])
        | .error e => .error e) acc todo = .error E
  | [], _, _, h => by obtain ⟨_, h, _⟩ := h; cases h
  | wf :: todo, acc, hall, hex => by
      simp only [foldRes]
      cases hg : g wf with
      | error e =>
        have := hall wf List.mem_cons_self e hg
        subst this
        rfl
      | ok f =>
        simp only
        apply foldRes_frames_err g E todo _ (fun x hx => hall x (List.mem_cons_of_mem _ hx))
        obtain ⟨wf0, h0, e, he⟩ := hex
        rcases List.mem_cons.1 h0 with rfl | h0
        · rw [hg] at he; cases he
        · exact ⟨wf0, h0, e, he⟩

def cparam (c : Nat × Nat) : Param := .const c.1 c.2

/-- the pass does not raise: no `c = c`, `E!c` (c a model constant) with a value other than T anywhere -/
def cplMOK (m : Model) : Prop :=
  ∀ w, ∀ c ∈ m.consts, (∀ v, m.has (.at w (.pred Pred.identity [cparam c, cparam c] v)) → v = .T) ∧
    (∀ v, m.has (.at w (.pred Pred.existence [cparam c] v)) → v = .T)

/-- the content after the pass as a function of the content before -/
def cplMHas (m : Model) : Fact → Prop
  | .at w ψ => m.has (.at w ψ) ∨ (m.has (.frame w) ∧ m.consts ≠ [] ∧
      (ψ = .hasPred Pred.identity ∨ ψ = .hasPred Pred.existence ∨
        (∃ c ∈ m.consts, ψ = .pred Pred.identity [cparam c, cparam c] .T) ∨
        (∃ c ∈ m.consts, ψ = .pred Pred.existence [cparam c] .T)))
  | .frame w => m.has (.frame w)
  | .const c => m.has (.const c)
  | .sAtom a => m.has (.sAtom a)
  | .sPred p => m.has (.sPred p)
  | .key w => m.has (.key w)
  | .pair p => m.has (.pair p)

theorem cplMHas_congr {m₁ m₂ : Model} (h : ∀ φ, m₁.has φ ↔ m₂.has φ) (φ : Fact) : cplMHas m₁ φ ↔ cplMHas m₂ φ := by
  have hc : ∀ c, c ∈ m₁.consts ↔ c ∈ m₂.consts := fun c => h (.const c)
  have hne : m₁.consts ≠ [] ↔ m₂.consts ≠ [] := by
    constructor
    · intro hh e
      cases h1 : m₁.consts with
      | nil => exact hh h1
      | cons a t => have := (hc a).1 (by rw [h1]; exact List.mem_cons_self); rw [e] at this; cases this
    · intro hh e
      cases h1 : m₂.consts with
      | nil => exact hh h1
      | cons a t => have := (hc a).2 (by rw [h1]; exact List.mem_cons_self); rw [e] at this; cases this
  cases φ with
  | «at» w ψ => simp only [cplMHas, h, hne, hc]
  | _ => simp only [cplMHas, h]

theorem cplMOK_congr {m₁ m₂ : Model} (h : ∀ φ, m₁.has φ ↔ m₂.has φ) : cplMOK m₁ ↔ cplMOK m₂ := by
  have hc : ∀ c, c ∈ m₁.consts ↔ c ∈ m₂.consts := fun c => h (.const c)
  unfold cplMOK
  simp only [h, hc]

theorem mem_constParams {hint cs : List (Nat × Nat)} {x : Param} :
    x ∈ constParams (orderBy hint cs) ↔ ∃ c ∈ cs, x = cparam c := by
  simp only [constParams, List.mem_map, mem_orderBy, cparam]
  constructor
  · rintro ⟨c, hc, rfl⟩; exact ⟨c, hc, rfl⟩
  · rintro ⟨c, hc, rfl⟩; exact ⟨c, hc, rfl⟩

theorem constParams_ne_nil {hint cs : List (Nat × Nat)} : constParams (orderBy hint cs) ≠ [] ↔ cs ≠ [] := by
  constructor
  · intro h e
    subst e
    apply h
    simp [constParams, orderBy]
  · intro h e
    cases cs with
    | nil => exact h rfl
    | cons a t =>
      have : cparam a ∈ constParams (orderBy hint (a :: t)) := mem_constParams.2 ⟨a, List.mem_cons_self, rfl⟩
      rw [e] at this; cases this

/-- `cplFrames` on a model without a true Identity tuple: raises ModelValueError iff the content says so,
    otherwise produces a model whose content is `cplMHas` -/
theorem cplFrames_spec (hints : Hints) {m : Model} (hFK : m.FK)
    (hno : ∀ w t, ¬ m.has (.at w (.pred Pred.identity t .T))) :
    (cplMOK m → ∃ m', cplFrames hints m = .ok m' ∧ (∀ φ, m'.has φ ↔ cplMHas m φ) ∧
        m'.finished = m.finished ∧ m'.frameComplete = m.frameComplete ∧ m'.R = m.R) ∧
    (¬ cplMOK m → cplFrames hints m = .error .modelValue) := by
  let cs := constParams (orderBy hints.consts m.consts)
  let g : Nat × Frame → Res Frame := fun wf =>
    cplFrame cs (orderBy ((hints.preds.lookup wf.1).getD []) (akeys wf.2.preds)) wf.2
  let G : Nat × Frame → Frame := fun wf => match g wf with | .ok f => f | .error _ => wf.2
  have hfr : ∀ wf ∈ m.frames, wf.2 = frameD m wf.1 := by
    intro wf hwf
    have := lookup_of_mem_nodup hFK (k := wf.1) (v := wf.2) hwf
    simp [frameD, this]
  have hspec : ∀ wf ∈ m.frames,
      (cplOK cs wf.2 → ∃ f', g wf = .ok f' ∧ ∀ ψ, f'.has ψ ↔ cplHas cs wf.2 ψ) ∧
      (¬ cplOK cs wf.2 → g wf = .error .modelValue) := by
    intro wf hwf
    apply cplFrame_spec
    · intro t ht
      apply hno wf.1 t
      rw [has_at, ← hfr wf hwf]; exact ht
    · intro p hp
      exact mem_orderBy.1 hp
  have hOKiff : cplMOK m ↔ ∀ wf ∈ m.frames, cplOK cs wf.2 := by
    constructor
    · intro h wf hwf
      constructor
      · intro c hc v hv
        obtain ⟨k, hk, rfl⟩ := mem_constParams.1 hc
        apply (h wf.1 k hk).1 v
        rw [has_at, ← hfr wf hwf]; exact hv
      · intro c hc v hv
        obtain ⟨k, hk, rfl⟩ := mem_constParams.1 hc
        apply (h wf.1 k hk).2 v
        rw [has_at, ← hfr wf hwf]; exact hv
    · intro h w c hc
      cases hl : m.frames.lookup w with
      | none =>
        have he : frameD m w = {} := by simp [frameD, hl]
        constructor <;> intro v hv <;> rw [has_at, he] at hv <;> exact absurd hv (empty_has _)
      | some f =>
        have hm := lookup_mem hl
        have he : frameD m w = f := by simp [frameD, hl]
        obtain ⟨o1, o2⟩ := h (w, f) hm
        constructor
        · intro v hv
          rw [has_at, he] at hv
          exact o1 (cparam c) (mem_constParams.2 ⟨c, hc, rfl⟩) v hv
        · intro v hv
          rw [has_at, he] at hv
          exact o2 (cparam c) (mem_constParams.2 ⟨c, hc, rfl⟩) v hv
  unfold cplFrames
  constructor
  · intro hok
    have hall := hOKiff.1 hok
    have hg : ∀ wf ∈ m.frames, g wf = .ok (G wf) := by
      intro wf hwf
      obtain ⟨f', h1, _⟩ := (hspec wf hwf).1 (hall wf hwf)
      simp only [G, h1]
    have hfold := foldRes_frames_ok g G m.frames [] hg
    simp only [List.nil_append] at hfold
    refine ⟨{ m with frames := m.frames.map fun wf => (wf.1, G wf) }, ?_, ?_, rfl, rfl, rfl⟩
    · show (match foldRes (fun (acc : List (Nat × Frame)) (wf : Nat × Frame) =>
          match g wf with
          | .ok f => Except.ok (acc ++ [(wf.1, f)])
          | .error e => .error e) [] m.frames with
        | .ok frames => Except.ok { m with frames := frames }
        | .error e => .error e) = _
      rw [hfold]
    · intro φ
      cases φ with
      | «at» w ψ =>
        show (frameD _ w).has ψ ↔ _
        simp only [frameD, lookup_map_kv]
        cases hl : m.frames.lookup w with
        | none =>
          have he : frameD m w = {} := by simp [frameD, hl]
          have hnf : ¬ m.has (.frame w) := lookup_none_iff_not_mem.1 hl
          simp only [Option.map_none, Option.getD_none, cplMHas, hnf, false_and, or_false]
          show _ ↔ (frameD m w).has ψ
          rw [he]
        | some f =>
          have hm := lookup_mem hl
          have he : frameD m w = f := by simp [frameD, hl]
          have hfw : m.has (.frame w) := mem_akeys_of_lookup hl
          obtain ⟨f', h1, h2⟩ := (hspec (w, f) hm).1 (hall (w, f) hm)
          have hG : G (w, f) = f' := by simp only [G, h1]
          simp only [Option.map_some, Option.getD_some, hG, cplMHas, hfw, true_and]
          rw [h2]
          unfold cplHas
          show _ ↔ (frameD m w).has ψ ∨ _
          rw [he]
          simp only [constParams_ne_nil, cs]
          constructor
          · rintro (h | ⟨hne, h⟩)
            · exact Or.inl h
            · refine Or.inr ⟨hne, ?_⟩
              rcases h with h | h | ⟨c, hc, h⟩ | ⟨c, hc, h⟩
              · exact Or.inl h
              · exact Or.inr (Or.inl h)
              · obtain ⟨k, hk, rfl⟩ := mem_constParams.1 hc
                exact Or.inr (Or.inr (Or.inl ⟨k, hk, h⟩))
              · obtain ⟨k, hk, rfl⟩ := mem_constParams.1 hc
                exact Or.inr (Or.inr (Or.inr ⟨k, hk, h⟩))
          · rintro (h | ⟨hne, h⟩)
            · exact Or.inl h
            · refine Or.inr ⟨hne, ?_⟩
              rcases h with h | h | ⟨k, hk, h⟩ | ⟨k, hk, h⟩
              · exact Or.inl h
              · exact Or.inr (Or.inl h)
              · exact Or.inr (Or.inr (Or.inl ⟨cparam k, mem_constParams.2 ⟨k, hk, rfl⟩, h⟩))
              · exact Or.inr (Or.inr (Or.inr ⟨cparam k, mem_constParams.2 ⟨k, hk, rfl⟩, h⟩))
      | frame w =>
        simp only [Model.has, cplMHas, akeys, List.map_map, Function.comp_def]
      | const c => exact Iff.rfl
      | sAtom a => exact Iff.rfl
      | sPred p => exact Iff.rfl
      | key w => exact Iff.rfl
      | pair p => exact Iff.rfl
  · intro hbad
    have hex : ∃ wf ∈ m.frames, ¬ cplOK cs wf.2 := by
      apply Classical.byContradiction
      intro hn
      apply hbad
      apply hOKiff.2
      intro wf hwf
      apply Classical.byContradiction
      intro h
      exact hn ⟨wf, hwf, h⟩
    obtain ⟨wf0, hwf0, hb0⟩ := hex
    have hfold := foldRes_frames_err g .modelValue m.frames []
      (by
        intro wf hwf e he
        by_cases hk : cplOK cs wf.2
        · obtain ⟨f', h1, _⟩ := (hspec wf hwf).1 hk
          rw [h1] at he; cases he
        · rw [(hspec wf hwf).2 hk] at he; cases he; rfl)
      ⟨wf0, hwf0, _, (hspec wf0 hwf0).2 hb0⟩
    show (match foldRes (fun (acc : List (Nat × Frame)) (wf : Nat × Frame) =>
          match g wf with
          | .ok f => Except.ok (acc ++ [(wf.1, f)])
          | .error e => .error e) [] m.frames with
        | .ok frames => Except.ok { m with frames := frames }
        | .error e => .error e) = _
    rw [hfold]

end Ptx.LibModel
