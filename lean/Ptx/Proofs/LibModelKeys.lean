/-
  Ptx.Proofs.LibModelKeys — the worlds of `model.frames` are pairwise different in every model
  reachable through the API (a dict has each key once).
-/
import Ptx.Proofs.LibModelWorlds
namespace Ptx.LibModel
open Ptx

theorem nodup_snoc {α : Type} {l : List α} {x : α} (h : l.Nodup) (hx : x ∉ l) : (l ++ [x]).Nodup := by
  refine List.nodup_append.2 ⟨h, by simp, ?_⟩
  intro a ha b hb
  simp only [List.mem_singleton] at hb
  subst hb
  exact fun e => hx (e ▸ ha)

section
variable {κ β : Type} [DecidableEq κ]

theorem akeys_aset : ∀ (l : List (κ × β)) (k : κ) (v : β),
    akeys (aset l k v) = if k ∈ akeys l then akeys l else akeys l ++ [k]
  | [], k, v => by simp [aset, akeys]
  | (k', v') :: r, k, v => by
      simp only [aset]
      split
      · next h => subst h; simp [akeys]
      · next h =>
        have ih := akeys_aset r k v
        simp only [akeys, List.map_cons, List.mem_cons] at ih ⊢
        rw [ih]
        have hne : ¬ k = k' := fun h' => h h'.symm
        by_cases hk : k ∈ List.map (fun x => x.1) r
        · simp [hk]
        · simp [hk, hne]

theorem nodup_akeys_aset {l : List (κ × β)} (h : (akeys l).Nodup) (k : κ) (v : β) : (akeys (aset l k v)).Nodup := by
  rw [akeys_aset]
  split
  · exact h
  · next hk => exact nodup_snoc h hk

theorem nodup_akeys_ainsNew {l : List (κ × β)} (h : (akeys l).Nodup) (k : κ) (v : β) : (akeys (ainsNew l k v)).Nodup := by
  unfold ainsNew
  split
  · exact h
  · next hk =>
    have : k ∉ akeys l := fun hm => hk (lookup_isSome_iff.2 hm)
    simp only [akeys, List.map_append, List.map_cons, List.map_nil]
    exact nodup_snoc h this

theorem nodup_akeys_foldl_ainsNew (d : β) : ∀ (ks : List κ) {l : List (κ × β)}, (akeys l).Nodup →
    (akeys (ks.foldl (fun l k => ainsNew l k d) l)).Nodup
  | [], _, h => h
  | k :: ks, l, h => by
      simp only [List.foldl_cons]
      exact nodup_akeys_foldl_ainsNew d ks (nodup_akeys_ainsNew h k d)
end

/-- the frames' worlds are pairwise different -/
def Model.FK (m : Model) : Prop := (akeys m.frames).Nodup

theorem frameAt_FK {L : LogicData} {m m' : Model} {w : Nat} {f : Frame} (hm : m.FK) (h : frameAt L m w = .ok (m', f)) :
    m'.FK := by
  unfold frameAt at h
  split at h
  · simp only [Except.ok.injEq, Prod.mk.injEq] at h
    obtain ⟨rfl, _⟩ := h
    exact hm
  · next hl =>
    split at h
    · cases h
      have : w ∉ akeys m.frames := by
        intro hm'
        have := lookup_isSome_iff.2 hm'
        rw [hl] at this; cases this
      unfold Model.FK
      simp only [akeys, List.map_append, List.map_cons, List.map_nil]
      exact nodup_snoc hm this
    · cases h

theorem putFrame_FK {m : Model} (hm : m.FK) (w : Nat) (f : Frame) : (putFrame m w f).FK :=
  nodup_akeys_aset hm w f

theorem setAtomic_FK {L : LogicData} {m : Model} (hm : m.FK) (a : Nat × Nat) (v : V) (w : Nat) :
    (setAtomic L m a v w).1.FK := by
  unfold setAtomic
  split
  · exact hm
  split
  · exact hm
  split
  · exact hm
  next m' f hfa =>
  have hm' := frameAt_FK hm hfa
  split
  · split
    · exact hm'
    · exact hm'
  · exact putFrame_FK hm' _ _

theorem setOpaque_FK {L : LogicData} {m : Model} (hm : m.FK) (s : Sent) (v : V) (w : Nat) :
    (setOpaque L m s v w).1.FK := by
  unfold setOpaque
  split
  · exact hm
  split
  · exact hm
  split
  · exact hm
  next m' f hfa =>
  have hm' := frameAt_FK hm hfa
  split
  · split
    · exact putFrame_FK hm' _ _
    · exact hm'
  · exact putFrame_FK hm' _ _

theorem setPredicated_FK {L : LogicData} {m : Model} (hm : m.FK) (p : Pred) (ps : Tup) (v : V) (w : Nat) :
    (setPredicated L m p ps v w).1.FK := by
  unfold setPredicated
  split
  · exact hm
  split
  · exact hm
  split
  · exact hm
  next m' f hfa =>
  have hm' := frameAt_FK hm hfa
  split
  · exact hm'
  simp only
  split
  · split
    · exact putFrame_FK hm' _ _
    · exact putFrame_FK hm' _ _
  · exact putFrame_FK hm' _ _

theorem setLiteral_FK {L : LogicData} : ∀ (s : Sent) {m : Model}, m.FK → ∀ (v : V) (w : Nat),
    (setLiteral L m s v w).1.FK := by
  intro s
  induction s with
  | atom i j =>
    intro m hm v w
    unfold setLiteral
    split
    · exact hm
    split
    · exact hm
    split
    · exact setOpaque_FK hm _ v w
    · exact setAtomic_FK hm _ v w
  | pred p ps =>
    intro m hm v w
    unfold setLiteral
    split
    · exact hm
    split
    · exact hm
    split
    · exact setOpaque_FK hm _ v w
    · exact setPredicated_FK hm p ps v w
  | quant q vi vs b _ =>
    intro m hm v w
    unfold setLiteral
    split
    · exact hm
    split
    · exact hm
    split
    · exact setOpaque_FK hm _ v w
    · exact hm
  | op1 o a ih =>
    intro m hm v w
    unfold setLiteral
    split
    · exact hm
    split
    · exact hm
    split
    · exact setOpaque_FK hm _ v w
    · cases o
      · exact hm
      · exact ih hm _ w
      · exact hm
      · exact hm
  | op2 o a b _ _ =>
    intro m hm v w
    unfold setLiteral
    split
    · exact hm
    split
    · exact hm
    split
    · exact setOpaque_FK hm _ v w
    · exact hm

theorem setValue_FK {L : LogicData} {m : Model} (hm : m.FK) (s : Sent) (v : V) (w : Nat) :
    (setValue L m s v w).1.FK := by
  unfold setValue
  split
  · exact hm
  split
  · exact hm
  split
  · exact setOpaque_FK hm s v w
  split
  · exact setLiteral_FK s hm v w
  · exact hm

theorem completeFrames_FK {L : LogicData} {m m' : Model} (hm : m.FK) (h : completeFrames L m = .ok m') : m'.FK := by
  unfold completeFrames at h
  split at h
  · cases h; exact hm
  split at h
  · cases h
  simp only [Except.ok.injEq] at h
  subst h
  unfold Model.FK
  simp only [akeys, List.map_map, Function.comp_def]
  exact nodup_akeys_foldl_ainsNew ({} : Frame) m.R.keys hm

theorem finish_FK {L : LogicData} (hints : Hints) {m : Model} (hm : m.FK) : (finish L hints m).1.FK := by
  unfold finish finishX
  split
  · exact hm
  split
  · exact hm
  next m1 h1 =>
  have hm1 := completeFrames_FK hm h1
  split
  · split
    · exact hm1
    · next m2 h2 =>
      show (akeys m2.frames).Nodup
      rw [cplFrames_keys h2]; exact hm1
  · exact hm1

theorem step_FK {L : LogicData} (hints : Hints) {m : Model} (hm : m.FK) (op : MOp) : (step L hints m op).1.FK := by
  cases op <;> simp only [step]
  · exact setAtomic_FK hm _ _ _
  · exact setPredicated_FK hm _ _ _ _
  · exact setOpaque_FK hm _ _ _
  · exact setLiteral_FK _ hm _ _
  · exact setValue_FK hm _ _ _
  · exact hm
  · exact finish_FK hints hm

theorem init_FK : Model.init.FK := by simp [Model.FK, Model.init, akeys]

theorem run_FK {L : LogicData} (hints : Hints) : ∀ (ops : List MOp) (m : Model), m.FK → (run L hints m ops).1.FK
  | [], _, hm => hm
  | op :: ops, m, hm => by
      simp only [run]
      exact run_FK hints ops _ (step_FK hints hm op)

end Ptx.LibModel

namespace Ptx.LibModel
open Ptx

/-- what `finishX` returns on success: the access relation is the enforced one, with its flag -/
theorem finishX_R {L : LogicData} (hints : Hints) {m m' : Model} {flag : Bool}
    (h : finishX L hints m = ((m', none), flag)) (hnf : m.finished = false) :
    ∃ m2 : Model, (∃ m1, completeFrames L m = .ok m1 ∧ m2.R = m1.R) ∧
      m'.R = (Acc.enforce L.frame m2.R).1 ∧ flag = (Acc.enforce L.frame m2.R).2 ∧ m'.finished = true := by
  unfold finishX at h
  simp only [hnf, Bool.false_eq_true, ↓reduceIte] at h
  split at h
  · simp at h
  next m1 h1 =>
  split at h
  · split at h
    · simp at h
    next m2 h2 =>
    simp only [finishBase, Prod.mk.injEq, and_true] at h
    obtain ⟨rfl, rfl⟩ := h
    obtain ⟨_, c2, _, _⟩ := cplFrames_frames h2
    exact ⟨m2, ⟨m1, h1, c2⟩, rfl, rfl, rfl⟩
  · simp only [finishBase, Prod.mk.injEq, and_true] at h
    obtain ⟨rfl, rfl⟩ := h
    exact ⟨m1, ⟨m1, h1, rfl⟩, rfl, rfl, rfl⟩

/-- with a serial / reflexive Access class every world of the finished relation has a successor -/
theorem Acc.enforce_total {k : FrameKind} (hk : k ≠ .none ∧ k ≠ .K) {R : Acc} (hwf : R.WF)
    (hflag : (Acc.enforce k R).2 = true) : ∀ w ∈ (Acc.enforce k R).1.keys, (Acc.enforce k R).1.succ w ≠ [] := by
  intro w hw
  cases k
  · exact absurd rfl hk.1
  · exact absurd rfl hk.2
  · exact (Acc.enforceSerial_spec R).1 w hw
  all_goals
    have hholds := Acc.enforce_holds (by rfl) hwf hflag
    have hw2 := (Acc.enforce_keys (by simp) hwf w).1 hw
    have hself := hholds.1 w hw2
    intro hnil
    have := Acc.mem_succ.2 hself
    rw [hnil] at this
    cases this

/-- after a successful `finish` (enforce loop left through `break`) of a modal model, the worlds of the
    access relation are a legitimate set of evaluation worlds for `valueOfF_eq_eval` -/
theorem worldsOK_of_finish {L : LogicData} (hmod : L.modal = true) (hT : L.tablesTotalB = true) (hints : Hints)
    {m m' : Model} (h : finishX L hints m = ((m', none), true)) (hnf : m.finished = false) (hinv : m.Inv L) :
    WorldsOK L m' (· ∈ m'.R.keys) := by
  obtain ⟨m2, ⟨m1, h1, hR21⟩, hR, hflag, _⟩ := finishX_R hints h hnf
  have hinv1 := (completeFrames_inv (tablesOK_of_total hT).una hinv h1).1
  have hwf2 : m2.R.WF := hR21 ▸ hinv1.rwf
  have hwf' : m'.R.WF := hR ▸ Acc.WF_enforce hwf2 _
  refine ⟨fun _ _ => Or.inl hmod, ?_, ?_⟩
  · intro w _ w' hw'
    exact (hwf' _ (Acc.mem_succ.1 hw')).2
  · intro he w hw
    rw [hR] at hw ⊢
    apply Acc.enforce_total _ hwf2 hflag.symm w hw
    unfold LogicData.emptyAccessOk at he
    cases hk : L.frame <;> simp [hk] at he <;> simp

end Ptx.LibModel
