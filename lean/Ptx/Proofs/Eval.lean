/-
  Ptx.Proofs.Eval — basic facts about the spec semantics: values stay in the logic's value set.
-/
import Ptx.Proofs.Tables
namespace Ptx

/-- side conditions under which `M` is an interpretation for logic `L` -/
structure Struct.Interp (M : Struct) (L : LogicData) : Prop where
  vals : M.ValsOK L.T
  frame : M.FrameOK L.frame
  classical : (L.closesSelfIdNeg = true ∨ L.closesNonExist = true) → M.ClassicalOK

theorem Op1.nonmodal_cases {o : Op1} (h : o.isModal = false) : o = .asrt ∨ o = .neg := by
  cases o <;> simp [Op1.isModal] at h ⊢
theorem Op1.modal_cases {o : Op1} (h : o.isModal = true) : o = .poss ∨ o = .nec := by
  cases o <;> simp [Op1.isModal] at h ⊢

theorem succ_of_frame {M : Struct} {L : LogicData} (hf : M.FrameOK L.frame)
    (he : L.emptyAccessOk = false) (w : M.W) : ∃ w', M.R w w' := by
  unfold LogicData.emptyAccessOk at he
  cases hk : L.frame <;> simp [hk] at he <;> simp [hk, Struct.FrameOK] at hf
  · exact hf w
  · exact ⟨w, hf w⟩
  · exact ⟨w, hf.1 w⟩
  · exact ⟨w, hf.1 w⟩

theorem eval_mem_vals (L : LogicData) (hT : L.tablesTotalB = true) (M : Struct) (hM : M.Interp L) :
    ∀ (s : Sent) (e : Env M.D) (w : M.W), eval L M e w s ∈ L.T.vals := by
  have hc := L.tables.closed_of_totalB _ _ _ hT
  intro s
  induction s with
  | atom i s => intro e w; simp [eval]; exact hM.vals.1 w i s
  | pred p ps => intro e w; simp [eval]; exact hM.vals.2.1 w p _
  | quant q vi vs b ih =>
      intro e w
      simp only [eval]
      split
      · next hq =>
        unfold Tables.qfold
        rw [canon_profile]
        refine hc.qf hq q _ (profile_mem_profiles _ _ _) ?_
        intro hnil
        have : eval L M (e.updVar vi vs M.dflt) w b ∈ profile L.T (fun _ : M.D => True)
            (fun d => eval L M (e.updVar vi vs d) w b) :=
          mem_profile.2 ⟨ih _ _, M.dflt, trivial, rfl⟩
        rw [hnil] at this; cases this
      · exact hM.vals.2.2 w _
  | op1 o a ih =>
      intro e w
      simp only [eval]
      split
      · next hmo =>
        split
        · next hm =>
          unfold Tables.mfold
          rw [canon_profile]
          refine hc.mf hm o (Op1.modal_cases hmo) _ (profile_mem_profiles _ _ _) ?_
          by_cases he : L.emptyAccessOk = true
          · exact Or.inr he
          · left
            obtain ⟨w', hw'⟩ := succ_of_frame hM.frame (by simpa using he) w
            intro hnil
            have : eval L M e w' a ∈ profile L.T (fun w' => M.R w w') (fun w' => eval L M e w' a) :=
              mem_profile.2 ⟨ih _ _, w', hw', rfl⟩
            rw [hnil] at this; cases this
        · exact hM.vals.2.2 w _
      · next hmo =>
        exact hc.f1 o (Op1.nonmodal_cases (by simpa using hmo)) _ (ih e w)
  | op2 o a b iha ihb =>
      intro e w
      simp only [eval]
      exact hc.f2 o _ (iha e w) _ (ihb e w)

end Ptx
