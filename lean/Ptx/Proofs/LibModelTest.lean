/-
  Ptx.Proofs.LibModelTest — small fixed logics for the non-vacuity examples and the witnesses of the
  C08 / C20 theorems (tables transcribed from the regenerated Gen/L_D.lean and Gen/L_LP.lean on
  2026-09-30; the examples must not depend on what is regenerated at run time).
-/
import Ptx.Sem.LibModel
namespace Ptx.LibModel.Test
open Ptx

def tD_tables : Tables := {
  vals := [.F, .T], des := [.T], unassigned := .F,
  t1 := [((.asrt, .F), .F), ((.asrt, .T), .T), ((.neg, .F), .T), ((.neg, .T), .F)],
  t2 := [
    ((.conj, .F, .F), .F), ((.conj, .F, .T), .F), ((.conj, .T, .F), .F), ((.conj, .T, .T), .T),
    ((.disj, .F, .F), .F), ((.disj, .F, .T), .T), ((.disj, .T, .F), .T), ((.disj, .T, .T), .T),
    ((.mcond, .F, .F), .T), ((.mcond, .F, .T), .T), ((.mcond, .T, .F), .F), ((.mcond, .T, .T), .T),
    ((.mbicond, .F, .F), .T), ((.mbicond, .F, .T), .F), ((.mbicond, .T, .F), .F), ((.mbicond, .T, .T), .T),
    ((.cond, .F, .F), .T), ((.cond, .F, .T), .T), ((.cond, .T, .F), .F), ((.cond, .T, .T), .T),
    ((.bicond, .F, .F), .T), ((.bicond, .F, .T), .F), ((.bicond, .T, .F), .F), ((.bicond, .T, .T), .T)
  ],
  qf := [((.ex, [.F]), .F), ((.ex, [.T]), .T), ((.ex, [.F, .T]), .T), ((.univ, [.F]), .F), ((.univ, [.T]), .T), ((.univ, [.F, .T]), .F)],
  mf := [((.poss, [.F]), .F), ((.poss, [.T]), .T), ((.poss, [.F, .T]), .T), ((.nec, [.F]), .F), ((.nec, [.T]), .T), ((.nec, [.F, .T]), .F)] }

/-- classical, quantified, modal with serial frames (as logic D) -/
def tD : LogicData := { (default : LogicData) with
  name := "tD", tables := tD_tables, marks := false, modal := true, quantified := true, frame := .D }

/-- the same tables without modality (as CFOL) -/
def tCFOL : LogicData := { tD with name := "tCFOL", modal := false, frame := .none }

/-- the same tables with reflexive-transitive frames (as S4) -/
def tS4 : LogicData := { tD with name := "tS4", frame := .S4 }

def tLP_tables : Tables := {
  vals := [.F, .B, .T], des := [.B, .T], unassigned := .F,
  t1 := [((.asrt, .F), .F), ((.asrt, .B), .B), ((.asrt, .T), .T), ((.neg, .F), .T), ((.neg, .B), .B), ((.neg, .T), .F)],
  t2 := [
    ((.conj, .F, .F), .F), ((.conj, .F, .B), .F), ((.conj, .F, .T), .F), ((.conj, .B, .F), .F), ((.conj, .B, .B), .B), ((.conj, .B, .T), .B), ((.conj, .T, .F), .F), ((.conj, .T, .B), .B), ((.conj, .T, .T), .T),
    ((.disj, .F, .F), .F), ((.disj, .F, .B), .B), ((.disj, .F, .T), .T), ((.disj, .B, .F), .B), ((.disj, .B, .B), .B), ((.disj, .B, .T), .T), ((.disj, .T, .F), .T), ((.disj, .T, .B), .T), ((.disj, .T, .T), .T),
    ((.mcond, .F, .F), .T), ((.mcond, .F, .B), .T), ((.mcond, .F, .T), .T), ((.mcond, .B, .F), .B), ((.mcond, .B, .B), .B), ((.mcond, .B, .T), .T), ((.mcond, .T, .F), .F), ((.mcond, .T, .B), .B), ((.mcond, .T, .T), .T),
    ((.mbicond, .F, .F), .T), ((.mbicond, .F, .B), .B), ((.mbicond, .F, .T), .F), ((.mbicond, .B, .F), .B), ((.mbicond, .B, .B), .B), ((.mbicond, .B, .T), .B), ((.mbicond, .T, .F), .F), ((.mbicond, .T, .B), .B), ((.mbicond, .T, .T), .T),
    ((.cond, .F, .F), .T), ((.cond, .F, .B), .T), ((.cond, .F, .T), .T), ((.cond, .B, .F), .B), ((.cond, .B, .B), .B), ((.cond, .B, .T), .T), ((.cond, .T, .F), .F), ((.cond, .T, .B), .B), ((.cond, .T, .T), .T),
    ((.bicond, .F, .F), .T), ((.bicond, .F, .B), .B), ((.bicond, .F, .T), .F), ((.bicond, .B, .F), .B), ((.bicond, .B, .B), .B), ((.bicond, .B, .T), .B), ((.bicond, .T, .F), .F), ((.bicond, .T, .B), .B), ((.bicond, .T, .T), .T)
  ],
  qf := [((.ex, [.B]), .B), ((.ex, [.F]), .F), ((.ex, [.T]), .T), ((.ex, [.B, .T]), .T), ((.ex, [.F, .B]), .B), ((.ex, [.F, .T]), .T), ((.ex, [.F, .B, .T]), .T), ((.univ, [.B]), .B), ((.univ, [.F]), .F), ((.univ, [.T]), .T), ((.univ, [.B, .T]), .B), ((.univ, [.F, .B]), .F), ((.univ, [.F, .T]), .F), ((.univ, [.F, .B, .T]), .F)],
  mf := [] }

/-- glutty three-valued, unassigned value F (as logic LP) -/
def tLP : LogicData := { (default : LogicData) with
  name := "tLP", tables := tLP_tables, marks := true, modal := false, quantified := true, frame := .none }

def a : Param := .const 0 0
def b : Param := .const 1 0
def c : Param := .const 2 0
def F : Pred := ⟨0, 0, 1⟩
def G : Pred := ⟨1, 0, 1⟩
def H : Pred := ⟨2, 0, 2⟩
def x : Param := .var 0 0

end Ptx.LibModel.Test
