/-
  Ptx.Proofs.TabTreeStep — the shape of every legal step of the calculus (what `applyStep` can do to
  the branch list), as needed by the bookkeeping invariants of C16:

    t' = t.set i (old.extend g0 tick) ++ gs.map (fun g => { old.extend g tick with parent := some i })

  where `old` is the (open) target branch, and either no added node is a closure flag, or the step
  is a closure (`g0 = [closure flag]`, no new branches).
-/
import Ptx.Tab.Tree
namespace Ptx
namespace TabTree

/-- a new branch made by `tab.branch(parent)` and extended with `g` -/
def child (old : Branch) (i : Nat) (tick : Option Nat) (g : List Node) : Branch :=
  { old.extend g tick with parent := some i }

@[simp] theorem extend_nodes (b : Branch) (g : List Node) (tk : Option Nat) : (b.extend g tk).nodes = b.nodes ++ g := rfl
@[simp] theorem extend_parent (b : Branch) (g : List Node) (tk : Option Nat) : (b.extend g tk).parent = b.parent := rfl
@[simp] theorem child_nodes (b : Branch) (i : Nat) (g : List Node) (tk : Option Nat) : (child b i tk g).nodes = b.nodes ++ g := rfl
@[simp] theorem child_parent (b : Branch) (i : Nat) (g : List Node) (tk : Option Nat) : (child b i tk g).parent = some i := rfl
@[simp] theorem child_ticked (b : Branch) (i : Nat) (g : List Node) (tk : Option Nat) :
    (child b i tk g).ticked = (b.extend g tk).ticked := rfl

theorem extend_ticked (b : Branch) (g : List Node) (tk : Option Nat) :
    (b.extend g tk).ticked = match tk with
      | some n => if b.ticked.contains n then b.ticked else b.ticked ++ [n]
      | none => b.ticked := rfl

/-- the shape of a legal step -/
structure Shape (t : Tableau) (i : Nat) (t' : Tableau) where
  old : Branch
  g0 : List Node
  gs : List (List Node)
  tick : Option Nat
  hold : t[i]? = some old
  hopen : old.closed = false
  ht' : t' = t.set i (old.extend g0 tick) ++ gs.map (child old i tick)
  /-- a tick refers to a node of the branch, except possibly for a quit flag (the calculus does not
      check the index there) -/
  hclos : (∀ g ∈ g0 :: gs, ∀ n ∈ g, n.isClosure = false) ∨ (g0 = [.flag "closure"] ∧ gs = [] ∧ tick = none)

theorem mapOpt_length {α β} {f : α → Option β} : ∀ {xs : List α} {ys : List β}, mapOpt f xs = some ys → ys.length = xs.length
  | [], ys, h => by simp [mapOpt] at h; subst h; rfl
  | a :: xs, ys, h => by
      simp only [mapOpt] at h
      split at h
      · next y ys' _ hys => cases h; simp [mapOpt_length hys]
      · cases h

theorem instAdds_not_closure {whole l : Sent} {r raw : Option Sent} {var : Nat × Nat} {w wo : Option Nat}
    {br : List AddT} {g : List Node} (h : instAdds whole l r raw var w wo br = some g) :
    ∀ n ∈ g, n.isClosure = false := by
  intro n hn
  obtain ⟨ad, _, hf⟩ := mapOpt_mem_bwd h n hn
  cases ad with
  | access =>
    simp only at hf
    split at hf
    · simp at hf; subst hf; rfl
    · cases hf
  | node nt =>
    simp only at hf
    split at hf
    · cases hf
    · split at hf
      · split at hf
        · simp at hf; subst hf; rfl
        · cases hf
      · simp at hf; subst hf; rfl

theorem instAdds_length {whole l : Sent} {r raw : Option Sent} {var : Nat × Nat} {w wo : Option Nat}
    {br : List AddT} {g : List Node} (h : instAdds whole l r raw var w wo br = some g) : g.length = br.length :=
  mapOpt_length h

/-- what `witnessGroups` returns is the instantiation of the rule's template branches, one group per
    template branch, each as long as its template, none containing a closure flag -/
theorem witnessGroups_spec {b : Branch} {whole l0 : Sent} {w : Option Nat} {c : Option (Nat × Nat)} {wo : Option Nat}
    {r : Rule} {gs : List (List Node)} (h : witnessGroups b whole l0 w c wo r = some gs) :
    (∀ g ∈ gs, ∀ n ∈ g, n.isClosure = false) ∧ gs.length = r.branches.length ∧
    (∀ g ∈ gs, ∃ br ∈ r.branches, g.length = br.length) := by
  have key : ∀ {l rr raw var ww wo'}, mapOpt (instAdds whole l rr raw var ww wo') r.branches = some gs →
      (∀ g ∈ gs, ∀ n ∈ g, n.isClosure = false) ∧ gs.length = r.branches.length ∧
      (∀ g ∈ gs, ∃ br ∈ r.branches, g.length = br.length) := by
    intro l rr raw var ww wo' hm
    refine ⟨?_, mapOpt_length hm, ?_⟩
    · intro g hg
      obtain ⟨br, _, hf⟩ := mapOpt_mem_bwd hm g hg
      exact instAdds_not_closure hf
    · intro g hg
      obtain ⟨br, hbr, hf⟩ := mapOpt_mem_bwd hm g hg
      exact ⟨br, hbr, instAdds_length hf⟩
  unfold witnessGroups at h
  split at h
  · split at h
    · cases h
    · exact key h
  · split at h
    · split at h
      · cases h
      · exact key h
    · cases h
  · split at h
    · split at h
      · cases h
      · exact key h
    · cases h
  · split at h
    · split at h
      · cases h
      · exact key h
    · cases h
  · split at h
    · split at h
      · cases h
      · exact key h
    · cases h

theorem ruleGroups_spec {L : LogicData} {b : Branch} {s : Sent} {d : Option Bool} {w : Option Nat}
    {c : Option (Nat × Nat)} {wo : Option Nat} {r : Rule} {gs : List (List Node)}
    (h : L.ruleGroups b s d w c wo = some (r, gs)) :
    (∃ k, L.rule? k = some r) ∧ (∀ g ∈ gs, ∀ n ∈ g, n.isClosure = false) ∧
    (∀ g ∈ gs, ∃ br ∈ r.branches, g.length = br.length) := by
  unfold LogicData.ruleGroups at h
  split at h
  · cases h
  · next sh ng whole _ =>
    split at h
    · next r' l0 hr _ =>
      split at h
      · cases h
      · split at h
        · next gs' hw =>
          simp only [Option.some.injEq, Prod.mk.injEq] at h
          obtain ⟨rfl, rfl⟩ := h
          obtain ⟨h1, _, h3⟩ := witnessGroups_spec hw
          exact ⟨⟨_, hr⟩, h1, h3⟩
        · cases h
    · cases h

/-- every rule of `L` adds at least one node on every branch it makes -/
def _root_.Ptx.LogicData.addsNonempty (L : LogicData) : Bool :=
  L.rules.all (fun kr => kr.2.branches.all (fun br => !br.isEmpty))

theorem lookup_mem {α β} [BEq α] [LawfulBEq α] {k : α} {v : β} : ∀ {l : List (α × β)}, l.lookup k = some v → (k, v) ∈ l
  | [], h => by simp [List.lookup] at h
  | (a, b) :: l, h => by
      simp only [List.lookup] at h
      split at h
      · next heq =>
        have : k = a := by simpa using heq
        cases h; subst this; exact List.mem_cons_self
      · exact List.mem_cons_of_mem _ (lookup_mem h)

theorem addsNonempty_spec {L : LogicData} (hne : L.addsNonempty = true) {k : RuleKey} {r : Rule}
    (h : L.rule? k = some r) : ∀ br ∈ r.branches, br ≠ [] := by
  intro br hbr
  have hm := lookup_mem (l := L.rules) h
  have := (List.all_eq_true.1 hne) _ hm
  have := (List.all_eq_true.1 this) _ hbr
  intro e; subst e; simp at this

/-- Every legal step has the shape above.  With `addsNonempty`, every group is nonempty. -/
theorem shape_of_applyStep {L : LogicData} {t t' : Tableau} {s : Step} (h : applyStep L t s = some t') :
    ∃ sh : Shape t s.branch t', (L.addsNonempty = true → ∀ g ∈ sh.g0 :: sh.gs, g ≠ []) := by
  unfold applyStep at h
  split at h
  · cases h
  · next b hb =>
    split at h
    · cases h
    · next hbc =>
      have hbc : b.closed = false := by simpa using hbc
      cases s with
      | rule bi n c wo =>
        simp only [applyAt, Step.branch] at h hb ⊢
        split at h
        · next sn d w hnd =>
          split at h
          · next r g0 rest hg =>
            simp only [Option.some.injEq] at h
            obtain ⟨⟨k, hk⟩, hnc, hlen⟩ := ruleGroups_spec hg
            refine ⟨⟨b, g0, rest, if r.ticks then some n else none, hb, hbc, ?_, Or.inl hnc⟩, ?_⟩
            · rw [← h]; simp [Tableau.fork, child]
            · intro hne g hgm
              obtain ⟨br, hbr, hl⟩ := hlen g hgm
              have := addsNonempty_spec hne hk br hbr
              intro e; subst e
              simp at hl; exact this (List.eq_nil_of_length_eq_zero hl.symm)
          · cases h
        · cases h
      | close bi sn w =>
        simp only [applyAt, Step.branch] at h hb ⊢
        split at h
        · simp only [Option.some.injEq] at h
          refine ⟨⟨b, [.flag "closure"], [], none, hb, hbc, ?_, Or.inr ⟨rfl, rfl, rfl⟩⟩, ?_⟩
          · rw [← h]; simp [closeB]
          · intro _ g hg; simp at hg; subst hg; simp
        · cases h
      | closeIdent bi n =>
        simp only [applyAt, Step.branch] at h hb ⊢
        split at h
        · split at h
          · simp only [Option.some.injEq] at h
            refine ⟨⟨b, [.flag "closure"], [], none, hb, hbc, ?_, Or.inr ⟨rfl, rfl, rfl⟩⟩, ?_⟩
            · rw [← h]; simp [closeB]
            · intro _ g hg; simp at hg; subst hg; simp
          · cases h
        · cases h
      | frame bi r w1 w2 w3 =>
        simp only [applyAt, Step.branch] at h hb ⊢
        split at h
        · cases h
        · split at h
          · next nd hnd =>
            simp only [Option.some.injEq] at h
            have hnc : nd.isClosure = false := by
              unfold frameAdd at hnd
              split at hnd <;> (split at hnd <;> first | (cases hnd; rfl) | cases hnd)
            refine ⟨⟨b, [nd], [], none, hb, hbc, ?_, Or.inl ?_⟩, ?_⟩
            · rw [← h]; simp
            · intro g hg n hn; simp at hg; subst hg; simp at hn; subst hn; exact hnc
            · intro _ g hg; simp at hg; subst hg; simp
          · cases h
      | ident bi i p =>
        simp only [applyAt, Step.branch] at h hb ⊢
        split at h
        · cases h
        · split at h
          · next ni np _ _ =>
            split at h
            · next nd hnd =>
              simp only [Option.some.injEq] at h
              have hnc : nd.isClosure = false := by
                unfold identAdd at hnd
                split at hnd
                · split at hnd
                  · cases hnd
                  · split at hnd
                    · cases hnd; rfl
                    · split at hnd
                      · cases hnd; rfl
                      · cases hnd
                · cases hnd
              refine ⟨⟨b, [nd], [], none, hb, hbc, ?_, Or.inl ?_⟩, ?_⟩
              · rw [← h]; simp
              · intro g hg n hn; simp at hg; subst hg; simp at hn; subst hn; exact hnc
              · intro _ g hg; simp at hg; subst hg; simp
            · cases h
          · cases h
      | quit bi name tick =>
        simp only [applyAt, Step.branch] at h hb ⊢
        split at h
        · cases h
        · next hname =>
          simp only [Option.some.injEq] at h
          have hnc : (Node.flag name).isClosure = false := by
            simp only [Node.isClosure]; simpa using hname
          refine ⟨⟨b, [.flag name], [], tick, hb, hbc, ?_, Or.inl ?_⟩, ?_⟩
          · rw [← h]; simp
          · intro g hg n hn; simp at hg; subst hg; simp at hn; subst hn; exact hnc
          · intro _ g hg; simp at hg; subst hg; simp

end TabTree
end Ptx
