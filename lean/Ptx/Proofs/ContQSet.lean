/-
  Ptx.Proofs.ContQSet — `qset` (with any subclass hooks satisfying `HooksOK`) simulates the
  specification list: `Sim (QSet.prims H) (Spec.prims S) (QRel …)`.
-/
import Ptx.Cont.QSet
import Ptx.Cont.Spec
import Ptx.Proofs.ContList
import Ptx.Proofs.ContSim
namespace Ptx.Cont
set_option linter.unusedSectionVars false
variable {α ρ σ : Type} [DecidableEq α] [DecidableEq ρ]

/-- what the subclass hooks must satisfy w.r.t. the specification signature; `HInv e l`: the
    subclass state `e` is consistent with the member list `l` -/
structure HooksOK (H : Hooks α ρ σ) (S : Sig α ρ) (HInv : σ → List α → Prop) : Prop where
  init : HInv H.init []
  toRef : H.toRef = S.toRef
  rawRef : H.rawRef = S.rawRef
  refEq : H.refEq = S.refEq
  le : H.le = S.le
  hasSort : S.hasSort = true
  hasWedge : S.hasWedge = false
  toRef_keys : ∀ v m, S.toRef v ∈ S.keys m ↔ m = v
  has_eq : ∀ {e set l}, HInv e l → (∀ x, x ∈ set ↔ x ∈ l) → ∀ r, H.has e set r = Spec.has S l r
  check_eq : ∀ {e l}, HInv e l → l.Nodup → ∀ arr leaving, (∀ x ∈ leaving, x ∈ l) →
    H.check e arr leaving = if Spec.clashes S l arr leaving then some .conflict else none
  done_inv : ∀ {e l}, HInv e l → l.Nodup → ∀ arr leaving l', (∀ x ∈ leaving, x ∈ l) → arr.Nodup → l'.Nodup →
    (∀ x, x ∈ l' ↔ (x ∈ l ∧ x ∉ leaving) ∨ x ∈ arr) → Spec.clashes S l arr leaving = false →
    HInv (H.done e arr leaving) l'
  clear : ∀ e, HInv (H.clear e) []
  congr : ∀ {e l l'}, HInv e l → (∀ x, x ∈ l ↔ x ∈ l') → HInv e l'

/-- the container invariant, tied to the abstraction `abs q = q.seq` -/
structure QRel (HInv : σ → List α → Prop) (q : QSet α σ) (l : List α) : Prop where
  abs : q.seq = l
  nodup : l.Nodup
  set : ∀ x, x ∈ q.set ↔ x ∈ l
  ext : HInv q.ext l

/-! ### small list facts -/

theorem nodup_insertIdx {l : List α} {k : Nat} {v : α} (h : l.Nodup) (hv : v ∉ l) (hk : k ≤ l.length) :
    (l.insertIdx k v).Nodup :=
  ((List.perm_insertIdx v l hk).nodup_iff).mpr (List.nodup_cons.mpr ⟨hv, h⟩)

theorem mem_eraseIdx_nodup {l : List α} {p : Nat} {v x : α} (h : l.Nodup) (hp : l[p]? = some v) :
    x ∈ l.eraseIdx p ↔ x ∈ l ∧ x ≠ v := by
  have hpl : p < l.length := by
    rcases Nat.lt_or_ge p l.length with h' | h'
    · exact h'
    · simp [List.getElem?_eq_none h'] at hp
  rw [List.mem_eraseIdx_iff_getElem?]
  constructor
  · rintro ⟨i, hi, hix⟩
    refine ⟨List.mem_of_getElem? hix, fun hxv => ?_⟩
    subst hxv
    exact hi ((List.getElem?_inj hpl h).mp (hp.trans hix.symm)).symm
  · rintro ⟨hx, hne⟩
    obtain ⟨i, hi⟩ := List.getElem?_of_mem hx
    refine ⟨i, fun hip => ?_, hi⟩
    subst hip
    exact hne (by simpa using hi.symm.trans hp)

theorem spec_has_toRef {S : Sig α ρ} (hk : ∀ v m, S.toRef v ∈ S.keys m ↔ m = v) (l : List α) (v : α) :
    Spec.has S l (S.toRef v) = decide (v ∈ l) := by
  unfold Spec.has
  rw [Bool.eq_iff_iff]
  simp only [List.any_eq_true, decide_eq_true_eq, hk]
  constructor
  · rintro ⟨m, hm, rfl⟩; exact hm
  · intro h; exact ⟨v, h, rfl⟩

theorem clashes_nil {S : Sig α ρ} (l leaving : List α) : Spec.clashes S l [] leaving = false := by
  simp [Spec.clashes]

theorem assignAt_single (l : List α) (p : Nat) (v : α) : assignAt l [p] [v] = l.set p v := by
  simp [assignAt]

theorem pickAt_single {l : List α} {p : Nat} {v : α} (h : l[p]? = some v) : pickAt l [p] = [v] := by
  simp [pickAt, h]

/-! ### the primitives -/

section
variable {H : Hooks α ρ σ} {S : Sig α ρ} {HInv : σ → List α → Prop} (ok : HooksOK H S HInv)
include ok

theorem QSet.has_sim {q : QSet α σ} {l : List α} (h : QRel HInv q l) (r : ρ) :
    QSet.has H q r = Spec.has S l r := ok.has_eq h.ext h.set r

theorem QSet.has_toRef {q : QSet α σ} {l : List α} (h : QRel HInv q l) (v : α) :
    QSet.has H q (H.toRef v) = decide (v ∈ l) := by
  rw [QSet.has_sim ok h, ok.toRef, spec_has_toRef ok.toRef_keys]

theorem QSet.getIdx_sim {q : QSet α σ} {l : List α} (h : QRel HInv q l) (i : Int) :
    QSet.getIdx q i = Spec.getIdx l i := by
  simp only [QSet.getIdx, Spec.getIdx, h.abs]
  cases normIdx l.length i with
  | none => rfl
  | some p => cases l[p]? <;> rfl

theorem QSet.insert_sim {q : QSet α σ} {l : List α} (h : QRel HInv q l) (i : Int) (v : α) :
    RelRes (QRel HInv) (QSet.insert H q i v) (Spec.insert S l i v) := by
  unfold QSet.insert Spec.insert
  rw [QSet.has_toRef ok h, ok.check_eq h.ext h.nodup [v] [] (by simp), h.abs]
  by_cases hv : v ∈ l
  · simp only [hv, decide_true, ↓reduceIte]; exact ⟨h, .err _⟩
  · simp only [hv, decide_false, Bool.false_eq_true, ↓reduceIte]
    cases hc : Spec.clashes S l [v] []
    · simp only [Bool.false_eq_true, ↓reduceIte]
      have hk := clampIdx_le l.length i
      have hm : ∀ x, x ∈ l.insertIdx (clampIdx l.length i) v ↔ x = v ∨ x ∈ l := fun x => List.mem_insertIdx hk
      refine ⟨⟨rfl, nodup_insertIdx h.nodup hv hk, ?_, ?_⟩, .ok .unit⟩
      · intro x; simp only [mem_sadd, h.set, hm]
      · refine ok.done_inv h.ext h.nodup [v] [] _ (by simp) (by simp) (nodup_insertIdx h.nodup hv hk) ?_ hc
        intro x; simp only [hm, List.not_mem_nil, not_false_eq_true, and_true, List.mem_singleton]; exact Or.comm
    · simp only [↓reduceIte]; exact ⟨h, .err _⟩

theorem QSet.delIdx_sim {q : QSet α σ} {l : List α} (h : QRel HInv q l) (i : Int) :
    RelRes (QRel HInv) (QSet.delIdx H q i) (Spec.delIdx l i) := by
  unfold QSet.delIdx Spec.delIdx
  rw [h.abs]
  cases hn : normIdx l.length i with
  | none => exact ⟨h, .err _⟩
  | some p =>
    have hp := normIdx_lt hn
    have hg : l[p]? = some l[p] := by simp [hp]
    simp only [hg]
    have hvl : l[p] ∈ l := List.getElem_mem _
    rw [ok.check_eq h.ext h.nodup [] [l[p]] (by simpa using hvl), clashes_nil]
    simp only [Bool.false_eq_true, ↓reduceIte]
    have hm : ∀ x, x ∈ l.eraseIdx p ↔ x ∈ l ∧ x ≠ l[p] := fun x => mem_eraseIdx_nodup h.nodup hg
    have hnd : (l.eraseIdx p).Nodup := (List.eraseIdx_sublist l p).nodup h.nodup
    refine ⟨⟨rfl, hnd, ?_, ?_⟩, .ok .unit⟩
    · intro x; simp only [mem_sdiff, h.set, hm, List.mem_singleton]
    · refine ok.done_inv h.ext h.nodup [] [l[p]] _ (by simpa using hvl) (by simp) hnd ?_ (clashes_nil _ _)
      intro x; simp only [hm, List.mem_singleton, List.not_mem_nil, or_false]

theorem QSet.delSlice_sim {q : QSet α σ} {l : List α} (h : QRel HInv q l) (s : Slice) :
    RelRes (QRel HInv) (QSet.delSlice H q s) (Spec.delSlice l s) := by
  unfold QSet.delSlice Spec.delSlice
  rw [h.abs]
  cases hs : sliceIdx s l.length with
  | none => exact ⟨h, .err _⟩
  | some idxs =>
    simp only
    rw [ok.check_eq h.ext h.nodup [] (pickAt l idxs) pickAt_subset, clashes_nil]
    simp only [Bool.false_eq_true, ↓reduceIte]
    have hm : ∀ x, x ∈ delAt l idxs ↔ x ∈ l ∧ x ∉ pickAt l idxs := fun x => mem_delAt_iff h.nodup
    refine ⟨⟨rfl, delAt_nodup h.nodup, ?_, ?_⟩, .ok .unit⟩
    · intro x; simp only [mem_sdiff, h.set, hm]
    · refine ok.done_inv h.ext h.nodup [] _ _ pickAt_subset (by simp) (delAt_nodup h.nodup) ?_ (clashes_nil _ _)
      intro x; simp only [hm, List.not_mem_nil, or_false]

theorem QSet.setIdx_sim {q : QSet α σ} {l : List α} (h : QRel HInv q l) (i : Int) (v : α) :
    RelRes (QRel HInv) (QSet.setIdx H q i v) (Spec.setIdx S l i v) := by
  unfold QSet.setIdx Spec.setIdx
  rw [h.abs]
  cases hn : normIdx l.length i with
  | none => exact ⟨h, .err _⟩
  | some p =>
    have hp := normIdx_lt hn
    have hg : l[p]? = some l[p] := by simp [hp]
    simp only [hg]
    generalize hold : l[p] = old at hg
    have hol : old ∈ l := hold ▸ List.getElem_mem _
    rw [QSet.has_toRef ok h, ok.check_eq h.ext h.nodup [v] [old] (by simpa using hol)]
    have hbool : (decide (v ∈ l) && v != old) = decide (v ∈ l ∧ v ≠ old) := by
      rw [Bool.eq_iff_iff]; simp
    rw [hbool]
    by_cases hd : v ∈ l ∧ v ≠ old
    · rw [if_pos (decide_eq_true hd), if_pos hd]; exact ⟨h, .err _⟩
    · rw [if_neg (fun hc => hd (of_decide_eq_true hc)), if_neg hd]
      cases hc : Spec.clashes S l [v] [old]
      · have hos : old ∈ q.set := (h.set old).mpr hol
        simp only [Bool.false_eq_true, ↓reduceIte, hos, not_true_eq_false]
        have hnd1 : ([p] : List Nat).Nodup := by simp
        have hb1 : ∀ x ∈ ([p] : List Nat), x < l.length := by simpa using hp
        have hpk := pickAt_single hg
        have hnd : (l.set p v).Nodup := by
          rw [← assignAt_single, assignAt_nodup_iff h.nodup hnd1 hb1 rfl, hpk]
          refine ⟨by simp, ?_⟩
          intro w hw hwl
          simp only [List.mem_singleton] at hw ⊢
          subst hw
          by_cases hwo : w = old
          · exact hwo
          · exact (hd ⟨hwl, hwo⟩).elim
        have hm : ∀ x, x ∈ l.set p v ↔ (x ∈ l ∧ x ∉ [old]) ∨ x ∈ [v] := by
          intro x; rw [← assignAt_single, mem_assignAt h.nodup hnd1 hb1 rfl, hpk]
        refine ⟨⟨rfl, hnd, ?_, ?_⟩, .ok .unit⟩
        · intro x
          simp only [mem_sadd, mem_sdel, h.set, hm, List.mem_singleton]
          exact Or.comm
        · exact ok.done_inv h.ext h.nodup [v] [old] _ (by simpa using hol) (by simp) hnd hm hc
      · simp only [↓reduceIte]; exact ⟨h, .err _⟩

theorem QSet.setSlice_sim {q : QSet α σ} {l : List α} (h : QRel HInv q l) (s : Slice) (vs : List α) :
    RelRes (QRel HInv) (QSet.setSlice H q s vs) (Spec.setSlice S l s vs) := by
  unfold QSet.setSlice Spec.setSlice
  rw [h.abs]
  cases hs : sliceIdx s l.length with
  | none => exact ⟨h, .err _⟩
  | some idxs =>
    obtain ⟨hnd, hb⟩ := sliceIdx_spec hs
    simp only
    by_cases hlen : idxs.length = vs.length
    · simp only [hlen, ne_eq, not_true_eq_false, ↓reduceIte]
      have hiff := assignAt_nodup_iff h.nodup hnd hb hlen
      -- the two Duplicate checks of the code are `¬ Nodup` of the result
      have hany : (vs.any fun v => QSet.has H q (H.toRef v) && !(pickAt l idxs).contains v) = true ↔
          ¬ ∀ v ∈ vs, v ∈ l → v ∈ pickAt l idxs := by
        simp only [List.any_eq_true, Bool.and_eq_true, QSet.has_toRef ok h, decide_eq_true_eq,
          Bool.not_eq_true', List.contains_eq_mem, decide_eq_false_iff_not]
        constructor
        · rintro ⟨v, hv, hvl, hn⟩ hall; exact hn (hall v hv hvl)
        · intro hnall
          refine Classical.byContradiction fun hne => hnall fun v hv hvl => ?_
          refine Classical.byContradiction fun hn => hne ⟨v, hv, hvl, hn⟩
      by_cases h1 : (vs.any fun v => QSet.has H q (H.toRef v) && !(pickAt l idxs).contains v) = true
      · have : ¬ (assignAt l idxs vs).Nodup := fun hn => (hany.mp h1) (hiff.mp hn).2
        simp only [h1, this, not_false_eq_true, ↓reduceIte]; exact ⟨h, .err _⟩
      · simp only [h1, Bool.false_eq_true, ↓reduceIte]
        have hall : ∀ v ∈ vs, v ∈ l → v ∈ pickAt l idxs := Classical.not_not.mp (fun hn => h1 (hany.mpr hn))
        by_cases h2 : (firstRepeat [] vs).isSome = true
        · have : ¬ (assignAt l idxs vs).Nodup := fun hn => (firstRepeat_isSome.mp h2) (hiff.mp hn).1
          simp only [h2, this, not_false_eq_true, ↓reduceIte]; exact ⟨h, .err _⟩
        · have hvs : vs.Nodup := Classical.not_not.mp (fun hn => h2 (firstRepeat_isSome.mpr hn))
          have hr : (assignAt l idxs vs).Nodup := hiff.mpr ⟨hvs, hall⟩
          simp only [h2, Bool.false_eq_true, ↓reduceIte, hr, not_true_eq_false]
          rw [ok.check_eq h.ext h.nodup vs (pickAt l idxs) pickAt_subset]
          cases hc : Spec.clashes S l vs (pickAt l idxs)
          · simp only [Bool.false_eq_true, ↓reduceIte]
            have hm : ∀ x, x ∈ assignAt l idxs vs ↔ (x ∈ l ∧ x ∉ pickAt l idxs) ∨ x ∈ vs :=
              fun x => mem_assignAt h.nodup hnd hb hlen
            refine ⟨⟨rfl, hr, ?_, ?_⟩, .ok .unit⟩
            · intro x; simp only [mem_supdate, mem_sdiff, h.set, hm]
            · exact ok.done_inv h.ext h.nodup vs _ _ pickAt_subset hvs hr hm hc
          · simp only [↓reduceIte]; exact ⟨h, .err _⟩
    · simp only [ne_eq, hlen, not_false_eq_true, ↓reduceIte]; exact ⟨h, .err _⟩

theorem QRel.of_perm {q : QSet α σ} {l l' : List α} (h : QRel HInv q l) (hp : l'.Perm l) :
    QRel HInv { q with seq := l' } l' :=
  ⟨rfl, hp.nodup_iff.mpr h.nodup, fun x => (h.set x).trans hp.mem_iff.symm,
   ok.congr h.ext fun _ => hp.mem_iff.symm⟩

theorem QSet.sort_sim {q : QSet α σ} {l : List α} (h : QRel HInv q l) (b : Bool) :
    RelRes (QRel HInv) (QSet.sort H q b) (Spec.sort S l b) := by
  unfold QSet.sort Spec.sort
  rw [h.abs, ok.le]
  refine ⟨QRel.of_perm ok h ?_, .ok .unit⟩
  cases b
  · exact List.mergeSort_perm _ _
  · exact (List.reverse_perm _).trans ((List.mergeSort_perm _ _).trans (List.reverse_perm _))

theorem QSet.reverse_sim {q : QSet α σ} {l : List α} (h : QRel HInv q l) :
    RelRes (QRel HInv) (QSet.reverse q) ((l.reverse, .ok .unit) : Res α (List α)) := by
  unfold QSet.reverse
  rw [h.abs]
  exact ⟨QRel.of_perm ok h (List.reverse_perm _), .ok .unit⟩

theorem QSet.remove_sim {q : QSet α σ} {l : List α} (h : QRel HInv q l) (r : ρ) :
    RelRes (QRel HInv) (QSet.remove H q r) (Spec.remove S l r) := by
  unfold QSet.remove Spec.remove seqIndex
  rw [QSet.has_sim ok h, h.abs, ok.refEq]
  cases Spec.has S l r
  · exact ⟨h, .err _⟩
  · simp only [Bool.not_true, Bool.false_eq_true, ↓reduceIte]
    have hget : ∀ p : Nat, QSet.getIdx q (p : Int) = match l[p]? with | some v => .ok v | none => .error .index := by
      intro p
      unfold QSet.getIdx
      rw [h.abs]
      by_cases hp : p < l.length
      · simp [normIdx_ofNat hp, hp]
      · have : normIdx l.length (p : Int) = none := by
          unfold normIdx
          have : ¬ ((p : Int) < 0) := by omega
          simp [this, hp]
        simp [this, List.getElem?_eq_none (Nat.le_of_not_lt hp)]
    have hscan := seqScan_eq l S.refEq r (QSet.getIdx q) hget 0 l.length (by simp)
    simp only [List.drop_zero, Nat.zero_add] at hscan
    rw [hscan]
    cases hf : List.findIdx? (S.refEq r) l with
    | none => exact ⟨h, .err _⟩
    | some p =>
      have hp : p < l.length := (List.findIdx?_eq_some_iff_findIdx_eq.mp hf).1
      have hd := QSet.delIdx_sim ok h (p : Int)
      unfold Spec.delIdx at hd
      rw [normIdx_ofNat hp] at hd
      exact hd

/-- `qset` (any hooks satisfying `HooksOK`) simulates the specification list -/
theorem QSet.sim : Sim (QSet.prims H) (Spec.prims S) (QRel HInv) where
  empty := ⟨rfl, List.nodup_nil, fun _ => Iff.rfl, ok.init⟩
  len h := by simp [QSet.prims, Spec.prims, h.abs]
  has h r := QSet.has_sim ok h r
  iter h := h.abs
  riter h := by simp [QSet.prims, Spec.prims, h.abs]
  getIdx h i := QSet.getIdx_sim ok h i
  insert h i v := QSet.insert_sim ok h i v
  remove h r := QSet.remove_sim ok h r
  delIdx h i := QSet.delIdx_sim ok h i
  delSlice h s := QSet.delSlice_sim ok h s
  setIdx h i v := QSet.setIdx_sim ok h i v
  setSlice h s vs := QSet.setSlice_sim ok h s vs
  reverse h := QSet.reverse_sim ok h
  clear h := ⟨⟨rfl, List.nodup_nil, fun _ => Iff.rfl, ok.clear _⟩, .ok .unit⟩
  copy h := ⟨h, .ok .unit⟩
  sort h := by
    simp only [QSet.prims, Spec.prims, ok.hasSort, ↓reduceIte]
    exact fun b => QSet.sort_sim ok h b
  wedge h := by simp [QSet.prims, Spec.prims, ok.hasWedge]
  toRef := ok.toRef
  rawRef := ok.rawRef
  refEq := ok.refEq

end
end Ptx.Cont
