/-
  Ptx.Proofs.LibModelSort — `sortByKey` (the mirror of `sorted(...)` under `Lexical.orderitems`):
  a rearrangement, ascending, and — when the order's equivalence is equality on the items — a
  function of the SET of items only.
-/
import Ptx.Sem.LibModel
import Ptx.Proofs.LangOrder
namespace Ptx.LibModel
open Ptx

variable {α : Type} (key : α → List Int)

/-- `a` comes no later than `b` -/
def KLe (a b : α) : Prop := cmpDiff (key a) (key b) ≤ 0

theorem KLe.total (a b : α) : KLe key a b ∨ KLe key b a := by
  unfold KLe
  have := cmpDiff_swap (key a) (key b)
  omega

theorem KLe.trans {a b c : α} (h1 : KLe key a b) (h2 : KLe key b c) : KLe key a c := cmpDiff_trans h1 h2

theorem insertByKey_perm (x : α) : ∀ (l : List α), (insertByKey key x l).Perm (x :: l)
  | [] => by simp [insertByKey]
  | y :: ys => by
      simp only [insertByKey]
      split
      · exact List.Perm.refl _
      · exact ((insertByKey_perm x ys).cons y).trans (List.Perm.swap x y ys)

theorem sortByKey_perm : ∀ (l : List α), (sortByKey key l).Perm l
  | [] => by simp [sortByKey]
  | x :: xs => by
      simp only [sortByKey]
      exact (insertByKey_perm key x _).trans ((sortByKey_perm xs).cons x)

theorem mem_sortByKey {l : List α} {x : α} : x ∈ sortByKey key l ↔ x ∈ l := (sortByKey_perm key l).mem_iff

theorem insertByKey_sorted (x : α) : ∀ (l : List α), l.Pairwise (KLe key) → (insertByKey key x l).Pairwise (KLe key)
  | [], _ => by simp [insertByKey]
  | y :: ys, h => by
      have hy := List.pairwise_cons.1 h
      simp only [insertByKey]
      split
      · next hxy =>
        refine List.pairwise_cons.2 ⟨?_, h⟩
        intro z hz
        rcases List.mem_cons.1 hz with rfl | hz
        · exact hxy
        · exact KLe.trans key hxy (hy.1 z hz)
      · next hxy =>
        refine List.pairwise_cons.2 ⟨?_, insertByKey_sorted x ys hy.2⟩
        intro z hz
        rcases List.mem_cons.1 ((insertByKey_perm key x ys).mem_iff.1 hz) with rfl | hz
        · rcases KLe.total key z y with h | h
          · exact absurd h hxy
          · exact h
        · exact hy.1 z hz

theorem sortByKey_sorted : ∀ (l : List α), (sortByKey key l).Pairwise (KLe key)
  | [] => by simp [sortByKey]
  | x :: xs => by simp only [sortByKey]; exact insertByKey_sorted key x _ (sortByKey_sorted xs)

/-- two rearrangements of one another sort to the same list when equivalent items are equal -/
theorem sortByKey_perm_eq {l₁ l₂ : List α} (hp : l₁.Perm l₂)
    (anti : ∀ a b, a ∈ l₁ → b ∈ l₁ → KLe key a b → KLe key b a → a = b) :
    sortByKey key l₁ = sortByKey key l₂ := by
  apply List.Perm.eq_of_pairwise (le := KLe key)
  · intro a b ha hb h1 h2
    exact anti a b ((mem_sortByKey key).1 ha) (hp.mem_iff.2 ((mem_sortByKey key).1 hb)) h1 h2
  · exact sortByKey_sorted key l₁
  · exact sortByKey_sorted key l₂
  · exact (sortByKey_perm key l₁).trans (hp.trans (sortByKey_perm key l₂).symm)

/-! ### the concrete keys are injective: equivalence under the order is equality -/

theorem cmpDiff_antisymm {a b : List Int} (h1 : cmpDiff a b ≤ 0) (h2 : cmpDiff b a ≤ 0) : cmpDiff a b = 0 := by
  have := cmpDiff_swap a b
  omega

theorem natKey_anti {a b : Nat} (h1 : KLe natKey a b) (h2 : KLe natKey b a) : a = b := by
  have h := cmpDiff_antisymm h1 h2
  simp only [natKey, cmpDiff] at h
  split at h
  · omega
  · next hh => simp at hh; omega

theorem sortNat_sorted (l : List Nat) : (sortByKey natKey l).Pairwise (· ≤ ·) := by
  apply (sortByKey_sorted natKey l).imp
  intro a b h
  simp only [KLe, natKey, cmpDiff] at h
  split at h
  · omega
  · next hh => simp at hh; omega

end Ptx.LibModel
