/-
  Ptx.Proofs.TabRenderInj — helper lemmas for C19: the plain-text rendering determines the NODES.

    A. `Marks.NodeDecodable`, `NodeOK` (decidable side conditions on the regenerated marks / string tables):
       the marks of the node macro are pairwise prefix-incomparable and start with a non-digit; the
       marks that can follow a sentence are prefix-incomparable with every non-blank symbol of the table,
       with the subscript opener and with `blank ++ infix symbol`; the table is decodable
       (`Write.DecodableG`, for the standard notation with the `E` / `E!` lookahead).
    B. `writeSent_tail_inj`: a written sentence followed by marks is read back uniquely (C12 machinery:
       `Write.render_inj_tail`, token-level injectivity of both writers).
    C. `nodeStr_inj`: the node macro is injective on regular non-closure nodes (field by field).
    D. `nodeTree_of_specN`: equal trees of read node strings ⇒ equal trees of nodes.
    E. `branches_of_nodeTree`: … ⇒ equal branches.
-/
import Ptx.Proofs.TabRender
import Ptx.Proofs.LangStdFol
namespace Ptx.Render
open Ptx Ptx.Sym Ptx.Parse

/-! ## A. side conditions -/

/-- the marks that can follow the sentence of a non-closure node, in the order of the macro -/
def Marks.nodeHeads (m : Marks) : List (List Chr) :=
  [m.world, m.desT, m.desF, m.acc1, m.ellipsis, m.tick, m.sep]

def nonDigitHead (l : List Chr) : Bool :=
  match l with
  | [] => false
  | c :: _ => !Write.isDigitChr c

/-- the node marks can be told apart: pairwise prefix-incomparable, none starts with a digit (a world
    number precedes them), and `Rw` of the access mark does not start with a digit either -/
def Marks.NodeDecodable (m : Marks) : Bool :=
  Write.pairwiseB Write.incomp m.nodeHeads && m.nodeHeads.all nonDigitHead && nonDigitHead m.acc2

def Notn.isStd : Notn → Bool
  | .polish => false
  | .standard _ => true

/-- the symbol tokens of the sentence streams: the Polish writer never writes the blank -/
def sentToks (std : Bool) (tb : StringTable) (mx : MaxIdx) : List Write.WTok :=
  if std then Write.symToks tb mx true else Write.polishSyms tb mx

/-- marks against a string table, for one notation -/
def NodeOK (m : Marks) (tb : StringTable) (mx : MaxIdx) (std : Bool) : Bool :=
  m.NodeDecodable && Write.DecodableG tb (sentToks std tb mx) std m.nodeHeads &&
  (!std || (tb.parenOpen.isSome && tb.parenClose.isSome && tb.negIdentity.isSome))

-- `RNode.regular` (the node classes of proof/common.py) and `RTree.allNodes` are vocabulary of Ptx/Tab/Render.lean

/-! ## B. sentences followed by marks -/

def Starts (L : List (List Chr)) (X : List Chr) : Prop := ∃ mk ∈ L, ∃ Y, X = mk ++ Y

theorem Starts.mono {L L' : List (List Chr)} {X : List Chr} (h : Starts L X) (hs : ∀ x ∈ L, x ∈ L') : Starts L' X := by
  obtain ⟨mk, hmk, Y, e⟩ := h
  exact ⟨mk, hs mk hmk, Y, e⟩

theorem Starts.tail {L : List (List Chr)} {X : List Chr} (h : Starts L X) : Write.Tail L X := Or.inr h

theorem starts_opt {mk : List Chr} {L : List (List Chr)} {P R : List Chr}
    (hP : P = [] ∨ ∃ Y, P = mk ++ Y) (hR : Starts L R) : Starts (mk :: L) (P ++ R) := by
  rcases hP with rfl | ⟨Y, rfl⟩
  · exact hR.mono (fun x hx => List.mem_cons_of_mem _ hx)
  · exact ⟨mk, List.mem_cons_self, Y ++ R, by simp⟩

/-- the token stream of an optional sentence -/
def optToks (nt : Notn) : Option Sent → List Write.WTok
  | none => []
  | some s => match nt with
    | .polish => Write.polishToks s
    | .standard o => Write.standardToks o s

theorem optStr_writeSent (tb : StringTable) (nt : Notn) (s : Option Sent) :
    optStr s (writeSent tb nt) = Write.render tb (optToks nt s) := by
  cases s with
  | none => simp [optStr, optToks, Write.render]
  | some s => cases nt <;> simp [optStr, optToks, writeSent, Write.writePolish, Write.writeStandard]

theorem optToks_inj (mx : MaxIdx) (nt : Notn) (s1 s2 : Option Sent)
    (c1 : ∀ s ∈ s1, Write.Constructible mx s) (c2 : ∀ s ∈ s2, Write.Constructible mx s)
    (h : optToks nt s1 = optToks nt s2) : s1 = s2 := by
  cases s1 with
  | none =>
    cases s2 with
    | none => rfl
    | some s2 =>
      cases nt with
      | polish => exact absurd h.symm (Write.polishToks_ne_nil s2)
      | standard o => exact absurd h.symm (Write.standardToks_ne_nil o s2)
  | some s1 =>
    cases s2 with
    | none =>
      cases nt with
      | polish => exact absurd h (Write.polishToks_ne_nil s1)
      | standard o => exact absurd h (Write.standardToks_ne_nil o s1)
    | some s2 =>
      have c1 := c1 s1 rfl
      have c2 := c2 s2 rfl
      cases nt with
      | polish =>
        have := Write.polishToks_inj mx s1 s2 [] [] (by simpa [optToks] using h) c1 c2
          (by intro t ht; simp at ht) (by intro t ht; simp at ht)
        rw [this.1]
      | standard o => rw [Write.standardToks_inj mx o s1 s2 c1 c2 h]

section
variable {m : Marks} {tb : StringTable} {mx : MaxIdx} {std : Bool}

theorem optToks_adm_fol (hn : NodeOK m tb mx std = true) (nt : Notn) (hs : nt.isStd = std) (s : Option Sent)
    (c : ∀ x ∈ s, Write.Constructible mx x) :
    Write.Adm (sentToks std tb mx) (optToks nt s) ∧ Write.Fol std none (optToks nt s) := by
  cases s with
  | none => exact ⟨trivial, fun _ => rfl⟩
  | some s =>
    have c := c s rfl
    cases nt with
    | polish =>
      simp only [Notn.isStd] at hs
      subst hs
      have nn : Write.NoSub ([] : List Write.WTok) := Write.tstops_nil.noSub
      have a := Write.adm_polish (Write.hasToks_polishSyms tb mx) rfl s [] c trivial nn
      simp only [List.append_nil] at a
      exact ⟨by simpa [sentToks, optToks] using a, Write.fol_false _ _⟩
    | standard o =>
      simp only [Notn.isStd] at hs
      subst hs
      simp only [NodeOK, Bool.and_eq_true, Bool.not_true, Bool.false_or] at hn
      have ht := Write.hasToks_symToks tb mx true
      have hp : (tb.parenOpen.isSome && tb.parenClose.isSome && tb.negIdentity.isSome) = true := by
        simpa [Bool.and_eq_true, and_assoc] using hn.2
      rw [hp] at ht
      exact ⟨by simpa [sentToks, optToks] using Write.adm_standard ht o s c (Or.inl rfl),
        by simpa [optToks] using Write.fol_standard mx o s c⟩

/-- a written (optional) sentence followed by node marks is read back uniquely -/
theorem writeSent_tail_inj (hn : NodeOK m tb mx std = true) (nt : Notn) (hs : nt.isStd = std)
    (s1 s2 : Option Sent) (c1 : ∀ s ∈ s1, Write.Constructible mx s) (c2 : ∀ s ∈ s2, Write.Constructible mx s)
    (X1 X2 : List Chr) (x1 : Starts m.nodeHeads X1) (x2 : Starts m.nodeHeads X2)
    (h : optStr s1 (writeSent tb nt) ++ X1 = optStr s2 (writeSent tb nt) ++ X2) : s1 = s2 ∧ X1 = X2 := by
  rw [optStr_writeSent, optStr_writeSent] at h
  obtain ⟨a1, f1⟩ := optToks_adm_fol hn nt hs s1 c1
  obtain ⟨a2, f2⟩ := optToks_adm_fol hn nt hs s2 c2
  have hd : Write.DecodableG tb (sentToks std tb mx) std m.nodeHeads = true := by
    simp only [NodeOK, Bool.and_eq_true] at hn; exact hn.1.2
  obtain ⟨e, ex⟩ := Write.render_inj_tail (Write.DecodableP.of_boolG hd) _ _ none X1 X2 a1 a2 f1 f2 x1.tail x2.tail h
  exact ⟨optToks_inj mx nt s1 s2 c1 c2 e, ex⟩

end

/-! ## C. the node macro, field by field -/

theorem headNonDigit_of_starts {L : List (List Chr)} {X : List Chr} (hL : ∀ x ∈ L, nonDigitHead x = true)
    (h : Starts L X) : Write.HeadNonDigit X := by
  obtain ⟨mk, hmk, Y, rfl⟩ := h
  have := hL mk hmk
  cases mk with
  | nil => simp [nonDigitHead] at this
  | cons c tl =>
    intro c' hc'
    simp only [List.cons_append, List.head?_cons, Option.mem_def, Option.some.injEq] at hc'
    rw [← hc']; simpa [nonDigitHead] using this

theorem headNonDigit_append {a : List Chr} (R : List Chr) (h : nonDigitHead a = true) : Write.HeadNonDigit (a ++ R) := by
  cases a with
  | nil => simp [nonDigitHead] at h
  | cons c tl =>
    intro c' hc'
    simp only [List.cons_append, List.head?_cons, Option.mem_def, Option.some.injEq] at hc'
    rw [← hc']; simpa [nonDigitHead] using h

theorem decStr_inj {a b : Nat} {F1 F2 : List Chr} (f1 : Write.HeadNonDigit F1) (f2 : Write.HeadNonDigit F2)
    (h : decStr a ++ F1 = decStr b ++ F2) : a = b ∧ F1 = F2 := by
  obtain ⟨e1, e2⟩ := Write.digits_inj _ _ _ _ (decDigits_lt a) (decDigits_lt b) f1 f2 h
  exact ⟨Write.decDigits_inj e1, e2⟩

/-- an optional mark -/
theorem cancel_opt {mk : List Chr} {L : List (List Chr)} (hinc : ∀ x ∈ L, Write.incomp mk x = true)
    (b1 b2 : Bool) {R1 R2 : List Chr} (r1 : Starts L R1) (r2 : Starts L R2)
    (h : (if b1 then mk else []) ++ R1 = (if b2 then mk else []) ++ R2) : b1 = b2 ∧ R1 = R2 := by
  cases b1 <;> cases b2
  · exact ⟨rfl, by simpa using h⟩
  · obtain ⟨x, hx, Y, rfl⟩ := r1
    simp only [Bool.false_eq_true, ↓reduceIte, List.nil_append] at h
    exact (Write.incomp_absurd (hinc x hx) h.symm).elim
  · obtain ⟨x, hx, Y, rfl⟩ := r2
    simp only [Bool.false_eq_true, ↓reduceIte, List.nil_append] at h
    exact (Write.incomp_absurd (hinc x hx) h).elim
  · exact ⟨rfl, by simpa using h⟩

/-- the optional world mark with its number -/
theorem cancel_world {mk : List Chr} {L : List (List Chr)} (hinc : ∀ x ∈ L, Write.incomp mk x = true)
    (hL : ∀ x ∈ L, nonDigitHead x = true)
    (w1 w2 : Option Nat) {R1 R2 : List Chr} (r1 : Starts L R1) (r2 : Starts L R2)
    (h : optStr w1 (fun w => mk ++ decStr w) ++ R1 = optStr w2 (fun w => mk ++ decStr w) ++ R2) :
    w1 = w2 ∧ R1 = R2 := by
  cases w1 <;> cases w2
  · exact ⟨rfl, by simpa [optStr] using h⟩
  · obtain ⟨x, hx, Y, rfl⟩ := r1
    simp only [optStr, List.nil_append, List.append_assoc] at h
    exact (Write.incomp_absurd (hinc x hx) h.symm).elim
  · obtain ⟨x, hx, Y, rfl⟩ := r2
    simp only [optStr, List.nil_append, List.append_assoc] at h
    exact (Write.incomp_absurd (hinc x hx) h).elim
  · simp only [optStr, List.append_assoc] at h
    obtain ⟨e, er⟩ := decStr_inj (headNonDigit_of_starts hL r1) (headNonDigit_of_starts hL r2) (List.append_cancel_left h)
    exact ⟨by rw [e], er⟩

def accStr (m : Marks) (a b : Option Nat) : List Chr :=
  match a, b with
  | some a, some b => m.acc1 ++ decStr a ++ m.acc2 ++ decStr b
  | _, _ => []

/-- the optional access mark -/
theorem cancel_access {m : Marks} {L : List (List Chr)} (hinc : ∀ x ∈ L, Write.incomp m.acc1 x = true)
    (hL : ∀ x ∈ L, nonDigitHead x = true) (h2 : nonDigitHead m.acc2 = true)
    (a1 b1 a2 b2 : Option Nat) (p1 : a1.isSome = b1.isSome) (p2 : a2.isSome = b2.isSome)
    {R1 R2 : List Chr} (r1 : Starts L R1) (r2 : Starts L R2)
    (h : accStr m a1 b1 ++ R1 = accStr m a2 b2 ++ R2) : a1 = a2 ∧ b1 = b2 ∧ R1 = R2 := by
  cases a1 <;> cases b1 <;> simp at p1 <;> cases a2 <;> cases b2 <;> simp at p2
  · exact ⟨rfl, rfl, by simpa [accStr] using h⟩
  · obtain ⟨x, hx, Y, rfl⟩ := r1
    simp only [accStr, List.nil_append, List.append_assoc] at h
    exact (Write.incomp_absurd (hinc x hx) h.symm).elim
  · obtain ⟨x, hx, Y, rfl⟩ := r2
    simp only [accStr, List.nil_append, List.append_assoc] at h
    exact (Write.incomp_absurd (hinc x hx) h).elim
  · simp only [accStr, List.append_assoc] at h
    obtain ⟨e1, h'⟩ := decStr_inj (headNonDigit_append _ h2) (headNonDigit_append _ h2) (List.append_cancel_left h)
    obtain ⟨e2, er⟩ := decStr_inj (headNonDigit_of_starts hL r1) (headNonDigit_of_starts hL r2) (List.append_cancel_left h')
    exact ⟨by rw [e1], by rw [e2], er⟩

/-- the node string of a non-closure node, right-nested -/
theorem nodeStr_nested (m : Marks) (lw : Sent → List Chr) (n : RNode) (hc : n.isClosure = false) :
    nodeStr m lw n = optStr n.sentence lw ++ (optStr n.world (fun w => m.world ++ decStr w) ++
      ((if n.designated == some true then m.desT else []) ++ ((if n.designated == some false then m.desF else []) ++
      (accStr m n.world1 n.world2 ++ ((if n.ellipsis then m.ellipsis else []) ++
      ((if n.ticked then m.tick else []) ++ m.sep)))))) := by
  simp only [nodeStr, nodeBody, nodeTerm, hc, accStr, List.append_assoc, beq_iff_eq]
  rfl

theorem opt_shape (b : Bool) (mk : List Chr) : (if b then mk else []) = [] ∨ ∃ Y, (if b then mk else []) = mk ++ Y := by
  cases b
  · exact Or.inl rfl
  · exact Or.inr ⟨[], by simp⟩

theorem world_shape (m : Marks) (w : Option Nat) :
    optStr w (fun w => m.world ++ decStr w) = [] ∨ ∃ Y, optStr w (fun w => m.world ++ decStr w) = m.world ++ Y := by
  cases w
  · exact Or.inl rfl
  · exact Or.inr ⟨_, rfl⟩

theorem acc_shape (m : Marks) (a b : Option Nat) : accStr m a b = [] ∨ ∃ Y, accStr m a b = m.acc1 ++ Y := by
  cases a <;> cases b <;> simp [accStr]

theorem RNode.ext' {a b : RNode} (h1 : a.sentence = b.sentence) (h2 : a.world = b.world) (h3 : a.designated = b.designated)
    (h4 : a.world1 = b.world1) (h5 : a.world2 = b.world2) (h6 : a.ellipsis = b.ellipsis) (h7 : a.ticked = b.ticked)
    (h8 : a.flag = b.flag) : a = b := by
  cases a; cases b; simp_all

theorem des_of_bools {d1 d2 : Option Bool} (hT : (d1 == some true) = (d2 == some true))
    (hF : (d1 == some false) = (d2 == some false)) : d1 = d2 := by
  rcases d1 with _ | _ | _ <;> rcases d2 with _ | _ | _ <;> simp_all

/-- the node macro is injective on regular non-closure nodes -/
theorem nodeStr_inj {m : Marks} {tb : StringTable} {mx : MaxIdx} {std : Bool} (hn : NodeOK m tb mx std = true)
    (nt : Notn) (hs : nt.isStd = std) (n1 n2 : RNode) (k1 : n1.isClosure = false) (k2 : n2.isClosure = false)
    (g1 : n1.regular mx = true) (g2 : n2.regular mx = true)
    (h : nodeStr m (writeSent tb nt) n1 = nodeStr m (writeSent tb nt) n2) : n1 = n2 := by
  have hm : m.NodeDecodable = true := by simp only [NodeOK, Bool.and_eq_true] at hn; exact hn.1.1
  simp only [Marks.NodeDecodable, Marks.nodeHeads, Write.pairwiseB, List.all_cons, List.all_nil, Bool.and_true,
    Bool.and_eq_true] at hm
  obtain ⟨⟨⟨⟨i12, i13, i14, i15, i16, i17⟩, ⟨i23, i24, i25, i26, i27⟩, ⟨i34, i35, i36, i37⟩, ⟨i45, i46, i47⟩,
    ⟨i56, i57⟩, i67⟩, d1, d2, d3, d4, d5, d6, d7⟩, dacc⟩ := hm
  simp only [RNode.regular, Bool.and_eq_true, beq_iff_eq, Bool.or_eq_true, bne_iff_ne, ne_eq] at g1 g2
  obtain ⟨⟨⟨p1, c1⟩, q1⟩, ne1⟩ := g1
  obtain ⟨⟨⟨p2, c2⟩, q2⟩, ne2⟩ := g2
  rw [nodeStr_nested m _ n1 k1, nodeStr_nested m _ n2 k2] at h
  -- the suffixes start with one of the later marks
  have s7 : ∀ n : RNode, Starts [m.tick, m.sep] ((if n.ticked then m.tick else []) ++ m.sep) :=
    fun n => starts_opt (opt_shape _ _) ⟨m.sep, by simp, [], by simp⟩
  have s6 : ∀ n : RNode, Starts [m.ellipsis, m.tick, m.sep] _ := fun n => starts_opt (opt_shape n.ellipsis m.ellipsis) (s7 n)
  have s5 : ∀ n : RNode, Starts [m.acc1, m.ellipsis, m.tick, m.sep] _ := fun n => starts_opt (acc_shape m n.world1 n.world2) (s6 n)
  have s4 : ∀ n : RNode, Starts [m.desF, m.acc1, m.ellipsis, m.tick, m.sep] _ :=
    fun n => starts_opt (opt_shape (n.designated == some false) m.desF) (s5 n)
  have s3 : ∀ n : RNode, Starts [m.desT, m.desF, m.acc1, m.ellipsis, m.tick, m.sep] _ :=
    fun n => starts_opt (opt_shape (n.designated == some true) m.desT) (s4 n)
  have s2 : ∀ n : RNode, Starts m.nodeHeads _ := fun n => starts_opt (world_shape m n.world) (s3 n)
  have cs : ∀ n : RNode, (match n.sentence with | some s => arityOK s && indexOK mx s | none => true) = true →
      ∀ s ∈ n.sentence, Write.Constructible mx s := by
    intro n hc s hs
    simp only [Option.mem_def] at hs
    rw [hs] at hc
    simpa [Write.Constructible, Bool.and_eq_true] using hc
  obtain ⟨eS, h⟩ := writeSent_tail_inj hn nt hs n1.sentence n2.sentence (cs n1 c1) (cs n2 c2) _ _ (s2 n1) (s2 n2) h
  obtain ⟨eW, h⟩ := cancel_world (L := [m.desT, m.desF, m.acc1, m.ellipsis, m.tick, m.sep])
    (by intro x hx; simp only [List.mem_cons, List.not_mem_nil, or_false] at hx
        rcases hx with rfl | rfl | rfl | rfl | rfl | rfl <;> assumption)
    (by intro x hx; simp only [List.mem_cons, List.not_mem_nil, or_false] at hx
        rcases hx with rfl | rfl | rfl | rfl | rfl | rfl <;> assumption)
    n1.world n2.world (s3 n1) (s3 n2) h
  obtain ⟨eT, h⟩ := cancel_opt (L := [m.desF, m.acc1, m.ellipsis, m.tick, m.sep])
    (by intro x hx; simp only [List.mem_cons, List.not_mem_nil, or_false] at hx
        rcases hx with rfl | rfl | rfl | rfl | rfl <;> assumption)
    _ _ (s4 n1) (s4 n2) h
  obtain ⟨eF, h⟩ := cancel_opt (L := [m.acc1, m.ellipsis, m.tick, m.sep])
    (by intro x hx; simp only [List.mem_cons, List.not_mem_nil, or_false] at hx
        rcases hx with rfl | rfl | rfl | rfl <;> assumption)
    _ _ (s5 n1) (s5 n2) h
  obtain ⟨eA1, eA2, h⟩ := cancel_access (L := [m.ellipsis, m.tick, m.sep])
    (by intro x hx; simp only [List.mem_cons, List.not_mem_nil, or_false] at hx
        rcases hx with rfl | rfl | rfl <;> assumption)
    (by intro x hx; simp only [List.mem_cons, List.not_mem_nil, or_false] at hx
        rcases hx with rfl | rfl | rfl <;> assumption)
    dacc n1.world1 n1.world2 n2.world1 n2.world2 p1 p2 (s6 n1) (s6 n2) h
  obtain ⟨eE, h⟩ := cancel_opt (L := [m.tick, m.sep])
    (by intro x hx; simp only [List.mem_cons, List.not_mem_nil, or_false] at hx
        rcases hx with rfl | rfl <;> assumption)
    _ _ (s7 n1) (s7 n2) h
  obtain ⟨eK, _⟩ := cancel_opt (L := [m.sep])
    (by intro x hx; simp only [List.mem_cons, List.not_mem_nil, or_false] at hx
        rcases hx with rfl; assumption)
    _ _ ⟨m.sep, by simp, [], by simp⟩ ⟨m.sep, by simp, [], by simp⟩ h
  have eD := des_of_bools eT eF
  -- the flag: none or quit on both sides; quit only on the bare flag node, which is not the empty record
  by_cases hf : n1.flag = n2.flag
  · exact RNode.ext' eS eW eD eA1 eA2 eE eK hf
  · exfalso
    have fl : ∀ n : RNode, n.isClosure = false → n.flag = none ∨ n.flag = some .quit := by
      intro n hn
      rcases hfl : n.flag with _ | _ | _
      · exact Or.inl rfl
      · simp [RNode.isClosure, hfl] at hn
      · exact Or.inr rfl
    rcases fl n1 k1 with f1 | f1 <;> rcases fl n2 k2 with f2 | f2
    · exact hf (by rw [f1, f2])
    · rcases q2 with q2 | q2
      · exact q2 f2
      · apply ne1
        subst q2
        exact RNode.ext' eS eW eD eA1 eA2 eE eK f1
    · rcases q1 with q1 | q1
      · exact q1 f1
      · apply ne2
        subst q1
        exact RNode.ext' eS.symm eW.symm eD.symm eA1.symm eA2.symm eE.symm eK.symm f2
    · exact hf (by rw [f1, f2])

/-! ## D. trees of nodes -/

/-- the tree of node lists: a tableau tree without what the text writer does not read (the numeric value
    of the depths, the `closed` attribute) -/
inductive NodeTree where
  | mk (nodes : List RNode) (children : List NodeTree)
  deriving Repr, Inhabited

mutual
def RTree.nodeTree : RTree → NodeTree
  | .mk _ ns cs _ => .mk ns (RTree.nodeTreeL cs)
def RTree.nodeTreeL : List RTree → List NodeTree
  | [] => []
  | c :: r => RTree.nodeTree c :: RTree.nodeTreeL r
end

theorem closureLast_decomp : ∀ (ns : List RNode), RTree.closureLast ns = true →
    ns = ns.filter nonClosure ++ (if (ns.getLast?.map RNode.isClosure).getD false then [RNode.closureNode] else [])
  | [], _ => by simp
  | [n], h => by
    simp only [RTree.closureLast, Bool.or_eq_true, Bool.not_eq_true', beq_iff_eq] at h
    rcases h with h | h
    · simp [nonClosure, h]
    · subst h; simp [nonClosure, RNode.closureNode, RNode.isClosure]
  | n :: n' :: r, h => by
    simp only [RTree.closureLast, Bool.and_eq_true, Bool.not_eq_true'] at h
    have ih := closureLast_decomp (n' :: r) h.2
    have hl : (n :: n' :: r).getLast? = (n' :: r).getLast? := by simp [List.getLast?_cons_cons]
    rw [hl, List.filter_cons_of_pos (by simp [nonClosure, h.1]), List.cons_append, ← ih]

theorem map_inj_on {α β} (f : α → β) : ∀ (l1 l2 : List α),
    (∀ a ∈ l1, ∀ b ∈ l2, f a = f b → a = b) → l1.map f = l2.map f → l1 = l2
  | [], [], _, _ => rfl
  | [], _ :: _, _, h => by simp at h
  | _ :: _, [], _, h => by simp at h
  | a :: l1, b :: l2, hinj, h => by
    simp only [List.map_cons, List.cons.injEq] at h
    have e := hinj a (by simp) b (by simp) h.1
    have := map_inj_on f l1 l2 (fun x hx y hy => hinj x (by simp [hx]) y (by simp [hy])) h.2
    rw [e, this]

section
variable {m : Marks} {tb : StringTable} {mx : MaxIdx} {std : Bool}

/-- one structure: the read node strings and trailing mark determine the node list -/
theorem nodes_of_spec (hn : NodeOK m tb mx std = true) (hcl : m.closure ≠ []) (nt : Notn) (hs : nt.isStd = std)
    (ns1 ns2 : List RNode) (c1 : RTree.closureLast ns1 = true) (c2 : RTree.closureLast ns2 = true)
    (g1 : ns1.all (RNode.regular mx) = true) (g2 : ns2.all (RNode.regular mx) = true)
    (h : (ns1.filter nonClosure).map (nodeStr m (writeSent tb nt)) = (ns2.filter nonClosure).map (nodeStr m (writeSent tb nt)))
    (ht : trailMark m ns1 = trailMark m ns2) : ns1 = ns2 := by
  have e := map_inj_on _ _ _ (by
    intro a ha b hb hab
    have ha' := List.mem_filter.mp ha
    have hb' := List.mem_filter.mp hb
    exact nodeStr_inj hn nt hs a b (by simpa [nonClosure] using ha'.2) (by simpa [nonClosure] using hb'.2)
      (List.all_eq_true.mp g1 a ha'.1) (List.all_eq_true.mp g2 b hb'.1) hab) h
  have hl : (ns1.getLast?.map RNode.isClosure).getD false = (ns2.getLast?.map RNode.isClosure).getD false := by
    simp only [trailMark] at ht
    cases h1 : (ns1.getLast?.map RNode.isClosure).getD false <;>
      cases h2 : (ns2.getLast?.map RNode.isClosure).getD false <;> simp_all
  rw [closureLast_decomp ns1 c1, closureLast_decomp ns2 c2, e, hl]

mutual
theorem nodeTree_of_specN (hn : NodeOK m tb mx std = true) (hcl : m.closure ≠ []) (nt : Notn) (hs : nt.isStd = std) :
    ∀ (t1 t2 : RTree), RTree.closureOK t1 = true → RTree.closureOK t2 = true →
      RTree.allNodes (RNode.regular mx) t1 = true → RTree.allNodes (RNode.regular mx) t2 = true →
      specN m (writeSent tb nt) t1 = specN m (writeSent tb nt) t2 → t1.nodeTree = t2.nodeTree
  | .mk d1 ns1 cs1 cl1, .mk d2 ns2 cs2 cl2, c1, c2, g1, g2, h => by
    simp only [specN, NTree.mk.injEq] at h
    simp only [RTree.allNodes, Bool.and_eq_true] at g1 g2
    have hk1 : RTree.closureOKL cs1 = true := by
      cases cs1 with
      | nil => simp [RTree.closureOKL]
      | cons c r => simp only [RTree.closureOK, Bool.and_eq_true] at c1; exact c1.2
    have hk2 : RTree.closureOKL cs2 = true := by
      cases cs2 with
      | nil => simp [RTree.closureOKL]
      | cons c r => simp only [RTree.closureOK, Bool.and_eq_true] at c2; exact c2.2
    simp only [RTree.nodeTree, NodeTree.mk.injEq]
    exact ⟨nodes_of_spec hn hcl nt hs ns1 ns2 (closureLast_of_closureOK c1) (closureLast_of_closureOK c2) g1.1 g2.1 h.1 h.2.1,
      nodeTreeL_of_specNL hn hcl nt hs cs1 cs2 hk1 hk2 g1.2 g2.2 h.2.2⟩
theorem nodeTreeL_of_specNL (hn : NodeOK m tb mx std = true) (hcl : m.closure ≠ []) (nt : Notn) (hs : nt.isStd = std) :
    ∀ (cs1 cs2 : List RTree), RTree.closureOKL cs1 = true → RTree.closureOKL cs2 = true →
      RTree.allNodesL (RNode.regular mx) cs1 = true → RTree.allNodesL (RNode.regular mx) cs2 = true →
      specNL m (writeSent tb nt) cs1 = specNL m (writeSent tb nt) cs2 → RTree.nodeTreeL cs1 = RTree.nodeTreeL cs2
  | [], [], _, _, _, _, _ => rfl
  | [], _ :: _, _, _, _, _, h => by simp [specNL] at h
  | _ :: _, [], _, _, _, _, h => by simp [specNL] at h
  | a :: r1, b :: r2, c1, c2, g1, g2, h => by
    simp only [specNL, List.cons.injEq] at h
    simp only [RTree.closureOKL, Bool.and_eq_true] at c1 c2
    simp only [RTree.allNodesL, Bool.and_eq_true] at g1 g2
    simp only [RTree.nodeTreeL, List.cons.injEq]
    exact ⟨nodeTree_of_specN hn hcl nt hs a b c1.1 c2.1 g1.1 g2.1 h.1,
      nodeTreeL_of_specNL hn hcl nt hs r1 r2 c1.2 c2.2 g1.2 g2.2 h.2⟩
end

end

/-! ## E. branches -/

mutual
/-- on closure-well-formed trees the branches (nodes in branch order, `closed` of the leaf) are a function of
    the tree of nodes -/
theorem branches_of_nodeTree : ∀ (t1 t2 : RTree), RTree.closureOK t1 = true → RTree.closureOK t2 = true →
    t1.nodeTree = t2.nodeTree → t1.branches = t2.branches
  | .mk d1 ns1 cs1 cl1, .mk d2 ns2 cs2 cl2, c1, c2, h => by
    simp only [RTree.nodeTree, NodeTree.mk.injEq] at h
    obtain ⟨rfl, hk⟩ := h
    cases cs1 with
    | nil =>
      cases cs2 with
      | nil =>
        simp only [RTree.closureOK, Bool.and_eq_true, beq_iff_eq] at c1 c2
        simp only [RTree.branches]
        rw [c1.2, c2.2]
      | cons b r2 => simp [RTree.nodeTreeL] at hk
    | cons a r =>
      cases cs2 with
      | nil => simp [RTree.nodeTreeL] at hk
      | cons b r2 =>
        simp only [RTree.closureOK, Bool.and_eq_true] at c1 c2
        simp only [RTree.branches]
        rw [branchesL_of_nodeTreeL (a :: r) (b :: r2) c1.2 c2.2 hk]
theorem branchesL_of_nodeTreeL : ∀ (cs1 cs2 : List RTree), RTree.closureOKL cs1 = true → RTree.closureOKL cs2 = true →
    RTree.nodeTreeL cs1 = RTree.nodeTreeL cs2 → RTree.branchesL cs1 = RTree.branchesL cs2
  | [], [], _, _, _ => rfl
  | [], _ :: _, _, _, h => by simp [RTree.nodeTreeL] at h
  | _ :: _, [], _, _, h => by simp [RTree.nodeTreeL] at h
  | a :: r1, b :: r2, c1, c2, h => by
    simp only [RTree.nodeTreeL, List.cons.injEq] at h
    simp only [RTree.closureOKL, Bool.and_eq_true] at c1 c2
    simp only [RTree.branchesL]
    rw [branches_of_nodeTree a b c1.1 c2.1 h.1, branchesL_of_nodeTreeL r1 r2 c1.2 c2.2 h.2]
end

end Ptx.Render
