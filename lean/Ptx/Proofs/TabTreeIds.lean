/-
  Ptx.Proofs.TabTreeIds — the node-identity invariant `IdInv` of the event record: every branch ends
  with a node of its own, nodes of branch `i` held by other branches lie strictly before `i`'s last
  node, and the same identity at the same position is the same object.  It holds after the trunk and
  is preserved by every legal step of a logic whose rules add at least one node on every branch they
  make (`LogicData.addsNonempty`).  From it: the hypotheses of the leaves theorem
  (Ptx/Proofs/TabTreeLeaves.lean) for `bk.tbs`.
-/
import Ptx.Proofs.TabTreeInvStep
import Ptx.Proofs.TabTreeLeaves
namespace Ptx
open TabTree

structure IdInv (bk : Book) : Prop where
  /-- every branch ends with a node that was appended to it -/
  last_own : ∀ (i : Nat) (r : BRec), bk.recs[i]? = some r → ∃ o, r.objs.getLast? = some o ∧ o.orig = i
  /-- a node of branch `i` on another branch lies strictly before `i`'s last node -/
  before_last : ∀ (i j : Nat) (ri rj : BRec) (p : Nat) (o : NObj), i ≠ j → bk.recs[i]? = some ri → bk.recs[j]? = some rj →
      rj.objs[p]? = some o → o.orig = i → p + 1 < ri.objs.length
  /-- same identity at the same position ⇒ same object (content and recorded step) -/
  coherent : ∀ (i j : Nat) (ri rj : BRec) (p : Nat) (o o' : NObj), bk.recs[i]? = some ri → bk.recs[j]? = some rj →
      ri.objs[p]? = some o → rj.objs[p]? = some o' → o.orig = o'.orig → o = o'

namespace TabTree

theorem idinv_init (L : LogicData) (arg : Argument) : IdInv (Book.init (trunkNodes L arg)) := by
  have h0 : ∀ (i : Nat) (r : BRec), (Book.init (trunkNodes L arg)).recs[i]? = some r →
      i = 0 ∧ r = { objs := (trunkNodes L arg).map (fun n => ⟨0, n, 0⟩) } := by
    intro i r hr
    have hi : i = 0 := by
      have := (List.getElem?_eq_some_iff.1 hr).1
      simp [Book.init] at this; exact this
    subst hi
    simp only [Book.init, List.getElem?_cons_zero, Option.some.injEq] at hr
    exact ⟨rfl, hr.symm⟩
  refine { last_own := ?_, before_last := ?_, coherent := ?_ }
  · intro i r hr
    obtain ⟨rfl, rfl⟩ := h0 i r hr
    obtain ⟨s, d, w, hl⟩ := trunkNodes_last L arg
    refine ⟨⟨0, .sent s d w, 0⟩, ?_, rfl⟩
    simp [List.getLast?_map, hl]
  · intro i j ri rj p o hij hi hj
    obtain ⟨rfl, _⟩ := h0 i ri hi
    obtain ⟨rfl, _⟩ := h0 j rj hj
    exact (hij rfl).elim
  · intro i j ri rj p o o' hi hj ho ho' _
    obtain ⟨rfl, rfl⟩ := h0 i ri hi
    obtain ⟨rfl, rfl⟩ := h0 j rj hj
    rw [ho] at ho'; exact Option.some.inj ho'

section
variable {L : LogicData} {arg : Argument} {bk : Book} {s : Step} {i : Nat} {old : Branch} {r : BRec}
  {g0 : List Node} {gs : List (List Node)} {tk : Option Nat}

/-- every record after the step is an old record followed by nodes of the branch's own -/
theorem rec_decomp (hinv : TabInv L arg bk) (hold : bk.tab[i]? = some old) (hr : bk.recs[i]? = some r)
    (hne : ∀ g ∈ g0 :: gs, g ≠ []) :
    ∀ (j : Nat) (r' : BRec),
      (bk.record s i old r (old.extend g0 tk) (bk.tab.set i (old.extend g0 tk) ++ gs.map (child old i tk))).recs[j]? = some r' →
      ∃ (q : Nat) (rq : BRec) (fresh : List NObj), bk.recs[q]? = some rq ∧ r'.objs = rq.objs ++ fresh ∧
        (∀ o ∈ fresh, o.orig = j) ∧
        ((q = j ∧ j ≠ i ∧ fresh = []) ∨ (q = i ∧ (j = i ∨ bk.tab.length ≤ j) ∧ fresh ≠ [])) := by
  intro j r' hr'
  have hi : i < bk.tab.length := (List.getElem?_eq_some_iff.1 hold).1
  have hir : i < bk.recs.length := by rw [hinv.len]; exact hi
  have hrecs : (bk.record s i old r (old.extend g0 tk) (bk.tab.set i (old.extend g0 tk) ++ gs.map (child old i tk))).recs
      = bk.recs.set i (r.grow bk.currentStep i old (old.extend g0 tk)) ++
          (gs.map (child old i tk)).mapIdx (fun k b => (r.fork bk.currentStep i).grow bk.currentStep (bk.tab.length + k) old b) := by
    simp only [Book.record, tab_drop]
  rw [hrecs] at hr'
  rcases three_cases (n := bk.tab.length) (j := j) i with ⟨hj, hne'⟩ | rfl | ⟨k, rfl, _⟩
  · rw [List.getElem?_append_left (by simpa [hinv.len] using hj), List.getElem?_set_ne (Ne.symm hne')] at hr'
    exact ⟨j, r', [], hr', by simp, by simp, Or.inl ⟨rfl, hne', rfl⟩⟩
  · rw [List.getElem?_append_left (by simpa using hir), List.getElem?_set_self hir] at hr'
    cases hr'
    refine ⟨j, r, g0.map (fun n => ⟨j, n, bk.currentStep⟩), hr, by simp [BRec.grow], ?_, Or.inr ⟨rfl, Or.inl rfl, ?_⟩⟩
    · intro o ho; simp only [List.mem_map] at ho; obtain ⟨n, _, rfl⟩ := ho; rfl
    · simpa using hne g0 List.mem_cons_self
  · rw [List.getElem?_append_right (by simp [hinv.len])] at hr'
    simp only [List.length_set, hinv.len, Nat.add_sub_cancel_left, List.getElem?_mapIdx, List.getElem?_map,
      Option.map_eq_some_iff] at hr'
    obtain ⟨b, ⟨g, hg, rfl⟩, rfl⟩ := hr'
    refine ⟨i, r, g.map (fun n => ⟨bk.tab.length + k, n, bk.currentStep⟩), hr, by simp [BRec.grow, BRec.fork], ?_,
      Or.inr ⟨rfl, Or.inr (by omega), ?_⟩⟩
    · intro o ho; simp only [List.mem_map] at ho; obtain ⟨n, _, rfl⟩ := ho; rfl
    · simpa using hne g (List.mem_cons_of_mem _ (List.mem_of_getElem? hg))

theorem getElem?_append_cases {α} {a b : List α} {p : Nat} {o : α} (h : (a ++ b)[p]? = some o) :
    (p < a.length ∧ a[p]? = some o) ∨ (a.length ≤ p ∧ o ∈ b) := by
  by_cases hp : p < a.length
  · rw [List.getElem?_append_left hp] at h; exact Or.inl ⟨hp, h⟩
  · rw [List.getElem?_append_right (by omega)] at h
    exact Or.inr ⟨by omega, List.mem_of_getElem? h⟩

theorem record_idinv (hinv : TabInv L arg bk) (hid : IdInv bk) (hold : bk.tab[i]? = some old)
    (hr : bk.recs[i]? = some r) (hne : ∀ g ∈ g0 :: gs, g ≠ []) :
    IdInv (bk.record s i old r (old.extend g0 tk) (bk.tab.set i (old.extend g0 tk) ++ gs.map (child old i tk))) := by
  have hdec := rec_decomp (s := s) (tk := tk) hinv hold hr hne
  generalize bk.record s i old r (old.extend g0 tk) (bk.tab.set i (old.extend g0 tk) ++ gs.map (child old i tk)) = bk' at *
  have hi : i < bk.tab.length := (List.getElem?_eq_some_iff.1 hold).1
  -- identities in an old record are at most its index
  have horig : ∀ (q : Nat) (rq : BRec) (o : NObj), bk.recs[q]? = some rq → o ∈ rq.objs → o.orig ≤ q ∧ q < bk.tab.length := by
    intro q rq o hq ho
    have hql : q < bk.tab.length := by rw [← hinv.len]; exact (List.getElem?_eq_some_iff.1 hq).1
    exact ⟨(hinv.branch q _ rq (List.getElem?_eq_getElem hql) hq).orig_le o ho, hql⟩
  refine { last_own := ?_, before_last := ?_, coherent := ?_ }
  · intro j r' hr'
    obtain ⟨q, rq, fresh, hq, hobjs, hfresh, hcase⟩ := hdec j r' hr'
    rcases hcase with ⟨rfl, _, rfl⟩ | ⟨_, _, hfne⟩
    · rw [hobjs, List.append_nil]; exact hid.last_own q rq hq
    · obtain ⟨o, ho⟩ : ∃ o, fresh.getLast? = some o := by
        cases hl : fresh.getLast? with
        | none => exact (hfne (List.getLast?_eq_none_iff.1 hl)).elim
        | some o => exact ⟨o, rfl⟩
      refine ⟨o, ?_, hfresh o (List.mem_of_getLast? ho)⟩
      rw [hobjs, List.getLast?_append, ho]; rfl
  · intro i' j' ri' rj' p o hij hi' hj' hpo horigo
    obtain ⟨q, rq, fresh, hq, hobjs, hfresh, hcase⟩ := hdec j' rj' hj'
    rw [hobjs] at hpo
    rcases getElem?_append_cases hpo with ⟨hplt, hpo⟩ | ⟨_, hmem⟩
    · obtain ⟨hle, hqn⟩ := horig q rq o hq (List.mem_of_getElem? hpo)
      obtain ⟨q2, rq2, fresh2, hq2, hobjs2, _, hcase2⟩ := hdec i' ri' hi'
      have hi'n : i' < bk.tab.length := by omega
      have hq2e : q2 = i' := by
        rcases hcase2 with ⟨e, _⟩ | ⟨e, hor, _⟩
        · exact e
        · rcases hor with h | h
          · rw [e, h]
          · omega
      subst hq2e
      rw [hobjs2, List.length_append]
      by_cases e : q2 = q
      · subst e
        rw [hq] at hq2; cases hq2
        have hqi : q2 = i := by
          rcases hcase with ⟨e', _⟩ | ⟨e', _, _⟩
          · exact (hij e').elim
          · exact e'
        have hf2 : fresh2 ≠ [] := by
          rcases hcase2 with ⟨_, hne2, _⟩ | ⟨_, _, h⟩
          · exact (hne2 hqi).elim
          · exact h
        have : 0 < fresh2.length := List.length_pos_iff.2 hf2
        omega
      · have := hid.before_last q2 q rq2 rq p o e hq2 hq hpo horigo
        omega
    · exact (hij ((hfresh o hmem).symm.trans horigo).symm).elim
  · intro i' j' ri' rj' p o o' hi' hj' hpo hpo' heq
    obtain ⟨q, rq, fresh, hq, hobjs, hfresh, hcase⟩ := hdec i' ri' hi'
    obtain ⟨q', rq', fresh', hq', hobjs', hfresh', hcase'⟩ := hdec j' rj' hj'
    have hpo0 := hpo
    have hpo0' := hpo'
    rw [hobjs] at hpo
    rw [hobjs'] at hpo'
    -- a fresh node of record a (decomposed over the target) against an old node of record q'
    have key : ∀ (a : Nat) (fa : List NObj) (x y : NObj) (qb : Nat) (rqb : BRec),
        (a = i ∨ bk.tab.length ≤ a) → r.objs.length ≤ p → x.orig = a → bk.recs[qb]? = some rqb → rqb.objs[p]? = some y →
        x.orig = y.orig → False := by
      intro a fa x y qb rqb ha hp hx hqb hy hxy
      obtain ⟨hle, hqn⟩ := horig qb rqb y hqb (List.mem_of_getElem? hy)
      have hai : a = i := by omega
      subst hai
      by_cases e : qb = a
      · subst e
        rw [hr] at hqb; cases hqb
        have := (List.getElem?_eq_some_iff.1 hy).1
        omega
      · have := hid.before_last a qb r rqb p y (Ne.symm e) hr hqb hy (by omega)
        omega
    rcases getElem?_append_cases hpo with ⟨_, hpo⟩ | ⟨hpge, hmem⟩
    · rcases getElem?_append_cases hpo' with ⟨_, hpo'⟩ | ⟨hpge', hmem'⟩
      · exact hid.coherent q q' rq rq' p o o' hq hq' hpo hpo' heq
      · rcases hcase' with ⟨_, _, rfl⟩ | ⟨rfl, hor, _⟩
        · cases hmem'
        · rw [hr] at hq'; cases hq'
          exact (key j' fresh' o' o q rq hor hpge' (hfresh' o' hmem') hq hpo heq.symm).elim
    · rcases hcase with ⟨_, _, rfl⟩ | ⟨rfl, hor, _⟩
      · cases hmem
      · rw [hr] at hq; cases hq
        rcases getElem?_append_cases hpo' with ⟨_, hpo'⟩ | ⟨_, hmem'⟩
        · exact (key i' fresh o o' q' rq' hor hpge (hfresh o hmem) hq' hpo' heq).elim
        · have : i' = j' := by rw [← hfresh o hmem, ← hfresh' o' hmem', heq]
          subst this
          rw [hi'] at hj'; cases hj'
          rw [hpo0] at hpo0'; exact Option.some.inj hpo0'

end

/-! ### the hypotheses of the leaves theorem -/

theorem mem_tbs {bk : Book} {b : TB} : b ∈ bk.tbs ↔ bk.recs[b.idx]? = some b.r := by
  simp only [Book.tbs, List.mem_mapIdx]
  constructor
  · rintro ⟨i, h, rfl⟩; exact List.getElem?_eq_getElem h
  · intro h
    obtain ⟨hl, he⟩ := List.getElem?_eq_some_iff.1 h
    exact ⟨b.idx, hl, by cases b; simp at he ⊢; exact he⟩

theorem tbs_idx (bk : Book) : bk.tbs.map (·.idx) = List.range bk.recs.length := by
  apply List.ext_getElem?
  intro i
  simp only [Book.tbs, List.getElem?_map, List.getElem?_mapIdx, Option.map_map]
  by_cases h : i < bk.recs.length
  · rw [List.getElem?_range h, List.getElem?_eq_getElem h]; rfl
  · rw [List.getElem?_eq_none (by omega), List.getElem?_eq_none (by simp; omega)]; rfl

theorem coh_of_idinv {bk : Book} (hid : IdInv bk) : Coh bk.tbs := by
  intro b hb c hc p o o' ho ho' heq
  exact hid.coherent b.idx c.idx b.r c.r p o o' (mem_tbs.1 hb) (mem_tbs.1 hc) ho ho' heq

theorem pf_of_idinv {bk : Book} (hid : IdInv bk) : PF bk.tbs := by
  refine ⟨by rw [tbs_idx]; exact List.nodup_range, ?_⟩
  intro b hb c hc hpre
  have hb' := mem_tbs.1 hb
  have hc' := mem_tbs.1 hc
  by_cases e : b.idx = c.idx
  · rw [e, hc'] at hb'
    cases b; cases c; simp at e hb' ⊢; exact ⟨e, hb'.symm⟩
  · exfalso
    obtain ⟨o, hlast, horig⟩ := hid.last_own b.idx b.r hb'
    rw [List.getLast?_eq_getElem?] at hlast
    have hlen : b.r.objs.length - 1 < b.r.objs.length := (List.getElem?_eq_some_iff.1 hlast).1
    obtain ⟨t, ht⟩ := hpre
    have hco : c.r.objs[b.r.objs.length - 1]? = some o := by
      rw [← ht, List.getElem?_append_left hlen]; exact hlast
    have := hid.before_last b.idx c.idx b.r c.r _ o e hb' hc' hco horig
    omega

theorem agree_zero (brs : List TB) : Agree 0 brs := ⟨[], rfl, fun _ _ => List.nil_prefix⟩

end TabTree
end Ptx
