/-
  Ptx.Proofs.TabRenderSeg — helper lemmas for C19, segment level:
    A. which characters a node string can contain (marks, table characters, digits);
    B. cutting a segment at the separators gives back the node strings (`splitNodes`).
-/
import Ptx.Tab.RenderRead
namespace Ptx.Render
open Ptx Ptx.Sym Ptx.Write

/-! ## A. characters -/

theorem decDigitsF_lt' : ∀ f n, ∀ d ∈ decDigitsF f n, d < 10 := by
  intro f
  induction f with
  | zero => intro n d h; simp [decDigitsF] at h
  | succ f ih =>
    intro n d h
    unfold decDigitsF at h
    split at h
    · simp at h; omega
    · rcases List.mem_append.mp h with h | h
      · exact ih _ _ h
      · simp at h; omega

theorem isDigit_of_mem_decStr {n c : Nat} (h : c ∈ decStr n) : isDigitChr c = true := by
  simp only [decStr, List.mem_map] at h
  obtain ⟨d, hd, rfl⟩ := h
  have := decDigitsF_lt' _ _ d hd
  show (decide (48 ≤ 48 + d) && decide (48 + d ≤ 57)) = true
  simp only [Bool.and_eq_true, decide_eq_true_eq]; omega

theorem mem_flatten_of_mem_getD {l : List (List Chr)} {i c : Nat} (h : c ∈ l.getD i []) : c ∈ l.flatten := by
  rw [List.getD_eq_getElem?_getD] at h
  cases hi : l[i]? with
  | none => simp [hi] at h
  | some x =>
    simp [hi] at h
    exact List.mem_flatten.mpr ⟨x, List.mem_of_getElem? hi, h⟩

theorem op1_mem_all (o : Op1) : o ∈ Op1.all := by cases o <;> simp [Op1.all]
theorem op2_mem_all (o : Op2) : o ∈ Op2.all := by cases o <;> simp [Op2.all]
theorem quant_mem_all (q : Quant) : q ∈ Quant.all := by cases q <;> simp [Quant.all]

theorem mem_renderTok {tb : StringTable} {t : WTok} {c : Chr} (h : c ∈ renderTok tb t) :
    c ∈ tableChars tb ∨ isDigitChr c = true := by
  cases t with
  | op1 o => left; simp only [tableChars, List.mem_append, List.mem_flatMap]; exact .inl <| .inl <| .inl <| .inl <| .inl <| .inl <| .inl <| .inl <| .inl <| .inl <| .inl <| .inl <| .inl <| .inl ⟨o, op1_mem_all o, h⟩
  | op2 o => left; simp only [tableChars, List.mem_append, List.mem_flatMap]; exact .inl <| .inl <| .inl <| .inl <| .inl <| .inl <| .inl <| .inl <| .inl <| .inl <| .inl <| .inl <| .inl <| .inr ⟨o, op2_mem_all o, h⟩
  | quant q => left; simp only [tableChars, List.mem_append, List.mem_flatMap]; exact .inl <| .inl <| .inl <| .inl <| .inl <| .inl <| .inl <| .inl <| .inl <| .inl <| .inl <| .inl <| .inr ⟨q, quant_mem_all q, h⟩
  | identity => left; simp only [tableChars, List.mem_append]; simp only [renderTok] at h; grind
  | existence => left; simp only [tableChars, List.mem_append]; simp only [renderTok] at h; grind
  | negIdentity => left; simp only [tableChars, List.mem_append]; simp only [renderTok] at h; grind
  | atom i => left; simp only [tableChars, List.mem_append]; have := mem_flatten_of_mem_getD (l := tb.atom) h; grind
  | var i => left; simp only [tableChars, List.mem_append]; have := mem_flatten_of_mem_getD (l := tb.var) h; grind
  | const i => left; simp only [tableChars, List.mem_append]; have := mem_flatten_of_mem_getD (l := tb.const) h; grind
  | pred i => left; simp only [tableChars, List.mem_append]; have := mem_flatten_of_mem_getD (l := tb.pred) h; grind
  | sub n =>
    simp only [renderTok, List.mem_append] at h
    rcases h with (h | h) | h
    · left; simp only [tableChars, List.mem_append]; grind
    · right; exact isDigit_of_mem_decStr (n := n) (by simpa [decStr] using h)
    · left; simp only [tableChars, List.mem_append]; grind
  | parenOpen => left; simp only [tableChars, List.mem_append]; simp only [renderTok] at h; grind
  | parenClose => left; simp only [tableChars, List.mem_append]; simp only [renderTok] at h; grind
  | ws => left; simp only [tableChars, List.mem_append]; simp only [renderTok] at h; grind

theorem mem_render {tb : StringTable} {ts : List WTok} {c : Chr} (h : c ∈ Write.render tb ts) :
    c ∈ tableChars tb ∨ isDigitChr c = true := by
  simp only [Write.render, List.mem_flatMap] at h
  obtain ⟨t, _, ht⟩ := h
  exact mem_renderTok ht

theorem mem_writeSent {tb : StringTable} {nt : Notn} {s : Sent} {c : Chr} (h : c ∈ writeSent tb nt s) :
    c ∈ tableChars tb ∨ isDigitChr c = true := by
  cases nt with
  | polish => exact mem_render (by simpa [writeSent, writePolish] using h)
  | standard o => exact mem_render (by simpa [writeSent, writeStandard] using h)

/-- a character property that holds of the table characters, the digits and the body marks holds of
    every character of a node body -/
theorem nodeBody_chars {m : Marks} {tb : StringTable} {nt : Notn} (P : Chr → Prop)
    (hT : ∀ c ∈ tableChars tb, P c) (hD : ∀ c, isDigitChr c = true → P c) (hM : ∀ c ∈ m.bodyChars, P c)
    (n : RNode) : ∀ c ∈ nodeBody m (writeSent tb nt) n, P c := by
  intro c h
  have hM' : ∀ c, (c ∈ m.world ∨ c ∈ m.desT ∨ c ∈ m.desF ∨ c ∈ m.acc1 ∨ c ∈ m.acc2 ∨ c ∈ m.ellipsis ∨ c ∈ m.tick) → P c := by
    intro c hc; apply hM; simp only [Marks.bodyChars, List.mem_append]; grind
  simp only [nodeBody, List.mem_append] at h
  rcases h with (((((h | h) | h) | h) | h) | h) | h
  · cases hs : n.sentence with
    | none => simp [optStr, hs] at h
    | some s =>
      simp only [optStr, hs] at h
      rcases mem_writeSent h with h | h
      · exact hT _ h
      · exact hD _ h
  · cases hs : n.world with
    | none => simp [optStr, hs] at h
    | some w =>
      simp only [optStr, hs, List.mem_append] at h
      rcases h with h | h
      · exact hM' _ (by grind)
      · exact hD _ (isDigit_of_mem_decStr h)
  · split at h
    · exact hM' _ (by grind)
    · simp at h
  · split at h
    · exact hM' _ (by grind)
    · simp at h
  · split at h
    · simp only [List.mem_append] at h
      rcases h with ((h | h) | h) | h
      · exact hM' _ (by grind)
      · exact hD _ (isDigit_of_mem_decStr h)
      · exact hM' _ (by grind)
      · exact hD _ (isDigit_of_mem_decStr h)
    · simp at h
  · split at h
    · exact hM' _ (by grind)
    · simp at h
  · split at h
    · exact hM' _ (by grind)
    · simp at h

/-! what the side conditions say, as propositions -/

structure Marks.Dec (m : Marks) : Prop where
  sep_ne : m.sep ≠ []
  closure_ne : m.closure ≠ []
  child_ne : m.child ≠ []
  fork_ne : m.fork ≠ []
  sep_body : m.sepHd ∉ m.bodyChars
  sep_closure : m.sepHd ∉ m.closure
  sep_digit : isDigitChr m.sepHd = false
  nl_all : chNl ∉ m.allChars
  dash_space : m.dash ≠ chSpace
  dash_bar : m.dash ≠ chBar

theorem Marks.dec_of_decodable {m : Marks} (h : m.Decodable = true) : m.Dec := by
  simp only [Marks.Decodable, Bool.and_eq_true, Bool.not_eq_true', List.isEmpty_eq_false_iff,
    List.contains_eq_mem, decide_eq_false_iff_not, bne_iff_ne, ne_eq] at h
  obtain ⟨⟨⟨⟨⟨⟨⟨⟨⟨h1, h2⟩, h3⟩, h4⟩, h5⟩, h6⟩, h7⟩, h8⟩, h9⟩, h10⟩ := h
  exact ⟨h1, h2, h3, h4, h5, h6, h7, h8, h9, h10⟩

theorem Marks.Dec.sep_eq {m : Marks} (h : m.Dec) : m.sep = m.sepHd :: m.sep.tail := by
  have := h.sep_ne
  cases hs : m.sep with
  | nil => exact absurd hs this
  | cons a r => simp [Marks.sepHd, hs]

theorem Marks.Dec.child_eq {m : Marks} (h : m.Dec) : m.child = m.dash :: m.child.tail := by
  have := h.child_ne
  cases hs : m.child with
  | nil => exact absurd hs this
  | cons a r => simp [Marks.dash, hs]

theorem tableOK_iff {m : Marks} {tb : StringTable} (h : TableOK m tb = true) :
    m.sepHd ∉ tableChars tb ∧ chNl ∉ tableChars tb := by
  simpa [TableOK] using h

/-- the separator's first character does not occur in a node body -/
theorem sepHd_not_mem_nodeBody {m : Marks} {tb : StringTable} {nt : Notn} (hm : m.Dec)
    (ht : TableOK m tb = true) (n : RNode) : m.sepHd ∉ nodeBody m (writeSent tb nt) n := by
  intro h
  have := nodeBody_chars (m := m) (tb := tb) (nt := nt) (fun c => c ≠ m.sepHd)
    (fun c hc e => (tableOK_iff ht).1 (e ▸ hc))
    (fun c hc e => by rw [e, hm.sep_digit] at hc; exact Bool.noConfusion hc)
    (fun c hc e => hm.sep_body (e ▸ hc)) n _ h
  exact this rfl

theorem nl_not_digit : isDigitChr chNl = false := by decide

theorem nl_mem_allChars_of {m : Marks} {c : Chr} {l : List Chr} (hc : c ∈ l)
    (hl : l = m.world ∨ l = m.desT ∨ l = m.desF ∨ l = m.acc1 ∨ l = m.acc2 ∨ l = m.ellipsis ∨ l = m.tick ∨
      l = m.closure ∨ l = m.sep ∨ l = m.child ∨ l = m.fork) : c ∈ m.allChars := by
  simp only [Marks.allChars, Marks.bodyChars, List.mem_append]
  rcases hl with h | h | h | h | h | h | h | h | h | h | h <;> subst h <;> grind

/-- no newline in a node string -/
theorem nl_not_mem_nodeStr {m : Marks} {tb : StringTable} {nt : Notn} (hm : m.Dec)
    (ht : TableOK m tb = true) (n : RNode) : chNl ∉ nodeStr m (writeSent tb nt) n := by
  intro h
  simp only [nodeStr, List.mem_append] at h
  rcases h with h | h
  · have := nodeBody_chars (m := m) (tb := tb) (nt := nt) (fun c => c ≠ chNl)
      (fun c hc e => (tableOK_iff ht).2 (e ▸ hc))
      (fun c hc e => by rw [e, nl_not_digit] at hc; exact Bool.noConfusion hc)
      (fun c hc e => hm.nl_all (by
        subst e; simp only [Marks.allChars, List.mem_append]; grind)) n _ h
    exact this rfl
  · apply hm.nl_all
    simp only [nodeTerm] at h
    split at h
    · exact nl_mem_allChars_of h (by grind)
    · exact nl_mem_allChars_of h (by grind)

/-- no newline in a segment string -/
theorem nl_not_mem_segStr {m : Marks} {tb : StringTable} {nt : Notn} (hm : m.Dec)
    (ht : TableOK m tb = true) (d : Nat) (ns : List RNode) (k : Bool) :
    chNl ∉ segStr m (writeSent tb nt) d ns k := by
  intro h
  simp only [segStr, List.mem_append, List.mem_flatMap] at h
  rcases h with (h | ⟨n, _, h⟩) | h
  · split at h
    · exact hm.nl_all (nl_mem_allChars_of h (by grind))
    · simp at h
  · exact nl_not_mem_nodeStr hm ht n h
  · split at h
    · exact hm.nl_all (nl_mem_allChars_of h (by grind))
    · simp at h

/-! ## B. cutting a segment at the separators -/

theorem takeWhile_ne_append {x : Chr} {body rest : List Chr} (hb : x ∉ body) :
    (body ++ x :: rest).takeWhile (· != x) = body := by
  induction body with
  | nil => simp
  | cons a r ih =>
    have ha : a ≠ x := fun e => hb (by simp [e])
    have hr : x ∉ r := fun h => hb (by simp [h])
    simp [List.takeWhile, ha, ih hr]

theorem dropWhile_ne_append {x : Chr} {body rest : List Chr} (hb : x ∉ body) :
    (body ++ x :: rest).dropWhile (· != x) = x :: rest := by
  induction body with
  | nil => simp
  | cons a r ih =>
    have ha : a ≠ x := fun e => hb (by simp [e])
    have hr : x ∉ r := fun h => hb (by simp [h])
    simp [List.dropWhile, ha, ih hr]

theorem takeWhile_ne_all {x : Chr} {s : List Chr} (hb : x ∉ s) : s.dropWhile (· != x) = [] := by
  induction s with
  | nil => simp
  | cons a r ih =>
    have ha : a ≠ x := fun e => hb (by simp [e])
    have hr : x ∉ r := fun h => hb (by simp [h])
    rw [List.dropWhile_cons]
    simp [ha, ih hr]

/-- cutting `body₁ sep body₂ sep … bodyₖ sep rest` (no separator head inside the bodies or `rest`) -/
theorem splitNodesF_bodies {m : Marks} (hm : m.Dec) :
    ∀ (bodies : List (List Chr)) (rest : List Chr) (f : Nat),
      (∀ b ∈ bodies, m.sepHd ∉ b) → m.sepHd ∉ rest → bodies.length < f →
      splitNodesF m f ((bodies.map (· ++ m.sep)).flatten ++ rest) = (bodies.map (· ++ m.sep), rest) := by
  intro bodies
  induction bodies with
  | nil =>
    intro rest f _ hr hf
    obtain ⟨f, rfl⟩ : ∃ g, f = g + 1 := ⟨f - 1, by simp at hf; omega⟩
    simp [splitNodesF, takeWhile_ne_all hr]
  | cons b bs ih =>
    intro rest f hb hr hf
    obtain ⟨f, rfl⟩ : ∃ g, f = g + 1 := ⟨f - 1, by simp at hf; omega⟩
    have hb0 : m.sepHd ∉ b := hb b (by simp)
    have hs := hm.sep_eq
    have hsx : ∀ X : List Chr, m.sep ++ X = m.sepHd :: (m.sep.tail ++ X) := by
      intro X
      conv => lhs; rw [hs]
      simp
    have e : (List.map (· ++ m.sep) (b :: bs)).flatten ++ rest =
        b ++ m.sepHd :: (m.sep.tail ++ ((bs.map (· ++ m.sep)).flatten ++ rest)) := by
      simp only [List.map_cons, List.flatten_cons, List.append_assoc]
      rw [hsx]
    rw [e]
    simp only [splitNodesF, takeWhile_ne_append hb0, dropWhile_ne_append hb0]
    have hlen : m.sep.length = m.sep.tail.length + 1 := by
      conv => lhs; rw [hs]
      simp
    have hd : (m.sepHd :: (m.sep.tail ++ ((bs.map (· ++ m.sep)).flatten ++ rest))).drop m.sep.length =
        (bs.map (· ++ m.sep)).flatten ++ rest := by
      rw [hlen]; simp
    have ht : (m.sepHd :: (m.sep.tail ++ ((bs.map (· ++ m.sep)).flatten ++ rest))).take m.sep.length = m.sep := by
      rw [hlen]
      simp only [List.take_succ_cons, List.take_left']
      exact hs.symm
    simp only [List.isEmpty_cons, Bool.false_eq_true, ↓reduceIte, hd, ht]
    rw [ih rest f (fun b hb' => hb b (by simp [hb'])) hr (by simp at hf; omega)]
    simp

end Ptx.Render
