/-
  Ptx.Proofs.TabTreeInvStep — `TabInv` holds after the trunk is built and is preserved by every
  legal step; a legal step from a state with `TabInv` never reaches a Python exception path of the
  listeners (`Book.step` answers `.ok`).
-/
import Ptx.Proofs.TabTreeInv
namespace Ptx
namespace TabTree

/-! ### after the trunk -/

theorem trunkNodes_last (L : LogicData) (arg : Argument) :
    ∃ s d w, (trunkNodes L arg).getLast? = some (.sent s d w) := by
  exact ⟨(if L.trunkConcNeg then arg.conclusion.neg else arg.conclusion), L.trunkConc,
    (if L.modal then some 0 else none), by simp [trunkNodes]⟩

theorem trunk_open (L : LogicData) (arg : Argument) : Branch.closed { nodes := trunkNodes L arg } = false := by
  obtain ⟨s, d, w, h⟩ := trunkNodes_last L arg
  simp [closed_def, h, Node.isClosure]

theorem isOpenAt_lt {t : Tableau} {i : Nat} (h : Book.isOpenAt t i = true) : i < t.length := by
  unfold Book.isOpenAt at h
  split at h
  · next b hb => exact (List.getElem?_eq_some_iff.1 hb).1
  · cases h

theorem inv_init (L : LogicData) (arg : Argument) : TabInv L arg (Book.init (trunkNodes L arg)) := by
  refine { len := rfl, branch := ?_, trunk_objs := ?_, opens_eq := ?_, root := ?_, parent := ?_ }
  · intro i b r hb hr
    have hi : i = 0 := by
      have := (List.getElem?_eq_some_iff.1 hb).1
      simp [Book.init] at this; exact this
    subst hi
    simp only [Book.init, List.getElem?_cons_zero, Option.some.injEq] at hb hr
    subst hb; subst hr
    refine
      { nodes_eq := by simp [Function.comp_def], closed_iff := ?_, parent_eq := rfl, orig_le := ?_, own := ?_, inh_le := Nat.zero_le _,
        steps_mono := ?_, steps_lt := ?_, added_lt := ?_, added_first := ?_, closed_ok := ?_, ticks_ok := ?_, ticks_nodup := ?_ }
    · rw [trunk_open]; rfl
    · intro o ho; simp only [List.mem_map] at ho; obtain ⟨n, _, rfl⟩ := ho; exact Nat.le_refl _
    · intro p o hp
      simp only [List.getElem?_map, Option.map_eq_some_iff] at hp
      obtain ⟨n, _, rfl⟩ := hp
      simp
    · simp only [List.pairwise_map, Nat.le_refl]
      generalize trunkNodes L arg = g
      induction g with
      | nil => exact List.Pairwise.nil
      | cons x xs ih => exact List.Pairwise.cons (fun _ _ => trivial) ih
    · intro o ho; simp only [List.mem_map] at ho; obtain ⟨n, _, rfl⟩ := ho; simp [Book.currentStep, Book.init]
    · simp [Book.currentStep, Book.init]
    · intro p o hp _
      simp only [List.getElem?_map, Option.map_eq_some_iff] at hp
      obtain ⟨n, _, rfl⟩ := hp
      exact Nat.le_refl _
    · intro c hc; cases hc
    · intro p st hm; cases hm
    · exact List.nodup_nil
  · intro r hr
    simp only [Book.init, List.mem_singleton] at hr
    subst hr
    exact List.prefix_refl _
  · simp only [Book.init, Book.unclosed, List.length_singleton]
    have : Book.isOpenAt [{ nodes := trunkNodes L arg }] 0 = true := by
      simp [Book.isOpenAt, trunk_open]
    simp [List.range', this]
  · intro i r hr _
    have hi : i = 0 := by
      have := (List.getElem?_eq_some_iff.1 hr).1
      simp [Book.init] at this; exact this
    subst hi
    simp only [Book.init, List.getElem?_cons_zero, Option.some.injEq] at hr
    subst hr
    exact ⟨rfl, rfl⟩
  · intro i r p hr hp
    have hi : i = 0 := by
      have := (List.getElem?_eq_some_iff.1 hr).1
      simp [Book.init] at this; exact this
    subst hi
    simp only [Book.init, List.getElem?_cons_zero, Option.some.injEq] at hr
    subst hr
    cases hp

/-! ### a new branch -/

theorem fork_ok {cur i j : Nat} {old : Branch} {r : BRec} (h : BranchOK (cur + 1) i old r)
    (hopen : old.closed = false) (hij : i < j) :
    BranchOK (cur + 1) j { old with parent := some i } (r.fork cur i) := by
  refine
    { nodes_eq := h.nodes_eq, closed_iff := ?_, parent_eq := rfl, orig_le := ?_, own := ?_, inh_le := Nat.le_refl _,
      steps_mono := h.steps_mono, steps_lt := h.steps_lt, added_lt := Nat.lt_succ_self _, added_first := ?_,
      closed_ok := ?_, ticks_ok := ?_, ticks_nodup := List.nodup_nil }
  · show (none : Option Nat).isSome = old.closed
    rw [hopen]; rfl
  · intro o ho; exact Nat.le_trans (h.orig_le o ho) (Nat.le_of_lt hij)
  · intro p o hp
    have h1 := h.orig_le o (List.mem_of_getElem? hp)
    have h2 := (List.getElem?_eq_some_iff.1 hp).1
    simp only [BRec.fork] at h2 ⊢
    constructor
    · intro e; omega
    · intro hle; omega
  · intro p o hp hle
    have h2 := (List.getElem?_eq_some_iff.1 hp).1
    simp only [BRec.fork] at h2 hle
    omega
  · intro c hc; cases hc
  · intro p st hm; cases hm

theorem child_eq (old : Branch) (i : Nat) (tk : Option Nat) (g : List Node) :
    child old i tk g = Branch.extend { old with parent := some i } g tk := rfl

theorem kid_ok {cur i j : Nat} {old : Branch} {r : BRec} {g : List Node} {tk : Option Nat}
    (h : BranchOK (cur + 1) i old r) (hopen : old.closed = false) (hij : i < j)
    (hclos : (∀ n ∈ g, n.isClosure = false) ∨ g = [.flag "closure"]) :
    BranchOK (cur + 1) j (child old i tk g) ((r.fork cur i).grow cur j old (child old i tk g)) := by
  have := grow_ok (g := g) (tk := tk) (fork_ok h hopen hij) (by exact hopen) hclos
  exact this

/-! ### indices after a step -/

section
variable {t : Tableau} {i : Nat} {new : Branch} {kids : List Branch}

theorem tab_get_old {j : Nat} (hj : j < t.length) (hne : j ≠ i) : (t.set i new ++ kids)[j]? = t[j]? := by
  rw [List.getElem?_append_left (by simpa using hj), List.getElem?_set_ne (Ne.symm hne)]

theorem tab_get_i (hi : i < t.length) : (t.set i new ++ kids)[i]? = some new := by
  rw [List.getElem?_append_left (by simpa using hi), List.getElem?_set_self hi]

theorem tab_get_kid (k : Nat) : (t.set i new ++ kids)[t.length + k]? = kids[k]? := by
  rw [List.getElem?_append_right (by simp)]
  simp

theorem tab_drop : (t.set i new ++ kids).drop t.length = kids := by
  rw [List.drop_left' (by simp)]
end

theorem three_cases {n j : Nat} (i : Nat) : (j < n ∧ j ≠ i) ∨ j = i ∨ ∃ k, j = n + k ∧ (j < n → False) := by
  by_cases h : j < n
  · by_cases e : j = i
    · exact Or.inr (Or.inl e)
    · exact Or.inl ⟨h, e⟩
  · by_cases e : j = i
    · exact Or.inr (Or.inl e)
    · exact Or.inr (Or.inr ⟨j - n, by omega, fun h' => h h'⟩)

/-! ### the open view -/

theorem range'_split (s n m : Nat) : List.range' s (n + m) = List.range' s n ++ List.range' (s + n) m := by
  induction n generalizing s with
  | zero => simp
  | succ n ih =>
    have : n + 1 + m = (n + m) + 1 := by omega
    rw [this, List.range'_succ, List.range'_succ, ih (s + 1)]
    have : s + 1 + n = s + (n + 1) := by omega
    rw [this]; rfl

theorem kidOpens_eq (old : Branch) (t' : Tableau) : ∀ (kids : List Branch) (j : Nat),
    (∀ k b, kids[k]? = some b → Book.isOpenAt t' (j + k) = !(old.closed || closesNow old b)) →
    (List.range' j kids.length).filter (Book.isOpenAt t') = kidOpens old j kids
  | [], j, _ => by simp [kidOpens]
  | b :: bs, j, h => by
      have h0 := h 0 b rfl
      have ih := kidOpens_eq old t' bs (j + 1) (fun k b' hk => by
        have := h (k + 1) b' (by simpa using hk)
        have e : j + 1 + k = j + (k + 1) := by omega
        rw [e]; exact this)
      simp only [List.length_cons, List.range'_succ, kidOpens]
      rw [List.filter_cons, ih]
      simp only [Nat.add_zero] at h0
      rw [h0]
      cases (old.closed || closesNow old b) <;> simp

/-! ### the step -/

section
variable {L : LogicData} {arg : Argument} {bk : Book} {s : Step} {i : Nat} {old : Branch} {r : BRec}
  {g0 : List Node} {gs : List (List Node)} {tk : Option Nat}

theorem record_inv (hinv : TabInv L arg bk) (hold : bk.tab[i]? = some old) (hopen : old.closed = false)
    (hr : bk.recs[i]? = some r)
    (hclos : (∀ g ∈ g0 :: gs, ∀ n ∈ g, n.isClosure = false) ∨ (g0 = [.flag "closure"] ∧ gs = [] ∧ tk = none)) :
    TabInv L arg (bk.record s i old r (old.extend g0 tk) (bk.tab.set i (old.extend g0 tk) ++ gs.map (child old i tk))) := by
  have hi : i < bk.tab.length := (List.getElem?_eq_some_iff.1 hold).1
  have hir : i < bk.recs.length := by rw [hinv.len]; exact hi
  have hc0 : (∀ n ∈ g0, n.isClosure = false) ∨ g0 = [.flag "closure"] := by
    rcases hclos with h | ⟨h, _, _⟩
    · exact Or.inl (h g0 List.mem_cons_self)
    · exact Or.inr h
  have hck : ∀ g ∈ gs, (∀ n ∈ g, n.isClosure = false) ∨ g = [.flag "closure"] := by
    intro g hg
    rcases hclos with h | ⟨_, h, _⟩
    · exact Or.inl (h g (List.mem_cons_of_mem _ hg))
    · subst h; cases hg
  have hBi := (hinv.branch i old r hold hr).mono (Nat.le_succ _)
  -- the components of the new state
  have hcur : (bk.record s i old r (old.extend g0 tk) (bk.tab.set i (old.extend g0 tk) ++ gs.map (child old i tk))).currentStep
      = bk.currentStep + 1 := by simp [Book.record, Book.currentStep]
  have htab : (bk.record s i old r (old.extend g0 tk) (bk.tab.set i (old.extend g0 tk) ++ gs.map (child old i tk))).tab
      = bk.tab.set i (old.extend g0 tk) ++ gs.map (child old i tk) := rfl
  have hrecs : (bk.record s i old r (old.extend g0 tk) (bk.tab.set i (old.extend g0 tk) ++ gs.map (child old i tk))).recs
      = bk.recs.set i (r.grow bk.currentStep i old (old.extend g0 tk)) ++
          (gs.map (child old i tk)).mapIdx (fun k b => (r.fork bk.currentStep i).grow bk.currentStep (bk.tab.length + k) old b) := by
    simp only [Book.record, tab_drop]
  have hopens : (bk.record s i old r (old.extend g0 tk) (bk.tab.set i (old.extend g0 tk) ++ gs.map (child old i tk))).opens
      = (if closesNow old (old.extend g0 tk) then bk.opens.filter (· != i) else bk.opens) ++
          kidOpens old bk.tab.length (gs.map (child old i tk)) := by
    simp only [Book.record, tab_drop]
  generalize hbk' : bk.record s i old r (old.extend g0 tk) (bk.tab.set i (old.extend g0 tk) ++ gs.map (child old i tk)) = bk' at *
  -- lookups in the new record list
  have rget_old : ∀ j, j < bk.tab.length → j ≠ i → bk'.recs[j]? = bk.recs[j]? := by
    intro j hj hne
    rw [hrecs, List.getElem?_append_left (by simpa [hinv.len] using hj), List.getElem?_set_ne (Ne.symm hne)]
  have rget_i : bk'.recs[i]? = some (r.grow bk.currentStep i old (old.extend g0 tk)) := by
    rw [hrecs, List.getElem?_append_left (by simpa using hir), List.getElem?_set_self hir]
  have rget_kid : ∀ k, bk'.recs[bk.tab.length + k]? =
      (gs[k]?).map (fun g => (r.fork bk.currentStep i).grow bk.currentStep (bk.tab.length + k) old (child old i tk g)) := by
    intro k
    rw [hrecs, List.getElem?_append_right (by simp [hinv.len])]
    simp [hinv.len, List.getElem?_mapIdx, Function.comp_def]
  have tget_kid : ∀ k, bk'.tab[bk.tab.length + k]? = (gs[k]?).map (child old i tk) := by
    intro k; rw [htab, tab_get_kid]; simp
  refine { len := ?_, branch := ?_, trunk_objs := ?_, opens_eq := ?_, root := ?_, parent := ?_ }
  · rw [hrecs, htab]; simp [hinv.len]
  · intro j b' r' hb hr'
    rw [hcur]
    rcases three_cases (n := bk.tab.length) (j := j) i with ⟨hj, hne⟩ | rfl | ⟨k, rfl, _⟩
    · rw [htab, tab_get_old hj hne] at hb
      rw [rget_old j hj hne] at hr'
      exact (hinv.branch j b' r' hb hr').mono (Nat.le_succ _)
    · rw [htab, tab_get_i hi] at hb
      rw [rget_i] at hr'
      cases hb; cases hr'
      exact grow_ok hBi hopen hc0
    · rw [tget_kid] at hb
      rw [rget_kid] at hr'
      simp only [Option.map_eq_some_iff] at hb hr'
      obtain ⟨g, hg, rfl⟩ := hb
      obtain ⟨g', hg', rfl⟩ := hr'
      rw [hg] at hg'; cases hg'
      exact kid_ok hBi hopen (by omega) (hck g (List.mem_of_getElem? hg))
  · intro r' hr'
    obtain ⟨j, hj⟩ := List.mem_iff_getElem?.1 hr'
    have hpre := hinv.trunk_objs r (List.mem_of_getElem? hr)
    rcases three_cases (n := bk.tab.length) (j := j) i with ⟨hjl, hne⟩ | rfl | ⟨k, rfl, _⟩
    · rw [rget_old j hjl hne] at hj
      exact hinv.trunk_objs r' (List.mem_of_getElem? hj)
    · rw [rget_i] at hj; cases hj
      exact List.IsPrefix.trans hpre (by simp [BRec.grow])
    · rw [rget_kid] at hj
      simp only [Option.map_eq_some_iff] at hj
      obtain ⟨g, _, rfl⟩ := hj
      exact List.IsPrefix.trans hpre (by simp [BRec.grow, BRec.fork])
  · -- the open view
    rw [hopens, Book.unclosed, htab]
    have hlen : (bk.tab.set i (old.extend g0 tk) ++ gs.map (child old i tk)).length = bk.tab.length + (gs.map (child old i tk)).length := by
      simp
    rw [hlen, range'_split, List.filter_append, Nat.zero_add]
    congr 1
    · -- the old branches
      have hcn : closesNow old (old.extend g0 tk) = (old.extend g0 tk).closed := by
        simp only [closesNow, gained_extend]
        rcases hc0 with hg | hg
        · rw [closesNow_false hg, closed_extend_noclosure hopen hg]
        · subst hg; rw [closed_extend_closure]; simp [Node.isClosure]
      have hopenI : Book.isOpenAt bk.tab i = true := by simp [Book.isOpenAt, hold, hopen]
      rw [hinv.opens_eq, Book.unclosed, hcn]
      cases hcl : (old.extend g0 tk).closed with
      | false =>
        simp only [Bool.false_eq_true, if_false]
        apply List.filter_congr
        intro j hj
        have hjl : j < bk.tab.length := by simpa using (List.mem_range'_1.1 hj).2
        by_cases e : j = i
        · subst e
          rw [hopenI]; simp [Book.isOpenAt, tab_get_i hi, hcl]
        · simp only [Book.isOpenAt]; rw [tab_get_old hjl e]
      | true =>
        simp only [if_true, List.filter_filter]
        apply List.filter_congr
        intro j hj
        have hjl : j < bk.tab.length := by simpa using (List.mem_range'_1.1 hj).2
        by_cases e : j = i
        · subst e
          simp [Book.isOpenAt, tab_get_i hi, hcl]
        · have : (j != i) = true := by simpa using e
          rw [this, Bool.true_and]
          simp only [Book.isOpenAt]; rw [tab_get_old hjl e]
    · -- the new branches
      symm
      apply kidOpens_eq
      intro k b hb
      simp only [List.getElem?_map, Option.map_eq_some_iff] at hb
      obtain ⟨g, hg, rfl⟩ := hb
      have hgm := List.mem_of_getElem? hg
      simp only [Book.isOpenAt]
      rw [tab_get_kid]
      simp only [List.getElem?_map, hg, Option.map_some, hopen, Bool.false_or]
      congr 1
      simp only [closesNow, gained_child]
      rw [child_eq]
      rcases hck g hgm with h | h
      · rw [closesNow_false h, closed_extend_noclosure (by exact hopen) h]
      · subst h; rw [closed_extend_closure]; simp [Node.isClosure]
  · intro j r' hr' hp
    rcases three_cases (n := bk.tab.length) (j := j) i with ⟨hjl, hne⟩ | rfl | ⟨k, rfl, _⟩
    · rw [rget_old j hjl hne] at hr'
      exact hinv.root j r' hr' hp
    · rw [rget_i] at hr'; cases hr'
      exact hinv.root j r hr (by simpa [BRec.grow] using hp)
    · rw [rget_kid] at hr'
      simp only [Option.map_eq_some_iff] at hr'
      obtain ⟨g, _, rfl⟩ := hr'
      simp [BRec.grow, BRec.fork] at hp
  · intro j r' p hr' hp
    -- the parent's record after the step, whichever branch it is
    have parent_after : ∀ (q : Nat) (rq : BRec) (m : Nat), q < bk.tab.length → bk.recs[q]? = some rq → m ≤ rq.objs.length →
        ∃ rq', bk'.recs[q]? = some rq' ∧ m ≤ rq'.objs.length ∧ rq'.objs.take m = rq.objs.take m ∧ rq'.stepAdded = rq.stepAdded := by
      intro q rq m hq hrq hm
      by_cases e : q = i
      · subst e
        rw [hr] at hrq; cases hrq
        refine ⟨_, rget_i, ?_, ?_, rfl⟩
        · simp only [BRec.grow, List.length_append]; omega
        · simp only [BRec.grow]; rw [List.take_append_of_le_length hm]
      · exact ⟨rq, by rw [rget_old q hq e]; exact hrq, hm, rfl, rfl⟩
    rcases three_cases (n := bk.tab.length) (j := j) i with ⟨hjl, hne⟩ | rfl | ⟨k, rfl, _⟩
    · rw [rget_old j hjl hne] at hr'
      obtain ⟨hpj, rp, hrp, hle, htake, hsa⟩ := hinv.parent j r' p hr' hp
      obtain ⟨rq', h1, h2, h3, h4⟩ := parent_after p rp r'.inherited (by omega) hrp hle
      exact ⟨hpj, rq', h1, h2, by rw [htake, h3], by rw [h4]; exact hsa⟩
    · rw [rget_i] at hr'; cases hr'
      have hp' : r.parent = some p := by simpa [BRec.grow] using hp
      obtain ⟨hpj, rp, hrp, hle, htake, hsa⟩ := hinv.parent j r p hr hp'
      obtain ⟨rq', h1, h2, h3, h4⟩ := parent_after p rp r.inherited (by omega) hrp hle
      refine ⟨hpj, rq', h1, by simpa [BRec.grow] using h2, ?_, by simpa [BRec.grow, h4] using hsa⟩
      simp only [BRec.grow]
      rw [List.take_append_of_le_length hBi.inh_le, htake, h3]
    · rw [rget_kid] at hr'
      simp only [Option.map_eq_some_iff] at hr'
      obtain ⟨g, _, rfl⟩ := hr'
      have hp' : i = p := by simpa [BRec.grow, BRec.fork] using hp
      subst hp'
      refine ⟨by omega, _, rget_i, ?_, ?_, ?_⟩
      · simp [BRec.grow, BRec.fork]
      · simp [BRec.grow, BRec.fork]
      · simp only [BRec.grow, BRec.fork]
        exact Nat.le_of_lt_succ hBi.added_lt

/-- A legal step from a state with `TabInv`: the listeners raise nothing, the branches are the
    calculus result, `TabInv` holds again. -/
theorem step_ok {t' : Tableau} (hinv : TabInv L arg bk) (hs : applyStep L bk.tab s = some t') :
    ∃ bk', bk.step L s = .ok bk' ∧ bk'.tab = t' ∧ bk'.history = bk.history ++ [s] ∧ TabInv L arg bk' := by
  obtain ⟨sh, _⟩ := shape_of_applyStep hs
  obtain ⟨old, g0, gs, tk, hold, hopen, ht', hclos⟩ := sh
  have hi : s.branch < bk.tab.length := (List.getElem?_eq_some_iff.1 hold).1
  have hir : s.branch < bk.recs.length := by rw [hinv.len]; exact hi
  obtain ⟨r, hr⟩ : ∃ r, bk.recs[s.branch]? = some r := ⟨_, List.getElem?_eq_getElem hir⟩
  have hnew : t'[s.branch]? = some (old.extend g0 tk) := by rw [ht', tab_get_i hi]
  have hdrop : t'.drop bk.tab.length = gs.map (child old s.branch tk) := by rw [ht', tab_drop]
  have hc0 : (∀ n ∈ g0, n.isClosure = false) ∨ g0 = [.flag "closure"] := by
    rcases hclos with h | ⟨h, _, _⟩
    · exact Or.inl (h g0 List.mem_cons_self)
    · exact Or.inr h
  have hck : ∀ g ∈ gs, (∀ n ∈ g, n.isClosure = false) ∨ g = [.flag "closure"] := by
    intro g hg
    rcases hclos with h | ⟨_, h, _⟩
    · exact Or.inl (h g (List.mem_cons_of_mem _ hg))
    · subst h; cases hg
  have hdl : ∀ g : List Node, ((∀ n ∈ g, n.isClosure = false) ∨ g = [.flag "closure"]) → g.dropLast.any Node.isClosure = false := by
    intro g hg
    rcases hg with h | h
    · exact closesNow_false (fun n hn => h n (List.dropLast_subset _ hn))
    · subst h; rfl
  have h1 : ((old.extend g0 tk) :: t'.drop bk.tab.length).any (appendsAfterClosure old) = false := by
    rw [hdrop]
    simp only [List.any_eq_false, List.mem_cons, List.mem_map]
    intro b hb
    rcases hb with rfl | ⟨g, hg, rfl⟩
    · simp only [appendsAfterClosure, gained_extend]; rw [hdl g0 hc0]; simp
    · simp only [appendsAfterClosure, gained_child]; rw [hdl g (hck g hg)]; simp
  have h2 : (closesNow old (old.extend g0 tk) && !bk.opens.contains s.branch) = false := by
    have : s.branch ∈ bk.opens := by
      rw [hinv.opens_eq, Book.unclosed, List.mem_filter]
      refine ⟨List.mem_range'_1.2 ⟨Nat.zero_le _, by simpa using hi⟩, ?_⟩
      simp [Book.isOpenAt, hold, hopen]
    simp [this]
  refine ⟨bk.record s s.branch old r (old.extend g0 tk) t', ?_, rfl, by simp [Book.record], ?_⟩
  · simp only [Book.step, hs, hold, hnew, hr, h1, h2]
    simp
  · rw [ht']
    exact record_inv hinv hold hopen hr hclos

/-- `Book.step` answers `.ok` only with the calculus result -/
theorem step_tab {bk' : Book} (h : bk.step L s = .ok bk') : applyStep L bk.tab s = some bk'.tab := by
  unfold Book.step at h
  split at h
  · cases h
  · next t' ht' =>
    split at h
    · split at h
      · cases h
      · split at h
        · cases h
        · cases h; rw [ht']; rfl
    · cases h

end
end TabTree
end Ptx
