/-
  Ptx.Proofs.LibModelOrder — the order of successful `set_atomic_value` / `set_opaque_value` /
  `set_predicated_value` / `R.add` calls does not matter, part 1: the *content* of the model a
  program of such calls ends in (which worlds have a frame, which value each letter / uninterpreted
  sentence / predication has where, which predicates a frame knows, constants, the sentence sets
  `_complete_frames` reads, keys and pairs of R) is described by MEMBERSHIP of calls in the program —
  provided no call raised.  Hence programs that are permutations of one another end in models with
  the same content (`Model.Eqv`).
-/
import Ptx.Proofs.LibModelFuel
namespace Ptx.LibModel
open Ptx

/-! ### content -/

/-- what a frame says -/
inductive FFact where
  | atom (a : Nat × Nat) (v : V)
  | opq (s : Sent) (v : V)
  | hasPred (p : Pred)
  | pred (p : Pred) (t : Tup) (v : V)

/-- what a model says -/
inductive Fact where
  | frame (w : Nat)
  | at (w : Nat) (ψ : FFact)
  | const (c : Nat × Nat)
  | sAtom (a : Nat × Nat)
  | sPred (p : Pred)
  | key (w : Nat)
  | pair (p : Nat × Nat)

def Frame.has (f : Frame) : FFact → Prop
  | .atom a v => f.atomics.lookup a = some v
  | .opq s v => f.opaques.lookup s = some v
  | .hasPred p => p ∈ akeys f.preds
  | .pred p t v => (f.interp p).lookup t = some v

def Model.has (m : Model) : Fact → Prop
  | .frame w => w ∈ akeys m.frames
  | .at w ψ => (frameD m w).has ψ
  | .const c => c ∈ m.consts
  | .sAtom a => a ∈ m.sAtoms
  | .sPred p => p ∈ m.sPreds
  | .key w => w ∈ m.R.keys
  | .pair p => p ∈ m.R.pairs

/-- same content (and the same two flags) -/
structure Model.Eqv (m₁ m₂ : Model) : Prop where
  finished : m₁.finished = m₂.finished
  frameComplete : m₁.frameComplete = m₂.frameComplete
  has : ∀ φ, m₁.has φ ↔ m₂.has φ

theorem Model.Eqv.refl (m : Model) : m.Eqv m := ⟨rfl, rfl, fun _ => Iff.rfl⟩
theorem Model.Eqv.symm {m₁ m₂ : Model} (h : m₁.Eqv m₂) : m₂.Eqv m₁ :=
  ⟨h.finished.symm, h.frameComplete.symm, fun φ => (h.has φ).symm⟩
theorem Model.Eqv.trans {m₁ m₂ m₃ : Model} (h : m₁.Eqv m₂) (h' : m₂.Eqv m₃) : m₁.Eqv m₃ :=
  ⟨h.finished.trans h'.finished, h.frameComplete.trans h'.frameComplete, fun φ => (h.has φ).trans (h'.has φ)⟩

/-! ### what a successful call contributes -/

/-- the shape of the contribution of a value-setting call: a world, frame facts there, constants,
    letters and predicates for the sentence sets -/
structure Contrib where
  w : Nat
  G : FFact → Prop
  C : List (Nat × Nat)
  A : List (Nat × Nat)
  P : List Pred

def Contrib.gives (k : Contrib) (φ : Fact) : Prop :=
  φ = .frame k.w ∨ (∃ ψ, k.G ψ ∧ φ = .at k.w ψ) ∨ (∃ c ∈ k.C, φ = .const c) ∨ (∃ a ∈ k.A, φ = .sAtom a) ∨
    (∃ p ∈ k.P, φ = .sPred p)

def contribAtomic (a : Nat × Nat) (v : V) (w : Nat) : Contrib :=
  { w := w, G := fun ψ => ψ = .atom a v, C := [], A := [a], P := [] }
def contribOpaque (s : Sent) (v : V) (w : Nat) : Contrib :=
  { w := w, G := fun ψ => ψ = .opq s v ∨ ∃ p ∈ s.predicates, ψ = .hasPred p,
    C := sentConsts s, A := s.atomics, P := s.predicates }
def contribPred (p : Pred) (ps : Tup) (v : V) (w : Nat) : Contrib :=
  { w := w, G := fun ψ => ψ = .hasPred p ∨ ψ = .pred p ps v, C := constsOfTup ps, A := [], P := [p] }

/-- the calls the order theorem is about -/
def MOp.prim : MOp → Bool
  | .setAtomic _ _ _ _ => true
  | .setPred _ _ _ _ => true
  | .setOpaque _ _ _ => true
  | .rAdd _ _ => true
  | _ => false

def MOp.gives : MOp → Fact → Prop
  | .setAtomic i j v w, φ => (contribAtomic (i, j) v w).gives φ
  | .setOpaque s v w, φ => (contribOpaque s v w).gives φ
  | .setPred p ps v w, φ => (contribPred p ps v w).gives φ
  | .rAdd a b, φ => φ = .key a ∨ φ = .key b ∨ φ = .pair (a, b)
  | _, _ => False

/-! ### frames through `frameAt` / `putFrame` -/

theorem frameAt_spec {L : LogicData} {m m1 : Model} {w : Nat} {f : Frame} (h : frameAt L m w = .ok (m1, f)) :
    f = frameD m1 w ∧ (∀ w', frameD m1 w' = frameD m w') ∧
    (∀ w', w' ∈ akeys m1.frames ↔ w' ∈ akeys m.frames ∨ w' = w) ∧ w ∈ akeys m1.frames ∧
    m1.consts = m.consts ∧ m1.sAtoms = m.sAtoms ∧ m1.sPreds = m.sPreds ∧ m1.R = m.R ∧
    m1.finished = m.finished ∧ m1.frameComplete = m.frameComplete := by
  unfold frameAt at h
  split at h
  · next f' hl =>
    simp only [Except.ok.injEq, Prod.mk.injEq] at h
    obtain ⟨rfl, rfl⟩ := h
    have hk : w ∈ akeys m.frames := mem_akeys_of_lookup hl
    refine ⟨by simp [frameD, hl], fun _ => rfl, ?_, hk, rfl, rfl, rfl, rfl, rfl, rfl⟩
    intro w'
    constructor
    · exact Or.inl
    · rintro (h | rfl)
      · exact h
      · exact hk
  · next hl =>
    split at h
    · simp only [Except.ok.injEq, Prod.mk.injEq] at h
      obtain ⟨rfl, rfl⟩ := h
      have hD : ∀ w', frameD ({ m with frames := m.frames ++ [(w, ({} : Frame))] } : Model) w' = frameD m w' := by
        intro w'
        simp only [frameD, List.lookup_append]
        cases hl' : m.frames.lookup w' with
        | some g => simp
        | none =>
          by_cases hw : w' = w
          · subst hw; simp [List.lookup]
          · have : (w' == w) = false := by simpa using hw
            simp [List.lookup, this]
      refine ⟨?_, hD, ?_, ?_, rfl, rfl, rfl, rfl, rfl, rfl⟩
      · rw [hD]; simp [frameD, hl]
      · intro w'; simp [akeys]
      · simp [akeys]
    · cases h

theorem frameD_putFrame (m : Model) (w : Nat) (f : Frame) (w' : Nat) :
    frameD (putFrame m w f) w' = if w' = w then f else frameD m w' := by
  unfold frameD putFrame
  simp only
  split
  · next h => subst h; simp [lookup_aset_self]
  · next h => rw [lookup_aset_ne _ _ h]

theorem akeys_putFrame (m : Model) (w : Nat) (f : Frame) (w' : Nat) :
    w' ∈ akeys (putFrame m w f).frames ↔ w' ∈ akeys m.frames ∨ w' = w := by
  unfold putFrame
  simp only [akeys_aset]
  split
  · next h =>
    constructor
    · exact Or.inl
    · rintro (h' | rfl)
      · exact h'
      · exact h
  · simp

theorem uni_nil {α} [DecidableEq α] (xs : List α) : uni xs [] = xs := by simp [uni]

/-- the plumbing common to the three value-setting calls -/
theorem has_of_shape {L : LogicData} {m m1 m' : Model} {f f' : Frame} (k : Contrib)
    (hfa : frameAt L m k.w = .ok (m1, f))
    (hD : ∀ w', frameD m' w' = if w' = k.w then f' else frameD m1 w')
    (hK : ∀ w', w' ∈ akeys m'.frames ↔ w' ∈ akeys m1.frames ∨ w' = k.w)
    (hc : m'.consts = uni m1.consts k.C) (ha : m'.sAtoms = uni m1.sAtoms k.A) (hp : m'.sPreds = uni m1.sPreds k.P)
    (hR : m'.R = m1.R) (hf : ∀ ψ, f'.has ψ ↔ f.has ψ ∨ k.G ψ) :
    ∀ φ, m'.has φ ↔ m.has φ ∨ k.gives φ := by
  obtain ⟨s1, s2, s3, s4, s5, s6, s7, s8, _, _⟩ := frameAt_spec hfa
  intro φ
  cases φ with
  | frame w' =>
    simp only [Model.has, Contrib.gives, Fact.frame.injEq, reduceCtorEq, and_false, exists_false, or_false]
    rw [hK, s3]
    constructor
    · rintro ((h | h) | h)
      · exact Or.inl h
      · exact Or.inr h
      · exact Or.inr h
    · rintro (h | h)
      · exact Or.inl (Or.inl h)
      · exact Or.inr h
  | «at» w' ψ =>
    simp only [Model.has, Contrib.gives, reduceCtorEq, Fact.at.injEq, and_false, exists_false, or_false, false_or]
    rw [hD]
    split
    · next hw =>
      subst hw
      rw [hf, s1, s2]
      constructor
      · rintro (h | h)
        · exact Or.inl h
        · exact Or.inr ⟨ψ, h, rfl, rfl⟩
      · rintro (h | ⟨ψ', h, _, rfl⟩)
        · exact Or.inl h
        · exact Or.inr h
    · next hw =>
      rw [s2]
      constructor
      · exact Or.inl
      · rintro (h | ⟨_, _, h, _⟩)
        · exact h
        · exact absurd h hw
  | const c =>
    simp only [Model.has, Contrib.gives, reduceCtorEq, Fact.const.injEq, and_false, exists_false, or_false, false_or,
      exists_eq_right']
    rw [hc, mem_uni, s5]
  | sAtom a =>
    simp only [Model.has, Contrib.gives, reduceCtorEq, Fact.sAtom.injEq, and_false, exists_false, or_false, false_or,
      exists_eq_right']
    rw [ha, mem_uni, s6]
  | sPred p =>
    simp only [Model.has, Contrib.gives, reduceCtorEq, Fact.sPred.injEq, and_false, exists_false, or_false, false_or,
      exists_eq_right']
    rw [hp, mem_uni, s7]
  | key w' =>
    simp only [Model.has, Contrib.gives, reduceCtorEq, and_false, exists_false, or_false]
    rw [hR, s8]
  | pair p =>
    simp only [Model.has, Contrib.gives, reduceCtorEq, and_false, exists_false, or_false]
    rw [hR, s8]

/-! ### frame level -/

theorem ensurePred_has (f : Frame) (p : Pred) (ψ : FFact) : (f.ensurePred p).has ψ ↔ f.has ψ ∨ ψ = .hasPred p := by
  cases ψ with
  | atom a v => simp [Frame.has, Frame.ensurePred]
  | opq s v => simp [Frame.has, Frame.ensurePred]
  | hasPred p' =>
    simp only [Frame.has, Frame.ensurePred, FFact.hasPred.injEq]
    exact mem_akeys_ainsNew
  | pred p' t v => simp [Frame.has, interp_ensurePred]

theorem ensurePreds_has : ∀ (ps : List Pred) (f : Frame) (ψ : FFact),
    (ps.foldl Frame.ensurePred f).has ψ ↔ f.has ψ ∨ ∃ p ∈ ps, ψ = .hasPred p
  | [], f, ψ => by simp
  | p :: ps, f, ψ => by
      simp only [List.foldl_cons, List.mem_cons, exists_eq_or_imp]
      rw [ensurePreds_has ps, ensurePred_has, or_assoc]

theorem lookup_aset_iff {κ β : Type} [DecidableEq κ] [BEq κ] [LawfulBEq κ] (l : List (κ × β)) (k : κ) (v : β) (hl : l.lookup k = none ∨ l.lookup k = some v)
    (k' : κ) (v' : β) : (aset l k v).lookup k' = some v' ↔ l.lookup k' = some v' ∨ (k' = k ∧ v' = v) := by
  by_cases hk : k' = k
  · subst hk
    rw [lookup_aset_self]
    constructor
    · intro h; cases h; exact Or.inr ⟨rfl, rfl⟩
    · rintro (h | ⟨_, rfl⟩)
      · rcases hl with hl | hl
        · rw [hl] at h; cases h
        · rw [hl] at h; exact h
      · rfl
  · rw [lookup_aset_ne _ _ hk]
    constructor
    · exact Or.inl
    · rintro (h | ⟨h, _⟩)
      · exact h
      · exact absurd h hk

theorem setAtomics_has (f : Frame) (a : Nat × Nat) (v : V) (hl : f.atomics.lookup a = none ∨ f.atomics.lookup a = some v)
    (ψ : FFact) : ({ f with atomics := aset f.atomics a v } : Frame).has ψ ↔ f.has ψ ∨ ψ = .atom a v := by
  cases ψ with
  | atom a' v' =>
    simp only [Frame.has, FFact.atom.injEq]
    exact lookup_aset_iff _ _ _ hl _ _
  | opq s v' => simp [Frame.has]
  | hasPred p' => simp [Frame.has]
  | pred p' t v' => simp [Frame.has, Frame.interp]

theorem setOpaques_has (f : Frame) (s : Sent) (v : V) (hl : f.opaques.lookup s = none ∨ f.opaques.lookup s = some v)
    (ψ : FFact) : ({ f with opaques := aset f.opaques s v } : Frame).has ψ ↔ f.has ψ ∨ ψ = .opq s v := by
  cases ψ with
  | atom a' v' => simp [Frame.has]
  | opq s' v' =>
    simp only [Frame.has, FFact.opq.injEq]
    exact lookup_aset_iff _ _ _ hl _ _
  | hasPred p' => simp [Frame.has]
  | pred p' t v' => simp [Frame.has, Frame.interp]

theorem setInterp_has (f : Frame) (p : Pred) (hp : p ∈ akeys f.preds) (t : Tup) (v : V)
    (hl : (f.interp p).lookup t = none ∨ (f.interp p).lookup t = some v) (ψ : FFact) :
    (f.setInterp p (aset (f.interp p) t v)).has ψ ↔ f.has ψ ∨ ψ = .pred p t v := by
  cases ψ with
  | atom a' v' => simp [Frame.has, Frame.setInterp]
  | opq s' v' => simp [Frame.has, Frame.setInterp]
  | hasPred p' =>
    simp only [Frame.has, Frame.setInterp, reduceCtorEq, or_false, akeys_aset, hp, ↓reduceIte]
  | pred p' t' v' =>
    simp only [Frame.has, FFact.pred.injEq]
    by_cases hpp : p' = p
    · subst hpp
      rw [interp_setInterp_self, lookup_aset_iff _ _ _ hl]
      constructor
      · rintro (h | ⟨h1, h2⟩)
        · exact Or.inl h
        · exact Or.inr ⟨rfl, h1, h2⟩
      · rintro (h | ⟨_, h1, h2⟩)
        · exact Or.inl h
        · exact Or.inr ⟨h1, h2⟩
    · rw [interp_setInterp_ne _ _ hpp]
      constructor
      · exact Or.inl
      · rintro (h | ⟨h, _, _⟩)
        · exact h
        · exact absurd h hpp

/-! ### the three calls -/

theorem setAtomic_has {L : LogicData} {m : Model} {a : Nat × Nat} {v : V} {w : Nat}
    (hok : (setAtomic L m a v w).2 = none) :
    (∀ φ, (setAtomic L m a v w).1.has φ ↔ m.has φ ∨ (contribAtomic a v w).gives φ) ∧
    (setAtomic L m a v w).1.finished = m.finished ∧ (setAtomic L m a v w).1.frameComplete = m.frameComplete := by
  unfold setAtomic at hok ⊢
  by_cases hfin : m.finished = true
  · simp [hfin] at hok
  simp only [hfin, Bool.false_eq_true, ↓reduceIte] at hok ⊢
  by_cases hval : (!hasVal L v) = true
  · simp [hval] at hok
  simp only [hval, Bool.false_eq_true, ↓reduceIte] at hok ⊢
  cases hfa : frameAt L m w with
  | error e => simp [hfa] at hok
  | ok r =>
  obtain ⟨m1, f⟩ := r
  simp only [hfa] at hok ⊢
  obtain ⟨s1, _, _, s4, _, _, _, _, s9, s10⟩ := frameAt_spec hfa
  cases hold : f.atomics.lookup a with
  | some old =>
    simp only [hold] at hok ⊢
    by_cases hov : old = v
    · subst hov
      simp only [↓reduceIte] at hok ⊢
      refine ⟨?_, s9.trans (by simpa using hfin), s10⟩
      apply has_of_shape (contribAtomic a old w) (f' := f) hfa
      · intro w'
        show frameD m1 w' = _
        by_cases h : w' = w
        · subst h; simp only [contribAtomic, ↓reduceIte]; exact s1.symm
        · simp only [contribAtomic, h, ↓reduceIte]
      · intro w'
        simp only [contribAtomic]
        constructor
        · exact Or.inl
        · rintro (h | rfl)
          · exact h
          · exact s4
      · simp [contribAtomic, uni_nil]
      · rfl
      · simp [contribAtomic, uni_nil]
      · rfl
      · intro ψ
        simp only [contribAtomic]
        constructor
        · exact Or.inl
        · rintro (h | rfl)
          · exact h
          · exact hold
    · simp [hov] at hok
  | none =>
    have hnone := hold
    simp only [hold] at hok ⊢
    refine ⟨?_, s9.trans (by simpa using hfin), s10⟩
    apply has_of_shape (contribAtomic a v w) (f' := { f with atomics := aset f.atomics a v }) hfa
    · intro w'; exact frameD_putFrame _ _ _ _
    · intro w'; exact akeys_putFrame _ _ _ _
    · simp [contribAtomic, uni_nil, putFrame]
    · rfl
    · simp [contribAtomic, uni_nil, putFrame]
    · rfl
    · intro ψ; exact setAtomics_has f a v (Or.inl hnone) ψ

theorem setOpaque_has {L : LogicData} {m : Model} {s : Sent} {v : V} {w : Nat}
    (hok : (setOpaque L m s v w).2 = none) :
    (∀ φ, (setOpaque L m s v w).1.has φ ↔ m.has φ ∨ (contribOpaque s v w).gives φ) ∧
    (setOpaque L m s v w).1.finished = m.finished ∧ (setOpaque L m s v w).1.frameComplete = m.frameComplete := by
  unfold setOpaque at hok ⊢
  by_cases hfin : m.finished = true
  · simp [hfin] at hok
  simp only [hfin, Bool.false_eq_true, ↓reduceIte] at hok ⊢
  by_cases hval : (!hasVal L v) = true
  · simp [hval] at hok
  simp only [hval, Bool.false_eq_true, ↓reduceIte] at hok ⊢
  cases hfa : frameAt L m w with
  | error e => simp [hfa] at hok
  | ok r =>
  obtain ⟨m1, f⟩ := r
  simp only [hfa] at hok ⊢
  obtain ⟨s1, _, _, s4, _, _, _, _, s9, s10⟩ := frameAt_spec hfa
  cases hold : f.opaques.lookup s with
  | some old =>
    simp only [hold] at hok ⊢
    by_cases hov : old = v
    · subst hov
      simp only [↓reduceIte] at hok ⊢
      refine ⟨?_, s9.trans (by simpa using hfin), s10⟩
      apply has_of_shape (contribOpaque s old w) (f' := s.predicates.foldl Frame.ensurePred f) hfa
      · intro w'; exact frameD_putFrame _ _ _ _
      · intro w'; exact akeys_putFrame _ _ _ _
      · rfl
      · rfl
      · rfl
      · rfl
      · intro ψ
        rw [ensurePreds_has]
        simp only [contribOpaque]
        constructor
        · rintro (h | h)
          · exact Or.inl h
          · exact Or.inr (Or.inr h)
        · rintro (h | rfl | h)
          · exact Or.inl h
          · exact Or.inl hold
          · exact Or.inr h
    · simp [hov] at hok
  | none =>
    have hnone := hold
    simp only [hold] at hok ⊢
    refine ⟨?_, s9.trans (by simpa using hfin), s10⟩
    apply has_of_shape (contribOpaque s v w)
      (f' := s.predicates.foldl Frame.ensurePred { f with opaques := aset f.opaques s v }) hfa
    · intro w'; exact frameD_putFrame _ _ _ _
    · intro w'; exact akeys_putFrame _ _ _ _
    · rfl
    · rfl
    · rfl
    · rfl
    · intro ψ
      rw [ensurePreds_has, setOpaques_has f s v (Or.inl hnone)]
      simp only [contribOpaque, or_assoc]

theorem setPredicated_has {L : LogicData} {m : Model} {p : Pred} {ps : Tup} {v : V} {w : Nat}
    (hok : (setPredicated L m p ps v w).2 = none) :
    (∀ φ, (setPredicated L m p ps v w).1.has φ ↔ m.has φ ∨ (contribPred p ps v w).gives φ) ∧
    (setPredicated L m p ps v w).1.finished = m.finished ∧
    (setPredicated L m p ps v w).1.frameComplete = m.frameComplete := by
  unfold setPredicated at hok ⊢
  by_cases hfin : m.finished = true
  · simp [hfin] at hok
  simp only [hfin, Bool.false_eq_true, ↓reduceIte] at hok ⊢
  by_cases hval : (!hasVal L v) = true
  · simp [hval] at hok
  simp only [hval, Bool.false_eq_true, ↓reduceIte] at hok ⊢
  cases hfa : frameAt L m w with
  | error e => simp [hfa] at hok
  | ok r =>
  obtain ⟨m1, f⟩ := r
  simp only [hfa] at hok ⊢
  obtain ⟨s1, _, _, s4, _, _, _, _, s9, s10⟩ := frameAt_spec hfa
  by_cases hvar : ps.any Param.isVar = true
  · simp [hvar] at hok
  simp only [hvar, Bool.false_eq_true, ↓reduceIte] at hok ⊢
  have hp1 : p ∈ akeys (f.ensurePred p).preds := mem_akeys_ainsNew.2 (Or.inr rfl)
  cases hold : ((f.ensurePred p).interp p).lookup ps with
  | some old =>
    simp only [hold] at hok ⊢
    by_cases hov : old = v
    · subst hov
      simp only [↓reduceIte] at hok ⊢
      refine ⟨?_, s9.trans (by simpa using hfin), s10⟩
      apply has_of_shape (contribPred p ps old w) (f' := f.ensurePred p) hfa
      · intro w'; exact frameD_putFrame _ _ _ _
      · intro w'; exact akeys_putFrame _ _ _ _
      · rfl
      · simp [contribPred, uni_nil, putFrame]
      · rfl
      · rfl
      · intro ψ
        rw [ensurePred_has]
        simp only [contribPred]
        constructor
        · rintro (h | h)
          · exact Or.inl h
          · exact Or.inr (Or.inl h)
        · rintro (h | h | rfl)
          · exact Or.inl h
          · exact Or.inr h
          · left
            have := hold
            rw [interp_ensurePred] at this
            exact this
    · simp [hov] at hok
  | none =>
    have hnone := hold
    simp only [hold] at hok ⊢
    refine ⟨?_, s9.trans (by simpa using hfin), s10⟩
    apply has_of_shape (contribPred p ps v w)
      (f' := (f.ensurePred p).setInterp p (aset ((f.ensurePred p).interp p) ps v)) hfa
    · intro w'; exact frameD_putFrame _ _ _ _
    · intro w'; exact akeys_putFrame _ _ _ _
    · rfl
    · simp [contribPred, uni_nil, putFrame]
    · rfl
    · rfl
    · intro ψ
      rw [setInterp_has _ p hp1 ps v (Or.inl hnone), ensurePred_has]
      simp only [contribPred, or_assoc]

/-! ### programs -/

theorem step_has {L : LogicData} {hints : Hints} {m : Model} {op : MOp} (hprim : op.prim = true)
    (hok : (step L hints m op).2 = none) :
    (∀ φ, (step L hints m op).1.has φ ↔ m.has φ ∨ op.gives φ) ∧
    (step L hints m op).1.finished = m.finished ∧ (step L hints m op).1.frameComplete = m.frameComplete := by
  cases op with
  | setAtomic i j v w => exact setAtomic_has hok
  | setPred p ps v w => exact setPredicated_has hok
  | setOpaque s v w => exact setOpaque_has hok
  | rAdd a b =>
    refine ⟨?_, rfl, rfl⟩
    intro φ
    cases φ <;> simp only [step, Model.has, MOp.gives, reduceCtorEq, or_false, false_or, Fact.key.injEq,
      Fact.pair.injEq, Acc.mem_keys_add, Acc.mem_pairs_add]
    exact Iff.rfl
  | setLiteral _ _ _ => simp [MOp.prim] at hprim
  | setValue _ _ _ => simp [MOp.prim] at hprim
  | finish => simp [MOp.prim] at hprim

/-- the content of the model a program of value-setting / `R.add` calls ends in, none of which raised:
    what was there before, and what some call of the program contributes -/
theorem run_has {L : LogicData} {hints : Hints} : ∀ (ops : List MOp) (m : Model), (∀ op ∈ ops, op.prim = true) →
    (∀ e ∈ (run L hints m ops).2, e = none) →
    (∀ φ, (run L hints m ops).1.has φ ↔ m.has φ ∨ ∃ op ∈ ops, op.gives φ) ∧
    (run L hints m ops).1.finished = m.finished ∧ (run L hints m ops).1.frameComplete = m.frameComplete
  | [], m, _, _ => by simp [run]
  | op :: ops, m, hprim, hok => by
      simp only [run, List.mem_cons, forall_eq_or_imp] at hok
      obtain ⟨h1, h2, h3⟩ := step_has (hints := hints) (m := m) (hprim op List.mem_cons_self) hok.1
      obtain ⟨i1, i2, i3⟩ := run_has ops (step L hints m op).1 (fun o ho => hprim o (List.mem_cons_of_mem _ ho)) hok.2
      simp only [run]
      refine ⟨?_, i2.trans h2, i3.trans h3⟩
      intro φ
      rw [i1, h1]
      simp only [List.mem_cons, exists_eq_or_imp, or_assoc]

/-- programs that are permutations of one another, none of whose calls raises, end in models with the
    same content -/
theorem run_perm_eqv {L : LogicData} {hints : Hints} {ops₁ ops₂ : List MOp} (m : Model) (hperm : ops₁.Perm ops₂)
    (hprim : ∀ op ∈ ops₁, op.prim = true)
    (hok₁ : ∀ e ∈ (run L hints m ops₁).2, e = none) (hok₂ : ∀ e ∈ (run L hints m ops₂).2, e = none) :
    (run L hints m ops₁).1.Eqv (run L hints m ops₂).1 := by
  obtain ⟨a1, a2, a3⟩ := run_has ops₁ m hprim hok₁
  obtain ⟨b1, b2, b3⟩ := run_has ops₂ m (fun op ho => hprim op (hperm.mem_iff.2 ho)) hok₂
  refine ⟨a2.trans b2.symm, a3.trans b3.symm, ?_⟩
  intro φ
  rw [a1, b1]
  constructor
  · rintro (h | ⟨op, ho, h⟩)
    · exact Or.inl h
    · exact Or.inr ⟨op, hperm.mem_iff.1 ho, h⟩
  · rintro (h | ⟨op, ho, h⟩)
    · exact Or.inl h
    · exact Or.inr ⟨op, hperm.mem_iff.2 ho, h⟩

end Ptx.LibModel
