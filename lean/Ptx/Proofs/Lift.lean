/-
  Ptx.Proofs.Lift — from the finite exactness checks on abstract valuations to statements about
  arbitrary sentences in arbitrary structures: instantiating a template and evaluating it in a
  structure is the same as evaluating the template on the values of the components.
-/
import Ptx.Proofs.Eval
import Ptx.Tab.Calculus
namespace Ptx

variable {L : LogicData} {M : Struct}

theorem eval_neg (e : Env M.D) (w : M.W) (s : Sent) :
    eval L M e w s.neg = L.T.f1 .neg (eval L M e w s) := by
  simp [Sent.neg, eval, Op1.isModal]

theorem eval_op1_nonmodal (e : Env M.D) (w : M.W) (o : Op1) (h : o.isModal = false) (s : Sent) :
    eval L M e w (.op1 o s) = L.T.f1 o (eval L M e w s) := by
  simp [eval, h]

/-- decomposition: the node's sentence is the compound, negated or not -/
theorem decomp_eq {s whole : Sent} {sh : Shape} {ng : Bool} (h : s.decomp = some (sh, ng, whole)) :
    s = (if ng then whole.neg else whole) := by
  cases s with
  | atom i j => simp [Sent.decomp] at h
  | pred p ps => simp [Sent.decomp] at h
  | quant q vi vs b => simp [Sent.decomp] at h; obtain ⟨_, rfl, rfl⟩ := h; simp
  | op2 o a b => simp [Sent.decomp] at h; obtain ⟨_, rfl, rfl⟩ := h; simp
  | op1 o a =>
    cases o <;> try (simp [Sent.decomp] at h; obtain ⟨_, rfl, rfl⟩ := h; simp)
    cases a <;> simp [Sent.decomp] at h <;> obtain ⟨_, rfl, rfl⟩ := h <;> simp [Sent.neg]

theorem eval_decomp {s whole : Sent} {sh : Shape} {ng : Bool} (h : s.decomp = some (sh, ng, whole))
    (e : Env M.D) (w : M.W) : eval L M e w s = L.negIf ng (eval L M e w whole) := by
  rw [decomp_eq h]
  cases ng <;> simp [LogicData.negIf, eval_neg]

/-- what the compound looks like for each shape -/
theorem decomp_shape {s whole : Sent} {sh : Shape} {ng : Bool} (h : s.decomp = some (sh, ng, whole)) :
    Shape.of whole = some sh := by
  cases s with
  | atom i j => simp [Sent.decomp] at h
  | pred p ps => simp [Sent.decomp] at h
  | quant q vi vs b => simp [Sent.decomp] at h; obtain ⟨rfl, _, rfl⟩ := h; simp [Shape.of]
  | op2 o a b => simp [Sent.decomp] at h; obtain ⟨rfl, _, rfl⟩ := h; simp [Shape.of]
  | op1 o a =>
    cases o <;> try (simp [Sent.decomp] at h; obtain ⟨rfl, _, rfl⟩ := h; simp [Shape.of])
    cases a <;> simp [Sent.decomp] at h <;> obtain ⟨rfl, _, rfl⟩ := h <;> simp [Shape.of]

/-! ### operator rules -/

/-- pointwise template: instantiate with `x` for `lhs`, evaluate = evaluate template at value of `x` -/
theorem evalOp_inst (sh : Shape) (whole A : Sent) (B raw : Option Sent) (var : Nat × Nat)
    (e : Env M.D) (w : M.W) (b : V)
    (hwhole : ∀ v, Tm.wholeOp L.T sh (eval L M e w A) b = some v → eval L M e w whole = v)
    (hB : ∀ B', B = some B' → sh.isOp2 = true → eval L M e w B' = b) :
    ∀ (tm : Tm) (s' : Sent) (v : V), tm.inst whole A B raw var = some s' →
      Tm.evalOp L.T sh (eval L M e w A) b tm = some v → eval L M e w s' = v := by
  intro tm
  induction tm with
  | lhs => intro s' v hi hv; simp [Tm.inst] at hi; simp [Tm.evalOp] at hv; subst hi; exact hv
  | rhs =>
      intro s' v hi hv
      simp [Tm.inst] at hi
      simp only [Tm.evalOp] at hv
      split at hv
      · next h2 => simp at hv; subst hv; exact hB s' hi h2
      · cases hv
  | whole => intro s' v hi hv; simp [Tm.inst] at hi; subst hi; simp [Tm.evalOp] at hv; exact hwhole v hv
  | raw => intro s' v hi; simp [Tm.inst] at hi
  | bind q t _ => intro s' v _ hv; simp [Tm.evalOp] at hv
  | op1 o t ih =>
      intro s' v hi hv
      simp only [Tm.inst, Option.map_eq_some_iff] at hi
      obtain ⟨s1, hs1, rfl⟩ := hi
      simp only [Tm.evalOp] at hv
      split at hv
      · cases hv
      · next hmo =>
        simp only [Option.map_eq_some_iff] at hv
        obtain ⟨v1, hv1, rfl⟩ := hv
        rw [eval_op1_nonmodal _ _ _ (by simpa using hmo), ih s1 v1 hs1 hv1]
  | op2 o t u iht ihu =>
      intro s' v hi hv
      simp only [Tm.inst, Option.bind_eq_bind] at hi
      cases h1 : t.inst whole A B raw var with
      | none => simp [h1] at hi
      | some s1 =>
        cases h2 : u.inst whole A B raw var with
        | none => simp [h1, h2] at hi
        | some s2 =>
          simp [h1, h2] at hi; subst hi
          simp only [Tm.evalOp, Option.bind_eq_bind] at hv
          cases g1 : Tm.evalOp L.T sh (eval L M e w A) b t with
          | none => simp [g1] at hv
          | some v1 =>
            cases g2 : Tm.evalOp L.T sh (eval L M e w A) b u with
            | none => simp [g1, g2] at hv
            | some v2 =>
              simp [g1, g2] at hv; subst hv
              simp [eval, iht s1 v1 h1 g1, ihu s2 v2 h2 g2]

/-! ### modal rules -/

theorem eval_modal (hm : L.modal = true) (e : Env M.D) (w : M.W) (o : Op1) (ho : o.isModal = true) (A : Sent) :
    eval L M e w (.op1 o A) = L.T.mfold o (profile L.T (fun w' => M.R w w') (fun w' => eval L M e w' A)) := by
  simp [eval, ho, hm]

/-- pointwise templates: what the instantiated sentence evaluates to at a point where the
    operand has value `x` -/
theorem evalPt_inst (whole A : Sent) (var : Nat × Nat) (e : Env M.D) (w : M.W) :
    ∀ (tm : Tm) (s' : Sent) (v : V), tm.inst whole A none none var = some s' →
      Tm.evalPt L.T (some (eval L M e w A)) none tm = some v → eval L M e w s' = v := by
  intro tm
  induction tm with
  | lhs => intro s' v hi hv; simp [Tm.inst] at hi; simp [Tm.evalPt] at hv; subst hi; exact hv
  | rhs => intro s' v hi; simp [Tm.inst] at hi
  | whole => intro s' v _ hv; simp [Tm.evalPt] at hv
  | raw => intro s' v hi; simp [Tm.inst] at hi
  | bind q t _ => intro s' v _ hv; simp [Tm.evalPt] at hv
  | op1 o t ih =>
      intro s' v hi hv
      simp only [Tm.inst, Option.map_eq_some_iff] at hi
      obtain ⟨s1, hs1, rfl⟩ := hi
      simp only [Tm.evalPt] at hv
      split at hv
      · cases hv
      · next hmo =>
        simp only [Option.map_eq_some_iff] at hv
        obtain ⟨v1, hv1, rfl⟩ := hv
        rw [eval_op1_nonmodal _ _ _ (by simpa using hmo), ih s1 v1 hs1 hv1]
  | op2 o t u iht ihu =>
      intro s' v hi hv
      simp only [Tm.inst, Option.bind_eq_bind] at hi
      cases h1 : t.inst whole A none none var with
      | none => simp [h1] at hi
      | some s1 =>
        cases h2 : u.inst whole A none none var with
        | none => simp [h1, h2] at hi
        | some s2 =>
          simp [h1, h2] at hi; subst hi
          simp only [Tm.evalPt, Option.bind_eq_bind] at hv
          cases g1 : Tm.evalPt L.T (some (eval L M e w A)) none t with
          | none => simp [g1] at hv
          | some v1 =>
            cases g2 : Tm.evalPt L.T (some (eval L M e w A)) none u with
            | none => simp [g1, g2] at hv
            | some v2 =>
              simp [g1, g2] at hv; subst hv
              simp [eval, iht s1 v1 h1 g1, ihu s2 v2 h2 g2]

/-- templates at the node's own world in a modal rule -/
theorem evalMSame_inst (hT : L.tablesTotalB = true) (hM : M.Interp L) (hm : L.modal = true)
    (mo : Op1) (hmo : mo.isModal = true) (A : Sent) (var : Nat × Nat) (e : Env M.D) (w : M.W) :
    ∀ (tm : Tm) (s' : Sent) (v : V), tm.inst (.op1 mo A) A none none var = some s' →
      Tm.evalMSame L.T mo (profile L.T (fun w' => M.R w w') (fun w' => eval L M e w' A)) tm = some v →
      eval L M e w s' = v := by
  intro tm
  induction tm with
  | lhs => intro s' v _ hv; simp [Tm.evalMSame] at hv
  | rhs => intro s' v hi; simp [Tm.inst] at hi
  | whole =>
      intro s' v hi hv
      simp [Tm.inst] at hi; subst hi
      simp [Tm.evalMSame] at hv; subst hv
      exact eval_modal hm e w mo hmo A
  | raw => intro s' v hi; simp [Tm.inst] at hi
  | bind q t _ => intro s' v _ hv; simp [Tm.evalMSame] at hv
  | op1 o t ih =>
      intro s' v hi hv
      simp only [Tm.inst, Option.map_eq_some_iff] at hi
      obtain ⟨s1, hs1, rfl⟩ := hi
      simp only [Tm.evalMSame] at hv
      split at hv
      · next ho =>
        simp only [Option.map_eq_some_iff, Tm.mapProfile] at hv
        obtain ⟨Q, hQ, rfl⟩ := hv
        rw [eval_modal hm e w o ho s1]
        unfold Tables.mfold
        congr 3
        apply Tables.canon_congr
        intro v hv
        rw [mem_profile]
        constructor
        · rintro ⟨_, w'', hR, rfl⟩
          have hx : eval L M e w'' A ∈ profile L.T (fun w' => M.R w w') (fun w' => eval L M e w' A) :=
            mem_profile.2 ⟨eval_mem_vals L hT M hM A e w'', w'', hR, rfl⟩
          obtain ⟨vx, hvx, hf⟩ := mapOpt_mem_fwd hQ _ hx
          rw [evalPt_inst (L := L) (M := M) (.op1 mo A) A var e w'' t s1 vx hs1 hf]
          exact hvx
        · intro hvQ
          obtain ⟨x, hx, hf⟩ := mapOpt_mem_bwd hQ v hvQ
          obtain ⟨_, w'', hR, rfl⟩ := mem_profile.1 hx
          exact ⟨hv, w'', hR, evalPt_inst (L := L) (M := M) (.op1 mo A) A var e w'' t s1 v hs1 hf⟩
      · next ho =>
        simp only [Option.map_eq_some_iff] at hv
        obtain ⟨v1, hv1, rfl⟩ := hv
        rw [eval_op1_nonmodal _ _ _ (by simpa using ho), ih s1 v1 hs1 hv1]
  | op2 o t u iht ihu =>
      intro s' v hi hv
      simp only [Tm.inst, Option.bind_eq_bind] at hi
      cases h1 : t.inst (.op1 mo A) A none none var with
      | none => simp [h1] at hi
      | some s1 =>
        cases h2 : u.inst (.op1 mo A) A none none var with
        | none => simp [h1, h2] at hi
        | some s2 =>
          simp [h1, h2] at hi; subst hi
          simp only [Tm.evalMSame, Option.bind_eq_bind] at hv
          generalize hP : profile L.T (fun w' => M.R w w') (fun w' => eval L M e w' A) = P at *
          cases g1 : Tm.evalMSame L.T mo P t with
          | none => simp [g1] at hv
          | some v1 =>
            cases g2 : Tm.evalMSame L.T mo P u with
            | none => simp [g1, g2] at hv
            | some v2 =>
              simp [g1, g2] at hv; subst hv
              simp [eval, iht s1 v1 h1 g1, ihu s2 v2 h2 g2]

end Ptx
