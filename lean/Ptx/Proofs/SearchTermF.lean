/-
  Ptx.Proofs.SearchTermF — termination of the search model on propositional arguments in logics WITH access rules.
  Access-rule steps add an access node: the C03 measure `tabMu` does not see them (potential 0), every other application strictly
  decreases it.  So the number of applications OTHER THAN access-rule steps is at most `termBound` in every logic (Serial included);
  access-rule steps are counted separately.
-/
import Ptx.Proofs.SearchTerm
namespace Ptx.Search
open Ptx

theorem sum_map_set_eq {α} (f : α → Nat) : ∀ (t : List α) (i : Nat) (b b' : α), t[i]? = some b →
    ((t.set i b').map f).sum + f b = (t.map f).sum + f b'
  | [], i, b, b', h => by simp at h
  | x :: xs, 0, b, b', h => by
      simp only [List.getElem?_cons_zero, Option.some.injEq] at h
      subst h
      simp only [List.set_cons_zero, List.map_cons, List.sum_cons]; omega
  | x :: xs, i + 1, b, b', h => by
      simp only [List.getElem?_cons_succ] at h
      have := sum_map_set_eq f xs i b b' h
      simp only [List.set_cons_succ, List.map_cons, List.sum_cons]; omega

variable {W : Weights} {c : Nat}

/-- a frame step as the calculus performs it -/
theorem frame_step_shape {L : LogicData} {t t' : Tableau} {bi : Nat} {fr : FrameRule} {w1 w2 w3 : Nat}
    (h : applyStep L t (.frame bi fr w1 w2 w3) = some t') :
    ∃ b a e, t[bi]? = some b ∧ b.closed = false ∧ frameAdd b fr w1 w2 w3 = some (.access a e) ∧
      t' = t.set bi (b.extend [.access a e] none) := by
  obtain ⟨b, hb, ho, ha⟩ := applyStep_open h
  simp only [applyAt] at ha
  split at ha
  · cases ha
  split at ha
  rotate_left
  · cases ha
  next nd hfa =>
  obtain ⟨a, e, rfl⟩ := frameAdd_access hfa
  exact ⟨b, a, e, hb, ho, hfa, by simpa [Step.branch] using ha.symm⟩

theorem pot_extend_access (b : Branch) (a e : Nat) : (b.extend [.access a e] none).pot W c = b.pot W c := by
  simp only [Branch.pot, Branch.extend, potFrom_append, potFrom, Weights.nodePot]
  split <;> simp

/-- an access-rule step leaves the C03 measure, propositionality and "no quit flag" untouched -/
theorem frame_step_measure {L : LogicData} {K : Nat} {t t' : Tableau} {bi : Nat} {fr : FrameRule} {w1 w2 w3 : Nat}
    (h : applyStep L t (.frame bi fr w1 w2 w3) = some t') (hp : t.allProp) (hq : t.noQuit) :
    tabMu W c K t' = tabMu W c K t ∧ t'.allProp ∧ t'.noQuit ∧ t'.length = t.length := by
  obtain ⟨b, a, e, hb, ho, _, rfl⟩ := frame_step_shape h
  have hmu : (b.extend [.access a e] none).mu W c K = b.mu W c K := by
    have hcl : (b.extend [.access a e] none).closed = false := by
      simp [Branch.extend, Branch.closed, Node.isClosure]
    simp only [Branch.mu, hcl, ho, pot_extend_access]
  refine ⟨?_, ?_, ?_, by simp⟩
  · have := sum_map_set_eq (Branch.mu W c K) t bi b (b.extend [.access a e] none) hb
    simp only [tabMu]; omega
  · refine allProp_set hp ?_
    intro s d w hm
    simp only [Branch.extend, List.mem_append, List.mem_singleton] at hm
    rcases hm with hm | hm
    · exact hp b (List.mem_of_getElem? hb) s d w hm
    · cases hm
  · refine noQuit_set hq ?_
    have := hq b (List.mem_of_getElem? hb)
    simp only [Branch.hasQuit, Branch.extend, List.any_append, List.any_cons, List.any_nil, Bool.or_false] at this ⊢
    simp [this]

/-- a legal application on a propositional tableau is a FRESH step of the calculus or an access-rule step -/
theorem apply_fresh_or_frame {L : LogicData} (hrows : L.tfRowsOKB = true) {s : SState} (hinv : Inv L s)
    (hprop : s.tab.allProp) {r : RuleId} {st : Step} (hleg : st ∈ enabled L s r st.branch) :
    st.freshOn s.tab = true ∨ ∃ bi fr w1 w2 w3, st = .frame bi fr w1 w2 w3 := by
  have hm := mem_enabled hleg
  have hk := target_kind hm
  obtain ⟨b, hh, hb, hhs, ho, _⟩ := mem_targets hm
  cases r with
  | ident =>
    obtain ⟨i0, j0, he⟩ := hk
    left; rw [he]; rfl
  | closure =>
    left
    rcases hk with ⟨sn, w, he⟩ | ⟨n, he⟩ <;> (rw [he]; rfl)
  | frame fr =>
    obtain ⟨_, w1, w2, w3, he⟩ := hk
    exact Or.inr ⟨_, _, _, _, _, he⟩
  | table k =>
    left
    rcases hk with ⟨n, c, wo, he⟩ | ⟨rl, tick, i, he, hrl, hw, hi⟩
    · rw [he] at hm ⊢
      have hb' : s.tab[st.branch]? = some b := hb
      have hnt := table_target_unticked hinv (by rw [he] at hb'; exact hb') ho hm
      simp only [Step.freshOn]
      rw [show s.tab[st.branch]? = some b from hb]
      simpa using hnt
    · exfalso
      have I := hinv.branch st.branch b hh hb hhs ho
      have hc : i ∈ hh.cache (.table k) := ((mem_live hhs).1 hi).1
      obtain ⟨nd, hnd, hmatch, _⟩ := I.cacheSound (.table k) i hc
      have hkk : nodeKey nd = some k := by simpa [matchesRule] using hmatch
      cases nd with
      | sent sn d w =>
        have hp := hprop b (List.mem_of_getElem? hb) sn d w (List.mem_of_getElem? hnd)
        simp only [nodeKey] at hkk
        split at hkk
        · next sh ng whole hdec =>
          simp only [Option.some.injEq] at hkk
          subst hkk
          have htf := (isProp_decomp hp hdec d).1
          exact hw (LogicData.tfRow hrows hrl htf).2.1
        · cases hkk
      | access _ _ => simp [nodeKey] at hkk
      | flag _ => simp [nodeKey] at hkk
      | ellipsis => simp [nodeKey] at hkk

/-- states reachable with `nT` applications other than access-rule steps and `nF` access-rule steps -/
inductive ReachTF (L : LogicData) (arg : Argument) : Nat → Nat → SState → Prop
  | init (b : Branch) (hb : b ∈ trunk L arg) : ReachTF L arg 0 0 (SState.init L b.nodes)
  | search {nT nF : Nat} {s : SState} (r : RuleId) (bi : Nat) : ReachTF L arg nT nF s → ReachTF L arg nT nF (s.search L r bi)
  | applyT {nT nF : Nat} {s s' : SState} (r : RuleId) (st : Step) : ReachTF L arg nT nF s → Ev.legal L s (.apply r st) →
      (∀ bi fr w1 w2 w3, st ≠ .frame bi fr w1 w2 w3) → stepEv L s (.apply r st) = some s' → ReachTF L arg (nT + 1) nF s'
  | applyF {nT nF : Nat} {s s' : SState} (r : RuleId) (bi : Nat) (fr : FrameRule) (w1 w2 w3 : Nat) : ReachTF L arg nT nF s →
      Ev.legal L s (.apply r (.frame bi fr w1 w2 w3)) → stepEv L s (.apply r (.frame bi fr w1 w2 w3)) = some s' →
      ReachTF L arg nT (nF + 1) s'

theorem reachTF_reach {L : LogicData} {arg : Argument} {nT nF : Nat} {s : SState} (h : ReachTF L arg nT nF s) :
    Reach L arg s := by
  induction h with
  | init b hb => exact .init b hb
  | search r bi _ ih => exact .step (.search r bi) ih trivial rfl
  | applyT r st _ hl _ hs ih => exact .step (.apply r st) ih hl hs
  | applyF r bi fr w1 w2 w3 _ hl hs ih => exact .step (.apply r _) ih hl hs

/-- the C03 measure along a run: it pays for every application that is not an access-rule step -/
theorem reachTF_measure {L : LogicData} (hm : L.measureOKOnB RuleKey.isTF W = true) (hrows : L.tfRowsOKB = true)
    {arg : Argument} (hp : arg.isProp = true) {nT nF : Nat} {s : SState} (h : ReachTF L arg nT nF s) :
    nT + tabMu W (L.maxGroup + 1) L.maxBranching s.tab ≤ termBound L W arg ∧ s.tab.allProp ∧ s.tab.noQuit := by
  induction h with
  | init b hb =>
    simp only [trunk, List.mem_singleton] at hb
    subst hb
    exact ⟨by simp [termBound]; exact Nat.le_refl _, trunk_allProp L hp, trunk_noQuit L arg⟩
  | search r bi _ ih => rw [search_tab]; exact ih
  | @applyT nT nF s s' r st hreach hleg hnf hs ih =>
    obtain ⟨hle, hprop, hnq⟩ := ih
    have hinv := reach_inv (reachTF_reach hreach)
    simp only [stepEv] at hs
    have ht := applyTarget_tab hs
    rw [search_tab] at ht
    rcases apply_fresh_or_frame hrows hinv hprop hleg.2 with hf | ⟨bi, fr, w1, w2, w3, he⟩
    · obtain ⟨hlt, hprop'⟩ := fresh_step_decreases hm hrows hprop hf ht
      exact ⟨by omega, hprop', fresh_step_noQuit hnq hf ht⟩
    · exact absurd he (hnf _ _ _ _ _)
  | @applyF nT nF s s' r bi fr w1 w2 w3 hreach hleg hs ih =>
    obtain ⟨hle, hprop, hnq⟩ := ih
    simp only [stepEv] at hs
    have ht := applyTarget_tab hs
    rw [search_tab] at ht
    obtain ⟨hmu, hprop', hnq', _⟩ := frame_step_measure (W := W) (c := L.maxGroup + 1) (K := L.maxBranching) ht hprop hnq
    exact ⟨by omega, hprop', hnq'⟩


/-! ### counting the access-rule steps (Reflexive / Transitive / Symmetric): one world, one access pair -/

def accCount (b : Branch) : Nat := (b.nodes.filter isAccess).length
def accSum (t : Tableau) : Nat := (t.map accCount).sum
/-- every world mentioned on the branch is world 0 -/
def WOK (b : Branch) : Prop := ∀ nd ∈ b.nodes, ∀ w ∈ nd.worldsSem, w = 0
def JOK (t : Tableau) : Prop := ∀ b ∈ t, WOK b ∧ accCount b ≤ 1

theorem mapOpt_len' {α β} {f : α → Option β} : ∀ {xs : List α} {ys : List β}, mapOpt f xs = some ys → ys.length = xs.length
  | [], ys, h => by simp [mapOpt] at h; subst h; rfl
  | a :: xs, ys, h => by
      simp only [mapOpt] at h
      split at h
      · next y ys' _ hys => cases h; simp [mapOpt_len' hys]
      · cases h

theorem accCount_extend (b : Branch) (ns : List Node) (tick : Option Nat) (p : Option Nat) :
    accCount ({ b.extend ns tick with parent := p } : Branch) = accCount b + (ns.filter isAccess).length := by
  simp [accCount, Branch.extend, List.filter_append]

theorem WOK_extend {b : Branch} (hb : WOK b) (ns : List Node) (tick : Option Nat) (p : Option Nat)
    (hns : ∀ x ∈ ns, ∀ w ∈ x.worldsSem, w = 0) : WOK ({ b.extend ns tick with parent := p } : Branch) := by
  intro nd hnd w hw
  simp only [Branch.extend, List.mem_append] at hnd
  rcases hnd with h | h
  · exact hb nd h w hw
  · exact hns nd h w hw

/-- the shape of a step result: target branch replaced, new branches appended -/
theorem J_of_shape {t : Tableau} {bi : Nat} {b : Branch} (hb : t[bi]? = some b) (hJ : JOK t)
    (ns0 : List Node) (tick : Option Nat) (rest : List (List Node))
    (hacc : ∀ g ∈ ns0 :: rest, (g.filter isAccess) = [])
    (hw : ∀ g ∈ ns0 :: rest, ∀ x ∈ g, ∀ w ∈ x.worldsSem, w = 0) :
    let t' := t.set bi (b.extend ns0 tick) ++ rest.map (fun g => ({ b.extend g tick with parent := some bi } : Branch))
    JOK t' ∧ accSum t ≤ accSum t' ∧ t'.length = t.length + rest.length := by
  intro t'
  have hJb := hJ b (List.mem_of_getElem? hb)
  have hb0 : accCount (b.extend ns0 tick) = accCount b := by
    have := accCount_extend b ns0 tick b.parent
    rw [extend_parent] at this
    rw [this, hacc ns0 (by simp)]; rfl
  refine ⟨?_, ?_, by simp [t']⟩
  · intro x hx
    simp only [t', List.mem_append, List.mem_map] at hx
    rcases hx with hx | ⟨g, hg, rfl⟩
    · rcases List.mem_or_eq_of_mem_set hx with h | h
      · exact hJ x h
      · subst h
        refine ⟨?_, by rw [hb0]; exact hJb.2⟩
        have := WOK_extend hJb.1 ns0 tick b.parent (hw ns0 (by simp))
        rwa [extend_parent] at this
    · refine ⟨WOK_extend hJb.1 g tick (some bi) (hw g (List.mem_cons_of_mem _ hg)), ?_⟩
      rw [accCount_extend, hacc g (List.mem_cons_of_mem _ hg)]
      exact hJb.2
  · have h1 := sum_map_set_eq accCount t bi b (b.extend ns0 tick) hb
    simp only [accSum, t', List.map_append, List.sum_append]
    omega

/-- a fresh (non access-rule) step on a propositional tableau: no access node is added, no new world, few new branches -/
theorem fresh_step_J {L : LogicData} (hrows : L.tfRowsOKB = true) {t t' : Tableau} (ht : t.allProp) (hJ : JOK t) {st : Step}
    (hf : st.freshOn t = true) (hs : applyStep L t st = some t') :
    JOK t' ∧ accSum t ≤ accSum t' ∧ t'.length ≤ t.length + L.maxBranching := by
  obtain ⟨b, hb, ho, ha⟩ := applyStep_open hs
  have hJb := hJ b (List.mem_of_getElem? hb)
  have fin : ∀ (ns0 : List Node) (tick : Option Nat) (rest : List (List Node)),
      t' = t.set st.branch (b.extend ns0 tick) ++ rest.map (fun g => ({ b.extend g tick with parent := some st.branch } : Branch)) →
      (∀ g ∈ ns0 :: rest, (g.filter isAccess) = []) → (∀ g ∈ ns0 :: rest, ∀ x ∈ g, ∀ w ∈ x.worldsSem, w = 0) →
      rest.length ≤ L.maxBranching → JOK t' ∧ accSum t ≤ accSum t' ∧ t'.length ≤ t.length + L.maxBranching := by
    intro ns0 tick rest he h1 h2 h3
    have := J_of_shape hb hJ ns0 tick rest h1 h2
    simp only at this
    rw [← he] at this
    exact ⟨this.1, this.2.1, by omega⟩
  cases st with
  | frame b' r w1 w2 w3 => simp [Step.freshOn] at hf
  | quit b' name tick => simp [Step.freshOn] at hf
  | close b' s0 w =>
    simp only [applyAt] at ha
    split at ha
    · exact fin [.flag "closure"] none [] (by simpa [closeB] using ha.symm) (by simp [isAccess]) (by simp [Node.worldsSem]) (Nat.zero_le _)
    · cases ha
  | closeIdent b' n =>
    simp only [applyAt] at ha
    split at ha
    · split at ha
      · exact fin [.flag "closure"] none [] (by simpa [closeB] using ha.symm) (by simp [isAccess]) (by simp [Node.worldsSem]) (Nat.zero_le _)
      · cases ha
    · cases ha
  | ident b' i p =>
    simp only [applyAt] at ha
    split at ha
    · cases ha
    · split at ha
      · next ni np hni hnp =>
        split at ha
        · next nd hnd =>
          -- the substituted predication sits at the identity node's world
          have hndw : isAccess nd = false ∧ ∀ w ∈ nd.worldsSem, w = 0 := by
            unfold identAdd at hnd
            split at hnd
            · next q pa pb w0 pr ps w1 =>
              have hwi := hJb.1 _ (List.mem_of_getElem? hni)
              have key : ∀ ps', nd = .sent (.pred pr ps') none w0 → isAccess nd = false ∧ ∀ w ∈ nd.worldsSem, w = 0 := by
                intro ps' he
                subst he
                refine ⟨rfl, fun w hw => hwi w ?_⟩
                cases w0 <;> simpa [Node.worldsSem] using hw
              split at hnd
              · cases hnd
              · split at hnd
                · exact key _ (by simpa using hnd.symm)
                · split at hnd
                  · exact key _ (by simpa using hnd.symm)
                  · cases hnd
            · cases hnd
          exact fin [nd] none [] (by simpa using ha.symm) (by simp [hndw.1]) (by simpa using hndw.2) (Nat.zero_le _)
        · cases ha
      · cases ha
  | rule b' n c wo =>
    simp only [applyAt] at ha
    split at ha
    rotate_left
    · cases ha
    next s d w hn =>
    split at ha
    rotate_left
    · cases ha
    next r g0 rest hrg =>
    have hp := ht b (List.mem_of_getElem? hb) s d w (List.mem_of_getElem? hn)
    obtain ⟨sh, ng, whole, l0, hd, hrule, hl0, hwg⟩ := LogicData.ruleGroups_eq hrg
    obtain ⟨hk, _, _, _⟩ := isProp_decomp hp hd d
    obtain ⟨_, hwit, _⟩ := LogicData.tfRow hrows hrule hk
    have hmap : mapOpt (instAdds whole l0 whole.rhs? whole.qraw whole.qvar w none) r.branches = some (g0 :: rest) := by
      have := witnessGroups_instGroups hwg
      simpa [instGroups, hwit] using this
    have hshape : ∀ g ∈ g0 :: rest, ∀ x ∈ g, ∃ s' d', x = .sent s' d' w := by
      intro g hg x hx
      obtain ⟨br, _, hia⟩ := mapOpt_mem_bwd hmap g hg
      rw [instAdds_eq] at hia
      obtain ⟨a, _, hax⟩ := mapOpt_mem_bwd hia x hx
      rcases instAdd1_shape hax with ⟨s', d', he⟩ | ⟨_, _, w', hwo, _⟩ | ⟨_, w', _, hwo, _⟩
      · exact ⟨s', d', he⟩
      · cases hwo
      · cases hwo
    have hlen : rest.length ≤ L.maxBranching := by
      have h1 := mapOpt_len' hmap
      have h2 := (LogicData.branches_le hrule).1
      simp only [List.length_cons] at h1
      omega
    refine fin g0 _ rest (by simpa [Tableau.fork] using ha.symm) ?_ ?_ hlen
    · intro g hg
      rw [List.filter_eq_nil_iff]
      intro x hx
      obtain ⟨s', d', rfl⟩ := hshape g hg x hx
      simp [isAccess]
    · intro g hg x hx w0 hw0
      obtain ⟨s', d', rfl⟩ := hshape g hg x hx
      exact hJb.1 _ (List.mem_of_getElem? hn) w0 (by cases w <;> simpa [Node.worldsSem] using hw0)

/-- an access-rule step other than Serial on a one-world branch adds THE access pair (0,0), once -/
theorem frame_step_J {L : LogicData} {t t' : Tableau} {bi : Nat} {fr : FrameRule} {w1 w2 w3 : Nat} (hfr : fr ≠ .serial)
    (hs : applyStep L t (.frame bi fr w1 w2 w3) = some t') (hJ : JOK t)
    (hnew : ∀ b nd, t[bi]? = some b → frameAdd b fr w1 w2 w3 = some nd → nd ∉ b.nodes) :
    JOK t' ∧ accSum t' = accSum t + 1 := by
  obtain ⟨b, a, e, hb, ho, hfa, rfl⟩ := frame_step_shape hs
  have hJb := hJ b (List.mem_of_getElem? hb)
  have hnot := hnew b _ hb hfa
  -- both ends are world 0
  have hacc0 : ∀ x y, b.hasAccess x y = true → x = 0 ∧ y = 0 := by
    intro x y hxy
    have hm : Node.access x y ∈ b.nodes := hasAccess_iff.1 hxy
    exact ⟨hJb.1 _ hm x (by simp [Node.worldsSem]), hJb.1 _ hm y (by simp [Node.worldsSem])⟩
  have hae : a = 0 ∧ e = 0 := by
    cases fr with
    | serial => exact absurd rfl hfr
    | reflexive =>
      simp only [frameAdd] at hfa
      split at hfa
      · next hc =>
        simp only [Option.some.injEq, Node.access.injEq] at hfa
        have hm : w1 ∈ b.worlds := by simpa using hc
        obtain ⟨nd, hnd, hw⟩ := List.mem_flatMap.1 hm
        have := hJb.1 nd hnd w1 hw
        omega
      · cases hfa
    | transitive =>
      simp only [frameAdd] at hfa
      split at hfa
      · next hc =>
        simp only [Bool.and_eq_true] at hc
        simp only [Option.some.injEq, Node.access.injEq] at hfa
        have := hacc0 _ _ hc.1
        have := hacc0 _ _ hc.2
        omega
      · cases hfa
    | symmetric =>
      simp only [frameAdd] at hfa
      split at hfa
      · next hc =>
        simp only [Option.some.injEq, Node.access.injEq] at hfa
        have := hacc0 _ _ hc
        omega
      · cases hfa
  obtain ⟨rfl, rfl⟩ := hae
  -- no access node on the branch yet
  have hzero : accCount b = 0 := by
    simp only [accCount, List.length_eq_zero_iff, List.filter_eq_nil_iff]
    intro x hx hax
    cases x with
    | access x y =>
      have h1 := hJb.1 _ hx x (by simp [Node.worldsSem])
      have h2 := hJb.1 _ hx y (by simp [Node.worldsSem])
      subst h1; subst h2
      exact hnot hx
    | _ => simp [isAccess] at hax
  have hnewacc : accCount (b.extend [.access 0 0] none) = 1 := by
    have := accCount_extend b [.access 0 0] none b.parent
    rw [extend_parent] at this
    rw [this, hzero]; rfl
  constructor
  · intro x hx
    rcases List.mem_or_eq_of_mem_set hx with h | h
    · exact hJ x h
    · subst h
      refine ⟨?_, by rw [hnewacc]; exact Nat.le_refl _⟩
      have := WOK_extend hJb.1 [.access 0 0] none b.parent (by simp [Node.worldsSem])
      rwa [extend_parent] at this
  · have := sum_map_set_eq accCount t bi b (b.extend [.access 0 0] none) hb
    simp only [accSum]; omega


/-- a Reflexive / Transitive / Symmetric target adds an access node that is NOT yet on the branch (`WorldIndex` = the access
    nodes, `Inv.windex`) -/
theorem frame_target_fresh {L : LogicData} {s : SState} (hinv : Inv L s) {fr : FrameRule} {bi : Nat} {st : Step}
    (hm : st ∈ targets L s (.frame fr) bi) (hfr : fr ≠ .serial) :
    ∃ w1 w2 w3, st = .frame bi fr w1 w2 w3 ∧
      ∀ b nd, s.tab[bi]? = some b → frameAdd b fr w1 w2 w3 = some nd → nd ∉ b.nodes := by
  obtain ⟨b, h, hb, hh, ho, hmem⟩ := mem_targets hm
  have I := hinv.branch bi b h hb hh ho
  simp only [frameTargets] at hmem
  split at hmem
  · cases hmem
  have fin : ∀ w1 w2 w3 a e, st = .frame bi fr w1 w2 w3 → (∀ nd, frameAdd b fr w1 w2 w3 = some nd → nd = .access a e) →
      (a, e) ∉ h.windex → ∃ w1 w2 w3, st = .frame bi fr w1 w2 w3 ∧
        ∀ b' nd, s.tab[bi]? = some b' → frameAdd b' fr w1 w2 w3 = some nd → nd ∉ b'.nodes := by
    intro w1 w2 w3 a e he hadd hni
    refine ⟨w1, w2, w3, he, fun b' nd hb' hfa hin => ?_⟩
    rw [hb] at hb'; simp only [Option.some.injEq] at hb'; subst hb'
    rw [hadd nd hfa] at hin
    exact hni ((I.windex a e).2 hin)
  cases fr with
  | serial => exact absurd rfl hfr
  | reflexive =>
    obtain ⟨i, _, hx⟩ := List.mem_flatMap.1 hmem
    split at hx
    · next nd hnd =>
      obtain ⟨w, hw, he⟩ := List.mem_map.1 hx
      have hni : (w, w) ∉ h.windex := by simpa using (List.mem_filter.1 hw).2
      refine fin w w w w w he.symm ?_ hni
      intro nd' hfa
      simp only [frameAdd] at hfa
      split at hfa
      · simpa using hfa.symm
      · cases hfa
    · cases hx
  | transitive =>
    obtain ⟨i, _, hx⟩ := List.mem_flatMap.1 hmem
    split at hx
    · next a c hnd =>
      obtain ⟨e, he1, he⟩ := List.mem_map.1 hx
      have hni : (a, e) ∉ h.windex := by simpa using (List.mem_filter.1 he1).2
      refine fin a c e a e he.symm ?_ hni
      intro nd' hfa
      simp only [frameAdd] at hfa
      split at hfa
      · simpa using hfa.symm
      · cases hfa
    · cases hx
  | symmetric =>
    obtain ⟨i, _, hx⟩ := List.mem_flatMap.1 hmem
    split at hx
    · next a c hnd =>
      split at hx
      · cases hx
      · next hc =>
        simp only [List.mem_singleton] at hx
        have hni : (c, a) ∉ h.windex := by simpa using hc
        refine fin a c 0 c a hx ?_ hni
        intro nd' hfa
        simp only [frameAdd] at hfa
        split at hfa
        · simpa using hfa.symm
        · cases hfa
    · cases hx

/-- one world, at most one access pair per branch, every access-rule step accounted for, few branches -/
theorem reachTF_frames {L : LogicData} (hm : L.measureOKOnB RuleKey.isTF W = true) (hrows : L.tfRowsOKB = true)
    (hser : L.frameAllowed .serial = false)
    {arg : Argument} (hp : arg.isProp = true) {nT nF : Nat} {s : SState} (h : ReachTF L arg nT nF s) :
    JOK s.tab ∧ nF ≤ accSum s.tab ∧ s.tab.length ≤ 1 + nT * L.maxBranching := by
  induction h with
  | init b hb =>
    simp only [trunk, List.mem_singleton] at hb
    subst hb
    refine ⟨?_, Nat.zero_le _, by simp [SState.init]⟩
    intro x hx
    simp only [SState.init, List.mem_singleton] at hx
    subst hx
    constructor
    · intro nd hnd w hw
      simp only [List.mem_append, List.mem_map, List.mem_singleton] at hnd
      have key : ∀ (sn : Sent) (dd : Option Bool), w ∈ (Node.sent sn dd (if L.modal then some 0 else none)).worldsSem → w = 0 := by
        intro sn dd hw'
        cases hmod : L.modal <;> simpa [hmod, Node.worldsSem] using hw'
      rcases hnd with ⟨p, _, rfl⟩ | rfl
      · exact key _ _ hw
      · exact key _ _ hw
    · have : accCount ({ nodes := arg.premises.map (fun p => Node.sent p L.trunkPrem (if L.modal then some 0 else none)) ++
          [Node.sent (if L.trunkConcNeg then arg.conclusion.neg else arg.conclusion) L.trunkConc (if L.modal then some 0 else none)] } : Branch) = 0 := by
        simp only [accCount, List.length_eq_zero_iff, List.filter_eq_nil_iff]
        intro nd hnd
        simp only [List.mem_append, List.mem_map, List.mem_singleton] at hnd
        rcases hnd with ⟨p, _, rfl⟩ | rfl <;> simp [isAccess]
      omega
  | search r bi _ ih => rw [search_tab]; exact ih
  | @applyT nT nF s s' r st hreach hleg hnf hs ih =>
    obtain ⟨hJ, hle, hlen⟩ := ih
    obtain ⟨_, hprop, _⟩ := reachTF_measure hm hrows hp hreach
    have hinv := reach_inv (reachTF_reach hreach)
    simp only [stepEv] at hs
    have ht := applyTarget_tab hs
    rw [search_tab] at ht
    rcases apply_fresh_or_frame hrows hinv hprop hleg.2 with hf | ⟨bi, fr, w1, w2, w3, he⟩
    · obtain ⟨hJ', hacc, hl'⟩ := fresh_step_J hrows hprop hJ hf ht
      refine ⟨hJ', Nat.le_trans hle hacc, ?_⟩
      rw [Nat.add_mul, Nat.one_mul]; omega
    · exact absurd he (hnf _ _ _ _ _)
  | @applyF nT nF s s' r bi fr w1 w2 w3 hreach hleg hs ih =>
    obtain ⟨hJ, hle, hlen⟩ := ih
    obtain ⟨_, hprop, hnq⟩ := reachTF_measure hm hrows hp hreach
    have hinv := reach_inv (reachTF_reach hreach)
    have hmem := mem_enabled hleg.2
    have hk := target_kind hmem
    simp only [stepEv] at hs
    have ht := applyTarget_tab hs
    rw [search_tab] at ht
    cases r with
    | closure => rcases hk with ⟨_, _, he⟩ | ⟨_, he⟩ <;> cases he
    | ident => obtain ⟨_, _, he⟩ := hk; cases he
    | table k => rcases hk with ⟨_, _, _, he⟩ | ⟨_, _, _, he, _⟩ <;> cases he
    | frame fr' =>
      obtain ⟨hfa, _, _, _, he⟩ := hk
      simp only [Step.frame.injEq] at he
      obtain ⟨_, rfl, _, _, _⟩ := he
      have hfr : fr ≠ .serial := by
        intro hc; subst hc; rw [hser] at hfa; cases hfa
      obtain ⟨v1, v2, v3, he, hnew⟩ := frame_target_fresh hinv hmem hfr
      simp only [Step.frame.injEq] at he
      obtain ⟨_, _, rfl, rfl, rfl⟩ := he
      obtain ⟨hJ', hacc⟩ := frame_step_J hfr ht hJ hnew
      have hlen' := (frame_step_measure (W := W) (c := L.maxGroup + 1) (K := L.maxBranching) ht hprop hnq).2.2.2
      exact ⟨hJ', by omega, by rw [hlen']; exact hlen⟩

theorem accSum_le_length {t : Tableau} (hJ : JOK t) : accSum t ≤ t.length := by
  induction t with
  | nil => simp [accSum]
  | cons b t ih =>
    have h1 := (hJ b (by simp)).2
    have h2 := ih (fun x hx => hJ x (List.mem_cons_of_mem _ hx))
    simp only [accSum, List.map_cons, List.sum_cons, List.length_cons] at h2 ⊢
    omega

/-- TERMINATION with access rules: a propositional argument, access rules among Reflexive / Transitive / Symmetric -/
theorem reachTF_bound {L : LogicData} (hm : L.measureOKOnB RuleKey.isTF W = true) (hrows : L.tfRowsOKB = true)
    (hser : L.frameAllowed .serial = false)
    {arg : Argument} (hp : arg.isProp = true) {nT nF : Nat} {s : SState} (h : ReachTF L arg nT nF s) :
    nT ≤ termBound L W arg ∧ nF ≤ 1 + termBound L W arg * L.maxBranching ∧ s.tab.noQuit := by
  obtain ⟨h1, _, hnq⟩ := reachTF_measure hm hrows hp h
  obtain ⟨hJ, h2, h3⟩ := reachTF_frames hm hrows hser hp h
  have h4 := accSum_le_length hJ
  have hnT : nT ≤ termBound L W arg := by omega
  refine ⟨hnT, ?_, hnq⟩
  have : nT * L.maxBranching ≤ termBound L W arg * L.maxBranching := Nat.mul_le_mul_right _ hnT
  omega


/-- every run splits into access-rule steps and the other applications -/
theorem reachN_split {L : LogicData} {arg : Argument} {n : Nat} {s : SState} (h : ReachN L arg n s) :
    ∃ nT nF, n = nT + nF ∧ ReachTF L arg nT nF s := by
  induction h with
  | init b hb => exact ⟨0, 0, rfl, .init b hb⟩
  | search r bi _ ih =>
    obtain ⟨nT, nF, he, hr⟩ := ih
    exact ⟨nT, nF, he, .search r bi hr⟩
  | @apply n s s' r st _ hleg hs ih =>
    obtain ⟨nT, nF, he, hr⟩ := ih
    cases st with
    | frame bi fr w1 w2 w3 => exact ⟨nT, nF + 1, by omega, .applyF r bi fr w1 w2 w3 hr hleg hs⟩
    | rule bi i c wo => exact ⟨nT + 1, nF, by omega, .applyT r _ hr hleg (fun _ _ _ _ _ h => by cases h) hs⟩
    | close bi sn w => exact ⟨nT + 1, nF, by omega, .applyT r _ hr hleg (fun _ _ _ _ _ h => by cases h) hs⟩
    | closeIdent bi i => exact ⟨nT + 1, nF, by omega, .applyT r _ hr hleg (fun _ _ _ _ _ h => by cases h) hs⟩
    | ident bi i p => exact ⟨nT + 1, nF, by omega, .applyT r _ hr hleg (fun _ _ _ _ _ h => by cases h) hs⟩
    | quit bi name tk => exact ⟨nT + 1, nF, by omega, .applyT r _ hr hleg (fun _ _ _ _ _ h => by cases h) hs⟩

end Ptx.Search
