/-
  Ptx.Proofs.TabTreeTotal — `Tree._build` takes none of its exception paths (`IndexError`, `KeyError`,
  `TypeError`) on a state reached from the trunk by legal steps of a logic whose rules add at least one
  node per branch; the recursion fuel of the model suffices.

  Why: the stat record consulted for a structure's node is that of the FIRST branch (in tableau order)
  having a node at that depth; that branch is the one the node was appended to (its origin), because
  (`AncInv`) the origin branch of a node carries the same nodes up to and including it — so it is in
  every branch group `_build` forms that contains the node — and origins precede copies.
-/
import Ptx.Proofs.TabTreeReach
namespace Ptx
open TabTree

/-- a node object found on a branch is also on its origin branch, and the two branches agree up to
    and including it -/
structure AncInv (bk : Book) : Prop where
  anc : ∀ (j : Nat) (rj : BRec) (δ : Nat) (ob : NObj), bk.recs[j]? = some rj → rj.objs[δ]? = some ob →
      ∃ ro, bk.recs[ob.orig]? = some ro ∧ ro.objs.take (δ + 1) = rj.objs.take (δ + 1)

namespace TabTree

theorem ancinv_init (L : LogicData) (arg : Argument) : AncInv (Book.init (trunkNodes L arg)) := by
  refine ⟨?_⟩
  intro j rj δ ob hj hob
  have hi : j = 0 := by
    have := (List.getElem?_eq_some_iff.1 hj).1
    simp [Book.init] at this; exact this
  subst hi
  have hj' := hj
  simp only [Book.init, List.getElem?_cons_zero, Option.some.injEq] at hj'
  subst hj'
  have : ob.orig = 0 := by
    have := List.mem_of_getElem? hob
    simp only [List.mem_map] at this
    obtain ⟨n, _, rfl⟩ := this; rfl
  rw [this]
  exact ⟨_, hj, rfl⟩

section
variable {L : LogicData} {arg : Argument} {bk : Book} {s : Step} {i : Nat} {old : Branch} {r : BRec}
  {g0 : List Node} {gs : List (List Node)} {tk : Option Nat}

/-- every old record is still there, possibly longer -/
theorem rec_forward (hinv : TabInv L arg bk) (hold : bk.tab[i]? = some old) (hr : bk.recs[i]? = some r) :
    ∀ (q : Nat) (rq : BRec), bk.recs[q]? = some rq →
      ∃ (r' : BRec) (fresh : List NObj),
        (bk.record s i old r (old.extend g0 tk) (bk.tab.set i (old.extend g0 tk) ++ gs.map (child old i tk))).recs[q]? = some r' ∧
        r'.objs = rq.objs ++ fresh := by
  intro q rq hq
  have hi : i < bk.tab.length := (List.getElem?_eq_some_iff.1 hold).1
  have hir : i < bk.recs.length := by rw [hinv.len]; exact hi
  have hql : q < bk.recs.length := (List.getElem?_eq_some_iff.1 hq).1
  have hrecs : (bk.record s i old r (old.extend g0 tk) (bk.tab.set i (old.extend g0 tk) ++ gs.map (child old i tk))).recs
      = bk.recs.set i (r.grow bk.currentStep i old (old.extend g0 tk)) ++
          (gs.map (child old i tk)).mapIdx (fun k b => (r.fork bk.currentStep i).grow bk.currentStep (bk.tab.length + k) old b) := by
    simp only [Book.record, tab_drop]
  rw [hrecs]
  by_cases e : q = i
  · subst e
    rw [hr] at hq; cases hq
    exact ⟨r.grow bk.currentStep q old (old.extend g0 tk),
      (gained old (old.extend g0 tk)).map (fun n => ⟨q, n, bk.currentStep⟩),
      by rw [List.getElem?_append_left (by simpa using hir), List.getElem?_set_self hir], rfl⟩
  · exact ⟨rq, [], by rw [List.getElem?_append_left (by simpa using hql), List.getElem?_set_ne (Ne.symm e)]; exact hq, by simp⟩

theorem record_ancinv (hinv : TabInv L arg bk) (ha : AncInv bk) (hold : bk.tab[i]? = some old)
    (hr : bk.recs[i]? = some r) (hne : ∀ g ∈ g0 :: gs, g ≠ []) :
    AncInv (bk.record s i old r (old.extend g0 tk) (bk.tab.set i (old.extend g0 tk) ++ gs.map (child old i tk))) := by
  have hdec := rec_decomp (s := s) (tk := tk) hinv hold hr hne
  have hfwd := rec_forward (s := s) (g0 := g0) (gs := gs) (tk := tk) hinv hold hr
  generalize bk.record s i old r (old.extend g0 tk) (bk.tab.set i (old.extend g0 tk) ++ gs.map (child old i tk)) = bk' at *
  refine ⟨?_⟩
  intro j' rj' δ ob hj' hob
  obtain ⟨q, rq, fresh, hq, hobjs, hfresh, _⟩ := hdec j' rj' hj'
  rw [hobjs] at hob
  rcases getElem?_append_cases hob with ⟨hlt, hob⟩ | ⟨_, hmem⟩
  · obtain ⟨ro, hro, htake⟩ := ha.anc q rq δ ob hq hob
    obtain ⟨r', fr, hr', hobjs'⟩ := hfwd ob.orig ro hro
    refine ⟨r', hr', ?_⟩
    have hlen : δ + 1 ≤ ro.objs.length := by
      have := congrArg List.length htake
      simp only [List.length_take] at this
      omega
    rw [hobjs', hobjs, List.take_append_of_le_length hlen, List.take_append_of_le_length (by omega), htake]
  · rw [hfresh ob hmem]; exact ⟨rj', hj', rfl⟩

end

theorem reach_ancinv {L : LogicData} {arg : Argument} {bk bk' : Book} {ss : List Step} (hne : L.addsNonempty = true)
    (hinv : TabInv L arg bk) (ha : AncInv bk) (hr : Book.Reach L bk ss bk') : AncInv bk' := by
  induction hr with
  | refl bk => exact ha
  | @step bk bk1 bk2 s ss hs _ ih =>
    have hcal := step_tab hs
    obtain ⟨bk1', h1, _, _, hinv1⟩ := step_ok hinv hcal
    rw [hs] at h1; cases h1
    apply ih hinv1
    obtain ⟨t', old', new, r, hs', hold', hnew, hr', rfl⟩ := step_eq_record hs
    obtain ⟨sh, hsne⟩ := shape_of_applyStep hs'
    obtain ⟨old, g0, gs, tk, hold, hopen, ht', hclos⟩ := sh
    have hi : s.branch < bk.tab.length := (List.getElem?_eq_some_iff.1 hold).1
    have e : old' = old := by rw [hold] at hold'; exact (Option.some.inj hold').symm
    subst e
    have : new = old'.extend g0 tk := by
      rw [ht', tab_get_i hi] at hnew; exact (Option.some.inj hnew).symm
    subst this
    rw [ht']
    exact record_ancinv hinv ha hold hr' (hsne hne)

/-! ### what `_build` relies on, about all branches and about one branch group -/

structure GlobalOK (all : List TB) : Prop where
  coh : Coh all
  pf : PF all
  own : ∀ b ∈ all, ∀ (p : Nat) (o : NObj), b.r.objs[p]? = some o → o.orig ≤ b.idx ∧ (o.orig = b.idx ↔ b.r.inherited ≤ p)
  anc : ∀ b ∈ all, ∀ (δ : Nat) (o : NObj), b.r.objs[δ]? = some o →
      ∃ a ∈ all, a.idx = o.orig ∧ a.r.objs.take (δ + 1) = b.r.objs.take (δ + 1)
  idx_inj : ∀ a ∈ all, ∀ b ∈ all, a.idx = b.idx → a = b

structure GroupOK (all brs : List TB) (d : Nat) : Prop where
  sub : ∀ b ∈ brs, b ∈ all
  sorted : brs.Pairwise (fun a b => a.idx < b.idx)
  /-- with a node (from depth `d` on) the group contains the node's origin branch -/
  closed : ∀ b ∈ brs, ∀ (δ : Nat) (o : NObj), d ≤ δ → b.r.objs[δ]? = some o → ∀ a ∈ all, a.idx = o.orig → a ∈ brs
  agree : Agree d brs

theorem take_getElem? {α} {l₁ l₂ : List α} {n p : Nat} (h : l₁.take n = l₂.take n) (hp : p < n) : l₁[p]? = l₂[p]? := by
  have := congrArg (fun l => l[p]?) h
  simpa [List.getElem?_take, hp] using this

/-- the first branch with a node at depth `δ`, when all nodes there are one object, is that node's origin -/
theorem specimen_own {all brs : List TB} {d δ : Nat} (G : GlobalOK all) (H : GroupOK all brs d) (hd : d ≤ δ)
    {sp : TB} {o : NObj} {rest : List (TB × NObj)} (hp : presentAt brs δ = (sp, o) :: rest) :
    sp.r.inherited ≤ δ := by
  have hsp : (sp, o) ∈ presentAt brs δ := by rw [hp]; exact List.mem_cons_self
  obtain ⟨hspb, hspo⟩ := mem_presentAt.1 hsp
  obtain ⟨a, haall, haidx, htake⟩ := G.anc sp (H.sub sp hspb) δ o hspo
  have hab : a ∈ brs := H.closed sp hspb δ o hd hspo a haall haidx
  have hao : a.r.objs[δ]? = some o := by rw [take_getElem? htake (Nat.lt_succ_self δ)]; exact hspo
  have hap : (a, o) ∈ presentAt brs δ := mem_presentAt.2 ⟨hab, hao⟩
  have hsorted : (presentAt brs δ).Pairwise (fun x y => x.1.idx < y.1.idx) := by
    unfold presentAt
    refine List.Pairwise.filterMap _ ?_ H.sorted
    intro x y hxy bx hbx by' hby
    simp only [Option.map_eq_some_iff] at hbx hby
    obtain ⟨_, _, rfl⟩ := hbx
    obtain ⟨_, _, rfl⟩ := hby
    exact hxy
  have hown := G.own sp (H.sub sp hspb) δ o hspo
  rw [hp] at hap hsorted
  have hidx : o.orig = sp.idx := by
    rcases List.mem_cons.1 hap with e | hmem
    · have : a = sp := (Prod.mk.inj e).1
      rw [← haidx, this]
    · have := (List.pairwise_cons.1 hsorted).1 (a, o) hmem
      simp only at this
      omega
  exact hown.2.1 hidx

theorem le_maxLen_aux : ∀ (brs : List TB) (init : Nat),
    init ≤ brs.foldl (fun m b => max m b.r.objs.length) init ∧
    ∀ b ∈ brs, b.r.objs.length ≤ brs.foldl (fun m b => max m b.r.objs.length) init
  | [], init => ⟨Nat.le_refl _, fun _ h => by cases h⟩
  | x :: xs, init => by
    obtain ⟨h1, h2⟩ := le_maxLen_aux xs (max init x.r.objs.length)
    simp only [List.foldl_cons]
    refine ⟨Nat.le_trans (Nat.le_max_left _ _) h1, ?_⟩
    intro b hb
    rcases List.mem_cons.1 hb with rfl | hb
    · exact Nat.le_trans (Nat.le_max_right _ _) h1
    · exact h2 b hb

theorem le_maxLen {brs : List TB} {b : TB} (hb : b ∈ brs) : b.r.objs.length ≤ maxLen brs :=
  (le_maxLen_aux brs 0).2 b hb

/-- the loop of `_build` raises nothing and the fuel suffices -/
theorem scan_total {all brs : List TB} {d0 : Nat} (G : GlobalOK all) (H : GroupOK all brs d0) :
    ∀ (f d : Nat) (acc : Scan), d0 ≤ d → maxLen brs + 1 ≤ f + d → 1 ≤ f → ∃ sc, scanF f brs d acc = .ok sc
  | 0, _, _, _, _, h => by omega
  | f + 1, d, acc, hd, hfuel, _ => by
    simp only [scanF]
    split
    · next x sp o rest hk hp =>
      have hinh := specimen_own G H hd hp
      have hsp : (sp, o) ∈ presentAt brs d := by rw [hp]; exact List.mem_cons_self
      obtain ⟨hspb, hspo⟩ := mem_presentAt.1 hsp
      have hlen : d < sp.r.objs.length := (List.getElem?_eq_some_iff.1 hspo).1
      have hmax := le_maxLen hspb
      have h1 : (!sp.r.hasRecord d) = false := by simp [BRec.hasRecord, hinh]
      have h2 : ¬ d < sp.r.inherited := by omega
      simp only [h1, Bool.false_eq_true, if_false, h2]
      exact scan_total G H f (d + 1) _ (by omega) (by omega) (by omega)
    · exact ⟨_, rfl⟩

theorem scan_step_some : ∀ (f : Nat) (brs : List TB) (d : Nat) (acc sc : Scan), scanF f brs d acc = .ok sc →
    acc.step.isSome = true → sc.step.isSome = true
  | 0, _, _, _, _, h, _ => by simp [scanF] at h
  | f + 1, brs, d, acc, sc, h, ha => by
    simp only [scanF] at h
    split at h
    · split at h
      · cases h
      · split at h
        · cases h
        · refine scan_step_some f brs (d + 1) _ sc h ?_
          cases hs : acc.step with
          | none => rfl
          | some s => simp only []; split <;> rfl
    · simp only [Except.ok.injEq] at h; subst h; exact ha

/-- if all branches have the same node at the start depth, the structure gets a step number -/
theorem scan_first {brs : List TB} {d f : Nat} {acc sc : Scan} (h : scanF f brs d acc = .ok sc)
    (hlen : (dedupR ((presentAt brs d).map (·.2.orig))).length = 1) : sc.step.isSome = true := by
  cases f with
  | zero => simp [scanF] at h
  | succ f =>
    simp only [scanF] at h
    split at h
    · split at h
      · cases h
      · split at h
        · cases h
        · refine scan_step_some f brs (d + 1) _ sc h ?_
          cases hs : acc.step with
          | none => rfl
          | some s => simp only []; split <;> rfl
    · next ks pr hne =>
      exfalso
      obtain ⟨x, hx⟩ := List.length_eq_one_iff.1 hlen
      cases hpr : presentAt brs d with
      | nil => rw [hpr] at hx; simp [dedupR] at hx
      | cons so rest =>
        obtain ⟨sp, o⟩ := so
        exact hne x sp o rest hx hpr

theorem dedupR_const {k : Nat} : ∀ {l : List Nat}, l ≠ [] → (∀ x ∈ l, x = k) → dedupR l = [k]
  | [], h, _ => (h rfl).elim
  | [x], _, hall => by simp [dedupR, hall x (by simp)]
  | x :: y :: rest, _, hall => by
    have ih := dedupR_const (l := y :: rest) (by simp) (fun z hz => hall z (List.mem_cons_of_mem _ hz))
    have hx := hall x List.mem_cons_self
    rw [dedupR, ih, hx]
    simp

theorem kidsWith_total {f : List TB → Nat → Nat → Except TreeErr (Tree × Nat × Nat)} :
    ∀ (gs : List (List TB)) (pos dist : Nat),
      (∀ g ∈ gs, ∀ p di, ∃ c p1 d1, f g p di = .ok (c, p1, d1) ∧ c.info.step.isSome = true) →
      ∃ cs p2 d2, kidsWith f gs pos dist = .ok (cs, p2, d2) ∧ ∀ c ∈ cs, c.info.step.isSome = true
  | [], pos, dist, _ => ⟨[], pos, dist, rfl, fun _ h => by cases h⟩
  | g :: gs, pos, dist, hf => by
    obtain ⟨c, p1, d1, hc, hcs⟩ := hf g List.mem_cons_self (pos + 1) dist
    obtain ⟨cs, p2, d2, hk, hall⟩ := kidsWith_total gs p1 d1 (fun g' hg' => hf g' (List.mem_cons_of_mem _ hg'))
    refine ⟨c :: cs, p2, d2, by simp only [kidsWith, hc, hk], ?_⟩
    intro c' hc'
    rcases List.mem_cons.1 hc' with rfl | h
    · exact hcs
    · exact hall c' h

/-- facts after the loop, for a group of branches without duplicates / initial segments -/
theorem after_scan {brs : List TB} {d : Nat} {sc : Scan} {f : Nat} (hcoh : Coh brs) (hpf : PF brs)
    (hag : Agree d brs) (hsc : scanF f brs d {} = .ok sc) :
    ∃ E : List NObj, E.length = sc.depth ∧
      (sc.last ≠ [] → ∀ b ∈ brs, sc.depth < b.r.objs.length ∧ E <+: b.r.objs) ∧
      sc.last = dedupR ((presentAt brs sc.depth).map (·.2.orig)) ∧ sc.last.length ≠ 1 := by
  obtain ⟨pre, hpl, hpre⟩ := hag
  obtain ⟨new, h1, h2, h3, h4, h5, h6⟩ := scan_spec _ _ _ _ _ hsc
  have hE := agree_E hcoh hpl hpre h3 h4
  have hElen : (pre ++ new).length = sc.depth := by simp [hpl, h2]
  refine ⟨pre ++ new, hElen, ?_, h5, h6⟩
  intro hlast b hb
  have hA' : ∀ b ∈ brs, sc.depth ≤ b.r.objs.length := by
    intro b hb
    apply Nat.le_of_not_lt
    intro hlt
    obtain ⟨c, hc, hpfx, hlen⟩ := short_is_prefix hpl hpre h3 hE hb (by omega)
    have := hpf.2 b hb c hc hpfx
    subst this
    exact Nat.lt_irrefl _ hlen
  have hlt : sc.depth < b.r.objs.length := by
    apply Nat.lt_of_le_of_ne (hA' b hb)
    intro heq
    -- somebody has a node at the split depth; `b` ends there, so it is an initial segment of that branch
    have hne : (presentAt brs sc.depth) ≠ [] := by
      intro e; apply hlast; rw [h5, e]; rfl
    obtain ⟨⟨c, oc⟩, hcm⟩ := List.exists_mem_of_ne_nil _ hne
    obtain ⟨hc, hco⟩ := mem_presentAt.1 hcm
    have hclen : sc.depth < c.r.objs.length := (List.getElem?_eq_some_iff.1 hco).1
    have hb' := long_split hE hb (by omega)
    have hc' := long_split hE hc (by omega)
    rw [List.drop_eq_nil_of_le (by omega), List.append_nil] at hb'
    have : b = c := hpf.2 b hb c hc (by rw [hb', hc']; exact List.prefix_append _ _)
    subst this
    omega
  refine ⟨hlt, ?_⟩
  have := long_split hE hb (by omega)
  rw [this]; exact List.prefix_append _ _

/-- `_build` raises nothing, the fuel suffices, and a group whose branches share their node at the
    start depth yields a structure with a step number -/
theorem buildF_total {all : List TB} (G : GlobalOK all) :
    ∀ (f : Nat) (brs : List TB) (d sd pos dist : Nat) (root : Bool), GroupOK all brs d → brs.length < f →
      ∃ tr p' d', buildF f brs d sd pos dist root = .ok (tr, p', d') ∧
        (brs ≠ [] → (∃ k, ∀ b ∈ brs, b.keyAt d = some k) → tr.info.step.isSome = true)
  | 0, _, _, _, _, _, _, _, h => by omega
  | f + 1, brs, d, sd, pos, dist, root, H, hf => by
    have hcoh : Coh brs := G.coh.sub H.sub
    have hpf : PF brs := by
      refine ⟨?_, fun b hb c hc => G.pf.2 b (H.sub b hb) c (H.sub c hc)⟩
      have : (brs.map (fun b => b.idx)).Pairwise (fun a b => a < b) := List.pairwise_map.2 H.sorted
      exact this.imp (fun h => Nat.ne_of_lt h)
    obtain ⟨sc, hsc⟩ := scan_total G H (maxLen brs + 1) d {} (Nat.le_refl _) (by omega) (by omega)
    -- the step number of the structure
    have hstep : brs ≠ [] → (∃ k, ∀ b ∈ brs, b.keyAt d = some k) → sc.step.isSome = true := by
      intro hne ⟨k, hk⟩
      apply scan_first hsc
      rw [presentAt_keys, dedupR_const (k := k)]
      · rfl
      · obtain ⟨b, hb⟩ := List.exists_mem_of_ne_nil _ hne
        intro e
        have : k ∈ brs.filterMap (fun b => b.keyAt d) := List.mem_filterMap.2 ⟨b, hb, hk b hb⟩
        rw [e] at this; cases this
      · intro x hx
        obtain ⟨b, hb, hbx⟩ := List.mem_filterMap.1 hx
        rw [hk b hb] at hbx; exact (Option.some.inj hbx).symm
    obtain ⟨E, hElen, hlastA, h5, h6⟩ := after_scan hcoh hpf H.agree hsc
    simp only [buildF, hsc]
    match brs, H, hf, hcoh, hpf, hsc, hstep, hlastA, h5 with
    | [b], _, _, _, _, _, hstep, _, _ => exact ⟨_, _, _, rfl, hstep⟩
    | [], _, _, _, _, _, _, _, h5 =>
      have hl : sc.last = [] := by rw [h5]; rfl
      simp only [hl, List.isEmpty_nil, Bool.not_true, Bool.false_and, Bool.false_eq_true, if_false, groupsAt, List.map_nil,
        kidsWith, List.any_nil]
      exact ⟨_, _, _, rfl, fun h => (h rfl).elim⟩
    | b1 :: b2 :: rest, H, hf, hcoh, hpf, hsc, hstep, hlastA, h5 =>
      -- no IndexError
      have hidx : (!sc.last.isEmpty && (b1 :: b2 :: rest).any (fun b => decide (b.r.objs.length ≤ sc.depth))) = false := by
        by_cases hl : sc.last = []
        · simp [hl]
        · have := hlastA hl
          simp only [Bool.and_eq_false_imp, Bool.not_eq_true', List.any_eq_false, decide_eq_true_eq]
          intro _ b hb
          have := (this b hb).1
          omega
      -- the children
      have hkids : ∀ g ∈ groupsAt (b1 :: b2 :: rest) sc.depth sc.last, ∀ p di,
          ∃ c p1 d1, buildF f g sc.depth (sd + 1) p di false = .ok (c, p1, d1) ∧ c.info.step.isSome = true := by
        intro g hg p di
        simp only [groupsAt, List.mem_map] at hg
        obtain ⟨k, hk, rfl⟩ := hg
        have hl : sc.last ≠ [] := by intro e; rw [e] at hk; cases hk
        have hA := hlastA hl
        -- another key exists, so the group is smaller
        have hkmem : k ∈ (presentAt (b1 :: b2 :: rest) sc.depth).map (·.2.orig) := by rw [← mem_dedupR, ← h5]; exact hk
        obtain ⟨⟨bk', ok⟩, hbkm, hbko⟩ := List.mem_map.1 hkmem
        obtain ⟨hbk, hbkobj⟩ := mem_presentAt.1 hbkm
        simp only at hbko
        have hsmall : ((b1 :: b2 :: rest).filter (fun b => b.keyAt sc.depth == some k)).length < (b1 :: b2 :: rest).length := by
          rw [List.length_filter_lt_length_iff_exists]
          -- `last` has a second key
          have hk2 : ∃ k', k' ∈ sc.last ∧ k' ≠ k := by
            match hsl : sc.last with
            | [] => exact (hl hsl).elim
            | [x] => exact (h6 (by rw [hsl]; rfl)).elim
            | x :: y :: tl =>
              have hnd : (x :: y :: tl).Nodup := by rw [← hsl, h5]; exact dedupR_nodup _
              have hxy : x ≠ y := by
                intro e; subst e
                exact (List.nodup_cons.1 hnd).1 List.mem_cons_self
              by_cases e : x = k
              · exact ⟨y, by simp, fun e' => hxy (e.trans e'.symm)⟩
              · exact ⟨x, by simp, e⟩
          obtain ⟨k', hk', hne'⟩ := hk2
          have hk'mem : k' ∈ (presentAt (b1 :: b2 :: rest) sc.depth).map (·.2.orig) := by rw [← mem_dedupR, ← h5]; exact hk'
          obtain ⟨⟨b', o'⟩, hb'm, hb'o⟩ := List.mem_map.1 hk'mem
          obtain ⟨hb', hb'obj⟩ := mem_presentAt.1 hb'm
          refine ⟨b', hb', ?_⟩
          simp only at hb'o
          simp [TB.keyAt, hb'obj, hb'o, hne']
        have HG : GroupOK all ((b1 :: b2 :: rest).filter (fun b => b.keyAt sc.depth == some k)) sc.depth := by
          refine ⟨fun b hb => H.sub b (List.mem_filter.1 hb).1, H.sorted.filter _, ?_, ⟨E, hElen, fun b hb => (hA b (List.mem_filter.1 hb).1).2⟩⟩
          intro b hb δ o hδ hbo a ha haidx
          obtain ⟨hbb, hbkey⟩ := List.mem_filter.1 hb
          have hdle : d ≤ sc.depth := by
            obtain ⟨pre, hpl, _⟩ := H.agree
            obtain ⟨new, _, h2, _⟩ := scan_spec _ _ _ _ _ hsc
            omega
          have habrs : a ∈ b1 :: b2 :: rest := H.closed b hbb δ o (by omega) hbo a ha haidx
          refine List.mem_filter.2 ⟨habrs, ?_⟩
          obtain ⟨a', ha', ha'idx, htake⟩ := G.anc b (H.sub b hbb) δ o hbo
          have : a' = a := G.idx_inj a' ha' a ha (by rw [ha'idx, haidx])
          subst this
          have hkey : a'.r.objs[sc.depth]? = b.r.objs[sc.depth]? := take_getElem? htake (by omega)
          simp only [TB.keyAt] at hbkey ⊢
          rw [hkey]; exact hbkey
        obtain ⟨c, p1, d1, hc, hcstep⟩ := buildF_total G f _ sc.depth (sd + 1) p di false HG (by simp only [List.length_cons] at hf hsmall ⊢; omega)
        refine ⟨c, p1, d1, hc, hcstep ?_ ⟨k, ?_⟩⟩
        · intro e
          have : bk' ∈ (b1 :: b2 :: rest).filter (fun b => b.keyAt sc.depth == some k) :=
            List.mem_filter.2 ⟨hbk, by simp [TB.keyAt, hbkobj, hbko]⟩
          rw [e] at this; cases this
        · intro b hb
          have := (List.mem_filter.1 hb).2
          simpa using this
      obtain ⟨cs, p2, d2, hk, hall⟩ := kidsWith_total _ pos (dist + sc.nodes.length) hkids
      have hany : cs.any (fun c => c.info.step.isNone) = false := by
        simp only [List.any_eq_false]
        intro c hc
        have := hall c hc
        cases hs : c.info.step with
        | none => rw [hs] at this; cases this
        | some _ => simp
      simp only [hidx, Bool.false_eq_true, if_false, hk, hany]
      exact ⟨_, _, _, rfl, hstep⟩

/-! ### the whole tableau -/

theorem globalOK_of_inv {L : LogicData} {arg : Argument} {bk : Book} (hinv : TabInv L arg bk) (hid : IdInv bk)
    (ha : AncInv bk) : GlobalOK bk.tbs := by
  refine ⟨coh_of_idinv hid, pf_of_idinv hid, ?_, ?_, ?_⟩
  · intro b hb p o hpo
    have hb' := mem_tbs.1 hb
    have hil : b.idx < bk.tab.length := by rw [← hinv.len]; exact (List.getElem?_eq_some_iff.1 hb').1
    have hB := hinv.branch b.idx _ b.r (List.getElem?_eq_getElem hil) hb'
    exact ⟨hB.orig_le o (List.mem_of_getElem? hpo), hB.own p o hpo⟩
  · intro b hb δ o hbo
    obtain ⟨ro, hro, htake⟩ := ha.anc b.idx b.r δ o (mem_tbs.1 hb) hbo
    exact ⟨⟨o.orig, ro⟩, mem_tbs.2 hro, rfl, htake⟩
  · intro a ha' b hb e
    have h1 := mem_tbs.1 ha'
    have h2 := mem_tbs.1 hb
    rw [e, h2] at h1
    cases a; cases b
    simp only at e h1
    simp only [TB.mk.injEq]
    exact ⟨e, (Option.some.inj h1).symm⟩

theorem groupOK_all (bk : Book) : GroupOK bk.tbs bk.tbs 0 := by
  refine ⟨fun _ h => h, ?_, fun _ _ _ _ _ _ a ha _ => ha, agree_zero _⟩
  have : (bk.tbs.map (fun b => b.idx)).Pairwise (fun a b => a < b) := by
    rw [tbs_idx]; exact List.pairwise_lt_range
  exact List.pairwise_map.1 this

/-- `Tree.make` returns a tree: none of the exception paths of `_build` is taken -/
theorem build_total {L : LogicData} {arg : Argument} {bk : Book} (hinv : TabInv L arg bk) (hid : IdInv bk)
    (ha : AncInv bk) : ∃ tr, Tree.build bk = .ok tr := by
  obtain ⟨tr, p', d', h, _⟩ := buildF_total (globalOK_of_inv hinv hid ha) (bk.recs.length + 1) bk.tbs 0 0 1 0 true
    (groupOK_all bk) (by simp [Book.tbs])
  exact ⟨tr, by simp only [Tree.build, h]⟩

end TabTree
end Ptx
