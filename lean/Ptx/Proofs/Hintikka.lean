/-
  Ptx.Proofs.Hintikka — the Hintikka lemma for the calculus model: on a SATURATED branch
  (Ptx/Tab/Saturated.lean) of a logic whose regenerated tables pass the decidable completeness side
  conditions (Ptx/Sem/Complete.lean), the canonical structure read off the branch's literals
  (Ptx/Proofs/Canon.lean) satisfies every node of the branch.  Propositional and modal vocabulary
  (operator, modal, closure and frame rules); sentences the logic leaves uninterpreted are literals.
  Induction on an abstract node measure `μ` that decreases from a node to the nodes its rule adds
  (instantiated with the per-logic weights of Ptx/Tab/Measure.lean).
-/
import Ptx.Proofs.Canon
import Ptx.Proofs.BackQ
namespace Ptx
namespace Canon
variable {L : LogicData} {b : Branch}

/-! ### what saturation says, node by node -/

theorem unsat_split (hs : L.unsaturated b = []) :
    (∀ s d w, Node.sent s d w ∈ b.nodes →
        L.closureApplies b s w = false ∧ L.nodeMissing b s d w = []) ∧ L.frameMissing b = [] := by
  unfold LogicData.unsaturated at hs
  simp only [List.append_eq_nil_iff] at hs
  obtain ⟨⟨h1, h2⟩, _⟩ := hs
  refine ⟨?_, h2⟩
  intro s d w hn
  rw [List.flatMap_eq_nil_iff] at h1
  obtain ⟨i, hi⟩ := List.mem_iff_getElem?.1 hn
  have := h1 (Node.sent s d w, i) (List.mk_mem_zipIdx_iff_getElem?.2 hi)
  simp only [List.append_eq_nil_iff, List.map_eq_nil_iff] at this
  obtain ⟨⟨h3, _⟩, h5⟩ := this
  refine ⟨?_, h5⟩
  cases hc : L.closureApplies b s w with
  | false => rfl
  | true => simp [hc] at h3

/-! ### evaluation of literal bases in the canonical structure -/

theorem eval_atom (w : Nat) (i s : Nat) :
    eval L (struct L b) env w (.atom i s) = readVal L b (.atom i s) w := rfl

theorem map_den_const (ps : List Param) (h : ps.all (fun | .const _ _ => true | .var _ _ => false) = true) :
    (ps.map env.den).map (fun (d : Nat × Nat) => Param.const d.1 d.2) = ps := by
  induction ps with
  | nil => rfl
  | cons p ps ih =>
    simp only [List.all_cons, Bool.and_eq_true] at h
    cases p with
    | const i s =>
      simp only [List.map_cons, Env.den, env]
      exact congrArg _ (ih h.2)
    | var i s => simp at h

theorem map_pi_den_const (ps : List Param) (h : ps.all (fun | .const _ _ => true | .var _ _ => false) = true)
    (hc : ∀ i s, Param.const i s ∈ ps → (i, s) ∈ b.consts) :
    ((ps.map env.den).map (pi b)).map (fun (d : Nat × Nat) => Param.const d.1 d.2) = ps := by
  induction ps with
  | nil => rfl
  | cons p ps ih =>
    simp only [List.all_cons, Bool.and_eq_true] at h
    cases p with
    | const i s =>
      simp only [List.map_cons, Env.den, env]
      rw [pi_of_mem (hc i s List.mem_cons_self)]
      exact congrArg _ (ih h.2 (fun i' s' hm => hc i' s' (List.mem_cons_of_mem _ hm)))
    | var i s => simp at h

/-- a closed non-system predication whose constants are on the branch evaluates to its read value -/
theorem eval_pred (w : Nat) (p : Pred) (ps : List Param)
    (h1 : p ≠ Pred.identity) (h2 : p ≠ Pred.existence)
    (h3 : ps.all (fun | .const _ _ => true | .var _ _ => false) = true)
    (hc : ∀ i s, Param.const i s ∈ ps → (i, s) ∈ b.consts) :
    eval L (struct L b) env w (.pred p ps) = readVal L b (.pred p ps) w := by
  show predVal L b w p (ps.map env.den) = _
  unfold predVal
  rw [if_neg h1, if_neg h2]
  congr 2
  exact map_pi_den_const ps h3 hc

/-! ### literals -/

theorem lit_mem_allLits {ng : Bool} {d : Option Bool} (hd : d ∈ L.markers) : (⟨ng, d⟩ : Lit) ∈ L.allLits := by
  unfold LogicData.allLits
  rw [List.mem_flatMap]
  refine ⟨ng, by cases ng <;> simp, ?_⟩
  exact List.mem_map.2 ⟨d, hd, rfl⟩

/-- an open, non-empty literal set has a read-table value that satisfies it -/
theorem open_set_read (hct : L.closureTotalB = true) (hrt : L.readTotalB = true) (hbr : L.badRead = [])
    {S : List Lit} (hSsub : S ∈ sublists L.allLits) (hne : S ≠ []) (hnc : L.closure.lookup S ≠ some true) :
    ∃ v, L.readTable.lookup S = some v ∧ L.T.vals.contains v = true ∧ L.litsSatBy S v = true := by
  have hopen : L.closure.lookup S = some false := by
    unfold LogicData.closureTotalB at hct
    rw [List.all_eq_true] at hct
    have h1 := hct S hSsub
    cases hl : L.closure.lookup S with
    | none => simp [hl] at h1
    | some c =>
      cases c with
      | false => rfl
      | true => exact absurd hl hnc
  have hrow := lookup_mem hopen
  unfold LogicData.readTotalB at hrt
  rw [List.all_eq_true] at hrt
  have h2 := hrt _ hrow
  have hne' : S.isEmpty = false := by
    cases S with
    | nil => exact absurd rfl hne
    | cons _ _ => rfl
  simp only [Bool.false_or, hne'] at h2
  cases hr : L.readTable.lookup S with
  | none => simp [hr] at h2
  | some v =>
    refine ⟨v, rfl, ?_⟩
    have hrrow := lookup_mem hr
    unfold LogicData.badRead at hbr
    have hnot : (S, v) ∉ L.readTable.filter (fun (S, v) =>
        (L.closure.lookup S == some false) && !(L.T.vals.contains v && L.litsSatBy S v)) := by
      intro hmem
      have : S ∈ (L.readTable.filter (fun (S, v) =>
          (L.closure.lookup S == some false) && !(L.T.vals.contains v && L.litsSatBy S v))).map (·.1) :=
        List.mem_map.2 ⟨_, hmem, rfl⟩
      rw [hbr] at this; cases this
    rw [List.mem_filter] at hnot
    have h3 : ¬ (((L.closure.lookup S == some false) && !(L.T.vals.contains v && L.litsSatBy S v)) = true) :=
      fun h => hnot ⟨hrrow, h⟩
    simp only [hopen, beq_self_eq_true, Bool.true_and, Bool.not_eq_true', Bool.not_eq_false'] at h3
    simpa using h3

/-- a node whose sentence is a literal base or its negation is satisfied by the value read off the
    (open) literal set -/
theorem literal_sat (hct : L.closureTotalB = true) (hrt : L.readTotalB = true) (hbr : L.badRead = [])
    {s base : Sent} {d : Option Bool} {w : Option Nat}
    (hn : Node.sent s d w ∈ b.nodes) (hd : d ∈ L.markers) (hw : w = wopt L (w.getD 0))
    (hcl : L.closureApplies b s w = false)
    (hsb : s = base ∨ s = base.neg) (hbb : base.base = base)
    (hev : eval L (struct L b) env (w.getD 0) base = readVal L b base (w.getD 0)) :
    L.satV d (eval L (struct L b) env (w.getD 0) s) = true := by
  have hsbase : s.base = base := by
    rcases hsb with rfl | rfl
    · exact hbb
    · rfl
  have hneq : base ≠ base.neg := by
    intro h
    have := congrArg Sent.size h
    simp [Sent.neg, Sent.size] at this
  have hnc : L.closure.lookup (b.litSet L base w) ≠ some true := by
    unfold LogicData.closureApplies at hcl
    simp only [Bool.or_eq_false_iff, beq_eq_false_iff_ne, ne_eq, hsbase] at hcl
    exact hcl.2
  have hSsub : b.litSet L base w ∈ sublists L.allLits := mem_sublists _ _ List.filter_sublist
  -- the literal this node contributes
  have key : ∀ (ng : Bool), Node.sent (if ng then base.neg else base) d w ∈ b.nodes →
      ∃ v, readVal L b base (w.getD 0) = v ∧ L.satV d (if ng then L.T.f1 .neg v else v) = true := by
    intro ng hnode
    have hlit : (⟨ng, d⟩ : Lit) ∈ b.litSet L base w := by
      unfold Branch.litSet
      rw [List.mem_filter]
      exact ⟨lit_mem_allLits hd, by simpa [Branch.hasNode] using hnode⟩
    obtain ⟨v, hr, hv, hsatS⟩ := open_set_read hct hrt hbr hSsub (List.ne_nil_of_mem hlit) hnc
    refine ⟨v, ?_, ?_⟩
    · unfold readVal
      rw [← hw, hr]
      exact if_pos hv
    · have hl := (List.all_eq_true.1 hsatS) _ hlit
      simpa [LogicData.litVal] using hl
  rcases hsb with rfl | rfl
  · obtain ⟨v, hread, hl⟩ := key false (by simpa using hn)
    rw [hev, hread]; simpa using hl
  · obtain ⟨v, hread, hl⟩ := key true (by simpa using hn)
    rw [eval_neg, hev, hread]; simpa using hl

/-! ### nodes without a rule are literals -/

theorem key_mem_allKeys {sh : Shape} {ng : Bool} {d : Option Bool} (hd : d ∈ L.markers)
    (hsh : match sh with
      | .op1 o => (!o.isModal || L.modal) = true
      | .op2 _ => True
      | .quant _ => L.quantified = true)
    (hneg : ¬ (sh = .op1 .neg ∧ ng = false)) : (⟨sh, ng, d⟩ : RuleKey) ∈ L.allKeys := by
  unfold LogicData.allKeys
  rw [List.mem_filter]
  refine ⟨?_, ?_⟩
  · rw [List.mem_flatMap]
    refine ⟨sh, ?_, ?_⟩
    · cases sh with
      | op1 o =>
        simp only [List.mem_append, List.mem_map]
        left; left
        refine ⟨o, ?_, rfl⟩
        cases o <;> simp_all [Op1.isModal]
      | op2 o =>
        simp only [List.mem_append, List.mem_map]
        left; right
        exact ⟨o, by cases o <;> simp [Op2.all], rfl⟩
      | quant q =>
        simp only [List.mem_append, List.mem_map]
        right
        simp only at hsh
        simp only [hsh, ↓reduceIte]
        exact List.mem_map.2 ⟨q, by cases q <;> simp [Quant.all], rfl⟩
    · rw [List.mem_flatMap]
      refine ⟨ng, by cases ng <;> simp, ?_⟩
      exact List.mem_map.2 ⟨d, hd, rfl⟩
  · simp only [Bool.not_eq_true', Bool.and_eq_false_iff, beq_eq_false_iff_ne, ne_eq, Bool.not_eq_false']
    by_cases h1 : sh = .op1 .neg
    · right
      cases ng with
      | true => rfl
      | false => exact absurd ⟨h1, rfl⟩ hneg
    · left; exact h1

theorem rule_of_allKeys (hm : L.missingRules = []) {k : RuleKey} (hk : k ∈ L.allKeys) : ∃ r, L.rule? k = some r := by
  unfold LogicData.missingRules at hm
  rw [List.filter_eq_nil_iff] at hm
  have := hm k hk
  cases h : L.rule? k with
  | none => simp [h] at this
  | some r => exact ⟨r, rfl⟩

theorem fo_nil_params {ps : List Param}
    (h : ps.all (fun | .const _ _ => true | .var i s => ([] : List (Nat × Nat)).contains (i, s)) = true) :
    ps.all (fun | .const _ _ => true | .var _ _ => false) = true := by
  rw [List.all_eq_true] at h ⊢
  intro p hp
  have := h p hp
  cases p with
  | const i s => rfl
  | var i s => simp at this

/-- a ground sentence node for which the table has no rule is a literal: a sentence letter, a
    predication, a sentence the logic leaves uninterpreted — or the negation of one -/
theorem literal_of_no_rule (hm : L.missingRules = []) {s : Sent} {d : Option Bool} (hd : d ∈ L.markers)
    (hg : s.fo L [] = true) (hcs : ∀ c ∈ s.consts, c ∈ b.consts) (hnr : L.ruleFor s d = none) (w : Nat) :
    ∃ base, (s = base ∨ s = base.neg) ∧ base.base = base ∧
      eval L (struct L b) env w base = readVal L b base w := by
  -- a key of an interpreted shape always has a rule
  have contra : ∀ {sh ng whole l0}, s.decomp = some (sh, ng, whole) → whole.lhs? = some l0 →
      (⟨sh, ng, d⟩ : RuleKey) ∈ L.allKeys → False := by
    intro sh ng whole l0 hdec hl hk
    obtain ⟨r, hr⟩ := rule_of_allKeys hm hk
    simp [LogicData.ruleFor, hdec, hr, hl] at hnr
  cases s with
  | atom i j => exact ⟨_, Or.inl rfl, rfl, rfl⟩
  | pred p ps =>
    simp only [Sent.fo, Bool.and_eq_true, bne_iff_ne, ne_eq] at hg
    refine ⟨_, Or.inl rfl, rfl, eval_pred w p ps hg.1.1 hg.1.2 (fo_nil_params hg.2) ?_⟩
    intro i s hm'
    exact hcs (i, s) (by simp only [Sent.consts, List.mem_filterMap]; exact ⟨_, hm', rfl⟩)
  | quant q vi vs body =>
    by_cases hq : L.quantified = true
    · exact (contra (sh := .quant q) (ng := false) (whole := .quant q vi vs body) (l0 := body) rfl rfl
        (key_mem_allKeys hd hq (by simp))).elim
    · refine ⟨_, Or.inl rfl, rfl, ?_⟩
      simp [eval, hq]
  | op2 o a c =>
    exact (contra (sh := .op2 o) (ng := false) (whole := .op2 o a c) (l0 := a) rfl rfl
      (key_mem_allKeys hd trivial (by simp))).elim
  | op1 o a =>
    cases o with
    | asrt =>
      exact (contra (sh := .op1 .asrt) (ng := false) (whole := .op1 .asrt a) (l0 := a) rfl rfl
        (key_mem_allKeys hd (by simp [Op1.isModal]) (by simp))).elim
    | poss =>
      by_cases hmd : L.modal = true
      · exact (contra (sh := .op1 .poss) (ng := false) (whole := .op1 .poss a) (l0 := a) rfl rfl
          (key_mem_allKeys hd (by simp [hmd]) (by simp))).elim
      · refine ⟨_, Or.inl rfl, rfl, ?_⟩
        simp [eval, Op1.isModal, hmd]
    | nec =>
      by_cases hmd : L.modal = true
      · exact (contra (sh := .op1 .nec) (ng := false) (whole := .op1 .nec a) (l0 := a) rfl rfl
          (key_mem_allKeys hd (by simp [hmd]) (by simp))).elim
      · refine ⟨_, Or.inl rfl, rfl, ?_⟩
        simp [eval, Op1.isModal, hmd]
    | neg =>
      have hga : a.fo L [] = true := by simpa [Sent.fo, Op1.isModal] using hg
      cases a with
      | atom i j => exact ⟨_, Or.inr rfl, rfl, rfl⟩
      | pred p ps =>
        simp only [Sent.fo, Bool.and_eq_true, bne_iff_ne, ne_eq] at hga
        refine ⟨_, Or.inr rfl, rfl, eval_pred w p ps hga.1.1 hga.1.2 (fo_nil_params hga.2) ?_⟩
        intro i s hm'
        exact hcs (i, s) (by simp only [Sent.consts, List.mem_filterMap]; exact ⟨_, hm', rfl⟩)
      | quant q vi vs body =>
        by_cases hq : L.quantified = true
        · exact (contra (sh := .quant q) (ng := true) (whole := .quant q vi vs body) (l0 := body) rfl rfl
            (key_mem_allKeys hd hq (by simp))).elim
        · refine ⟨_, Or.inr rfl, rfl, ?_⟩
          simp [eval, hq]
      | op2 o a1 a2 =>
        exact (contra (sh := .op2 o) (ng := true) (whole := .op2 o a1 a2) (l0 := a1) rfl rfl
          (key_mem_allKeys hd trivial (by simp))).elim
      | op1 o' a' =>
        cases o' with
        | asrt =>
          exact (contra (sh := .op1 .asrt) (ng := true) (whole := .op1 .asrt a') (l0 := a') rfl rfl
            (key_mem_allKeys hd (by simp [Op1.isModal]) (by simp))).elim
        | neg =>
          exact (contra (sh := .op1 .neg) (ng := true) (whole := .op1 .neg a') (l0 := a') rfl rfl
            (key_mem_allKeys hd (by simp [Op1.isModal]) (by simp))).elim
        | poss =>
          by_cases hmd : L.modal = true
          · exact (contra (sh := .op1 .poss) (ng := true) (whole := .op1 .poss a') (l0 := a') rfl rfl
              (key_mem_allKeys hd (by simp [hmd]) (by simp))).elim
          · refine ⟨_, Or.inr rfl, rfl, ?_⟩
            simp [eval, Op1.isModal, hmd]
        | nec =>
          by_cases hmd : L.modal = true
          · exact (contra (sh := .op1 .nec) (ng := true) (whole := .op1 .nec a') (l0 := a') rfl rfl
              (key_mem_allKeys hd (by simp [hmd]) (by simp))).elim
          · refine ⟨_, Or.inr rfl, rfl, ?_⟩
            simp [eval, Op1.isModal, hmd]


/-! ### the main induction -/

theorem ruleFor_some {s : Sent} {d : Option Bool} {r : Rule} {whole l0 : Sent}
    (h : L.ruleFor s d = some (r, whole, l0)) :
    ∃ sh ng, s.decomp = some (sh, ng, whole) ∧ L.rule? ⟨sh, ng, d⟩ = some r ∧ whole.lhs? = some l0 := by
  unfold LogicData.ruleFor at h
  split at h
  · cases h
  · next sh ng wh hdec =>
    split at h
    · next r' l' hr hl =>
      simp only [Option.some.injEq, Prod.mk.injEq] at h
      obtain ⟨rfl, rfl, rfl⟩ := h
      exact ⟨sh, ng, hdec, hr, hl⟩
    · cases h

/-- the measure hypothesis on the compounds satisfying `P`: every sentence node their rule adds weighs
    less than its target (what `weight_decreases(_frag)` of Ptx/Proofs/Measure.lean provides) -/
def MeasureOKOn (L : LogicData) (μ : Sent → Option Bool → Nat) (P : Sent → Prop) : Prop :=
  ∀ {s : Sent} {d : Option Bool} {r : Rule} {whole l0 : Sent}, L.ruleFor s d = some (r, whole, l0) → P whole →
    ∀ (w : Option Nat) (c : Option (Nat × Nat)) (wo : Option Nat) (gs : List (List Node)),
      instGroups whole l0 w c wo r = some gs → ∀ g ∈ gs, ∀ s' d' w', Node.sent s' d' w' ∈ g → μ s' d' < μ s d

/-- … for the non-quantifier rows -/
def MeasureOK (L : LogicData) (μ : Sent → Option Bool → Nat) : Prop :=
  MeasureOKOn L μ (fun whole => ∀ q, Shape.of whole ≠ some (.quant q))

theorem quantOK_of_fo {s : Sent} {bound : List (Nat × Nat)} (h : s.fo L bound = true)
    (hq : ∀ q vi vs body, s = .quant q vi vs body → L.quantified = true) : s.quantOK L = true := by
  cases s with
  | quant q vi vs body =>
    have hqq := hq q vi vs body rfl
    simp only [Sent.fo, hqq, Bool.not_true, Bool.false_or, Bool.and_eq_true] at h
    have h2 := h.1.2
    simp only [Sent.quantOK, h.1.1, Bool.true_and]
    rw [hqq]; exact h2
  | atom _ _ => rfl
  | pred _ _ => rfl
  | op1 _ _ => rfl
  | op2 _ _ _ => rfl

theorem groupsDone_iff {gs? : Option (List (List Node))} (h : groupsDone b gs? = true) :
    ∃ gs, gs? = some gs ∧ ∃ g ∈ gs, b.hasAll g = true := by
  unfold groupsDone at h
  split at h
  · next gs => exact ⟨gs, rfl, List.any_eq_true.1 h⟩
  · cases h


theorem nodeMissing_none {s whole l0 : Sent} {d : Option Bool} {r : Rule} {w : Option Nat}
    (hrf : L.ruleFor s d = some (r, whole, l0)) (hq : whole.quantOK L = true) (hw : r.witness = .none)
    (h : L.nodeMissing b s d w = []) : groupsDone b (instGroups whole l0 w none none r) = true := by
  unfold LogicData.nodeMissing at h
  simp only [hrf, hq, Bool.not_true, Bool.false_eq_true, ↓reduceIte, hw] at h
  cases hd : groupsDone b (instGroups whole l0 w none none r) with
  | true => rfl
  | false => simp [hd] at h

theorem nodeMissing_newWorld {s whole l0 : Sent} {d : Option Bool} {r : Rule} {w : Option Nat}
    (hrf : L.ruleFor s d = some (r, whole, l0)) (hq : whole.quantOK L = true) (hw : r.witness = .newWorld)
    (h : L.nodeMissing b s d w = []) : ∃ w', groupsDone b (instGroups whole l0 w none (some w') r) = true := by
  unfold LogicData.nodeMissing at h
  simp only [hrf, hq, Bool.not_true, Bool.false_eq_true, ↓reduceIte, hw] at h
  cases hd : b.worldList.any (fun w' => groupsDone b (instGroups whole l0 w none (some w') r)) with
  | true =>
    obtain ⟨w', _, hw'⟩ := List.any_eq_true.1 hd
    exact ⟨w', hw'⟩
  | false => simp [hd] at h

theorem nodeMissing_eachWorld {s whole l0 : Sent} {d : Option Bool} {r : Rule} {w0 : Nat}
    (hrf : L.ruleFor s d = some (r, whole, l0)) (hq : whole.quantOK L = true) (hw : r.witness = .eachWorld)
    (h : L.nodeMissing b s d (some w0) = []) :
    (∀ x ∈ b.successors w0, groupsDone b (instGroups whole l0 (some w0) none (some x) r) = true) ∧
    (L.frameRules.contains "Serial" = true → b.successors w0 ≠ []) := by
  unfold LogicData.nodeMissing at h
  simp only [hrf, hq, Bool.not_true, Bool.false_eq_true, ↓reduceIte, hw, List.append_eq_nil_iff,
    List.map_eq_nil_iff, List.filter_eq_nil_iff] at h
  obtain ⟨h1, h2⟩ := h
  refine ⟨?_, ?_⟩
  · intro x hx
    have := h1 x hx
    cases hd : groupsDone b (instGroups whole l0 (some w0) none (some x) r) with
    | true => rfl
    | false => simp [hd] at this
  · intro hser hemp
    rw [hemp] at h2
    simp at h2
    exact h2 (by simpa using hser)

theorem nodeMissing_newConst {s whole l0 : Sent} {d : Option Bool} {r : Rule} {w : Option Nat}
    (hrf : L.ruleFor s d = some (r, whole, l0)) (hq : whole.quantOK L = true) (hw : r.witness = .newConst)
    (h : L.nodeMissing b s d w = []) :
    ∃ c ∈ b.constList, groupsDone b (instGroups whole l0 w (some c) none r) = true := by
  unfold LogicData.nodeMissing at h
  simp only [hrf, hq, Bool.not_true, Bool.false_eq_true, ↓reduceIte, hw] at h
  cases hd : b.constList.any (fun c => groupsDone b (instGroups whole l0 w (some c) none r)) with
  | true =>
    obtain ⟨c, hc, hc'⟩ := List.any_eq_true.1 hd
    exact ⟨c, hc, hc'⟩
  | false => simp [hd] at h

theorem nodeMissing_eachConst {s whole l0 : Sent} {d : Option Bool} {r : Rule} {w : Option Nat}
    (hrf : L.ruleFor s d = some (r, whole, l0)) (hq : whole.quantOK L = true) (hw : r.witness = .eachConst)
    (h : L.nodeMissing b s d w = []) :
    b.constList ≠ [] ∧ ∀ c ∈ b.constList, groupsDone b (instGroups whole l0 w (some c) none r) = true := by
  unfold LogicData.nodeMissing at h
  simp only [hrf, hq, Bool.not_true, Bool.false_eq_true, ↓reduceIte, hw] at h
  cases hemp : b.constList.isEmpty with
  | true => simp [hemp] at h
  | false =>
    simp only [hemp, Bool.false_eq_true, ↓reduceIte, List.map_eq_nil_iff, List.filter_eq_nil_iff] at h
    refine ⟨by intro hn; simp [hn] at hemp, ?_⟩
    intro c hc
    have := h c hc
    cases hd : groupsDone b (instGroups whole l0 w (some c) none r) with
    | true => rfl
    | false => simp [hd] at this

theorem hintikka_gen (μ : Sent → Option Bool → Nat) (P : Sent → Prop) (hμ : MeasureOKOn L μ P)
    (hP : ∀ s d w, Node.sent s d w ∈ b.nodes → ∀ r whole l0, L.ruleFor s d = some (r, whole, l0) → P whole)
    (hcore : L.hintikkaCoreB = true)
    (hT : V.T ∈ L.T.vals) (hF : V.F ∈ L.T.vals)
    (hs : L.unsaturated b = []) (hg : b.foB L = true) :
    (struct L b).Interp L ∧ ∀ n ∈ b.nodes, satNode L (struct L b) env id n := by
  simp only [LogicData.hintikkaCoreB, Bool.and_eq_true, List.isEmpty_iff, beq_iff_eq] at hcore
  obtain ⟨⟨⟨⟨⟨⟨⟨⟨⟨hTot, hinc⟩, hmiss⟩, hct⟩, hrt⟩, hbr⟩, hvoc⟩, hfc⟩, hloc⟩, hmf⟩ := hcore
  have hcl := L.tables.closed_of_totalB _ _ _ hTot
  obtain ⟨hnodes, hframe⟩ := unsat_split hs
  have hM : (struct L b).Interp L := interp hcl.una hT hF hfc hframe
  refine ⟨hM, ?_⟩
  have hgr : ∀ s d w, Node.sent s d w ∈ b.nodes → s.fo L [] = true ∧ d ∈ L.markers ∧ w.isSome = L.modal := by
    intro s d w hn
    unfold Branch.foB at hg
    have := (List.all_eq_true.1 hg) _ hn
    simp only [Bool.and_eq_true, List.contains_eq_mem, decide_eq_true_eq, beq_iff_eq] at this
    exact ⟨this.1.1, this.1.2, this.2⟩
  have main : ∀ k, ∀ s d w, μ s d = k → Node.sent s d w ∈ b.nodes →
      L.satV d (eval L (struct L b) env (w.getD 0) s) = true := by
    intro k
    induction k using Nat.strongRecOn with
    | _ k ih =>
      intro s d w hk hn
      obtain ⟨hgs, hdm, hwm⟩ := hgr s d w hn
      obtain ⟨hclo, hmis⟩ := hnodes s d w hn
      have hw : w = wopt L (w.getD 0) := by
        unfold wopt
        cases w with
        | none => simp at hwm; simp [← hwm]
        | some w0 => simp at hwm; simp [← hwm]
      cases hrf : L.ruleFor s d with
      | none =>
        obtain ⟨base, hsb, hbb, hev⟩ := literal_of_no_rule (b := b) hmiss hdm hgs
          (consts_subset_branch hn) hrf (w.getD 0)
        exact literal_sat hct hrt hbr hn hdm hw hclo hsb hbb hev
      | some x =>
        obtain ⟨r, whole, l0⟩ := x
        obtain ⟨sh, ng, hdec, hr, hl⟩ := ruleFor_some hrf
        have hrc : L.ruleCompleteB ⟨sh, ng, d⟩ r = true := ruleComplete_of_nil hinc hr
        have hshape := decomp_shape hdec
        have hrmem := lookup_mem (show L.rules.lookup ⟨sh, ng, d⟩ = some r from hr)
        have hvk := (List.all_eq_true.1 hvoc) _ hrmem
        have hPw : P whole := hP s d w hn r whole l0 hrf
        -- every node of a group that is on the branch is satisfied
        have group_sat : ∀ (c : Option (Nat × Nat)) (wo : Option Nat) (gs : List (List Node)),
            instGroups whole l0 w c wo r = some gs → ∀ g ∈ gs, b.hasAll g = true →
            ∀ n ∈ g, satNode L (struct L b) env id n := by
          intro c wo gs hgs' g hgm hall n hn'
          have hnb : n ∈ b.nodes := by
            have := (List.all_eq_true.1 hall) n hn'
            simpa [Branch.hasNode] using this
          cases n with
          | sent s' d' w' =>
            have hlt := hμ hrf hPw w c wo gs hgs' g hgm s' d' w' hn'
            exact ih (μ s' d') (hk ▸ hlt) s' d' w' rfl hnb
          | access a c' => exact Or.inl (by simpa [Branch.hasAccess] using hnb)
          | flag _ => trivial
          | ellipsis => trivial
        have hfow : whole.fo L [] = true := by
          have hsw := decomp_eq hdec
          cases ng
          · simp at hsw; rw [← hsw]; exact hgs
          · simp at hsw; rw [hsw] at hgs; simpa [Sent.fo, Sent.neg, Op1.isModal] using hgs
        have hqok : whole.quantOK L = true := by
          refine quantOK_of_fo hfow ?_
          intro q vi vs body hwq
          subst hwq
          rw [show Shape.of (Sent.quant q vi vs body) = some (.quant q) from rfl] at hshape
          simp only [Option.some.injEq] at hshape
          subst hshape
          simpa using hvk
        cases sh with
        | quant q =>
          -- quantifier rule
          simp only at hvk
          have hq : L.quantified = true := hvk
          obtain ⟨vi, vs, body, rfl⟩ : ∃ vi vs body, whole = .quant q vi vs body := by
            cases whole <;> simp [Shape.of] at hshape
            subst hshape; exact ⟨_, _, _, rfl⟩
          simp only [Sent.lhs?, Option.some.injEq] at hl
          subst hl
          have hbody : body.noSys L = true := by
            simp only [Sent.fo, hq, Bool.not_true, Bool.false_or, Bool.and_eq_true] at hfow
            exact fo_noSys hfow.2
          refine quant_rule_back hTot hM hq hdec hqok hrc env id ?_
          unfold QuantDone
          cases hwit : r.witness with
          | none =>
            obtain ⟨gs, hgs', g, hgm, hall⟩ := groupsDone_iff (nodeMissing_none hrf hqok hwit hmis)
            exact ⟨gs, by simpa [instGroups, hwit, Sent.rhs?, Sent.qraw, Sent.qvar] using hgs', g, hgm,
              group_sat none none gs hgs' g hgm hall⟩
          | newConst =>
            obtain ⟨c, _, hdone⟩ := nodeMissing_newConst hrf hqok hwit hmis
            obtain ⟨gs, hgs', g, hgm, hall⟩ := groupsDone_iff hdone
            exact ⟨c.1, c.2, gs, by simpa [instGroups, hwit, Sent.instC, Sent.qraw, Sent.qvar] using hgs', g, hgm,
              group_sat (some c) none gs hgs' g hgm hall⟩
          | eachConst =>
            obtain ⟨hne, hall'⟩ := nodeMissing_eachConst hrf hqok hwit hmis
            intro x
            have hpm : pi b x ∈ b.constList := pi_mem hne x
            obtain ⟨gs, hgs', g, hgm, hall⟩ := groupsDone_iff (hall' _ hpm)
            refine ⟨(pi b x).1, (pi b x).2, ?_, gs, by simpa [instGroups, hwit, Sent.instC, Sent.qraw, Sent.qvar] using hgs', g, hgm,
              group_sat (some (pi b x)) none gs hgs' g hgm hall⟩
            exact eval_updVar_pi hbody env _ vi vs x
          | newWorld =>
            simp only [LogicData.ruleCompleteB, List.all_eq_true] at hrc
            have := hrc _ (qProfile_mem (L := L) hM hTot env (id (w.getD 0)) vi vs body)
            simp [LogicData.qRuleCompleteAt, hwit] at this
          | eachWorld =>
            simp only [LogicData.ruleCompleteB, List.all_eq_true] at hrc
            have := hrc _ (qProfile_mem (L := L) hM hTot env (id (w.getD 0)) vi vs body)
            simp [LogicData.qRuleCompleteAt, hwit] at this
        | op2 o =>
          have hwn : r.witness = .none := by
            simp only [LogicData.ruleCompleteB, Bool.and_eq_true, beq_iff_eq] at hrc
            exact hrc.1
          obtain ⟨gs, hgs', g, hgm, hall⟩ := groupsDone_iff (nodeMissing_none hrf hqok hwn hmis)
          have hgs'' : mapOpt (instAdds whole l0 whole.rhs? whole.qraw whole.qvar w none) r.branches = some gs := by
            simpa [instGroups, hwn] using hgs'
          exact op_rule_back hTot hM hdec (by simp [Shape.isTF]) hrc hl whole.qraw whole.qvar hgs'' env id hgm
            (group_sat none none gs hgs' g hgm hall)
        | op1 o =>
          by_cases hmo : o.isModal = true
          · -- modal rule
            simp only [hmo] at hvk
            have hmd : L.modal = true := hvk
            obtain ⟨w0, rfl⟩ : ∃ w0, w = some w0 := by
              cases w with
              | none => simp [hmd] at hwm
              | some w0 => exact ⟨w0, rfl⟩
            obtain ⟨A, rfl⟩ : ∃ A, whole = .op1 o A := by
              cases whole <;> simp [Shape.of] at hshape
              subst hshape; exact ⟨_, rfl⟩
            simp only [Sent.lhs?, Option.some.injEq] at hl
            subst hl
            refine modal_rule_back hTot hM hmd hmo hdec hrc (0, 0) env id ?_
            unfold ModalDone
            cases hwit : r.witness with
            | none =>
              obtain ⟨gs, hgs', g, hgm, hall⟩ := groupsDone_iff (nodeMissing_none hrf hqok hwit hmis)
              exact ⟨gs, by simpa [instGroups, hwit, Sent.rhs?, Sent.qraw, Sent.qvar] using hgs', g, hgm,
                group_sat none none gs hgs' g hgm hall⟩
            | newWorld =>
              obtain ⟨w', hdone⟩ := nodeMissing_newWorld hrf hqok hwit hmis
              obtain ⟨gs, hgs', g, hgm, hall⟩ := groupsDone_iff hdone
              exact ⟨w', gs, by simpa [instGroups, hwit, Sent.qvar] using hgs', g, hgm,
                group_sat none (some w') gs hgs' g hgm hall⟩
            | eachWorld =>
              obtain ⟨hall', hser⟩ := nodeMissing_eachWorld hrf hqok hwit hmis
              intro x hRx
              have hacc : b.hasAccess w0 x = true := by
                rcases hRx with hRx | hRx
                · exact hRx
                · exfalso
                  have hw0 : w0 ∈ b.worlds := List.mem_flatMap.2 ⟨_, hn, by simp [Node.worldsSem]⟩
                  cases hk' : L.frame <;> simp only [hk'] at hRx
                  · -- D: the serial clause of saturation gives a successor
                    unfold LogicData.framesCompleteB at hfc
                    simp only [hk'] at hfc
                    exact hser hfc hRx.1
                  · exact hRx.1 hw0
                  · exact hRx.1 hw0
                  · exact hRx.1 hw0
              obtain ⟨gs, hgs', g, hgm, hall⟩ := groupsDone_iff (hall' x (mem_successors.2 hacc))
              exact ⟨x, rfl, gs, by simpa [instGroups, hwit, Sent.qvar] using hgs', g, hgm,
                group_sat none (some x) gs hgs' g hgm hall⟩
            | newConst =>
              simp only [LogicData.ruleCompleteB, hmo, ↓reduceIte, List.all_eq_true] at hrc
              have hP := mProfiles_mem (L := L) hM hTot env (id w0) A
              have := hrc _ hP
              simp [LogicData.mRuleCompleteAt, hwit] at this
            | eachConst =>
              simp only [LogicData.ruleCompleteB, hmo, ↓reduceIte, List.all_eq_true] at hrc
              have hP := mProfiles_mem (L := L) hM hTot env (id w0) A
              have := hrc _ hP
              simp [LogicData.mRuleCompleteAt, hwit] at this
          · -- truth-functional unary operator
            have hmo' : o.isModal = false := by simpa using hmo
            have hwn : r.witness = .none := by
              simp only [LogicData.ruleCompleteB, hmo', Bool.false_eq_true, ↓reduceIte, Bool.and_eq_true, beq_iff_eq] at hrc
              exact hrc.1
            obtain ⟨gs, hgs', g, hgm, hall⟩ := groupsDone_iff (nodeMissing_none hrf hqok hwn hmis)
            have hgs'' : mapOpt (instAdds whole l0 whole.rhs? whole.qraw whole.qvar w none) r.branches = some gs := by
              simpa [instGroups, hwn] using hgs'
            exact op_rule_back hTot hM hdec (by simp [Shape.isTF, hmo']) hrc hl whole.qraw whole.qvar hgs'' env id hgm
              (group_sat none none gs hgs' g hgm hall)
  intro n hn
  cases n with
  | sent s d w => exact main _ s d w rfl hn
  | access a c => exact Or.inl (by simpa [Branch.hasAccess] using hn)
  | flag _ => trivial
  | ellipsis => trivial


/-! ### the two instances: ground branches (non-quantifier weights suffice), first-order branches -/

theorem ground_fo {s : Sent} : s.ground L = true → s.fo L [] = true := by
  induction s with
  | atom i j => intro _; rfl
  | pred p ps =>
    intro h
    simp only [Sent.ground, Bool.and_eq_true] at h
    simp only [Sent.fo, Bool.and_eq_true]
    refine ⟨h.1, ?_⟩
    rw [List.all_eq_true] at h ⊢
    intro x hx
    have := h.2 x hx
    cases x <;> simp_all
  | quant q vi vs body _ =>
    intro h
    simp only [Sent.ground, Bool.not_eq_true'] at h
    simp [Sent.fo, h]
  | op1 o a ih =>
    intro h
    simp only [Sent.ground, Bool.or_eq_true] at h
    simp only [Sent.fo, Bool.or_eq_true]
    rcases h with h | h
    · exact Or.inl h
    · exact Or.inr (ih h)
  | op2 o a c iha ihc =>
    intro h
    simp only [Sent.ground, Bool.and_eq_true] at h
    simp only [Sent.fo, Bool.and_eq_true]
    exact ⟨iha h.1, ihc h.2⟩

theorem groundB_foB (h : b.groundB L = true) : b.foB L = true := by
  unfold Branch.groundB at h
  unfold Branch.foB
  rw [List.all_eq_true] at h ⊢
  intro n hn
  have := h n hn
  cases n with
  | sent s d w =>
    simp only [Bool.and_eq_true] at this ⊢
    exact ⟨⟨ground_fo this.1.1, this.1.2⟩, this.2⟩
  | access a c => exact this
  | flag _ => rfl
  | ellipsis => rfl

/-- Hintikka lemma, propositional + modal vocabulary (weights for the non-quantifier rows suffice) -/
theorem hintikka (μ : Sent → Option Bool → Nat) (hμ : MeasureOK L μ) (hcore : L.hintikkaCoreB = true)
    (hT : V.T ∈ L.T.vals) (hF : V.F ∈ L.T.vals)
    (hs : L.unsaturated b = []) (hg : b.groundB L = true) :
    (struct L b).Interp L ∧ ∀ n ∈ b.nodes, satNode L (struct L b) env id n := by
  refine hintikka_gen μ _ hμ ?_ hcore hT hF hs (groundB_foB hg)
  intro s d w hn r whole l0 hrf q hq
  obtain ⟨sh, ng, hdec, hr, hl⟩ := ruleFor_some hrf
  have hshape := decomp_shape hdec
  rw [hq] at hshape
  simp only [Option.some.injEq] at hshape
  subst hshape
  have hvoc : L.vocabOKB = true := by
    simp only [LogicData.hintikkaCoreB, Bool.and_eq_true] at hcore
    exact hcore.1.1.1.2
  have hvk := (List.all_eq_true.1 hvoc) _ (lookup_mem (show L.rules.lookup ⟨.quant q, ng, d⟩ = some r from hr))
  simp only at hvk
  have hgs : s.ground L = true := by
    unfold Branch.groundB at hg
    have := (List.all_eq_true.1 hg) _ hn
    simp only [Bool.and_eq_true] at this
    exact this.1.1
  have hsw := decomp_eq hdec
  cases whole <;> simp [Shape.of] at hq
  cases ng <;> simp at hsw <;> subst hsw <;> simp [Sent.ground, Sent.neg, Op1.isModal, hvk] at hgs

/-- Hintikka lemma, first-order vocabulary (needs weights for every row of the table) -/
theorem hintikka_fo (μ : Sent → Option Bool → Nat) (hμ : MeasureOKOn L μ (fun _ => True))
    (hcore : L.hintikkaCoreB = true) (hT : V.T ∈ L.T.vals) (hF : V.F ∈ L.T.vals)
    (hs : L.unsaturated b = []) (hg : b.foB L = true) :
    (struct L b).Interp L ∧ ∀ n ∈ b.nodes, satNode L (struct L b) env id n :=
  hintikka_gen μ _ hμ (fun _ _ _ _ _ _ _ _ => trivial) hcore hT hF hs hg


end Canon
end Ptx
