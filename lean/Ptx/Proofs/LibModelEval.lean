/-
  Ptx.Proofs.LibModelEval — the substitutional evaluator of the mirror (`valueOf`: instances
  `c >> s` over the model's constants, folded by the logic's program) computes the documented
  recursive semantics `Ptx.eval` of the structure the finished model denotes.
-/
import Ptx.Proofs.LibModelFold
import Ptx.Proofs.LibModelAcc
import Ptx.Proofs.Subst
namespace Ptx.LibModel
open Ptx

/-! ### the structure a model denotes -/

/-- the frame read at world `w` (in a modal model a missing frame reads as a fresh one) -/
def frameD (m : Model) (w : Nat) : Frame := (m.frames.lookup w).getD {}

/-- domain: the model's constants -/
abbrev Dom (m : Model) : Type := {c : Nat × Nat // c ∈ m.consts}

def Dom.param {m : Model} (d : Dom m) : Param := .const d.1.1 d.1.2

abbrev toStruct (L : LogicData) (m : Model) (c0 : Dom m) : Struct where
  W := Nat
  D := Dom m
  R := fun a b => (a, b) ∈ m.R.pairs
  dflt := c0
  atomV := fun w i j => ((frameD m w).atomics.lookup (i, j)).getD L.T.unassigned
  predV := fun w p ds => (((frameD m w).interp p).lookup (ds.map Dom.param)).getD L.T.unassigned
  opaqueV := fun w s => ((frameD m w).opaques.lookup s).getD L.T.unassigned

/-- constants denote themselves -/
def envOf (L : LogicData) (m : Model) (c0 : Dom m) : Env (Dom m) where
  c := fun i j => if h : (i, j) ∈ m.consts then ⟨(i, j), h⟩ else c0
  g := fun _ _ => c0

/-! ### sentences the evaluator handles without raising -/

/-- closed under `bound`, constants among `cs`, only interpreted vocabulary, no re-binding of a
    variable inside its own scope -/
def okIn (L : LogicData) (cs : List (Nat × Nat)) : List (Nat × Nat) → Sent → Bool
  | _, .atom _ _ => true
  | bound, .pred _ ps => ps.all fun
      | .const i j => cs.contains (i, j)
      | .var i j => bound.contains (i, j)
  | bound, .quant _ vi vs b => L.quantified && !bound.contains (vi, vs) && okIn L cs ((vi, vs) :: bound) b
  | bound, .op1 o a => (!o.isModal || L.modal) && okIn L cs bound a
  | bound, .op2 _ a b => okIn L cs bound a && okIn L cs bound b

theorem size_psubst (n o : Param) : ∀ s : Sent, (s.psubst n o).size = s.size
  | .atom _ _ => rfl
  | .pred _ _ => rfl
  | .quant _ _ _ b => by simp [Sent.psubst, Sent.size, size_psubst n o b]
  | .op1 _ a => by simp [Sent.psubst, Sent.size, size_psubst n o a]
  | .op2 _ a b => by simp [Sent.psubst, Sent.size, size_psubst n o a, size_psubst n o b]

theorem okIn_psubst (L : LogicData) (cs : List (Nat × Nat)) (x c : Nat × Nat) (hc : c ∈ cs) :
    ∀ (b : Sent) (pre post : List (Nat × Nat)), okIn L cs (pre ++ x :: post) b = true →
      okIn L cs (pre ++ post) (b.psubst (.const c.1 c.2) (.var x.1 x.2)) = true
  | .atom _ _, _, _, _ => rfl
  | .pred p ps, pre, post, h => by
      simp only [okIn, Sent.psubst, List.all_map, List.all_eq_true] at h ⊢
      intro y hy
      have := h y hy
      cases y with
      | const i j => simpa [Param.psubst] using this
      | var i j =>
        simp only [Function.comp, Param.psubst]
        by_cases hx : Param.var i j = Param.var x.1 x.2
        · simp only [hx, ↓reduceIte]; simpa using hc
        · simp only [hx, ↓reduceIte]
          simp only [List.contains_iff_mem, List.mem_append, List.mem_cons] at this ⊢
          rcases this with h1 | h1 | h1
          · exact Or.inl h1
          · exact absurd (by rw [← h1]) hx
          · exact Or.inr h1
  | .quant q vi vs b, pre, post, h => by
      simp only [okIn, Bool.and_eq_true, Bool.not_eq_true', Sent.psubst] at h ⊢
      refine ⟨⟨h.1.1, ?_⟩, ?_⟩
      · have := h.1.2
        simp only [List.contains_eq_mem, List.mem_append, List.mem_cons, decide_eq_false_iff_not, not_or] at this ⊢
        exact ⟨this.1, this.2.2⟩
      · exact okIn_psubst L cs x c hc b ((vi, vs) :: pre) post h.2
  | .op1 o a, pre, post, h => by
      simp only [okIn, Bool.and_eq_true, Sent.psubst] at h ⊢
      exact ⟨h.1, okIn_psubst L cs x c hc a pre post h.2⟩
  | .op2 o a b, pre, post, h => by
      simp only [okIn, Bool.and_eq_true, Sent.psubst] at h ⊢
      exact ⟨okIn_psubst L cs x c hc a pre post h.1, okIn_psubst L cs x c hc b pre post h.2⟩

theorem okIn_noBinder (L : LogicData) (cs : List (Nat × Nat)) (x : Nat × Nat) :
    ∀ (b : Sent) (bound : List (Nat × Nat)), x ∈ bound → okIn L cs bound b = true → b.noBinder x.1 x.2 = true
  | .atom _ _, _, _, _ => rfl
  | .pred _ _, _, _, _ => rfl
  | .quant q vi vs b, bound, hx, h => by
      simp only [okIn, Bool.and_eq_true, Bool.not_eq_true'] at h
      simp only [Sent.noBinder, Bool.and_eq_true, Bool.not_eq_true', Bool.and_eq_false_iff, beq_eq_false_iff_ne]
      refine ⟨?_, okIn_noBinder L cs x b _ (List.mem_cons_of_mem _ hx) h.2⟩
      have hn : (vi, vs) ∉ bound := by simpa using h.1.2
      by_cases h1 : vi = x.1
      · right; intro h2; apply hn; rw [h1, h2]; exact hx
      · left; exact h1
  | .op1 o a, bound, hx, h => by
      simp only [okIn, Bool.and_eq_true] at h
      exact okIn_noBinder L cs x a bound hx h.2
  | .op2 o a b, bound, hx, h => by
      simp only [okIn, Bool.and_eq_true] at h
      simp only [Sent.noBinder, Bool.and_eq_true]
      exact ⟨okIn_noBinder L cs x a bound hx h.1, okIn_noBinder L cs x b bound hx h.2⟩

theorem okIn_interp (L : LogicData) (cs : List (Nat × Nat)) :
    ∀ (b : Sent) (bound : List (Nat × Nat)), okIn L cs bound b = true → b.interp L.modal L.quantified = true
  | .atom _ _, _, _ => rfl
  | .pred _ _, _, _ => rfl
  | .quant q vi vs b, bound, h => by
      simp only [okIn, Bool.and_eq_true] at h
      simp only [Sent.interp, Bool.and_eq_true]
      exact ⟨h.1.1, okIn_interp L cs b _ h.2⟩
  | .op1 o a, bound, h => by
      simp only [okIn, Bool.and_eq_true] at h
      simp only [Sent.interp, Bool.and_eq_true]
      exact ⟨h.1, okIn_interp L cs a _ h.2⟩
  | .op2 o a b, bound, h => by
      simp only [okIn, Bool.and_eq_true] at h
      simp only [Sent.interp, Bool.and_eq_true]
      exact ⟨okIn_interp L cs a _ h.1, okIn_interp L cs b _ h.2⟩

theorem okIn_notOpaque (L : LogicData) (cs bound) (s : Sent) (h : okIn L cs bound s = true) : isOpaque L s = false := by
  cases s with
  | atom _ _ => rfl
  | pred _ _ => rfl
  | quant q vi vs b =>
    simp only [okIn, Bool.and_eq_true] at h
    simp [isOpaque, h.1.1]
  | op1 o a =>
    simp only [okIn, Bool.and_eq_true, Bool.or_eq_true, Bool.not_eq_true'] at h
    simp only [isOpaque, Bool.and_eq_false_iff, Bool.not_eq_false']
    exact h.1
  | op2 _ _ _ => rfl

/-! ### values stay inside the logic's value set -/

theorem lookup_mem {κ β} [BEq κ] [LawfulBEq κ] : ∀ {l : List (κ × β)} {k : κ} {v : β}, l.lookup k = some v → (k, v) ∈ l
  | [], _, _, h => by simp at h
  | (k', v') :: r, k, v, h => by
      simp only [List.lookup] at h
      split at h
      · next hk =>
        have : k = k' := by simpa using hk
        cases h; subst this; exact List.mem_cons_self
      · exact List.mem_cons_of_mem _ (lookup_mem h)

/-- every value stored in the model is a value of the logic (`self.values[value]` guards every setter) -/
def Model.ValsOK (L : LogicData) (m : Model) : Prop :=
  ∀ wf ∈ m.frames,
    (∀ av ∈ wf.2.atomics, av.2 ∈ L.T.vals) ∧ (∀ sv ∈ wf.2.opaques, sv.2 ∈ L.T.vals) ∧
    (∀ pi ∈ wf.2.preds, ∀ tv ∈ pi.2, tv.2 ∈ L.T.vals)

theorem frameD_vals {L : LogicData} {m : Model} (h : m.ValsOK L) (w : Nat) :
    (∀ av ∈ (frameD m w).atomics, av.2 ∈ L.T.vals) ∧ (∀ sv ∈ (frameD m w).opaques, sv.2 ∈ L.T.vals) ∧
    (∀ pi ∈ (frameD m w).preds, ∀ tv ∈ pi.2, tv.2 ∈ L.T.vals) := by
  unfold frameD
  cases hl : m.frames.lookup w with
  | none => simp
  | some f => exact h (w, f) (lookup_mem hl)

theorem getD_lookup_vals {κ} [BEq κ] [LawfulBEq κ] {vals : List V} {un : V} (hun : un ∈ vals)
    {l : List (κ × V)} (hl : ∀ kv ∈ l, kv.2 ∈ vals) (k : κ) : (l.lookup k).getD un ∈ vals := by
  cases h : l.lookup k with
  | none => exact hun
  | some v => exact hl (k, v) (lookup_mem h)

theorem interp_vals {L : LogicData} {f : Frame} (h : ∀ pi ∈ f.preds, ∀ tv ∈ pi.2, tv.2 ∈ L.T.vals) (p : Pred) :
    ∀ tv ∈ f.interp p, tv.2 ∈ L.T.vals := by
  unfold Frame.interp
  cases hl : f.preds.lookup p with
  | none => simp
  | some ip => exact h (p, ip) (lookup_mem hl)

/-! ### worlds at which the evaluation is asked -/

structure WorldsOK (L : LogicData) (m : Model) (S : Nat → Prop) : Prop where
  /-- non-modal models have the one frame of world 0 (`MappingProxyType`) -/
  frame : ∀ w, S w → L.modal = true ∨ (m.frames.lookup w).isSome = true
  succ : ∀ w, S w → ∀ w' ∈ m.R.succ w, S w'
  /-- where the logic's frames are serial, the worlds visited have successors -/
  serial : L.emptyAccessOk = false → ∀ w, S w → m.R.succ w ≠ []

theorem frameOf_ok {L : LogicData} {m : Model} {w : Nat} (h : L.modal = true ∨ (m.frames.lookup w).isSome = true) :
    frameOf L m w = .ok (frameD m w) := by
  unfold frameOf frameD
  cases hl : m.frames.lookup w with
  | some f => rfl
  | none =>
    rcases h with h | h
    · simp [h]
    · simp [hl] at h

/-! ### the theorem -/

theorem den_param {L : LogicData} {m : Model} (c0 : Dom m) (ps : Tup) (h : tupInConsts m ps = true) :
    (ps.map (envOf L m c0).den).map Dom.param = ps := by
  rw [List.map_map]
  conv => rhs; rw [← List.map_id ps]
  apply List.map_congr_left
  intro x hx
  simp only [tupInConsts, tupIn, List.all_eq_true] at h
  have := h x hx
  cases x with
  | var _ _ => simp at this
  | const i j =>
    have hm : (i, j) ∈ m.consts := by simpa using this
    simp [Env.den, envOf, hm, Dom.param]

theorem okIn_tupInConsts {L : LogicData} {m : Model} {p : Pred} {ps : Tup} (h : okIn L m.consts [] (.pred p ps) = true) :
    tupInConsts m ps = true := by
  simp only [okIn, List.all_eq_true] at h
  simp only [tupInConsts, tupIn, List.all_eq_true]
  intro x hx
  have := h x hx
  cases x with
  | const i j => exact this
  | var i j => simp at this

theorem map_ok_congr {α} {xs : List α} {f : α → Res V} {g : α → V} (h : ∀ x ∈ xs, f x = .ok (g x)) :
    xs.map f = (xs.map g).map .ok := by
  rw [List.map_map]
  exact List.map_congr_left h

theorem valueOfF_eq_eval (L : LogicData) (hOK : foldProgramsOKB L = true) (hT : L.tablesTotalB = true)
    (m : Model) (hfin : m.finished = true) (hvals : m.ValsOK L) (c0 : Dom m)
    (S : Nat → Prop) (hS : WorldsOK L m S) :
    ∀ (fuel : Nat) (s : Sent), s.size ≤ fuel → okIn L m.consts [] s = true → ∀ w, S w →
      valueOfF L m fuel s w = .ok (eval L (toStruct L m c0) (envOf L m c0) w s) ∧
      eval L (toStruct L m c0) (envOf L m c0) w s ∈ L.T.vals := by
  have hc := L.tables.closed_of_totalB _ _ _ hT
  intro fuel
  induction fuel with
  | zero => intro s hs; have := s.size_pos; omega
  | succ fuel ih =>
    intro s hs hok w hw
    have hop := okIn_notOpaque L _ _ s hok
    have hfr := frameOf_ok (hS.frame w hw)
    have hfv := frameD_vals hvals w
    unfold valueOfF
    simp only [hfin, Bool.not_true, Bool.false_eq_true, ↓reduceIte, hop]
    cases s with
    | atom i j =>
      simp only [hfr, Except.map, eval, toStruct]
      exact ⟨by first | rfl | trivial, getD_lookup_vals hc.una hfv.1 _⟩
    | pred p ps =>
      have htc := okIn_tupInConsts hok
      simp only [htc, Bool.not_true, Bool.false_eq_true, ↓reduceIte, hfr, Except.map, eval, toStruct]
      rw [den_param c0 ps htc]
      exact ⟨by first | rfl | trivial, getD_lookup_vals hc.una (interp_vals hfv.2.2 p) _⟩
    | quant q vi vs b =>
      simp only [okIn, Bool.and_eq_true, Bool.not_eq_true'] at hok
      obtain ⟨⟨hq, _⟩, hb⟩ := hok
      simp only [Sent.size] at hs
      have hnb := okIn_noBinder L m.consts (vi, vs) b [(vi, vs)] (by simp) hb
      have hin := okIn_interp L m.consts b _ hb
      -- every instance, by the induction hypothesis and the substitution lemma
      have hinst : ∀ c ∈ m.consts,
          valueOfF L m fuel (b.psubst (.const c.1 c.2) (.var vi vs)) w =
            .ok (eval L (toStruct L m c0) ((envOf L m c0).updVar vi vs ((envOf L m c0).c c.1 c.2)) w b) ∧
          eval L (toStruct L m c0) ((envOf L m c0).updVar vi vs ((envOf L m c0).c c.1 c.2)) w b ∈ L.T.vals := by
        intro c hcm
        have h1 := ih (b.psubst (.const c.1 c.2) (.var vi vs)) (by rw [size_psubst]; omega)
          (okIn_psubst L m.consts (vi, vs) c hcm b [] [] hb) w hw
        rw [eval_psubst hq vi vs c.1 c.2 b hnb hin] at h1
        exact h1
      let g : Nat × Nat → V := fun c =>
        eval L (toStruct L m c0) ((envOf L m c0).updVar vi vs ((envOf L m c0).c c.1 c.2)) w b
      have hlist : (m.consts.map fun c => valueOfF L m fuel (b.psubst (.const c.1 c.2) (.var vi vs)) w)
          = (m.consts.map g).map .ok := map_ok_congr fun c hcm => (hinst c hcm).1
      dsimp only
      rw [hlist]
      unfold foldQR
      rw [runProgR_ok]
      have hxs : ∀ x ∈ m.consts.map g, x ∈ L.T.vals := by
        intro x hx; obtain ⟨c, hcm, rfl⟩ := List.mem_map.1 hx; exact (hinst c hcm).2
      have hne : m.consts.map g ≠ [] := by
        intro h
        exact List.ne_nil_of_mem c0.2 (by simpa using h)
      have hfold := foldQV_eq_qfold L hOK hq q _ hxs hne
      unfold foldQV at hfold
      rw [hfold]
      -- the list of instance values and the profile over the domain have the same members
      have hcanon : L.T.canon (m.consts.map g) =
          L.T.canon (profile L.T (fun _ : (toStruct L m c0).D => True)
            (fun d => eval L (toStruct L m c0) ((envOf L m c0).updVar vi vs d) w b)) := by
        apply L.T.canon_congr
        intro v hv
        rw [mem_profile]
        constructor
        · intro h
          obtain ⟨c, hcm, rfl⟩ := List.mem_map.1 h
          refine ⟨hv, ⟨c, hcm⟩, trivial, ?_⟩
          simp only [g, envOf, hcm, ↓reduceDIte]
        · rintro ⟨_, d, _, rfl⟩
          refine List.mem_map.2 ⟨d.1, d.2, ?_⟩
          simp only [g, envOf, d.2, ↓reduceDIte]
      have heq : eval L (toStruct L m c0) (envOf L m c0) w (.quant q vi vs b) = L.T.qfold q (m.consts.map g) := by
        simp only [eval, hq, ↓reduceIte]
        unfold Tables.qfold
        rw [hcanon]
      rw [heq]
      refine ⟨rfl, ?_⟩
      unfold Tables.qfold
      refine hc.qf hq q _ (L.T.canon_mem_profiles _) (canon_ne_nil L.T hxs hne)
    | op1 o a =>
      simp only [okIn, Bool.and_eq_true, Bool.or_eq_true, Bool.not_eq_true'] at hok
      obtain ⟨hmo, ha⟩ := hok
      simp only [Sent.size] at hs
      by_cases hmod : o.isModal = true
      · have hm : L.modal = true := by
          rcases hmo with h | h
          · rw [hmod] at h; cases h
          · exact h
        simp only [hmod, ↓reduceIte]
        have hinst : ∀ w2 ∈ m.R.succ w,
            valueOfF L m fuel a w2 = .ok (eval L (toStruct L m c0) (envOf L m c0) w2 a) ∧
            eval L (toStruct L m c0) (envOf L m c0) w2 a ∈ L.T.vals :=
          fun w2 h2 => ih a (by omega) ha w2 (hS.succ w hw w2 h2)
        let g : Nat → V := fun w2 => eval L (toStruct L m c0) (envOf L m c0) w2 a
        have hlist : ((m.R.succ w).map fun w2 => valueOfF L m fuel a w2) = ((m.R.succ w).map g).map .ok :=
          map_ok_congr fun w2 h2 => (hinst w2 h2).1
        rw [hlist]
        unfold foldMR
        rw [runProgR_ok]
        have hxs : ∀ x ∈ (m.R.succ w).map g, x ∈ L.T.vals := by
          intro x hx; obtain ⟨w2, h2, rfl⟩ := List.mem_map.1 hx; exact (hinst w2 h2).2
        have hne : (m.R.succ w).map g ≠ [] ∨ L.emptyAccessOk = true := by
          by_cases he : L.emptyAccessOk = true
          · exact Or.inr he
          · left
            have := hS.serial (by simpa using he) w hw
            intro h
            apply this
            simpa using h
        have hfold := foldMV_eq_mfold L hOK hm o (Op1.modal_cases hmod) _ hxs hne
        unfold foldMV at hfold
        rw [hfold]
        have hcanon : L.T.canon ((m.R.succ w).map g) =
            L.T.canon (profile L.T (fun w' => (toStruct L m c0).R w w')
              (fun w' => eval L (toStruct L m c0) (envOf L m c0) w' a)) := by
          apply L.T.canon_congr
          intro v hv
          rw [mem_profile]
          constructor
          · intro h
            obtain ⟨w2, h2, rfl⟩ := List.mem_map.1 h
            exact ⟨hv, w2, Acc.mem_succ.1 h2, rfl⟩
          · rintro ⟨_, w2, h2, rfl⟩
            exact List.mem_map.2 ⟨w2, Acc.mem_succ.2 h2, rfl⟩
        have heq : eval L (toStruct L m c0) (envOf L m c0) w (.op1 o a) = L.T.mfold o ((m.R.succ w).map g) := by
          simp only [eval, hmod, hm, ↓reduceIte]
          unfold Tables.mfold
          rw [hcanon]
        rw [heq]
        refine ⟨rfl, ?_⟩
        unfold Tables.mfold
        refine hc.mf hm o (Op1.modal_cases hmod) _ (L.T.canon_mem_profiles _) ?_
        rcases hne with hne | he
        · exact Or.inl (canon_ne_nil L.T hxs hne)
        · exact Or.inr he
      · have hmod' : o.isModal = false := by simpa using hmod
        obtain ⟨h1, h2⟩ := ih a (by omega) ha w hw
        simp only [hmod', Bool.false_eq_true, ↓reduceIte, h1, Except.map, eval]
        exact ⟨by first | rfl | trivial, hc.f1 o (Op1.nonmodal_cases hmod') _ h2⟩
    | op2 o a b =>
      simp only [okIn, Bool.and_eq_true] at hok
      simp only [Sent.size] at hs
      obtain ⟨h1, h2⟩ := ih a (by omega) hok.1 w hw
      obtain ⟨h3, h4⟩ := ih b (by omega) hok.2 w hw
      simp only [h1, h3, Except.map, eval]
      exact ⟨by first | rfl | trivial, hc.f2 o _ h2 _ h4⟩

end Ptx.LibModel
