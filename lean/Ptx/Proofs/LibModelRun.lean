/-
  Ptx.Proofs.LibModelRun — run invariants behind the side conditions of `C08_eval_is_spec`:
    * world 0 is a key of R in every model assembled by setter / `R.add` calls (failing calls included),
    * a non-modal model has exactly the one frame of world 0 (`MappingProxyType({0: …})`),
    * hence: after a successful `finish()` every key of R has a frame, the keys are closed under access, and in a
      non-modal logic the only key is 0 (`_complete_frames` raises KeyError otherwise)
  — `WorldsOK` holds at all keys of R for every such program, modal or not.
-/
import Ptx.Proofs.LibModelOrderAll
namespace Ptx.LibModel
open Ptx

structure Model.Run0 (L : LogicData) (m : Model) : Prop where
  key0 : 0 ∈ m.R.keys
  frame0 : L.modal = false → akeys m.frames = [0]
  notComplete : m.frameComplete = false

theorem init_run0 (L : LogicData) : Model.init.Run0 L := ⟨by simp [Model.init], fun _ => rfl, rfl⟩

theorem frameAt_nonmodal {L : LogicData} {m m1 : Model} {w : Nat} {f : Frame} (hm : L.modal = false)
    (h : frameAt L m w = .ok (m1, f)) : m1 = m ∧ w ∈ akeys m.frames := by
  unfold frameAt at h
  split at h
  · next f' hl =>
    simp only [Except.ok.injEq, Prod.mk.injEq] at h
    exact ⟨h.1.symm, mem_akeys_of_lookup hl⟩
  · simp [hm] at h

theorem akeys_putFrame_of_mem {m : Model} {w : Nat} (hw : w ∈ akeys m.frames) (f : Frame) :
    akeys (putFrame m w f).frames = akeys m.frames := by
  unfold putFrame
  simp only [akeys_aset, hw, ↓reduceIte]

/-- what a frame-touching call may do to the pieces `Run0` looks at -/
structure Keeps (L : LogicData) (m m' : Model) : Prop where
  R : m'.R = m.R
  frames : L.modal = false → akeys m'.frames = akeys m.frames
  fc : m'.frameComplete = m.frameComplete

theorem Keeps.refl (L : LogicData) (m : Model) : Keeps L m m := ⟨rfl, fun _ => rfl, rfl⟩

theorem Keeps.run0 {L : LogicData} {m m' : Model} (k : Keeps L m m') (h : m.Run0 L) : m'.Run0 L :=
  ⟨k.R ▸ h.key0, fun hm => (k.frames hm).trans (h.frame0 hm), k.fc.trans h.notComplete⟩

/-- after `frameAt`, putting a frame back at `w` and changing constants / sentence sets keeps the pieces -/
theorem keeps_of_frameAt {L : LogicData} {m m1 m' : Model} {w : Nat} {f : Frame} (hfa : frameAt L m w = .ok (m1, f))
    (hR : m'.R = m1.R) (hfc : m'.frameComplete = m1.frameComplete)
    (hfr : m'.frames = m1.frames ∨ ∃ f', m'.frames = (putFrame m1 w f').frames) : Keeps L m m' := by
  obtain ⟨_, _, _, _, _, _, _, s8, _, s10⟩ := frameAt_spec hfa
  refine ⟨hR.trans s8, ?_, hfc.trans s10⟩
  intro hm
  obtain ⟨rfl, hw⟩ := frameAt_nonmodal hm hfa
  rcases hfr with h | ⟨f', h⟩
  · rw [h]
  · rw [h]; exact akeys_putFrame_of_mem hw f'

theorem setAtomic_keeps {L : LogicData} (m : Model) (a : Nat × Nat) (v : V) (w : Nat) :
    Keeps L m (setAtomic L m a v w).1 := by
  unfold setAtomic
  split
  · exact Keeps.refl L m
  split
  · exact Keeps.refl L m
  split
  · exact Keeps.refl L m
  next m' f hfa =>
  split
  · split
    · exact keeps_of_frameAt hfa rfl rfl (Or.inl rfl)
    · exact keeps_of_frameAt hfa rfl rfl (Or.inl rfl)
  · exact keeps_of_frameAt hfa rfl rfl (Or.inr ⟨_, rfl⟩)

theorem setOpaque_keeps {L : LogicData} (m : Model) (s : Sent) (v : V) (w : Nat) :
    Keeps L m (setOpaque L m s v w).1 := by
  unfold setOpaque
  split
  · exact Keeps.refl L m
  split
  · exact Keeps.refl L m
  split
  · exact Keeps.refl L m
  next m' f hfa =>
  split
  · split
    · exact keeps_of_frameAt hfa rfl rfl (Or.inr ⟨_, rfl⟩)
    · exact keeps_of_frameAt hfa rfl rfl (Or.inl rfl)
  · exact keeps_of_frameAt hfa rfl rfl (Or.inr ⟨_, rfl⟩)

theorem setPredicated_keeps {L : LogicData} (m : Model) (p : Pred) (ps : Tup) (v : V) (w : Nat) :
    Keeps L m (setPredicated L m p ps v w).1 := by
  unfold setPredicated
  split
  · exact Keeps.refl L m
  split
  · exact Keeps.refl L m
  split
  · exact Keeps.refl L m
  next m' f hfa =>
  split
  · exact keeps_of_frameAt hfa rfl rfl (Or.inl rfl)
  simp only
  split
  · split
    · exact keeps_of_frameAt hfa rfl rfl (Or.inr ⟨_, rfl⟩)
    · exact keeps_of_frameAt hfa rfl rfl (Or.inr ⟨_, rfl⟩)
  · exact keeps_of_frameAt hfa rfl rfl (Or.inr ⟨_, rfl⟩)

/-- every setter / `R.add` call, failing or not, preserves `Run0` -/
theorem step_run0 {L : LogicData} (hints : Hints) {m : Model} (h : m.Run0 L) {op : MOp} (hs : op.setter = true) :
    (step L hints m op).1.Run0 L := by
  have prim : ∀ op' : MOp, op'.prim = true → (step L hints m op').1.Run0 L := by
    intro op' hp
    cases op' with
    | setAtomic i j v w => exact (setAtomic_keeps m (i, j) v w).run0 h
    | setPred p ps v w => exact (setPredicated_keeps m p ps v w).run0 h
    | setOpaque s v w => exact (setOpaque_keeps m s v w).run0 h
    | rAdd a b =>
      refine ⟨?_, h.frame0, h.notComplete⟩
      simp only [step, Acc.mem_keys_add]
      exact Or.inl h.key0
    | setLiteral _ _ _ => simp [MOp.prim] at hp
    | setValue _ _ _ => simp [MOp.prim] at hp
    | finish => simp [MOp.prim] at hp
  cases ht : op.toPrim L with
  | some op' =>
    rw [step_toPrim hints m ht]
    exact prim op' (MOp.toPrim_prim ht)
  | none =>
    obtain ⟨e, he⟩ := step_toPrim_none hints m hs ht
    rw [he]; exact h

theorem run_run0 {L : LogicData} (hints : Hints) : ∀ (ops : List MOp) (m : Model), m.Run0 L →
    (∀ op ∈ ops, op.setter = true) → (run L hints m ops).1.Run0 L
  | [], _, h, _ => h
  | op :: ops, m, h, hs => by
      simp only [run]
      exact run_run0 hints ops _ (step_run0 hints h (hs op List.mem_cons_self))
        (fun o ho => hs o (List.mem_cons_of_mem _ ho))

theorem finish_ok_not_finished {L : LogicData} {hints : Hints} {m m' : Model} (h : finish L hints m = (m', none)) :
    m.finished = false := by
  cases hf : m.finished with
  | false => rfl
  | true => simp [finish, finishX, hf] at h

theorem completeFrames_ok_nonmodal {L : LogicData} {m m' : Model} (hm : L.modal = false) (hfc : m.frameComplete = false)
    (h : completeFrames L m = .ok m') : ∀ w ∈ m.R.keys, w = 0 := by
  unfold completeFrames at h
  simp only [hfc, Bool.false_eq_true, ↓reduceIte, hm, Bool.not_false, Bool.true_and] at h
  split at h
  · cases h
  · next hany =>
    intro w hw
    apply Classical.byContradiction
    intro hne
    apply hany
    exact List.any_eq_true.2 ⟨w, hw, by simpa using hne⟩

theorem finish_completeFrames_ok {L : LogicData} {hints : Hints} {m m' : Model} (h : finish L hints m = (m', none)) :
    ∃ m1, completeFrames L m = .ok m1 := by
  have hnf := finish_ok_not_finished h
  unfold finish finishX at h
  simp only [hnf, Bool.false_eq_true, ↓reduceIte] at h
  cases hc : completeFrames L m with
  | ok m1 => exact ⟨m1, rfl⟩
  | error e => simp [hc] at h

/-- the worlds of a model assembled by setter / `R.add` calls and then successfully finished: world 0 is
    there; every world of R has a frame (non-modal) ; the worlds are closed under access; where the logic's
    frames are serial every world has a successor; in a non-modal logic 0 is the only world -/
theorem worldsOK_of_run {L : LogicData} (hT : L.tablesTotalB = true) (hD : L.modal = true ∨ L.frame ≠ .D)
    (hints : Hints) {m m' : Model} (hinv : m.Inv L) (hrun : m.Run0 L) (hfin : finish L hints m = (m', none)) :
    WorldsOK L m' (· ∈ m'.R.keys) ∧ 0 ∈ m'.R.keys ∧ (L.modal = false → ∀ w ∈ m'.R.keys, w = 0) := by
  have hnf := finish_ok_not_finished hfin
  obtain ⟨R1, hwf1, hp1, hk1, hR, _⟩ := finish_R hfin hnf hinv.rwf
  have hwf' : m'.R.WF := hR ▸ Acc.WF_enforce hwf1 _
  have h0 : 0 ∈ m'.R.keys := by
    have : 0 ∈ R1.keys := (hk1 0).2 (Or.inl hrun.key0)
    rw [hR]
    by_cases hk : L.frame = .D
    · rw [hk]
      exact ((Acc.enforceSerial_iff R1).2 0).2 (Or.inl this)
    · exact (Acc.enforce_keys hk hwf1 0).2 this
  cases hmod : L.modal with
  | true =>
    exact ⟨worldsOK_of_finish hmod hT hints (finishX_flag hfin hnf hinv.rwf) hnf hinv, h0, fun h => by cases h⟩
  | false =>
    have hDf : L.frame ≠ .D := by
      rcases hD with h | h
      · rw [hmod] at h; cases h
      · exact h
    have hworlds := finish_worlds hDf hints hfin hnf hrun.notComplete hinv.rwf
    obtain ⟨m1, hc1⟩ := finish_completeFrames_ok hfin
    have hkeys0 := completeFrames_ok_nonmodal hmod hrun.notComplete hc1
    have hall0 : ∀ w ∈ m'.R.keys, w = 0 := by
      intro w hw
      rw [hR, Acc.enforce_keys hDf hwf1, hk1] at hw
      rcases hw with hw | ⟨_, hw⟩
      · exact hkeys0 w hw
      · rw [hrun.frame0 hmod] at hw
        simpa using hw
    refine ⟨⟨?_, ?_, ?_⟩, h0, fun _ => hall0⟩
    · intro w hw
      right
      exact lookup_isSome_iff.2 ((hworlds w).2 hw)
    · intro w _ w' hw'
      exact (hwf' _ (Acc.mem_succ.1 hw')).2
    · intro he w hw
      rw [hR] at hw ⊢
      apply Acc.enforce_total _ hwf1 (Acc.enforce_flag _ hwf1) w hw
      unfold LogicData.emptyAccessOk at he
      cases hk : L.frame <;> simp [hk] at he <;> simp

/-- the first constant of a model that has one, as the default element of the domain -/
def dom0 {m : Model} (hc : m.consts ≠ []) : Dom m := ⟨m.consts.head hc, List.head_mem hc⟩

end Ptx.LibModel
