/-
  Ptx.Proofs.LibModelOrderEval — the order of successful calls does not matter, part 3:
  `enforce()` and the non-classical `finish()` respect sameness of content, and finished models with
  the same content evaluate alike (`valueOf`), on the sentences of `C08_eval_is_spec`.
-/
import Ptx.Proofs.LibModelOrderFin
namespace Ptx.LibModel
open Ptx

/-! ### enforce -/

/-- `enforce()` of every Access class but the serial one is a function of the SET of keys and pairs -/
theorem Acc.enforce_set_congr {k : FrameKind} (hk : k ≠ .D) {R₁ R₂ : Acc} (h₁ : R₁.WF) (h₂ : R₂.WF)
    (hkeys : ∀ w, w ∈ R₁.keys ↔ w ∈ R₂.keys) (hpairs : ∀ p, p ∈ R₁.pairs ↔ p ∈ R₂.pairs) :
    (∀ w, w ∈ (Acc.enforce k R₁).1.keys ↔ w ∈ (Acc.enforce k R₂).1.keys) ∧
    (∀ p, p ∈ (Acc.enforce k R₁).1.pairs ↔ p ∈ (Acc.enforce k R₂).1.pairs) := by
  refine ⟨fun w => by rw [Acc.enforce_keys hk h₁, Acc.enforce_keys hk h₂]; exact hkeys w, ?_⟩
  by_cases hr : Frames.isRefl k = true
  · exact Acc.enforce_congr hr h₁ h₂ hkeys hpairs (Acc.enforce_flag k h₁) (Acc.enforce_flag k h₂)
  · have hk' : k = .none ∨ k = .K := by
      cases k <;> simp [Frames.isRefl] at hr hk ⊢
    rcases hk' with rfl | rfl <;> exact hpairs

theorem completeFrames_WF {L : LogicData} {m m' : Model} (hwf : m.R.WF) (h : completeFrames L m = .ok m') : m'.R.WF := by
  cases hfc : m.frameComplete with
  | true =>
    unfold completeFrames at h
    simp only [hfc, ↓reduceIte, Except.ok.injEq] at h
    subst h; exact hwf
  | false =>
    obtain ⟨k1, k2, k3⟩ := completeFrames_keys h hfc
    intro p hp
    rw [k3] at hp
    have := hwf p hp
    rw [k2, k1, k2, k1]
    exact ⟨Or.inr this.1, Or.inr this.2⟩

theorem completeFrames_error {L : LogicData} {m : Model} {e : Err} (h : completeFrames L m = .error e) : e = .key := by
  unfold completeFrames at h
  split at h
  · cases h
  split at h
  · cases h; rfl
  · cases h

/-! ### finish (non-classical family) -/

/-- `finish()` of a logic outside the classical family (Access class not the serial one): models with the
    same content either both raise the same exception or finish to models with the same content -/
theorem finish_eqv {L : LogicData} (hncl : isClassical L = false) (hD : L.frame ≠ .D) (h₁ h₂ : Hints)
    {m₁ m₂ : Model} (heq : m₁.Eqv m₂) (hFK₁ : m₁.FK) (hFK₂ : m₂.FK) (hwf₁ : m₁.R.WF) (hwf₂ : m₂.R.WF) :
    (finish L h₁ m₁).2 = (finish L h₂ m₂).2 ∧
    ((finish L h₁ m₁).2 = none → (finish L h₁ m₁).1.Eqv (finish L h₂ m₂).1) := by
  unfold finish finishX
  have hf := heq.finished
  cases hfin : m₁.finished with
  | true =>
    have hfin₂ : m₂.finished = true := hf ▸ hfin
    simp [hfin₂]
  | false =>
    have hfin₂ : m₂.finished = false := hf ▸ hfin
    simp only [hfin₂, Bool.false_eq_true, ↓reduceIte, hncl]
    cases hc₁ : completeFrames L m₁ with
    | error e =>
      cases hc₂ : completeFrames L m₂ with
      | error e' =>
        simp only [completeFrames_error hc₁, completeFrames_error hc₂, reduceCtorEq, false_implies, and_self]
      | ok m₂' =>
        obtain ⟨m₁', h', _⟩ := completeFrames_eqv heq.symm hFK₂ hFK₁ hc₂
        rw [hc₁] at h'; cases h'
    | ok m₁' =>
      obtain ⟨m₂', hc₂, heq'⟩ := completeFrames_eqv heq hFK₁ hFK₂ hc₁
      simp only [hc₂, finishBase, true_and, forall_const]
      have w₁ := completeFrames_WF hwf₁ hc₁
      have w₂ := completeFrames_WF hwf₂ hc₂
      obtain ⟨ek, ep⟩ := Acc.enforce_set_congr hD w₁ w₂ (fun w => heq'.has (.key w)) (fun p => heq'.has (.pair p))
      refine ⟨rfl, heq'.frameComplete, ?_⟩
      intro φ
      cases φ with
      | key w => exact ek w
      | pair p => exact ep p
      | frame w => exact heq'.has (.frame w)
      | «at» w ψ => exact heq'.has (.at w ψ)
      | const c => exact heq'.has (.const c)
      | sAtom a => exact heq'.has (.sAtom a)
      | sPred p => exact heq'.has (.sPred p)

/-! ### evaluation -/

theorem tupIn_congr {cs cs' : List (Nat × Nat)} (h : ∀ c, c ∈ cs ↔ c ∈ cs') (ps : Tup) : tupIn cs ps = tupIn cs' ps := by
  rw [Bool.eq_iff_iff]
  simp only [tupIn, List.all_eq_true]
  constructor <;> intro hh x hx <;> have := hh x hx <;> cases x with
  | var _ _ => simp at this
  | const i j =>
    simp only [List.contains_iff_mem] at this ⊢
    first | exact (h _).1 this | exact (h _).2 this

theorem progSide_q {L : LogicData} (h : foldProgramsOKB L = true) (hq : L.quantified = true) (q : Quant) :
    progSideB L.T ((progsOf L).q q) (quantUp q) = true := by
  simp only [foldProgramsOKB, hq, Bool.not_true, Bool.false_or, Bool.and_eq_true, List.all_eq_true] at h
  exact (h.1 q (by cases q <;> simp [Quant.all])).1

theorem progSide_m {L : LogicData} (h : foldProgramsOKB L = true) (hm : L.modal = true) (o : Op1)
    (ho : o = .poss ∨ o = .nec) : progSideB L.T ((progsOf L).m o) (modalUp o) = true := by
  simp only [foldProgramsOKB, hm, Bool.not_true, Bool.false_or, Bool.and_eq_true, List.all_eq_true] at h
  exact (h.2 o (by rcases ho with rfl | rfl <;> simp)).1

/-- finished models with the same content give every sentence of `C08_eval_is_spec` the same value -/
theorem valueOfF_congr (L : LogicData) (hOK : foldProgramsOKB L = true) (hT : L.tablesTotalB = true)
    (m₁ m₂ : Model) (heq : m₁.Eqv m₂) (hfin : m₁.finished = true) (hvals : m₁.ValsOK L) (c0 : Dom m₁)
    (S : Nat → Prop) (hS : WorldsOK L m₁ S) :
    ∀ (fuel : Nat) (s : Sent), s.size ≤ fuel → okIn L m₁.consts [] s = true → ∀ w, S w →
      valueOfF L m₂ fuel s w = valueOfF L m₁ fuel s w := by
  have hfin₂ : m₂.finished = true := heq.finished ▸ hfin
  have hspec := valueOfF_eq_eval L hOK hT m₁ hfin hvals c0 S hS
  intro fuel
  induction fuel with
  | zero => intro s hs; have := s.size_pos; omega
  | succ fuel ih =>
    intro s hs hok w hw
    have hop := okIn_notOpaque L _ _ s hok
    have hfr₁ := frameOf_ok (hS.frame w hw)
    have hfr₂ : frameOf L m₂ w = .ok (frameD m₂ w) := by
      apply frameOf_ok
      rcases hS.frame w hw with h | h
      · exact Or.inl h
      · right
        obtain ⟨f, hf⟩ := Option.isSome_iff_exists.1 h
        have : w ∈ akeys m₂.frames := (heq.has (.frame w)).1 (mem_akeys_of_lookup hf)
        obtain ⟨g, hg⟩ := mem_akeys_iff_lookup.1 this
        rw [hg]; rfl
    unfold valueOfF
    simp only [hfin, hfin₂, Bool.not_true, Bool.false_eq_true, ↓reduceIte, hop]
    cases s with
    | atom i j =>
      have e : (frameD m₂ w).atomics.lookup (i, j) = (frameD m₁ w).atomics.lookup (i, j) :=
        opt_ext fun v => (heq.has (.at w (.atom (i, j) v))).symm
      simp only [hfr₁, hfr₂, Except.map, e]
    | pred p ps =>
      have htc := okIn_tupInConsts hok
      have htc₂ : tupInConsts m₂ ps = true := by
        unfold tupInConsts at htc ⊢
        rw [← tupIn_congr (fun c => heq.has (.const c))]; exact htc
      have e : ((frameD m₂ w).interp p).lookup ps = ((frameD m₁ w).interp p).lookup ps :=
        opt_ext fun v => (heq.has (.at w (.pred p ps v))).symm
      simp only [htc, htc₂, Bool.not_true, Bool.false_eq_true, ↓reduceIte, hfr₁, hfr₂, Except.map, e]
    | quant q vi vs b =>
      simp only [okIn, Bool.and_eq_true, Bool.not_eq_true'] at hok
      obtain ⟨⟨hq, _⟩, hb⟩ := hok
      simp only [Sent.size] at hs
      let g : Nat × Nat → V := fun c =>
        eval L (toStruct L m₁ c0) (envOf L m₁ c0) w (b.psubst (.const c.1 c.2) (.var vi vs))
      have hinst : ∀ c ∈ m₁.consts,
          valueOfF L m₁ fuel (b.psubst (.const c.1 c.2) (.var vi vs)) w = .ok (g c) ∧ g c ∈ L.T.vals := fun c hcm =>
        hspec fuel _ (by rw [size_psubst]; omega) (okIn_psubst L m₁.consts (vi, vs) c hcm b [] [] hb) w hw
      have hinst₂ : ∀ c ∈ m₂.consts, valueOfF L m₂ fuel (b.psubst (.const c.1 c.2) (.var vi vs)) w = .ok (g c) := by
        intro c hcm
        have hcm₁ : c ∈ m₁.consts := (heq.has (.const c)).2 hcm
        rw [ih _ (by rw [size_psubst]; omega) (okIn_psubst L m₁.consts (vi, vs) c hcm₁ b [] [] hb) w hw]
        exact (hinst c hcm₁).1
      have hl₁ : (m₁.consts.map fun c => valueOfF L m₁ fuel (b.psubst (.const c.1 c.2) (.var vi vs)) w)
          = (m₁.consts.map g).map .ok := map_ok_congr fun c hcm => (hinst c hcm).1
      have hl₂ : (m₂.consts.map fun c => valueOfF L m₂ fuel (b.psubst (.const c.1 c.2) (.var vi vs)) w)
          = (m₂.consts.map g).map .ok := map_ok_congr hinst₂
      dsimp only
      rw [hl₁, hl₂]
      unfold foldQR
      rw [runProgR_ok, runProgR_ok]
      congr 1
      apply runProgV_setLike L.T _ _ (progSide_q hOK hq q)
      · intro x hx; obtain ⟨c, hcm, rfl⟩ := List.mem_map.1 hx; exact (hinst c ((heq.has (.const c)).2 hcm)).2
      · intro x hx; obtain ⟨c, hcm, rfl⟩ := List.mem_map.1 hx; exact (hinst c hcm).2
      · intro v
        simp only [List.mem_map]
        constructor
        · rintro ⟨c, hcm, rfl⟩; exact ⟨c, (heq.has (.const c)).2 hcm, rfl⟩
        · rintro ⟨c, hcm, rfl⟩; exact ⟨c, (heq.has (.const c)).1 hcm, rfl⟩
    | op1 o a =>
      simp only [okIn, Bool.and_eq_true, Bool.or_eq_true, Bool.not_eq_true'] at hok
      obtain ⟨hmo, ha⟩ := hok
      simp only [Sent.size] at hs
      by_cases hmod : o.isModal = true
      · have hm : L.modal = true := by
          rcases hmo with h | h
          · rw [hmod] at h; cases h
          · exact h
        simp only [hmod, ↓reduceIte]
        let g : Nat → V := fun w2 => eval L (toStruct L m₁ c0) (envOf L m₁ c0) w2 a
        have hsucc : ∀ w2, w2 ∈ m₂.R.succ w ↔ w2 ∈ m₁.R.succ w := by
          intro w2; rw [Acc.mem_succ, Acc.mem_succ]; exact (heq.has (.pair (w, w2))).symm
        have hinst : ∀ w2 ∈ m₁.R.succ w, valueOfF L m₁ fuel a w2 = .ok (g w2) ∧ g w2 ∈ L.T.vals :=
          fun w2 h2 => hspec fuel a (by omega) ha w2 (hS.succ w hw w2 h2)
        have hinst₂ : ∀ w2 ∈ m₂.R.succ w, valueOfF L m₂ fuel a w2 = .ok (g w2) := by
          intro w2 h2
          have h2' := (hsucc w2).1 h2
          rw [ih a (by omega) ha w2 (hS.succ w hw w2 h2')]
          exact (hinst w2 h2').1
        have hl₁ : ((m₁.R.succ w).map fun w2 => valueOfF L m₁ fuel a w2) = ((m₁.R.succ w).map g).map .ok :=
          map_ok_congr fun w2 h2 => (hinst w2 h2).1
        have hl₂ : ((m₂.R.succ w).map fun w2 => valueOfF L m₂ fuel a w2) = ((m₂.R.succ w).map g).map .ok :=
          map_ok_congr hinst₂
        rw [hl₁, hl₂]
        unfold foldMR
        rw [runProgR_ok, runProgR_ok]
        congr 1
        apply runProgV_setLike L.T _ _ (progSide_m hOK hm o (Op1.modal_cases hmod))
        · intro x hx; obtain ⟨w2, h2, rfl⟩ := List.mem_map.1 hx; exact (hinst w2 ((hsucc w2).1 h2)).2
        · intro x hx; obtain ⟨w2, h2, rfl⟩ := List.mem_map.1 hx; exact (hinst w2 h2).2
        · intro v
          simp only [List.mem_map]
          constructor
          · rintro ⟨w2, h2, rfl⟩; exact ⟨w2, (hsucc w2).1 h2, rfl⟩
          · rintro ⟨w2, h2, rfl⟩; exact ⟨w2, (hsucc w2).2 h2, rfl⟩
      · have hmod' : o.isModal = false := by simpa using hmod
        simp only [hmod', Bool.false_eq_true, ↓reduceIte]
        rw [ih a (by omega) ha w hw]
    | op2 o a b =>
      simp only [okIn, Bool.and_eq_true] at hok
      simp only [Sent.size] at hs
      simp only [ih a (by omega) hok.1 w hw, ih b (by omega) hok.2 w hw]

/-- uninterpreted sentences likewise -/
theorem valueOf_opaque_congr {L : LogicData} {m₁ m₂ : Model} (heq : m₁.Eqv m₂) (hfin : m₁.finished = true) {w : Nat}
    (hw : L.modal = true ∨ (m₁.frames.lookup w).isSome = true) {s : Sent} (hs : isOpaque L s = true) :
    valueOf L m₂ s w = valueOf L m₁ s w := by
  have hfin₂ : m₂.finished = true := heq.finished ▸ hfin
  have hw₂ : L.modal = true ∨ (m₂.frames.lookup w).isSome = true := by
    rcases hw with h | h
    · exact Or.inl h
    · right
      obtain ⟨f, hf⟩ := Option.isSome_iff_exists.1 h
      have : w ∈ akeys m₂.frames := (heq.has (.frame w)).1 (mem_akeys_of_lookup hf)
      obtain ⟨g, hg⟩ := mem_akeys_iff_lookup.1 this
      rw [hg]; rfl
  rw [valueOf_opaque hfin hw hs, valueOf_opaque hfin₂ hw₂ hs]
  have e : (frameD m₂ w).opaques.lookup s = (frameD m₁ w).opaques.lookup s :=
    opt_ext fun v => (heq.has (.at w (.opq s v))).symm
  rw [e]

/-! ### programs -/

/-- the value-setting / `R.add` calls do not look at the hash-order hints -/
theorem run_hints {L : LogicData} (h₁ h₂ : Hints) : ∀ (ops : List MOp) (m : Model), (∀ op ∈ ops, op.prim = true) →
    run L h₁ m ops = run L h₂ m ops
  | [], _, _ => rfl
  | op :: ops, m, hp => by
      have hs : step L h₁ m op = step L h₂ m op := by
        have := hp op List.mem_cons_self
        cases op <;> simp [MOp.prim] at this <;> rfl
      simp only [run, hs]
      rw [run_hints h₁ h₂ ops _ fun o ho => hp o (List.mem_cons_of_mem _ ho)]

/-- the access relation of a program of successful value-setting / `R.add` calls relates keys -/
theorem run_prim_WF {L : LogicData} {hints : Hints} {ops : List MOp} (hprim : ∀ op ∈ ops, op.prim = true)
    (hok : ∀ e ∈ (run L hints Model.init ops).2, e = none) : (run L hints Model.init ops).1.R.WF := by
  obtain ⟨hh, _, _⟩ := run_has ops Model.init hprim hok
  intro p hp
  rcases (hh (.pair p)).1 hp with h | ⟨op, ho, h⟩
  · simp [Model.has, Model.init] at h
  · cases op with
    | rAdd a b =>
      simp only [MOp.gives, reduceCtorEq, Fact.pair.injEq, false_or] at h
      subst h
      exact ⟨(hh (.key a)).2 (Or.inr ⟨_, ho, Or.inl rfl⟩), (hh (.key b)).2 (Or.inr ⟨_, ho, Or.inr (Or.inl rfl)⟩)⟩
    | setAtomic i j v w => simp [MOp.gives, Contrib.gives] at h
    | setPred p' ps v w => simp [MOp.gives, Contrib.gives] at h
    | setOpaque s' v w => simp [MOp.gives, Contrib.gives] at h
    | setLiteral _ _ _ => simp [MOp.gives] at h
    | setValue _ _ _ => simp [MOp.gives] at h
    | finish => simp [MOp.gives] at h

/-- ORDER INDEPENDENCE outside the classical family: two programs of value-setting / `R.add` calls that
    are permutations of one another, none of whose calls raises, followed by `finish()`: either both
    `finish()` calls raise the same exception, or the finished models have the same content -/
theorem order_independent {L : LogicData} (hncl : isClassical L = false) (hD : L.frame ≠ .D) (h₁ h₂ : Hints)
    {ops₁ ops₂ : List MOp} (hperm : ops₁.Perm ops₂) (hprim : ∀ op ∈ ops₁, op.prim = true)
    (hok₁ : ∀ e ∈ (run L h₁ Model.init ops₁).2, e = none) (hok₂ : ∀ e ∈ (run L h₂ Model.init ops₂).2, e = none) :
    (finish L h₁ (run L h₁ Model.init ops₁).1).2 = (finish L h₂ (run L h₂ Model.init ops₂).1).2 ∧
    ((finish L h₁ (run L h₁ Model.init ops₁).1).2 = none →
      (finish L h₁ (run L h₁ Model.init ops₁).1).1.Eqv (finish L h₂ (run L h₂ Model.init ops₂).1).1) := by
  have hprim₂ : ∀ op ∈ ops₂, op.prim = true := fun op ho => hprim op (hperm.mem_iff.2 ho)
  have hok₂' : ∀ e ∈ (run L h₁ Model.init ops₂).2, e = none := by rw [run_hints h₁ h₂ ops₂ _ hprim₂]; exact hok₂
  have heq := run_perm_eqv (hints := h₁) Model.init hperm hprim hok₁ hok₂'
  rw [run_hints h₁ h₂ ops₂ _ hprim₂] at heq
  exact finish_eqv hncl hD h₁ h₂ heq (run_FK h₁ ops₁ _ init_FK) (run_FK h₂ ops₂ _ init_FK)
    (run_prim_WF hprim hok₁) (run_prim_WF hprim₂ hok₂)

end Ptx.LibModel
