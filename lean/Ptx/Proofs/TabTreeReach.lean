/-
  Ptx.Proofs.TabTreeReach — what one step does to the observable state (branches only grow, a closed
  branch is never extended, the step is recorded once, earlier records stay), the invariants along
  every derivation from the trunk, and the statistics.
-/
import Ptx.Proofs.TabTreeIds
import Ptx.Proofs.TabTreeCounts
namespace Ptx
namespace TabTree

variable {L : LogicData} {arg : Argument}

/-- `Book.step` answers `.ok` only as the record of the calculus step -/
theorem step_eq_record {bk bk' : Book} {s : Step} (h : bk.step L s = .ok bk') :
    ∃ t' old new r, applyStep L bk.tab s = some t' ∧ bk.tab[s.branch]? = some old ∧ t'[s.branch]? = some new ∧
      bk.recs[s.branch]? = some r ∧ bk' = bk.record s s.branch old r new t' := by
  unfold Book.step at h
  split at h
  · cases h
  · next t' ht' =>
    split at h
    · next old new r h1 h2 h3 =>
      split at h
      · cases h
      · split at h
        · cases h
        · cases h; exact ⟨t', old, new, r, ht', h1, h2, h3, rfl⟩
    · cases h

/-- the transition clauses of the property, for one step -/
structure Grows (bk : Book) (s : Step) (bk' : Book) : Prop where
  /-- the step is recorded once, at the end of the history, as the step that was applied -/
  history : bk'.history = bk.history ++ [s]
  /-- the target branch was on the tableau and open -/
  target_open : ∃ old, bk.tab[s.branch]? = some old ∧ old.closed = false
  /-- branches only grow: the old branches keep their places, their nodes stay as an initial segment,
      and only the target branch changes -/
  grow : ∀ (j : Nat) (b : Branch), bk.tab[j]? = some b → ∃ b', bk'.tab[j]? = some b' ∧ b.nodes <+: b'.nodes ∧ (j ≠ s.branch → b' = b)
  /-- a closed branch is never extended (nor anything else about it changed) -/
  closed_kept : ∀ (j : Nat) (b : Branch), bk.tab[j]? = some b → b.closed = true → bk'.tab[j]? = some b
  /-- every branch created by the step has the target as parent and extends the target's nodes -/
  new_branch : ∀ (j : Nat) (c : Branch), bk.tab.length ≤ j → bk'.tab[j]? = some c →
      c.parent = some s.branch ∧ ∃ old, bk.tab[s.branch]? = some old ∧ old.nodes <+: c.nodes

theorem step_grows {bk bk' : Book} {s : Step} (h : bk.step L s = .ok bk') : Grows bk s bk' := by
  obtain ⟨t', old', new, r, hs, hold', hnew, hr, rfl⟩ := step_eq_record h
  obtain ⟨sh, _⟩ := shape_of_applyStep hs
  obtain ⟨old, g0, gs, tk, hold, hopen, ht', _⟩ := sh
  have hi : s.branch < bk.tab.length := (List.getElem?_eq_some_iff.1 hold).1
  have htab : (bk.record s s.branch old' r new t').tab = bk.tab.set s.branch (old.extend g0 tk) ++ gs.map (child old s.branch tk) := ht'
  refine { history := rfl, target_open := ⟨old, hold, hopen⟩, grow := ?_, closed_kept := ?_, new_branch := ?_ }
  · intro j b hb
    have hj : j < bk.tab.length := (List.getElem?_eq_some_iff.1 hb).1
    by_cases e : j = s.branch
    · subst e
      rw [hold] at hb; cases hb
      exact ⟨_, by rw [htab, tab_get_i hi], by simp, fun h => (h rfl).elim⟩
    · exact ⟨b, by rw [htab, tab_get_old hj e]; exact hb, List.prefix_refl _, fun _ => rfl⟩
  · intro j b hb hc
    have hj : j < bk.tab.length := (List.getElem?_eq_some_iff.1 hb).1
    have e : j ≠ s.branch := by
      intro e; subst e
      rw [hold] at hb; cases hb
      rw [hopen] at hc; cases hc
    rw [htab, tab_get_old hj e]; exact hb
  · intro j c hj hc
    obtain ⟨k, rfl⟩ : ∃ k, j = bk.tab.length + k := ⟨j - bk.tab.length, by omega⟩
    rw [htab, tab_get_kid] at hc
    simp only [List.getElem?_map, Option.map_eq_some_iff] at hc
    obtain ⟨g, _, rfl⟩ := hc
    exact ⟨rfl, old, hold, by simp⟩

/-- what was recorded earlier stays as it was -/
theorem step_records {bk bk' : Book} {s : Step} (hinv : TabInv L arg bk) (h : bk.step L s = .ok bk') :
    ∀ (j : Nat) (r : BRec), bk.recs[j]? = some r → ∃ r' : BRec, bk'.recs[j]? = some r' ∧ r.objs <+: r'.objs ∧ r.ticks <+: r'.ticks ∧
      r'.stepAdded = r.stepAdded ∧ r'.parent = r.parent ∧ r'.inherited = r.inherited ∧
      (∀ c, r.stepClosed = some c → r'.stepClosed = some c) := by
  obtain ⟨t', old, new, r0, hs, hold, hnew, hr0, rfl⟩ := step_eq_record h
  intro j r hr
  have hj : j < bk.recs.length := (List.getElem?_eq_some_iff.1 hr).1
  by_cases e : j = s.branch
  · subst e
    rw [hr0] at hr; cases hr
    refine ⟨r0.grow bk.currentStep s.branch old new, ?_, by simp [BRec.grow], by simp [BRec.grow], rfl, rfl, rfl, ?_⟩
    · simp only [Book.record]
      rw [List.getElem?_append_left (by simpa using hj), List.getElem?_set_self hj]
    · intro c hc
      -- the target was open, so nothing had been recorded
      have hopen : old.closed = false := by
        unfold applyStep at hs
        rw [hold] at hs
        simp only at hs
        split at hs
        · cases hs
        · next hc' => simpa using hc'
      have := (hinv.branch _ old r0 hold hr0).closed_iff
      rw [hopen, hc] at this; cases this
  · refine ⟨r, ?_, List.prefix_refl _, List.prefix_refl _, rfl, rfl, rfl, fun _ h => h⟩
    simp only [Book.record]
    rw [List.getElem?_append_left (by simpa using hj), List.getElem?_set_ne (Ne.symm e)]
    exact hr

/-! ### along a run -/

theorem reach_inv {bk bk' : Book} {ss : List Step} (hinv : TabInv L arg bk) (hr : Book.Reach L bk ss bk') :
    TabInv L arg bk' ∧ bk'.history = bk.history ++ ss ∧ replay L bk.tab ss = some bk'.tab := by
  induction hr with
  | refl bk => exact ⟨hinv, by simp, rfl⟩
  | @step bk bk1 bk2 s ss hs _ ih =>
    have hcal := step_tab hs
    obtain ⟨bk1', h1, _, hh, hinv1⟩ := step_ok hinv hcal
    rw [hs] at h1; cases h1
    obtain ⟨a, b, c⟩ := ih hinv1
    refine ⟨a, by rw [b, hh]; simp, ?_⟩
    simp only [replay, hcal, Option.bind_some]; exact c

theorem reach_idinv {bk bk' : Book} {ss : List Step} (hne : L.addsNonempty = true) (hinv : TabInv L arg bk)
    (hid : IdInv bk) (hr : Book.Reach L bk ss bk') : IdInv bk' := by
  induction hr with
  | refl bk => exact hid
  | @step bk bk1 bk2 s ss hs _ ih =>
    have hcal := step_tab hs
    obtain ⟨bk1', h1, _, _, hinv1⟩ := step_ok hinv hcal
    rw [hs] at h1; cases h1
    apply ih hinv1
    obtain ⟨t', old', new, r, hs', hold', hnew, hr', rfl⟩ := step_eq_record hs
    obtain ⟨sh, hsne⟩ := shape_of_applyStep hs'
    obtain ⟨old, g0, gs, tk, hold, hopen, ht', hclos⟩ := sh
    have hi : s.branch < bk.tab.length := (List.getElem?_eq_some_iff.1 hold).1
    have e : old' = old := by rw [hold] at hold'; exact (Option.some.inj hold').symm
    subst e
    have : new = old'.extend g0 tk := by
      rw [ht', tab_get_i hi] at hnew; exact (Option.some.inj hnew).symm
    subst this
    rw [ht']
    exact record_idinv hinv hid hold hr' (hsne hne)

/-- every derivation of the calculus is a run of the book: the listeners never get in the way -/
theorem run_of_replay : ∀ (ss : List Step) (bk : Book) (t' : Tableau), TabInv L arg bk → replay L bk.tab ss = some t' →
    ∃ bk', Book.Reach L bk ss bk' ∧ bk'.tab = t'
  | [], bk, t', _, h => by
      simp only [replay, Option.some.injEq] at h
      exact ⟨bk, .refl bk, h⟩
  | s :: ss, bk, t', hinv, h => by
      simp only [replay] at h
      cases hs : applyStep L bk.tab s with
      | none => simp [hs] at h
      | some t1 =>
        simp only [hs, Option.bind_some] at h
        obtain ⟨bk1, h1, htab, _, hinv1⟩ := step_ok hinv hs
        subst htab
        obtain ⟨bk', hr, ht⟩ := run_of_replay ss bk1 t' hinv1 h
        exact ⟨bk', .step h1 hr, ht⟩

theorem reach_of_run : ∀ (ss : List Step) (bk bk' : Book), (Book.run L bk ss).book? = some bk' → Book.Reach L bk ss bk'
  | [], bk, bk', h => by
      simp only [Book.run, StepOut.book?, Option.some.injEq] at h
      subst h; exact .refl _
  | s :: ss, bk, bk', h => by
      simp only [Book.run] at h
      cases hs : bk.step L s with
      | ok bk1 => simp only [hs] at h; exact .step hs (reach_of_run ss bk1 bk' h)
      | illegal => simp [hs, StepOut.book?] at h
      | raises w => simp [hs, StepOut.book?] at h
      | broken => simp [hs, StepOut.book?] at h

theorem replay_of_deriv : ∀ {t t' : Tableau}, Deriv L t t' → ∃ ss, replay L t ss = some t' := by
  intro t t' h
  induction h with
  | refl t => exact ⟨[], rfl⟩
  | step s hs _ ih =>
    obtain ⟨ss, hss⟩ := ih
    exact ⟨s :: ss, by simp [replay, hs, hss]⟩

/-! ### statistics -/

theorem unclosed_length_aux : ∀ (t pre : List Branch),
    ((List.range' pre.length t.length).filter (Book.isOpenAt (pre ++ t))).length = (t.filter (fun b => !b.closed)).length
  | [], pre => by simp
  | b :: t, pre => by
      have ih := unclosed_length_aux t (pre ++ [b])
      simp only [List.length_append, List.length_singleton, List.append_assoc, List.singleton_append] at ih
      simp only [List.length_cons, List.range'_succ, List.filter_cons]
      have h0 : Book.isOpenAt (pre ++ b :: t) pre.length = !b.closed := by
        simp [Book.isOpenAt]
      rw [h0]
      cases hb : b.closed <;> simp [ih]

theorem unclosed_length (bk : Book) : bk.unclosed.length = (bk.tab.filter (fun b => !b.closed)).length := by
  have := unclosed_length_aux bk.tab []
  simpa [Book.unclosed] using this

theorem filter_length_split {α} (p : α → Bool) (l : List α) :
    (l.filter p).length + (l.filter (fun x => !p x)).length = l.length := by
  have := (List.filter_append_perm p l).length_eq
  simpa using this

end TabTree
end Ptx
