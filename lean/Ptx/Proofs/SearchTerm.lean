/-
  Ptx.Proofs.SearchTerm — termination of the search model on propositional arguments: every run is a `replayFresh` run
  (it never re-applies a rule to a ticked node, takes no quit-flag step and — in a logic without access rules — no frame
  step), hence its number of rule applications is bounded by `termBound` (C03).
-/
import Ptx.Proofs.SearchApply
import Ptx.Proofs.Terminate
namespace Ptx.Search
open Ptx

/-- the kind of step a rule's targets are -/
theorem target_kind {L : LogicData} {s : SState} {r : RuleId} {bi : Nat} {st : Step} (hm : st ∈ targets L s r bi) :
    match r with
    | .closure => (∃ sn w, st = .close bi sn w) ∨ (∃ n, st = .closeIdent bi n)
    | .table k => (∃ n c wo, st = .rule bi n c wo) ∨
        (∃ rl tick i, st = .quit bi "quit" tick ∧ L.rule? k = some rl ∧ rl.witness ≠ .none ∧ i ∈ s.live (.table k) bi)
    | .frame fr => L.frameAllowed fr = true ∧ ∃ w1 w2 w3, st = .frame bi fr w1 w2 w3
    | .ident => ∃ i j, st = .ident bi i j := by
  obtain ⟨b, hh, hb, hhs, ho, hmem⟩ := mem_targets hm
  cases r with
  | ident =>
    obtain ⟨_, i0, j0, _, _, _, he, _⟩ := ident_targets_shape hmem
    exact ⟨i0, j0, he⟩
  | closure =>
    simp only at hmem ⊢
    cases hc : hh.closeT with
    | none => simp [hc] at hmem
    | some t =>
      simp only [hc, Option.map_some, Option.toList_some, List.mem_singleton] at hmem
      subst hmem
      cases t with
      | lits sn w => exact Or.inl ⟨sn, w, rfl⟩
      | ident n => exact Or.inr ⟨n, rfl⟩
  | frame fr =>
    simp only [frameTargets] at hmem ⊢
    split at hmem
    · cases hmem
    next hcond =>
    have hfa : L.frameAllowed fr = true := by
      simp only [Bool.or_eq_true, Bool.not_eq_eq_eq_not, Bool.not_true, not_or, Bool.not_eq_false] at hcond
      exact hcond.1
    refine ⟨hfa, ?_⟩
    cases fr <;> simp only [List.mem_flatMap, List.mem_map] at hmem
    · obtain ⟨i, _, hx⟩ := hmem
      split at hx
      · obtain ⟨w, _, he⟩ := List.mem_map.1 hx; exact ⟨_, _, _, he.symm⟩
      · cases hx
    · obtain ⟨i, _, hx⟩ := hmem
      split at hx
      · obtain ⟨e, _, he⟩ := List.mem_map.1 hx; exact ⟨_, _, _, he.symm⟩
      · cases hx
    · obtain ⟨i, _, hx⟩ := hmem
      split at hx
      · split at hx
        · cases hx
        · simp only [List.mem_singleton] at hx; exact ⟨_, _, _, hx⟩
      · cases hx
    · obtain ⟨w, _, he⟩ := hmem; exact ⟨_, _, _, he.symm⟩
  | table k =>
    simp only [tableTargets] at hmem ⊢
    split at hmem
    · cases hmem
    next rl hrl =>
    have key : ∀ l : List Nat, (∀ i ∈ l, i ∈ s.live (.table k) bi) → rl.witness ≠ .none →
        st ∈ flagTargets bi rl (hh.quit k) l →
        ∃ rl' tick i, st = .quit bi "quit" tick ∧ L.rule? k = some rl' ∧ rl'.witness ≠ .none ∧ i ∈ s.live (.table k) bi := by
      intro l hl hw hf
      unfold flagTargets at hf
      split at hf
      · cases hf
      · obtain ⟨i, hi, he⟩ := List.mem_map.1 hf
        exact ⟨rl, _, i, he.symm, hrl, hw, hl i hi⟩
    split at hmem
    · obtain ⟨i, _, he⟩ := List.mem_map.1 hmem; exact Or.inl ⟨_, _, _, he.symm⟩
    · next hw =>
      split at hmem
      · exact Or.inr (key _ (fun _ h => h) (by simp [hw]) hmem)
      · obtain ⟨i, _, he⟩ := List.mem_map.1 hmem; exact Or.inl ⟨_, _, _, he.symm⟩
    · next hw =>
      split at hmem
      · exact Or.inr (key _ (fun _ h => h) (by simp [hw]) hmem)
      · obtain ⟨i, _, hx⟩ := List.mem_flatMap.1 hmem
        split at hx
        · split at hx
          · obtain ⟨w2, _, he⟩ := List.mem_map.1 hx; exact Or.inl ⟨_, _, _, he.symm⟩
          · cases hx
        · cases hx
    · next hw =>
      obtain ⟨i, hi, hx⟩ := List.mem_flatMap.1 hmem
      split at hx
      · split at hx
        · exact Or.inr (key [i] (fun j hj => by simp at hj; exact hj ▸ hi) (by simp [hw]) hx)
        · simp only [List.mem_singleton] at hx; exact Or.inl ⟨_, _, _, hx⟩
      · cases hx
    · next hw =>
      obtain ⟨i, hi, hx⟩ := List.mem_flatMap.1 hmem
      split at hx
      · split at hx
        · exact Or.inr (key [i] (fun j hj => by simp at hj; exact hj ▸ hi) (by simp [hw]) hx)
        · split at hx
          · cases hx
          · split at hx
            · obtain ⟨c0, _, he⟩ := List.mem_map.1 hx; exact Or.inl ⟨_, _, _, he.symm⟩
            · split at hx
              · split at hx
                · cases hx
                · simp only [List.mem_singleton] at hx; exact Or.inl ⟨_, _, _, hx⟩
              · cases hx
      · cases hx

theorem replayFresh_snoc {L : LogicData} : ∀ (ss : List Step) {t t1 t2 : Tableau} {st : Step},
    replayFresh L t ss = some t1 → st.freshOn t1 = true → applyStep L t1 st = some t2 →
    replayFresh L t (ss ++ [st]) = some t2
  | [], t, t1, t2, st, h, hf, hs => by
      simp only [replayFresh, Option.some.injEq] at h
      subst h
      simp [replayFresh, hf, hs]
  | s0 :: ss, t, t1, t2, st, h, hf, hs => by
      simp only [replayFresh, List.cons_append] at h ⊢
      split at h
      · next hf0 =>
        simp only [hf0, ↓reduceIte]
        cases h0 : applyStep L t s0 with
        | none => simp [h0] at h
        | some t0 =>
          simp only [h0, Option.bind_some] at h ⊢
          exact replayFresh_snoc ss h hf hs
      · cases h

/-- states reachable with exactly `n` rule applications (search events do not count) -/
inductive ReachN (L : LogicData) (arg : Argument) : Nat → SState → Prop
  | init (b : Branch) (hb : b ∈ trunk L arg) : ReachN L arg 0 (SState.init L b.nodes)
  | search {n : Nat} {s : SState} (r : RuleId) (bi : Nat) : ReachN L arg n s → ReachN L arg n (s.search L r bi)
  | apply {n : Nat} {s s' : SState} (r : RuleId) (st : Step) : ReachN L arg n s → Ev.legal L s (.apply r st) →
      stepEv L s (.apply r st) = some s' → ReachN L arg (n + 1) s'

theorem reachN_reach {L : LogicData} {arg : Argument} {n : Nat} {s : SState} (h : ReachN L arg n s) : Reach L arg s := by
  induction h with
  | init b hb => exact .init b hb
  | search r bi _ ih => exact .step (.search r bi) ih trivial rfl
  | apply r st _ hl hs ih => exact .step (.apply r st) ih hl hs

/-- a legal application in a reachable state of a propositional run is a FRESH step of the calculus -/
theorem apply_fresh {L : LogicData} (hfr : L.frameRules = []) (hrows : L.tfRowsOKB = true) {s : SState} (hinv : Inv L s)
    (hprop : s.tab.allProp) {r : RuleId} {st : Step} (hleg : st ∈ enabled L s r st.branch) : st.freshOn s.tab = true := by
  have hm := mem_enabled hleg
  have hk := target_kind hm
  obtain ⟨b, hh, hb, hhs, ho, _⟩ := mem_targets hm
  cases r with
  | ident =>
    obtain ⟨i0, j0, he⟩ := hk
    rw [he]; rfl
  | closure =>
    rcases hk with ⟨sn, w, he⟩ | ⟨n, he⟩ <;> (rw [he]; rfl)
  | frame fr =>
    exfalso
    have := hk.1
    simp [LogicData.frameAllowed, hfr] at this
  | table k =>
    rcases hk with ⟨n, c, wo, he⟩ | ⟨rl, tick, i, he, hrl, hw, hi⟩
    · rw [he] at hm ⊢
      have hb' : s.tab[st.branch]? = some b := hb
      have hnt := table_target_unticked hinv (by rw [he] at hb'; exact hb') ho hm
      have hb2 : s.tab[(Step.rule st.branch n c wo).branch]? = some b := by simpa [Step.branch] using hb
      simp only [Step.freshOn]
      rw [show s.tab[st.branch]? = some b from hb]
      simpa using hnt
    · -- a quit-flag target needs a cached node of a rule with a witness: impossible on a propositional tableau
      exfalso
      have I := hinv.branch st.branch b hh hb hhs ho
      have hc : i ∈ hh.cache (.table k) := ((mem_live hhs).1 hi).1
      obtain ⟨nd, hnd, hmatch, _⟩ := I.cacheSound (.table k) i hc
      have hkk : nodeKey nd = some k := by simpa [matchesRule] using hmatch
      cases nd with
      | sent sn d w =>
        have hp := hprop b (List.mem_of_getElem? hb) sn d w (List.mem_of_getElem? hnd)
        simp only [nodeKey] at hkk
        split at hkk
        · next sh ng whole hdec =>
          simp only [Option.some.injEq] at hkk
          subst hkk
          have htf := (isProp_decomp hp hdec d).1
          exact hw (LogicData.tfRow hrows hrl htf).2.1
        · cases hkk
      | access _ _ => simp [nodeKey] at hkk
      | flag _ => simp [nodeKey] at hkk
      | ellipsis => simp [nodeKey] at hkk


theorem reach_inv {L : LogicData} {arg : Argument} {s : SState} (h : Reach L arg s) : Inv L s := by
  induction h with
  | init b hb =>
    apply inv_init
    intro hm sn d w hmem
    simp only [trunk, List.mem_singleton] at hb
    subst hb
    simp only [hm, ↓reduceIte, List.mem_append, List.mem_map, List.mem_singleton] at hmem
    rcases hmem with ⟨p, _, he⟩ | he
    · cases he; rfl
    · cases he; rfl
  | step e _ hleg hs ih => exact inv_stepEv ih e hleg hs

variable {W : Weights}

/-- every run of the search model on a propositional argument (logic without access rules) is a `replayFresh` run -/
theorem reachN_replayFresh {L : LogicData} (hfr : L.frameRules = []) (hm : L.measureOKOnB RuleKey.isTF W = true)
    (hrows : L.tfRowsOKB = true) {arg : Argument} (hp : arg.isProp = true) {n : Nat} {s : SState}
    (h : ReachN L arg n s) : ∃ sts : List Step, sts.length = n ∧ replayFresh L (trunk L arg) sts = some s.tab := by
  induction h with
  | init b hb =>
    simp only [trunk, List.mem_singleton] at hb
    subst hb
    exact ⟨[], rfl, rfl⟩
  | search r bi _ ih =>
    obtain ⟨sts, hl, hr⟩ := ih
    exact ⟨sts, hl, by rw [search_tab]; exact hr⟩
  | @apply n s s' r st hreach hleg hs ih =>
    obtain ⟨sts, hl, hr⟩ := ih
    have hinv := reach_inv (reachN_reach hreach)
    have hprop := (terminates_prop (W := W) hm hrows hp hr).2
    have hf := apply_fresh hfr hrows hinv hprop hleg.2
    simp only [stepEv] at hs
    have ht := applyTarget_tab hs
    rw [search_tab] at ht
    exact ⟨sts ++ [st], by simp [hl], replayFresh_snoc sts hr hf ht⟩

/-- TERMINATION of the search model on propositional arguments: at most `termBound` rule applications, under every schedule,
    and no quit flag ever -/
theorem reachN_bound {L : LogicData} (hfr : L.frameRules = []) (hm : L.measureOKOnB RuleKey.isTF W = true)
    (hrows : L.tfRowsOKB = true) {arg : Argument} (hp : arg.isProp = true) {n : Nat} {s : SState}
    (h : ReachN L arg n s) : n ≤ termBound L W arg ∧ s.tab.noQuit := by
  obtain ⟨sts, hl, hr⟩ := reachN_replayFresh hfr hm hrows hp h
  have := Ptx.C03_terminates_partial L W hm hrows arg hp s.tab sts hr
  rw [hl] at this
  exact this

end Ptx.Search
