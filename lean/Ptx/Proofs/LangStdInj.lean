/-
  Token-level injectivity of the standard writer (C12), for every option set, on all
  constructible sentences.  Core Lean only.

  `stdToksIn_inj`: inner token streams are uniquely readable, also as a prefix of a longer stream
  whose continuation does not start with a parameter or subscript token.
  `standardToks_inj`: the `__call__` level (outer parentheses of a top-level binary operation
  dropped under `drop_parens`).
-/
import Ptx.Proofs.LangWriteInj
namespace Ptx.Write
open Ptx Ptx.Sym Ptx.Parse

/-- token classes by which the first token of a written sentence is told apart -/
def kind : WTok → Nat
  | .atom _ => 0
  | .identity | .existence | .pred _ => 1
  | .const _ | .var _ => 2
  | .op1 _ => 3
  | .quant _ => 4
  | .parenOpen => 5
  | .ws => 6
  | .negIdentity => 7
  | .op2 _ => 8
  | .parenClose => 9
  | .sub _ => 10

def hdK : List WTok → Nat
  | [] => 100
  | t :: _ => kind t

theorem kind_lt (t : WTok) : kind t < 100 := by cases t <;> simp [kind]

theorem hdK_append (l r : List WTok) (h : hdK l < 100) : hdK (l ++ r) = hdK l := by
  cases l with
  | nil => simp [hdK] at h
  | cons t tl => rfl

theorem hdK_paramToks (a : Param) (r : List WTok) : hdK (paramToks a ++ r) = 2 := by
  cases a <;> rfl

theorem hdK_predToks (p : Pred) (r : List WTok) : hdK (predToks p ++ r) = 1 := by
  unfold predToks
  split
  · rfl
  · split <;> rfl

/-- the shapes of `StandardLexWriter._write`, with the class of the first token -/
inductive Form (o : StdOpts) : Sent → List WTok → Nat → Prop
  | atom (i u : Nat) : Form o (.atom i u) (.atom i :: subToks u) 0
  | pfx (p : Pred) (ps : List Param) : Form o (.pred p ps) (predToks p ++ paramsToks ps) 1
  | infixId (p : Pred) (a : Param) (r : List Param) : p.index = -1 →
      Form o (.pred p (a :: r)) (paramToks a ++ (.ws :: .identity :: .ws :: paramsToks r)) 2
  | infixUser (p : Pred) (a : Param) (r : List Param) : p.index ≠ -1 →
      Form o (.pred p (a :: r)) (paramToks a ++ (predToks p ++ paramsToks r)) 2
  | negId (p : Pred) (x y : Param) : p.index = -1 →
      Form o (.op1 .neg (.pred p [x, y])) (paramToks x ++ (.ws :: .negIdentity :: .ws :: paramToks y)) 2
  | op1 (op : Op1) (a : Sent) : Form o (.op1 op a) (.op1 op :: stdToksIn o a) 3
  | quant (q : Quant) (vi vs : Nat) (b : Sent) :
      Form o (.quant q vi vs b) (.quant q :: .var vi :: (subToks vs ++ stdToksIn o b)) 4
  | op2 (op : Op2) (a b : Sent) :
      Form o (.op2 op a b)
        (.parenOpen :: (stdToksIn o a ++ (.ws :: .op2 op :: .ws :: (stdToksIn o b ++ [.parenClose])))) 5

theorem Form.hdK {o : StdOpts} {s : Sent} {T : List WTok} {k : Nat} (f : Form o s T k) (r : List WTok) :
    hdK (T ++ r) = k := by
  cases f with
  | atom => rfl
  | pfx p ps => rw [List.append_assoc]; exact hdK_predToks p _
  | infixId p a r' _ => rw [List.append_assoc]; exact hdK_paramToks a _
  | infixUser p a r' _ => rw [List.append_assoc]; exact hdK_paramToks a _
  | negId p x y _ => rw [List.append_assoc]; exact hdK_paramToks x _
  | op1 => rfl
  | quant => rfl
  | op2 => rfl

theorem Form.k_le {o : StdOpts} {s : Sent} {T : List WTok} {k : Nat} (f : Form o s T k) : k ≤ 5 := by
  cases f <;> omega

theorem form (o : StdOpts) (s : Sent) : ∃ k, Form o s (stdToksIn o s) k := by
  cases s with
  | atom i u => exact ⟨_, by simpa [stdToksIn] using Form.atom (o := o) i u⟩
  | pred p ps =>
    simp only [stdToksIn, stdPredToks]
    split
    · exact ⟨_, Form.pfx p ps⟩
    · cases ps with
      | nil => exact ⟨_, by simpa [paramsToks] using Form.pfx (o := o) p []⟩
      | cons a r =>
        simp only
        split
        · rename_i hid
          have : predToks p = [.identity] := by simp [predToks, hid]
          refine ⟨2, ?_⟩
          have f := Form.infixId (o := o) p a r hid
          simpa [joinWs, this] using f
        · rename_i hid
          refine ⟨2, ?_⟩
          have f := Form.infixUser (o := o) p a r hid
          simpa [List.append_assoc] using f
  | quant q vi vs b => exact ⟨_, by simpa [stdToksIn] using Form.quant (o := o) q vi vs b⟩
  | op1 op a =>
    rw [stdToksIn.eq_def]
    simp only
    split
    · rename_i p x y
      split
      · rename_i hh
        refine ⟨2, ?_⟩
        have f := Form.negId (o := o) p x y hh.1
        simpa [joinWs] using f
      · exact ⟨_, Form.op1 _ _⟩
    · exact ⟨_, Form.op1 _ _⟩
  | op2 op a b =>
    refine ⟨5, ?_⟩
    have f := Form.op2 (o := o) op a b
    simpa [stdToksIn, joinWs] using f

theorem tstops_ws (r : List WTok) : TStops (.ws :: r) := by
  intro t ht; simp at ht; subst ht; rfl
theorem tstops_parenClose (r : List WTok) : TStops (.parenClose :: r) := by
  intro t ht; simp at ht; subst ht; rfl
theorem tstops_nil : TStops [] := by intro t ht; simp at ht

theorem noSub_of_hdK {l : List WTok} (h : hdK l ≠ 10) : NoSub l := by
  intro t ht
  cases l with
  | nil => simp at ht
  | cons a tl =>
    simp at ht
    subst ht
    cases a <;> simp_all [hdK, kind, WTok.isSub]

theorem noSub_std (o : StdOpts) (s : Sent) (r : List WTok) : NoSub (stdToksIn o s ++ r) := by
  obtain ⟨k, f⟩ := form o s
  have h1 := f.hdK r
  have h2 := f.k_le
  apply noSub_of_hdK
  omega

theorem predOK_identity {m : MaxIdx} {p : Pred} (h : predOK m p = true) (hi : p.index = -1) :
    p = Pred.identity := by
  simp only [predOK, Bool.or_eq_true, beq_iff_eq, Bool.and_eq_true, decide_eq_true_eq] at h
  rcases h with (h | h) | h
  · exact h
  · subst h; simp [Pred.existence] at hi
  · omega

theorem pred_eq_of {p1 p2 : Pred} (hi : p1.index = p2.index) (hs : p1.sub = p2.sub) (ha : p1.arity = p2.arity) :
    p1 = p2 := by
  cases p1; cases p2; simp_all

/-- inner standard token streams are uniquely readable (every option set) -/
theorem stdToksIn_inj (m : MaxIdx) (o : StdOpts) : ∀ (n : Nat) (s1 s2 : Sent) (r1 r2 : List WTok),
    s1.size ≤ n → stdToksIn o s1 ++ r1 = stdToksIn o s2 ++ r2 → Constructible m s1 → Constructible m s2 →
    TStops r1 → TStops r2 → s1 = s2 ∧ r1 = r2 := by
  intro n
  induction n with
  | zero => intro s1 _ _ _ hs; have := s1.size_pos; omega
  | succ n ih =>
    intro s1 s2 r1 r2 hsz h c1 c2 t1 t2
    obtain ⟨k1, f1⟩ := form o s1
    obtain ⟨k2, f2⟩ := form o s2
    have hk : k1 = k2 := by rw [← f1.hdK r1, ← f2.hdK r2, h]
    generalize stdToksIn o s1 = T1 at f1 h
    generalize stdToksIn o s2 = T2 at f2 h
    cases f1 with
    | atom i u =>
      cases f2 with
      | atom i2 u2 =>
        simp only [List.cons_append, List.cons.injEq, WTok.atom.injEq] at h
        obtain ⟨hu, hr⟩ := subToks_inj h.2 t1.noSub t2.noSub
        exact ⟨by rw [h.1, hu], hr⟩
      | _ => omega
    | pfx p ps =>
      cases f2 with
      | pfx p2 ps2 =>
        simp only [List.append_assoc] at h
        simp only [Constructible, arityOK, indexOK, Bool.and_eq_true, beq_iff_eq] at c1 c2
        obtain ⟨hi, hs, _, hx⟩ := predToks_inj h c1.2.1 c2.2.1 (noSub_params ps r1 t1.noSub) (noSub_params ps2 r2 t2.noSub)
        obtain ⟨hps, hr⟩ := paramsToks_inj ps ps2 r1 r2 hx t1 t2
        subst hps
        exact ⟨by rw [pred_eq_of hi hs (by rw [← c1.1, ← c2.1])], hr⟩
      | _ => omega
    | infixId p a r =>
      rename_i hid
      simp only [Constructible, arityOK, indexOK, Bool.and_eq_true, beq_iff_eq] at c1
      have hp := predOK_identity c1.2.1 hid
      cases f2 with
      | infixId p2 a2 r2' =>
        rename_i hid2
        simp only [Constructible, arityOK, indexOK, Bool.and_eq_true, beq_iff_eq] at c2
        have hp2 := predOK_identity c2.2.1 hid2
        simp only [List.append_assoc] at h
        obtain ⟨ha, hx⟩ := paramToks_inj h (tstops_ws _).noSub (tstops_ws _).noSub
        simp only [List.cons_append, List.cons.injEq, true_and] at hx
        obtain ⟨hr', hr⟩ := paramsToks_inj r r2' r1 r2 hx t1 t2
        exact ⟨by rw [hp, hp2, ha, hr'], hr⟩
      | infixUser p2 a2 r2' =>
        simp only [List.append_assoc] at h
        obtain ⟨_, hx⟩ := paramToks_inj h (tstops_ws _).noSub (noSub_of_hdK (by rw [hdK_predToks]; simp))
        have := congrArg hdK hx
        rw [hdK_predToks] at this
        simp [hdK, kind] at this
      | negId p2 x2 y2 =>
        simp only [List.append_assoc] at h
        obtain ⟨_, hx⟩ := paramToks_inj h (tstops_ws _).noSub (tstops_ws _).noSub
        simp at hx
      | _ => omega
    | infixUser p a r =>
      rename_i hid
      cases f2 with
      | infixId p2 a2 r2' =>
        simp only [List.append_assoc] at h
        obtain ⟨_, hx⟩ := paramToks_inj h (noSub_of_hdK (by rw [hdK_predToks]; simp)) (tstops_ws _).noSub
        have := congrArg hdK hx
        rw [hdK_predToks] at this
        simp [hdK, kind] at this
      | infixUser p2 a2 r2' =>
        simp only [List.append_assoc] at h
        simp only [Constructible, arityOK, indexOK, Bool.and_eq_true, beq_iff_eq] at c1 c2
        obtain ⟨ha, hx⟩ := paramToks_inj h (noSub_of_hdK (by rw [hdK_predToks]; simp))
          (noSub_of_hdK (by rw [hdK_predToks]; simp))
        obtain ⟨hi, hs, _, hx'⟩ := predToks_inj hx c1.2.1 c2.2.1 (noSub_params r r1 t1.noSub) (noSub_params r2' r2 t2.noSub)
        obtain ⟨hr', hr⟩ := paramsToks_inj r r2' r1 r2 hx' t1 t2
        subst hr' ha
        exact ⟨by rw [pred_eq_of hi hs (by rw [← c1.1, ← c2.1])], hr⟩
      | negId p2 x2 y2 =>
        simp only [List.append_assoc] at h
        obtain ⟨_, hx⟩ := paramToks_inj h (noSub_of_hdK (by rw [hdK_predToks]; simp)) (tstops_ws _).noSub
        have := congrArg hdK hx
        rw [hdK_predToks] at this
        simp [hdK, kind] at this
      | _ => omega
    | negId p x y =>
      rename_i hid
      simp only [Constructible, arityOK, indexOK, Bool.and_eq_true, beq_iff_eq] at c1
      have hp := predOK_identity c1.2.1 hid
      cases f2 with
      | infixId p2 a2 r2' =>
        simp only [List.append_assoc] at h
        obtain ⟨_, hx⟩ := paramToks_inj h (tstops_ws _).noSub (tstops_ws _).noSub
        simp at hx
      | infixUser p2 a2 r2' =>
        simp only [List.append_assoc] at h
        obtain ⟨_, hx⟩ := paramToks_inj h (tstops_ws _).noSub (noSub_of_hdK (by rw [hdK_predToks]; simp))
        have := congrArg hdK hx
        rw [hdK_predToks] at this
        simp [hdK, kind] at this
      | negId p2 x2 y2 =>
        rename_i hid2
        simp only [Constructible, arityOK, indexOK, Bool.and_eq_true, beq_iff_eq] at c2
        have hp2 := predOK_identity c2.2.1 hid2
        simp only [List.append_assoc] at h
        obtain ⟨hx, hx'⟩ := paramToks_inj h (tstops_ws _).noSub (tstops_ws _).noSub
        simp only [List.cons_append, List.cons.injEq, true_and] at hx'
        obtain ⟨hy, hr⟩ := paramToks_inj hx' t1.noSub t2.noSub
        exact ⟨by rw [hp, hp2, hx, hy], hr⟩
      | _ => omega
    | op1 op a =>
      cases f2 with
      | op1 op2 a2 =>
        simp only [List.cons_append, List.cons.injEq, WTok.op1.injEq] at h
        simp only [Constructible, arityOK, indexOK] at c1 c2
        obtain ⟨ha, hr⟩ := ih a a2 r1 r2 (by simp [Sent.size] at hsz; omega) h.2 c1 c2 t1 t2
        exact ⟨by rw [h.1, ha], hr⟩
      | _ => omega
    | quant q vi vs b =>
      cases f2 with
      | quant q2 vi2 vs2 b2 =>
        simp only [List.cons_append, List.cons.injEq, WTok.quant.injEq, WTok.var.injEq, List.append_assoc] at h
        obtain ⟨hq, hv, ht⟩ := h
        obtain ⟨hu, hr⟩ := subToks_inj ht (noSub_std o b r1) (noSub_std o b2 r2)
        simp only [Constructible, arityOK, indexOK, Bool.and_eq_true] at c1 c2
        obtain ⟨hb, hr'⟩ := ih b b2 r1 r2 (by simp [Sent.size] at hsz; omega) hr ⟨c1.1, c1.2.2⟩ ⟨c2.1, c2.2.2⟩ t1 t2
        exact ⟨by rw [hq, hv, hu, hb], hr'⟩
      | _ => omega
    | op2 op a b =>
      cases f2 with
      | op2 op' a2 b2 =>
        simp only [List.cons_append, List.cons.injEq, true_and, List.append_assoc] at h
        simp only [Constructible, arityOK, indexOK, Bool.and_eq_true] at c1 c2
        obtain ⟨ha, hr⟩ := ih a a2 _ _ (by simp [Sent.size] at hsz; omega) h ⟨c1.1.1, c1.2.1⟩ ⟨c2.1.1, c2.2.1⟩
          (tstops_ws _) (tstops_ws _)
        simp only [List.cons.injEq, true_and, WTok.op2.injEq] at hr
        obtain ⟨hop, hr⟩ := hr
        obtain ⟨hb, hr'⟩ := ih b b2 _ _ (by simp [Sent.size] at hsz; omega) hr ⟨c1.1.2, c1.2.2⟩ ⟨c2.1.2, c2.2.2⟩
          (tstops_parenClose _) (tstops_parenClose _)
        simp only [List.cons.injEq, true_and] at hr'
        exact ⟨by rw [hop, ha, hb], hr'⟩
      | _ => omega

/-- the two shapes of `StandardLexWriter.__call__` -/
theorem standardToks_form (o : StdOpts) (s : Sent) :
    (∃ op a b, s = .op2 op a b ∧ standardToks o s = stdToksIn o a ++ (.ws :: .op2 op :: .ws :: stdToksIn o b)) ∨
    standardToks o s = stdToksIn o s := by
  unfold standardToks
  split
  · rename_i op a b
    split
    · exact Or.inl ⟨op, a, b, rfl, by simp [joinWs]⟩
    · exact Or.inr rfl
  · exact Or.inr rfl

/-- `StandardLexWriter.__call__` token streams determine the sentence (every option set) -/
theorem standardToks_inj (m : MaxIdx) (o : StdOpts) (s1 s2 : Sent)
    (c1 : Constructible m s1) (c2 : Constructible m s2) (h : standardToks o s1 = standardToks o s2) : s1 = s2 := by
  rcases standardToks_form o s1 with ⟨op, a, b, rfl, e1⟩ | e1 <;>
    rcases standardToks_form o s2 with ⟨op', a', b', rfl, e2⟩ | e2 <;> rw [e1, e2] at h
  · simp only [Constructible, arityOK, indexOK, Bool.and_eq_true] at c1 c2
    obtain ⟨ha, hr⟩ := stdToksIn_inj m o a.size a a' _ _ (Nat.le_refl _) h ⟨c1.1.1, c1.2.1⟩ ⟨c2.1.1, c2.2.1⟩
      (tstops_ws _) (tstops_ws _)
    simp only [List.cons.injEq, true_and, WTok.op2.injEq] at hr
    obtain ⟨hop, hr⟩ := hr
    have hr' : stdToksIn o b ++ [] = stdToksIn o b' ++ [] := by simpa using hr
    obtain ⟨hb, _⟩ := stdToksIn_inj m o b.size b b' _ _ (Nat.le_refl _) hr' ⟨c1.1.2, c1.2.2⟩ ⟨c2.1.2, c2.2.2⟩
      tstops_nil tstops_nil
    rw [hop, ha, hb]
  · simp only [Constructible, arityOK, indexOK, Bool.and_eq_true] at c1
    have h' : stdToksIn o a ++ (.ws :: .op2 op :: .ws :: stdToksIn o b) = stdToksIn o s2 ++ [] := by simpa using h
    obtain ⟨_, hr⟩ := stdToksIn_inj m o a.size a s2 _ _ (Nat.le_refl _) h' ⟨c1.1.1, c1.2.1⟩ c2 (tstops_ws _) tstops_nil
    cases hr
  · simp only [Constructible, arityOK, indexOK, Bool.and_eq_true] at c2
    have h' : stdToksIn o s1 ++ [] = stdToksIn o a' ++ (.ws :: .op2 op' :: .ws :: stdToksIn o b') := by simpa using h
    obtain ⟨_, hr⟩ := stdToksIn_inj m o s1.size s1 a' _ _ (Nat.le_refl _) h' c1 ⟨c2.1.1, c2.2.1⟩ tstops_nil (tstops_ws _)
    cases hr
  · have h' : stdToksIn o s1 ++ [] = stdToksIn o s2 ++ [] := by simpa using h
    exact (stdToksIn_inj m o s1.size s1 s2 _ _ (Nat.le_refl _) h' c1 c2 tstops_nil tstops_nil).1

end Ptx.Write
