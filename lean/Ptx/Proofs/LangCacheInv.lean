/- helper lemmas for C14: the full cache invariant is kept by every metaclass call, and the
   cached answer is the cache-free answer (core Lean only) -/
import Ptx.Proofs.LangCacheShape
import Ptx.Proofs.LangIdentRound
namespace Ptx

/-- the invariant of the construction cache: every entry is what a fresh build returns
    (`Sound`), the three containers are mutually consistent (`Shape`), and a size-0 cache is
    only used with fix 2 -/
structure Cache.Inv (fx : Fixes) (c : Cache) : Prop where
  sound : c.Sound fx
  shape : c.Shape
  size0 : fx.maxlen0 = true ∨ 0 < c.maxlen

theorem Inv.empty (fx : Fixes) (n : Nat) (h : fx.maxlen0 = true ∨ 0 < n) : (Cache.empty n).Inv fx :=
  ⟨by intro k v h; simp [Cache.empty] at h, Shape.empty n, h⟩

/-- a sound cache binds a key whose fresh build is `v` to nothing but `v` -/
theorem Sound.unique {fx : Fixes} {c : Cache} (hc : c.Sound fx) {key : Arg} {v w : Item}
    (hk : ∃ m, keyBuildP fx m key = .ok v) (hw : assocGet key c.idx = some w) : w = v := by
  obtain ⟨m, hm⟩ := hk
  obtain ⟨m', hm'⟩ := hc _ _ (assocGet_mem hw)
  have := keyBuildP_det fx hm' hm (by simp)
  simp only [Except.ok.injEq] at this
  exact this.symm

theorem Inv.bind {fx : Fixes} {c : Cache} {key : Arg} {v : Item} {ks : List Arg} (hc : c.Inv fx)
    (hk : ∃ m, keyBuildP fx m key = .ok v) (hv : assocGet v c.rev = some ks) :
    ∃ c', c.bind key v = .ok c' ∧ c'.Inv fx := by
  obtain ⟨c', h⟩ := bind_ok (key := key) hv
  obtain ⟨hS, hm, _⟩ := Shape.bind hc.shape (fun w hw => Sound.unique hc.sound hk hw) h
  exact ⟨c', h, Sound.bind hc.sound hk h, hS, by rw [hm]; exact hc.size0⟩

/-- `cache[key] = value` succeeds and keeps the invariant, if a fresh build of `key` returns `value` -/
theorem Inv.store {fx : Fixes} {c : Cache} {key : Arg} {v : Item} (hc : c.Inv fx)
    (hk : ∃ m, keyBuildP fx m key = .ok v) :
    ∃ c', c.store fx key v = .ok c' ∧ c'.Inv fx := by
  unfold Cache.store
  cases hr : assocGet v c.rev with
  | some ks =>
    simp only [Option.isSome_some, ↓reduceIte]
    obtain ⟨_, hall⟩ := hc.shape.revOK v ks hr
    have hiv := hall _ (hc.shape.revOK v ks hr).1
    rw [hiv]
    exact Inv.bind hc hk hr
  | none =>
    simp only [Option.isSome_none, Bool.false_eq_true, ↓reduceIte]
    by_cases h0 : (fx.maxlen0 && decide (c.maxlen = 0)) = true
    · simp only [h0, ↓reduceIte]; exact ⟨c, rfl, hc⟩
    · simp only [h0, Bool.false_eq_true, ↓reduceIte]
      have hpos : 0 < c.maxlen := by
        rcases hc.size0 with h | h
        · simp only [h, Bool.true_and, decide_eq_true_eq] at h0; omega
        · exact h
      -- make room
      have hroom : ∃ c1, c.makeRoom = .ok c1 ∧ c1.Inv fx ∧ c1.queue.length < c1.maxlen ∧
          assocGet v c1.rev = none := by
        unfold Cache.makeRoom
        by_cases hfull : c.rev.length ≥ c.maxlen
        · simp only [hfull, ↓reduceIte]
          have hlen := Shape.rev_length hc.shape
          have hne : c.queue ≠ [] := by
            intro h; rw [h] at hlen; simp only [List.length_nil] at hlen; omega
          obtain ⟨c1, he, hS1, hm1, hl1, hkeep⟩ := Shape.evict hc.shape hne
          refine ⟨c1, he, ⟨Sound.evict hc.sound he, hS1, by rw [hm1]; exact hc.size0⟩, ?_, hkeep v hr⟩
          have := hc.shape.len
          omega
        · simp only [hfull, ↓reduceIte]
          refine ⟨c, rfl, hc, ?_, hr⟩
          rw [← Shape.rev_length hc.shape]; omega
      obtain ⟨c1, h1, hc1, hl1, hn1⟩ := hroom
      rw [h1]
      simp only
      have hitem : ∀ w, assocGet (Arg.item v) c1.idx = some w → w = v :=
        fun w hw => Sound.unique hc1.sound ⟨0, rfl⟩ hw
      obtain ⟨hS2, hv2⟩ := Shape.enroll hc1.shape hn1 hl1 hitem
      have hc2 : (c1.enroll v).Inv fx := ⟨Sound.enroll v hc1.sound, hS2, hc1.size0⟩
      exact Inv.bind hc2 hk hv2

/-- `cache[clsname, spec] = cache[inst.ident] = inst` succeeds and keeps the invariant -/
theorem Inv.store2 {fx : Fixes} {c : Cache} {key : Arg} {x : Item} (hc : c.Inv fx)
    (hk : ∃ m, keyBuildP fx m key = .ok x) (hi : ∃ m, keyBuildP fx m (identArg x) = .ok x) :
    (storeBoth fx c key x).1 = .ok x ∧ (storeBoth fx c key x).2.Inv fx := by
  unfold storeBoth
  obtain ⟨c1, h1, hc1⟩ := Inv.store hc hk
  obtain ⟨c2, h2, hc2⟩ := Inv.store hc1 hi
  simp only [h1, h2]
  exact ⟨trivial, hc2⟩

/-! ### the cached call returns what a fresh build returns, and keeps the invariant -/

/-- the statement proved for every budget `n` -/
def TransparentV (fx : Fixes) (n : Nat) : Prop :=
  ∀ cls args c, argsVI args = true → c.Inv fx → ∀ r, evalP fx n cls args = r → r ≠ .error .fuel →
    (evalC fx n cls args c).1 = r ∧ (evalC fx n cls args c).2.Inv fx

theorem runC_specV (fx : Fixes) (n : Nat) (IH : TransparentV fx n) :
    ∀ (p : Prog) (c : Cache), p.OK → c.Inv fx → ∀ r, runP (evalP fx n) p = r → r ≠ .error .fuel →
      (runC (evalC fx n) p c).1 = r ∧ (runC (evalC fx n) p c).2.Inv fx := by
  intro p
  induction p with
  | ret x => intro c _ hc r hr _; simp only [runP] at hr; subst hr; exact ⟨rfl, hc⟩
  | fail e => intro c _ hc r hr _; simp only [runP] at hr; subst hr; exact ⟨rfl, hc⟩
  | call cls args k ih =>
    intro c hOK hc r hr hne
    simp only [Prog.OK] at hOK
    simp only [runP] at hr
    simp only [runC]
    cases hp : evalP fx n cls args with
    | ok x =>
      rw [hp] at hr
      obtain ⟨hres, hs⟩ := IH cls args c hOK.1 hc (.ok x) hp (by simp)
      rcases hc' : evalC fx n cls args c with ⟨r', c'⟩
      rw [hc'] at hs hres
      simp only at hs hres
      subst hres
      exact ih x c' (hOK.2 x (evalP_valid fx n cls args x hOK.1 hp)) hs r hr hne
    | error e =>
      rw [hp] at hr
      simp only at hr
      subst hr
      obtain ⟨hres, hs⟩ := IH cls args c hOK.1 hc _ hp hne
      rcases hc' : evalC fx n cls args c with ⟨r', c'⟩
      rw [hc'] at hs hres
      simp only at hs hres
      subst hres
      exact ⟨rfl, hs⟩

theorem transparentV (fx : Fixes) (hsp : fx.sysPred = true) : ∀ n, TransparentV fx n := by
  have hRT := roundTripsV fx hsp
  intro n
  induction n with
  | zero =>
    intro cls args c _ hc r hr hne
    simp only [evalP] at hr
    exact absurd hr.symm hne
  | succ n ih =>
    intro cls args c hav hc r hr hne
    have hfull := hr
    rw [evalP] at hr
    rw [evalC]
    cases hp : pre fx cls args with
    | some r0 => simp only [hp] at hr ⊢; subst hr; exact ⟨rfl, hc⟩
    | none =>
      simp only [hp] at hr ⊢
      -- lookup under (clsname, spec)
      cases hg : c.get (callKey cls args) with
      | some v =>
        simp only
        refine ⟨?_, hc⟩
        obtain ⟨m, hm⟩ := hc.sound _ _ (assocGet_mem hg)
        rw [keyBuildP_callKey] at hm
        by_cases ha : cls.isAbstract
        · simp [ha] at hm
        · simp only [ha, Bool.false_eq_true, ↓reduceIte] at hm
          exact (evalP_det fx hm hfull hne).symm
      | none =>
        simp only
        by_cases ha : cls.isAbstract
        · simp only [ha, ↓reduceIte] at hr ⊢
          cases hd : decodeIdent cls args with
          | error e => simp only [hd] at hr ⊢; subst hr; exact ⟨rfl, hc⟩
          | ok t =>
            obtain ⟨cn, sp, tgt⟩ := t
            simp only [hd] at hr ⊢
            have hlt := decodeIdent_lexType hd
            have hspv := decodeIdent_VI hav hd
            cases hg2 : c.get (Arg.tuple [cn, sp]) with
            | some v =>
              simp only
              refine ⟨?_, hc⟩
              obtain ⟨m, hm⟩ := hc.sound _ _ (assocGet_mem hg2)
              rw [keyBuildP_pair, hlt] at hm
              simp only at hm
              cases hi : iterate sp with
              | error e => simp [hi] at hm
              | ok xs =>
                simp only [hi] at hm hr
                cases tgt with
                | lex c' => exact (evalP_det fx hm hr hne).symm
                | quantifier => rw [← hr, ← hm]
                | operator => rw [← hr, ← hm]
            | none =>
              simp only
              cases hi : iterate sp with
              | error e => simp only [hi] at hr ⊢; subst hr; exact ⟨rfl, hc⟩
              | ok xs =>
                simp only [hi] at hr ⊢
                have hxsv := iterate_VI hi hspv
                -- the nested call
                have key : ∀ (rc : R × Cache), rc.1 = r → rc.2.Inv fx →
                    (∀ x, r = .ok x → ∃ m, keyBuildP fx m (Arg.tuple [cn, sp]) = .ok x) →
                    (match rc with
                      | (.ok x, c') => storeBoth fx c' (Arg.tuple [cn, sp]) x
                      | (.error e, c') => (.error e, c')).1 = r ∧
                    (match rc with
                      | (.ok x, c') => storeBoth fx c' (Arg.tuple [cn, sp]) x
                      | (.error e, c') => (.error e, c')).2.Inv fx := by
                  intro rc hres hs hkey
                  obtain ⟨r', c'⟩ := rc
                  simp only at hs hres
                  cases r' with
                  | error e => simp only; exact ⟨hres, hs⟩
                  | ok x =>
                    simp only
                    have hk := hkey x hres.symm
                    have hi' := hRT (n+1) cls args x hav (by rw [hfull, ← hres])
                    have := Inv.store2 (key := Arg.tuple [cn, sp]) hs hk hi'
                    rw [← hres]
                    exact this
                cases tgt with
                | lex c' =>
                  simp only at hr ⊢
                  obtain ⟨hres, hs⟩ := ih c' xs c hxsv hc r hr hne
                  refine key _ hres hs ?_
                  intro x hx
                  refine ⟨n, ?_⟩
                  rw [keyBuildP_pair, hlt]; simp only [hi]; rw [hr, hx]
                | quantifier =>
                  simp only at hr ⊢
                  refine key (enumCall true xs, c) hr hc ?_
                  intro x hx
                  refine ⟨0, ?_⟩
                  rw [keyBuildP_pair, hlt]; simp only [hi]; rw [hr, hx]
                | operator =>
                  simp only at hr ⊢
                  refine key (enumCall false xs, c) hr hc ?_
                  intro x hx
                  refine ⟨0, ?_⟩
                  rw [keyBuildP_pair, hlt]; simp only [hi]; rw [hr, hx]
        · simp only [ha, Bool.false_eq_true, ↓reduceIte] at hr ⊢
          obtain ⟨hres, hs⟩ := runC_specV fx n ih (body cls args) c (body_OK cls args hav) hc r hr hne
          rcases hrc : runC (evalC fx n) (body cls args) c with ⟨r', c'⟩
          rw [hrc] at hs hres
          simp only at hs hres ⊢
          cases r' with
          | error e => simp only; exact ⟨hres, hs⟩
          | ok x =>
            simp only
            have hk : ∃ m, keyBuildP fx m (callKey cls args) = .ok x := by
              refine ⟨n+1, ?_⟩
              rw [keyBuildP_callKey]; simp only [ha, Bool.false_eq_true, ↓reduceIte]
              rw [hfull, ← hres]
            have hi' := hRT (n+1) cls args x hav (by rw [hfull, ← hres])
            have := Inv.store2 (key := callKey cls args) hs hk hi'
            rw [← hres]
            exact this

end Ptx
