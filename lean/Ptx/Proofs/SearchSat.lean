/-
  Ptx.Proofs.SearchSat — from `SatMod` (closure-free around the literals, every rule group done) to `saturatedB`:
  no closure rule applies around ANY sentence, by induction on the number of leading negations.  The step from `x` to `¬x`
  uses that every `¬¬x` node has its double-negation group on the branch; what that group puts around `x` is read off the
  regenerated double-negation rows, and the closure table is asked whether the image of every closing constraint set closes
  (`dnegClosureB`, decidable, per logic).
-/
import Ptx.Proofs.Search
import Ptx.Proofs.Tables
import Ptx.Search.Side
namespace Ptx.Search
open Ptx

theorem mapOpt_map_of {α β γ} {f : α → Option β} {g : α → Option γ} {h : β → γ}
    (hfg : ∀ a y, f a = some y → g a = some (h y)) :
    ∀ {xs : List α} {ys : List β}, mapOpt f xs = some ys → mapOpt g xs = some (ys.map h)
  | [], ys, hm => by
      simp only [mapOpt, Option.some.injEq] at hm
      subst hm; rfl
  | x :: xs, ys, hm => by
      simp only [mapOpt] at hm
      split at hm
      · next y ys' hy hys =>
        simp only [Option.some.injEq] at hm
        subst hm
        simp only [mapOpt, hfg x y hy, mapOpt_map_of hfg hys, List.map_cons]
      · cases hm

/-- the node a constraint around `x` stands for -/
def litNode (x : Sent) (w : Option Nat) (l : Lit) : Node := .sent (if l.negated then x.neg else x) l.des w

theorem mem_allLits {L : LogicData} {l : Lit} : l ∈ L.allLits ↔ l.des ∈ L.markers := by
  obtain ⟨ng, d⟩ := l
  simp only [LogicData.allLits, List.mem_flatMap, List.mem_map, Lit.mk.injEq]
  constructor
  · rintro ⟨_, _, d', hd', _, rfl⟩; exact hd'
  · intro hd; exact ⟨ng, by cases ng <;> simp, d, hd, rfl, rfl⟩

theorem mem_litSet {L : LogicData} {b : Branch} {z : Sent} {w : Option Nat} {l : Lit} :
    l ∈ b.litSet L z w ↔ l ∈ L.allLits ∧ litNode z w l ∈ b.nodes := by
  simp [Branch.litSet, List.mem_filter, Branch.hasNode, litNode]

theorem litSet_sublists {L : LogicData} {b : Branch} {z : Sent} {w : Option Nat} :
    b.litSet L z w ∈ sublists L.allLits :=
  mem_sublists _ _ (List.filter_sublist)

theorem dn_inst (x : Sent) (w : Option Nat) (r raw : Option Sent) (var : Nat × Nat) :
    ∀ a l, dnLit a = some l →
      (match a with
        | .node n =>
            match n.tm.inst x.neg x r raw var with
            | none => none
            | some s =>
              if n.other then
                match (none : Option Nat) with
                | some w' => some (Node.sent s n.des (some w'))
                | none => none
              else some (.sent s n.des w)
        | .access =>
            match w, (none : Option Nat) with
            | some w, some w' => some (Node.access w w')
            | _, _ => none) = some (litNode x w l) := by
  intro a l h
  cases a with
  | access => simp [dnLit] at h
  | node n =>
    obtain ⟨tm, d, o⟩ := n
    cases o with
    | true => cases tm <;> simp [dnLit] at h
    | false =>
      cases tm with
      | lhs =>
        simp only [dnLit, Option.some.injEq] at h
        subst h
        simp [Tm.inst, litNode]
      | whole =>
        simp only [dnLit, Option.some.injEq] at h
        subst h
        simp [Tm.inst, litNode]
      | _ => simp [dnLit] at h

theorem dn_instAdds (x : Sent) (w : Option Nat) (r raw : Option Sent) (var : Nat × Nat) (br : List AddT) (ls : List Lit)
    (h : mapOpt dnLit br = some ls) : instAdds x.neg x r raw var w none br = some (ls.map (litNode x w)) := by
  unfold instAdds
  exact mapOpt_map_of (dn_inst x w r raw var) h

theorem groupsDone_some {b : Branch} {gs? : Option (List (List Node))} (h : groupsDone b gs? = true) :
    ∃ gs, gs? = some gs ∧ ∃ g ∈ gs, b.hasAll g = true := by
  unfold groupsDone at h
  split at h
  · next gs => exact ⟨gs, rfl, List.any_eq_true.1 h⟩
  · cases h

theorem base_of_not_isNeg {z : Sent} (h : z.isNeg = false) : z.base = z := by
  cases z with
  | op1 o a => cases o <;> simp_all [Sent.isNeg, Sent.base]
  | _ => rfl

section closure
variable {L : LogicData} {b : Branch}

/-- on a branch whose nodes all have their rule groups, a done `¬¬x` node puts one of the double-negation groups around `x` -/
theorem dn_done (hside : dnegClosureB L = true)
    (F2 : ∀ sn d w, Node.sent sn d w ∈ b.nodes → L.nodeMissing b sn d w = [])
    {x : Sent} {d : Option Bool} {w : Option Nat} (hd : d ∈ L.markers) (hm : Node.sent x.neg.neg d w ∈ b.nodes) :
    ∃ gs, dnRule L d = some gs ∧ ∃ g ∈ gs, ∀ l ∈ g, l ∈ b.litSet L x w := by
  simp only [dnegClosureB, Bool.and_eq_true, List.all_eq_true] at hside
  have hmk := hside.1.2 d hd
  split at hmk
  rotate_left
  · cases hmk
  next gs hgs =>
  refine ⟨gs, hgs, ?_⟩
  unfold dnRule at hgs
  split at hgs
  rotate_left
  · cases hgs
  next r hr =>
  split at hgs
  rotate_left
  · cases hgs
  next hwit =>
  have hwit' : r.witness = .none := by simpa using hwit
  have hrf : L.ruleFor x.neg.neg d = some (r, x.neg, x) := by
    simp [LogicData.ruleFor, Sent.neg, Sent.decomp, hr, Sent.lhs?]
  have hnm := F2 _ _ _ hm
  unfold LogicData.nodeMissing at hnm
  simp only [hrf, hwit'] at hnm
  have hq : (x.neg).quantOK L = true := rfl
  simp only [hq, Bool.not_true, Bool.false_eq_true, ↓reduceIte] at hnm
  have hdone : groupsDone b (instGroups x.neg x w none none r) = true := by
    cases hg : groupsDone b (instGroups x.neg x w none none r) with
    | true => rfl
    | false => simp [hg] at hnm
  obtain ⟨ns, hns, g, hg, hall⟩ := groupsDone_some hdone
  have hinst : instGroups x.neg x w none none r = some (gs.map (·.map (litNode x w))) := by
    simp only [instGroups, hwit']
    exact mapOpt_map_of (fun br ls hb => dn_instAdds x w _ _ _ br ls hb) hgs
  rw [hinst] at hns
  simp only [Option.some.injEq] at hns
  subst hns
  obtain ⟨g0, hg0, rfl⟩ := List.mem_map.1 hg
  refine ⟨g0, hg0, ?_⟩
  intro l hl
  rw [mem_litSet]
  refine ⟨?_, ?_⟩
  · have := (List.all_eq_true.1 hmk) g0 hg0
    rw [List.all_eq_true] at this
    simpa using this l hl
  · simp only [Branch.hasAll, List.all_eq_true, List.mem_map, forall_exists_index, and_imp,
      forall_apply_eq_imp_iff₂] at hall
    simpa [Branch.hasNode] using hall l hl

/-- no closure rule applies around ANY sentence -/
theorem closure_free (hside : dnegClosureB L = true)
    (F1 : ∀ sn d w, Node.sent sn d w ∈ b.nodes → sn.base.isNeg = false →
      (L.closure.lookup (b.litSet L sn.base w) == some true) = false)
    (F2 : ∀ sn d w, Node.sent sn d w ∈ b.nodes → L.nodeMissing b sn d w = []) :
    ∀ (z : Sent) (w : Option Nat), (L.closure.lookup (b.litSet L z w) == some true) = false := by
  have hs := hside
  simp only [dnegClosureB, Bool.and_eq_true, List.all_eq_true] at hs
  -- sentences that are not negations
  have base : ∀ z w, z.isNeg = false → (L.closure.lookup (b.litSet L z w) == some true) = false := by
    intro z w hz
    cases hS : b.litSet L z w with
    | nil => simpa using hs.1.1
    | cons l rest =>
      have hl : l ∈ b.litSet L z w := by rw [hS]; simp
      rw [← hS]
      obtain ⟨_, hn⟩ := mem_litSet.1 hl
      unfold litNode at hn
      have := F1 _ _ _ hn
      split at this
      · exact this (by simpa [Sent.neg, Sent.base] using hz) |> (by simpa [Sent.neg, Sent.base] using ·)
      · rw [base_of_not_isNeg hz] at this
        exact this hz
  intro z
  induction z with
  | atom i j => intro w; exact base _ w rfl
  | pred p ps => intro w; exact base _ w rfl
  | quant q vi vs body _ => intro w; exact base _ w rfl
  | op2 o a c _ _ => intro w; exact base _ w rfl
  | op1 o x ih =>
    intro w
    cases o with
    | neg =>
      rcases Bool.eq_false_or_eq_true (L.closure.lookup (b.litSet L (.op1 .neg x) w) == some true) with hc | hc
      rotate_left
      · exact hc
      exfalso
      have hS := hs.2 _ (litSet_sublists (L := L) (b := b) (z := .op1 .neg x) (w := w))
      simp only [Bool.or_eq_true, bne_iff_ne, ne_eq, List.all_eq_true, Bool.not_eq_eq_eq_not, Bool.not_true] at hS
      rcases hS with hS | hS
      · exact hS (by simpa using hc)
      · have hT := hS _ (litSet_sublists (L := L) (b := b) (z := x) (w := w))
        rcases hT with hT | hT
        · -- the premise holds: contradiction
          rw [List.all_eq_false] at hT
          obtain ⟨l, hl, hne⟩ := hT
          apply hne
          obtain ⟨hla, hln⟩ := mem_litSet.1 hl
          unfold dnEntailed
          split
          · next hneg =>
            have hm : Node.sent x.neg.neg l.des w ∈ b.nodes := by simpa [litNode, hneg, Sent.neg] using hln
            obtain ⟨gs, hgs, g, hg, hall⟩ := dn_done hside F2 (mem_allLits.1 hla) hm
            simp only [hgs]
            exact List.any_eq_true.2 ⟨g, hg, List.all_eq_true.2 fun l' hl' => by simpa using hall l' hl'⟩
          · next hneg =>
            have hm : Node.sent x.neg l.des w ∈ b.nodes := by simpa [litNode, hneg, Sent.neg] using hln
            have : (⟨true, l.des⟩ : Lit) ∈ b.litSet L x w :=
              mem_litSet.2 ⟨mem_allLits.2 (mem_allLits (l := l).1 hla), by simpa [litNode] using hm⟩
            simpa using this
        · have := ih w
          rw [hT] at this; cases this
    | asrt => exact base _ w rfl
    | poss => exact base _ w rfl
    | nec => exact base _ w rfl

/-- `SatMod` + the double-negation side condition = the saturation predicate of Ptx/Tab/Saturated.lean -/
theorem saturated_of_satMod (hside : dnegClosureB L = true) (h : SatMod L b) : L.saturatedB b = true := by
  have hcf := closure_free hside h.closure h.nodes
  unfold LogicData.saturatedB LogicData.unsaturated
  rw [h.frame, h.identSub, List.append_nil, List.append_nil, List.isEmpty_iff, List.flatMap_eq_nil_iff]
  rintro ⟨nd, i⟩ hmem
  have hnd : nd ∈ b.nodes := by
    have := (List.mem_zipIdx_iff_getElem?.1 hmem)
    exact List.mem_of_getElem? this
  cases nd with
  | sent sn d w =>
    have h1 : L.closureApplies b sn w = false := by
      simp only [LogicData.closureApplies, Bool.or_eq_false_iff]
      exact ⟨hcf sn w, hcf sn.base w⟩
    simp [h1, h.ident sn d w hnd, h.nodes sn d w hnd]
  | _ => rfl

end closure

end Ptx.Search
