/-
  Helper lemmas for C12/C13: digits, chomp, frame properties of the ParseContext primitives.
  Core Lean only.
-/
import Ptx.Lang.ParsePolish
import Ptx.Lang.ParseStandard
import Ptx.Lang.Write
namespace Ptx.Parse
open Ptx Ptx.Sym

/-! ### decimal digits -/

theorem horner_append (ds : List Nat) (d : Nat) : horner (ds ++ [d]) = 10 * horner ds + d := by
  simp [horner, List.foldl_append]

theorem horner_decDigitsF : ∀ f n, n < f → horner (decDigitsF f n) = n := by
  intro f
  induction f with
  | zero => intro n h; omega
  | succ f ih =>
    intro n h
    unfold decDigitsF
    split
    · simp [horner]
    · rw [horner_append, ih (n / 10) (by omega)]; omega

theorem horner_decDigits (n : Nat) : horner (decDigits n) = n :=
  horner_decDigitsF _ _ (Nat.lt_succ_self n)

theorem decDigitsF_lt : ∀ f n, ∀ d ∈ decDigitsF f n, d < 10 := by
  intro f
  induction f with
  | zero => intro n d h; simp [decDigitsF] at h
  | succ f ih =>
    intro n d h
    unfold decDigitsF at h
    split at h
    · simp at h; omega
    · simp at h
      rcases h with h | h
      · exact ih _ _ h
      · omega

theorem decDigits_lt (n : Nat) : ∀ d ∈ decDigits n, d < 10 := decDigitsF_lt _ _

theorem decDigitsF_ne_nil (f n : Nat) : decDigitsF (f + 1) n ≠ [] := by
  unfold decDigitsF; split <;> simp

theorem decDigits_ne_nil (n : Nat) : decDigits n ≠ [] := decDigitsF_ne_nil _ _

/-! ### chomp -/

theorem chomp_length_le (t : ParseTable) : ∀ l, (chomp t l).length ≤ l.length := by
  intro l
  induction l with
  | nil => simp [chomp]
  | cons c r ih => unfold chomp; split <;> simp <;> omega

theorem chomp_cons_of_ne (t : ParseTable) (c : Chr) (r : List Chr) (h : t.lookup c ≠ some .ws) :
    chomp t (c :: r) = c :: r := by
  simp [chomp, h]

theorem chomp_idem (t : ParseTable) : ∀ l, chomp t (chomp t l) = chomp t l := by
  intro l
  induction l with
  | nil => simp [chomp]
  | cons c r ih =>
    by_cases h : t.lookup c = some .ws
    · simp [chomp, h, ih]
    · simp [chomp, h]

/-- the head of a chomped list is not whitespace -/
theorem chomp_head (t : ParseTable) : ∀ l c r, chomp t l = c :: r → t.lookup c ≠ some .ws := by
  intro l
  induction l with
  | nil => intro c r h; simp [chomp] at h
  | cons a l ih =>
    intro c r h
    by_cases ha : t.lookup a = some .ws
    · simp [chomp, ha] at h; exact ih c r h
    · simp [chomp, ha] at h; rw [← h.1]; exact ha

theorem digitsLoop_length (t : ParseTable) : ∀ l b, (digitsLoop t b l).2.length ≤ l.length := by
  intro l
  induction l with
  | nil => intro b; simp [digitsLoop]
  | cons c r ih =>
    intro b
    unfold digitsLoop
    split
    · have := ih true; simp only [List.length_cons]; omega
    · split
      · have := ih true; simp only [List.length_cons]; omega
      · simp
    · simp

/-! ### results -/

def Res.st {α} : Res α → PState
  | .ok _ s => s | .perr s => s | .crash _ s => s

/-- "frame" property of a non-recursive reading primitive started in `st`: the store is never
    touched, an `ok` leaves `bound` alone and does not lengthen the input, a crash is one of the
    classes the entry guard converts. -/
def Frame {α} (st : PState) : Res α → Prop
  | .ok _ st' => st'.store = st.store ∧ st'.bound = st.bound ∧ st'.rest.length ≤ st.rest.length
  | .perr st' => st'.store = st.store
  | .crash k st' => st'.store = st.store ∧ k.guarded = true

theorem Frame.andThen {α β} {st : PState} {r : Res α} {f : α → PState → Res β}
    (h : Frame st r) (hf : ∀ a st1, r = .ok a st1 → Frame st1 (f a st1)) : Frame st (r.andThen f) := by
  cases r with
  | ok a st1 =>
    have h1 := hf a st1 rfl
    simp only [Res.andThen_ok]
    obtain ⟨hs, hb, hl⟩ := h
    cases hfa : f a st1 with
    | ok b st2 => rw [hfa] at h1; exact ⟨h1.1.trans hs, h1.2.1.trans hb, Nat.le_trans h1.2.2 hl⟩
    | perr st2 => rw [hfa] at h1; exact h1.trans hs
    | crash k st2 => rw [hfa] at h1; exact ⟨h1.1.trans hs, h1.2⟩
  | perr st1 => exact h
  | crash k st1 => exact h

theorem frame_unexp {α} (st : PState) (h : st.rest ≠ []) : Frame st (unexp st : Res α) := by
  unfold unexp
  split
  · contradiction
  · simp [Frame]

theorem advance_store (t : ParseTable) (st : PState) : (advance t st).store = st.store := rfl
theorem advance_bound (t : ParseTable) (st : PState) : (advance t st).bound = st.bound := rfl
theorem advance_length (t : ParseTable) (st : PState) (h : st.rest ≠ []) :
    (advance t st).rest.length < st.rest.length := by
  cases hr : st.rest with
  | nil => contradiction
  | cons c r =>
    simp [advance, hr]
    have := chomp_length_le t r
    omega

theorem frame_readSubscript (cfg : Cfg) (st : PState) : Frame st (readSubscript cfg st) := by
  have := digitsLoop_length cfg.table st.rest false
  simp only [readSubscript]
  split <;> simp [Frame, Kind.guarded, this]

/-- `readCoords` when the current character carries an index -/
theorem frame_readCoords (cfg : Cfg) (st : PState) (c : Chr) (r : List Chr) (k : Tok) (i : Nat)
    (hr : st.rest = c :: r) (hk : cfg.table.lookup c = some k) (hi : k.index? = some i) :
    Frame st (readCoords cfg st) ∧
    ∀ x st', readCoords cfg st = .ok x st' → x.1 = i ∧ st'.rest.length < st.rest.length := by
  unfold readCoords
  simp only [hr, hk, hi]
  have hne : st.rest ≠ [] := by simp [hr]
  have hlt := advance_length cfg.table st hne
  have hsub := frame_readSubscript cfg (advance cfg.table st)
  constructor
  · have : Frame (advance cfg.table st) ((readSubscript cfg (advance cfg.table st)).andThen fun sub st' => Res.ok (i, sub) st') := by
      apply hsub.andThen
      intro a st1 _
      simp [Frame]
    cases hx : ((readSubscript cfg (advance cfg.table st)).andThen fun sub st' => Res.ok (i, sub) st') with
    | ok a s2 =>
      rw [hx] at this
      simp only [Frame, advance_store, advance_bound] at this ⊢
      exact ⟨this.1, this.2.1, by omega⟩
    | perr s2 => rw [hx] at this; exact this
    | crash k2 s2 => rw [hx] at this; exact this
  · intro x st' hx
    cases hs : readSubscript cfg (advance cfg.table st) with
    | ok a s2 =>
      rw [hs] at hx hsub
      simp at hx
      obtain ⟨rfl, rfl⟩ := hx
      simp only [Frame] at hsub
      exact ⟨rfl, by have := congrArg List.length hr; omega⟩
    | perr s2 => rw [hs] at hx; simp at hx
    | crash k2 s2 => rw [hs] at hx; simp at hx

theorem Store.get_some {st : Store} {i s : Nat} {p : Pred} (h : st.get i s = some p) :
    p ∈ st.preds ∧ p.index = (i : Int) ∧ p.sub = s := by
  unfold Store.get at h
  have h1 := List.mem_of_find?_eq_some h
  have h2 := List.find?_some h
  simp at h2
  exact ⟨h1, h2.1, h2.2⟩

theorem Store.get_none {st : Store} {i s : Nat} (h : st.get i s = none) :
    ∀ q ∈ st.preds, ¬ (q.index = (i : Int) ∧ q.sub = s) := by
  unfold Store.get at h
  rw [List.find?_eq_none] at h
  intro q hq
  have := h q hq
  simpa using this


end Ptx.Parse
