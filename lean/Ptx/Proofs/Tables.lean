/-
  Ptx.Proofs.Tables — from the Boolean totality check of the regenerated tables to the facts
  the semantic lemmas use: table functions stay inside `vals`; profiles are canonical.
-/
import Ptx.Sem.Struct
namespace Ptx

theorem mem_sublists {α} : ∀ (xs ys : List α), ys.Sublist xs → ys ∈ sublists xs
  | [], ys, h => by
      cases h; simp [sublists]
  | x :: xs, ys, h => by
      simp only [sublists, List.mem_append, List.mem_map]
      cases h with
      | cons _ h => exact Or.inl (mem_sublists xs ys h)
      | cons_cons _ h => exact Or.inr ⟨_, mem_sublists xs _ h, rfl⟩

namespace Tables
variable (T : Tables)

/-- semantic closedness of the tables -/
structure Closed (modal quantified emptyOk : Bool) : Prop where
  f1 : ∀ o, o = Op1.asrt ∨ o = Op1.neg → ∀ a ∈ T.vals, T.f1 o a ∈ T.vals
  f2 : ∀ o, ∀ a ∈ T.vals, ∀ b ∈ T.vals, T.f2 o a b ∈ T.vals
  qf : quantified = true → ∀ q P, P ∈ T.profiles → P ≠ [] → (T.qf.lookup (q, P)).getD .F ∈ T.vals
  mf : modal = true → ∀ o, o = Op1.poss ∨ o = Op1.nec → ∀ P, P ∈ T.profiles → (P ≠ [] ∨ emptyOk = true) →
        (T.mf.lookup (o, P)).getD .F ∈ T.vals
  una : T.unassigned ∈ T.vals

theorem closed_of_totalB (m q e : Bool) (h : T.totalB m q e = true) : T.Closed m q e := by
  simp only [totalB, Bool.and_eq_true, List.all_eq_true, Bool.or_eq_true, Bool.not_eq_true'] at h
  obtain ⟨⟨⟨⟨⟨h1, h2⟩, h3⟩, h4⟩, _⟩, h6⟩ := h
  refine ⟨?_, ?_, ?_, ?_, ?_⟩
  · intro o ho a ha
    have := h1 o (by rcases ho with rfl | rfl <;> simp) a ha
    unfold Tables.f1
    split at this
    · next r hr => simp [hr]; simpa using this
    · simp at this
  · intro o a ha b hb
    have := h2 o (by cases o <;> simp [Op2.all]) a ha b hb
    unfold Tables.f2
    split at this
    · next r hr => simp [hr]; simpa using this
    · simp at this
  · intro hq qq P hP hne
    rcases h3 with h3 | h3
    · simp [hq] at h3
    · have := h3 qq (by cases qq <;> simp [Quant.all]) P hP
      rcases this with this | this
      · cases P <;> simp_all
      · split at this
        · next r hr => simp [hr]; simpa using this
        · simp at this
  · intro hm o ho P hP hne
    rcases h4 with h4 | h4
    · simp [hm] at h4
    · have := h4 o (by rcases ho with rfl | rfl <;> simp) P hP
      rcases this with this | this
      · rcases hne with hne | hne
        · cases P <;> simp_all
        · simp [hne] at this
      · split at this
        · next r hr => simp [hr]; simpa using this
        · simp at this
  · simpa using h6

theorem canon_sublist (P : List V) : (T.canon P).Sublist T.vals := by
  unfold canon; exact List.filter_sublist

theorem canon_mem_profiles (P : List V) : T.canon P ∈ T.profiles :=
  mem_sublists _ _ (T.canon_sublist P)

theorem mem_canon {P : List V} {v : V} : v ∈ T.canon P ↔ v ∈ T.vals ∧ v ∈ P := by
  simp [canon, List.mem_filter]

/-- two value lists with the same members (within vals) have the same canonical form -/
theorem canon_congr {P Q : List V} (h : ∀ v ∈ T.vals, (v ∈ P ↔ v ∈ Q)) : T.canon P = T.canon Q := by
  unfold canon
  apply List.filter_congr
  intro v hv
  have := h v hv
  by_cases hp : v ∈ P <;> simp_all

end Tables

/-- profile is already canonical, and lists exactly the values taken -/
theorem mem_profile {T : Tables} {ι : Type} {S : ι → Prop} {f : ι → V} {v : V} :
    v ∈ profile T S f ↔ v ∈ T.vals ∧ ∃ i, S i ∧ f i = v := by
  classical
  simp [profile, List.mem_filter]

theorem canon_profile (T : Tables) {ι : Type} (S : ι → Prop) (f : ι → V) :
    T.canon (profile T S f) = profile T S f := by
  classical
  unfold Tables.canon profile
  apply List.filter_congr
  intro v hv
  by_cases h : ∃ i, S i ∧ f i = v
  · simp [h, List.mem_filter, hv]
  · simp [h, List.mem_filter]

theorem profile_mem_profiles (T : Tables) {ι : Type} (S : ι → Prop) (f : ι → V) :
    profile T S f ∈ T.profiles := by
  rw [← canon_profile]; exact T.canon_mem_profiles _

end Ptx
