/-
  Ptx.Proofs.Grow — structural facts about legal steps that do not mention semantics:
  every branch after a step is a branch from before or extends an OPEN branch from before
  ("branches only grow; a closed branch is never extended"), hence every branch of every
  reachable tableau starts with the nodes of the trunk.
-/
import Ptx.Proofs.Sound
namespace Ptx

/-- `b'` is `b` or `b` with nodes appended (ticks / parent may change) -/
def Branch.Extends (b' b : Branch) : Prop := ∃ ns, b'.nodes = b.nodes ++ ns

theorem Branch.Extends.refl (b : Branch) : b.Extends b := ⟨[], by simp⟩
theorem Branch.Extends.trans {a b c : Branch} (h1 : a.Extends b) (h2 : b.Extends c) : a.Extends c := by
  obtain ⟨n1, e1⟩ := h1
  obtain ⟨n2, e2⟩ := h2
  exact ⟨n2 ++ n1, by rw [e1, e2, List.append_assoc]⟩

theorem extend_extends (b : Branch) (ns : List Node) (tick : Option Nat) : (b.extend ns tick).Extends b :=
  ⟨ns, by simp [Branch.extend]⟩

theorem mem_fork {t : Tableau} {bi : Nat} {b0 : Branch} {extra : List Branch} {x : Branch}
    (h : x ∈ t.fork bi b0 extra) : x ∈ t ∨ x = b0 ∨ x ∈ extra := by
  unfold Tableau.fork at h
  rcases List.mem_append.1 h with h | h
  · rcases List.mem_or_eq_of_mem_set h with h | h
    · exact Or.inl h
    · exact Or.inr (Or.inl h)
  · exact Or.inr (Or.inr h)

theorem fork_nil (t : Tableau) (bi : Nat) (b0 : Branch) : t.fork bi b0 [] = t.set bi b0 := by
  simp [Tableau.fork]

/-- after a legal step on open branch `b`, every branch is an old one or extends `b` -/
theorem applyAt_grow {L : LogicData} {t t' : Tableau} {bi : Nat} {b : Branch} {s : Step}
    (h : applyAt L t bi b s = some t') : ∀ x ∈ t', x ∈ t ∨ x.Extends b := by
  intro x hx
  cases s with
  | rule b' n c wo =>
      simp only [applyAt] at h
      split at h
      · next s0 d w hn =>
        split at h
        · next r g0 rest hg =>
          simp only [Option.some.injEq] at h
          subst h
          rcases mem_fork hx with hx | hx | hx
          · exact Or.inl hx
          · subst hx; exact Or.inr (extend_extends _ _ _)
          · obtain ⟨g, _, rfl⟩ := List.mem_map.1 hx
            exact Or.inr ⟨g, by simp [Branch.extend]⟩
        · cases h
      · cases h
  | close b' s0 w =>
      simp only [applyAt] at h
      split at h
      · simp only [Option.some.injEq] at h
        subst h
        rcases List.mem_or_eq_of_mem_set hx with hx | hx
        · exact Or.inl hx
        · subst hx; exact Or.inr (extend_extends _ _ _)
      · cases h
  | closeIdent b' n =>
      simp only [applyAt] at h
      split at h
      · split at h
        · simp only [Option.some.injEq] at h
          subst h
          rcases List.mem_or_eq_of_mem_set hx with hx | hx
          · exact Or.inl hx
          · subst hx; exact Or.inr (extend_extends _ _ _)
        · cases h
      · cases h
  | frame b' r w1 w2 w3 =>
      simp only [applyAt] at h
      split at h
      · cases h
      · split at h
        · simp only [Option.some.injEq] at h
          subst h
          rcases List.mem_or_eq_of_mem_set hx with hx | hx
          · exact Or.inl hx
          · subst hx; exact Or.inr (extend_extends _ _ _)
        · cases h
  | ident b' i p =>
      simp only [applyAt] at h
      split at h
      · cases h
      · split at h
        · split at h
          · simp only [Option.some.injEq] at h
            subst h
            rcases List.mem_or_eq_of_mem_set hx with hx | hx
            · exact Or.inl hx
            · subst hx; exact Or.inr (extend_extends _ _ _)
          · cases h
        · cases h
  | quit b' name tick =>
      simp only [applyAt] at h
      split at h
      · cases h
      · simp only [Option.some.injEq] at h
        subst h
        rcases List.mem_or_eq_of_mem_set hx with hx | hx
        · exact Or.inl hx
        · subst hx; exact Or.inr (extend_extends _ _ _)

/-- a legal step only extends OPEN branches: every branch afterwards is an old branch or extends
    an old open branch -/
theorem applyStep_grow {L : LogicData} {t t' : Tableau} {s : Step} (h : applyStep L t s = some t') :
    ∀ x ∈ t', x ∈ t ∨ ∃ b ∈ t, b.closed = false ∧ x.Extends b := by
  unfold applyStep at h
  split at h
  · cases h
  · next b hb =>
    split at h
    · cases h
    · next hc =>
      intro x hx
      rcases applyAt_grow h x hx with hx | hx
      · exact Or.inl hx
      · exact Or.inr ⟨b, List.mem_of_getElem? hb, by simpa using hc, hx⟩

/-- every branch of a reachable tableau extends a branch of the starting tableau -/
theorem deriv_grow {L : LogicData} {t t' : Tableau} (h : Deriv L t t') :
    ∀ x ∈ t', ∃ b ∈ t, x.Extends b := by
  induction h with
  | refl t => intro x hx; exact ⟨x, hx, Branch.Extends.refl x⟩
  | step s hs _ ih =>
      intro x hx
      obtain ⟨b1, hb1, hx1⟩ := ih x hx
      rcases applyStep_grow hs b1 hb1 with h0 | ⟨b0, hb0, _, hb10⟩
      · exact ⟨b1, h0, hx1⟩
      · exact ⟨b0, hb0, hx1.trans hb10⟩

/-- the nodes of the trunk: premises, then the conclusion node -/
def trunkNodes (L : LogicData) (arg : Argument) : List Node :=
  let w : Option Nat := if L.modal then some 0 else none
  arg.premises.map (fun p => Node.sent p L.trunkPrem w) ++
    [Node.sent (if L.trunkConcNeg then arg.conclusion.neg else arg.conclusion) L.trunkConc w]

theorem trunk_eq (L : LogicData) (arg : Argument) : trunk L arg = [{ nodes := trunkNodes L arg }] := rfl

/-- every branch of every tableau reachable from the trunk contains every trunk node -/
theorem deriv_trunk_nodes {L L' : LogicData} {arg : Argument} {t : Tableau} (h : Deriv L' (trunk L arg) t) :
    ∀ x ∈ t, ∀ n ∈ trunkNodes L arg, n ∈ x.nodes := by
  intro x hx n hn
  obtain ⟨b, hb, ns, hns⟩ := deriv_grow h x hx
  rw [trunk_eq, List.mem_singleton] at hb
  subst hb
  rw [hns]
  exact List.mem_append_left _ hn

end Ptx
