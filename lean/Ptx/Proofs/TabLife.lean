/-
  Helper lemmas for C17: the invariant of the life-cycle machine and its preservation.
-/
import Ptx.Tab.Lifecycle
namespace Ptx.Tab.Life

/-- What holds in every state reachable from `init o`. -/
structure Inv (s : State) : Prop where
  stepFlag : s.hasStepLimit = positive s.opts.maxSteps
  timeFlag : s.hasTimeLimit = positive s.opts.timeout
  prem   : s.premature = false → s.finished = true
  tout   : s.timedOut = true → s.finished = true
  tree1  : s.treeBuilt = true → s.finished = true ∧ s.timedOut = false
  tree2  : s.finished = true → s.timedOut = false → s.treeBuilt = true
  stats  : s.statsBuilt = s.finished
  openB  : s.hasOpen = true → s.hasBranch = true
  lock   : s.hasBranch = true → s.rulesLocked = true
  startB : s.started = true → s.hasBranch = true
  trunk  : s.trunkBuilt = true → s.started = true
  limit  : ∀ m, s.opts.maxSteps = some m → 0 < m → (s.histLen : Int) ≤ m

theorem inv_init (o : Opts) : Inv (init o) := by
  constructor <;> simp [init]
  intro m _ hm; omega

theorem finishCore_opts (s : State) (k : Nat) : (finishCore s k).1.opts = s.opts := by
  unfold finishCore; split <;> rfl

theorem finishCore_finished (s : State) (k : Nat) : (finishCore s k).1.finished = true := by
  unfold finishCore; split <;> simp_all

theorem finishCore_histLen (s : State) (k : Nat) : (finishCore s k).1.histLen = s.histLen := by
  unfold finishCore; split <;> rfl

theorem Inv.noTree {s : State} (h : Inv s) (hf : s.finished = false) : s.treeBuilt = false := by
  cases ht : s.treeBuilt
  · rfl
  · have := (h.tree1 ht).1; simp_all

theorem Inv.isPremature {s : State} (h : Inv s) (hf : s.finished = false) : s.premature = true := by
  cases hp : s.premature
  · have := h.prem hp; simp_all
  · rfl

theorem Inv.notTimedOut {s : State} (h : Inv s) (hf : s.finished = false) : s.timedOut = false := by
  cases hp : s.timedOut
  · rfl
  · have := h.tout hp; simp_all

/-- finish() from an unfinished state whose PREMATURE / TIMED_OUT bits were just changed -/
theorem inv_finishCore_mod {s : State} (h : Inv s) (hf : s.finished = false) (p t : Bool) (k : Nat) :
    Inv (finishCore { s with premature := p, timedOut := t } k).1 := by
  have hnt := h.noTree hf
  obtain ⟨h1, h2, h3, h4, h5, h6, h7, h8, h9, h10, h11, h12⟩ := h
  simp only [finishCore, hf, Bool.false_eq_true, ↓reduceIte]
  generalize wantModels _ = w
  generalize clockExceeded _ _ = c
  cases w <;> cases c <;> cases t <;> constructor <;> simp_all

theorem inv_finishCore {s : State} (h : Inv s) (k : Nat) : Inv (finishCore s k).1 := by
  cases hf : s.finished
  · exact inv_finishCore_mod h hf s.premature s.timedOut k
  · simp only [finishCore, hf, ↓reduceIte]; exact h

theorem not_exceeded_lt {s : State} (h : Inv s) (hx : maxStepsExceeded s = false) :
    ∀ m, s.opts.maxSteps = some m → 0 < m → (s.histLen : Int) + 1 ≤ m := by
  intro m hm hpos
  have h1 := h.stepFlag
  simp [maxStepsExceeded, hm, positive, h1, hpos] at hx
  omega

theorem inv_stepCore {s : State} (h : Inv s) (i : StepIn) : Inv (stepCore s i).1 := by
  unfold stepCore
  split
  · exact h
  rename_i hf
  simp only [Bool.not_eq_true] at hf
  split
  · exact inv_finishCore_mod h hf s.premature true i.mclk
  · simp only []
    split
    · -- an entry is applied
      rename_i hx he
      have hlim := not_exceeded_lt h (by simp_all)
      have hnt := h.noTree hf
      obtain ⟨h1, h2, h3, h4, h5, h6, h7, h8, h9, h10, h11, h12⟩ := h
      constructor <;> simp_all
    · exact inv_finishCore_mod h hf _ s.timedOut i.mclk

theorem inv_buildLoop {s : State} (h : Inv s) (is : List StepIn) : Inv (buildLoop s is).1 := by
  induction is generalizing s with
  | nil => unfold buildLoop; split <;> exact h
  | cons i is ih =>
    unfold buildLoop
    have hi := inv_stepCore h i
    split <;> rename_i heq <;> rw [heq] at hi
    · exact ih hi
    · exact hi
    · exact hi

theorem inv_buildTrunkCore {s : State} (h : Inv s) : Inv (buildTrunkCore s).1 := by
  unfold buildTrunkCore
  (repeat' split) <;> try exact h
  obtain ⟨h1, h2, h3, h4, h5, h6, h7, h8, h9, h10, h11, h12⟩ := h
  constructor <;> simp_all

theorem inv_exec {s : State} (h : Inv s) (op : Op) : Inv (exec s op).1 := by
  cases op with
  | step i => exact inv_stepCore h i
  | finish k => exact inv_finishCore h k
  | build is => exact inv_buildLoop h is
  | buildTrunk => exact inv_buildTrunkCore h
  | setArgument a =>
    simp only [exec]
    split
    · exact h
    · have h' : Inv { s with arg := some a } := by
        obtain ⟨h1, h2, h3, h4, h5, h6, h7, h8, h9, h10, h11, h12⟩ := h
        constructor <;> simp_all
      split
      · exact inv_buildTrunkCore h'
      · exact h'
  | setLogic l =>
    simp only [exec]
    split
    · exact h
    split
    · exact h
    · have h' : Inv { s with logic := some l, rules := s.rules + 1 } := by
        obtain ⟨h1, h2, h3, h4, h5, h6, h7, h8, h9, h10, h11, h12⟩ := h
        constructor <;> simp_all
      split
      · exact inv_buildTrunkCore h'
      · exact h'
  | addBranch =>
    obtain ⟨h1, h2, h3, h4, h5, h6, h7, h8, h9, h10, h11, h12⟩ := h
    constructor <;> simp_all [exec]
  | rulesMutate =>
    simp only [exec]
    split
    · exact h
    · obtain ⟨h1, h2, h3, h4, h5, h6, h7, h8, h9, h10, h11, h12⟩ := h
      constructor <;> simp_all
  | rulesLock =>
    simp only [exec]
    split
    · exact h
    · obtain ⟨h1, h2, h3, h4, h5, h6, h7, h8, h9, h10, h11, h12⟩ := h
      constructor <;> simp_all

theorem inv_run {s : State} (h : Inv s) (ops : List Op) : Inv (run s ops) := by
  induction ops generalizing s with
  | nil => exact h
  | cons op ops ih => exact ih (inv_exec h op)

theorem inv_trace {s : State} (h : Inv s) (ops : List Op) : ∀ s' ∈ trace s ops, Inv s' := by
  induction ops generalizing s with
  | nil => simp [trace]
  | cons op ops ih =>
    intro s' hs'
    simp only [trace, List.mem_cons] at hs'
    rcases hs' with rfl | hs'
    · exact inv_exec h op
    · exact ih (inv_exec h op) s' hs'

theorem Reachable.inv {s : State} (h : Reachable s) : Inv s := by
  obtain ⟨o, ops, rfl⟩ := h
  exact inv_run (inv_init o) ops

theorem Reachable.exec {s : State} (h : Reachable s) (op : Op) : Reachable (exec s op).1 := by
  obtain ⟨o, ops, rfl⟩ := h
  refine ⟨o, ops ++ [op], ?_⟩
  have : ∀ (s : State) (ops : List Op), run s (ops ++ [op]) = (Life.exec (run s ops) op).1 := by
    intro s ops
    induction ops generalizing s with
    | nil => rfl
    | cons x xs ih => simp only [List.cons_append, run]; exact ih _
  exact (this _ _).symm

/-! ### opts never change -/

theorem stepCore_opts (s : State) (i : StepIn) : (stepCore s i).1.opts = s.opts := by
  unfold stepCore
  split
  · rfl
  split
  · simp [finishCore_opts]
  · simp only []
    split
    · rfl
    · simp [finishCore_opts]

theorem buildLoop_opts (s : State) (is : List StepIn) : (buildLoop s is).1.opts = s.opts := by
  induction is generalizing s with
  | nil => unfold buildLoop; split <;> rfl
  | cons i is ih =>
    unfold buildLoop
    have hi := stepCore_opts s i
    split <;> rename_i heq <;> rw [heq] at hi
    · rw [ih, hi]
    · exact hi
    · exact hi

theorem buildTrunkCore_opts (s : State) : (buildTrunkCore s).1.opts = s.opts := by
  unfold buildTrunkCore; (repeat' split) <;> rfl

theorem exec_opts (s : State) (op : Op) : (exec s op).1.opts = s.opts := by
  cases op <;> simp only [exec, stepCore_opts, finishCore_opts, buildLoop_opts, buildTrunkCore_opts]
    <;> (repeat' split) <;> simp [buildTrunkCore_opts]

theorem run_opts (s : State) (ops : List Op) : (run s ops).opts = s.opts := by
  induction ops generalizing s with
  | nil => rfl
  | cons op ops ih => simp [run, ih, exec_opts]

/-! ### erasing the step limit (for big_limit_noop) -/

/-- `Safe n s`: fewer than "limit" steps whenever the limit is consulted -/
def Safe (n : Nat) (s : State) : Prop :=
  s.histLen ≤ n ∧ (s.hasStepLimit = true → ∀ m, s.opts.maxSteps = some m → (n : Int) < m)

theorem safe_not_exceeded {n : Nat} {s : State} (h : Safe n s) : maxStepsExceeded s = false := by
  unfold maxStepsExceeded
  cases hl : s.hasStepLimit
  · simp
  · cases hm : s.opts.maxSteps with
    | none => simp
    | some m =>
      have := h.2 hl m hm
      have := h.1
      simp; omega

theorem erase_not_exceeded (s : State) : maxStepsExceeded (eraseLimit s) = false := by
  simp [maxStepsExceeded, eraseLimit]

theorem finishCore_erase (s : State) (k : Nat) :
    eraseLimit (finishCore s k).1 = (finishCore (eraseLimit s) k).1 ∧
    (finishCore s k).2 = (finishCore (eraseLimit s) k).2 := by
  have e1 : wantModels (eraseLimit s) = wantModels s := rfl
  have e2 : clockExceeded (eraseLimit s) k = clockExceeded s k := rfl
  have e3 : (eraseLimit s).finished = s.finished := rfl
  unfold finishCore
  rw [e1, e2, e3]
  split <;> exact ⟨rfl, rfl⟩

theorem finishCore_safe {n : Nat} {s : State} (h : Safe n s) (k : Nat) :
    Safe n (finishCore s k).1 := by
  unfold Safe at *
  unfold finishCore
  split
  · exact h
  · simp only []; (repeat' split) <;> simp_all

theorem stepCore_erase {n : Nat} {s : State} (h : Safe n s) (i : StepIn)
    (hi : i.next = natural n) :
    Safe n (stepCore s i).1 ∧ eraseLimit (stepCore s i).1 = (stepCore (eraseLimit s) i).1 ∧
    (stepCore s i).2 = (stepCore (eraseLimit s) i).2 := by
  have hx := safe_not_exceeded h
  have hx' := erase_not_exceeded s
  have e3 : (eraseLimit s).finished = s.finished := rfl
  have hce : clockExceeded (eraseLimit s) i.clk = clockExceeded s i.clk := rfl
  have hh : (eraseLimit s).hasOpen = s.hasOpen := rfl
  have hl : (eraseLimit s).histLen = s.histLen := rfl
  unfold stepCore
  rw [e3, hce, hx, hx', hh, hl]
  split
  · exact ⟨h, rfl, rfl⟩
  split
  · have h' : Safe n { s with timedOut := true } := h
    exact ⟨finishCore_safe h' _, (finishCore_erase _ _).1, rfl⟩
  · simp only []
    split
    · rename_i he
      refine ⟨?_, rfl, rfl⟩
      have : s.histLen < n := by
        simp only [Bool.not_false, Bool.true_and, Bool.and_eq_true, hi, natural, decide_eq_true_eq] at he
        exact he.2
      exact ⟨by simp; omega, h.2⟩
    · have h' : Safe n { s with premature := if false = true then s.premature else false } := h
      have := finishCore_erase { s with premature := if false = true then s.premature else false } i.mclk
      refine ⟨finishCore_safe h' _, this.1, ?_⟩
      rw [this.2]
      rfl

theorem buildLoop_erase {n : Nat} {s : State} (h : Safe n s) (is : List StepIn)
    (hi : ∀ i ∈ is, i.next = natural n) :
    Safe n (buildLoop s is).1 ∧ eraseLimit (buildLoop s is).1 = (buildLoop (eraseLimit s) is).1 ∧
    (buildLoop s is).2 = (buildLoop (eraseLimit s) is).2 := by
  induction is generalizing s with
  | nil =>
    unfold buildLoop
    have : (eraseLimit s).finished = s.finished := rfl
    rw [this]
    split <;> exact ⟨h, rfl, rfl⟩
  | cons i is ih =>
    have hs := stepCore_erase h i (hi i (by simp))
    unfold buildLoop
    rcases hr : stepCore s i with ⟨s', r⟩
    rcases hr' : stepCore (eraseLimit s) i with ⟨t', r'⟩
    rw [hr, hr'] at hs
    obtain ⟨h1, h2, h3⟩ := hs
    simp only at h1 h2 h3
    subst h3 h2
    cases r with
    | entry => exact ih h1 (fun j hj => hi j (by simp [hj]))
    | none => exact ⟨h1, rfl, rfl⟩
    | raised e => exact ⟨h1, rfl, rfl⟩

theorem buildTrunkCore_erase (s : State) :
    eraseLimit (buildTrunkCore s).1 = (buildTrunkCore (eraseLimit s)).1 ∧
    (buildTrunkCore s).2 = (buildTrunkCore (eraseLimit s)).2 := by
  unfold buildTrunkCore
  simp only [eraseLimit]
  (repeat' split) <;> simp_all

theorem buildTrunkCore_safe {n : Nat} {s : State} (h : Safe n s) :
    Safe n (buildTrunkCore s).1 := by
  unfold buildTrunkCore
  (repeat' split) <;> exact h

theorem exec_erase {n : Nat} {s : State} (h : Safe n s) (op : Op)
    (hop : UsesChooser (natural n) op) :
    Safe n (exec s op).1 ∧ eraseLimit (exec s op).1 = (exec (eraseLimit s) op).1 ∧
    (exec s op).2 = (exec (eraseLimit s) op).2 := by
  cases op with
  | step i =>
    have := stepCore_erase h i hop
    exact ⟨this.1, this.2.1, by simp only [exec]; rw [this.2.2]⟩
  | finish k =>
    have := finishCore_erase s k
    exact ⟨finishCore_safe h k, this.1, by simp only [exec]; rw [this.2]⟩
  | build is => exact buildLoop_erase h is hop
  | buildTrunk => exact ⟨buildTrunkCore_safe h, buildTrunkCore_erase s⟩
  | setArgument a =>
    simp only [exec]
    have e1 : (eraseLimit s).started = s.started := rfl
    have e2 : (eraseLimit s).logic = s.logic := rfl
    have e3 : (eraseLimit s).opts.autoBuildTrunk = s.opts.autoBuildTrunk := rfl
    rw [e1, e2, e3]
    split
    · exact ⟨h, rfl, rfl⟩
    · split
      · have h' : Safe n { s with arg := some a } := h
        exact ⟨buildTrunkCore_safe h', buildTrunkCore_erase _⟩
      · exact ⟨h, rfl, rfl⟩
  | setLogic l =>
    simp only [exec]
    have e1 : (eraseLimit s).started = s.started := rfl
    have e2 : (eraseLimit s).arg = s.arg := rfl
    have e3 : (eraseLimit s).opts.autoBuildTrunk = s.opts.autoBuildTrunk := rfl
    have e4 : (eraseLimit s).rulesLocked = s.rulesLocked := rfl
    rw [e1, e2, e3, e4]
    split
    · exact ⟨h, rfl, rfl⟩
    split
    · exact ⟨h, rfl, rfl⟩
    · split
      · have h' : Safe n { s with logic := some l, rules := s.rules + 1 } := h
        exact ⟨buildTrunkCore_safe h', buildTrunkCore_erase _⟩
      · exact ⟨h, rfl, rfl⟩
  | addBranch => exact ⟨h, rfl, rfl⟩
  | rulesMutate =>
    simp only [exec]
    have e4 : (eraseLimit s).rulesLocked = s.rulesLocked := rfl
    rw [e4]
    split <;> exact ⟨h, rfl, rfl⟩
  | rulesLock =>
    simp only [exec]
    have e4 : (eraseLimit s).rulesLocked = s.rulesLocked := rfl
    rw [e4]
    split <;> exact ⟨h, rfl, rfl⟩

theorem run_erase {n : Nat} {s : State} (h : Safe n s) (ops : List Op)
    (hops : ∀ op ∈ ops, UsesChooser (natural n) op) :
    eraseLimit (run s ops) = run (eraseLimit s) ops ∧ outs s ops = outs (eraseLimit s) ops := by
  induction ops generalizing s with
  | nil => exact ⟨rfl, rfl⟩
  | cons op ops ih =>
    have h1 := exec_erase h op (hops op (by simp))
    have h2 := ih h1.1 (fun o ho => hops o (by simp [ho]))
    simp only [run, outs]
    rw [h2.1, h2.2, h1.2.1, h1.2.2]
    exact ⟨rfl, rfl⟩

/-! ### a raised timeout -/

theorem finishCore_timeout {s : State} (hnt : s.finished = false → s.treeBuilt = false) (k : Nat)
    (h : (finishCore s k).2 = some .timeout) :
    (finishCore s k).1.finished = true ∧ (finishCore s k).1.timedOut = true ∧
    (finishCore s k).1.treeBuilt = false := by
  unfold finishCore at h ⊢
  split
  · simp_all
  · rename_i hf
    simp only [] at h ⊢
    generalize wantModels _ = w at h ⊢
    generalize clockExceeded _ _ = c at h ⊢
    cases w <;> cases c <;> simp_all

theorem finishCore_of_timedOut {s : State} (hf : s.finished = false) (ht : s.timedOut = true)
    (hnt : s.treeBuilt = false) (k : Nat) :
    (finishCore s k).1.finished = true ∧ (finishCore s k).1.timedOut = true ∧
    (finishCore s k).1.treeBuilt = false := by
  simp [finishCore, hf, ht, hnt]

theorem stepCore_eq_finished {s : State} (i : StepIn) (hf : s.finished = true) :
    stepCore s i = (s, .none) := by
  simp [stepCore, hf]

theorem stepCore_eq_clock {s : State} (i : StepIn) (hf : s.finished = false)
    (hc : clockExceeded s i.clk = true) :
    stepCore s i = ((finishCore { s with timedOut := true } i.mclk).1, .raised .timeout) := by
  unfold stepCore
  rw [if_neg (by simp [hf]), if_pos hc]

theorem stepCore_eq_entry {s : State} (i : StepIn) (hf : s.finished = false)
    (hc : clockExceeded s i.clk = false)
    (he : (!maxStepsExceeded s && (s.hasOpen && i.next s.histLen)) = true) :
    stepCore s i =
      ({ s with histLen := s.histLen + 1, started := true, hasOpen := i.openAfter }, .entry) := by
  unfold stepCore
  rw [if_neg (by simp [hf]), if_neg (by simp [hc])]
  simp only []
  rw [if_pos he]

theorem stepCore_eq_finish {s : State} (i : StepIn) (hf : s.finished = false)
    (hc : clockExceeded s i.clk = false)
    (he : (!maxStepsExceeded s && (s.hasOpen && i.next s.histLen)) = false) :
    stepCore s i =
      ((finishCore { s with premature := if maxStepsExceeded s then s.premature else false } i.mclk).1,
       match (finishCore { s with premature := if maxStepsExceeded s then s.premature else false } i.mclk).2 with
       | some e => .raised e | Option.none => .none) := by
  unfold stepCore
  rw [if_neg (by simp [hf]), if_neg (by simp [hc])]
  simp only []
  rw [if_neg (by simp [he])]
  congr 1

theorem stepCore_timeout {s : State} (hi : Inv s) (i : StepIn)
    (h : (stepCore s i).2 = .raised .timeout) :
    (stepCore s i).1.finished = true ∧ (stepCore s i).1.timedOut = true ∧
    (stepCore s i).1.treeBuilt = false := by
  cases hf : s.finished
  case true => rw [stepCore_eq_finished i hf] at h; simp at h
  have hnt := hi.noTree hf
  cases hc : clockExceeded s i.clk
  case true =>
    rw [stepCore_eq_clock i hf hc]
    exact finishCore_of_timedOut (s := { s with timedOut := true }) hf rfl hnt _
  cases he : (!maxStepsExceeded s && (s.hasOpen && i.next s.histLen))
  case true => rw [stepCore_eq_entry i hf hc he] at h; simp at h
  rw [stepCore_eq_finish i hf hc he] at h ⊢
  have key := finishCore_timeout
    (s := { s with premature := if maxStepsExceeded s then s.premature else false }) (fun _ => hnt) i.mclk
  revert h key
  generalize finishCore _ i.mclk = r
  intro h key
  rcases r with ⟨s', _ | e⟩
  · simp at h
  · simp only [StepRes.raised.injEq] at h
    subst h
    exact key rfl

theorem buildLoop_timeout {s : State} (hi : Inv s) (is : List StepIn)
    (h : (buildLoop s is).2 = .raised .timeout) :
    (buildLoop s is).1.finished = true ∧ (buildLoop s is).1.timedOut = true ∧
    (buildLoop s is).1.treeBuilt = false := by
  induction is generalizing s with
  | nil => unfold buildLoop at h; split at h <;> simp at h
  | cons i is ih =>
    unfold buildLoop at h ⊢
    have h1 := inv_stepCore hi i
    have h2 := stepCore_timeout hi i
    rcases hs : stepCore s i with ⟨s', r⟩
    rw [hs] at h h1 h2
    cases r with
    | entry => exact ih h1 h
    | none => simp at h
    | raised e =>
      simp only at h
      injection h with h
      subst h
      exact h2 rfl

end Ptx.Tab.Life
