/-
  Ptx.Proofs.Restrict — restricting the rule table changes neither the semantics nor the
  side-conditions that do not mention rules; the restricted table passes the rule side-checks.
-/
import Ptx.Proofs.Step
import Ptx.Sem.Sem
namespace Ptx
namespace LogicData
variable (L : LogicData)

theorem restrict_ruleSoundB (p : RuleKey → Rule → Bool) (k : RuleKey) (r : Rule) :
    (L.restrict p).ruleSoundB k r = L.ruleSoundB k r := rfl

theorem soundPart_unsound : L.soundPart.unsoundRules = [] := by
  unfold unsoundRules soundPart
  simp only [restrict_ruleSoundB]
  simp only [restrict, List.filter_filter]
  rw [List.map_eq_nil_iff, List.filter_eq_nil_iff]
  rintro ⟨k, r⟩ _
  simp

theorem restrict_unsound_nil (p : RuleKey → Rule → Bool) (h : L.unsoundRules = []) :
    (L.restrict p).unsoundRules = [] := by
  unfold unsoundRules at h ⊢
  simp only [restrict_ruleSoundB]
  simp only [restrict, List.filter_filter]
  rw [List.map_eq_nil_iff, List.filter_eq_nil_iff] at h ⊢
  rintro ⟨k, r⟩ hm
  have := h (k, r) hm
  simp at this ⊢
  intro hf; rw [this] at hf; cases hf

theorem restrict_vocab (p : RuleKey → Rule → Bool) (h : L.vocabOKB = true) : (L.restrict p).vocabOKB = true := by
  unfold vocabOKB at h ⊢
  simp only [restrict, List.all_eq_true] at h ⊢
  intro x hx
  exact h x (List.mem_filter.1 hx).1

/-- from the Boolean core check to the hypotheses of the step theorem, for the sound part of the
    rule table -/
theorem soundOK_of_core (h : L.soundCoreB = true) : L.soundPart.SoundOK := by
  simp only [soundCoreB, Bool.and_eq_true, List.isEmpty_iff] at h
  obtain ⟨⟨⟨⟨⟨h1, h2⟩, h3⟩, h4⟩, h5⟩, h6⟩ := h
  exact ⟨h1, soundPart_unsound L, h2, h3, h4, h5, restrict_vocab _ _ h6⟩

/-- with an empty unsound set the table itself qualifies -/
theorem soundOK_of_core_nil (h : L.soundCoreB = true) (hu : L.unsoundRules = []) : L.SoundOK := by
  simp only [soundCoreB, Bool.and_eq_true, List.isEmpty_iff] at h
  obtain ⟨⟨⟨⟨⟨h1, h2⟩, h3⟩, h4⟩, h5⟩, h6⟩ := h
  exact ⟨h1, hu, h2, h3, h4, h5, h6⟩

end LogicData

/-- the semantics does not look at the rule table -/
theorem eval_restrict (L : LogicData) (p : RuleKey → Rule → Bool) (M : Struct) :
    ∀ (s : Sent) (e : Env M.D) (w : M.W), eval (L.restrict p) M e w s = eval L M e w s := by
  intro s
  induction s with
  | atom i j => intro e w; simp [eval]
  | pred q ps => intro e w; simp [eval]
  | quant q vi vs b ih =>
      intro e w
      simp only [eval]
      have : (L.restrict p).quantified = L.quantified := rfl
      have hT : (L.restrict p).T = L.T := rfl
      rw [this, hT]
      split
      · congr 2; funext d; exact ih _ _
      · rfl
  | op1 o a ih =>
      intro e w
      simp only [eval]
      have : (L.restrict p).modal = L.modal := rfl
      have hT : (L.restrict p).T = L.T := rfl
      rw [this, hT]
      split
      · split
        · congr 2; funext w'; exact ih _ _
        · rfl
      · rw [ih]
  | op2 o a b iha ihb => intro e w; simp only [eval]; rw [iha, ihb]; rfl

end Ptx
