/-
  Ptx.Proofs.ContAtomic — a raising non-bulk operation leaves the container as it was.

  `Atomic P I`: every primitive of `P`, started in a state satisfying `I`, returns the very
  same state whenever it raises.  The inherited non-bulk methods then have the same property
  (`Atomic.step`), because they either return the receiver untouched or pass on what a single
  primitive returned.
-/
import Ptx.Proofs.ContQSet
import Ptx.Proofs.ContLinq
namespace Ptx.Cont
set_option linter.unusedSectionVars false
variable {C α ρ : Type}

structure Atomic (P : Prims C α ρ) (I : C → Prop) : Prop where
  insert : ∀ {c}, I c → ∀ i v e, (P.insert c i v).2 = .err e → (P.insert c i v).1 = c
  remove : ∀ {c}, I c → ∀ r e, (P.remove c r).2 = .err e → (P.remove c r).1 = c
  delIdx : ∀ {c}, I c → ∀ i e, (P.delIdx c i).2 = .err e → (P.delIdx c i).1 = c
  delSlice : ∀ {c}, I c → ∀ s e, (P.delSlice c s).2 = .err e → (P.delSlice c s).1 = c
  setIdx : ∀ {c}, I c → ∀ i v e, (P.setIdx c i v).2 = .err e → (P.setIdx c i v).1 = c
  setSlice : ∀ {c}, I c → ∀ s vs e, (P.setSlice c s vs).2 = .err e → (P.setSlice c s vs).1 = c
  reverse : ∀ {c}, I c → ∀ e, (P.reverse c).2 = .err e → (P.reverse c).1 = c
  clear : ∀ {c}, I c → ∀ e, (P.clear c).2 = .err e → (P.clear c).1 = c
  copy : ∀ {c}, I c → ∀ e, (P.copy c).2 = .err e → (P.copy c).1 = c
  sort : ∀ {c}, I c → ∀ f, P.sort = some f → ∀ b e, (f c b).2 = .err e → (f c b).1 = c
  wedge : ∀ {c}, I c → ∀ f, P.wedge = some f → ∀ v nb rel e, (f c v nb rel).2 = .err e → (f c v nb rel).1 = c

theorem Atomic.step {P : Prims C α ρ} {I : C → Prop} (A : Atomic P I) {c : C} (hI : I c)
    (op : Op α ρ) (hb : op.bulk = false) (e : Exc) (he : (Cont.step P c op).2 = .err e) :
    (Cont.step P c op).1 = c := by
  cases op with
  | append v => exact A.insert hI _ v e he
  | add v =>
    simp only [Cont.step, Mixin.add] at he ⊢
    have ha := A.insert hI (P.len c) v
    unfold Mixin.append at he ⊢
    generalize P.insert c (P.len c) v = x at he ha ⊢
    obtain ⟨c', o⟩ := x
    cases o with
    | ok r => simp at he
    | err e' => cases e' <;> first | (simp at he; done) | exact ha _ rfl
  | insert i v => exact A.insert hI i v e he
  | wedge v nb rel =>
    simp only [Cont.step] at he ⊢
    cases hw : P.wedge with
    | none => simp [hw]
    | some f => simp only [hw] at he ⊢; exact A.wedge hI f hw v nb rel e he
  | remove r => exact A.remove hI r e he
  | discard v =>
    simp only [Cont.step, Mixin.discard] at he ⊢
    split at he
    · rename_i hh; simp only [hh, ↓reduceIte]; exact A.remove hI _ e he
    · rename_i hh; simp [hh]
  | pop i =>
    simp only [Cont.step, Mixin.pop] at he ⊢
    cases hg : P.getIdx c i with
    | error e' => simp [hg]
    | ok v =>
      simp only [hg] at he ⊢
      have hd := A.delIdx hI i
      generalize P.delIdx c i = x at he hd ⊢
      obtain ⟨c', o⟩ := x
      cases o with
      | ok r => simp at he
      | err e' => exact hd _ rfl
  | delIdx i => exact A.delIdx hI i e he
  | delSlice s => exact A.delSlice hI s e he
  | setIdx i v => exact A.setIdx hI i v e he
  | setSlice s vs => exact A.setSlice hI s vs e he
  | sort b =>
    simp only [Cont.step] at he ⊢
    cases hw : P.sort with
    | none => simp [hw]
    | some f => simp only [hw] at he ⊢; exact A.sort hI f hw b e he
  | reverse => exact A.reverse hI e he
  | clear => exact A.clear hI e he
  | copy => exact A.copy hI e he
  | extend vs => simp [Op.bulk] at hb
  | update vs => simp [Op.bulk] at hb
  | ior vs => simp [Op.bulk] at hb
  | iand vs => simp [Op.bulk] at hb
  | isub vs => simp [Op.bulk] at hb
  | ixor vs => simp [Op.bulk] at hb
  | or vs => simp only [Cont.step, Mixin.or, Mixin.pure]; split <;> rfl
  | and vs => simp only [Cont.step, Mixin.and, Mixin.pure]; split <;> rfl
  | sub vs => simp only [Cont.step, Mixin.sub, Mixin.pure]; split <;> rfl
  | xor vs => simp only [Cont.step, Mixin.xor, Mixin.pure]; split <;> rfl
  | plus vs => simp only [Cont.step, Mixin.or, Mixin.pure]; split <;> rfl
  | setBadKey v => rfl
  | delBadKey => rfl
  | appendUnhashable => rfl
  | setSliceNonIter s => rfl
  | len => rfl
  | contains r => rfl
  | index r => simp only [Cont.step]; split <;> rfl
  | count r => rfl
  | get i => simp only [Cont.step]; split <;> rfl
  | iter => rfl
  | reversed => rfl

/-! ### qset: unconditionally (whatever the hooks, whatever the state) -/

section
variable {σ : Type} [DecidableEq α] (H : Hooks α ρ σ)

theorem QSet.delIdx_atomic (q : QSet α σ) (i : Int) (e : Exc) :
    (QSet.delIdx H q i).2 = .err e → (QSet.delIdx H q i).1 = q := by
  unfold QSet.delIdx
  repeat' (first | (simp; done) | split | simp only [])

theorem QSet.atomic : Atomic (QSet.prims H) (fun _ => True) where
  insert _ i v e := by
    simp only [QSet.prims]; unfold QSet.insert
    repeat' (first | (simp; done) | split | simp only [])
  remove {q} _ r e := by
    simp only [QSet.prims]; unfold QSet.remove
    split
    · simp
    · exact QSet.delIdx_atomic H q _ e
  delIdx {q} _ i e := QSet.delIdx_atomic H q i e
  delSlice _ s e := by
    simp only [QSet.prims]; unfold QSet.delSlice
    repeat' (first | (simp; done) | split | simp only [])
  setIdx _ i v e := by
    simp only [QSet.prims]; unfold QSet.setIdx
    repeat' (first | (simp; done) | split | simp only [])
  setSlice _ s vs e := by
    simp only [QSet.prims]; unfold QSet.setSlice
    repeat' (first | (simp; done) | split | simp only [])
  reverse _ e := by simp [QSet.prims, QSet.reverse]
  clear _ e := by simp [QSet.prims, QSet.clear]
  copy _ e := by simp [QSet.prims, QSet.copy]
  sort _ f hf b e := by
    simp only [QSet.prims, Option.some.injEq] at hf
    subst hf; simp [QSet.sort]
  wedge _ f hf := by simp [QSet.prims] at hf

end

/-! ### linqset: from any state satisfying the invariant -/

section
variable [DecidableEq α]

theorem LinqSet.atomic : Atomic (LinqSet.prims (α := α)) (fun c => ∃ l, LRel c l) where
  insert _ i v e := by
    simp only [LinqSet.prims]; unfold LinqSet.insert
    repeat' (first | (simp; done) | split | simp only [])
  remove _ r e := by
    simp only [LinqSet.prims]; unfold LinqSet.remove
    repeat' (first | (simp; done) | split | simp only [])
  delIdx {c} hI i e := by
    obtain ⟨l, h⟩ := hI
    simp only [LinqSet.prims]; unfold LinqSet.delIdx
    cases hn : normIdx c.len i with
    | none => simp
    | some p =>
      have hp : p < l.length := h.len ▸ normIdx_lt hn
      have hg : c.chain[p]? = some l[p] := by rw [h.abs]; simp [hp]
      have hvt : l[p] ∈ c.table := (h.table _).mpr (List.getElem_mem _)
      simp [hg, hvt]
  delSlice {c} hI s e := by
    obtain ⟨l, h⟩ := hI
    simp only [LinqSet.prims]; unfold LinqSet.delSlice
    cases hs : sliceIdx s c.len with
    | none => simp
    | some idxs =>
      rw [h.len] at hs
      obtain ⟨hnd, hb⟩ := sliceIdx_spec hs
      obtain ⟨t', he, _⟩ := unlinkEach_ok l h.nodup idxs [] c.table c.len hnd hb
        (fun x hx => (h.table x).mpr (pickAt_subset x hx))
      simp only [h.abs, he]
      simp
  setIdx _ i v e := by
    simp only [LinqSet.prims]; unfold LinqSet.setIdx
    repeat' (first | (simp; done) | split | simp only [])
  setSlice {c} hI s vs e := by
    obtain ⟨l, h⟩ := hI
    simp only [LinqSet.prims]; unfold LinqSet.setSlice
    cases hs : sliceIdx s c.len with
    | none => simp
    | some idxs =>
      rw [h.len] at hs
      obtain ⟨hnd, hb⟩ := sliceIdx_spec hs
      obtain ⟨t', he, _⟩ := delKeys_ok (pickAt l idxs) c.table (pickAt_nodup h.nodup hnd)
        (fun x hx => (h.table x).mpr (pickAt_subset x hx))
      simp only [h.abs, he]
      repeat' (first | (simp; done) | split | simp only [])
  reverse _ e := by simp [LinqSet.prims, LinqSet.reverse]
  clear _ e := by simp [LinqSet.prims, LinqSet.clear]
  copy _ e := by simp [LinqSet.prims, LinqSet.copy]
  sort _ f hf := by simp [LinqSet.prims] at hf
  wedge _ f hf v nb rel e := by
    simp only [LinqSet.prims, Option.some.injEq] at hf
    subst hf; unfold LinqSet.wedge
    repeat' (first | (simp; done) | split | simp only [])

end
end Ptx.Cont
