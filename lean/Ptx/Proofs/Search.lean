/-
  Ptx.Proofs.Search — the static half of "completed ⇒ saturated" for the search model: in a state satisfying the
  invariant `Inv`, an open branch on which NO rule has a target, which carries no quit flag and is within the world limit,
  has every rule instance its nodes call for.
-/
import Ptx.Search.Inv
import Ptx.Search.Side
import Ptx.Proofs.Canon
namespace Ptx.Search
open Ptx

/-- the clauses of `LogicData.unsaturated` the search layer is responsible for -/
structure SatMod (L : LogicData) (b : Branch) : Prop where
  nodes : ∀ sn d w, Node.sent sn d w ∈ b.nodes → L.nodeMissing b sn d w = []
  ident : ∀ sn d w, Node.sent sn d w ∈ b.nodes → L.identCloses (.sent sn d w) = false
  closure : ∀ sn d w, Node.sent sn d w ∈ b.nodes → sn.base.isNeg = false →
      (L.closure.lookup (b.litSet L sn.base w) == some true) = false
  frame : L.frameMissing b = []
  identSub : L.identMissing b = []

/-- propositional + modal scope: no quantifier rule applies to a node of the branch, identity substitution has nothing to do -/
def InScope (L : LogicData) (b : Branch) : Prop :=
  (∀ sn d w, Node.sent sn d w ∈ b.nodes → ∀ r whole l0, L.ruleFor sn d = some (r, whole, l0) →
      r.witness = .none ∨ r.witness = .newWorld ∨ r.witness = .eachWorld) ∧ L.identMissing b = []

/-- side condition on the regenerated rule table: each-world rules do not tick their node -/
def EachWorldNoTick (L : LogicData) : Prop :=
  ∀ k r, L.rule? k = some r → r.witness = .eachWorld → r.ticks = false


theorem lookup_mem {α β} [BEq α] [LawfulBEq α] {l : List (α × β)} {k : α} {v : β} (h : l.lookup k = some v) : (k, v) ∈ l := by
  induction l with
  | nil => simp at h
  | cons p l ih =>
    obtain ⟨k', v'⟩ := p
    simp only [List.lookup_cons] at h
    split at h
    · next he =>
      have : k = k' := by simpa using he
      simp only [Option.some.injEq] at h
      subst this; subst h; simp
    · exact List.mem_cons_of_mem _ (ih h)

theorem eachWorldNoTick_of_B {L : LogicData} (h : eachWorldNoTickB L = true) : EachWorldNoTick L := by
  intro k r hr hw
  have hm := lookup_mem (l := L.rules) hr
  unfold eachWorldNoTickB at h
  rw [List.all_eq_true] at h
  have := h _ hm
  simp [hw] at this
  exact this

theorem ruleFor_key {L : LogicData} {sn : Sent} {d : Option Bool} {r : Rule} {whole l0 : Sent} (w : Option Nat)
    (h : L.ruleFor sn d = some (r, whole, l0)) :
    ∃ k, nodeKey (.sent sn d w) = some k ∧ L.rule? k = some r := by
  unfold LogicData.ruleFor at h
  split at h
  · cases h
  · next sh ng wh hdec =>
    split at h
    · next r' l0' hr hl =>
      simp only [Option.some.injEq, Prod.mk.injEq] at h
      refine ⟨⟨sh, ng, d⟩, ?_, ?_⟩
      · simp [nodeKey, hdec]
      · rw [hr, h.1]
    · cases h

theorem mem_succs {wi : List (Nat × Nat)} {w e : Nat} : e ∈ succs wi w ↔ (w, e) ∈ wi := by
  unfold succs
  rw [List.mem_filterMap]
  constructor
  · rintro ⟨⟨a, c⟩, hm, hp⟩
    simp only at hp
    split at hp
    · next he =>
      simp only [Option.some.injEq] at hp
      have : a = w := by simpa using he
      subst this; subst hp; exact hm
    · cases hp
  · intro h
    exact ⟨(w, e), h, by simp⟩

theorem hasAccess_iff {b : Branch} {a c : Nat} : b.hasAccess a c = true ↔ Node.access a c ∈ b.nodes := by
  simp [Branch.hasAccess]

theorem mem_idx {α} {l : List α} {x : α} (h : x ∈ l) : ∃ i : Nat, l[i]? = some x := by
  obtain ⟨i, hi, hx⟩ := List.mem_iff_getElem.1 h
  exact ⟨i, by simp [hx, hi]⟩


section static
variable {L : LogicData} {s : SState} {bi : Nat} {b : Branch} {h : BranchH}

theorem targets_open (hb : s.tab[bi]? = some b) (hh : s.hs[bi]? = some h) (ho : b.closed = false) (r : RuleId) :
    targets L s r bi = match r with
      | .closure => (h.closeT.map (closeStep bi)).toList
      | .table k => tableTargets L s.maxWorlds s.maxConsts bi b h (s.live r bi) k
      | .frame fr => frameTargets L s bi b h (s.live r bi) fr
      | .ident => identTargets L bi b (s.live r bi) := by
  unfold targets
  simp only [hb, hh, ho, Bool.false_eq_true, ↓reduceIte]
  cases r <;> rfl

/-- a matching, unticked node of a (non-quantifier) table rule whose release condition cannot hold is live -/
theorem live_of_table (I : BranchInv L s bi b h) (hlim : exceeded s.maxWorlds b = false)
    {i : Nat} {nd : Node} {k : RuleKey} {rl : Rule} (hrl : L.rule? k = some rl)
    (hwit : rl.witness = .none ∨ rl.witness = .newWorld ∨ rl.witness = .eachWorld)
    (hn : b.nodes[i]? = some nd) (hk : nodeKey nd = some k)
    (ht : i ∉ b.ticked) : i ∈ s.live (.table k) bi := by
  rcases I.cacheComplete (.table k) i nd hn (by simp [matchesRule, hk]) (fun _ => ht) with h1 | h1
  · exact h1
  · exfalso
    simp only [releasable, hrl, hlim, Bool.and_false, Bool.false_or, Bool.and_eq_true] at h1
    rcases hwit with hw | hw | hw <;> simp [hw] at h1

theorem nodeMissing_nil (hEW : EachWorldNoTick L) (I : BranchInv L s bi b h)
    (hb : s.tab[bi]? = some b) (hh : s.hs[bi]? = some h) (ho : b.closed = false)
    (hnone : ∀ r : RuleId, targets L s r bi = [])
    (hq : b.hasQuit = false) (hlim : exceeded s.maxWorlds b = false)
    {sn : Sent} {d : Option Bool} {w : Option Nat} (hm : Node.sent sn d w ∈ b.nodes)
    (hscope : ∀ r whole l0, L.ruleFor sn d = some (r, whole, l0) →
      r.witness = .none ∨ r.witness = .newWorld ∨ r.witness = .eachWorld) :
    L.nodeMissing b sn d w = [] := by
  obtain ⟨i, hi⟩ := mem_idx hm
  cases hrf : L.ruleFor sn d with
  | none => simp [LogicData.nodeMissing, hrf]
  | some p =>
    obtain ⟨r, whole, l0⟩ := p
    obtain ⟨k, hk, hrule⟩ := ruleFor_key w hrf
    have hT := hnone (.table k)
    rw [targets_open hb hh ho] at hT
    simp only [tableTargets, hrule] at hT
    -- a ticked node has its group
    have hticked : i ∈ b.ticked → r.ticks = true ∧
        (match r.witness with
          | .none => groupsDone b (instGroups whole l0 w none none r) = true
          | .newWorld => ∃ w' ∈ b.worldList, groupsDone b (instGroups whole l0 w none (some w') r) = true
          | _ => True) := by
      intro ht
      obtain ⟨sn', d', w', hn', r', whole', l0', hrf', htk, hdone⟩ := I.ticked i ht
      rw [hi] at hn'
      simp only [Option.some.injEq, Node.sent.injEq] at hn'
      obtain ⟨rfl, rfl, rfl⟩ := hn'
      rw [hrf] at hrf'
      simp only [Option.some.injEq, Prod.mk.injEq] at hrf'
      obtain ⟨rfl, rfl, rfl⟩ := hrf'
      refine ⟨htk, ?_⟩
      rcases hdone with hq' | hdone
      · rw [hq] at hq'; cases hq'
      · exact hdone
    unfold LogicData.nodeMissing
    simp only [hrf]
    split
    · rfl
    · rcases hscope r whole l0 hrf with hw | hw | hw
      · -- plain rule
        simp only [hw] at hT ⊢
        have hlive : s.live (.table k) bi = [] := by simpa using hT
        have : i ∈ b.ticked := by
          rcases Classical.em (i ∈ b.ticked) with h1 | h1
          · exact h1
          · have := live_of_table I hlim hrule (by simp [hw]) hi hk h1
            rw [hlive] at this; cases this
        have := (hticked this).2
        simp only [hw] at this
        simp [this]
      · -- new world
        simp only [hw, hlim, Bool.false_eq_true, ↓reduceIte] at hT ⊢
        have hlive : s.live (.table k) bi = [] := by simpa using hT
        have : i ∈ b.ticked := by
          rcases Classical.em (i ∈ b.ticked) with h1 | h1
          · exact h1
          · have := live_of_table I hlim hrule (by simp [hw]) hi hk h1
            rw [hlive] at this; cases this
        have := (hticked this).2
        simp only [hw] at this
        obtain ⟨w', hw', hg⟩ := this
        have : (b.worldList.any fun w' => groupsDone b (instGroups whole l0 w none (some w') r)) = true :=
          List.any_eq_true.2 ⟨w', hw', hg⟩
        simp [this]
      · -- each world
        simp only [hw, hlim, Bool.false_eq_true, ↓reduceIte] at hT ⊢
        cases w with
        | none => rfl
        | some w0 =>
          simp only
          have hnt : i ∉ b.ticked := by
            intro ht
            have := (hticked ht).1
            rw [hEW k r hrule hw] at this; cases this
          have hlive := live_of_table I hlim hrule (by simp [hw]) hi hk hnt
          have hi0 := (List.flatMap_eq_nil_iff.1 hT) i hlive
          simp only [hi, hrf] at hi0
          have hall : ∀ x ∈ b.successors w0, groupsDone b (instGroups whole l0 (some w0) none (some x) r) = true := by
            intro x hx
            have hacc : (w0, x) ∈ h.windex := (I.windex w0 x).2 (hasAccess_iff.1 (Canon.mem_successors.1 hx))
            have hx2 : x ∈ succs h.windex w0 := mem_succs.2 hacc
            have := List.map_eq_nil_iff.1 hi0
            rw [List.filter_eq_nil_iff] at this
            have := this x hx2
            simp only [Bool.and_eq_true, Bool.not_eq_eq_eq_not, Bool.not_true, not_and, Bool.not_eq_false] at this
            rcases Bool.eq_false_or_eq_true (groupsDone b (instGroups whole l0 (some w0) none (some x) r)) with hg | hg
            · exact hg
            · have hc : (h.nw k).contains (i, x) = true := by
                rcases Bool.eq_false_or_eq_true ((h.nw k).contains (i, x)) with hc | hc
                · exact hc
                · exact absurd hg (by simpa using this hc)
              obtain ⟨sn', d', w', r', whole', l0', hn', hrf', hg'⟩ := I.nwDone k i x (by simpa using hc)
              rw [hi] at hn'
              simp only [Option.some.injEq, Node.sent.injEq] at hn'
              obtain ⟨rfl, rfl, rfl⟩ := hn'
              rw [hrf] at hrf'
              simp only [Option.some.injEq, Prod.mk.injEq] at hrf'
              obtain ⟨rfl, rfl, rfl⟩ := hrf'
              exact hg'
          have h1 : (b.successors w0).filter (fun w' => !groupsDone b (instGroups whole l0 (some w0) none (some w') r)) = [] := by
            rw [List.filter_eq_nil_iff]
            intro x hx
            simp [hall x hx]
          rw [h1]
          simp only [List.map_nil, List.nil_append]
          -- the serial clause
          split
          · next hser =>
            exfalso
            simp only [Bool.and_eq_true] at hser
            have hS := hnone (.frame .serial)
            rw [targets_open hb hh ho] at hS
            have hfa : L.frameAllowed .serial = true := by simpa [LogicData.frameAllowed, FrameRule.name] using hser.1
            simp only [frameTargets, hfa, hlim, Bool.not_true, Bool.or_self, Bool.false_eq_true, ↓reduceIte] at hS
            have hS' := List.map_eq_nil_iff.1 hS
            rw [List.filter_eq_nil_iff] at hS'
            have hw0 : w0 ∈ b.nodes.flatMap Node.worlds :=
              List.mem_flatMap.2 ⟨_, hm, by simp [Node.worlds]⟩
            have hnoacc : hasAccessFrom b w0 = false := by
              rcases Bool.eq_false_or_eq_true (hasAccessFrom b w0) with hc | hc
              · exfalso
                unfold hasAccessFrom at hc
                obtain ⟨nd, hnd, hp⟩ := List.any_eq_true.1 hc
                cases nd with
                | access a c =>
                  have : a = w0 := by simpa using hp
                  subst this
                  have : c ∈ b.successors a := Canon.mem_successors.2 (hasAccess_iff.2 hnd)
                  have he : b.successors a = [] := by simpa using hser.2
                  rw [he] at this; cases this
                | _ => simp at hp
              · exact hc
            have hun : w0 ∈ h.unserial := (I.unserial w0).2 ⟨hw0, hnoacc⟩
            have := hS' w0 hun
            simp only [bne_iff_ne, ne_eq, Decidable.not_not] at this
            exact I.lastSerial w0 this sn d hm
          · rfl


/-- a node of an access rule's cache whose release condition cannot hold is live -/
theorem live_or_rel (I : BranchInv L s bi b h) {i : Nat} {nd : Node} (fr : FrameRule)
    (hn : b.nodes[i]? = some nd) (hmatch : matchesRule (.frame fr) nd = true) :
    i ∈ s.live (.frame fr) bi ∨ releasable L s.maxWorlds s.maxConsts b h (.frame fr) i = true :=
  I.cacheComplete (.frame fr) i nd hn hmatch (by simp [ignoreTicked])

theorem frameMissing_nil (I : BranchInv L s bi b h)
    (hb : s.tab[bi]? = some b) (hh : s.hs[bi]? = some h) (ho : b.closed = false)
    (hnone : ∀ r : RuleId, targets L s r bi = [])
    (hlim : exceeded s.maxWorlds b = false)
    (hmodal : L.modal = true ∨ L.frameRules = []) : L.frameMissing b = [] := by
  rcases hmodal with hmodal | hnf
  rotate_left
  · simp [LogicData.frameMissing, hnf]
  have hworlded := I.worlded hmodal
  unfold LogicData.frameMissing
  simp only [List.append_eq_nil_iff]
  refine ⟨⟨?_, ?_⟩, ?_⟩
  · -- reflexive
    split
    · next hR =>
      have hfa : L.frameAllowed .reflexive = true := by simpa [LogicData.frameAllowed, FrameRule.name] using hR
      have hT := hnone (.frame .reflexive)
      rw [targets_open hb hh ho] at hT
      simp only [frameTargets, hfa, hlim, Bool.not_true, Bool.or_self, Bool.false_eq_true, ↓reduceIte] at hT
      rw [List.map_eq_nil_iff, List.filter_eq_nil_iff]
      intro w hw
      have hw' : w ∈ b.worlds := by simpa [Branch.worldList, dedupNat, List.mem_eraseDups] using hw
      obtain ⟨nd, hnd, hwn⟩ := List.mem_flatMap.1 hw'
      have hwn' : w ∈ nd.worlds := by
        cases nd with
        | sent sn d wo =>
          have := hworlded sn d wo hnd
          cases wo with
          | none => cases this
          | some w1 => simpa [Node.worldsSem, Node.worlds] using hwn
        | access a c => simpa [Node.worldsSem, Node.worlds] using hwn
        | flag n => simp [Node.worldsSem] at hwn
        | ellipsis => simp [Node.worldsSem] at hwn
      obtain ⟨i, hi⟩ := mem_idx hnd
      have hin : (w, w) ∈ h.windex := by
        rcases live_or_rel I .reflexive hi (by simp [matchesRule]) with hl | hrel
        · have := (List.flatMap_eq_nil_iff.1 hT) i hl
          simp only [hi] at this
          rw [List.map_eq_nil_iff, List.filter_eq_nil_iff] at this
          simpa using this w hwn'
        · simp only [releasable, hlim, Bool.false_or, hi] at hrel
          unfold allLooped at hrel
          simpa using (List.all_eq_true.1 hrel) w hwn'
      have := hasAccess_iff.2 ((I.windex w w).1 hin)
      simp [this]
    · rfl
  · -- symmetric
    split
    · next hR =>
      have hfa : L.frameAllowed .symmetric = true := by simpa [LogicData.frameAllowed, FrameRule.name] using hR
      have hT := hnone (.frame .symmetric)
      rw [targets_open hb hh ho] at hT
      simp only [frameTargets, hfa, hlim, Bool.not_true, Bool.or_self, Bool.false_eq_true, ↓reduceIte] at hT
      rw [List.filterMap_eq_nil_iff]
      intro nd hnd
      cases nd with
      | access a c =>
        obtain ⟨i, hi⟩ := mem_idx hnd
        have hin : (c, a) ∈ h.windex := by
          rcases live_or_rel I .symmetric hi (by simp [matchesRule, isAccess]) with hl | hrel
          · have := (List.flatMap_eq_nil_iff.1 hT) i hl
            simp only [hi] at this
            split at this
            · next hc => simpa using hc
            · cases this
          · simp only [releasable, hlim, Bool.false_or, hi] at hrel
            simpa using hrel
        have := hasAccess_iff.2 ((I.windex c a).1 hin)
        simp [this]
      | _ => rfl
    · rfl
  · -- transitive
    split
    · next hR =>
      have hfa : L.frameAllowed .transitive = true := by simpa [LogicData.frameAllowed, FrameRule.name] using hR
      have hT := hnone (.frame .transitive)
      rw [targets_open hb hh ho] at hT
      simp only [frameTargets, hfa, hlim, Bool.not_true, Bool.or_self, Bool.false_eq_true, ↓reduceIte] at hT
      rw [List.flatMap_eq_nil_iff]
      intro nd hnd
      cases nd with
      | access a c =>
        simp only
        rw [List.filterMap_eq_nil_iff]
        intro e he
        obtain ⟨i, hi⟩ := mem_idx hnd
        have hce : (c, e) ∈ h.windex := (I.windex c e).2 (hasAccess_iff.1 (Canon.mem_successors.1 he))
        have hin : (a, e) ∈ h.windex := by
          rcases live_or_rel I .transitive hi (by simp [matchesRule, isAccess]) with hl | hrel
          · have := (List.flatMap_eq_nil_iff.1 hT) i hl
            simp only [hi] at this
            rw [List.map_eq_nil_iff, List.filter_eq_nil_iff] at this
            simpa using this e (mem_succs.2 hce)
          · simp [releasable, hlim] at hrel
        have := hasAccess_iff.2 ((I.windex a e).1 hin)
        simp [this]
      | _ => rfl
    · rfl

/-- STATIC THEOREM: in a state satisfying the invariant, an open branch without any target, quit flag or world-limit
    excess has every rule instance it calls for -/
theorem satMod_of_no_targets (hEW : EachWorldNoTick L) (hmodal : L.modal = true ∨ L.frameRules = [])
    (hinv : Inv L s) (hb : s.tab[bi]? = some b) (ho : b.closed = false)
    (hnone : ∀ r : RuleId, targets L s r bi = [])
    (hq : b.hasQuit = false) (hlim : exceeded s.maxWorlds b = false)
    (hscope : InScope L b) : SatMod L b := by
  have hlen := hinv.len
  have hbi : bi < s.tab.length := by
    rcases Nat.lt_or_ge bi s.tab.length with h1 | h1
    · exact h1
    · rw [List.getElem?_eq_none h1] at hb; cases hb
  obtain ⟨h, hh⟩ : ∃ h, s.hs[bi]? = some h := ⟨s.hs[bi]'(by omega), by simp [List.getElem?_eq_getElem, hlen, hbi]⟩
  have I := hinv.branch bi b h hb hh ho
  have hC := hnone .closure
  rw [targets_open hb hh ho] at hC
  have hct : h.closeT = none := by
    cases hc : h.closeT with
    | none => rfl
    | some t => simp [hc] at hC
  exact {
    nodes := fun sn d w hm => nodeMissing_nil hEW I hb hh ho hnone hq hlim hm (hscope.1 sn d w hm)
    ident := fun sn d w hm => (I.closeNone hct sn d w hm).2
    closure := fun sn d w hm hn => (I.closeNone hct sn d w hm).1 hn
    frame := frameMissing_nil I hb hh ho hnone hlim hmodal
    identSub := hscope.2 }


theorem rule_not_flag {bi n : Nat} {c : Option (Nat × Nat)} {wo : Option Nat} (r : Rule) (q : Bool) (l : List Nat) (bj : Nat) :
    Step.rule bi n c wo ∉ flagTargets bj r q l := by
  intro hf
  unfold flagTargets at hf
  split at hf
  · cases hf
  · obtain ⟨_, _, he⟩ := List.mem_map.1 hf; cases he

/-- a live index of a table rule is an unticked node of the branch -/
theorem live_unticked (I : BranchInv L s bi b h) (hh : s.hs[bi]? = some h) {k : RuleKey} {i : Nat}
    (hl : i ∈ s.live (.table k) bi) : i ∉ b.ticked := by
  unfold SState.live at hl
  simp only [hh] at hl
  have hc : i ∈ h.cache (.table k) := (List.mem_filter.1 hl).1
  obtain ⟨nd, _, _, hnt⟩ := I.cacheSound (.table k) i hc
  exact hnt rfl

theorem table_target_unticked (hinv : Inv L s) (hb : s.tab[bi]? = some b) (ho : b.closed = false)
    {k : RuleKey} {n : Nat} {c : Option (Nat × Nat)} {wo : Option Nat}
    (ht : Step.rule bi n c wo ∈ targets L s (.table k) bi) : n ∉ b.ticked := by
  have hlen := hinv.len
  have hbi : bi < s.tab.length := by
    rcases Nat.lt_or_ge bi s.tab.length with h1 | h1
    · exact h1
    · rw [List.getElem?_eq_none h1] at hb; cases hb
  obtain ⟨h, hh⟩ : ∃ h, s.hs[bi]? = some h := ⟨s.hs[bi]'(by omega), by simp [List.getElem?_eq_getElem, hlen, hbi]⟩
  have I := hinv.branch bi b h hb hh ho
  rw [targets_open hb hh ho] at ht
  simp only [tableTargets] at ht
  split at ht
  · cases ht
  · next r hr =>
    have key : ∀ i, i ∈ s.live (.table k) bi → i ∉ b.ticked := fun i hi => live_unticked I hh hi
    split at ht
    · obtain ⟨i, hi, he⟩ := List.mem_map.1 ht
      simp only [Step.rule.injEq] at he
      exact he.2.1 ▸ key i hi
    · split at ht
      · unfold flagTargets at ht
        split at ht
        · cases ht
        · obtain ⟨i, _, he⟩ := List.mem_map.1 ht
          cases he
      · obtain ⟨i, hi, he⟩ := List.mem_map.1 ht
        simp only [Step.rule.injEq] at he
        exact he.2.1 ▸ key i hi
    · split at ht
      · unfold flagTargets at ht
        split at ht
        · cases ht
        · obtain ⟨i, _, he⟩ := List.mem_map.1 ht
          cases he
      · obtain ⟨i, hi, hx⟩ := List.mem_flatMap.1 ht
        split at hx
        · split at hx
          · obtain ⟨w2, _, he⟩ := List.mem_map.1 hx
            simp only [Step.rule.injEq] at he
            exact he.2.1 ▸ key i hi
          · cases hx
        · cases hx
    · -- new constant
      obtain ⟨i, hi, hx⟩ := List.mem_flatMap.1 ht
      split at hx
      · split at hx
        · exact absurd hx (rule_not_flag _ _ _ _)
        · simp only [List.mem_singleton, Step.rule.injEq] at hx
          exact hx.2.1 ▸ key i hi
      · cases hx
    · -- each constant
      obtain ⟨i, hi, hx⟩ := List.mem_flatMap.1 ht
      split at hx
      · split at hx
        · exact absurd hx (rule_not_flag _ _ _ _)
        · split at hx
          · cases hx
          · split at hx
            · obtain ⟨c0, _, he⟩ := List.mem_map.1 hx
              simp only [Step.rule.injEq] at he
              exact he.2.1 ▸ key i hi
            · split at hx
              · split at hx
                · cases hx
                · simp only [List.mem_singleton, Step.rule.injEq] at hx
                  exact hx.2.1 ▸ key i hi
              · cases hx
      · cases hx

end static


/-! ### decidable forms of the hypotheses -/

/-- no rule of the logic has a target on branch bi -/
def noTargetsB (L : LogicData) (s : SState) (bi : Nat) : Bool := (ruleIds L).all fun r => (targets L s r bi).isEmpty

def inScopeB (L : LogicData) (b : Branch) : Bool :=
  (b.nodes.all fun nd =>
    match nd with
    | .sent sn d _ =>
        match L.ruleFor sn d with
        | some (r, _, _) => r.witness == .none || r.witness == .newWorld || r.witness == .eachWorld
        | none => true
    | _ => true) && (L.identMissing b).isEmpty

theorem inScope_of_B {L : LogicData} {b : Branch} (h : inScopeB L b = true) : InScope L b := by
  simp only [inScopeB, Bool.and_eq_true, List.all_eq_true, List.isEmpty_iff] at h
  refine ⟨?_, h.2⟩
  intro sn d w hm r whole l0 hrf
  have := h.1 _ hm
  simp only [hrf, Bool.or_eq_true, beq_iff_eq] at this
  rcases this with (h1 | h1) | h1
  · exact Or.inl h1
  · exact Or.inr (Or.inl h1)
  · exact Or.inr (Or.inr h1)

theorem targets_nil_of_not_rule {L : LogicData} {s : SState} {bi : Nat} {r : RuleId} (h : r ∉ ruleIds L) :
    targets L s r bi = [] := by
  unfold targets
  split
  · split
    · rfl
    · cases r with
      | closure => exact absurd (by simp [ruleIds]) h
      | table k =>
        simp only [tableTargets]
        split
        · rfl
        · next rl hr =>
          exfalso
          apply h
          have := lookup_mem (l := L.rules) hr
          simp only [ruleIds, List.mem_append, List.mem_map]
          exact Or.inl (Or.inl (Or.inr ⟨(k, rl), this, rfl⟩))
      | frame fr =>
        have hfa : L.frameAllowed fr = false := by
          rcases Bool.eq_false_or_eq_true (L.frameAllowed fr) with h1 | h1
          · exfalso
            apply h
            simp only [ruleIds, List.mem_append, List.mem_map, List.mem_filter]
            refine Or.inl (Or.inr ⟨fr, ⟨?_, h1⟩, rfl⟩)
            cases fr <;> simp
          · exact h1
        simp [frameTargets, hfa]
      | ident =>
        have hc : L.closesSelfIdNeg = false := by
          rcases Bool.eq_false_or_eq_true L.closesSelfIdNeg with h1 | h1
          · exact absurd (by simp [ruleIds, h1]) h
          · exact h1
        simp [identTargets, hc]
  · rfl

theorem noTargets_of_B {L : LogicData} {s : SState} {bi : Nat} (h : noTargetsB L s bi = true) :
    ∀ r : RuleId, targets L s r bi = [] := by
  intro r
  rcases Classical.em (r ∈ ruleIds L) with hr | hr
  · simp only [noTargetsB, List.all_eq_true, List.isEmpty_iff] at h
    exact h r hr
  · exact targets_nil_of_not_rule hr

end Ptx.Search
