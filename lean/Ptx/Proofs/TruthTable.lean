/-
  Ptx.Proofs.TruthTable — what `ttValid` means, and its agreement with the spec semantics on
  the propositional fragment.
-/
import Ptx.Sem.TruthTable
import Ptx.Proofs.Restrict
namespace Ptx

theorem evalTT_congr (T : Tables) (f g : Nat × Nat → V) :
    ∀ s : Sent, (∀ a ∈ s.atoms, f a = g a) → evalTT T f s = evalTT T g s := by
  intro s
  induction s with
  | atom i j => intro h; simp [evalTT, h (i, j) (by simp [Sent.atoms])]
  | pred p ps => intro _; rfl
  | quant q vi vs b _ => intro _; rfl
  | op1 o a ih => intro h; simp only [evalTT]; rw [ih (by simpa [Sent.atoms] using h)]
  | op2 o a b iha ihb =>
    intro h
    simp only [evalTT]
    rw [iha (fun x hx => h x (by simp [Sent.atoms, hx])), ihb (fun x hx => h x (by simp [Sent.atoms, hx]))]

/-- every assignment (restricted to the listed letters) occurs in the enumeration -/
theorem mem_valuations (vals : List V) (d : V) (f : Nat × Nat → V) :
    ∀ as : List (Nat × Nat), (∀ a ∈ as, f a ∈ vals) →
      ∃ v ∈ valuations vals as, ∀ a ∈ as, Valuation.get v d a = f a := by
  intro as
  induction as with
  | nil => intro _; exact ⟨[], by simp [valuations], by simp⟩
  | cons a as ih =>
    intro h
    obtain ⟨v, hv, hag⟩ := ih (fun x hx => h x (List.mem_cons_of_mem _ hx))
    refine ⟨(a, f a) :: v, ?_, ?_⟩
    · simp only [valuations, List.mem_flatMap, List.mem_map]
      exact ⟨v, hv, f a, h a List.mem_cons_self, rfl⟩
    · intro x hx
      by_cases hxa : x = a
      · subst hxa; simp [Valuation.get, List.lookup]
      · have hx' : x ∈ as := by
          rcases List.mem_cons.1 hx with h1 | h1
          · exact absurd h1 hxa
          · exact h1
        have hne : (x == a) = false := by simpa using hxa
        have := hag x hx'
        simpa [Valuation.get, List.lookup, hne] using this

theorem valuations_vals (vals : List V) : ∀ (as : List (Nat × Nat)) (v : Valuation), v ∈ valuations vals as →
    ∀ p ∈ v, p.2 ∈ vals := by
  intro as
  induction as with
  | nil => intro v hv p hp; simp [valuations] at hv; subst hv; cases hp
  | cons a as ih =>
    intro v hv p hp
    simp only [valuations, List.mem_flatMap, List.mem_map] at hv
    obtain ⟨v', hv', x, hx, rfl⟩ := hv
    rcases List.mem_cons.1 hp with rfl | hp
    · exact hx
    · exact ih v' hv' p hp

theorem get_mem_vals (vals : List V) (d : V) (hd : d ∈ vals) (v : Valuation) (hv : ∀ p ∈ v, p.2 ∈ vals)
    (a : Nat × Nat) : Valuation.get v d a ∈ vals := by
  unfold Valuation.get
  cases h : v.lookup a with
  | none => simpa using hd
  | some x =>
    have : (a, x) ∈ v := by
      clear hv
      induction v with
      | nil => simp [List.lookup] at h
      | cons p v ih =>
        obtain ⟨k, y⟩ := p
        simp only [List.lookup] at h
        split at h
        · next heq => simp at h; subst h; have := eq_of_beq heq; subst this; exact List.mem_cons_self
        · exact List.mem_cons_of_mem _ (ih h)
    simpa using hv _ this

theorem all_congr_mem {α} {l : List α} {f g : α → Bool} (h : ∀ x ∈ l, f x = g x) : l.all f = l.all g := by
  induction l with
  | nil => rfl
  | cons x xs ih =>
    simp only [List.all_cons]
    rw [h x List.mem_cons_self, ih (fun y hy => h y (List.mem_cons_of_mem _ hy))]

theorem isCounterTT_congr (T : Tables) (arg : Argument) (f g : Nat × Nat → V)
    (h : ∀ a ∈ arg.atoms, f a = g a) : isCounterTT T arg f = isCounterTT T arg g := by
  have hmem : ∀ a, a ∈ arg.atoms ↔ a ∈ arg.premises.flatMap Sent.atoms ++ arg.conclusion.atoms := by
    intro a; simp [Argument.atoms, List.mem_eraseDups]
  unfold isCounterTT
  have hc : evalTT T f arg.conclusion = evalTT T g arg.conclusion :=
    evalTT_congr T f g _ (fun a ha => h a ((hmem a).2 (List.mem_append_right _ ha)))
  have hp : ∀ p ∈ arg.premises, evalTT T f p = evalTT T g p := fun p hp =>
    evalTT_congr T f g _ (fun a ha => h a ((hmem a).2 (List.mem_append_left _ (List.mem_flatMap.2 ⟨p, hp, ha⟩))))
  rw [hc, all_congr_mem (fun p hp' => by rw [hp p hp'])]

/-- THE MEANING OF `ttValid`: no assignment of the logic's values to the sentence letters
    designates every premise and not the conclusion. -/
theorem ttValid_iff (T : Tables) (hu : T.unassigned ∈ T.vals) (arg : Argument) :
    ttValid T arg = true ↔ ∀ f : Nat × Nat → V, (∀ a, f a ∈ T.vals) → isCounterTT T arg f = false := by
  unfold ttValid
  rw [List.all_eq_true]
  constructor
  · intro h f hf
    obtain ⟨v, hv, hag⟩ := mem_valuations T.vals T.unassigned f arg.atoms (fun a _ => hf a)
    have := h v hv
    rw [isCounterTT_congr T arg _ f hag] at this
    simpa using this
  · intro h v hv
    have := h (v.get T.unassigned) (get_mem_vals T.vals _ hu v (valuations_vals T.vals _ v hv))
    simp [this]

variable {L : LogicData} {M : Struct}

/-- on the propositional fragment the spec semantics is the truth-table evaluation -/
theorem eval_eq_evalTT (e : Env M.D) (w : M.W) :
    ∀ s : Sent, s.isProp = true → eval L M e w s = evalTT L.T (fun a => M.atomV w a.1 a.2) s := by
  intro s
  induction s with
  | atom i j => intro _; simp [eval, evalTT]
  | pred p ps => intro h; simp [Sent.isProp] at h
  | quant q vi vs b _ => intro h; simp [Sent.isProp] at h
  | op1 o a ih =>
    intro h
    simp only [Sent.isProp, Bool.and_eq_true, Bool.not_eq_true'] at h
    simp [eval, evalTT, h.1, ih h.2]
  | op2 o a b iha ihb =>
    intro h
    simp only [Sent.isProp, Bool.and_eq_true] at h
    simp [eval, evalTT, iha h.1, ihb h.2]

/-- the one-world structure of a truth-value assignment (`cl`: interpret Identity / Existence classically) -/
def valStruct (f : Nat × Nat → V) (d : V) (cl : Bool) : Struct :=
  { W := Unit, D := Unit, R := fun _ _ => True, dflt := (), atomV := fun _ i s => f (i, s),
    predV := fun _ p _ => if cl = true ∧ (p = Pred.identity ∨ p = Pred.existence) then .T else d,
    opaqueV := fun _ _ => d }

theorem valStruct_interp (f : Nat × Nat → V) (hf : ∀ a, f a ∈ L.T.vals) (cl : Bool)
    (hcl : (L.closesSelfIdNeg = true ∨ L.closesNonExist = true) → cl = true)
    (hT : cl = true → V.T ∈ L.T.vals) (hu : L.T.unassigned ∈ L.T.vals) :
    (valStruct f L.T.unassigned cl).Interp L := by
  refine ⟨⟨fun _ i s => hf (i, s), ?_, fun _ _ => hu⟩, ?_, ?_⟩
  · intro _ p ds
    simp only [valStruct]
    split
    · next h => exact hT h.1
    · exact hu
  · cases h : L.frame <;> simp [Struct.FrameOK, valStruct]
  · intro h
    have := hcl h
    subst this
    exact ⟨fun _ a b => by cases a; cases b; simp [valStruct], fun _ _ => by simp [valStruct]⟩

end Ptx
