/-
  Ptx.Proofs.LibModelAcc — the enforce() programs of the Access classes: what they add is demanded
  by the frame condition (so the result lies inside every relation with the property that
  contains R), and when the loop leaves through `break` the result has the property.
-/
import Ptx.Sem.LibModel
namespace Ptx.LibModel
open Ptx

theorem mem_addNew {α} [DecidableEq α] {l : List α} {x y : α} : y ∈ addNew l x ↔ y ∈ l ∨ y = x := by
  unfold addNew
  by_cases hx : x ∈ l
  · have h : l.contains x = true := by simpa using hx
    simp only [h, ↓reduceIte]
    constructor
    · exact Or.inl
    · rintro (h1 | rfl)
      · exact h1
      · exact hx
  · simp [hx]

namespace Acc

/-- every pair relates keys (what `Access.add` maintains) -/
def WF (R : Acc) : Prop := ∀ p ∈ R.pairs, p.1 ∈ R.keys ∧ p.2 ∈ R.keys

theorem mem_pairs_add {R : Acc} {a b : Nat} {p : Nat × Nat} :
    p ∈ (R.add a b).pairs ↔ p ∈ R.pairs ∨ p = (a, b) := by simp [add, mem_addNew]

theorem mem_keys_add {R : Acc} {a b k : Nat} :
    k ∈ (R.add a b).keys ↔ k ∈ R.keys ∨ k = a ∨ k = b := by simp [add, mem_addNew, or_assoc]

theorem mem_pairs_addAll : ∀ {ps : List (Nat × Nat)} {R : Acc} {p : Nat × Nat},
    p ∈ (R.addAll ps).pairs ↔ p ∈ R.pairs ∨ p ∈ ps
  | [], R, p => by simp [addAll]
  | q :: qs, R, p => by
      have ih := @mem_pairs_addAll qs (R.add q.1 q.2) p
      simp only [addAll, List.foldl_cons] at ih ⊢
      rw [ih, mem_pairs_add]
      simp only [List.mem_cons]
      constructor
      · rintro ((h | h) | h)
        · exact Or.inl h
        · exact Or.inr (Or.inl h)
        · exact Or.inr (Or.inr h)
      · rintro (h | h | h)
        · exact Or.inl (Or.inl h)
        · exact Or.inl (Or.inr h)
        · exact Or.inr h

theorem mem_keys_addAll : ∀ {ps : List (Nat × Nat)} {R : Acc} {k : Nat},
    k ∈ (R.addAll ps).keys ↔ k ∈ R.keys ∨ ∃ p ∈ ps, k = p.1 ∨ k = p.2
  | [], R, k => by simp [addAll]
  | q :: qs, R, k => by
      have ih := @mem_keys_addAll qs (R.add q.1 q.2) k
      simp only [addAll, List.foldl_cons] at ih ⊢
      rw [ih, mem_keys_add]
      simp only [List.mem_cons, exists_eq_or_imp]
      constructor
      · rintro ((h | h) | h)
        · exact Or.inl h
        · exact Or.inr (Or.inl h)
        · exact Or.inr (Or.inr h)
      · rintro (h | h | h)
        · exact Or.inl (Or.inl h)
        · exact Or.inl (Or.inr h)
        · exact Or.inr h

theorem mem_succ {R : Acc} {a b : Nat} : b ∈ R.succ a ↔ (a, b) ∈ R.pairs := by
  simp only [succ, List.mem_filterMap]
  constructor
  · rintro ⟨p, hp, h⟩
    split at h
    · next h1 => cases h; cases p; simp_all
    · cases h
  · intro h; exact ⟨(a, b), h, by simp⟩

theorem has_iff {R : Acc} {a b : Nat} : R.has a b = true ↔ (a, b) ∈ R.pairs := by simp [has]

theorem WF_add {R : Acc} (h : R.WF) (a b : Nat) : (R.add a b).WF := by
  intro p hp
  rw [mem_keys_add, mem_keys_add]
  rcases mem_pairs_add.1 hp with hp | rfl
  · exact ⟨Or.inl (h p hp).1, Or.inl (h p hp).2⟩
  · exact ⟨Or.inr (Or.inl rfl), Or.inr (Or.inr rfl)⟩

theorem WF_addAll : ∀ {ps : List (Nat × Nat)} {R : Acc}, R.WF → (R.addAll ps).WF
  | [], _, h => h
  | q :: qs, R, h => by
      simp only [addAll, List.foldl_cons]
      exact @WF_addAll qs (R.add q.1 q.2) (WF_add h _ _)

/-- adding pairs between keys adds no key -/
theorem keys_addAll_of_keys {ps : List (Nat × Nat)} {R : Acc}
    (hps : ∀ p ∈ ps, p.1 ∈ R.keys ∧ p.2 ∈ R.keys) {k : Nat} : k ∈ (R.addAll ps).keys ↔ k ∈ R.keys := by
  rw [mem_keys_addAll]
  constructor
  · rintro (h | ⟨p, hp, rfl | rfl⟩)
    · exact h
    · exact (hps p hp).1
    · exact (hps p hp).2
  · exact Or.inl

/-! ### what the programs add -/

theorem mem_transMissing {R : Acc} {p : Nat × Nat} :
    p ∈ R.transMissing ↔ p.1 ∈ R.keys ∧ p ∉ R.pairs ∧ ∃ b, (p.1, b) ∈ R.pairs ∧ (b, p.2) ∈ R.pairs := by
  obtain ⟨a, c⟩ := p
  simp only [transMissing, List.mem_flatMap, List.mem_filterMap, mem_succ]
  constructor
  · rintro ⟨w1, hw1, w2, h12, w3, h23, h⟩
    split at h
    · cases h
    · next hn =>
      cases h
      exact ⟨hw1, by simpa [has_iff] using hn, w2, h12, h23⟩
  · rintro ⟨ha, hn, b, hab, hbc⟩
    refine ⟨a, ha, b, hab, c, hbc, ?_⟩
    have : R.has a c = false := by simpa [has] using hn
    simp [this]

theorem mem_symMissing {R : Acc} {p : Nat × Nat} :
    p ∈ R.symMissing ↔ p.2 ∈ R.keys ∧ p ∉ R.pairs ∧ (p.2, p.1) ∈ R.pairs := by
  obtain ⟨a, c⟩ := p
  simp only [symMissing, List.mem_flatMap, List.mem_filterMap, mem_succ]
  constructor
  · rintro ⟨w1, hw1, w2, h12, h⟩
    split at h
    · cases h
    · next hn =>
      cases h
      exact ⟨hw1, by simpa [has_iff] using hn, h12⟩
  · rintro ⟨hc, hn, hca⟩
    refine ⟨c, hc, a, hca, ?_⟩
    have : R.has a c = false := by simpa [has] using hn
    simp [this]

theorem mem_pairs_enforceRefl {R : Acc} {p : Nat × Nat} :
    p ∈ R.enforceRefl.pairs ↔ p ∈ R.pairs ∨ (p.1 ∈ R.keys ∧ p.2 = p.1) := by
  unfold enforceRefl
  rw [mem_pairs_addAll]
  simp only [List.mem_map]
  constructor
  · rintro (h | ⟨w, hw, rfl⟩)
    · exact Or.inl h
    · exact Or.inr ⟨hw, rfl⟩
  · rintro (h | ⟨h1, h2⟩)
    · exact Or.inl h
    · exact Or.inr ⟨p.1, h1, by cases p; simp_all⟩

theorem mem_keys_enforceRefl {R : Acc} {k : Nat} : k ∈ R.enforceRefl.keys ↔ k ∈ R.keys := by
  unfold enforceRefl
  apply keys_addAll_of_keys
  intro p hp
  obtain ⟨w, hw, rfl⟩ := List.mem_map.1 hp
  exact ⟨hw, hw⟩

theorem WF_enforceRefl {R : Acc} (h : R.WF) : R.enforceRefl.WF := WF_addAll h

/-! ### invariant: inside `Q`, on the same keys -/

/-- `R'` has the keys of `ws`, relates only members of `ws`, and lies inside `Q` -/
structure Inside (ws : List Nat) (Q : Nat × Nat → Prop) (R' : Acc) : Prop where
  keys : ∀ k, k ∈ R'.keys ↔ k ∈ ws
  wf : ∀ p ∈ R'.pairs, p.1 ∈ ws ∧ p.2 ∈ ws
  inQ : ∀ p ∈ R'.pairs, Q p

theorem Inside.addAll {ws Q R'} (h : Inside ws Q R') {ps : List (Nat × Nat)}
    (hps : ∀ p ∈ ps, p.1 ∈ ws ∧ p.2 ∈ ws ∧ Q p) : Inside ws Q (R'.addAll ps) := by
  refine ⟨?_, ?_, ?_⟩
  · intro k
    rw [keys_addAll_of_keys (R := R')]
    · exact h.keys k
    · intro p hp; exact ⟨(h.keys _).2 (hps p hp).1, (h.keys _).2 (hps p hp).2.1⟩
  · intro p hp
    rcases mem_pairs_addAll.1 hp with hp | hp
    · exact h.wf p hp
    · exact ⟨(hps p hp).1, (hps p hp).2.1⟩
  · intro p hp
    rcases mem_pairs_addAll.1 hp with hp | hp
    · exact h.inQ p hp
    · exact (hps p hp).2.2

theorem Inside.refl {k : FrameKind} (hk : Frames.isRefl k = true) {ws Q R'} (hQ : Frames.Holds k ws Q)
    (h : Inside ws Q R') : Inside ws Q R'.enforceRefl := by
  unfold enforceRefl
  apply h.addAll
  intro p hp
  obtain ⟨w, hw, rfl⟩ := List.mem_map.1 hp
  have hw' := (h.keys w).1 hw
  refine ⟨hw', hw', ?_⟩
  cases k <;> simp [Frames.isRefl] at hk <;> exact hQ.1 w hw'

theorem Inside.trans {k : FrameKind} (hk : Frames.isTrans k = true) {ws Q R'} (hQ : Frames.Holds k ws Q)
    (h : Inside ws Q R') : Inside ws Q (R'.addAll R'.transMissing) := by
  apply h.addAll
  intro p hp
  obtain ⟨_, _, b, h1, h2⟩ := mem_transMissing.1 hp
  refine ⟨(h.wf _ h1).1, (h.wf _ h2).2, ?_⟩
  have := hQ.2.1
  cases k <;> simp [Frames.isTrans] at hk <;> exact this _ _ _ (h.inQ _ h1) (h.inQ _ h2)

theorem Inside.symm {k : FrameKind} (hk : Frames.isSymm k = true) {ws Q R'} (hQ : Frames.Holds k ws Q)
    (h : Inside ws Q R') : Inside ws Q (R'.addAll R'.symMissing) := by
  apply h.addAll
  intro p hp
  obtain ⟨_, _, h1⟩ := mem_symMissing.1 hp
  refine ⟨(h.wf _ h1).2, (h.wf _ h1).1, ?_⟩
  have := hQ.2.2
  cases k <;> simp [Frames.isSymm] at hk
  exact this _ _ (h.inQ _ h1)

theorem Inside.rt {k : FrameKind} (hr : Frames.isRefl k = true) (ht : Frames.isTrans k = true) {ws Q}
    (hQ : Frames.Holds k ws Q) : ∀ (n : Nat) (R' : Acc), Inside ws Q R' → Inside ws Q (enforceRT n R').1
  | 0, _, h => h
  | n + 1, R', h => by
      simp only [enforceRT]
      split
      · exact h.refl hr hQ
      · exact Inside.rt hr ht hQ n _ ((h.refl hr hQ).trans ht hQ)

theorem Inside.global {k : FrameKind} (hr : Frames.isRefl k = true) (ht : Frames.isTrans k = true)
    (hs : Frames.isSymm k = true) {ws Q} (hQ : Frames.Holds k ws Q) (inner : Nat) :
    ∀ (n : Nat) (R' : Acc), Inside ws Q R' → Inside ws Q (enforceGlobal inner n R').1
  | 0, _, h => h
  | n + 1, R', h => by
      have h1 := Inside.rt hr ht hQ inner R' h
      simp only [enforceGlobal]
      cases hrt : enforceRT inner R' with
      | mk R1 ok =>
        rw [hrt] at h1
        simp only
        cases ok
        · simpa using h1
        · simp only [Bool.not_true, Bool.false_eq_true, ↓reduceIte]
          split
          · exact h1
          · exact Inside.global hr ht hs hQ inner n _ (h1.symm hs hQ)

/-! ### pairs and keys only grow -/

theorem sub_addAll {R : Acc} {ps} {p : Nat × Nat} (h : p ∈ R.pairs) : p ∈ (R.addAll ps).pairs :=
  mem_pairs_addAll.2 (Or.inl h)

theorem sub_enforceRT : ∀ (n : Nat) (R : Acc) (p : Nat × Nat), p ∈ R.pairs → p ∈ (enforceRT n R).1.pairs
  | 0, _, _, h => h
  | n + 1, R, p, h => by
      simp only [enforceRT]
      split
      · exact sub_addAll h
      · exact sub_enforceRT n _ p (sub_addAll (sub_addAll h))

theorem sub_enforceGlobal (inner : Nat) : ∀ (n : Nat) (R : Acc) (p : Nat × Nat),
    p ∈ R.pairs → p ∈ (enforceGlobal inner n R).1.pairs
  | 0, _, _, h => h
  | n + 1, R, p, h => by
      have h1 := sub_enforceRT inner R p h
      simp only [enforceGlobal]
      cases hrt : enforceRT inner R with
      | mk R1 ok =>
        rw [hrt] at h1
        simp only
        cases ok
        · simpa using h1
        · simp only [Bool.not_true, Bool.false_eq_true, ↓reduceIte]
          split
          · exact h1
          · exact sub_enforceGlobal inner n _ p (sub_addAll h1)

/-! ### leaving through `break`: the property holds -/

def ReflOn (R : Acc) : Prop := ∀ w ∈ R.keys, (w, w) ∈ R.pairs
def Trans (R : Acc) : Prop := ∀ a b c, (a, b) ∈ R.pairs → (b, c) ∈ R.pairs → (a, c) ∈ R.pairs
def Symm (R : Acc) : Prop := ∀ a b, (a, b) ∈ R.pairs → (b, a) ∈ R.pairs

theorem reflOn_enforceRefl (R : Acc) : R.enforceRefl.ReflOn := by
  intro w hw
  exact mem_pairs_enforceRefl.2 (Or.inr ⟨mem_keys_enforceRefl.1 hw, rfl⟩)

theorem trans_of_missing_nil {R : Acc} (hwf : R.WF) (h : R.transMissing = []) : R.Trans := by
  intro a b c hab hbc
  apply Classical.byContradiction
  intro hn
  have : (a, c) ∈ R.transMissing := mem_transMissing.2 ⟨(hwf _ hab).1, hn, b, hab, hbc⟩
  rw [h] at this; cases this

theorem symm_of_missing_nil {R : Acc} (hwf : R.WF) (h : R.symMissing = []) : R.Symm := by
  intro a b hab
  apply Classical.byContradiction
  intro hn
  have : (b, a) ∈ R.symMissing := mem_symMissing.2 ⟨(hwf _ hab).1, hn, hab⟩
  rw [h] at this; cases this

theorem WF_enforceRT : ∀ (n : Nat) (R : Acc), R.WF → (enforceRT n R).1.WF
  | 0, _, h => h
  | n + 1, R, h => by
      simp only [enforceRT]
      split
      · exact WF_enforceRefl h
      · exact WF_enforceRT n _ (WF_addAll (WF_enforceRefl h))

theorem rt_of_break : ∀ (n : Nat) (R : Acc), R.WF → (enforceRT n R).2 = true →
    (enforceRT n R).1.ReflOn ∧ (enforceRT n R).1.Trans
  | 0, _, _, h => by simp [enforceRT] at h
  | n + 1, R, hwf, h => by
      simp only [enforceRT] at h ⊢
      split
      · next hnil =>
        refine ⟨reflOn_enforceRefl R, trans_of_missing_nil (WF_enforceRefl hwf) ?_⟩
        simpa using hnil
      · next hnil =>
        simp only [hnil, Bool.false_eq_true, ↓reduceIte] at h
        exact rt_of_break n _ (WF_addAll (WF_enforceRefl hwf)) h

theorem WF_enforceGlobal (inner : Nat) : ∀ (n : Nat) (R : Acc), R.WF → (enforceGlobal inner n R).1.WF
  | 0, _, h => h
  | n + 1, R, h => by
      have h1 := WF_enforceRT inner R h
      simp only [enforceGlobal]
      cases hrt : enforceRT inner R with
      | mk R1 ok =>
        rw [hrt] at h1
        simp only
        cases ok
        · simpa using h1
        · simp only [Bool.not_true, Bool.false_eq_true, ↓reduceIte]
          split
          · exact h1
          · exact WF_enforceGlobal inner n _ (WF_addAll h1)

theorem global_of_break (inner : Nat) : ∀ (n : Nat) (R : Acc), R.WF → (enforceGlobal inner n R).2 = true →
    (enforceGlobal inner n R).1.ReflOn ∧ (enforceGlobal inner n R).1.Trans ∧ (enforceGlobal inner n R).1.Symm
  | 0, _, _, h => by simp [enforceGlobal] at h
  | n + 1, R, hwf, h => by
      have h1 := rt_of_break inner R hwf
      have h2 := WF_enforceRT inner R hwf
      simp only [enforceGlobal] at h ⊢
      cases hrt : enforceRT inner R with
      | mk R1 ok =>
        rw [hrt] at h1 h2 h
        simp only at h ⊢
        cases ok
        · simp at h
        · simp only [Bool.not_true, Bool.false_eq_true, ↓reduceIte] at h ⊢
          split
          · next hnil =>
            have := h1 rfl
            exact ⟨this.1, this.2, symm_of_missing_nil h2 (by simpa using hnil)⟩
          · next hnil =>
            simp only [hnil, Bool.false_eq_true, ↓reduceIte] at h
            exact global_of_break inner n _ (WF_addAll h2) h

/-! ### serial -/

theorem foldl_max_ge : ∀ (xs : List Nat) (a : Nat), a ≤ xs.foldl max a ∧ ∀ x ∈ xs, x ≤ xs.foldl max a
  | [], a => by simp
  | y :: t, a => by
      obtain ⟨h1, h2⟩ := foldl_max_ge t (max a y)
      simp only [List.foldl_cons, List.mem_cons]
      refine ⟨by omega, ?_⟩
      rintro x (rfl | hx)
      · omega
      · exact h2 x hx

/-- the world `SerialAccess.enforce` invents is new -/
theorem newWorld_not_key (R : Acc) : R.keys.foldl max 0 + 1 ∉ R.keys := by
  intro h
  have := (foldl_max_ge R.keys 0).2 _ h
  omega

/-! ### the whole `enforce()` -/

theorem inside_self {R : Acc} (hwf : R.WF) {Q : Nat × Nat → Prop} (hR : ∀ p ∈ R.pairs, Q p) : Inside R.keys Q R :=
  ⟨fun _ => Iff.rfl, hwf, hR⟩

/-- everything `enforce()` adds is demanded: the result lies inside every relation with the frame
    property (on the model's worlds) that contains R -/
theorem enforce_least {k : FrameKind} (hk : Frames.isRefl k = true) {R : Acc} (hwf : R.WF) {Q : Nat × Nat → Prop}
    (hQ : Frames.Holds k R.keys Q) (hR : ∀ p ∈ R.pairs, Q p) : ∀ p ∈ (enforce k R).1.pairs, Q p := by
  have h0 := inside_self hwf hR
  cases k <;> simp [Frames.isRefl] at hk <;> simp only [enforce]
  · exact (h0.refl (by rfl) hQ).inQ
  · exact (Inside.rt (by rfl) (by rfl) hQ _ R h0).inQ
  · exact (Inside.global (by rfl) (by rfl) (by rfl) hQ _ _ R h0).inQ

/-- reflexive / RT / equivalence enforcement invents no world -/
theorem enforce_keys {k : FrameKind} (hk : k ≠ .D) {R : Acc} (hwf : R.WF) (w : Nat) :
    w ∈ (enforce k R).1.keys ↔ w ∈ R.keys := by
  have h0 : Inside R.keys (fun _ => True) R := inside_self hwf fun _ _ => trivial
  cases k <;> simp only [enforce]
  · exact absurd rfl hk
  · exact mem_keys_enforceRefl
  · exact (Inside.rt (k := .S4) (by rfl) (by rfl) ⟨by simp, by simp, by simp⟩ _ R h0).keys w
  · exact (Inside.global (k := .S5) (by rfl) (by rfl) (by rfl) ⟨by simp, by simp, by simp⟩ _ _ R h0).keys w

theorem enforce_sub (k : FrameKind) (R : Acc) (p : Nat × Nat) (h : p ∈ R.pairs) : p ∈ (enforce k R).1.pairs := by
  cases k <;> simp only [enforce]
  · exact h
  · exact h
  · unfold enforceSerial
    simp only
    split
    · exact h
    · exact mem_pairs_add.2 (Or.inl (sub_addAll h))
  · exact sub_addAll h
  · exact sub_enforceRT _ R p h
  · exact sub_enforceGlobal _ _ R p h

/-- when the loop left through `break`, the result has the frame property on the model's worlds -/
theorem enforce_holds {k : FrameKind} (hk : Frames.isRefl k = true) {R : Acc} (hwf : R.WF)
    (hflag : (enforce k R).2 = true) : Frames.Holds k R.keys (· ∈ (enforce k R).1.pairs) := by
  have hkeys := enforce_keys (k := k) (by intro h; subst h; simp [Frames.isRefl] at hk) hwf
  cases k <;> simp [Frames.isRefl] at hk
  · refine ⟨?_, trivial, trivial⟩
    intro w hw
    exact reflOn_enforceRefl R w ((hkeys w).2 hw)
  · simp only [enforce] at hflag hkeys ⊢
    obtain ⟨h1, h2⟩ := rt_of_break _ R hwf hflag
    exact ⟨fun w hw => h1 w ((hkeys w).2 hw), h2, trivial⟩
  · simp only [enforce] at hflag hkeys ⊢
    obtain ⟨h1, h2, h3⟩ := global_of_break _ _ R hwf hflag
    exact ⟨fun w hw => h1 w ((hkeys w).2 hw), h2, h3⟩

/-- …and then it is the closure computed by the specification program `Frames.closure` -/
theorem enforce_eq_closure {k : FrameKind} (hk : Frames.isRefl k = true) {R : Acc} (hwf : R.WF)
    (hflag : (enforce k R).2 = true) (hspec : Frames.stable k R.keys R.pairs = true) (p : Nat × Nat) :
    p ∈ (enforce k R).1.pairs ↔ p ∈ Frames.closure k R.keys R.pairs := by
  constructor
  · intro hp
    refine enforce_least hk hwf (Q := (· ∈ Frames.closure k R.keys R.pairs)) ?_ ?_ p hp
    · apply Frames.holds_of_fixed
      simpa [Frames.stable] using hspec
    · intro q hq; exact Frames.subset_iter k R.keys _ R.pairs q hq
  · intro hp
    exact Frames.iter_least k R.keys (· ∈ (enforce k R).1.pairs) (enforce_holds hk hwf hflag) _ R.pairs
      (fun q hq => enforce_sub k R q hq) p hp

/-- the finished relation depends on the SET of worlds and pairs only, not on the order of `R.add` calls -/
theorem enforce_congr {k : FrameKind} (hk : Frames.isRefl k = true) {R₁ R₂ : Acc} (h₁ : R₁.WF) (h₂ : R₂.WF)
    (hkeys : ∀ w, w ∈ R₁.keys ↔ w ∈ R₂.keys) (hpairs : ∀ p, p ∈ R₁.pairs ↔ p ∈ R₂.pairs)
    (f₁ : (enforce k R₁).2 = true) (f₂ : (enforce k R₂).2 = true) (p : Nat × Nat) :
    p ∈ (enforce k R₁).1.pairs ↔ p ∈ (enforce k R₂).1.pairs := by
  have holds_congr : ∀ {Ra Rb : Acc} {Q : Nat × Nat → Prop}, (∀ w, w ∈ Ra.keys ↔ w ∈ Rb.keys) →
      Frames.Holds k Ra.keys Q → Frames.Holds k Rb.keys Q := by
    intro Ra Rb Q hk' h
    refine ⟨?_, h.2.1, h.2.2⟩
    have := h.1
    cases k <;> simp only at this ⊢ <;> exact fun w hw => this w ((hk' w).2 hw)
  constructor
  · exact enforce_least hk h₁ (holds_congr (fun w => (hkeys w).symm) (enforce_holds hk h₂ f₂))
      (fun q hq => enforce_sub k R₂ q ((hpairs q).1 hq)) p
  · exact enforce_least hk h₂ (holds_congr hkeys (enforce_holds hk h₁ f₁))
      (fun q hq => enforce_sub k R₁ q ((hpairs q).2 hq)) p

/-- `SerialAccess.enforce`: afterwards every world has a successor; nothing is lost; the only additions
    are arrows into ONE new world `n = max + 1` from the dead ends and from `n` itself -/
theorem enforceSerial_spec (R : Acc) :
    (∀ w ∈ R.enforceSerial.keys, R.enforceSerial.succ w ≠ []) ∧
    (∀ p ∈ R.pairs, p ∈ R.enforceSerial.pairs) ∧
    (∀ p ∈ R.enforceSerial.pairs, p ∈ R.pairs ∨
        (p.2 = R.keys.foldl max 0 + 1 ∧ (p.1 = R.keys.foldl max 0 + 1 ∨ (p.1 ∈ R.keys ∧ R.succ p.1 = [])))) ∧
    (∀ w ∈ R.enforceSerial.keys, w ∈ R.keys ∨ w = R.keys.foldl max 0 + 1) := by
  unfold enforceSerial
  simp only
  split
  · next hne =>
    have hall : ∀ w ∈ R.keys, R.succ w ≠ [] := by
      intro w hw hs
      have : w ∈ R.keys.filter fun w => (R.succ w).isEmpty := List.mem_filter.2 ⟨hw, by simp [hs]⟩
      have he : (R.keys.filter fun w => (R.succ w).isEmpty) = [] := by simpa using hne
      rw [he] at this; cases this
    exact ⟨hall, fun _ h => h, fun _ h => Or.inl h, fun _ h => Or.inl h⟩
  · generalize hn : R.keys.foldl max 0 + 1 = n
    have hneeds : ∀ w, w ∈ (R.keys.filter fun w => (R.succ w).isEmpty) ↔ w ∈ R.keys ∧ R.succ w = [] := by
      intro w; simp [List.mem_filter]
    have hpairs : ∀ p, p ∈ ((R.addAll ((R.keys.filter fun w => (R.succ w).isEmpty).map fun w1 => (w1, n))).add n n).pairs ↔
        p ∈ R.pairs ∨ (∃ w1, (w1 ∈ R.keys ∧ R.succ w1 = []) ∧ p = (w1, n)) ∨ p = (n, n) := by
      intro p
      rw [mem_pairs_add, mem_pairs_addAll]
      simp only [List.mem_map, hneeds]
      constructor
      · rintro ((h | ⟨w1, h1, rfl⟩) | h)
        · exact Or.inl h
        · exact Or.inr (Or.inl ⟨w1, h1, rfl⟩)
        · exact Or.inr (Or.inr h)
      · rintro (h | ⟨w1, h1, rfl⟩ | h)
        · exact Or.inl (Or.inl h)
        · exact Or.inl (Or.inr ⟨w1, h1, rfl⟩)
        · exact Or.inr h
    have hkeys : ∀ w, w ∈ ((R.addAll ((R.keys.filter fun w => (R.succ w).isEmpty).map fun w1 => (w1, n))).add n n).keys →
        w ∈ R.keys ∨ w = n := by
      intro w hw
      rcases mem_keys_add.1 hw with h | h | h
      · rcases mem_keys_addAll.1 h with h | ⟨q, hq, h⟩
        · exact Or.inl h
        · obtain ⟨w1, h1, rfl⟩ := List.mem_map.1 hq
          rcases h with rfl | rfl
          · exact Or.inl ((hneeds _).1 h1).1
          · exact Or.inr rfl
      · exact Or.inr h
      · exact Or.inr h
    refine ⟨?_, ?_, ?_, hkeys⟩
    · intro w hw hs
      have hno : ∀ b, (w, b) ∉ ((R.addAll ((R.keys.filter fun w => (R.succ w).isEmpty).map fun w1 => (w1, n))).add n n).pairs := by
        intro b hb
        have := mem_succ.2 hb
        rw [hs] at this; cases this
      rcases hkeys w hw with h | h
      · by_cases hd : R.succ w = []
        · exact hno n ((hpairs _).2 (Or.inr (Or.inl ⟨w, ⟨h, hd⟩, rfl⟩)))
        · cases hsw : R.succ w with
          | nil => exact hd hsw
          | cons b t =>
            have : b ∈ R.succ w := by rw [hsw]; simp
            exact hno b ((hpairs _).2 (Or.inl (mem_succ.1 this)))
      · subst h
        exact hno w ((hpairs _).2 (Or.inr (Or.inr rfl)))
    · intro p hp; exact (hpairs p).2 (Or.inl hp)
    · intro p hp
      rcases (hpairs p).1 hp with h | ⟨w1, h1, rfl⟩ | rfl
      · exact Or.inl h
      · exact Or.inr ⟨rfl, Or.inr h1⟩
      · exact Or.inr ⟨rfl, Or.inl rfl⟩

end Acc
end Ptx.LibModel
