/-
  Follower discipline of the writers' token streams (C12 / C19).  Core Lean only.

  `fol_standard`: every `StandardLexWriter` stream of a constructible sentence satisfies `Fol true`:
  an atomic token is followed by a subscript, a blank, a close paren or the end; a blank has an infix
  symbol (binary operator, identity, negated identity) on one side; the stream does not end in an
  infix symbol.  This is the lookahead that tells the atomic `E` from the Existence symbol `E!`
  (`LangStdDecode.excused`), and a node mark ` w…` / ` [+]` / ` *` from a blank of the sentence.

  `polishSyms` / `hasToks_noWs`: the Polish streams never use the blank token.
-/
import Ptx.Proofs.LangStdDecode
namespace Ptx.Write
open Ptx Ptx.Sym Ptx.Parse

/-- `Fol` of a continuation after any token that is not an infix symbol -/
def FolH (r : List WTok) : Prop := ∀ p : WTok, p.inF = false → Fol true (some p) r

theorem fol_cons_plain {prev : Option WTok} {k : WTok} {r : List WTok} (ha : k.isAtom = false) (hw : k ≠ .ws)
    (h : Fol true (some k) r) : Fol true prev (k :: r) := by
  refine ⟨?_, h⟩
  cases k <;> simp_all [okStep, WTok.isAtom]

theorem folH_nil : FolH [] := by
  intro p hp _; simpa [optInF] using hp

theorem folH_cons_plain {k : WTok} {r : List WTok} (ha : k.isAtom = false) (hw : k ≠ .ws) (hf : k.inF = false)
    (h : FolH r) : FolH (k :: r) := fun _ _ => fol_cons_plain ha hw (h k hf)

theorem folH_subToks (u : Nat) {r : List WTok} (h : FolH r) : FolH (subToks u ++ r) := by
  unfold subToks
  split
  · exact h
  · exact folH_cons_plain rfl (by simp) rfl h

theorem fol_paramToks (prev : Option WTok) (a : Param) {r : List WTok} (h : FolH r) :
    Fol true prev (paramToks a ++ r) := by
  cases a with
  | const i s => exact fol_cons_plain rfl (by simp) (folH_subToks s h _ rfl)
  | var i s => exact fol_cons_plain rfl (by simp) (folH_subToks s h _ rfl)

theorem folH_paramToks (a : Param) {r : List WTok} (h : FolH r) : FolH (paramToks a ++ r) :=
  fun _ _ => fol_paramToks _ a h

theorem folH_paramsToks (ps : List Param) {r : List WTok} (h : FolH r) : FolH (paramsToks ps ++ r) := by
  induction ps with
  | nil => simpa [paramsToks] using h
  | cons p ps ih => rw [paramsToks_cons', List.append_assoc]; exact folH_paramToks p ih

/-- a blank between a non-infix token and an infix symbol `k`, then a blank again -/
theorem folH_ws_infix_ws {k : WTok} {r : List WTok} (hk : k.inF = true) (h : FolH r) :
    FolH (.ws :: k :: .ws :: r) := by
  intro p _
  have hka : k.isAtom = false := by cases k <;> simp_all [WTok.inF, WTok.isAtom]
  have hkw : k ≠ .ws := by intro e; subst e; simp [WTok.inF] at hk
  refine ⟨by simp [okStep, optInF, hk], fol_cons_plain hka hkw ⟨by simp [okStep, optInF, hk], h .ws rfl⟩⟩

theorem atomNextOK_subToks (u : Nat) {r : List WTok} (h : atomNextOK r.head? = true) :
    atomNextOK (subToks u ++ r).head? = true := by
  unfold subToks
  split
  · simpa using h
  · simp [atomNextOK, WTok.isSub]

/-- inner standard streams of constructible sentences are follower-disciplined -/
theorem fol_std (m : MaxIdx) (o : StdOpts) : ∀ (n : Nat) (s : Sent) (r : List WTok) (prev : Option WTok),
    s.size ≤ n → Constructible m s → FolH r → atomNextOK r.head? = true → Fol true prev (stdToksIn o s ++ r) := by
  intro n
  induction n with
  | zero => intro s _ _ hs; have := s.size_pos; omega
  | succ n ih =>
    intro s r prev hsz c hr he
    obtain ⟨k, f⟩ := form o s
    generalize stdToksIn o s = T at f
    cases f with
    | atom i u =>
      refine ⟨?_, folH_subToks u hr _ rfl⟩
      simpa [okStep] using atomNextOK_subToks u he
    | pfx p ps =>
      simp only [Constructible, arityOK, indexOK, Bool.and_eq_true, beq_iff_eq] at c
      simp only [List.append_assoc]
      have hp := c.2.1
      simp only [predOK, Bool.or_eq_true, beq_iff_eq, Bool.and_eq_true, decide_eq_true_eq] at hp
      rcases hp with (hp | hp) | hp
      · subst hp
        cases ps with
        | nil => simp [Pred.identity] at c
        | cons a ps' =>
          rw [paramsToks_cons', List.append_assoc]
          exact fol_cons_plain rfl (by simp) (fol_paramToks _ a (folH_paramsToks ps' hr))
      · subst hp
        exact fol_cons_plain rfl (by simp) (folH_paramsToks ps hr _ rfl)
      · have a : p.index ≠ -1 := by omega
        have b : p.index ≠ -2 := by omega
        simp only [predToks, a, b, if_false, List.cons_append]
        exact fol_cons_plain rfl (by simp) (folH_subToks _ (folH_paramsToks ps hr) _ rfl)
    | infixId p a ps hid =>
      simp only [List.append_assoc]
      exact fol_paramToks _ a (folH_ws_infix_ws rfl (folH_paramsToks ps hr))
    | infixUser p a ps hid =>
      simp only [Constructible, arityOK, indexOK, Bool.and_eq_true, beq_iff_eq] at c
      simp only [List.append_assoc]
      apply fol_paramToks _ a
      have hp := c.2.1
      simp only [predOK, Bool.or_eq_true, beq_iff_eq, Bool.and_eq_true, decide_eq_true_eq] at hp
      rcases hp with (hp | hp) | hp
      · subst hp; simp [Pred.identity] at hid
      · subst hp
        exact folH_cons_plain rfl (by simp) rfl (folH_paramsToks ps hr)
      · have a : p.index ≠ -1 := by omega
        have b : p.index ≠ -2 := by omega
        simp only [predToks, a, b, if_false, List.cons_append]
        exact folH_cons_plain rfl (by simp) rfl (folH_subToks _ (folH_paramsToks ps hr))
    | negId p x y hid =>
      simp only [List.append_assoc]
      exact fol_paramToks _ x (folH_ws_infix_ws rfl (folH_paramToks y hr))
    | op1 op a =>
      simp only [Constructible, arityOK, indexOK] at c
      exact fol_cons_plain rfl (by simp) (ih a r _ (by simp [Sent.size] at hsz; omega) c hr he)
    | quant q vi vs b =>
      simp only [Constructible, arityOK, indexOK, Bool.and_eq_true, decide_eq_true_eq] at c
      simp only [List.cons_append, List.append_assoc]
      have hb : FolH (stdToksIn o b ++ r) :=
        fun p _ => ih b r _ (by simp [Sent.size] at hsz; omega) ⟨c.1, c.2.2⟩ hr he
      exact fol_cons_plain rfl (by simp) (fol_cons_plain rfl (by simp) (folH_subToks vs hb _ rfl))
    | op2 op a b =>
      simp only [Constructible, arityOK, indexOK, Bool.and_eq_true] at c
      simp only [List.cons_append, List.append_assoc]
      have hpc : FolH (WTok.parenClose :: r) := folH_cons_plain rfl (by simp) rfl hr
      have hb : FolH (stdToksIn o b ++ WTok.parenClose :: r) :=
        fun p _ => ih b _ _ (by simp [Sent.size] at hsz; omega) ⟨c.1.2, c.2.2⟩ hpc rfl
      exact fol_cons_plain rfl (by simp)
        (ih a _ _ (by simp [Sent.size] at hsz; omega) ⟨c.1.1, c.2.1⟩ (folH_ws_infix_ws rfl hb) rfl)

/-- … and so are the `__call__`-level streams -/
theorem fol_standard (m : MaxIdx) (o : StdOpts) (s : Sent) (c : Constructible m s) :
    Fol true none (standardToks o s) := by
  rcases standardToks_form o s with ⟨op, a, b, rfl, e⟩ | e <;> rw [e]
  · simp only [Constructible, arityOK, indexOK, Bool.and_eq_true] at c
    have hb : FolH (stdToksIn o b) := fun p _ => by
      have := fol_std m o b.size b [] (some p) (Nat.le_refl _) ⟨c.1.2, c.2.2⟩ folH_nil rfl
      simpa using this
    exact fol_std m o a.size a _ none (Nat.le_refl _) ⟨c.1.1, c.2.1⟩ (folH_ws_infix_ws rfl hb) rfl
  · have := fol_std m o s.size s [] none (Nat.le_refl _) c folH_nil rfl
    simpa using this

/-! ### Polish streams: no blank token -/

/-- the symbol tokens of a Polish stream: the table's symbols without the blank -/
def polishSyms (t : StringTable) (m : MaxIdx) : List WTok := (symToks t m true).filter (· != .ws)

theorem hasToks_noWs {toks : List WTok} {m : MaxIdx} {ex std : Bool} (h : HasToks toks m ex std) :
    HasToks (toks.filter (· != .ws)) m ex false := by
  refine ⟨?_, ?_, ?_, ?_, ?_, ?_, ?_, ?_, ?_, ?_, ?_, ?_, ?_⟩
  · intro o; exact List.mem_filter.mpr ⟨h.op1 o, by simp⟩
  · intro o; exact List.mem_filter.mpr ⟨h.op2 o, by simp⟩
  · intro q; exact List.mem_filter.mpr ⟨h.quant q, by simp⟩
  · exact List.mem_filter.mpr ⟨h.identity, by simp⟩
  · intro e; cases e
  · intro i hi; exact List.mem_filter.mpr ⟨h.atom i hi, by simp⟩
  · intro i hi; exact List.mem_filter.mpr ⟨h.var i hi, by simp⟩
  · intro i hi; exact List.mem_filter.mpr ⟨h.const i hi, by simp⟩
  · intro i hi; exact List.mem_filter.mpr ⟨h.pred i hi, by simp⟩
  · intro e; exact List.mem_filter.mpr ⟨h.existence e, by simp⟩
  · intro e; cases e
  · intro e; cases e
  · intro e; cases e

theorem hasToks_polishSyms (t : StringTable) (m : MaxIdx) : HasToks (polishSyms t m) m true false :=
  hasToks_noWs (hasToks_symToks t m true)

theorem standardToks_ne_nil (o : StdOpts) (s : Sent) : standardToks o s ≠ [] := by
  rcases standardToks_form o s with ⟨op, a, b, rfl, e⟩ | e <;> rw [e]
  · simp
  · obtain ⟨k, f⟩ := form o s
    intro h
    have := f.hdK []
    have hk := f.k_le
    rw [h] at this
    simp [hdK] at this
    omega

theorem polishToks_ne_nil (s : Sent) : polishToks s ≠ [] := by
  cases s with
  | pred p ps =>
    simp only [polishToks, predToks]
    split
    · simp
    · split <;> simp
  | _ => simp [polishToks]

end Ptx.Write
