/-
  Ptx.Proofs.LibModelFinish — `finish` (frame completion, the classical identity / existence pass,
  enforce) preserves `Model.Inv`; every program of API calls and every `read_branch` ends in a model
  with the invariant.
-/
import Ptx.Proofs.LibModelInv
namespace Ptx.LibModel
open Ptx

theorem foldRes_inv {α β} {step : β → α → Res β} (P : β → Prop)
    (hstep : ∀ b a b', P b → step b a = .ok b' → P b') :
    ∀ (as : List α) (b b' : β), P b → foldRes step b as = .ok b' → P b'
  | [], b, b', hb, h => by simp only [foldRes] at h; cases h; exact hb
  | a :: as, b, b', hb, h => by
      simp only [foldRes] at h
      split at h
      · next b1 h1 => exact foldRes_inv P hstep as b1 b' (hstep b a b1 hb h1) h
      · cases h

theorem mem_orderBy {α} [DecidableEq α] {hint xs : List α} {x : α} : x ∈ orderBy hint xs ↔ x ∈ xs := by
  unfold orderBy
  simp only [List.mem_append, List.mem_filter, List.contains_iff_mem, Bool.not_eq_true', decide_eq_false_iff_not,
    List.contains_eq_mem]
  constructor
  · rintro (⟨_, h⟩ | ⟨h, _⟩) <;> simpa using h
  · intro h
    by_cases hh : x ∈ hint
    · exact Or.inl ⟨hh, by simpa using h⟩
    · exact Or.inr ⟨h, by simpa using hh⟩

/-! ### `_complete_frames` -/

theorem mem_fillMissing {κ : Type} [DecidableEq κ] (un : V) : ∀ (keys : List κ) (l : List (κ × V)) (x : κ × V),
    x ∈ fillMissing keys un l → x ∈ l ∨ x.2 = un
  | [], _, _, h => Or.inl h
  | k :: ks, l, x, h => by
      simp only [fillMissing, List.foldl_cons] at h
      rcases mem_fillMissing un ks _ x h with h | h
      · rcases mem_ainsNew h with h | h
        · exact Or.inl h
        · exact Or.inr (by rw [h])
      · exact Or.inr h

theorem mem_foldl_ainsNew {κ β : Type} [DecidableEq κ] (d : β) : ∀ (ks : List κ) (l : List (κ × β)) (x : κ × β),
    x ∈ ks.foldl (fun l k => ainsNew l k d) l → x ∈ l ∨ x.2 = d
  | [], _, _, h => Or.inl h
  | k :: ks, l, x, h => by
      simp only [List.foldl_cons] at h
      rcases mem_foldl_ainsNew d ks _ x h with h | h
      · rcases mem_ainsNew h with h | h
        · exact Or.inl h
        · exact Or.inr (by rw [h])
      · exact Or.inr h

namespace Acc
theorem WF_touch {R : Acc} (h : R.WF) (w : Nat) : (R.touch w).WF := by
  intro p hp
  simp only [touch, mem_addNew]
  exact ⟨Or.inl (h p hp).1, Or.inl (h p hp).2⟩

theorem WF_foldl_touch {R : Acc} (h : R.WF) : ∀ (ws : List Nat), (ws.foldl touch R).WF
  | [] => h
  | w :: ws => by simp only [List.foldl_cons]; exact WF_foldl_touch (R := R.touch w) (WF_touch h w) ws

theorem WF_enforceSerial {R : Acc} (h : R.WF) : R.enforceSerial.WF := by
  unfold enforceSerial
  simp only
  split
  · exact h
  · exact WF_add (WF_addAll h) _ _

theorem WF_enforce {R : Acc} (h : R.WF) (k : FrameKind) : (enforce k R).1.WF := by
  cases k <;> simp only [enforce]
  · exact h
  · exact h
  · exact WF_enforceSerial h
  · exact WF_enforceRefl h
  · exact WF_enforceRT _ R h
  · exact WF_enforceGlobal _ _ R h
end Acc

theorem completeFrames_inv {L : LogicData} (hun : L.T.unassigned ∈ L.T.vals) {m m' : Model} (hm : m.Inv L)
    (h : completeFrames L m = .ok m') :
    m'.Inv L ∧ m'.consts = m.consts ∧ m'.finished = m.finished := by
  unfold completeFrames at h
  split at h
  · cases h; exact ⟨hm, rfl, rfl⟩
  split at h
  · cases h
  simp only [Except.ok.injEq] at h
  subst h
  refine ⟨⟨?_, ?_⟩, rfl, rfl⟩
  · intro wf hwf
    simp only [List.mem_map] at hwf
    obtain ⟨wf0, hwf0, rfl⟩ := hwf
    have h0 : FrameOK L m.consts wf0.2 := by
      rcases mem_foldl_ainsNew ({} : Frame) _ _ wf0 hwf0 with h | h
      · exact hm.frames wf0 h
      · rw [h]; exact FrameOK.empty
    refine ⟨?_, ?_, ?_⟩
    · intro av hav
      rcases mem_fillMissing _ _ _ av hav with h | h
      · exact h0.atomics av h
      · rw [h]; exact hun
    · intro sv hsv
      rcases mem_fillMissing _ _ _ sv hsv with h | h
      · exact h0.opaques sv h
      · rw [h]; exact hun
    · intro pi hpi
      rcases mem_foldl_ainsNew ([] : Interp) _ _ pi hpi with h | h
      · exact h0.preds pi h
      · rw [h]; simp
  · exact Acc.WF_foldl_touch hm.rwf _

/-! ### the classical pass -/

theorem setAllT_mem : ∀ (ts : List Tup) (ip ip' : Interp), setAllT ip ts = .ok ip' →
    ∀ tv ∈ ip', tv ∈ ip ∨ (tv.2 = .T ∧ tv.1 ∈ ts)
  | [], ip, ip', h, tv, htv => by simp only [setAllT] at h; cases h; exact Or.inl htv
  | t :: ts, ip, ip', h, tv, htv => by
      simp only [setAllT] at h
      split at h
      · next ip1 h1 =>
        rcases setAllT_mem ts ip1 ip' h tv htv with h2 | h2
        · unfold setT at h1
          split at h1
          · split at h1
            · cases h1; exact Or.inl h2
            · cases h1
          · cases h1
            rcases List.mem_append.1 h2 with h2 | h2
            · exact Or.inl h2
            · simp at h2; subst h2; exact Or.inr ⟨rfl, by simp⟩
        · exact Or.inr ⟨h2.1, List.mem_cons_of_mem _ h2.2⟩
      · cases h

theorem mem_having {ip : Interp} {vs : List V} {t : Tup} (h : t ∈ having ip vs) :
    ∃ v, ip.lookup t = some v ∧ v ∈ vs := by
  simp only [having, List.mem_filter] at h
  obtain ⟨_, h⟩ := h
  split at h
  · next v hv => exact ⟨v, hv, by simpa using h⟩
  · cases h

theorem having_iff {ip : Interp} {vs : List V} {t : Tup} :
    t ∈ having ip vs ↔ ∃ v, ip.lookup t = some v ∧ v ∈ vs := by
  constructor
  · exact mem_having
  · rintro ⟨v, hv, hvs⟩
    simp only [having, List.mem_filter]
    exact ⟨mem_akeys_of_lookup hv, by simp [hv, hvs]⟩

/-- a parameter is a model constant -/
def paramIn (cs : List (Nat × Nat)) : Param → Bool
  | .const i j => cs.contains (i, j)
  | .var _ _ => false

theorem tupIn_iff {cs : List (Nat × Nat)} {t : Tup} : tupIn cs t = true ↔ ∀ x ∈ t, paramIn cs x = true := by
  simp only [tupIn, List.all_eq_true]
  constructor <;> intro h x hx <;> have := h x hx <;> cases x <;> simpa [paramIn] using this

theorem mem_identicals_in {L : LogicData} {cs : List (Nat × Nat)} {f : Frame} (hf : FrameOK L cs f) {c n : Param}
    (h : n ∈ identicals f c) : paramIn cs n = true := by
  simp only [identicals, List.mem_filter] at h
  obtain ⟨h, _⟩ := h
  have h' : n ∈ ((having (f.interp Pred.identity) [.T]).filter (·.contains c)).flatten := by
    -- members of `toSet l` are members of `l`
    have hsub : ∀ (l : List Param) (x : Param), x ∈ toSet l → x ∈ l := by
      intro l
      induction l with
      | nil => intro x hx; simp [toSet] at hx
      | cons a t ih =>
        intro x hx
        simp only [toSet, List.mem_cons, List.mem_filter] at hx
        rcases hx with hx | ⟨hx, _⟩
        · exact hx ▸ List.mem_cons_self
        · exact List.mem_cons_of_mem _ (ih x hx)
    exact hsub _ _ h
  obtain ⟨t, ht, hn⟩ := List.mem_flatten.1 h'
  obtain ⟨v, hv, _⟩ := mem_having (List.mem_filter.1 ht).1
  exact tupIn_iff.1 ((hf.interp _) (t, v) (lookup_mem hv)).2 n hn

theorem tupIn_substTup {cs : List (Nat × Nat)} {t : Tup} {c n : Param} (ht : tupIn cs t = true)
    (hn : paramIn cs n = true) : tupIn cs (substTup t c n) = true := by
  rw [tupIn_iff] at ht ⊢
  intro x hx
  obtain ⟨y, hy, rfl⟩ := List.mem_map.1 hx
  split
  · exact hn
  · exact ht y hy

theorem augmentC_inv {L : LogicData} (hT : V.T ∈ L.T.vals) {cs : List (Nat × Nat)} {f f' : Frame} (hf : FrameOK L cs f)
    (p : Pred) (c : Param) (h : augmentC f p c = .ok f') : FrameOK L cs f' := by
  unfold augmentC at h
  simp only at h
  have hf1 := hf.ensurePred Pred.identity
  split at h
  · next ip' hip =>
    cases h
    apply hf1.setInterp p
    intro tv htv
    rcases setAllT_mem _ _ _ hip tv htv with h | ⟨h1, h2⟩
    · exact hf1.interp p tv h
    · refine ⟨h1 ▸ hT, ?_⟩
      obtain ⟨t, ht, hmem⟩ := List.mem_flatMap.1 h2
      obtain ⟨n, hn, hnt⟩ := List.mem_map.1 hmem
      rw [← hnt]
      obtain ⟨v, hv, _⟩ := mem_having (List.mem_filter.1 ht).1
      exact tupIn_substTup ((hf1.interp p) (t, v) (lookup_mem hv)).2 (mem_identicals_in hf1 hn)
  · cases h

theorem augment_inv {L : LogicData} (hT : V.T ∈ L.T.vals) {cs : List (Nat × Nat)} (ps : List Param) {f f' : Frame}
    (hf : FrameOK L cs f) (p : Pred) (h : augment ps f p = .ok f') : FrameOK L cs f' := by
  unfold augment at h
  exact foldRes_inv (FrameOK L cs) (fun b a b' hb hs => augmentC_inv hT hb p a hs) ps _ f' (hf.ensurePred p) h

theorem ensureSelf_inv {L : LogicData} (hT : V.T ∈ L.T.vals) {cs : List (Nat × Nat)} (ps : List Param)
    (hps : ∀ x ∈ ps, paramIn cs x = true) (p : Pred) (mk : Param → Tup) (hmk : ∀ x y, y ∈ mk x → y = x)
    {f f' : Frame} (hf : FrameOK L cs f) (h : ensureSelf ps p mk f = .ok f') : FrameOK L cs f' := by
  unfold ensureSelf at h
  split at h
  · cases h; exact hf
  · simp only at h
    split at h
    · next ip' hip =>
      cases h
      apply (hf.ensurePred p).setInterp p
      intro tv htv
      rcases setAllT_mem _ _ _ hip tv htv with h | ⟨h1, h2⟩
      · exact (hf.ensurePred p).interp p tv h
      · refine ⟨h1 ▸ hT, ?_⟩
        obtain ⟨x, hx, hmem⟩ := List.mem_map.1 h2
        rw [tupIn_iff]
        intro y hy
        rw [← hmem] at hy
        rw [hmk x y hy]
        exact hps x hx
    · cases h

theorem cplFrame_inv {L : LogicData} (hT : V.T ∈ L.T.vals) {cs : List (Nat × Nat)} (ps : List Param)
    (hps : ∀ x ∈ ps, paramIn cs x = true) (snapshot : List Pred) {f f' : Frame} (hf : FrameOK L cs f)
    (h : cplFrame ps snapshot f = .ok f') : FrameOK L cs f' := by
  unfold cplFrame at h
  split at h
  · cases h
  · next f1 h1 =>
    have hf1 := foldRes_inv (FrameOK L cs) (fun b a b' hb hs => augment_inv hT ps hb a hs) snapshot f f1 hf h1
    split at h
    · cases h
    · next f2 h2 =>
      have hf2 := ensureSelf_inv hT ps hps Pred.identity _ (by intro x y hy; simpa using hy) hf1 h2
      exact ensureSelf_inv hT ps hps Pred.existence _ (by intro x y hy; simpa using hy) hf2 h

theorem paramIn_constParams {cs xs : List (Nat × Nat)} (h : ∀ x ∈ xs, x ∈ cs) :
    ∀ p ∈ constParams xs, paramIn cs p = true := by
  intro p hp
  obtain ⟨c, hc, rfl⟩ := List.mem_map.1 hp
  simpa [paramIn] using h c hc

theorem cplFrames_inv {L : LogicData} (hT : V.T ∈ L.T.vals) (hints : Hints) {m m' : Model} (hm : m.Inv L)
    (h : cplFrames hints m = .ok m') :
    m'.Inv L ∧ m'.consts = m.consts ∧ m'.finished = m.finished ∧ m'.R = m.R := by
  unfold cplFrames at h
  simp only at h
  split at h
  · next frames hfr =>
    cases h
    refine ⟨⟨?_, hm.rwf⟩, rfl, rfl, rfl⟩
    -- the accumulated frames are good
    have key := foldRes_inv
      (step := fun (acc : List (Nat × Frame)) (wf : Nat × Frame) =>
        match cplFrame (constParams (orderBy hints.consts m.consts))
            (orderBy ((hints.preds.lookup wf.1).getD []) (akeys wf.2.preds)) wf.2 with
        | .ok f => Except.ok (acc ++ [(wf.1, f)])
        | .error e => .error e)
      (fun (acc : List (Nat × Frame)) => (∀ wf ∈ acc, FrameOK L m.consts wf.2))
    -- the step only appends frames produced from frames of `m`; we carry membership in `m.frames` separately
    have gen : ∀ (todo : List (Nat × Frame)) (acc acc' : List (Nat × Frame)),
        (∀ wf ∈ todo, wf ∈ m.frames) → (∀ wf ∈ acc, FrameOK L m.consts wf.2) →
        foldRes (fun (acc : List (Nat × Frame)) (wf : Nat × Frame) =>
          match cplFrame (constParams (orderBy hints.consts m.consts))
              (orderBy ((hints.preds.lookup wf.1).getD []) (akeys wf.2.preds)) wf.2 with
          | .ok f => Except.ok (acc ++ [(wf.1, f)])
          | .error e => .error e) acc todo = .ok acc' →
        ∀ wf ∈ acc', FrameOK L m.consts wf.2 := by
      intro todo
      induction todo with
      | nil => intro acc acc' _ hacc h; simp only [foldRes] at h; cases h; exact hacc
      | cons a t ih =>
        intro acc acc' hsub hacc h
        simp only [foldRes] at h
        split at h
        · next b1 h1 =>
          split at h1
          · next f1 hf1 =>
            cases h1
            apply ih _ acc' (fun wf hwf => hsub wf (List.mem_cons_of_mem _ hwf)) _ h
            intro wf hwf
            rcases List.mem_append.1 hwf with hwf | hwf
            · exact hacc wf hwf
            · simp at hwf; subst hwf
              exact cplFrame_inv hT _ (paramIn_constParams fun x hx => mem_orderBy.1 hx) _
                (hm.frames a (hsub a List.mem_cons_self)) hf1
          · cases h1
        · cases h
    exact gen m.frames [] frames (fun _ h => h) (by simp) hfr
  · cases h

theorem finishBase_inv {L : LogicData} {m : Model} (hm : m.Inv L) : (finishBase L m).1.Inv L :=
  ⟨hm.frames, Acc.WF_enforce hm.rwf _⟩

/-- the two table facts the invariant needs -/
structure TablesOK (L : LogicData) : Prop where
  una : L.T.unassigned ∈ L.T.vals
  neg : ∀ v ∈ L.T.vals, L.T.f1 .neg v ∈ L.T.vals
  top : isClassical L = true → V.T ∈ L.T.vals

theorem tablesOK_of_total {L : LogicData} (h : L.tablesTotalB = true) : TablesOK L := by
  have hc := L.tables.closed_of_totalB _ _ _ h
  refine ⟨hc.una, fun v hv => hc.f1 .neg (Or.inr rfl) v hv, ?_⟩
  intro hcl
  have : L.T.vals = [.F, .T] := by simpa [isClassical] using hcl
  rw [this]; simp

theorem finish_inv {L : LogicData} (hL : TablesOK L) (hints : Hints) {m : Model} (hm : m.Inv L) :
    (finish L hints m).1.Inv L := by
  unfold finish finishX
  split
  · exact hm
  split
  · exact hm
  next m1 h1 =>
  have hm1 := (completeFrames_inv hL.una hm h1).1
  split
  · next hcl =>
    split
    · exact hm1
    · next m2 h2 => exact finishBase_inv (cplFrames_inv (hL.top hcl) hints hm1 h2).1
  · exact finishBase_inv hm1

theorem init_inv (L : LogicData) : Model.init.Inv L := by
  refine ⟨?_, ?_⟩
  · intro wf hwf
    simp [Model.init] at hwf
    subst hwf
    exact FrameOK.empty
  · intro p hp; simp [Model.init] at hp

theorem step_inv {L : LogicData} (hL : TablesOK L) (hints : Hints) {m : Model} (hm : m.Inv L) (op : MOp) :
    (step L hints m op).1.Inv L := by
  cases op <;> simp only [step]
  · exact setAtomic_inv hm _ _ _
  · exact setPredicated_inv hm _ _ _ _
  · exact setOpaque_inv hm _ _ _
  · exact setLiteral_inv _ hm _ _
  · exact setValue_inv hm _ _ _
  · exact rAdd_inv hm _ _
  · exact finish_inv hL hints hm

/-- every model assembled through the API satisfies the invariant -/
theorem run_inv {L : LogicData} (hL : TablesOK L) (hints : Hints) : ∀ (ops : List MOp) (m : Model), m.Inv L →
    (run L hints m ops).1.Inv L
  | [], _, hm => hm
  | op :: ops, m, hm => by
      simp only [run]
      exact run_inv hL hints ops _ (step_inv hL hints hm op)

theorem readNode_inv {L : LogicData} {m : Model} (hm : m.Inv L) (b : List Node) (n : Node) :
    (readNode L m b n).1.Inv L := by
  unfold readNode
  split
  · exact hm
  split
  · exact rAdd_inv hm _ _
  · exact hm
  · exact hm
  · next s d wo =>
    have key : ∀ m1 : Model, m1.Inv L →
        (if (!isLiteral L s && !isOpaque L s) = true then
          (({ m1 with sAtoms := uni m1.sAtoms s.atomics, sPreds := uni m1.sPreds s.predicates,
                      consts := uni m1.consts (sentConsts s) } : Model), (none : Option Err))
        else
          let m2 : Model := { m1 with sAtoms := uni m1.sAtoms s.atomics, sPreds := uni m1.sPreds s.predicates,
                                      consts := uni m1.consts (sentConsts s) }
          let sv : Sent × V := match d with
            | some d =>
              let hasNeg := branchHas b s.negative d wo
              if s.isNeg then (s.negative, readValue true d hasNeg) else (s, readValue false d hasNeg)
            | none => (s, .T)
          if !hasVal L sv.2 then (m2, some .key) else
          if isOpaque L s then setOpaque L m2 sv.1 sv.2 (wo.getD 0) else setLiteral L m2 sv.1 sv.2 (wo.getD 0)).1.Inv L := by
      intro m1 hm1
      have hm2 : ({ m1 with sAtoms := uni m1.sAtoms s.atomics, sPreds := uni m1.sPreds s.predicates,
                            consts := uni m1.consts (sentConsts s) } : Model).Inv L :=
        inv_of hm1 rfl (mem_sentConsts_mono s) fun wf h => Or.inl h
      have key' : ∀ (m2 : Model), m2.Inv L → ∀ (sv : Sent × V),
          (if (!hasVal L sv.2) = true then (m2, some Err.key) else
           if isOpaque L s = true then setOpaque L m2 sv.1 sv.2 (wo.getD 0)
           else setLiteral L m2 sv.1 sv.2 (wo.getD 0)).1.Inv L := by
        intro m2 hm2 sv
        split
        · exact hm2
        split
        · exact setOpaque_inv hm2 _ _ _
        · exact setLiteral_inv _ hm2 _ _
      split
      · exact hm2
      · exact key' _ hm2 _
    cases wo with
    | none => exact key m hm
    | some w => exact key _ ⟨hm.frames, Acc.WF_touch hm.rwf w⟩

theorem readNodes_inv {L : LogicData} (b : List Node) : ∀ (ns : List Node) (m : Model), m.Inv L →
    (readNodes L b m ns).1.Inv L
  | [], _, hm => hm
  | n :: ns, m, hm => by
      have h1 := readNode_inv hm b n
      simp only [readNodes]
      split
      · next m1 heq => rw [heq] at h1; exact readNodes_inv b ns m1 h1
      · next m1 e heq => rw [heq] at h1; exact h1

theorem readBranch_inv {L : LogicData} (hL : TablesOK L) (hints : Hints) (b : List Node) :
    (readBranch L hints Model.init b).1.Inv L := by
  unfold readBranch
  split
  · exact init_inv L
  · have h1 := readNodes_inv b b Model.init (init_inv L)
    split
    · next m1 heq => rw [heq] at h1; exact finish_inv hL hints h1
    · next m1 e heq => rw [heq] at h1; exact h1

end Ptx.LibModel
