/-
  Character-level unique decodability of writer token streams through a string table (C12,
  "distinct sentences never render to the same string", any format / dialect).  Core Lean only.

  `Decodable t m ex` (decidable, checked by `decide +kernel` per generated table): the symbol
  strings of the table (with or without the Existence symbol, `ex`) are nonempty, start with a
  non-digit, and form a prefix code; subscripts are either bare digit runs (no markers) or are
  opened by a marker that is prefix-incomparable with every symbol and closed by a marker that
  starts with a non-digit.

  `render_inj`: under `Decodable`, `render t` is injective on admissible token streams (`Adm`:
  symbol tokens of the table, subscripts non-zero and never adjacent).
  `adm_polish` / `adm_std`: the writers' streams of constructible sentences are admissible.

  Lookahead (`DecodableG`, `DecodableLA`, `Fol`, `excused`): a prefix pair (atomic, other symbol) —
  `E` / `E!` in the standard tables — is excused when the remainder starts with a character that
  nothing following an atomic in a standard stream starts with; `Fol true` (delivered for the
  standard writer by `LangStdFol.fol_standard`) is that follower discipline.
  `render_inj_tail`: the same with mark tails after the streams (`heads`; used by C19 for the
  marks of a tableau node).
-/
import Ptx.Proofs.LangStdInj
import Ptx.Proofs.LangParseBasic
namespace Ptx.Write
open Ptx Ptx.Sym Ptx.Parse

theorem render_cons' (t : StringTable) (a : WTok) (ts : List WTok) :
    render t (a :: ts) = renderTok t a ++ render t ts := by simp [render]

def isDigitChr (c : Chr) : Bool := decide (48 ≤ c) && decide (c ≤ 57)

/-- the symbol tokens of a table: everything but subscripts; Existence only if `ex`; parentheses
    and the negated-identity symbol only if the table has them -/
def symToks (t : StringTable) (m : MaxIdx) (ex : Bool) : List WTok :=
  Op1.all.map .op1 ++ Op2.all.map .op2 ++ Quant.all.map .quant ++ [.identity, .ws] ++
  (if ex then [.existence] else []) ++
  (List.range (m.atom + 1)).map .atom ++ (List.range (m.var + 1)).map .var ++
  (List.range (m.const + 1)).map .const ++ (List.range (m.pred + 1)).map .pred ++
  (if t.parenOpen.isSome then [.parenOpen] else []) ++ (if t.parenClose.isSome then [.parenClose] else []) ++
  (if t.negIdentity.isSome then [.negIdentity] else [])

def Decodable (t : StringTable) (m : MaxIdx) (ex : Bool) : Bool :=
  (symToks t m ex).all (fun k => match renderTok t k with | [] => false | c :: _ => !isDigitChr c) &&
  (symToks t m ex).all (fun k1 => (symToks t m ex).all fun k2 =>
    k1 == k2 || !(renderTok t k1).isPrefixOf (renderTok t k2)) &&
  (match t.subOpen with
   | [] => t.subClose.isEmpty
   | _ :: _ =>
     (match t.subClose with | [] => false | c :: _ => !isDigitChr c) &&
     (symToks t m ex).all (fun k => !(t.subOpen.isPrefixOf (renderTok t k)) && !((renderTok t k).isPrefixOf t.subOpen)))

/-- admissible token streams: symbol tokens of the table; subscripts non-zero, never adjacent -/
def Adm (toks : List WTok) : List WTok → Prop
  | [] => True
  | t :: rest => ((∃ n, t = .sub n ∧ n ≠ 0 ∧ NoSub rest) ∨ t ∈ toks) ∧ Adm toks rest

def HeadNonDigit (l : List Chr) : Prop := ∀ c ∈ l.head?, isDigitChr c = false

theorem isDigitChr_digitChr (d : Nat) (h : d < 10) : isDigitChr (digitChr d) = true := by
  unfold isDigitChr digitChr
  simp only [Bool.and_eq_true, decide_eq_true_eq]
  have : (48 + d : Nat) ≤ 57 := by omega
  exact ⟨Nat.le_add_right _ _, this⟩

theorem digits_inj : ∀ (ds1 ds2 : List Nat) (F1 F2 : List Chr), (∀ d ∈ ds1, d < 10) → (∀ d ∈ ds2, d < 10) →
    HeadNonDigit F1 → HeadNonDigit F2 → ds1.map digitChr ++ F1 = ds2.map digitChr ++ F2 → ds1 = ds2 ∧ F1 = F2 := by
  intro ds1
  induction ds1 with
  | nil =>
    intro ds2 F1 F2 _ h2 f1 _ h
    cases ds2 with
    | nil => exact ⟨rfl, by simpa using h⟩
    | cons d ds =>
      simp at h
      subst h
      have := f1 (digitChr d) (by simp)
      rw [isDigitChr_digitChr d (h2 d (by simp))] at this
      cases this
  | cons d1 ds1 ih =>
    intro ds2 F1 F2 h1 h2 f1 f2 h
    cases ds2 with
    | nil =>
      simp at h
      subst h
      have := f2 (digitChr d1) (by simp)
      rw [isDigitChr_digitChr d1 (h1 d1 (by simp))] at this
      cases this
    | cons d2 ds2 =>
      simp only [List.map_cons, List.cons_append, List.cons.injEq] at h
      obtain ⟨hd, ht⟩ := h
      obtain ⟨e, f⟩ := ih ds2 F1 F2 (fun x hx => h1 x (by simp [hx])) (fun x hx => h2 x (by simp [hx])) f1 f2 ht
      have : d1 = d2 := by simp [digitChr] at hd; omega
      exact ⟨by rw [this, e], f⟩

theorem decDigits_inj {n1 n2 : Nat} (h : decDigits n1 = decDigits n2) : n1 = n2 := by
  rw [← horner_decDigits n1, ← horner_decDigits n2, h]

theorem append_prefix_cases {a b R1 R2 : List Chr} (h : a ++ R1 = b ++ R2) :
    a.isPrefixOf b = true ∨ b.isPrefixOf a = true := by
  rw [List.append_eq_append_iff] at h
  rcases h with ⟨a', hb, _⟩ | ⟨c', ha, _⟩
  · left; rw [List.isPrefixOf_iff_prefix]; exact ⟨a', hb.symm⟩
  · right; rw [List.isPrefixOf_iff_prefix]; exact ⟨c', ha.symm⟩

/-! ### lookahead: follower discipline of a stream, mark heads after a stream

  Standard tables: the atomic `E` is a prefix of the Existence symbol `E!`.  In a STANDARD stream an
  atomic token is followed by a subscript, a blank, a close paren or the end; `excused` accepts a
  prefix pair (atomic, k2) whose remainder starts with a character that none of these (nor a mark
  head) starts with.  `heads` are strings that may follow a complete stream (the marks of a
  tableau node, C19): each must be prefix-incomparable with every non-blank symbol, with the
  subscript opener and with `blank ++ infix symbol` (in a standard stream a blank is written only
  next to a binary operator / identity / negated identity, and a complete stream does not end in
  one of these). -/

/-- infix symbols: a blank is written only next to one of these -/
def WTok.inF : WTok → Bool
  | .op2 _ | .identity | .negIdentity => true
  | _ => false

def optInF : Option WTok → Bool
  | some k => k.inF
  | none => false

def WTok.isAtom : WTok → Bool
  | .atom _ => true
  | _ => false

/-- what may follow an atomic token in a standard stream -/
def atomNextOK : Option WTok → Bool
  | none => true
  | some k => k.isSub || k == .ws || k == .parenClose

def okStep (std : Bool) (prev : Option WTok) (k : WTok) (nx : Option WTok) : Bool :=
  std == false ||
  match k with
  | .atom _ => atomNextOK nx
  | .ws => optInF prev || optInF nx
  | _ => true

/-- follower discipline (`std = true`; nothing is asked of a Polish stream): an atomic is followed by
    a subscript / blank / close paren / nothing; a blank has an infix symbol on one side; the stream
    does not end in an infix symbol.  `prev` is the token before the stream. -/
def Fol (std : Bool) : Option WTok → List WTok → Prop
  | prev, [] => std = true → optInF prev = false
  | prev, k :: rest => okStep std prev k rest.head? = true ∧ Fol std (some k) rest

def incomp (a b : List Chr) : Bool := !a.isPrefixOf b && !b.isPrefixOf a

theorem incomp_absurd {a b R1 R2 : List Chr} (hi : incomp a b = true) (h : a ++ R1 = b ++ R2) : False := by
  simp only [incomp, Bool.and_eq_true, Bool.not_eq_true'] at hi
  rcases append_prefix_cases h with p | p
  · rw [hi.1] at p; cases p
  · rw [hi.2] at p; cases p

/-- a prefix pair (atomic `k1`, `k2`) is excused when the character after `k1` in `k2` starts nothing
    that can follow an atomic -/
def excused (t : StringTable) (heads : List (List Chr)) (k1 k2 : WTok) : Bool :=
  k1.isAtom &&
  match (renderTok t k2).drop (renderTok t k1).length with
  | [] => false
  | c :: _ => !isDigitChr c && t.subOpen.head? != some c && t.ws.head? != some c &&
      (renderTok t .parenClose).head? != some c && heads.all (fun mk => mk.head? != some c)

def headOK (t : StringTable) (toks : List WTok) (mk : List Chr) : Bool :=
  (match mk with | [] => false | c :: _ => !isDigitChr c) &&
  (t.subOpen.isEmpty || incomp mk t.subOpen) &&
  toks.all (fun k => k == .ws || incomp mk (renderTok t k)) &&
  toks.all (fun k => !k.inF || incomp mk (renderTok t .ws ++ renderTok t k))

/-- general decidable condition over an explicit token list: `Decodable` + excusal (`std`) + mark heads;
    without `std`, mark heads are only allowed when the blank is not a token of the streams -/
def DecodableG (t : StringTable) (toks : List WTok) (std : Bool) (heads : List (List Chr)) : Bool :=
  toks.all (fun k => match renderTok t k with | [] => false | c :: _ => !isDigitChr c) &&
  toks.all (fun k1 => toks.all fun k2 =>
    k1 == k2 || !(renderTok t k1).isPrefixOf (renderTok t k2) || (std && excused t heads k1 k2)) &&
  (match t.subOpen with
   | [] => t.subClose.isEmpty
   | _ :: _ =>
     (match t.subClose with | [] => false | c :: _ => !isDigitChr c) &&
     toks.all (fun k => !(t.subOpen.isPrefixOf (renderTok t k)) && !((renderTok t k).isPrefixOf t.subOpen))) &&
  toks.all (fun k => !k.isSub) &&
  heads.all (headOK t toks) &&
  (std || heads.isEmpty || !toks.contains .ws)

/-- `Decodable` with Existence and the lookahead for atomics (standard tables: `E` / `E!`) -/
def DecodableLA (t : StringTable) (m : MaxIdx) : Bool := DecodableG t (symToks t m true) true []

/-- a string that may follow a complete stream: nothing, or something starting with a mark head -/
def Tail (heads : List (List Chr)) (X : List Chr) : Prop := X = [] ∨ ∃ mk ∈ heads, ∃ Y, X = mk ++ Y

section
variable {t : StringTable} {m : MaxIdx} {ex : Bool}

/-- what `Decodable` / `DecodableG` give, as propositions -/
structure DecodableP (t : StringTable) (toks : List WTok) (std : Bool) (heads : List (List Chr)) : Prop where
  head : ∀ k ∈ toks, ∃ c tl, renderTok t k = c :: tl ∧ isDigitChr c = false
  code : ∀ k1 ∈ toks, ∀ k2 ∈ toks, (renderTok t k1).isPrefixOf (renderTok t k2) = true →
    k1 = k2 ∨ (std = true ∧ excused t heads k1 k2 = true)
  sub : (t.subOpen = [] ∧ t.subClose = []) ∨
        ((∃ c tl, t.subClose = c :: tl ∧ isDigitChr c = false) ∧
          ∀ k ∈ toks, t.subOpen.isPrefixOf (renderTok t k) = false ∧ (renderTok t k).isPrefixOf t.subOpen = false)
  nosub : ∀ n, WTok.sub n ∉ toks
  hds : ∀ mk ∈ heads, headOK t toks mk = true
  wsfree : std = false → heads ≠ [] → WTok.ws ∉ toks

theorem symToks_nosub (t : StringTable) (m : MaxIdx) (ex : Bool) (n : Nat) : WTok.sub n ∉ symToks t m ex := by
  simp only [symToks, Op1.all, Op2.all, Quant.all]
  intro h
  simp only [List.mem_append, List.mem_map, List.mem_cons, List.mem_ite_nil_right, reduceCtorEq, and_false,
    exists_false, or_false, List.not_mem_nil] at h

theorem DecodableP.of_bool (h : Decodable t m ex = true) : DecodableP t (symToks t m ex) false [] := by
  simp only [Decodable, Bool.and_eq_true, List.all_eq_true] at h
  obtain ⟨⟨h1, h2⟩, h3⟩ := h
  refine ⟨?_, ?_, ?_, symToks_nosub t m ex, fun mk hmk => (by cases hmk), fun _ h => absurd rfl h⟩
  · intro k hk
    have := h1 k hk
    split at this
    · cases this
    · rename_i c tl e
      exact ⟨c, tl, e, by simpa using this⟩
  · intro k1 hk1 k2 hk2 hp
    have := h2 k1 hk1 k2 hk2
    simp only [Bool.or_eq_true, beq_iff_eq, Bool.not_eq_true'] at this
    rcases this with e | e
    · exact Or.inl e
    · rw [hp] at e; cases e
  · split at h3
    · rename_i e
      exact Or.inl ⟨e, by simpa using h3⟩
    · right
      simp only [Bool.and_eq_true, List.all_eq_true, Bool.not_eq_true'] at h3
      obtain ⟨h4, h5⟩ := h3
      refine ⟨?_, h5⟩
      split at h4
      · cases h4
      · rename_i c tl e
        exact ⟨c, tl, e, by simpa using h4⟩

theorem DecodableP.of_boolG {toks : List WTok} {std : Bool} {heads : List (List Chr)}
    (h : DecodableG t toks std heads = true) : DecodableP t toks std heads := by
  simp only [DecodableG, Bool.and_eq_true, List.all_eq_true] at h
  obtain ⟨⟨⟨⟨⟨h1, h2⟩, h3⟩, h4⟩, h5⟩, h6⟩ := h
  refine ⟨?_, ?_, ?_, ?_, h5, ?_⟩
  · intro k hk
    have := h1 k hk
    split at this
    · cases this
    · rename_i c tl e
      exact ⟨c, tl, e, by simpa using this⟩
  · intro k1 hk1 k2 hk2 hp
    have := h2 k1 hk1 k2 hk2
    simp only [Bool.or_eq_true, beq_iff_eq, Bool.not_eq_true', Bool.and_eq_true] at this
    rcases this with (e | e) | e
    · exact Or.inl e
    · rw [hp] at e; cases e
    · exact Or.inr e
  · split at h3
    · rename_i e
      exact Or.inl ⟨e, by simpa using h3⟩
    · right
      simp only [Bool.and_eq_true, List.all_eq_true, Bool.not_eq_true'] at h3
      obtain ⟨h4', h5'⟩ := h3
      refine ⟨?_, h5'⟩
      split at h4'
      · cases h4'
      · rename_i c tl e
        exact ⟨c, tl, e, by simpa using h4'⟩
  · intro n hn
    have := h4 _ hn
    simp [WTok.isSub] at this
  · intro hs hh hw
    subst hs
    simp only [Bool.false_or, Bool.or_eq_true, List.isEmpty_iff, Bool.not_eq_true',
      List.contains_eq_mem, decide_eq_false_iff_not] at h6
    rcases h6 with h6 | h6
    · exact hh h6
    · exact h6 hw

variable {toks : List WTok} {std : Bool} {heads : List (List Chr)} (hd : DecodableP t toks std heads)
include hd

theorem tail_head_nonDigit {X : List Chr} (hx : Tail heads X) : HeadNonDigit X := by
  rcases hx with rfl | ⟨mk, hmk, Y, rfl⟩
  · intro c hc; simp at hc
  · have := hd.hds mk hmk
    simp only [headOK, Bool.and_eq_true] at this
    obtain ⟨⟨⟨h1, _⟩, _⟩, _⟩ := this
    split at h1
    · cases h1
    · intro c hc
      simp only [List.cons_append, List.head?_cons, Option.mem_def, Option.some.injEq] at hc
      rw [← hc]; simpa using h1

theorem render_head_nonDigit (ts : List WTok) (X : List Chr) (ha : Adm toks ts) (hn : NoSub ts)
    (hx : Tail heads X) : HeadNonDigit (render t ts ++ X) := by
  cases ts with
  | nil => simpa [render] using tail_head_nonDigit hd hx
  | cons k rest =>
    obtain ⟨hk, _⟩ := ha
    rcases hk with ⟨n, rfl, _, _⟩ | hk
    · have := hn (.sub n) (by simp)
      simp [WTok.isSub] at this
    · obtain ⟨c, tl, e, hc⟩ := hd.head k hk
      intro c' hc'
      simp only [render_cons', e, List.cons_append, List.head?_cons, Option.mem_def, Option.some.injEq] at hc'
      rw [← hc']; exact hc

omit hd in
theorem sub_ne_nil (n : Nat) : renderTok t (.sub n) ≠ [] := by
  simp only [renderTok]
  intro h
  simp only [List.append_eq_nil_iff, List.map_eq_nil_iff] at h
  exact decDigits_ne_nil n h.1.2

omit hd in
/-- the first character of a rendered subscript: the opener's, or a digit -/
theorem sub_head (n : Nat) : ∃ c tl, renderTok t (.sub n) = c :: tl ∧
    (t.subOpen.head? = some c ∨ (t.subOpen = [] ∧ isDigitChr c = true)) := by
  obtain ⟨d, ds, hds⟩ : ∃ d ds, decDigits n = d :: ds := by
    cases h' : decDigits n with
    | nil => exact absurd h' (decDigits_ne_nil n)
    | cons d ds => exact ⟨d, ds, rfl⟩
  cases so : t.subOpen with
  | nil =>
    refine ⟨digitChr d, ds.map digitChr ++ t.subClose, by simp [renderTok, so, hds], Or.inr ⟨rfl, ?_⟩⟩
    exact isDigitChr_digitChr d (decDigits_lt n d (by simp [hds]))
  | cons c tl => exact ⟨c, tl ++ ((decDigits n).map digitChr ++ t.subClose), by simp [renderTok, so], Or.inl rfl⟩

/-- symbol against subscript is impossible -/
theorem symsub (k : WTok) (n : Nat) (R R' : List Chr) (hk : k ∈ toks)
    (hh : renderTok t k ++ R = renderTok t (.sub n) ++ R') : False := by
  rcases hd.sub with ⟨so, sc⟩ | ⟨_, hinc⟩
  · obtain ⟨c, tl, e, hc⟩ := hd.head k hk
    obtain ⟨d, ds, hds⟩ : ∃ d ds, decDigits n = d :: ds := by
      cases h' : decDigits n with
      | nil => exact absurd h' (decDigits_ne_nil n)
      | cons d ds => exact ⟨d, ds, rfl⟩
    rw [e] at hh
    simp only [renderTok, so, sc, hds, List.nil_append, List.append_nil, List.map_cons, List.cons_append,
      List.cons.injEq] at hh
    rw [hh.1, isDigitChr_digitChr d (decDigits_lt n d (by simp [hds]))] at hc
    cases hc
  · have hh' : renderTok t k ++ R = t.subOpen ++ ((decDigits n).map digitChr ++ t.subClose ++ R') := by
      simpa [renderTok, List.append_assoc] using hh
    rcases append_prefix_cases hh' with p | p
    · rw [(hinc k hk).2] at p; cases p
    · rw [(hinc k hk).1] at p; cases p

/-- an excused prefix pair cannot occur at the head of two equal renderings -/
theorem excused_absurd (prev : Option WTok) (k1 k2 : WTok) (r1 : List WTok) (X1 R2 : List Chr)
    (hs : std = true) (he : excused t heads k1 k2 = true)
    (hp : (renderTok t k1).isPrefixOf (renderTok t k2) = true)
    (a1 : Adm toks (k1 :: r1)) (f1 : Fol std prev (k1 :: r1)) (x1 : Tail heads X1)
    (h : renderTok t k1 ++ (render t r1 ++ X1) = renderTok t k2 ++ R2) : False := by
  subst hs
  rw [List.isPrefixOf_iff_prefix] at hp
  obtain ⟨rem, hrem⟩ := hp
  simp only [excused, Bool.and_eq_true] at he
  obtain ⟨hatom, he⟩ := he
  rw [← hrem, List.drop_left] at he
  cases rem with
  | nil => simp at he
  | cons c rem' =>
    simp only [Bool.and_eq_true, Bool.not_eq_true', bne_iff_ne, ne_eq, List.all_eq_true] at he
    obtain ⟨⟨⟨⟨hdig, hso⟩, hws⟩, hpc⟩, hhe⟩ := he
    rw [← hrem, List.append_assoc] at h
    have h' := List.append_cancel_left h
    obtain ⟨i, rfl⟩ : ∃ i, k1 = .atom i := by
      cases k1 <;> simp [WTok.isAtom] at hatom
      exact ⟨_, rfl⟩
    cases r1 with
    | nil =>
      simp only [render, List.flatMap_nil, List.nil_append] at h'
      rcases x1 with rfl | ⟨mk, hmk, Y, rfl⟩
      · simp at h'
      · have hk := hd.hds mk hmk
        simp only [headOK, Bool.and_eq_true] at hk
        obtain ⟨⟨⟨h1, _⟩, _⟩, _⟩ := hk
        cases mk with
        | nil => simp at h1
        | cons c' mk' =>
          simp only [List.cons_append, List.cons.injEq] at h'
          have := hhe _ hmk
          simp [h'.1] at this
    | cons k r1' =>
      have hok := f1.1
      simp only [okStep, List.head?_cons, atomNextOK, Bool.or_eq_true, beq_iff_eq, reduceCtorEq, false_or] at hok
      rw [render_cons', List.append_assoc] at h'
      have hk := a1.2.1
      rcases hok with (hok | hok) | hok
      · obtain ⟨n, rfl⟩ : ∃ n, k = .sub n := by
          cases k <;> simp [WTok.isSub] at hok
          exact ⟨_, rfl⟩
        obtain ⟨c0, tl, e, hc0⟩ := sub_head (t := t) n
        rw [e] at h'
        simp only [List.cons_append, List.cons.injEq] at h'
        rcases hc0 with hc0 | ⟨_, hc0⟩
        · rw [h'.1] at hc0; exact hso hc0
        · rw [h'.1, hdig] at hc0; cases hc0
      · subst hok
        rcases hk with ⟨n, e, _⟩ | hk
        · cases e
        · obtain ⟨c0, tl, e, _⟩ := hd.head _ hk
          rw [e] at h'
          simp only [List.cons_append, List.cons.injEq] at h'
          apply hws
          have : t.ws = c0 :: tl := e
          rw [this, h'.1]; rfl
      · subst hok
        rcases hk with ⟨n, e, _⟩ | hk
        · cases e
        · obtain ⟨c0, tl, e, _⟩ := hd.head _ hk
          rw [e] at h'
          simp only [List.cons_append, List.cons.injEq] at h'
          apply hpc
          rw [e, h'.1]; rfl

/-- one decoding step -/
theorem step (p1 p2 : Option WTok) (t1 t2 : WTok) (r1 r2 : List WTok) (X1 X2 : List Chr)
    (a1 : Adm toks (t1 :: r1)) (a2 : Adm toks (t2 :: r2))
    (f1 : Fol std p1 (t1 :: r1)) (f2 : Fol std p2 (t2 :: r2)) (x1 : Tail heads X1) (x2 : Tail heads X2)
    (h : render t (t1 :: r1) ++ X1 = render t (t2 :: r2) ++ X2) :
    t1 = t2 ∧ render t r1 ++ X1 = render t r2 ++ X2 := by
  rw [render_cons', render_cons', List.append_assoc, List.append_assoc] at h
  have k1 := a1.1
  have ar1 := a1.2
  have k2 := a2.1
  have ar2 := a2.2
  rcases k1 with ⟨n1, rfl, hn1, ns1⟩ | k1 <;> rcases k2 with ⟨n2, rfl, hn2, ns2⟩ | k2
  · -- subscript / subscript
    have f1 := render_head_nonDigit hd r1 X1 ar1 ns1 x1
    have f2 := render_head_nonDigit hd r2 X2 ar2 ns2 x2
    simp only [renderTok, List.append_assoc] at h
    have h' := List.append_cancel_left h
    have key : ∀ R : List Chr, HeadNonDigit R → HeadNonDigit (t.subClose ++ R) := by
      intro R hR
      rcases hd.sub with ⟨_, sc⟩ | ⟨⟨c, tl, e, hc⟩, _⟩
      · rw [sc]; exact hR
      · rw [e]; intro c' hc'; simp at hc'; rw [← hc']; exact hc
    obtain ⟨e1, e2⟩ := digits_inj _ _ _ _ (decDigits_lt n1) (decDigits_lt n2) (key _ f1) (key _ f2) h'
    exact ⟨by rw [decDigits_inj e1], List.append_cancel_left e2⟩
  · exact (symsub hd t2 n1 _ _ k2 h.symm).elim
  · exact (symsub hd t1 n2 _ _ k1 h).elim
  · rcases append_prefix_cases h with p | p
    · rcases hd.code t1 k1 t2 k2 p with e | ⟨hs, he⟩
      · subst e
        exact ⟨rfl, List.append_cancel_left h⟩
      · exact (excused_absurd hd p1 t1 t2 r1 X1 _ hs he p a1 f1 x1 h).elim
    · rcases hd.code t2 k2 t1 k1 p with e | ⟨hs, he⟩
      · subst e
        exact ⟨rfl, List.append_cancel_left h⟩
      · exact (excused_absurd hd p2 t2 t1 r2 X2 _ hs he p a2 f2 x2 h.symm).elim

theorem renderTok_ne_nil (k : WTok) (r : List WTok) (a : Adm toks (k :: r)) : renderTok t k ≠ [] := by
  rcases a.1 with ⟨n, rfl, _, _⟩ | hk
  · exact sub_ne_nil n
  · obtain ⟨c, tl, e, _⟩ := hd.head k hk
    rw [e]; simp

/-- a mark tail is not the rendering of a further token -/
theorem tail_absurd (prev : Option WTok) (k : WTok) (r : List WTok) (X1 X2 : List Chr)
    (a : Adm toks (k :: r)) (f0 : Fol std prev []) (f : Fol std prev (k :: r)) (x1 : Tail heads X1)
    (h : X1 = render t (k :: r) ++ X2) : False := by
  rw [render_cons', List.append_assoc] at h
  rcases x1 with rfl | ⟨mk, hmk, Y, rfl⟩
  · have := renderTok_ne_nil hd k r a
    have h' := h.symm
    simp only [List.append_eq_nil_iff] at h'
    exact this h'.1
  · have hk := hd.hds mk hmk
    simp only [headOK, Bool.and_eq_true, List.all_eq_true, Bool.or_eq_true, beq_iff_eq, Bool.not_eq_true'] at hk
    obtain ⟨⟨⟨h1, h2⟩, h3⟩, h4⟩ := hk
    rcases a.1 with ⟨n, rfl, _, _⟩ | hkt
    · -- a subscript
      rcases h2 with h2 | h2
      · obtain ⟨c0, tl, e, hc0⟩ := sub_head (t := t) n
        rw [e] at h
        cases mk with
        | nil => simp at h1
        | cons c mk' =>
          simp only [List.cons_append, List.cons.injEq] at h
          rcases hc0 with hc0 | ⟨_, hc0⟩
          · rw [List.isEmpty_iff] at h2; simp [h2] at hc0
          · rw [← h.1] at hc0; simp [hc0] at h1
      · have hh : mk ++ Y = t.subOpen ++ ((decDigits n).map digitChr ++ t.subClose ++ (render t r ++ X2)) := by
          simpa [renderTok, List.append_assoc] using h
        exact incomp_absurd h2 hh
    · by_cases hw : k = .ws
      · subst hw
        cases std with
        | false => exact hd.wsfree rfl (by intro e; rw [e] at hmk; cases hmk) hkt
        | true =>
          have hp := f0 rfl
          have hok : (true == false || (optInF prev || optInF r.head?)) = true := f.1
          rw [hp] at hok
          cases r with
          | nil => simp [optInF] at hok
          | cons k' r' =>
            have hok' : k'.inF = true := by simpa [optInF] using hok
            have hk' : k' ∈ toks := by
              rcases a.2.1 with ⟨n, e, _⟩ | hk'
              · subst e; simp [WTok.inF] at hok'
              · exact hk'
            have := h4 k' hk'
            rw [hok'] at this
            simp only [Bool.true_eq_false, false_or] at this
            rw [render_cons', List.append_assoc, ← List.append_assoc] at h
            exact incomp_absurd this h
      · rcases h3 k hkt with e | e
        · exact hw e
        · exact incomp_absurd e h

/-- `render t` followed by mark tails is injective on admissible, follower-disciplined token streams -/
theorem render_inj_tail : ∀ (ts1 ts2 : List WTok) (prev : Option WTok) (X1 X2 : List Chr),
    Adm toks ts1 → Adm toks ts2 → Fol std prev ts1 → Fol std prev ts2 → Tail heads X1 → Tail heads X2 →
    render t ts1 ++ X1 = render t ts2 ++ X2 → ts1 = ts2 ∧ X1 = X2 := by
  intro ts1
  induction ts1 with
  | nil =>
    intro ts2 prev X1 X2 _ a2 f1 f2 x1 _ h
    cases ts2 with
    | nil => exact ⟨rfl, by simpa [render] using h⟩
    | cons k r => exact (tail_absurd hd prev k r X1 X2 a2 f1 f2 x1 (by simpa [render] using h)).elim
  | cons k1 r1 ih =>
    intro ts2 prev X1 X2 a1 a2 f1 f2 x1 x2 h
    cases ts2 with
    | nil => exact (tail_absurd hd prev k1 r1 X2 X1 a1 f2 f1 x2 (by simpa [render] using h.symm)).elim
    | cons k2 r2 =>
      obtain ⟨e, hr⟩ := step hd prev prev k1 k2 r1 r2 X1 X2 a1 a2 f1 f2 x1 x2 h
      subst e
      obtain ⟨e1, e2⟩ := ih r2 (some k1) X1 X2 a1.2 a2.2 f1.2 f2.2 x1 x2 hr
      exact ⟨by rw [e1], e2⟩

/-- `render t` is injective on admissible, follower-disciplined token streams -/
theorem render_inj (ts1 ts2 : List WTok) (a1 : Adm toks ts1) (a2 : Adm toks ts2)
    (f1 : Fol std none ts1) (f2 : Fol std none ts2) (h : render t ts1 = render t ts2) : ts1 = ts2 :=
  (render_inj_tail hd ts1 ts2 none [] [] a1 a2 f1 f2 (Or.inl rfl) (Or.inl rfl) (by simpa using h)).1

end

/-- nothing is asked of a stream when `std = false` -/
theorem fol_false : ∀ (prev : Option WTok) (ts : List WTok), Fol false prev ts
  | _, [] => by intro h; cases h
  | _, k :: r => ⟨by simp [okStep], fol_false (some k) r⟩

/-! ### the writers' streams are admissible -/

/-- the tokens a stream may use -/
structure HasToks (toks : List WTok) (m : MaxIdx) (ex std : Bool) : Prop where
  op1 : ∀ o, WTok.op1 o ∈ toks
  op2 : ∀ o, WTok.op2 o ∈ toks
  quant : ∀ q, WTok.quant q ∈ toks
  identity : WTok.identity ∈ toks
  ws : std = true → WTok.ws ∈ toks
  atom : ∀ i, i ≤ m.atom → WTok.atom i ∈ toks
  var : ∀ i, i ≤ m.var → WTok.var i ∈ toks
  const : ∀ i, i ≤ m.const → WTok.const i ∈ toks
  pred : ∀ i, i ≤ m.pred → WTok.pred i ∈ toks
  existence : ex = true → WTok.existence ∈ toks
  parenOpen : std = true → WTok.parenOpen ∈ toks
  parenClose : std = true → WTok.parenClose ∈ toks
  negIdentity : std = true → WTok.negIdentity ∈ toks

theorem hasToks_symToks (t : StringTable) (m : MaxIdx) (ex : Bool) :
    HasToks (symToks t m ex) m ex (t.parenOpen.isSome && t.parenClose.isSome && t.negIdentity.isSome) := by
  refine ⟨?_, ?_, ?_, ?_, ?_, ?_, ?_, ?_, ?_, ?_, ?_, ?_, ?_⟩
  · intro o; cases o <;> simp [symToks, Op1.all]
  · intro o; cases o <;> simp [symToks, Op2.all]
  · intro q; cases q <;> simp [symToks, Quant.all]
  · simp [symToks]
  · intro _; simp [symToks]
  · intro i hi; simp [symToks]; omega
  · intro i hi; simp [symToks]; omega
  · intro i hi; simp [symToks]; omega
  · intro i hi; simp [symToks]; omega
  · intro h; simp [symToks, h]
  · intro h; simp only [Bool.and_eq_true] at h; simp [symToks, h.1.1]
  · intro h; simp only [Bool.and_eq_true] at h; simp [symToks, h.1.2]
  · intro h; simp only [Bool.and_eq_true] at h; simp [symToks, h.2]

section
variable {toks : List WTok} {m : MaxIdx} {ex std : Bool} (ht : HasToks toks m ex std)

theorem adm_sym {k : WTok} {r : List WTok} (hk : k ∈ toks) (hr : Adm toks r) : Adm toks (k :: r) :=
  ⟨Or.inr hk, hr⟩

theorem adm_subToks (u : Nat) (r : List WTok) (hr : Adm toks r) (hn : NoSub r) : Adm toks (subToks u ++ r) := by
  unfold subToks
  split
  · exact hr
  · rename_i h; exact ⟨Or.inl ⟨u, rfl, h, hn⟩, hr⟩

include ht

theorem adm_paramToks (p : Param) (r : List WTok) (hp : paramIdxOK m p = true) (hr : Adm toks r) (hn : NoSub r) :
    Adm toks (paramToks p ++ r) := by
  cases p with
  | const i s => exact adm_sym (ht.const i (by simpa [paramIdxOK] using hp)) (adm_subToks s r hr hn)
  | var i s => exact adm_sym (ht.var i (by simpa [paramIdxOK] using hp)) (adm_subToks s r hr hn)

theorem adm_paramsToks (ps : List Param) (r : List WTok) (hp : ps.all (paramIdxOK m) = true) (hr : Adm toks r)
    (hn : NoSub r) : Adm toks (paramsToks ps ++ r) := by
  induction ps with
  | nil => simpa [paramsToks] using hr
  | cons p ps ih =>
    simp only [List.all_cons, Bool.and_eq_true] at hp
    rw [paramsToks_cons', List.append_assoc]
    exact adm_paramToks ht p _ hp.1 (ih hp.2) (noSub_params ps r hn)

theorem adm_predToks (p : Pred) (r : List WTok) (hp : predOK m p = true) (hex : ex = true ∨ p.index ≠ -2)
    (hr : Adm toks r) (hn : NoSub r) : Adm toks (predToks p ++ r) := by
  simp only [predOK, Bool.or_eq_true, beq_iff_eq, Bool.and_eq_true, decide_eq_true_eq] at hp
  rcases hp with (hp | hp) | hp
  · subst hp; exact adm_sym ht.identity hr
  · subst hp
    rcases hex with h | h
    · exact adm_sym (ht.existence h) hr
    · simp [Pred.existence] at h
  · have a : p.index ≠ -1 := by omega
    have b : p.index ≠ -2 := by omega
    simp only [predToks, a, b, if_false, List.cons_append]
    exact adm_sym (ht.pred _ (by omega)) (adm_subToks _ r hr hn)

/-- Polish streams of constructible sentences are admissible -/
theorem adm_polish (hex : ex = true) : ∀ (s : Sent) (r : List WTok), Constructible m s → Adm toks r → NoSub r →
    Adm toks (polishToks s ++ r) := by
  intro s
  induction s with
  | atom i u =>
    intro r c hr hn
    simp only [Constructible, arityOK, indexOK, decide_eq_true_eq, true_and] at c
    exact adm_sym (ht.atom i c) (adm_subToks u r hr hn)
  | pred p ps =>
    intro r c hr hn
    simp only [Constructible, arityOK, indexOK, Bool.and_eq_true] at c
    simp only [polishToks, List.append_assoc]
    exact adm_predToks ht p _ c.2.1 (Or.inl hex) (adm_paramsToks ht ps r c.2.2 hr hn) (noSub_params ps r hn)
  | quant q vi vs b ih =>
    intro r c hr hn
    simp only [Constructible, arityOK, indexOK, Bool.and_eq_true, decide_eq_true_eq] at c
    simp only [polishToks, List.cons_append, List.append_assoc]
    exact adm_sym (ht.quant q) (adm_sym (ht.var vi c.2.1)
      (adm_subToks vs _ (ih r ⟨c.1, c.2.2⟩ hr hn) (tstops_polish b r).noSub))
  | op1 o a ih =>
    intro r c hr hn
    exact adm_sym (ht.op1 o) (ih r c hr hn)
  | op2 o a b iha ihb =>
    intro r c hr hn
    simp only [Constructible, arityOK, indexOK, Bool.and_eq_true] at c
    simp only [polishToks, List.cons_append, List.append_assoc]
    exact adm_sym (ht.op2 o) (iha _ ⟨c.1.1, c.2.1⟩ (ihb r ⟨c.1.2, c.2.2⟩ hr hn) (tstops_polish b r).noSub)

end

/-- no Existence predication -/
def noExistence : Sent → Bool
  | .atom _ _ => true
  | .pred p _ => p.index != -2
  | .quant _ _ _ b => noExistence b
  | .op1 _ a => noExistence a
  | .op2 _ a b => noExistence a && noExistence b

theorem noSub_ws (r : List WTok) : NoSub (.ws :: r) := (tstops_ws r).noSub

/-- inner standard streams of constructible sentences are admissible (Existence needs `ex`) -/
theorem adm_std {toks : List WTok} {m : MaxIdx} {ex : Bool} (ht : HasToks toks m ex true) (o : StdOpts) :
    ∀ (n : Nat) (s : Sent) (r : List WTok), s.size ≤ n → Constructible m s → (ex = true ∨ noExistence s = true) →
    Adm toks r → NoSub r → Adm toks (stdToksIn o s ++ r) := by
  intro n
  induction n with
  | zero => intro s _ hs; have := s.size_pos; omega
  | succ n ih =>
    intro s r hsz c hex hr hn
    obtain ⟨k, f⟩ := form o s
    generalize stdToksIn o s = T at f
    have hex' : ∀ p ps, s = .pred p ps → ex = true ∨ p.index ≠ -2 := by
      intro p ps e; subst e
      rcases hex with h | h
      · exact Or.inl h
      · exact Or.inr (by simpa [noExistence] using h)
    cases f with
    | atom i u =>
      simp only [Constructible, arityOK, indexOK, decide_eq_true_eq, true_and] at c
      exact adm_sym (ht.atom i c) (adm_subToks u r hr hn)
    | pfx p ps =>
      simp only [Constructible, arityOK, indexOK, Bool.and_eq_true] at c
      simp only [List.append_assoc]
      exact adm_predToks ht p _ c.2.1 (hex' p ps rfl) (adm_paramsToks ht ps r c.2.2 hr hn) (noSub_params ps r hn)
    | infixId p a ps hid =>
      simp only [Constructible, arityOK, indexOK, Bool.and_eq_true, List.all_cons] at c
      simp only [List.append_assoc, List.cons_append]
      exact adm_paramToks ht a _ c.2.2.1
        (adm_sym (ht.ws rfl) (adm_sym ht.identity (adm_sym (ht.ws rfl) (adm_paramsToks ht ps r c.2.2.2 hr hn)))) (noSub_ws _)
    | infixUser p a ps hid =>
      simp only [Constructible, arityOK, indexOK, Bool.and_eq_true, List.all_cons] at c
      simp only [List.append_assoc]
      exact adm_paramToks ht a _ c.2.2.1
        (adm_predToks ht p _ c.2.1 (hex' p _ rfl) (adm_paramsToks ht ps r c.2.2.2 hr hn) (noSub_params ps r hn))
        (noSub_of_hdK (by rw [hdK_predToks]; simp))
    | negId p x y hid =>
      simp only [Constructible, arityOK, indexOK, Bool.and_eq_true, List.all_cons] at c
      simp only [List.append_assoc, List.cons_append]
      exact adm_paramToks ht x _ c.2.2.1
        (adm_sym (ht.ws rfl) (adm_sym (ht.negIdentity rfl) (adm_sym (ht.ws rfl) (adm_paramToks ht y r c.2.2.2.1 hr hn))))
        (noSub_ws _)
    | op1 op a =>
      simp only [Constructible, arityOK, indexOK] at c
      exact adm_sym (ht.op1 op) (ih a r (by simp [Sent.size] at hsz; omega) c
        (by simpa [noExistence] using hex) hr hn)
    | quant q vi vs b =>
      simp only [Constructible, arityOK, indexOK, Bool.and_eq_true, decide_eq_true_eq] at c
      simp only [List.cons_append, List.append_assoc]
      exact adm_sym (ht.quant q) (adm_sym (ht.var vi c.2.1)
        (adm_subToks vs _ (ih b r (by simp [Sent.size] at hsz; omega) ⟨c.1, c.2.2⟩
          (by simpa [noExistence] using hex) hr hn) (noSub_std o b r)))
    | op2 op a b =>
      simp only [Constructible, arityOK, indexOK, Bool.and_eq_true] at c
      simp only [List.cons_append, List.append_assoc]
      have hexa : ex = true ∨ noExistence a = true := by
        rcases hex with h | h
        · exact Or.inl h
        · simp only [noExistence, Bool.and_eq_true] at h; exact Or.inr h.1
      have hexb : ex = true ∨ noExistence b = true := by
        rcases hex with h | h
        · exact Or.inl h
        · simp only [noExistence, Bool.and_eq_true] at h; exact Or.inr h.2
      have hpc : Adm toks (WTok.parenClose :: r) := adm_sym (ht.parenClose rfl) hr
      have hpcn : NoSub (WTok.parenClose :: r) := (tstops_parenClose r).noSub
      exact adm_sym (ht.parenOpen rfl)
        (ih a _ (by simp [Sent.size] at hsz; omega) ⟨c.1.1, c.2.1⟩ hexa
          (adm_sym (ht.ws rfl) (adm_sym (ht.op2 op) (adm_sym (ht.ws rfl)
            (ih b _ (by simp [Sent.size] at hsz; omega) ⟨c.1.2, c.2.2⟩ hexb hpc hpcn))))
          (noSub_ws _))

/-- … and so are the `__call__`-level streams -/
theorem adm_standard {toks : List WTok} {m : MaxIdx} {ex : Bool} (ht : HasToks toks m ex true) (o : StdOpts)
    (s : Sent) (c : Constructible m s) (hex : ex = true ∨ noExistence s = true) : Adm toks (standardToks o s) := by
  have nn : NoSub ([] : List WTok) := tstops_nil.noSub
  rcases standardToks_form o s with ⟨op, a, b, rfl, e⟩ | e <;> rw [e]
  · simp only [Constructible, arityOK, indexOK, Bool.and_eq_true] at c
    have hexa : ex = true ∨ noExistence a = true := by
      rcases hex with h | h
      · exact Or.inl h
      · simp only [noExistence, Bool.and_eq_true] at h; exact Or.inr h.1
    have hexb : ex = true ∨ noExistence b = true := by
      rcases hex with h | h
      · exact Or.inl h
      · simp only [noExistence, Bool.and_eq_true] at h; exact Or.inr h.2
    have hb := adm_std ht o b.size b [] (Nat.le_refl _) ⟨c.1.2, c.2.2⟩ hexb trivial nn
    simp only [List.append_nil] at hb
    exact adm_std ht o a.size a _ (Nat.le_refl _) ⟨c.1.1, c.2.1⟩ hexa
      (adm_sym (ht.ws rfl) (adm_sym (ht.op2 op) (adm_sym (ht.ws rfl) hb))) (noSub_ws _)
  · have := adm_std ht o s.size s [] (Nat.le_refl _) c hex trivial nn
    simpa using this

end Ptx.Write
