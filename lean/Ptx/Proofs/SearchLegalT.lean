/-
  Ptx.Proofs.SearchLegalT — progress for table-rule targets: under a decidable totality condition on the regenerated
  templates, a `Step.rule` target of a plain / new-world / each-world rule (non-quantifier shape) is a legal step.
-/
import Ptx.Proofs.SearchLegal
import Ptx.Proofs.SearchFresh
namespace Ptx.Search
open Ptx

/-- does a template instantiate (`Tm.inst`) when `lhs` / `whole` are available and `rhs` iff `hasRhs` -/
def tmOK (hasRhs : Bool) : Tm → Bool
  | .lhs => true
  | .rhs => hasRhs
  | .whole => true
  | .raw => false
  | .bind _ _ => false
  | .op1 _ t => tmOK hasRhs t
  | .op2 _ t u => tmOK hasRhs t && tmOK hasRhs u

def isWorldWitness : Witness → Bool
  | .newWorld => true
  | .eachWorld => true
  | _ => false

/-- one row: non-quantifier shape, witness none / new world / each world -/
def rowOKB (L : LogicData) (k : RuleKey) (r : Rule) : Bool :=
  (match k.shape with | .quant _ => false | _ => true) &&
  (r.witness == .none || isWorldWitness r.witness) &&
  (!(k.shape.isModalShape || isWorldWitness r.witness) || L.modal) &&
  !r.branches.isEmpty &&
  r.branches.all fun br => br.all fun
    | .node n => tmOK (k.shape.isOp2 && r.witness == .none) n.tm && (!n.other || isWorldWitness r.witness)
    | .access => isWorldWitness r.witness

/-- totality of the regenerated templates: every row that is not a quantifier / constant-witness row instantiates -/
def templatesOKB (L : LogicData) : Bool :=
  L.rules.all fun kr =>
    (match kr.1.shape with | .quant _ => true | _ => false) || kr.2.witness == .newConst || kr.2.witness == .eachConst ||
      rowOKB L kr.1 kr.2

theorem tmOK_inst {hasRhs : Bool} {whole l : Sent} {r raw : Option Sent} {var : Nat × Nat} (hr : hasRhs = true → r.isSome = true) :
    ∀ tm : Tm, tmOK hasRhs tm = true → (tm.inst whole l r raw var).isSome = true := by
  intro tm
  induction tm with
  | lhs => intro _; rfl
  | rhs => intro h; exact hr h
  | whole => intro _; rfl
  | raw => intro h; cases h
  | bind q t _ => intro h; cases h
  | op1 o t ih =>
    intro h
    have := ih h
    simp only [Tm.inst, Option.isSome_map]
    exact this
  | op2 o t u iht ihu =>
    intro h
    simp only [tmOK, Bool.and_eq_true] at h
    obtain ⟨a, ha⟩ := Option.isSome_iff_exists.1 (iht h.1)
    obtain ⟨c, hc⟩ := Option.isSome_iff_exists.1 (ihu h.2)
    simp [Tm.inst, ha, hc]

theorem mapOpt_isSome_of_all {α β} {f : α → Option β} : ∀ {xs : List α}, (∀ a ∈ xs, (f a).isSome = true) →
    (mapOpt f xs).isSome = true
  | [], _ => rfl
  | x :: xs, h => by
      obtain ⟨y, hy⟩ := Option.isSome_iff_exists.1 (h x (by simp))
      obtain ⟨ys, hys⟩ := Option.isSome_iff_exists.1 (mapOpt_isSome_of_all (xs := xs) (fun a ha => h a (List.mem_cons_of_mem _ ha)))
      simp [mapOpt, hy, hys]

theorem mapOpt_cons_of_ne {α β} {f : α → Option β} {xs : List α} {ys : List β} (h : mapOpt f xs = some ys) (hne : xs ≠ []) :
    ∃ y rest, ys = y :: rest := by
  cases xs with
  | nil => exact absurd rfl hne
  | cons x xs =>
    simp only [mapOpt] at h
    split at h
    · next y ys' _ _ => cases h; exact ⟨y, ys', rfl⟩
    · cases h

/-- a row satisfying `rowOKB` instantiates to a non-empty group list on any node of its key (world witness given where needed) -/
theorem row_groups {L : LogicData} {k : RuleKey} {r : Rule} (hrow : rowOKB L k r = true) {whole l0 : Sent}
    (hsh : Shape.of whole = some k.shape) (w wo : Option Nat)
    (hw : (k.shape.isModalShape || isWorldWitness r.witness) = true → w.isSome = true)
    (hwo : isWorldWitness r.witness = true → wo.isSome = true) :
    ∃ g0 rest, mapOpt (instAdds whole l0 (if r.witness = .none then whole.rhs? else none) (if r.witness = .none then whole.qraw else none)
      whole.qvar w wo) r.branches = some (g0 :: rest) := by
  simp only [rowOKB, Bool.and_eq_true, List.all_eq_true] at hrow
  obtain ⟨⟨⟨⟨_, hwit⟩, _⟩, hne⟩, hitems⟩ := hrow
  have hsome : (mapOpt (instAdds whole l0 (if r.witness = .none then whole.rhs? else none)
      (if r.witness = .none then whole.qraw else none) whole.qvar w wo) r.branches).isSome = true := by
    apply mapOpt_isSome_of_all
    intro br hbr
    rw [instAdds_eq]
    apply mapOpt_isSome_of_all
    intro a ha
    have hit := hitems br hbr a ha
    cases a with
    | access =>
      simp only at hit
      obtain ⟨w0, hw0⟩ := Option.isSome_iff_exists.1 (hw (by simp [hit]))
      obtain ⟨w', hw'⟩ := Option.isSome_iff_exists.1 (hwo hit)
      simp [instAdd1, hw0, hw']
    | node n =>
      simp only [Bool.and_eq_true, Bool.or_eq_true, Bool.not_eq_eq_eq_not, Bool.not_true] at hit
      have hinst := tmOK_inst (whole := whole) (l := l0) (r := if r.witness = .none then whole.rhs? else none)
        (raw := if r.witness = .none then whole.qraw else none) (var := whole.qvar) (hasRhs := k.shape.isOp2 && r.witness == .none)
        (by
          intro h
          simp only [Bool.and_eq_true, beq_iff_eq] at h
          simp only [h.2, ↓reduceIte]
          have h1 := h.1
          cases whole with
          | op2 o a c => simp [Sent.rhs?]
          | op1 o a => simp only [Shape.of, Option.some.injEq] at hsh; rw [← hsh] at h1; simp [Shape.isOp2] at h1
          | quant q vi vs body => simp only [Shape.of, Option.some.injEq] at hsh; rw [← hsh] at h1; simp [Shape.isOp2] at h1
          | atom _ _ => simp [Shape.of] at hsh
          | pred _ _ => simp [Shape.of] at hsh) n.tm hit.1
      obtain ⟨s0, hs0⟩ := Option.isSome_iff_exists.1 hinst
      simp only [instAdd1, hs0]
      rcases hit.2 with ho | ho
      · simp [ho]
      · cases hno : n.other
        · simp
        · obtain ⟨w', hw'⟩ := Option.isSome_iff_exists.1 (hwo ho)
          simp [hw']
  obtain ⟨gs, hgs⟩ := Option.isSome_iff_exists.1 hsome
  obtain ⟨g0, rest, rfl⟩ := mapOpt_cons_of_ne hgs (by
    intro he; rw [he] at hne; simp at hne)
  exact ⟨g0, rest, hgs⟩


/-- the calculus accepts a `Step.rule` on node i of an open branch once the row's groups exist -/
theorem rule_step_legal {L : LogicData} {t : Tableau} {bi i : Nat} {b : Branch} {sn : Sent} {d : Option Bool} {w : Option Nat}
    {wo : Option Nat} {k : RuleKey} {rl : Rule} (hb : t[bi]? = some b) (ho : b.closed = false)
    (hn : b.nodes[i]? = some (.sent sn d w)) (hk : nodeKey (.sent sn d w) = some k) (hrl : L.rule? k = some rl)
    (hrow : rowOKB L k rl = true) (hwld : L.modal = true → w.isSome = true)
    (hwit : (rl.witness = .none ∧ wo = none) ∨
      (rl.witness = .newWorld ∧ ∃ w', wo = some w' ∧ b.worlds.contains w' = false) ∨
      (rl.witness = .eachWorld ∧ ∃ w0 w', w = some w0 ∧ wo = some w' ∧ b.hasAccess w0 w' = true)) :
    ∃ t', applyStep L t (.rule bi i none wo) = some t' := by
  simp only [nodeKey] at hk
  split at hk
  rotate_left
  · cases hk
  next sh ng whole hdec =>
  simp only [Option.some.injEq] at hk
  subst hk
  obtain ⟨_, hsh⟩ := Sent.decomp_spec hdec
  have hrow' := hrow
  simp only [rowOKB, Bool.and_eq_true] at hrow'
  obtain ⟨⟨⟨⟨hnq, _⟩, hmod⟩, _⟩, _⟩ := hrow'
  have hl0 : ∃ l0, whole.lhs? = some l0 := by
    cases whole <;> simp [Shape.of] at hsh <;> exact ⟨_, rfl⟩
  obtain ⟨l0, hl0⟩ := hl0
  have hqok : whole.quantOK L = true := by
    cases whole with
    | quant q vi vs body => simp only [Shape.of, Option.some.injEq] at hsh; rw [← hsh] at hnq; simp at hnq
    | _ => rfl
  have hws : (sh.isModalShape || isWorldWitness rl.witness) = true → w.isSome = true := by
    intro h
    apply hwld
    simp only [Bool.or_eq_true, Bool.not_eq_eq_eq_not, Bool.not_true] at hmod
    rcases hmod with h1 | h1
    · simp only [Bool.or_eq_false_iff] at h1
      simp only [Bool.or_eq_true] at h
      rcases h with h | h
      · rw [h1.1] at h; cases h
      · rw [h1.2] at h; cases h
    · exact h1
  have hwos : isWorldWitness rl.witness = true → wo.isSome = true := by
    intro h
    rcases hwit with ⟨h1, _⟩ | ⟨_, w', h2, _⟩ | ⟨_, w0, w', _, h2, _⟩
    · rw [h1] at h; cases h
    · rw [h2]; rfl
    · rw [h2]; rfl
  obtain ⟨g0, rest, hgs⟩ := row_groups hrow hsh w wo hws hwos
  have hwg : witnessGroups b whole l0 w none wo rl = some (g0 :: rest) := by
    unfold witnessGroups
    rcases hwit with ⟨h1, rfl⟩ | ⟨h1, w', rfl, hfresh⟩ | ⟨h1, w0, w', rfl, rfl, hacc⟩
    · simp only [h1, ↓reduceIte] at hgs ⊢
      simpa using hgs
    · obtain ⟨w0, rfl⟩ := Option.isSome_iff_exists.1 (hws (by simp [h1, isWorldWitness]))
      simp only [h1, reduceCtorEq, ↓reduceIte] at hgs ⊢
      have hf' : w' ∉ b.worlds := by simpa using hfresh
      simpa [hf'] using hgs
    · simp only [h1, reduceCtorEq, ↓reduceIte] at hgs ⊢
      simpa [hacc] using hgs
  have hmodal : (sh.isModalShape && w.isNone) = false := by
    rcases Bool.eq_false_or_eq_true (sh.isModalShape && w.isNone) with h | h
    · exfalso
      simp only [Bool.and_eq_true] at h
      have := hws (by simp [h.1])
      cases w <;> simp_all
    · exact h
  have hrg : L.ruleGroups b sn d w none wo = some (rl, g0 :: rest) := by
    simp [LogicData.ruleGroups, hdec, hrl, hl0, hmodal, hqok, hwg]
  have ha : applyAt L t bi b (.rule bi i none wo) =
      some (t.fork bi (b.extend g0 (if rl.ticks then some i else none))
        (rest.map fun g => { (b.extend g (if rl.ticks then some i else none)) with parent := some bi })) := by
    simp [applyAt, hn, hrg]
  exact ⟨_, applyStep_of_applyAt (st := .rule bi i none wo) hb ho ha⟩

/-- (3c–f) `Step.rule` / quit targets of a table rule whose row passes the totality condition are legal -/
theorem target_legal_table {L : LogicData} {s : SState} {bi : Nat} (hinv : Inv L s) {k : RuleKey}
    (hrow : ∀ rl, L.rule? k = some rl → rowOKB L k rl = true) {st : Step} (hm : st ∈ targets L s (.table k) bi) :
    st.branch = bi ∧ ∃ t', applyStep L s.tab st = some t' := by
  obtain ⟨b, h, hb, hh, ho, hmem⟩ := mem_targets hm
  have I := hinv.branch bi b h hb hh ho
  simp only [tableTargets] at hmem
  split at hmem
  · cases hmem
  next rl hrl =>
  have hrowk := hrow rl hrl
  -- the node behind a live index
  have node_of : ∀ i, i ∈ s.live (.table k) bi → ∃ sn d w, b.nodes[i]? = some (.sent sn d w) ∧
      nodeKey (.sent sn d w) = some k ∧ (L.modal = true → w.isSome = true) := by
    intro i hi
    have hc : i ∈ h.cache (.table k) := ((mem_live hh).1 hi).1
    obtain ⟨nd, hnd, hmatch, _⟩ := I.cacheSound (.table k) i hc
    have hkk : nodeKey nd = some k := by simpa [matchesRule] using hmatch
    cases nd with
    | sent sn d w => exact ⟨sn, d, w, hnd, hkk, fun hm' => I.worlded hm' sn d w (List.mem_of_getElem? hnd)⟩
    | access _ _ => simp [nodeKey] at hkk
    | flag _ => simp [nodeKey] at hkk
    | ellipsis => simp [nodeKey] at hkk
  have flag_ok : ∀ l, st ∈ flagTargets bi rl (h.quit k) l → st.branch = bi ∧ ∃ t', applyStep L s.tab st = some t' := by
    intro l hf
    unfold flagTargets at hf
    split at hf
    · cases hf
    · obtain ⟨i, _, he⟩ := List.mem_map.1 hf
      subst he
      exact ⟨rfl, target_legal_quit hm rfl rfl⟩
  have hw3 : rl.witness = .none ∨ isWorldWitness rl.witness = true := by
    simp only [rowOKB, Bool.and_eq_true, Bool.or_eq_true, beq_iff_eq] at hrowk
    exact hrowk.1.1.1.2
  split at hmem
  · next hw =>
    obtain ⟨i, hi, he⟩ := List.mem_map.1 hmem
    subst he
    obtain ⟨sn, d, w, hn, hk, hwld⟩ := node_of i hi
    exact ⟨rfl, rule_step_legal hb ho hn hk hrl hrowk hwld (Or.inl ⟨hw, rfl⟩)⟩
  · next hw =>
    split at hmem
    · exact flag_ok _ hmem
    · obtain ⟨i, hi, he⟩ := List.mem_map.1 hmem
      subst he
      obtain ⟨sn, d, w, hn, hk, hwld⟩ := node_of i hi
      exact ⟨rfl, rule_step_legal hb ho hn hk hrl hrowk hwld (Or.inr (Or.inl ⟨hw, _, rfl, nextWorld_fresh b⟩))⟩
  · next hw =>
    split at hmem
    · exact flag_ok _ hmem
    · obtain ⟨i, hi, hx⟩ := List.mem_flatMap.1 hmem
      obtain ⟨sn, d, w, hn, hk, hwld⟩ := node_of i hi
      rw [hn] at hx
      cases w with
      | none => simp at hx
      | some w1 =>
        simp only at hx
        split at hx
        · obtain ⟨w2, hw2, he⟩ := List.mem_map.1 hx
          subst he
          have hacc : b.hasAccess w1 w2 = true :=
            hasAccess_iff.2 ((I.windex w1 w2).1 (mem_succs.1 (List.mem_filter.1 hw2).1))
          exact ⟨rfl, rule_step_legal hb ho hn hk hrl hrowk hwld (Or.inr (Or.inr ⟨hw, w1, w2, rfl, rfl, hacc⟩))⟩
        · cases hx
  · next hw => rcases hw3 with h1 | h1 <;> simp [hw, isWorldWitness] at h1
  · next hw => rcases hw3 with h1 | h1 <;> simp [hw, isWorldWitness] at h1


/-! ### quantifier rows -/

def tmRawOK : Tm → Bool
  | .raw => true
  | .op1 _ t => tmRawOK t
  | .op2 _ t u => tmRawOK t && tmRawOK u
  | _ => false

def tmQOK : Tm → Bool
  | .lhs => true
  | .whole => true
  | .bind _ t => tmRawOK t
  | .op1 _ t => tmQOK t
  | .op2 _ t u => tmQOK t && tmQOK u
  | _ => false

/-- a new-constant / each-constant row: quantifier shape, non-empty, every template instantiates, nothing at another world -/
def rowQOKB (k : RuleKey) (r : Rule) : Bool :=
  (match k.shape with | .quant _ => true | _ => false) &&
  (r.witness == .newConst || r.witness == .eachConst) &&
  !r.branches.isEmpty &&
  r.branches.all fun br => br.all fun
    | .node n => tmQOK n.tm && !n.other
    | .access => false

/-- totality of the regenerated quantifier rows -/
def templatesQOKB (L : LogicData) : Bool :=
  L.rules.all fun kr => !(kr.2.witness == .newConst || kr.2.witness == .eachConst) || rowQOKB kr.1 kr.2

theorem tmRawOK_inst {raw : Sent} : ∀ tm : Tm, tmRawOK tm = true → (tm.instRaw raw).isSome = true := by
  intro tm
  induction tm with
  | raw => intro _; rfl
  | op1 o t ih => intro h; simp only [Tm.instRaw, Option.isSome_map]; exact ih h
  | op2 o t u iht ihu =>
    intro h
    simp only [tmRawOK, Bool.and_eq_true] at h
    obtain ⟨a, ha⟩ := Option.isSome_iff_exists.1 (iht h.1)
    obtain ⟨c, hc⟩ := Option.isSome_iff_exists.1 (ihu h.2)
    simp [Tm.instRaw, ha, hc]
  | lhs => intro h; cases h
  | rhs => intro h; cases h
  | whole => intro h; cases h
  | bind q t _ => intro h; cases h

theorem tmQOK_inst {whole l body : Sent} {var : Nat × Nat} :
    ∀ tm : Tm, tmQOK tm = true → (tm.inst whole l none (some body) var).isSome = true := by
  intro tm
  induction tm with
  | lhs => intro _; rfl
  | whole => intro _; rfl
  | bind q t _ =>
    intro h
    obtain ⟨a, ha⟩ := Option.isSome_iff_exists.1 (tmRawOK_inst (raw := body) t h)
    simp [Tm.inst, ha]
  | op1 o t ih => intro h; simp only [Tm.inst, Option.isSome_map]; exact ih h
  | op2 o t u iht ihu =>
    intro h
    simp only [tmQOK, Bool.and_eq_true] at h
    obtain ⟨a, ha⟩ := Option.isSome_iff_exists.1 (iht h.1)
    obtain ⟨c, hc⟩ := Option.isSome_iff_exists.1 (ihu h.2)
    simp [Tm.inst, ha, hc]
  | rhs => intro h; cases h
  | raw => intro h; cases h

theorem rowq_groups {k : RuleKey} {r : Rule} (hrow : rowQOKB k r = true) {whole l body : Sent} (hraw : whole.qraw = some body)
    (w : Option Nat) :
    ∃ g0 rest, mapOpt (instAdds whole l none whole.qraw whole.qvar w none) r.branches = some (g0 :: rest) := by
  simp only [rowQOKB, Bool.and_eq_true, List.all_eq_true] at hrow
  obtain ⟨⟨_, hne⟩, hitems⟩ := hrow
  have hsome : (mapOpt (instAdds whole l none whole.qraw whole.qvar w none) r.branches).isSome = true := by
    apply mapOpt_isSome_of_all
    intro br hbr
    rw [instAdds_eq]
    apply mapOpt_isSome_of_all
    intro a ha
    have hit := hitems br hbr a ha
    cases a with
    | access => cases hit
    | node n =>
      simp only [Bool.and_eq_true, Bool.not_eq_eq_eq_not, Bool.not_true] at hit
      obtain ⟨s0, hs0⟩ := Option.isSome_iff_exists.1 (tmQOK_inst (whole := whole) (l := l) (body := body) (var := whole.qvar) n.tm hit.1)
      simp [instAdd1, hraw, hs0, hit.2]
  obtain ⟨gs, hgs⟩ := Option.isSome_iff_exists.1 hsome
  obtain ⟨g0, rest, rfl⟩ := mapOpt_cons_of_ne hgs (by
    intro he; rw [he] at hne; simp at hne)
  exact ⟨g0, rest, hgs⟩

/-- the calculus accepts a constant-witness `Step.rule` on a quantifier node whose sentence is well formed (`quantOK`) -/
theorem rule_step_legal_q {L : LogicData} {t : Tableau} {bi i : Nat} {b : Branch} {sn : Sent} {d : Option Bool} {w : Option Nat}
    {c : Nat × Nat} {k : RuleKey} {rl : Rule} (hb : t[bi]? = some b) (ho : b.closed = false)
    (hn : b.nodes[i]? = some (.sent sn d w)) (hk : nodeKey (.sent sn d w) = some k) (hrl : L.rule? k = some rl)
    (hrow : rowQOKB k rl = true)
    (hqok : ∀ sh ng whole, sn.decomp = some (sh, ng, whole) → whole.quantOK L = true)
    (hfresh : rl.witness = .newConst → b.consts.contains c = false) :
    ∃ t', applyStep L t (.rule bi i (some c) none) = some t' := by
  simp only [nodeKey] at hk
  split at hk
  rotate_left
  · cases hk
  next sh ng whole hdec =>
  simp only [Option.some.injEq] at hk
  subst hk
  obtain ⟨_, hsh⟩ := Sent.decomp_spec hdec
  have hrow' := hrow
  simp only [rowQOKB, Bool.and_eq_true, Bool.or_eq_true, beq_iff_eq] at hrow'
  obtain ⟨⟨⟨hq, hwit⟩, _⟩, _⟩ := hrow'
  -- the compound is a quantified sentence
  obtain ⟨q, vi, vs, body, rfl⟩ : ∃ q vi vs body, whole = .quant q vi vs body := by
    cases whole with
    | quant q vi vs body => exact ⟨q, vi, vs, body, rfl⟩
    | op1 o a => simp only [Shape.of, Option.some.injEq] at hsh; rw [← hsh] at hq; simp at hq
    | op2 o a c' => simp only [Shape.of, Option.some.injEq] at hsh; rw [← hsh] at hq; simp at hq
    | atom _ _ => simp [Shape.of] at hsh
    | pred _ _ => simp [Shape.of] at hsh
  obtain ⟨g0, rest, hgs⟩ := rowq_groups hrow (whole := .quant q vi vs body) (l := (Sent.quant q vi vs body).instC c.1 c.2)
    (body := body) rfl w
  have hwg : witnessGroups b (.quant q vi vs body) body w (some c) none rl = some (g0 :: rest) := by
    unfold witnessGroups
    rcases hwit with h1 | h1
    · simp only [h1]
      have := hfresh h1
      obtain ⟨c1, c2⟩ := c
      have hf' : (c1, c2) ∉ b.consts := by simpa using this
      simpa [hf'] using hgs
    · simp only [h1]
      obtain ⟨c1, c2⟩ := c
      simpa using hgs
  have hmodal : ((Shape.quant q).isModalShape && w.isNone) = false := by simp [Shape.isModalShape]
  have hsh' : sh = .quant q := by simpa [Shape.of] using hsh.symm
  subst hsh'
  have hrg : L.ruleGroups b sn d w (some c) none = some (rl, g0 :: rest) := by
    simp [LogicData.ruleGroups, hdec, hrl, Sent.lhs?, hmodal, hqok _ _ _ hdec, hwg]
  have ha : applyAt L t bi b (.rule bi i (some c) none) =
      some (t.fork bi (b.extend g0 (if rl.ticks then some i else none))
        (rest.map fun g => { (b.extend g (if rl.ticks then some i else none)) with parent := some bi })) := by
    simp [applyAt, hn, hrg]
  exact ⟨_, applyStep_of_applyAt (st := .rule bi i (some c) none) hb ho ha⟩

/-- targets of a new-constant / each-constant rule are legal when the row passes `rowQOKB` and the quantified sentences on the
    branch are well formed (`quantOK`: the body does not re-bind the variable, nothing opaque inside) -/
theorem target_legal_quant {L : LogicData} {s : SState} {bi : Nat} (hinv : Inv L s) {k : RuleKey}
    (hrow : ∀ rl, L.rule? k = some rl → rowQOKB k rl = true)
    (hqok : ∀ b, s.tab[bi]? = some b → ∀ sn d w, Node.sent sn d w ∈ b.nodes → ∀ sh ng whole,
      sn.decomp = some (sh, ng, whole) → whole.quantOK L = true)
    {st : Step} (hm : st ∈ targets L s (.table k) bi) :
    st.branch = bi ∧ ∃ t', applyStep L s.tab st = some t' := by
  obtain ⟨b, h, hb, hh, ho, hmem⟩ := mem_targets hm
  have I := hinv.branch bi b h hb hh ho
  simp only [tableTargets] at hmem
  split at hmem
  · cases hmem
  next rl hrl =>
  have hrowk := hrow rl hrl
  have hwit : rl.witness = .newConst ∨ rl.witness = .eachConst := by
    simp only [rowQOKB, Bool.and_eq_true, Bool.or_eq_true, beq_iff_eq] at hrowk
    exact hrowk.1.1.2
  have flag_ok : ∀ l, st ∈ flagTargets bi rl (h.quit k) l → st.branch = bi ∧ ∃ t', applyStep L s.tab st = some t' := by
    intro l hf
    unfold flagTargets at hf
    split at hf
    · cases hf
    · obtain ⟨i, _, he⟩ := List.mem_map.1 hf
      subst he
      exact ⟨rfl, target_legal_quit hm rfl rfl⟩
  have legal : ∀ i sn d w c, i ∈ s.live (.table k) bi → b.nodes[i]? = some (.sent sn d w) →
      (rl.witness = .newConst → b.consts.contains c = false) →
      ∃ t', applyStep L s.tab (.rule bi i (some c) none) = some t' := by
    intro i sn d w c hi hn hfr
    have hc : i ∈ h.cache (.table k) := ((mem_live hh).1 hi).1
    obtain ⟨nd, hnd, hmatch, _⟩ := I.cacheSound (.table k) i hc
    rw [hn] at hnd
    simp only [Option.some.injEq] at hnd
    subst hnd
    have hkk : nodeKey (.sent sn d w) = some k := by simpa [matchesRule] using hmatch
    exact rule_step_legal_q hb ho hn hkk hrl hrowk (hqok b hb sn d w (List.mem_of_getElem? hn)) hfr
  split at hmem
  · next hw => rcases hwit with h1 | h1 <;> simp [hw] at h1
  · next hw => rcases hwit with h1 | h1 <;> simp [hw] at h1
  · next hw => rcases hwit with h1 | h1 <;> simp [hw] at h1
  · next hw =>
    obtain ⟨i, hi, hx⟩ := List.mem_flatMap.1 hmem
    split at hx
    · next sn d w hn =>
      split at hx
      · exact flag_ok _ hx
      · simp only [List.mem_singleton] at hx
        subst hx
        exact ⟨rfl, legal i sn d w _ hi hn (fun _ => nextConst_fresh b)⟩
    · cases hx
  · next hw =>
    obtain ⟨i, hi, hx⟩ := List.mem_flatMap.1 hmem
    split at hx
    · next sn d w hn =>
      split at hx
      · exact flag_ok _ hx
      · split at hx
        · cases hx
        · split at hx
          · obtain ⟨c0, _, he⟩ := List.mem_map.1 hx
            subst he
            exact ⟨rfl, legal i sn d w c0 hi hn (fun h1 => by rw [hw] at h1; cases h1)⟩
          · split at hx
            · split at hx
              · cases hx
              · simp only [List.mem_singleton] at hx
                subst hx
                exact ⟨rfl, legal i sn d w (0, 0) hi hn (fun h1 => by rw [hw] at h1; cases h1)⟩
            · cases hx
    · cases hx

theorem rowOK_of_templates {L : LogicData} (hT : templatesOKB L = true) {k : RuleKey} {rl : Rule} (hrl : L.rule? k = some rl)
    (hsh : (match k.shape with | .quant _ => true | _ => false) = false)
    (hw : rl.witness ≠ .newConst ∧ rl.witness ≠ .eachConst) : rowOKB L k rl = true := by
  simp only [templatesOKB, List.all_eq_true] at hT
  have := hT _ (lookup_mem (l := L.rules) hrl)
  simp only [hsh, Bool.false_or, Bool.or_eq_true, beq_iff_eq] at this
  rcases this with (h1 | h1) | h1
  · exact absurd h1 hw.1
  · exact absurd h1 hw.2
  · exact h1

/-- targets of the identity rule are legal `.ident` steps of the calculus -/
theorem target_legal_ident {L : LogicData} {s : SState} {bi : Nat} {st : Step} (hm : st ∈ targets L s .ident bi) :
    ∃ t', applyStep L s.tab st = some t' := by
  obtain ⟨b, h, hb, hh, ho, hmem⟩ := mem_targets hm
  obtain ⟨hc, i, j, ni, np, nd, rfl, _, hji, hni, hnp, hnd, _, _⟩ := ident_targets_shape hmem
  have hij : (i == j) = false := by simpa using fun he : i = j => hji he.symm
  exact ⟨s.tab.set bi (b.extend [nd] none), applyStep_of_applyAt (st := .ident bi i j) hb ho
    (by simp [applyAt, hc, hij, hni, hnp, hnd, Step.branch])⟩

/-- PROGRESS: an enabled target (closure; access rules; table rules whose row passes `rowOKB`) can be applied -/
theorem progress_apply {L : LogicData} (hmono : closureMonoB L = true) {s : SState} (hinv : Inv L s) {r : RuleId} {st : Step}
    (hleg : st ∈ enabled L s r st.branch)
    (hrows : ∀ k, r = .table k → (∀ rl, L.rule? k = some rl → rowOKB L k rl = true) ∨
      ((∀ rl, L.rule? k = some rl → rowQOKB k rl = true) ∧
        ∀ b, s.tab[st.branch]? = some b → ∀ sn d w, Node.sent sn d w ∈ b.nodes → ∀ sh ng whole,
          sn.decomp = some (sh, ng, whole) → whole.quantOK L = true)) :
    ∃ s', stepEv L s (.apply r st) = some s' := by
  have hm := mem_enabled hleg
  have hstep : ∃ t', applyStep L s.tab st = some t' := by
    cases r with
    | closure => exact (target_legal_closure hmono hinv hm).2
    | frame fr => exact (target_legal_frame hinv hm).2
    | table k =>
      rcases hrows k rfl with h1 | ⟨h1, h2⟩
      · exact (target_legal_table hinv h1 hm).2
      · exact (target_legal_quant hinv h1 h2 hm).2
    | ident => exact target_legal_ident hm
  obtain ⟨t', ht'⟩ := hstep
  obtain ⟨b, h, hb, hh, _, _⟩ := mem_targets hm
  have hinv1 := inv_search hinv r st.branch
  have hb1 : (s.search L r st.branch).tab[st.branch]? = some b := by rw [search_tab]; exact hb
  have hbi : st.branch < (s.search L r st.branch).tab.length := by
    rcases Nat.lt_or_ge st.branch (s.search L r st.branch).tab.length with h1 | h1
    · exact h1
    · rw [List.getElem?_eq_none h1] at hb1; cases hb1
  obtain ⟨h1, hh1⟩ : ∃ h1, (s.search L r st.branch).hs[st.branch]? = some h1 :=
    ⟨(s.search L r st.branch).hs[st.branch]'(by rw [hinv1.len]; exact hbi), by simp [hinv1.len, hbi]⟩
  have ht1 : applyStep L (s.search L r st.branch).tab st = some t' := by rw [search_tab]; exact ht'
  simp only [stepEv]
  unfold applyTarget
  simp only [hb1, hh1, ht1]
  exact ⟨_, rfl⟩

end Ptx.Search
