/-
  Ptx.Proofs.TabTreeDistinct — the nodes of the structures of the tree, each with the position it has
  on the branches (`Tree.placed`), form a duplicate-free list with exactly the (position, identity)
  pairs that occur on the branches.  So `distinct_nodes` (= its length) is the number of distinct node
  objects on the branches.
-/
import Ptx.Proofs.TabTreeTotal
namespace Ptx
namespace TabTree

mutual
theorem placed_length : ∀ (off : Nat) (t : Tree), (t.placed off).length = t.nodeTotal
  | off, .mk i kids => by
    simp only [Tree.placed, Tree.nodeTotal, List.length_append, List.length_mapIdx, placedL_length _ kids]
theorem placedL_length : ∀ (off : Nat) (ts : List Tree), (Tree.placedL off ts).length = Tree.nodeTotalL ts
  | _, [] => rfl
  | off, c :: cs => by
    simp only [Tree.placedL, Tree.nodeTotalL, List.length_append, placed_length off c, placedL_length off cs]
end

/-- the (position, identity) pairs of a group of branches from position `off` on -/
def OnGroup (g : List TB) (off : Nat) (x : Nat × Nat) : Prop :=
  ∃ b ∈ g, ∃ o : NObj, off ≤ x.1 ∧ b.r.objs[x.1]? = some o ∧ o.orig = x.2

theorem mem_mapIdx_pos {nodes : List NObj} {off : Nat} {x : Nat × Nat} :
    x ∈ nodes.mapIdx (fun p o => (off + p, o.orig)) ↔ ∃ j o, nodes[j]? = some o ∧ x = (off + j, o.orig) := by
  rw [List.mem_mapIdx]
  constructor
  · rintro ⟨j, h, rfl⟩; exact ⟨j, _, List.getElem?_eq_getElem h, rfl⟩
  · rintro ⟨j, o, hj, rfl⟩
    obtain ⟨h, rfl⟩ := List.getElem?_eq_some_iff.1 hj
    exact ⟨j, h, rfl⟩

theorem nodup_mapIdx_pos (nodes : List NObj) (off : Nat) : (nodes.mapIdx (fun p o => (off + p, o.orig))).Nodup := by
  show List.Pairwise (· ≠ ·) _
  rw [List.pairwise_iff_getElem]
  intro i j hi hj hij
  rw [List.getElem_mapIdx, List.getElem_mapIdx]
  intro e
  have := congrArg Prod.fst e
  simp only at this
  omega

theorem kidsWith_placed {f : List TB → Nat → Nat → Except TreeErr (Tree × Nat × Nat)} {off : Nat} :
    ∀ (gs : List (List TB)) (pos dist : Nat) (cs : List Tree) (p2 d2 : Nat),
      (∀ g ∈ gs, ∀ p di c p1 d1, f g p di = .ok (c, p1, d1) →
          (∀ x, x ∈ c.placed off ↔ OnGroup g off x) ∧ (c.placed off).Nodup) →
      gs.Pairwise (fun g1 g2 => ∀ x, OnGroup g1 off x → OnGroup g2 off x → False) →
      kidsWith f gs pos dist = .ok (cs, p2, d2) →
      (∀ x, x ∈ Tree.placedL off cs ↔ ∃ g ∈ gs, OnGroup g off x) ∧ (Tree.placedL off cs).Nodup
  | [], pos, dist, cs, p2, d2, _, _, h => by
      simp only [kidsWith, Except.ok.injEq, Prod.mk.injEq] at h
      obtain ⟨rfl, _, _⟩ := h
      simp [Tree.placedL]
  | g :: gs, pos, dist, cs, p2, d2, hf, hpw, h => by
      simp only [kidsWith] at h
      split at h
      · cases h
      · next c p1 d1 hc =>
        split at h
        · cases h
        · next cs' p2' d2' hcs =>
          simp only [Except.ok.injEq, Prod.mk.injEq] at h
          obtain ⟨rfl, _, _⟩ := h
          obtain ⟨hm, hnd⟩ := hf g List.mem_cons_self _ _ _ _ _ hc
          obtain ⟨hpw1, hpw2⟩ := List.pairwise_cons.1 hpw
          obtain ⟨ihm, ihnd⟩ := kidsWith_placed gs p1 d1 cs' p2' d2'
            (fun g' hg' => hf g' (List.mem_cons_of_mem _ hg')) hpw2 hcs
          simp only [Tree.placedL]
          constructor
          · intro x
            rw [List.mem_append, hm x, ihm x]
            constructor
            · rintro (h | ⟨g', hg', h⟩)
              · exact ⟨g, List.mem_cons_self, h⟩
              · exact ⟨g', List.mem_cons_of_mem _ hg', h⟩
            · rintro ⟨g', hg', h⟩
              rcases List.mem_cons.1 hg' with rfl | hg'
              · exact Or.inl h
              · exact Or.inr ⟨g', hg', h⟩
          · rw [List.nodup_append]
            refine ⟨hnd, ihnd, ?_⟩
            intro a ha b hb e
            subst e
            obtain ⟨g', hg', hq⟩ := (ihm a).1 hb
            exact hpw1 g' hg' a ((hm a).1 ha) hq

/-- The structures of the tree `_build` returns for a group of branches carry, without repetition,
    exactly the node objects of these branches from depth `d` on. -/
theorem buildF_placed {all : List TB} (G : GlobalOK all) :
    ∀ (f : Nat) (brs : List TB) (d sd pos dist : Nat) (root : Bool) (tr : Tree) (pos' dist' : Nat),
      buildF f brs d sd pos dist root = .ok (tr, pos', dist') → (∀ b ∈ brs, b ∈ all) → PF brs → Agree d brs →
      (∀ x, x ∈ tr.placed d ↔ OnGroup brs d x) ∧ (tr.placed d).Nodup
  | 0, _, _, _, _, _, _, _, _, _, h, _, _, _ => by simp [buildF] at h
  | f + 1, brs, d, sd, pos, dist, root, tr, pos', dist', h, hsub, hpf, hag => by
      have hcoh : Coh brs := G.coh.sub hsub
      obtain ⟨pre, hpl, hpre⟩ := hag
      cases hsc : scanF (maxLen brs + 1) brs d {} with
      | error e => simp [buildF, hsc] at h
      | ok sc =>
        simp only [buildF, hsc] at h
        obtain ⟨new, h1, h2, h3, h4, h5, h6⟩ := scan_spec _ _ _ _ _ hsc
        simp only [List.nil_append] at h1
        have hE := agree_E hcoh hpl hpre h3 h4
        have hElen : (pre ++ new).length = sc.depth := by simp [hpl, h2]
        obtain ⟨E', hE'len, hlastA, _, _⟩ := after_scan hcoh hpf ⟨pre, hpl, hpre⟩ hsc
        -- the structure's own nodes
        have hown : ∀ x, x ∈ sc.nodes.mapIdx (fun p o => (d + p, o.orig)) ↔
            (x.1 < sc.depth ∧ OnGroup brs d x) := by
          intro x
          rw [mem_mapIdx_pos, h1]
          constructor
          · rintro ⟨j, o, hj, rfl⟩
            obtain ⟨c, hc, hco⟩ := h3 j o hj
            have hjl := (List.getElem?_eq_some_iff.1 hj).1
            exact ⟨by simp only; omega, c, hc, o, Nat.le_add_right _ _, hco, rfl⟩
          · rintro ⟨hlt, b, hb, o, hdx, hbo, horig⟩
            have hxl : x.1 < (pre ++ new).length := by omega
            have hEx := List.getElem?_eq_getElem hxl
            have hbl := (List.getElem?_eq_some_iff.1 hbo).1
            have := hE b hb x.1 _ hEx hbl
            rw [hbo] at this
            have ho : o = (pre ++ new)[x.1] := Option.some.inj this
            rw [List.getElem?_append_right (by omega)] at hEx
            refine ⟨x.1 - pre.length, o, by rw [hEx, ho], ?_⟩
            ext
            · simp only; omega
            · exact horig.symm
        by_cases hsing : ∃ b, brs = [b]
        · -- a leaf
          obtain ⟨b, rfl⟩ := hsing
          simp only [Except.ok.injEq, Prod.mk.injEq] at h
          obtain ⟨rfl, _, _⟩ := h
          simp only [Tree.placed, Tree.placedL, List.append_nil]
          refine ⟨?_, nodup_mapIdx_pos _ _⟩
          intro x
          rw [hown x]
          constructor
          · exact fun h => h.2
          · intro hq
            refine ⟨?_, hq⟩
            obtain ⟨b', hb', o, _, hbo, _⟩ := hq
            rw [List.mem_singleton.1 hb'] at hbo
            have hbl := (List.getElem?_eq_some_iff.1 hbo).1
            -- the loop of a single branch runs to its end
            apply Nat.lt_of_lt_of_le hbl
            apply Nat.le_of_not_lt
            intro hlt
            apply h6
            rw [h5]
            have : presentAt [b] sc.depth = [(b, b.r.objs[sc.depth]'hlt)] := by
              simp [presentAt, List.getElem?_eq_getElem hlt]
            rw [this]; rfl
        · split at h
          · exact (hsing ⟨_, rfl⟩).elim
          · split at h
            · cases h
            · split at h
              · cases h
              · next kids p2 d2 hk =>
                split at h
                · cases h
                · simp only [Except.ok.injEq, Prod.mk.injEq] at h
                  obtain ⟨rfl, _, _⟩ := h
                  simp only [Tree.placed]
                  have hdep : d + sc.nodes.length = sc.depth := by rw [h1, h2]
                  rw [hdep]
                  -- the groups are disjoint: a node shared by two branches puts them in the same group
                  have hdisj : (groupsAt brs sc.depth sc.last).Pairwise
                      (fun g1 g2 => ∀ x, OnGroup g1 sc.depth x → OnGroup g2 sc.depth x → False) := by
                    simp only [groupsAt, List.pairwise_map]
                    have hnd : sc.last.Nodup := by rw [h5]; exact dedupR_nodup _
                    refine List.Pairwise.imp ?_ hnd
                    intro k1 k2 hne x ⟨b1, hb1, o1, hx1, hbo1, ho1⟩ ⟨b2, hb2, o2, _, hbo2, ho2⟩
                    obtain ⟨hb1b, hk1⟩ := List.mem_filter.1 hb1
                    obtain ⟨hb2b, hk2⟩ := List.mem_filter.1 hb2
                    obtain ⟨a1, ha1, hi1, ht1⟩ := G.anc b1 (hsub b1 hb1b) x.1 o1 hbo1
                    obtain ⟨a2, ha2, hi2, ht2⟩ := G.anc b2 (hsub b2 hb2b) x.1 o2 hbo2
                    have : a1 = a2 := G.idx_inj a1 ha1 a2 ha2 (by rw [hi1, hi2, ho1, ho2])
                    subst this
                    have hsame : b1.r.objs[sc.depth]? = b2.r.objs[sc.depth]? := by
                      rw [← take_getElem? ht1 (by omega), take_getElem? ht2 (by omega)]
                    apply hne
                    simp only [TB.keyAt, beq_iff_eq] at hk1 hk2
                    rw [hsame, hk2] at hk1
                    exact (Option.some.inj hk1).symm
                  obtain ⟨hkm, hknd⟩ := kidsWith_placed (off := sc.depth) _ _ _ _ _ _ (by
                      intro g hg p di c p1 d1 hc
                      simp only [groupsAt, List.mem_map] at hg
                      obtain ⟨k, hkl, rfl⟩ := hg
                      have hl : sc.last ≠ [] := by intro e; rw [e] at hkl; cases hkl
                      have hA := hlastA hl
                      refine buildF_placed G f _ _ _ _ _ _ _ _ _ hc
                        (fun b hb => hsub b (List.mem_filter.1 hb).1) (hpf.filter _) ?_
                      exact ⟨E', hE'len, fun b hb => (hA b (List.mem_filter.1 hb).1).2⟩) hdisj hk
                  constructor
                  · intro x
                    rw [List.mem_append, hown x, hkm x]
                    constructor
                    · rintro (⟨_, h⟩ | ⟨g, hg, b, hb, o, hx, hbo, ho⟩)
                      · exact h
                      · simp only [groupsAt, List.mem_map] at hg
                        obtain ⟨k, _, rfl⟩ := hg
                        have hdle : d ≤ sc.depth := by omega
                        exact ⟨b, (List.mem_filter.1 hb).1, o, by omega, hbo, ho⟩
                    · rintro ⟨b, hb, o, hx, hbo, ho⟩
                      by_cases hlt : x.1 < sc.depth
                      · exact Or.inl ⟨hlt, b, hb, o, hx, hbo, ho⟩
                      · right
                        have hbl := (List.getElem?_eq_some_iff.1 hbo).1
                        have hdl : sc.depth < b.r.objs.length := by omega
                        -- `b` is in the group of its node at the split depth
                        have hpres : (b, b.r.objs[sc.depth]'hdl) ∈ presentAt brs sc.depth :=
                          mem_presentAt.2 ⟨hb, List.getElem?_eq_getElem hdl⟩
                        have hkl : (b.r.objs[sc.depth]'hdl).orig ∈ sc.last := by
                          rw [h5, mem_dedupR]
                          exact List.mem_map.2 ⟨_, hpres, rfl⟩
                        refine ⟨_, List.mem_map.2 ⟨_, hkl, rfl⟩, b, ?_, o, by omega, hbo, ho⟩
                        exact List.mem_filter.2 ⟨hb, by simp [TB.keyAt, List.getElem?_eq_getElem hdl]⟩
                  · rw [List.nodup_append]
                    refine ⟨nodup_mapIdx_pos _ _, hknd, ?_⟩
                    intro a ha b hb e
                    subst e
                    have h1' := ((hown a).1 ha).1
                    obtain ⟨g, _, _, _, _, hx, _, _⟩ := (hkm a).1 hb
                    omega

theorem mem_objIds {bk : Book} {x : Nat × Nat} : x ∈ bk.objIds ↔ OnGroup bk.tbs 0 x := by
  simp only [Book.objIds, List.mem_flatMap, OnGroup]
  constructor
  · rintro ⟨r, hr, hx⟩
    obtain ⟨i, hi⟩ := List.mem_iff_getElem?.1 hr
    have := (mem_mapIdx_pos (off := 0)).1 (by simpa using hx)
    obtain ⟨j, o, hj, rfl⟩ := this
    exact ⟨⟨i, r⟩, mem_tbs.2 hi, o, Nat.zero_le _, by simpa using hj, by simp⟩
  · rintro ⟨b, hb, o, _, hbo, ho⟩
    refine ⟨b.r, List.mem_of_getElem? (mem_tbs.1 hb), ?_⟩
    have := (mem_mapIdx_pos (nodes := b.r.objs) (off := 0) (x := x)).2 ⟨x.1, o, hbo, by ext <;> simp [ho]⟩
    simpa using this

end TabTree
end Ptx
