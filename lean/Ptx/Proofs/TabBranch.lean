/-
  Helper lemmas for C06: the order on constants, `maxOf`, the set-style list update, and the
  preservation of (AboveAll ∧ CacheExact) by every branch operation.
-/
import Ptx.Tab.Branch
namespace Ptx.Tab

namespace Const
theorem lt_trans {a b c : Const} (h1 : a < b) (h2 : b < c) : a < c := by
  rw [lt_def] at *; omega
theorem lt_irrefl (a : Const) : ¬ a < a := by rw [lt_def]; omega
theorem lt_next (a : Const) : a < a.next := by
  rw [lt_def]; unfold next; split <;> simp <;> omega
theorem lt_of_not_lt_of_lt {a b c : Const} (h1 : ¬ b < a) (h2 : b < c) : a < c := by
  rw [lt_def] at *
  rcases a with ⟨ai, as⟩; rcases b with ⟨bi, bs⟩; rcases c with ⟨ci, cs⟩
  simp only at *; omega
theorem lt_of_lt_of_not_lt {a b c : Const} (h1 : a < b) (h2 : ¬ c < b) : a < c := by
  rw [lt_def] at *
  rcases a with ⟨ai, as⟩; rcases b with ⟨bi, bs⟩; rcases c with ⟨ci, cs⟩
  simp only at *; omega
theorem eq_or_lt_of_not_lt {a b : Const} (h : ¬ b < a) : a = b ∨ a < b := by
  rw [lt_def] at *
  rcases a with ⟨ai, as⟩; rcases b with ⟨bi, bs⟩
  simp only [Const.mk.injEq] at *; omega

/-- nothing in `c :: cs` is above `maxOf c cs` -/
theorem not_maxOf_lt (c : Const) (cs : List Const) : ∀ x ∈ c :: cs, ¬ maxOf c cs < x := by
  unfold maxOf
  induction cs generalizing c with
  | nil => intro x hx; simp at hx; subst hx; simpa using lt_irrefl x
  | cons d ds ih =>
    intro x hx
    simp only [List.foldl_cons]
    by_cases hcd : c < d
    · simp only [hcd, ↓reduceIte]
      simp only [List.mem_cons] at hx
      rcases hx with rfl | rfl | hx
      · intro h
        have := ih d d (by simp)
        exact this (lt_trans h hcd)
      · exact ih x x (by simp)
      · exact ih d x (by simp [hx])
    · simp only [hcd, ↓reduceIte]
      simp only [List.mem_cons] at hx
      rcases hx with rfl | rfl | hx
      · exact ih x x (by simp)
      · intro h
        have h1 := ih c c (by simp)
        rcases eq_or_lt_of_not_lt hcd with rfl | h2
        · exact h1 h
        · exact h1 (lt_trans h h2)
      · exact ih c x (by simp [hx])
end Const

theorem mem_insertAll {α} [DecidableEq α] (acc xs : List α) (x : α) :
    x ∈ insertAll acc xs ↔ x ∈ acc ∨ x ∈ xs := by
  unfold insertAll
  induction xs generalizing acc with
  | nil => simp
  | cons y ys ih =>
    simp only [List.foldl_cons, List.mem_cons]
    rw [ih]
    by_cases hy : y ∈ acc
    · simp only [hy, ↓reduceIte]
      constructor
      · rintro (h | h)
        · exact .inl h
        · exact .inr (.inr h)
      · rintro (h | rfl | h)
        · exact .inl h
        · exact .inl hy
        · exact .inr h
    · simp only [hy, ↓reduceIte, List.mem_append, List.mem_singleton]
      constructor
      · rintro ((h | rfl) | h)
        · exact .inl h
        · exact .inr (.inl rfl)
        · exact .inr (.inr h)
      · rintro (h | rfl | h)
        · exact .inl (.inl h)
        · exact .inl (.inr rfl)
        · exact .inr h

theorem mem_paramConsts (ps : List Param) (c : Const) :
    c ∈ paramConsts ps ↔ Param.const c.index c.sub ∈ ps := by
  induction ps with
  | nil => simp [paramConsts]
  | cons p ps ih =>
    cases p with
    | const i s =>
      simp only [paramConsts, List.mem_cons, ih, Param.const.injEq]
      constructor
      · rintro (rfl | h)
        · exact .inl ⟨rfl, rfl⟩
        · exact .inr h
      · rintro (⟨h1, h2⟩ | h)
        · left; cases c; simp_all
        · exact .inr h
    | var i s => simp [paramConsts, ih]

/-- the model's `Sentence.constants` is the independent walk -/
theorem mem_sentConsts (s : Sent) (c : Const) : c ∈ sentConsts s ↔ ConstOccurs c s := by
  induction s with
  | atom i k => simp [sentConsts]; intro h; cases h
  | pred p ps =>
    simp only [sentConsts, mem_paramConsts]
    exact ⟨fun h => .pred p ps h, fun h => by cases h; assumption⟩
  | quant q vi vs b ih =>
    simp only [sentConsts, ih]
    exact ⟨fun h => .quant q vi vs b h, fun h => by cases h; assumption⟩
  | op1 o a ih =>
    simp only [sentConsts, ih]
    exact ⟨fun h => .op1 o a h, fun h => by cases h; assumption⟩
  | op2 o a b iha ihb =>
    simp only [sentConsts, List.mem_append, iha, ihb]
    constructor
    · rintro (h | h)
      · exact .op2l o a b h
      · exact .op2r o a b h
    · intro h
      cases h with
      | op2l _ _ _ h => exact .inl h
      | op2r _ _ _ h => exact .inr h

/-- the model's `Node.worlds()` is the independent walk -/
theorem mem_node_worlds (n : Node) (w : Nat) : w ∈ n.worlds ↔ WorldOnNode w n := by
  cases n with
  | sent s d v => cases v <;> simp [Node.worlds, WorldOnNode]
  | access a b => simp [Node.worlds, WorldOnNode]
  | flag f => simp [Node.worlds, WorldOnNode]
  | ellipsis => simp [Node.worlds, WorldOnNode]

theorem le_foldl_max (w : Nat) (r : List Nat) : ∀ x ∈ w :: r, x ≤ r.foldl Nat.max w := by
  induction r generalizing w with
  | nil => simp
  | cons y ys ih =>
    intro x hx
    simp only [List.foldl_cons]
    simp only [List.mem_cons] at hx
    have h1 := ih (Nat.max w y) (Nat.max w y) (by simp)
    rcases hx with rfl | rfl | hx
    · have : x ≤ Nat.max x y := Nat.le_max_left _ _
      omega
    · have : x ≤ Nat.max w x := Nat.le_max_right _ _
      omega
    · exact ih _ x (by simp [hx])

/-- the invariant -/
def BInv (b : BranchState) : Prop := AboveAll b ∧ CacheExact b

theorem binv_empty : BInv BranchState.empty := by
  refine ⟨⟨?_, ?_⟩, ⟨?_, ?_⟩⟩ <;> simp [BranchState.empty, BranchState.nodes]

theorem nodes_snoc (b : BranchState) (id : Nat) (n : Node) :
    ({ b with entries := b.entries ++ [(id, n)] } : BranchState).nodes = b.nodes ++ [n] := by
  simp [BranchState.nodes]

/-- constants half of the invariant -/
def CInv (b : BranchState) : Prop :=
  (∀ n ∈ b.nodes, ∀ c, ConstOnNode c n → c < b.nextConst) ∧
  (∀ c, c ∈ b.consts ↔ ∃ n ∈ b.nodes, ConstOnNode c n)

/-- worlds half of the invariant -/
def WInv (b : BranchState) : Prop :=
  (∀ n ∈ b.nodes, ∀ w, WorldOnNode w n → w < b.nextWorld) ∧
  (∀ w, w ∈ b.worlds ↔ ∃ n ∈ b.nodes, WorldOnNode w n)

theorem binv_iff (b : BranchState) : BInv b ↔ CInv b ∧ WInv b := by
  unfold BInv AboveAll CacheExact CInv WInv BranchState.newConstant BranchState.newWorld
  constructor
  · rintro ⟨⟨a, b⟩, ⟨c, d⟩⟩; exact ⟨⟨a, c⟩, ⟨b, d⟩⟩
  · rintro ⟨⟨a, c⟩, ⟨b, d⟩⟩; exact ⟨⟨a, b⟩, ⟨c, d⟩⟩

/-- appending a sentence node and running the constants update -/
theorem cinv_addConsts (b : BranchState) (h : CInv b) (id : Nat) (s : Sent) (d : Option Bool)
    (w : Option Nat) :
    CInv (({ b with entries := b.entries ++ [(id, .sent s d w)] } : BranchState).addConsts (sentConsts s)) := by
  obtain ⟨h1, h2⟩ := h
  have hocc : ∀ c, c ∈ sentConsts s ↔ ConstOccurs c s := mem_sentConsts s
  unfold BranchState.addConsts
  cases hc : sentConsts s with
  | nil =>
    simp only
    refine ⟨?_, ?_⟩
    · intro n hn c hcn
      simp only [BranchState.nodes, List.map_append, List.map_cons, List.map_nil] at hn
      simp only [List.mem_append, List.mem_singleton] at hn
      rcases hn with hn | rfl
      · exact h1 n hn c hcn
      · have : c ∈ sentConsts s := (hocc c).2 hcn
        rw [hc] at this; simp at this
    · intro c
      simp only [BranchState.nodes, List.map_append, List.map_cons, List.map_nil]
      simp only [h2 c, List.mem_append, List.mem_singleton]
      constructor
      · rintro ⟨n, hn, hcn⟩; exact ⟨n, .inl hn, hcn⟩
      · rintro ⟨n, hn | rfl, hcn⟩
        · exact ⟨n, hn, hcn⟩
        · have : c ∈ sentConsts s := (hocc c).2 hcn
          rw [hc] at this; simp at this
  | cons c0 cs =>
    have hmax := Const.not_maxOf_lt c0 cs
    simp only
    refine ⟨?_, ?_⟩
    · intro n hn c hcn
      simp only [BranchState.nodes, List.map_append, List.map_cons, List.map_nil] at hn
      simp only [List.mem_append, List.mem_singleton] at hn
      rcases hn with hn | rfl
      · have hlt := h1 n hn c hcn
        split
        · exact hlt
        · rename_i hnot
          exact Const.lt_trans (Const.lt_of_lt_of_not_lt hlt hnot) (Const.lt_next _)
      · have hmem : c ∈ c0 :: cs := by rw [← hc]; exact (hocc c).2 hcn
        have hle := hmax c hmem
        split
        · rename_i hlt; exact Const.lt_of_not_lt_of_lt hle hlt
        · exact Const.lt_of_not_lt_of_lt hle (Const.lt_next _)
    · intro c
      simp only [BranchState.nodes, List.map_append, List.map_cons, List.map_nil]
      simp only [mem_insertAll, h2 c, List.mem_append, List.mem_singleton]
      constructor
      · rintro (⟨n, hn, hcn⟩ | hmem)
        · exact ⟨n, .inl hn, hcn⟩
        · exact ⟨_, .inr rfl, (hocc c).1 (by rw [hc]; exact hmem)⟩
      · rintro ⟨n, hn | rfl, hcn⟩
        · exact .inl ⟨n, hn, hcn⟩
        · right; rw [← hc]; exact (hocc c).2 hcn

/-- appending a node that carries no sentence leaves the constants half alone -/
theorem cinv_snoc_other (b : BranchState) (h : CInv b) (id : Nat) (n : Node)
    (hn : ∀ c, ¬ ConstOnNode c n) :
    CInv ({ b with entries := b.entries ++ [(id, n)] } : BranchState) := by
  obtain ⟨h1, h2⟩ := h
  refine ⟨?_, ?_⟩
  · intro m hm c hcm
    simp only [BranchState.nodes, List.map_append, List.map_cons, List.map_nil] at hm
    simp only [List.mem_append, List.mem_singleton] at hm
    rcases hm with hm | rfl
    · exact h1 m hm c hcm
    · exact absurd hcm (hn c)
  · intro c
    simp only [BranchState.nodes, List.map_append, List.map_cons, List.map_nil]
    simp only [h2 c, List.mem_append, List.mem_singleton]
    constructor
    · rintro ⟨m, hm, hcm⟩; exact ⟨m, .inl hm, hcm⟩
    · rintro ⟨m, hm | rfl, hcm⟩
      · exact ⟨m, hm, hcm⟩
      · exact absurd hcm (hn c)

/-- the worlds update, for a branch whose last node is `n` -/
theorem winv_addWorlds (b : BranchState) (id : Nat) (n : Node)
    (h : WInv b) :
    WInv (({ b with entries := b.entries ++ [(id, n)] } : BranchState).addWorlds n.worlds) := by
  obtain ⟨h1, h2⟩ := h
  have hocc : ∀ w, w ∈ n.worlds ↔ WorldOnNode w n := mem_node_worlds n
  unfold BranchState.addWorlds
  cases hc : n.worlds with
  | nil =>
    simp only
    refine ⟨?_, ?_⟩
    · intro m hm w hwm
      simp only [BranchState.nodes, List.map_append, List.map_cons, List.map_nil] at hm
      simp only [List.mem_append, List.mem_singleton] at hm
      rcases hm with hm | rfl
      · exact h1 m hm w hwm
      · have : w ∈ m.worlds := (hocc w).2 hwm
        rw [hc] at this; simp at this
    · intro w
      simp only [BranchState.nodes, List.map_append, List.map_cons, List.map_nil]
      simp only [h2 w, List.mem_append, List.mem_singleton]
      constructor
      · rintro ⟨m, hm, hwm⟩; exact ⟨m, .inl hm, hwm⟩
      · rintro ⟨m, hm | rfl, hwm⟩
        · exact ⟨m, hm, hwm⟩
        · have : w ∈ m.worlds := (hocc w).2 hwm
          rw [hc] at this; simp at this
  | cons w0 ws =>
    have hmax := le_foldl_max w0 ws
    simp only
    refine ⟨?_, ?_⟩
    · intro m hm w hwm
      simp only [BranchState.nodes, List.map_append, List.map_cons, List.map_nil] at hm
      simp only [List.mem_append, List.mem_singleton] at hm
      rcases hm with hm | rfl
      · have hlt := h1 m hm w hwm
        split <;> simp only [] <;> omega
      · have hmem : w ∈ w0 :: ws := by rw [← hc]; exact (hocc w).2 hwm
        have hle := hmax w hmem
        split <;> simp only [] <;> omega
    · intro w
      simp only [BranchState.nodes, List.map_append, List.map_cons, List.map_nil]
      simp only [mem_insertAll, h2 w, List.mem_append, List.mem_singleton]
      constructor
      · rintro (⟨m, hm, hwm⟩ | hmem)
        · exact ⟨m, .inl hm, hwm⟩
        · exact ⟨_, .inr rfl, (hocc w).1 (by rw [hc]; exact hmem)⟩
      · rintro ⟨m, hm | rfl, hwm⟩
        · exact .inl ⟨m, hm, hwm⟩
        · right; rw [← hc]; exact (hocc w).2 hwm

theorem addConsts_worlds (b : BranchState) (cs : List Const) :
    (b.addConsts cs).entries = b.entries ∧ (b.addConsts cs).worlds = b.worlds ∧
    (b.addConsts cs).nextWorld = b.nextWorld := by
  unfold BranchState.addConsts; cases cs <;> simp

theorem addWorlds_consts (b : BranchState) (ws : List Nat) :
    (b.addWorlds ws).entries = b.entries ∧ (b.addWorlds ws).consts = b.consts ∧
    (b.addWorlds ws).nextConst = b.nextConst := by
  unfold BranchState.addWorlds; cases ws <;> simp

theorem cinv_congr {b b' : BranchState} (he : b'.entries = b.entries) (hc : b'.consts = b.consts)
    (hn : b'.nextConst = b.nextConst) (h : CInv b) : CInv b' := by
  unfold CInv BranchState.nodes at *
  rw [he, hc, hn]; exact h

theorem winv_congr {b b' : BranchState} (he : b'.entries = b.entries) (hc : b'.worlds = b.worlds)
    (hn : b'.nextWorld = b.nextWorld) (h : WInv b) : WInv b' := by
  unfold WInv BranchState.nodes at *
  rw [he, hc, hn]; exact h

theorem addWorlds_congr {x y : BranchState} (ws : List Nat) (he : x.entries = y.entries)
    (hw : x.worlds = y.worlds) (hn : x.nextWorld = y.nextWorld) :
    (x.addWorlds ws).entries = (y.addWorlds ws).entries ∧
    (x.addWorlds ws).worlds = (y.addWorlds ws).worlds ∧
    (x.addWorlds ws).nextWorld = (y.addWorlds ws).nextWorld := by
  unfold BranchState.addWorlds; cases ws <;> simp [he, hw, hn]

/-- `append` preserves the invariant -/
theorem binv_append {b b' : BranchState} (h : BInv b) (id : Nat) (n : Node)
    (ha : b.append id n = .ok b') : BInv b' := by
  rw [binv_iff] at h ⊢
  obtain ⟨hc, hw⟩ := h
  unfold BranchState.append at ha
  split at ha
  · cases ha
  split at ha
  · cases ha
  injection ha with ha
  subst ha
  -- the state after the node was stored and the constants were updated
  generalize hb1 : (match n with
      | .sent s _ _ => ({ b with entries := b.entries ++ [(id, n)] } : BranchState).addConsts (sentConsts s)
      | _ => ({ b with entries := b.entries ++ [(id, n)] } : BranchState)) = b1
  have hb1e : b1.entries = b.entries ++ [(id, n)] ∧ b1.worlds = b.worlds ∧ b1.nextWorld = b.nextWorld := by
    subst hb1
    cases n <;> simp [addConsts_worlds]
  have hb1c : CInv b1 := by
    subst hb1
    cases n with
    | sent s d w => exact cinv_addConsts b hc id s d w
    | access a c => exact cinv_snoc_other b hc id _ (fun _ h => h)
    | flag f => exact cinv_snoc_other b hc id _ (fun _ h => h)
    | ellipsis => exact cinv_snoc_other b hc id _ (fun _ h => h)
  have e2 := addWorlds_consts b1 n.worlds
  have goal1 := cinv_congr e2.1 e2.2.1 e2.2.2 hb1c
  refine ⟨by subst hb1; exact goal1, ?_⟩
  have w1 := winv_addWorlds b id n hw
  have e3 := addWorlds_congr (x := b1) (y := ({ b with entries := b.entries ++ [(id, n)] } : BranchState))
    n.worlds hb1e.1 hb1e.2.1 hb1e.2.2
  have goal2 := winv_congr e3.1 e3.2.1 e3.2.2 w1
  subst hb1; exact goal2

theorem binv_tick {b : BranchState} (h : BInv b) (id : Nat) : BInv (b.tick id) := by
  unfold BranchState.tick
  split
  · exact h
  · exact h

/-- the invariant implies freshness -/
theorem BInv.fresh {b : BranchState} (h : BInv b) : Fresh b := by
  obtain ⟨⟨h1, h2⟩, _⟩ := h
  refine ⟨?_, ?_⟩
  · intro n hn hc
    exact Const.lt_irrefl _ (h1 n hn _ hc)
  · intro n hn hw
    exact Nat.lt_irrefl _ (h2 n hn _ hw)

/-- every operation keeps the invariant on every branch of the forest -/
theorem binv_execOp {f : Forest} (h : ∀ b ∈ f, BInv b) (op : BranchOp) :
    ∀ b ∈ (execOp f op).1, BInv b := by
  cases op with
  | new =>
    intro b hb
    simp only [execOp, List.mem_append, List.mem_singleton] at hb
    rcases hb with hb | rfl
    · exact h b hb
    · exact binv_empty
  | append k id n =>
    simp only [execOp]
    cases hk : f[k]? with
    | none => exact h
    | some bs =>
      simp only
      cases ha : bs.append id n with
      | error e => exact h
      | ok bs' =>
        intro b hb
        simp only at hb
        rcases List.mem_or_eq_of_mem_set hb with hb | hb
        · exact h b hb
        · subst hb; exact binv_append (h bs (List.mem_of_getElem? hk)) id n ha
  | copy k =>
    simp only [execOp]
    cases hk : f[k]? with
    | none => exact h
    | some bs =>
      intro b hb
      simp only [List.mem_append, List.mem_singleton] at hb
      rcases hb with hb | hb
      · exact h b hb
      · rw [hb]; exact h bs (List.mem_of_getElem? hk)
  | tick k id =>
    simp only [execOp]
    cases hk : f[k]? with
    | none => exact h
    | some bs =>
      intro b hb
      simp only at hb
      rcases List.mem_or_eq_of_mem_set hb with hb | hb
      · exact h b hb
      · subst hb; exact binv_tick (h bs (List.mem_of_getElem? hk)) id

theorem binv_runFrom {f : Forest} (h : ∀ b ∈ f, BInv b) (ops : List BranchOp) :
    ∀ b ∈ runFrom f ops, BInv b := by
  induction ops generalizing f with
  | nil => exact h
  | cons op ops ih => exact ih (binv_execOp h op)

theorem binv_run (ops : List BranchOp) : ∀ b ∈ run ops, BInv b := by
  apply binv_runFrom
  intro b hb
  simp only [List.mem_singleton] at hb
  subst hb
  exact binv_empty

/-! ### independence of the branches of a forest -/

/-- the branch an operation writes to (copy and new only add a branch at the end) -/
def BranchOp.target : BranchOp → Option Nat
  | .append b _ _ => some b
  | .tick b _ => some b
  | .copy _ => none
  | .new => none

theorem execOp_length_le (f : Forest) (op : BranchOp) : f.length ≤ (execOp f op).1.length := by
  cases op <;> simp only [execOp] <;> (repeat' split) <;> simp

theorem execOp_get_other (f : Forest) (op : BranchOp) (k : Nat) (hk : k < f.length)
    (h : op.target ≠ some k) : (execOp f op).1[k]? = f[k]? := by
  cases op with
  | new => simp only [execOp]; rw [List.getElem?_append_left hk]
  | append j id n =>
    have hj : j ≠ k := fun e => h (by simp [BranchOp.target, e])
    simp only [execOp]
    (repeat' split) <;> simp [hj]
  | copy j =>
    simp only [execOp]
    split
    · rfl
    · rw [List.getElem?_append_left hk]
  | tick j id =>
    have hj : j ≠ k := fun e => h (by simp [BranchOp.target, e])
    simp only [execOp]
    split <;> simp [hj]

theorem runFrom_get_other (f : Forest) (ops : List BranchOp) (k : Nat) (hk : k < f.length)
    (h : ∀ op ∈ ops, op.target ≠ some k) : (runFrom f ops)[k]? = f[k]? := by
  induction ops generalizing f with
  | nil => rfl
  | cons op ops ih =>
    simp only [runFrom]
    rw [ih _ (Nat.lt_of_lt_of_le hk (execOp_length_le f op)) (fun o ho => h o (by simp [ho]))]
    exact execOp_get_other f op k hk (h op (by simp))

end Ptx.Tab
