/-
  Ptx.Proofs.Sound — soundness of every legal step: if some open branch of the tableau is
  satisfied by a structure, the same holds after the step.  No assumption on which step is
  taken: the statement is about `applyStep`, i.e. about every legal rule instance.
-/
import Ptx.Proofs.Lift
namespace Ptx
variable {L : LogicData} {M : Struct}

def SatB (L : LogicData) (M : Struct) (e : Env M.D) (σ : Nat → M.W) (b : Branch) : Prop :=
  ∀ n ∈ b.nodes, satNode L M e σ n

/-- some open branch is satisfied -/
def SatT (L : LogicData) (M : Struct) (t : Tableau) : Prop :=
  ∃ (e : Env M.D) (σ : Nat → M.W), ∃ b ∈ t, b.closed = false ∧ SatB L M e σ b

theorem satOpt_some {d : Option Bool} {o : Option V} (h : L.satOpt d o = true) :
    ∃ v, o = some v ∧ L.satV d v = true := by
  cases o with
  | none => simp [LogicData.satOpt] at h
  | some v => exact ⟨v, rfl, by simpa [LogicData.satOpt] using h⟩

/-- a satisfied operator-rule template branch, instantiated, gives satisfied nodes -/
theorem opBranch_sat (k : RuleKey) (whole A : Sent) (raw : Option Sent) (var : Nat × Nat)
    (e : Env M.D) (σ : Nat → M.W) (w : Option Nat) (b : V)
    (hwhole : ∀ v, Tm.wholeOp L.T k.shape (eval L M e (σ (w.getD 0)) A) b = some v →
        eval L M e (σ (w.getD 0)) whole = v)
    (hB : ∀ B', whole.rhs? = some B' → k.shape.isOp2 = true →
        eval L M e (σ (w.getD 0)) B' = b)
    (br : List AddT) (g : List Node)
    (hbr : L.opBranchSat k (eval L M e (σ (w.getD 0)) A) b br = true)
    (hi : instAdds whole A whole.rhs? raw var w none br = some g) :
    ∀ n ∈ g, satNode L M e σ n := by
  intro n hn
  obtain ⟨ad, had, hf⟩ := mapOpt_mem_bwd hi n hn
  simp only [LogicData.opBranchSat, List.all_eq_true] at hbr
  have h1 := hbr ad had
  cases ad with
  | access => simp at h1
  | node nt =>
    simp only [Bool.and_eq_true, Bool.not_eq_true'] at h1
    obtain ⟨hoth, hsat⟩ := h1
    obtain ⟨v, hv, hsv⟩ := satOpt_some hsat
    simp only at hf
    split at hf
    · cases hf
    · next s' hs' =>
      simp [hoth] at hf
      subst hf
      have := evalOp_inst (L := L) (M := M) k.shape whole A whole.rhs? raw var e (σ (w.getD 0)) b hwhole hB
        nt.tm s' v hs' hv
      simp [satNode, this, hsv]

/-! ### list / tableau bookkeeping -/

theorem lookup_mem {α β} [BEq α] [LawfulBEq α] : ∀ {l : List (α × β)} {k : α} {v : β},
    l.lookup k = some v → (k, v) ∈ l
  | [], k, v, h => by simp [List.lookup] at h
  | (a, b) :: l, k, v, h => by
      simp only [List.lookup] at h
      split at h
      · next heq => simp at h; subst h; have := eq_of_beq heq; subst this; exact List.mem_cons_self
      · exact List.mem_cons_of_mem _ (lookup_mem h)

theorem closed_extend {b : Branch} {g : List Node} {tick : Option Nat} (hb : b.closed = false)
    (hg : ∀ n ∈ g, n.isClosure = false) : (b.extend g tick).closed = false := by
  unfold Branch.closed Branch.extend at *
  simp only
  rw [List.getLast?_append]
  cases hl : g.getLast? with
  | none => simpa using hb
  | some n => simp; exact hg n (List.mem_of_getLast? hl)

theorem mem_fork_self {t : Tableau} {bi : Nat} {b b0 : Branch} {extra : List Branch}
    (h : t[bi]? = some b) : b0 ∈ t.fork bi b0 extra := by
  unfold Tableau.fork
  apply List.mem_append_left
  have hlt : bi < t.length := by
    rcases Nat.lt_or_ge bi t.length with h' | h'
    · exact h'
    · rw [List.getElem?_eq_none h'] at h; cases h
  exact List.mem_iff_getElem.2 ⟨bi, by simpa using hlt, by simp⟩

theorem mem_fork_other {t : Tableau} {bi : Nat} {b b' b0 : Branch} {extra : List Branch}
    (hb : t[bi]? = some b) (hm : b' ∈ t) (hne : b' ≠ b) : b' ∈ t.fork bi b0 extra := by
  unfold Tableau.fork
  apply List.mem_append_left
  obtain ⟨j, hj, rfl⟩ := List.mem_iff_getElem.1 hm
  have hji : j ≠ bi := by
    intro h; subst h
    rw [List.getElem?_eq_getElem hj] at hb
    exact hne (by simpa using hb)
  exact List.mem_iff_getElem.2 ⟨j, by simpa using hj, by simp [List.getElem_set, Ne.symm hji]⟩

/-- the generic way a step preserves `SatT`: the satisfied branch is either untouched, or it is
    the target and one of the produced extensions is satisfied (possibly under a new
    interpretation of fresh items) -/
theorem satT_fork {t : Tableau} {bi : Nat} {b : Branch} {g0 : List Node} {rest : List (List Node)}
    {tick : Option Nat} (hb : t[bi]? = some b) (hbc : b.closed = false)
    (hgs : ∀ g ∈ g0 :: rest, ∀ n ∈ g, n.isClosure = false)
    (hsat : ∀ (e : Env M.D) (σ : Nat → M.W), SatB L M e σ b →
        ∃ (e' : Env M.D) (σ' : Nat → M.W), SatB L M e' σ' b ∧ ∃ g ∈ g0 :: rest, ∀ n ∈ g, satNode L M e' σ' n)
    (h : SatT L M t) :
    SatT L M (t.fork bi (b.extend g0 tick) (rest.map fun g => { (b.extend g tick) with parent := some bi })) := by
  obtain ⟨e, σ, b', hb', hc', hs'⟩ := h
  by_cases hne : b' = b
  · subst hne
    obtain ⟨e', σ', hsb, g, hg, hgn⟩ := hsat e σ hs'
    refine ⟨e', σ', ?_⟩
    have hsat' : ∀ tk, SatB L M e' σ' (b'.extend g tk) := by
      intro tk n hn
      simp only [Branch.extend, List.mem_append] at hn
      rcases hn with hn | hn
      · exact hsb n hn
      · exact hgn n hn
    rcases List.mem_cons.1 hg with rfl | hg
    · exact ⟨_, mem_fork_self hb, closed_extend hbc (hgs _ List.mem_cons_self), hsat' _⟩
    · refine ⟨{ (b'.extend g tick) with parent := some bi }, ?_, ?_, ?_⟩
      · unfold Tableau.fork
        apply List.mem_append_right
        exact List.mem_map.2 ⟨g, hg, rfl⟩
      · have := closed_extend (tick := tick) hbc (hgs g (List.mem_cons_of_mem _ hg))
        simpa [Branch.closed, Branch.extend] using this
      · intro n hn; exact hsat' tick n (by simpa [Branch.extend] using hn)
  · exact ⟨e, σ, b', mem_fork_other hb hb' hne, hc', hs'⟩

/-- single-branch version (`t.set`) -/
theorem satT_set {t : Tableau} {bi : Nat} {b : Branch} {g : List Node} {tick : Option Nat}
    (hb : t[bi]? = some b) (hbc : b.closed = false)
    (hg : ∀ n ∈ g, n.isClosure = false)
    (hsat : ∀ (e : Env M.D) (σ : Nat → M.W), SatB L M e σ b →
        ∃ (e' : Env M.D) (σ' : Nat → M.W), SatB L M e' σ' b ∧ ∀ n ∈ g, satNode L M e' σ' n)
    (h : SatT L M t) : SatT L M (t.set bi (b.extend g tick)) := by
  have := satT_fork (L := L) (M := M) (rest := []) (tick := tick) hb hbc (g0 := g)
    (by intro g' hg'; simp at hg'; subst hg'; exact hg)
    (by intro e σ hs; obtain ⟨e', σ', h1, h2⟩ := hsat e σ hs; exact ⟨e', σ', h1, g, by simp, h2⟩) h
  simpa [Tableau.fork] using this

/-! ### operator rules -/

theorem ruleSound_of_nil (h : L.unsoundRules = []) {k : RuleKey} {r : Rule} (hr : L.rule? k = some r) :
    L.ruleSoundB k r = true := by
  have hm := lookup_mem (show L.rules.lookup k = some r from hr)
  unfold LogicData.unsoundRules at h
  have : (k, r) ∉ L.rules.filter (fun (k, r) => !L.ruleSoundB k r) := by
    intro hc
    have : k ∈ (L.rules.filter (fun (k, r) => !L.ruleSoundB k r)).map (·.1) := List.mem_map.2 ⟨_, hc, rfl⟩
    rw [h] at this; cases this
  simp [List.mem_filter, hm] at this
  exact this

/-- operator rules (non-modal unary, binary): a satisfied target node has a satisfied extension -/
theorem op_rule_sound (hT : L.tablesTotalB = true) (hM : M.Interp L)
    {s : Sent} {d : Option Bool} {w : Option Nat} {sh : Shape} {ng : Bool} {whole : Sent} {r : Rule}
    (hd : s.decomp = some (sh, ng, whole))
    (hsh : sh.isTF = true)
    (hr : L.ruleSoundB ⟨sh, ng, d⟩ r = true)
    {A : Sent} (hA : whole.lhs? = some A) (raw : Option Sent) (var : Nat × Nat)
    {gs : List (List Node)} (hgs : mapOpt (instAdds whole A whole.rhs? raw var w none) r.branches = some gs)
    (e : Env M.D) (σ : Nat → M.W) (hn : satNode L M e σ (.sent s d w)) :
    ∃ g ∈ gs, ∀ n ∈ g, satNode L M e σ n := by
  have hsp := decomp_shape hd
  simp only [satNode] at hn
  have ha := eval_mem_vals L hT M hM A e (σ (w.getD 0))
  cases sh with
  | quant q => simp [Shape.isTF] at hsh
  | op1 o =>
    simp [Shape.isTF] at hsh
    cases whole <;> simp [Shape.of] at hsp
    rename_i o' a'
    obtain rfl := hsp.symm
    simp [Sent.lhs?] at hA; subst hA
    simp only [LogicData.ruleSoundB, hsh, Bool.false_eq_true, ↓reduceIte, Bool.and_eq_true, List.all_eq_true,
      Bool.or_eq_true, Bool.not_eq_true', beq_iff_eq] at hr
    obtain ⟨_, hr⟩ := hr
    have hns : L.nodeSatOp ⟨.op1 o, ng, d⟩ (eval L M e (σ (w.getD 0)) a') (eval L M e (σ (w.getD 0)) a') = true := by
      rw [eval_decomp hd, eval_op1_nonmodal _ _ _ hsh] at hn
      simp [LogicData.nodeSatOp, Tm.wholeOp, hsh, LogicData.satOpt, hn]
    rcases hr _ ha with h | h
    · rw [h] at hns; cases hns
    · obtain ⟨br, hbr, hsat⟩ := List.any_eq_true.1 h
      obtain ⟨g, hg, hig⟩ := mapOpt_mem_fwd hgs br hbr
      refine ⟨g, hg, ?_⟩
      refine opBranch_sat (L := L) (M := M) ⟨.op1 o, ng, d⟩ (.op1 o a') a' raw var e σ w _ ?_ ?_ br g hsat hig
      · intro v hv
        simp [Tm.wholeOp, hsh] at hv
        rw [eval_op1_nonmodal _ _ _ hsh]; exact hv
      · intro B' hB' h2; simp [Shape.isOp2] at h2
  | op2 o =>
    cases whole <;> simp [Shape.of] at hsp
    rename_i o' a' b'
    obtain rfl := hsp.symm
    simp [Sent.lhs?] at hA; subst hA
    have hb := eval_mem_vals L hT M hM b' e (σ (w.getD 0))
    simp only [LogicData.ruleSoundB, Bool.and_eq_true, List.all_eq_true,
      Bool.or_eq_true, Bool.not_eq_true', beq_iff_eq] at hr
    obtain ⟨_, hr⟩ := hr
    have hns : L.nodeSatOp ⟨.op2 o, ng, d⟩ (eval L M e (σ (w.getD 0)) a') (eval L M e (σ (w.getD 0)) b') = true := by
      rw [eval_decomp hd] at hn
      simp [LogicData.nodeSatOp, Tm.wholeOp, LogicData.satOpt]
      simpa [eval] using hn
    rcases hr _ ha _ hb with h | h
    · rw [h] at hns; cases hns
    · obtain ⟨br, hbr, hsat⟩ := List.any_eq_true.1 h
      obtain ⟨g, hg, hig⟩ := mapOpt_mem_fwd hgs br hbr
      refine ⟨g, hg, ?_⟩
      refine opBranch_sat (L := L) (M := M) ⟨.op2 o, ng, d⟩ (.op2 o a' b') a' raw var e σ w _ ?_ ?_ br g hsat hig
      · intro v hv
        simp [Tm.wholeOp] at hv
        simp [eval]; exact hv
      · intro B' hB' _; simp [Sent.rhs?] at hB'; subst hB'; rfl

/-! ### modal rules -/

/-- satisfaction of a node only depends on σ at the node's own world labels -/
theorem satNode_congr_sigma (e : Env M.D) (σ σ' : Nat → M.W) (n : Node)
    (h : ∀ x ∈ n.worldsSem, σ x = σ' x) : satNode L M e σ n ↔ satNode L M e σ' n := by
  cases n with
  | sent s d w =>
    cases w with
    | none => simp [satNode, h 0 (by simp [Node.worldsSem])]
    | some w => simp [satNode, h w (by simp [Node.worldsSem])]
  | access a b => simp [satNode, h a (by simp [Node.worldsSem]), h b (by simp [Node.worldsSem])]
  | flag _ => simp [satNode]
  | ellipsis => simp [satNode]

theorem satB_update_fresh (e : Env M.D) (σ : Nat → M.W) (b : Branch) (w' : Nat) (x : M.W)
    (hf : w' ∉ b.worlds) (h : SatB L M e σ b) :
    SatB L M e (fun y => if y = w' then x else σ y) b := by
  intro n hn
  refine (satNode_congr_sigma e σ _ n ?_).1 (h n hn)
  intro y hy
  have : y ≠ w' := by
    rintro rfl
    exact hf (List.mem_flatMap.2 ⟨n, hn, hy⟩)
  simp [this]

theorem mProfiles_mem (hM : M.Interp L) (hT : L.tablesTotalB = true) (e : Env M.D) (w : M.W) (A : Sent) :
    profile L.T (fun w' => M.R w w') (fun w' => eval L M e w' A) ∈ L.mProfiles := by
  have hp := profile_mem_profiles L.T (fun w' => M.R w w') (fun w' => eval L M e w' A)
  unfold LogicData.mProfiles
  by_cases he : L.emptyAccessOk = true
  · unfold LogicData.emptyAccessOk at he
    cases hk : L.frame <;> simp [hk] at he <;> simpa [hk] using hp
  · obtain ⟨w', hw'⟩ := succ_of_frame hM.frame (by simpa using he) w
    have hne : profile L.T (fun w' => M.R w w') (fun w' => eval L M e w' A) ≠ [] := by
      intro hnil
      have : eval L M e w' A ∈ profile L.T (fun w' => M.R w w') (fun w' => eval L M e w' A) :=
        mem_profile.2 ⟨eval_mem_vals L hT M hM A e w', w', hw', rfl⟩
      rw [hnil] at this; cases this
    unfold LogicData.emptyAccessOk at he
    cases hk : L.frame <;> simp [hk] at he <;>
      simp [hk, LogicData.nonemptyProfiles, List.mem_filter, hp, hne]

/-- nodes produced for a modal rule branch: same-world part -/
theorem mBranch_nodes_sat (hT : L.tablesTotalB = true) (hM : M.Interp L) (hm : L.modal = true)
    (k : RuleKey) (mo : Op1) (hmo : mo.isModal = true) (A : Sent) (var : Nat × Nat) (e : Env M.D)
    (σ : Nat → M.W) (w0 : Nat) (wo : Option Nat) (br : List AddT) (g : List Node)
    (hsame : L.mBranchSame mo k (profile L.T (fun w' => M.R (σ w0) w') (fun w' => eval L M e w' A)) br = true)
    (hother : ∀ w', wo = some w' → LogicData.mBranchHasOther br = true →
        M.R (σ w0) (σ w') ∧ L.mBranchOther (eval L M e (σ w') A) br = true)
    (hi : instAdds (.op1 mo A) A none none var (some w0) wo br = some g) :
    ∀ n ∈ g, satNode L M e σ n := by
  intro n hn
  obtain ⟨ad, had, hf⟩ := mapOpt_mem_bwd hi n hn
  cases ad with
  | access =>
    simp only at hf
    cases wo with
    | none => simp at hf
    | some w' =>
      simp at hf; subst hf
      exact (hother w' rfl (List.any_eq_true.2 ⟨_, had, rfl⟩)).1
  | node nt =>
    simp only at hf
    split at hf
    · cases hf
    · next s' hs' =>
      by_cases hoth : nt.other = true
      · simp [hoth] at hf
        cases wo with
        | none => simp at hf
        | some w' =>
          simp at hf; subst hf
          have h2 := (hother w' rfl (List.any_eq_true.2 ⟨_, had, by simpa using hoth⟩)).2
          simp only [LogicData.mBranchOther, List.all_eq_true] at h2
          have h3 := h2 _ had
          simp [hoth] at h3
          obtain ⟨v, hv, hsv⟩ := satOpt_some h3
          have := evalPt_inst (L := L) (M := M) (.op1 mo A) A var e (σ w') nt.tm s' v hs' hv
          simp [satNode, this, hsv]
      · simp [hoth] at hf; subst hf
        simp only [LogicData.mBranchSame, List.all_eq_true] at hsame
        have h3 := hsame _ had
        simp [hoth] at h3
        obtain ⟨v, hv, hsv⟩ := satOpt_some h3
        have := evalMSame_inst (L := L) (M := M) hT hM hm mo hmo A var e (σ w0) nt.tm s' v hs' hv
        simp [satNode, this, hsv]

/-- modal rules: a satisfied target node has a satisfied extension, possibly after choosing the
    structure's world for a fresh label -/
theorem modal_rule_sound (hT : L.tablesTotalB = true) (hM : M.Interp L) (hm : L.modal = true)
    {s : Sent} {d : Option Bool} {w0 : Nat} {mo : Op1} {ng : Bool} {A : Sent} {r : Rule}
    (hmo : mo.isModal = true)
    (hd : s.decomp = some (.op1 mo, ng, .op1 mo A))
    (hr : L.ruleSoundB ⟨.op1 mo, ng, d⟩ r = true)
    (b : Branch) (hnode : Node.sent s d (some w0) ∈ b.nodes) (var : Nat × Nat) (wo : Option Nat)
    (hwit : match r.witness with
      | .none => wo = none
      | .newWorld => ∃ w', wo = some w' ∧ w' ∉ b.worlds
      | .eachWorld => ∃ w', wo = some w' ∧ Node.access w0 w' ∈ b.nodes
      | _ => True)
    {gs : List (List Node)} (hgs : mapOpt (instAdds (.op1 mo A) A none none var (some w0) wo) r.branches = some gs)
    (e : Env M.D) (σ : Nat → M.W) (hsb : SatB L M e σ b) :
    ∃ σ' : Nat → M.W, SatB L M e σ' b ∧ ∃ g ∈ gs, ∀ n ∈ g, satNode L M e σ' n := by
  have hn := hsb _ hnode
  simp only [satNode, Option.getD_some] at hn
  rw [eval_decomp hd, eval_modal hm e _ mo hmo A] at hn
  generalize hP : profile L.T (fun w' => M.R (σ w0) w') (fun w' => eval L M e w' A) = P at hn
  have hPm : P ∈ L.mProfiles := hP ▸ mProfiles_mem hM hT e (σ w0) A
  have hns : L.nodeSatM mo ⟨.op1 mo, ng, d⟩ P = true := by simpa [LogicData.nodeSatM] using hn
  simp only [LogicData.ruleSoundB, hmo, ↓reduceIte, List.all_eq_true, Bool.or_eq_true, Bool.not_eq_true'] at hr
  have hr := hr P hPm
  rcases hr with hr | hr
  · rw [hr] at hns; cases hns
  cases hw : r.witness with
  | none =>
    simp only [hw] at hwit hr
    subst hwit
    obtain ⟨br, hbr, hsat⟩ := List.any_eq_true.1 hr
    simp only [Bool.and_eq_true, Bool.not_eq_true'] at hsat
    obtain ⟨g, hg, hig⟩ := mapOpt_mem_fwd hgs br hbr
    refine ⟨σ, hsb, g, hg, ?_⟩
    exact mBranch_nodes_sat hT hM hm _ mo hmo A var e σ w0 none br g (hP ▸ hsat.2) (by intro w' h; cases h) hig
  | newWorld =>
    simp only [hw] at hwit hr
    obtain ⟨w', rfl, hfresh⟩ := hwit
    obtain ⟨br, hbr, hsat⟩ := List.any_eq_true.1 hr
    simp only [Bool.and_eq_true, Bool.or_eq_true, Bool.not_eq_true'] at hsat
    obtain ⟨hsame, hoth⟩ := hsat
    obtain ⟨g, hg, hig⟩ := mapOpt_mem_fwd hgs br hbr
    have hw0 : w0 ≠ w' := by
      rintro rfl
      exact hfresh (List.mem_flatMap.2 ⟨_, hnode, by simp [Node.worldsSem]⟩)
    rcases hoth with hoth | hoth
    · refine ⟨σ, hsb, g, hg, ?_⟩
      exact mBranch_nodes_sat hT hM hm _ mo hmo A var e σ w0 (some w') br g (hP ▸ hsame)
        (by intro w'' _ h; rw [hoth] at h; cases h) hig
    · obtain ⟨v, hvP, hvo⟩ := List.any_eq_true.1 hoth
      rw [← hP] at hvP
      obtain ⟨_, x, hRx, hxv⟩ := mem_profile.1 hvP
      refine ⟨fun y => if y = w' then x else σ y, satB_update_fresh e σ b w' x hfresh hsb, g, hg, ?_⟩
      refine mBranch_nodes_sat hT hM hm ⟨.op1 mo, ng, d⟩ mo hmo A var e _ w0 (some w') br g ?_ ?_ hig
      · simp only [hw0, ↓reduceIte]; rw [hP]; exact hsame
      · intro w'' h _
        simp at h; subst h
        simp only [hw0, ↓reduceIte, hxv]
        exact ⟨hRx, hvo⟩
  | eachWorld =>
    simp only [hw] at hwit hr
    obtain ⟨w', rfl, hacc⟩ := hwit
    have hR : M.R (σ w0) (σ w') := hsb _ hacc
    split at hr
    · next br hbr' =>
      simp only [Bool.and_eq_true, List.all_eq_true] at hr
      have hbr : br ∈ r.branches := by rw [hbr']; simp
      obtain ⟨g, hg, hig⟩ := mapOpt_mem_fwd hgs br hbr
      refine ⟨σ, hsb, g, hg, ?_⟩
      have hvP : eval L M e (σ w') A ∈ P :=
        hP ▸ mem_profile.2 ⟨eval_mem_vals L hT M hM A e _, σ w', hR, rfl⟩
      refine mBranch_nodes_sat hT hM hm ⟨.op1 mo, ng, d⟩ mo hmo A var e σ w0 (some w') br g ?_ ?_ hig
      · -- all nodes are other-world, so the same-world condition is trivial
        simp only [LogicData.mBranchSame, List.all_eq_true]
        intro ad had
        have := (List.all_eq_true.1 hr.1) ad had
        cases ad with
        | access => rfl
        | node nt => simp at this; simp [this]
      · intro w'' h _
        simp at h; subst h
        exact ⟨hR, hr.2 _ hvP⟩
    · cases hr
  | newConst => simp [hw] at hr
  | eachConst => simp [hw] at hr

/-! ### closure -/

theorem mem_litSet {b : Branch} {s : Sent} {w : Option Nat} {l : Lit} (h : l ∈ b.litSet L s w) :
    Node.sent (if l.negated then s.neg else s) l.des w ∈ b.nodes := by
  simp only [Branch.litSet, List.mem_filter, Branch.hasNode, List.contains_iff_mem] at h
  exact h.2

/-- a branch whose literal set on some sentence closes (by a sound closure row) is not satisfied -/
theorem closing_unsat (hT : L.tablesTotalB = true) (hM : M.Interp L) (hc : L.unsoundClosure = [])
    {b : Branch} {s : Sent} {w : Option Nat}
    (hclose : L.closure.lookup (b.litSet L s w) = some true)
    (e : Env M.D) (σ : Nat → M.W) : ¬ SatB L M e σ b := by
  intro hs
  have hmem := lookup_mem hclose
  have hsat : L.litsSatisfiable (b.litSet L s w) = true := by
    simp only [LogicData.litsSatisfiable, List.any_eq_true]
    refine ⟨eval L M e (σ (w.getD 0)) s, eval_mem_vals L hT M hM s e _, ?_⟩
    simp only [LogicData.litsSatBy, List.all_eq_true]
    intro l hl
    have := hs _ (mem_litSet hl)
    simp only [satNode] at this
    cases hn : l.negated <;> simp [hn, LogicData.litVal] at this ⊢
    · exact this
    · rw [eval_neg] at this; exact this
  have : b.litSet L s w ∈ L.unsoundClosure := by
    unfold LogicData.unsoundClosure
    exact List.mem_map.2 ⟨(_, true), List.mem_filter.2 ⟨hmem, by simp [hsat]⟩, rfl⟩
  rw [hc] at this; cases this

/-- replacing a branch that is not the satisfied one keeps `SatT` -/
theorem satT_set_other {t : Tableau} {bi : Nat} {b b0 : Branch} (hb : t[bi]? = some b)
    (hun : ∀ (e : Env M.D) (σ : Nat → M.W), ¬ SatB L M e σ b) (h : SatT L M t) : SatT L M (t.set bi b0) := by
  obtain ⟨e, σ, b', hb', hc', hs'⟩ := h
  have hne : b' ≠ b := by rintro rfl; exact hun e σ hs'
  have := mem_fork_other (b0 := b0) (extra := []) hb hb' hne
  exact ⟨e, σ, b', by simpa [Tableau.fork] using this, hc', hs'⟩

/-! ### frame rules -/

theorem frame_of_rule (hf : L.frameRulesOKB = true) {r : FrameRule} (ha : L.frameAllowed r = true) :
    match r with
    | .reflexive => L.frame = .T ∨ L.frame = .S4 ∨ L.frame = .S5
    | .transitive => L.frame = .S4 ∨ L.frame = .S5
    | .symmetric => L.frame = .S5
    | .serial => L.frame = .D ∨ L.frame = .T ∨ L.frame = .S4 ∨ L.frame = .S5 := by
  simp only [LogicData.frameAllowed, List.contains_iff_mem] at ha
  simp only [LogicData.frameRulesOKB, List.all_eq_true] at hf
  have := hf _ ha
  cases r <;> cases hk : L.frame <;> simp [hk, FrameRule.name] at this ⊢

theorem mem_worlds_of_access {b : Branch} {a c : Nat} (h : Node.access a c ∈ b.nodes) :
    a ∈ b.worlds ∧ c ∈ b.worlds := by
  constructor <;> exact List.mem_flatMap.2 ⟨_, h, by simp [Node.worldsSem]⟩

theorem frame_step_sound (hM : M.Interp L) (hf : L.frameRulesOKB = true) {t : Tableau} {bi : Nat} {b : Branch}
    (hb : t[bi]? = some b) (hbc : b.closed = false) {r : FrameRule} (ha : L.frameAllowed r = true)
    (w1 w2 w3 : Nat) (h : SatT L M t) :
    (match r with
     | .reflexive => w1 ∈ b.worlds → SatT L M (t.set bi (b.extend [.access w1 w1] none))
     | .transitive => Node.access w1 w2 ∈ b.nodes → Node.access w2 w3 ∈ b.nodes →
          SatT L M (t.set bi (b.extend [.access w1 w3] none))
     | .symmetric => Node.access w1 w2 ∈ b.nodes → SatT L M (t.set bi (b.extend [.access w2 w1] none))
     | .serial => w1 ∈ b.worlds → w2 ∉ b.worlds → SatT L M (t.set bi (b.extend [.access w1 w2] none))) := by
  have hfr := frame_of_rule hf ha
  have hF := hM.frame
  cases r with
  | reflexive =>
    intro _
    refine satT_set hb hbc (by simp [Node.isClosure]) ?_ h
    intro e σ hs
    refine ⟨e, σ, hs, ?_⟩
    simp only [List.mem_singleton, forall_eq, satNode]
    simp only at hfr
    rcases hfr with hk | hk | hk <;> simp [hk, Struct.FrameOK] at hF
    · exact hF _
    · exact hF.1 _
    · exact hF.1 _
  | transitive =>
    intro h12 h23
    refine satT_set hb hbc (by simp [Node.isClosure]) ?_ h
    intro e σ hs
    refine ⟨e, σ, hs, ?_⟩
    simp only [List.mem_singleton, forall_eq, satNode]
    have r12 : M.R (σ w1) (σ w2) := hs _ h12
    have r23 : M.R (σ w2) (σ w3) := hs _ h23
    simp only at hfr
    rcases hfr with hk | hk <;> simp [hk, Struct.FrameOK] at hF
    · exact hF.2 _ _ _ r12 r23
    · exact hF.2.1 _ _ _ r12 r23
  | symmetric =>
    intro h12
    refine satT_set hb hbc (by simp [Node.isClosure]) ?_ h
    intro e σ hs
    refine ⟨e, σ, hs, ?_⟩
    simp only [List.mem_singleton, forall_eq, satNode]
    have r12 : M.R (σ w1) (σ w2) := hs _ h12
    simp only at hfr
    simp [hfr, Struct.FrameOK] at hF
    exact hF.2.2 _ _ r12
  | serial =>
    intro h1 h2
    refine satT_set hb hbc (by simp [Node.isClosure]) ?_ h
    intro e σ hs
    have hsucc : ∃ x, M.R (σ w1) x := by
      simp only at hfr
      rcases hfr with hk | hk | hk | hk <;> simp [hk, Struct.FrameOK] at hF
      · exact hF _
      · exact ⟨_, hF _⟩
      · exact ⟨_, hF.1 _⟩
      · exact ⟨_, hF.1 _⟩
    obtain ⟨x, hx⟩ := hsucc
    refine ⟨e, fun y => if y = w2 then x else σ y, satB_update_fresh e σ b w2 x h2 hs, ?_⟩
    have hne : w1 ≠ w2 := by rintro rfl; exact h2 h1
    simp only [List.mem_singleton, forall_eq, satNode, hne, ↓reduceIte]
    exact hx

/-! ### identity / existence (classical family) -/

theorem identOK_facts (hi : L.identOKB = true) (hc : L.closesSelfIdNeg = true ∨ L.closesNonExist = true) :
    (∀ v ∈ L.T.vals, L.T.isDes v = true → v = .T) ∧ L.T.isDes (L.T.f1 .neg .T) = false := by
  simp only [LogicData.identOKB, Bool.or_eq_true, Bool.not_eq_true', Bool.and_eq_true, List.all_eq_true,
    beq_iff_eq] at hi
  rcases hi with hi | hi
  · rcases hc with hc | hc <;> simp [hc] at hi
  · refine ⟨?_, hi.1.1.2⟩
    intro v hv hd
    have := hi.1.1.1 v hv
    simpa [hd] using this

theorem satV_not_false {d : Option Bool} (hd : d ≠ some false) (v : V) : L.satV d v = L.T.isDes v := by
  cases d with
  | none => rfl
  | some b => cases b <;> simp [LogicData.satV] at hd ⊢

/-- `¬ a = a` is never satisfied in a classical structure -/
theorem selfId_unsat (hM : M.Interp L) (hi : L.identOKB = true) (hc : L.closesSelfIdNeg = true)
    {b : Branch} {x : Param} {d : Option Bool} {w : Option Nat} (hd : d ≠ some false)
    (hmem : Node.sent (.op1 .neg (.pred Pred.identity [x, x])) d w ∈ b.nodes)
    (e : Env M.D) (σ : Nat → M.W) : ¬ SatB L M e σ b := by
  intro hs
  have hsat := hs _ hmem
  have hcl := hM.classical (Or.inl hc)
  obtain ⟨_, hneg⟩ := identOK_facts hi (Or.inl hc)
  simp only [satNode] at hsat
  rw [satV_not_false hd] at hsat
  have : eval L M e (σ (w.getD 0)) (.op1 .neg (.pred Pred.identity [x, x])) = L.T.f1 .neg .T := by
    simp [eval, Op1.isModal, (hcl.1 _ _ _).2 rfl]
  rw [this, hneg] at hsat; cases hsat

/-- `¬ E!a` is never satisfied in a classical structure -/
theorem nonExist_unsat (hM : M.Interp L) (hi : L.identOKB = true) (hc : L.closesNonExist = true)
    {b : Branch} {x : Param} {d : Option Bool} {w : Option Nat} (hd : d ≠ some false)
    (hmem : Node.sent (.op1 .neg (.pred Pred.existence [x])) d w ∈ b.nodes)
    (e : Env M.D) (σ : Nat → M.W) : ¬ SatB L M e σ b := by
  intro hs
  have hsat := hs _ hmem
  have hcl := hM.classical (Or.inr hc)
  obtain ⟨_, hneg⟩ := identOK_facts hi (Or.inr hc)
  simp only [satNode] at hsat
  rw [satV_not_false hd] at hsat
  have : eval L M e (σ (w.getD 0)) (.op1 .neg (.pred Pred.existence [x])) = L.T.f1 .neg .T := by
    simp [eval, Op1.isModal, hcl.2]
  rw [this, hneg] at hsat; cases hsat

/-- identity indiscernability: substituting one side of a true identity for the other in a
    predication at the same world keeps its value -/
theorem ident_subst_sat (hT : L.tablesTotalB = true) (hM : M.Interp L) (hi : L.identOKB = true)
    (hc : L.closesSelfIdNeg = true)
    {pa pb : Param} {w : Option Nat} {pr : Pred} {ps : List Param}
    (e : Env M.D) (σ : Nat → M.W)
    (hid : satNode L M e σ (.sent (.pred Pred.identity [pa, pb]) none w))
    (hp : satNode L M e σ (.sent (.pred pr ps) none w)) :
    satNode L M e σ (.sent (.pred pr (ps.map (Param.psubst pb pa))) none w) ∧
    satNode L M e σ (.sent (.pred pr (ps.map (Param.psubst pa pb))) none w) := by
  have hcl := hM.classical (Or.inl hc)
  obtain ⟨hdes, _⟩ := identOK_facts hi (Or.inl hc)
  simp only [satNode, LogicData.satV] at hid hp ⊢
  have hv := eval_mem_vals L hT M hM (.pred Pred.identity [pa, pb]) e (σ (w.getD 0))
  have hT' := hdes _ hv hid
  simp only [eval, List.map_cons, List.map_nil] at hT'
  have heq : e.den pa = e.den pb := (hcl.1 _ _ _).1 hT'
  have h1 : (ps.map (Param.psubst pb pa)).map e.den = ps.map e.den := by
    rw [List.map_map]; apply List.map_congr_left; intro p _
    simp only [Function.comp, Param.psubst]; split
    · next h => subst h; exact heq.symm
    · rfl
  have h2 : (ps.map (Param.psubst pa pb)).map e.den = ps.map e.den := by
    rw [List.map_map]; apply List.map_congr_left; intro p _
    simp only [Function.comp, Param.psubst]; split
    · next h => subst h; exact heq
    · rfl
  simp only [eval] at hp ⊢
  rw [h1, h2]; exact ⟨hp, hp⟩

end Ptx
