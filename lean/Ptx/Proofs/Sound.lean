/-
  Ptx.Proofs.Sound — soundness of every legal step: if some open branch of the tableau is
  satisfied by a structure, the same holds after the step.  No assumption on which step is
  taken: the statement is about `applyStep`, i.e. about every legal rule instance.
-/
import Ptx.Proofs.Lift
namespace Ptx
variable {L : LogicData} {M : Struct}

def SatB (L : LogicData) (M : Struct) (e : Env M.D) (σ : Nat → M.W) (b : Branch) : Prop :=
  ∀ n ∈ b.nodes, satNode L M e σ n

/-- some open branch is satisfied -/
def SatT (L : LogicData) (M : Struct) (t : Tableau) : Prop :=
  ∃ (e : Env M.D) (σ : Nat → M.W), ∃ b ∈ t, b.closed = false ∧ SatB L M e σ b

theorem satOpt_some {d : Option Bool} {o : Option V} (h : L.satOpt d o = true) :
    ∃ v, o = some v ∧ L.satV d v = true := by
  cases o with
  | none => simp [LogicData.satOpt] at h
  | some v => exact ⟨v, rfl, by simpa [LogicData.satOpt] using h⟩

/-- a satisfied operator-rule template branch, instantiated, gives satisfied nodes -/
theorem opBranch_sat (k : RuleKey) (whole A : Sent) (raw : Option Sent) (var : Nat × Nat)
    (e : Env M.D) (σ : Nat → M.W) (w : Option Nat) (b : V)
    (hwhole : ∀ v, Tm.wholeOp L.T k.shape (eval L M e (σ (w.getD 0)) A) b = some v →
        eval L M e (σ (w.getD 0)) whole = v)
    (hB : ∀ B', whole.rhs? = some B' → k.shape.isOp2 = true →
        eval L M e (σ (w.getD 0)) B' = b)
    (br : List AddT) (g : List Node)
    (hbr : L.opBranchSat k (eval L M e (σ (w.getD 0)) A) b br = true)
    (hi : instAdds whole A whole.rhs? raw var w none br = some g) :
    ∀ n ∈ g, satNode L M e σ n := by
  intro n hn
  obtain ⟨ad, had, hf⟩ := mapOpt_mem_bwd hi n hn
  simp only [LogicData.opBranchSat, List.all_eq_true] at hbr
  have h1 := hbr ad had
  cases ad with
  | access => simp at h1
  | node nt =>
    simp only [Bool.and_eq_true, Bool.not_eq_true'] at h1
    obtain ⟨hoth, hsat⟩ := h1
    obtain ⟨v, hv, hsv⟩ := satOpt_some hsat
    simp only at hf
    split at hf
    · cases hf
    · next s' hs' =>
      simp [hoth] at hf
      subst hf
      have := evalOp_inst (L := L) (M := M) k.shape whole A whole.rhs? raw var e (σ (w.getD 0)) b hwhole hB
        nt.tm s' v hs' hv
      simp [satNode, this, hsv]

/-! ### list / tableau bookkeeping -/

theorem lookup_mem {α β} [BEq α] [LawfulBEq α] : ∀ {l : List (α × β)} {k : α} {v : β},
    l.lookup k = some v → (k, v) ∈ l
  | [], k, v, h => by simp [List.lookup] at h
  | (a, b) :: l, k, v, h => by
      simp only [List.lookup] at h
      split at h
      · next heq => simp at h; subst h; have := eq_of_beq heq; subst this; exact List.mem_cons_self
      · exact List.mem_cons_of_mem _ (lookup_mem h)

theorem closed_extend {b : Branch} {g : List Node} {tick : Option Nat} (hb : b.closed = false)
    (hg : ∀ n ∈ g, n.isClosure = false) : (b.extend g tick).closed = false := by
  unfold Branch.closed Branch.extend at *
  simp only
  rw [List.getLast?_append]
  cases hl : g.getLast? with
  | none => simpa using hb
  | some n => simp; exact hg n (List.mem_of_getLast? hl)

theorem mem_fork_self {t : Tableau} {bi : Nat} {b b0 : Branch} {extra : List Branch}
    (h : t[bi]? = some b) : b0 ∈ t.fork bi b0 extra := by
  unfold Tableau.fork
  apply List.mem_append_left
  have hlt : bi < t.length := by
    rcases Nat.lt_or_ge bi t.length with h' | h'
    · exact h'
    · rw [List.getElem?_eq_none h'] at h; cases h
  exact List.mem_iff_getElem.2 ⟨bi, by simpa using hlt, by simp⟩

theorem mem_fork_other {t : Tableau} {bi : Nat} {b b' b0 : Branch} {extra : List Branch}
    (hb : t[bi]? = some b) (hm : b' ∈ t) (hne : b' ≠ b) : b' ∈ t.fork bi b0 extra := by
  unfold Tableau.fork
  apply List.mem_append_left
  obtain ⟨j, hj, rfl⟩ := List.mem_iff_getElem.1 hm
  have hji : j ≠ bi := by
    intro h; subst h
    rw [List.getElem?_eq_getElem hj] at hb
    exact hne (by simpa using hb)
  exact List.mem_iff_getElem.2 ⟨j, by simpa using hj, by simp [List.getElem_set, Ne.symm hji]⟩

/-- the generic way a step preserves `SatT`: the satisfied branch is either untouched, or it is
    the target and one of the produced extensions is satisfied (possibly under a new
    interpretation of fresh items) -/
theorem satT_fork {t : Tableau} {bi : Nat} {b : Branch} {g0 : List Node} {rest : List (List Node)}
    {tick : Option Nat} (hb : t[bi]? = some b) (hbc : b.closed = false)
    (hgs : ∀ g ∈ g0 :: rest, ∀ n ∈ g, n.isClosure = false)
    (hsat : ∀ (e : Env M.D) (σ : Nat → M.W), SatB L M e σ b →
        ∃ (e' : Env M.D) (σ' : Nat → M.W), SatB L M e' σ' b ∧ ∃ g ∈ g0 :: rest, ∀ n ∈ g, satNode L M e' σ' n)
    (h : SatT L M t) :
    SatT L M (t.fork bi (b.extend g0 tick) (rest.map fun g => { (b.extend g tick) with parent := some bi })) := by
  obtain ⟨e, σ, b', hb', hc', hs'⟩ := h
  by_cases hne : b' = b
  · subst hne
    obtain ⟨e', σ', hsb, g, hg, hgn⟩ := hsat e σ hs'
    refine ⟨e', σ', ?_⟩
    have hsat' : ∀ tk, SatB L M e' σ' (b'.extend g tk) := by
      intro tk n hn
      simp only [Branch.extend, List.mem_append] at hn
      rcases hn with hn | hn
      · exact hsb n hn
      · exact hgn n hn
    rcases List.mem_cons.1 hg with rfl | hg
    · exact ⟨_, mem_fork_self hb, closed_extend hbc (hgs _ List.mem_cons_self), hsat' _⟩
    · refine ⟨{ (b'.extend g tick) with parent := some bi }, ?_, ?_, ?_⟩
      · unfold Tableau.fork
        apply List.mem_append_right
        exact List.mem_map.2 ⟨g, hg, rfl⟩
      · have := closed_extend (tick := tick) hbc (hgs g (List.mem_cons_of_mem _ hg))
        simpa [Branch.closed, Branch.extend] using this
      · intro n hn; exact hsat' tick n (by simpa [Branch.extend] using hn)
  · exact ⟨e, σ, b', mem_fork_other hb hb' hne, hc', hs'⟩

/-- single-branch version (`t.set`) -/
theorem satT_set {t : Tableau} {bi : Nat} {b : Branch} {g : List Node}
    (hb : t[bi]? = some b) (hbc : b.closed = false)
    (hg : ∀ n ∈ g, n.isClosure = false)
    (hsat : ∀ (e : Env M.D) (σ : Nat → M.W), SatB L M e σ b →
        ∃ (e' : Env M.D) (σ' : Nat → M.W), SatB L M e' σ' b ∧ ∀ n ∈ g, satNode L M e' σ' n)
    (h : SatT L M t) : SatT L M (t.set bi (b.extend g none)) := by
  have := satT_fork (L := L) (M := M) (rest := []) (tick := none) hb hbc (g0 := g)
    (by intro g' hg'; simp at hg'; subst hg'; exact hg)
    (by intro e σ hs; obtain ⟨e', σ', h1, h2⟩ := hsat e σ hs; exact ⟨e', σ', h1, g, by simp, h2⟩) h
  simpa [Tableau.fork] using this

/-! ### operator rules -/

theorem ruleSound_of_nil (h : L.unsoundRules = []) {k : RuleKey} {r : Rule} (hr : L.rule? k = some r) :
    L.ruleSoundB k r = true := by
  have hm := lookup_mem (show L.rules.lookup k = some r from hr)
  unfold LogicData.unsoundRules at h
  have : (k, r) ∉ L.rules.filter (fun (k, r) => !L.ruleSoundB k r) := by
    intro hc
    have : k ∈ (L.rules.filter (fun (k, r) => !L.ruleSoundB k r)).map (·.1) := List.mem_map.2 ⟨_, hc, rfl⟩
    rw [h] at this; cases this
  simp [List.mem_filter, hm] at this
  exact this

/-- operator rules (non-modal unary, binary): a satisfied target node has a satisfied extension -/
theorem op_rule_sound (hT : L.tablesTotalB = true) (hM : M.Interp L)
    {s : Sent} {d : Option Bool} {w : Option Nat} {sh : Shape} {ng : Bool} {whole : Sent} {r : Rule}
    (hd : s.decomp = some (sh, ng, whole))
    (hsh : sh.isTF = true)
    (hr : L.ruleSoundB ⟨sh, ng, d⟩ r = true)
    {A : Sent} (hA : whole.lhs? = some A) (raw : Option Sent) (var : Nat × Nat)
    {gs : List (List Node)} (hgs : mapOpt (instAdds whole A whole.rhs? raw var w none) r.branches = some gs)
    (e : Env M.D) (σ : Nat → M.W) (hn : satNode L M e σ (.sent s d w)) :
    ∃ g ∈ gs, ∀ n ∈ g, satNode L M e σ n := by
  have hsp := decomp_shape hd
  simp only [satNode] at hn
  have ha := eval_mem_vals L hT M hM A e (σ (w.getD 0))
  cases sh with
  | quant q => simp [Shape.isTF] at hsh
  | op1 o =>
    simp [Shape.isTF] at hsh
    cases whole <;> simp [Shape.of] at hsp
    rename_i o' a'
    obtain rfl := hsp.symm
    simp [Sent.lhs?] at hA; subst hA
    simp only [LogicData.ruleSoundB, hsh, Bool.false_eq_true, ↓reduceIte, Bool.and_eq_true, List.all_eq_true,
      Bool.or_eq_true, Bool.not_eq_true', beq_iff_eq] at hr
    obtain ⟨_, hr⟩ := hr
    have hns : L.nodeSatOp ⟨.op1 o, ng, d⟩ (eval L M e (σ (w.getD 0)) a') (eval L M e (σ (w.getD 0)) a') = true := by
      rw [eval_decomp hd, eval_op1_nonmodal _ _ _ hsh] at hn
      simp [LogicData.nodeSatOp, Tm.wholeOp, hsh, LogicData.satOpt, hn]
    rcases hr _ ha with h | h
    · rw [h] at hns; cases hns
    · obtain ⟨br, hbr, hsat⟩ := List.any_eq_true.1 h
      obtain ⟨g, hg, hig⟩ := mapOpt_mem_fwd hgs br hbr
      refine ⟨g, hg, ?_⟩
      refine opBranch_sat (L := L) (M := M) ⟨.op1 o, ng, d⟩ (.op1 o a') a' raw var e σ w _ ?_ ?_ br g hsat hig
      · intro v hv
        simp [Tm.wholeOp, hsh] at hv
        rw [eval_op1_nonmodal _ _ _ hsh]; exact hv
      · intro B' hB' h2; simp [Shape.isOp2] at h2
  | op2 o =>
    cases whole <;> simp [Shape.of] at hsp
    rename_i o' a' b'
    obtain rfl := hsp.symm
    simp [Sent.lhs?] at hA; subst hA
    have hb := eval_mem_vals L hT M hM b' e (σ (w.getD 0))
    simp only [LogicData.ruleSoundB, Bool.and_eq_true, List.all_eq_true,
      Bool.or_eq_true, Bool.not_eq_true', beq_iff_eq] at hr
    obtain ⟨_, hr⟩ := hr
    have hns : L.nodeSatOp ⟨.op2 o, ng, d⟩ (eval L M e (σ (w.getD 0)) a') (eval L M e (σ (w.getD 0)) b') = true := by
      rw [eval_decomp hd] at hn
      simp [LogicData.nodeSatOp, Tm.wholeOp, LogicData.satOpt]
      simpa [eval] using hn
    rcases hr _ ha _ hb with h | h
    · rw [h] at hns; cases hns
    · obtain ⟨br, hbr, hsat⟩ := List.any_eq_true.1 h
      obtain ⟨g, hg, hig⟩ := mapOpt_mem_fwd hgs br hbr
      refine ⟨g, hg, ?_⟩
      refine opBranch_sat (L := L) (M := M) ⟨.op2 o, ng, d⟩ (.op2 o a' b') a' raw var e σ w _ ?_ ?_ br g hsat hig
      · intro v hv
        simp [Tm.wholeOp] at hv
        simp [eval]; exact hv
      · intro B' hB' _; simp [Sent.rhs?] at hB'; subst hB'; rfl

end Ptx
