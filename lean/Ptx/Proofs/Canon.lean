/-
  Ptx.Proofs.Canon — the canonical structure of an open branch: worlds are the world labels, the
  access relation is the set of access nodes on the branch (completed off the branch / at dead ends
  only as far as the frame class demands), the domain is the set of constant names, and every
  sentence letter / predication / uninterpreted sentence gets the value the logic's READ TABLE
  assigns to the literal constraints the branch puts on it (the unassigned value if there are none).
  This is the structure the library's model builder describes (C08 relates the two); here it is
  shown to be an interpretation of the logic whenever the branch is saturated.
-/
import Ptx.Proofs.Back
namespace Ptx
namespace Canon
variable (L : LogicData) (b : Branch)

def wopt (w : Nat) : Option Nat := if L.modal then some w else none

/-- the value read off the literal constraints on `s` at world `w` -/
def readVal (s : Sent) (w : Nat) : V :=
  match L.readTable.lookup (b.litSet L s (wopt L w)) with
  | some v => if L.T.vals.contains v then v else L.T.unassigned
  | none => L.T.unassigned

def R (w w' : Nat) : Prop :=
  b.hasAccess w w' = true ∨
  (match L.frame with
   | .T | .S4 | .S5 => w ∉ b.worlds ∧ w' = w
   | .D => b.successors w = [] ∧ w' = w
   | _ => False)

/-- classical identity on constant names -/
def identVal : List (Nat × Nat) → V
  | [x, y] => if x = y then .T else .F
  | _ => .F

/-- the domain is the set of all constant names, but every name that does not occur on the branch
    behaves exactly like one fixed name `c0` that does (if any does): predications look at `pi d` -/
def c0 : Nat × Nat := (b.constList.head?).getD (0, 0)
def pi (d : Nat × Nat) : Nat × Nat := if b.constList.contains d then d else c0 b

def predVal (w : Nat) (p : Pred) (ds : List (Nat × Nat)) : V :=
  if p = Pred.identity then identVal ds
  else if p = Pred.existence then .T
  else readVal L b (.pred p ((ds.map (pi b)).map fun d => Param.const d.1 d.2)) w

@[reducible] def struct : Struct where
  W := Nat
  D := Nat × Nat
  R := R L b
  dflt := (0, 0)
  atomV w i s := readVal L b (.atom i s) w
  predV := predVal L b
  opaqueV w s := readVal L b s w

def env : Env (Nat × Nat) := ⟨fun i s => (i, s), fun _ _ => (0, 0)⟩

variable {L b}

theorem readVal_mem (hu : L.T.unassigned ∈ L.T.vals) (s : Sent) (w : Nat) : readVal L b s w ∈ L.T.vals := by
  unfold readVal
  split
  · next v _ =>
    split
    · next h => simpa using h
    · exact hu
  · exact hu

theorem identVal_mem {T : Tables} (hT : V.T ∈ T.vals) (hF : V.F ∈ T.vals) (ds : List (Nat × Nat)) : identVal ds ∈ T.vals := by
  unfold identVal
  split
  · split <;> assumption
  · exact hF

theorem predVal_mem (hu : L.T.unassigned ∈ L.T.vals) (hT : V.T ∈ L.T.vals) (hF : V.F ∈ L.T.vals)
    (w : Nat) (p : Pred) (ds : List (Nat × Nat)) : predVal L b w p ds ∈ L.T.vals := by
  unfold predVal
  split
  · exact identVal_mem hT hF ds
  · split
    · exact hT
    · exact readVal_mem hu _ _

theorem mem_constList {d : Nat × Nat} : d ∈ b.constList ↔ d ∈ b.consts := by
  simp [Branch.constList, dedupPair, List.mem_eraseDups]

theorem pi_of_mem {d : Nat × Nat} (h : d ∈ b.consts) : pi b d = d := by
  unfold pi
  have : b.constList.contains d = true := by simpa using mem_constList.2 h
  rw [if_pos this]

theorem c0_mem (hne : b.constList ≠ []) : c0 b ∈ b.constList := by
  unfold c0
  cases h : b.constList with
  | nil => exact absurd h hne
  | cons x xs => simp

theorem pi_mem (hne : b.constList ≠ []) (d : Nat × Nat) : pi b d ∈ b.constList := by
  unfold pi
  split
  · next h => simpa using h
  · exact c0_mem hne

theorem pi_idem (d : Nat × Nat) : pi b (pi b d) = pi b d := by
  by_cases hne : b.constList = []
  · simp [pi, c0, hne]
  · exact pi_of_mem (mem_constList.1 (pi_mem hne d))

theorem predVal_identity (w : Nat) (a c : Nat × Nat) : predVal L b w Pred.identity [a, c] = V.T ↔ a = c := by
  simp only [predVal, ↓reduceIte, identVal]
  by_cases h : a = c <;> simp [h]

theorem mem_successors {w w' : Nat} : w' ∈ b.successors w ↔ b.hasAccess w w' = true := by
  unfold Branch.successors dedupNat Branch.hasAccess
  rw [List.mem_eraseDups, List.mem_filterMap]
  constructor
  · rintro ⟨n, hn, hf⟩
    cases n with
    | access a c =>
      simp only at hf
      split at hf
      · next hac =>
        simp at hf hac
        subst hf; subst hac
        simpa using hn
      · cases hf
    | _ => simp at hf
  · intro h
    refine ⟨.access w w', by simpa using h, by simp⟩

theorem mem_worlds_of_hasAccess {w w' : Nat} (h : b.hasAccess w w' = true) : w ∈ b.worlds ∧ w' ∈ b.worlds := by
  have : Node.access w w' ∈ b.nodes := by simpa [Branch.hasAccess] using h
  exact ⟨List.mem_flatMap.2 ⟨_, this, by simp [Node.worldsSem]⟩, List.mem_flatMap.2 ⟨_, this, by simp [Node.worldsSem]⟩⟩

/-- what frame saturation gives, rule by rule -/
theorem refl_of_sat (hs : L.frameMissing b = []) (hr : L.frameRules.contains "Reflexive" = true)
    {w : Nat} (hw : w ∈ b.worlds) : b.hasAccess w w = true := by
  unfold LogicData.frameMissing at hs
  simp only [hr, ↓reduceIte, List.append_eq_nil_iff, List.map_eq_nil_iff, List.filter_eq_nil_iff] at hs
  have := hs.1.1 w (by simpa [Branch.worldList, dedupNat, List.mem_eraseDups] using hw)
  simpa using this

theorem symm_of_sat (hs : L.frameMissing b = []) (hr : L.frameRules.contains "Symmetric" = true)
    {w w' : Nat} (h : b.hasAccess w w' = true) : b.hasAccess w' w = true := by
  unfold LogicData.frameMissing at hs
  simp only [hr, ↓reduceIte, List.append_eq_nil_iff] at hs
  have h2 := hs.1.2
  rw [List.filterMap_eq_nil_iff] at h2
  have hn : Node.access w w' ∈ b.nodes := by simpa [Branch.hasAccess] using h
  have := h2 _ hn
  simp only at this
  split at this
  · next hx => exact hx
  · cases this

theorem trans_of_sat (hs : L.frameMissing b = []) (hr : L.frameRules.contains "Transitive" = true)
    {a c d : Nat} (h1 : b.hasAccess a c = true) (h2 : b.hasAccess c d = true) : b.hasAccess a d = true := by
  unfold LogicData.frameMissing at hs
  simp only [hr, ↓reduceIte, List.append_eq_nil_iff] at hs
  have h3 := hs.2
  rw [List.flatMap_eq_nil_iff] at h3
  have hn : Node.access a c ∈ b.nodes := by simpa [Branch.hasAccess] using h1
  have := h3 _ hn
  simp only at this
  rw [List.filterMap_eq_nil_iff] at this
  have := this d (mem_successors.2 h2)
  split at this
  · next hx => exact hx
  · cases this

theorem frameOK (hfc : L.framesCompleteB = true) (hs : L.frameMissing b = []) :
    (struct L b).FrameOK L.frame := by
  unfold LogicData.framesCompleteB at hfc
  cases hk : L.frame with
  | none => trivial
  | K => trivial
  | D =>
    intro w
    show ∃ w', R L b w w'
    cases hsu : b.successors w with
    | nil => exact ⟨w, Or.inr (by simp [hk, hsu])⟩
    | cons x xs =>
      have : x ∈ b.successors w := by rw [hsu]; simp
      exact ⟨x, Or.inl (mem_successors.1 this)⟩
  | T =>
    simp only [hk] at hfc
    intro w
    show R L b w w
    by_cases hw : w ∈ b.worlds
    · exact Or.inl (refl_of_sat hs hfc hw)
    · exact Or.inr (by simp [hk, hw])
  | S4 =>
    simp only [hk, Bool.and_eq_true] at hfc
    refine ⟨?_, ?_⟩
    · intro w
      show R L b w w
      by_cases hw : w ∈ b.worlds
      · exact Or.inl (refl_of_sat hs hfc.1 hw)
      · exact Or.inr (by simp [hk, hw])
    · intro a c d h1 h2
      show R L b a d
      rcases h1 with h1 | h1
      · rcases h2 with h2 | h2
        · exact Or.inl (trans_of_sat hs hfc.2 h1 h2)
        · simp only [hk] at h2
          obtain ⟨_, rfl⟩ := h2
          exact Or.inl h1
      · simp only [hk] at h1
        obtain ⟨_, rfl⟩ := h1
        exact h2
  | S5 =>
    simp only [hk, Bool.and_eq_true] at hfc
    refine ⟨?_, ?_, ?_⟩
    · intro w
      show R L b w w
      by_cases hw : w ∈ b.worlds
      · exact Or.inl (refl_of_sat hs hfc.1.1 hw)
      · exact Or.inr (by simp [hk, hw])
    · intro a c d h1 h2
      show R L b a d
      rcases h1 with h1 | h1
      · rcases h2 with h2 | h2
        · exact Or.inl (trans_of_sat hs hfc.1.2 h1 h2)
        · simp only [hk] at h2
          obtain ⟨_, rfl⟩ := h2
          exact Or.inl h1
      · simp only [hk] at h1
        obtain ⟨_, rfl⟩ := h1
        exact h2
    · intro a c h1
      show R L b c a
      rcases h1 with h1 | h1
      · exact Or.inl (symm_of_sat hs hfc.2 h1)
      · simp only [hk] at h1
        obtain ⟨h, rfl⟩ := h1
        exact Or.inr (by simp [hk, h])

/-- the canonical structure of a frame-saturated branch is an interpretation of the logic -/
theorem interp (hu : L.T.unassigned ∈ L.T.vals) (hT : V.T ∈ L.T.vals) (hF : V.F ∈ L.T.vals)
    (hfc : L.framesCompleteB = true) (hs : L.frameMissing b = []) : (struct L b).Interp L := by
  refine ⟨⟨fun w i s => readVal_mem hu _ _, ?_, fun w s => readVal_mem hu _ _⟩, frameOK hfc hs, ?_⟩
  · intro w p ds
    exact predVal_mem hu hT hF w p ds
  · intro _
    refine ⟨fun w a c => ?_, fun w a => ?_⟩
    · exact predVal_identity (L := L) (b := b) w a c
    · show predVal L b w Pred.existence [a] = V.T
      simp [predVal, Pred.existence, Pred.identity]

/-! ### names off the branch behave like `c0`: evaluation only sees `pi` of the denotations -/

def normEnv (b : Branch) (e : Env (Nat × Nat)) : Env (Nat × Nat) :=
  ⟨fun i s => pi b (e.c i s), fun i s => pi b (e.g i s)⟩

theorem den_norm (e : Env (Nat × Nat)) (p : Param) : (normEnv b e).den p = pi b (e.den p) := by
  cases p <;> rfl

theorem normEnv_updVar (e : Env (Nat × Nat)) (vi vs : Nat) (d : Nat × Nat) :
    normEnv b (e.updVar vi vs d) = (normEnv b e).updVar vi vs (pi b d) := by
  unfold normEnv Env.updVar
  simp only
  congr 1
  funext i s
  split <;> rfl

theorem normEnv_idem (e : Env (Nat × Nat)) : normEnv b (normEnv b e) = normEnv b e := by
  unfold normEnv
  simp only [pi_idem]

theorem fo_noSys {s : Sent} : ∀ {bound : List (Nat × Nat)}, s.fo L bound = true → s.noSys L = true := by
  induction s with
  | atom i j => intro _ _; rfl
  | pred p ps =>
    intro bound h
    simp only [Sent.fo, Bool.and_eq_true] at h
    simp only [Sent.noSys, Bool.and_eq_true]
    exact h.1
  | quant q vi vs body ih =>
    intro bound h
    simp only [Sent.fo, Bool.or_eq_true, Bool.not_eq_true', Bool.and_eq_true] at h
    simp only [Sent.noSys, Bool.or_eq_true, Bool.not_eq_true']
    rcases h with h | h
    · exact Or.inl h
    · exact Or.inr (ih h.2)
  | op1 o a ih =>
    intro bound h
    simp only [Sent.fo, Bool.or_eq_true] at h
    simp only [Sent.noSys, Bool.or_eq_true]
    rcases h with h | h
    · exact Or.inl h
    · exact Or.inr (ih h)
  | op2 o a c iha ihc =>
    intro bound h
    simp only [Sent.fo, Bool.and_eq_true] at h
    simp only [Sent.noSys, Bool.and_eq_true]
    exact ⟨iha h.1, ihc h.2⟩

/-- evaluation in the canonical structure does not distinguish a denotation from its `pi` -/
theorem eval_norm : ∀ (s : Sent), s.noSys L = true → ∀ (e : Env (Nat × Nat)) (w : Nat),
    eval L (struct L b) e w s = eval L (struct L b) (normEnv b e) w s := by
  intro s
  induction s with
  | atom i j => intro _ e w; rfl
  | pred p ps =>
    intro h e w
    simp only [Sent.noSys, Bool.and_eq_true, bne_iff_ne, ne_eq] at h
    show predVal L b w p (ps.map e.den) = predVal L b w p (ps.map (normEnv b e).den)
    unfold predVal
    rw [if_neg h.1, if_neg h.2, if_neg h.1, if_neg h.2]
    congr 3
    rw [List.map_map, List.map_map]
    apply List.map_congr_left
    intro p' _
    simp only [Function.comp, den_norm, pi_idem]
  | quant q vi vs body ih =>
    intro h e w
    simp only [Sent.noSys, Bool.or_eq_true, Bool.not_eq_true'] at h
    simp only [eval]
    split
    · next hq =>
      have hb : body.noSys L = true := by
        rcases h with h | h
        · rw [hq] at h; cases h
        · exact h
      congr 2
      funext d
      rw [ih hb (e.updVar vi vs d) w, ih hb ((normEnv b e).updVar vi vs d) w, normEnv_updVar, normEnv_updVar, normEnv_idem]
    · rfl
  | op1 o a ih =>
    intro h e w
    simp only [Sent.noSys, Bool.or_eq_true, Bool.and_eq_true, Bool.not_eq_true'] at h
    simp only [eval]
    split
    · next hmo =>
      split
      · next hm =>
        have ha : a.noSys L = true := by
          rcases h with h | h
          · rw [hm] at h; exact absurd h.2 (by simp)
          · exact h
        congr 2
        funext w'
        exact ih ha e w'
      · rfl
    · next hmo =>
      have ha : a.noSys L = true := by
        rcases h with h | h
        · exact absurd h.1 hmo
        · exact h
      rw [ih ha e w]
  | op2 o a c iha ihc =>
    intro h e w
    simp only [Sent.noSys, Bool.and_eq_true] at h
    simp only [eval]
    rw [iha h.1 e w, ihc h.2 e w]

/-- a body cannot tell a domain element from its `pi` -/
theorem eval_updVar_pi {body : Sent} (h : body.noSys L = true) (e : Env (Nat × Nat)) (w : Nat) (vi vs : Nat)
    (d : Nat × Nat) :
    eval L (struct L b) (e.updVar vi vs d) w body = eval L (struct L b) (e.updVar vi vs (pi b d)) w body := by
  rw [eval_norm body h (e.updVar vi vs d) w, eval_norm body h (e.updVar vi vs (pi b d)) w,
    normEnv_updVar, normEnv_updVar, pi_idem]


end Canon
end Ptx
