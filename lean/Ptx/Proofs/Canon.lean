/-
  Ptx.Proofs.Canon — the canonical structure of an open branch: worlds are the world labels, the
  access relation is the set of access nodes on the branch (completed off the branch / at dead ends
  only as far as the frame class demands), the domain is the set of constant names, and every
  sentence letter / predication / uninterpreted sentence gets the value the logic's READ TABLE
  assigns to the literal constraints the branch puts on it (the unassigned value if there are none).
  This is the structure the library's model builder describes (C08 relates the two); here it is
  shown to be an interpretation of the logic whenever the branch is saturated.
-/
import Ptx.Proofs.Back
namespace Ptx
namespace Canon
variable (L : LogicData) (b : Branch)

def wopt (w : Nat) : Option Nat := if L.modal then some w else none

/-- the value read off the literal constraints on `s` at world `w` -/
def readVal (s : Sent) (w : Nat) : V :=
  match L.readTable.lookup (b.litSet L s (wopt L w)) with
  | some v => if L.T.vals.contains v then v else L.T.unassigned
  | none => L.T.unassigned

def R (w w' : Nat) : Prop :=
  b.hasAccess w w' = true ∨
  (match L.frame with
   | .T | .S4 | .S5 => w ∉ b.worlds ∧ w' = w
   | .D => b.successors w = [] ∧ w' = w
   | _ => False)

/-- classical identity on constant names -/
def identVal : List (Nat × Nat) → V
  | [x, y] => if x = y then .T else .F
  | _ => .F

def predVal (w : Nat) (p : Pred) (ds : List (Nat × Nat)) : V :=
  if p = Pred.identity then identVal ds
  else if p = Pred.existence then .T
  else readVal L b (.pred p (ds.map fun d => Param.const d.1 d.2)) w

@[reducible] def struct : Struct where
  W := Nat
  D := Nat × Nat
  R := R L b
  dflt := (0, 0)
  atomV w i s := readVal L b (.atom i s) w
  predV := predVal L b
  opaqueV w s := readVal L b s w

def env : Env (Nat × Nat) := ⟨fun i s => (i, s), fun _ _ => (0, 0)⟩

variable {L b}

theorem readVal_mem (hu : L.T.unassigned ∈ L.T.vals) (s : Sent) (w : Nat) : readVal L b s w ∈ L.T.vals := by
  unfold readVal
  split
  · next v _ =>
    split
    · next h => simpa using h
    · exact hu
  · exact hu

theorem identVal_mem {T : Tables} (hT : V.T ∈ T.vals) (hF : V.F ∈ T.vals) (ds : List (Nat × Nat)) : identVal ds ∈ T.vals := by
  unfold identVal
  split
  · split <;> assumption
  · exact hF

theorem predVal_mem (hu : L.T.unassigned ∈ L.T.vals) (hT : V.T ∈ L.T.vals) (hF : V.F ∈ L.T.vals)
    (w : Nat) (p : Pred) (ds : List (Nat × Nat)) : predVal L b w p ds ∈ L.T.vals := by
  unfold predVal
  split
  · exact identVal_mem hT hF ds
  · split
    · exact hT
    · exact readVal_mem hu _ _

theorem predVal_identity (w : Nat) (a c : Nat × Nat) : predVal L b w Pred.identity [a, c] = V.T ↔ a = c := by
  simp only [predVal, ↓reduceIte, identVal]
  by_cases h : a = c <;> simp [h]

theorem mem_successors {w w' : Nat} : w' ∈ b.successors w ↔ b.hasAccess w w' = true := by
  unfold Branch.successors dedupNat Branch.hasAccess
  rw [List.mem_eraseDups, List.mem_filterMap]
  constructor
  · rintro ⟨n, hn, hf⟩
    cases n with
    | access a c =>
      simp only at hf
      split at hf
      · next hac =>
        simp at hf hac
        subst hf; subst hac
        simpa using hn
      · cases hf
    | _ => simp at hf
  · intro h
    refine ⟨.access w w', by simpa using h, by simp⟩

theorem mem_worlds_of_hasAccess {w w' : Nat} (h : b.hasAccess w w' = true) : w ∈ b.worlds ∧ w' ∈ b.worlds := by
  have : Node.access w w' ∈ b.nodes := by simpa [Branch.hasAccess] using h
  exact ⟨List.mem_flatMap.2 ⟨_, this, by simp [Node.worldsSem]⟩, List.mem_flatMap.2 ⟨_, this, by simp [Node.worldsSem]⟩⟩

/-- what frame saturation gives, rule by rule -/
theorem refl_of_sat (hs : L.frameMissing b = []) (hr : L.frameRules.contains "Reflexive" = true)
    {w : Nat} (hw : w ∈ b.worlds) : b.hasAccess w w = true := by
  unfold LogicData.frameMissing at hs
  simp only [hr, ↓reduceIte, List.append_eq_nil_iff, List.map_eq_nil_iff, List.filter_eq_nil_iff] at hs
  have := hs.1.1 w (by simpa [Branch.worldList, dedupNat, List.mem_eraseDups] using hw)
  simpa using this

theorem symm_of_sat (hs : L.frameMissing b = []) (hr : L.frameRules.contains "Symmetric" = true)
    {w w' : Nat} (h : b.hasAccess w w' = true) : b.hasAccess w' w = true := by
  unfold LogicData.frameMissing at hs
  simp only [hr, ↓reduceIte, List.append_eq_nil_iff] at hs
  have h2 := hs.1.2
  rw [List.filterMap_eq_nil_iff] at h2
  have hn : Node.access w w' ∈ b.nodes := by simpa [Branch.hasAccess] using h
  have := h2 _ hn
  simp only at this
  split at this
  · next hx => exact hx
  · cases this

theorem trans_of_sat (hs : L.frameMissing b = []) (hr : L.frameRules.contains "Transitive" = true)
    {a c d : Nat} (h1 : b.hasAccess a c = true) (h2 : b.hasAccess c d = true) : b.hasAccess a d = true := by
  unfold LogicData.frameMissing at hs
  simp only [hr, ↓reduceIte, List.append_eq_nil_iff] at hs
  have h3 := hs.2
  rw [List.flatMap_eq_nil_iff] at h3
  have hn : Node.access a c ∈ b.nodes := by simpa [Branch.hasAccess] using h1
  have := h3 _ hn
  simp only at this
  rw [List.filterMap_eq_nil_iff] at this
  have := this d (mem_successors.2 h2)
  split at this
  · next hx => exact hx
  · cases this

theorem frameOK (hfc : L.framesCompleteB = true) (hs : L.frameMissing b = []) :
    (struct L b).FrameOK L.frame := by
  unfold LogicData.framesCompleteB at hfc
  cases hk : L.frame with
  | none => trivial
  | K => trivial
  | D =>
    intro w
    show ∃ w', R L b w w'
    cases hsu : b.successors w with
    | nil => exact ⟨w, Or.inr (by simp [hk, hsu])⟩
    | cons x xs =>
      have : x ∈ b.successors w := by rw [hsu]; simp
      exact ⟨x, Or.inl (mem_successors.1 this)⟩
  | T =>
    simp only [hk] at hfc
    intro w
    show R L b w w
    by_cases hw : w ∈ b.worlds
    · exact Or.inl (refl_of_sat hs hfc hw)
    · exact Or.inr (by simp [hk, hw])
  | S4 =>
    simp only [hk, Bool.and_eq_true] at hfc
    refine ⟨?_, ?_⟩
    · intro w
      show R L b w w
      by_cases hw : w ∈ b.worlds
      · exact Or.inl (refl_of_sat hs hfc.1 hw)
      · exact Or.inr (by simp [hk, hw])
    · intro a c d h1 h2
      show R L b a d
      rcases h1 with h1 | h1
      · rcases h2 with h2 | h2
        · exact Or.inl (trans_of_sat hs hfc.2 h1 h2)
        · simp only [hk] at h2
          obtain ⟨_, rfl⟩ := h2
          exact Or.inl h1
      · simp only [hk] at h1
        obtain ⟨_, rfl⟩ := h1
        exact h2
  | S5 =>
    simp only [hk, Bool.and_eq_true] at hfc
    refine ⟨?_, ?_, ?_⟩
    · intro w
      show R L b w w
      by_cases hw : w ∈ b.worlds
      · exact Or.inl (refl_of_sat hs hfc.1.1 hw)
      · exact Or.inr (by simp [hk, hw])
    · intro a c d h1 h2
      show R L b a d
      rcases h1 with h1 | h1
      · rcases h2 with h2 | h2
        · exact Or.inl (trans_of_sat hs hfc.1.2 h1 h2)
        · simp only [hk] at h2
          obtain ⟨_, rfl⟩ := h2
          exact Or.inl h1
      · simp only [hk] at h1
        obtain ⟨_, rfl⟩ := h1
        exact h2
    · intro a c h1
      show R L b c a
      rcases h1 with h1 | h1
      · exact Or.inl (symm_of_sat hs hfc.2 h1)
      · simp only [hk] at h1
        obtain ⟨h, rfl⟩ := h1
        exact Or.inr (by simp [hk, h])

/-- the canonical structure of a frame-saturated branch is an interpretation of the logic -/
theorem interp (hu : L.T.unassigned ∈ L.T.vals) (hT : V.T ∈ L.T.vals) (hF : V.F ∈ L.T.vals)
    (hfc : L.framesCompleteB = true) (hs : L.frameMissing b = []) : (struct L b).Interp L := by
  refine ⟨⟨fun w i s => readVal_mem hu _ _, ?_, fun w s => readVal_mem hu _ _⟩, frameOK hfc hs, ?_⟩
  · intro w p ds
    exact predVal_mem hu hT hF w p ds
  · intro _
    refine ⟨fun w a c => ?_, fun w a => ?_⟩
    · exact predVal_identity (L := L) (b := b) w a c
    · show predVal L b w Pred.existence [a] = V.T
      simp [predVal, Pred.existence, Pred.identity]

end Canon
end Ptx
