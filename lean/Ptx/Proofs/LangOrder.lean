/- helper lemmas for C14: the zero-padded comparison and the prefix-code property of sort keys
   (core Lean only) -/
import Ptx.Lang.Order
namespace Ptx

/-! ### cmpDiff: lexicographic order on zero-padded sequences -/

theorem cmpDiff_nil_right (a : List Int) : cmpDiff a [] = firstNZ a := by
  cases a <;> simp [cmpDiff]

theorem cmpDiff_nil_left (b : List Int) : cmpDiff [] b = - firstNZ b := by
  cases b <;> simp [cmpDiff, firstNZ]

/-- one step of the comparison, uniformly: an exhausted side reads as 0 -/
theorem cmpDiff_step (a b : List Int) :
    cmpDiff a b = if a.headD 0 ≠ b.headD 0 then a.headD 0 - b.headD 0 else cmpDiff a.tail b.tail := by
  cases a with
  | nil =>
    cases b with
    | nil => simp [cmpDiff, firstNZ]
    | cons y ys =>
      simp only [cmpDiff_nil_left, firstNZ, List.headD_nil, List.headD_cons, List.tail_nil, List.tail_cons]
      by_cases h : y = 0
      · simp [h]
      · have : (0:Int) ≠ y := fun e => h e.symm
        simp [h, this]
  | cons x xs =>
    cases b with
    | nil =>
      simp only [cmpDiff_nil_right, firstNZ, List.headD_nil, List.headD_cons, List.tail_nil, List.tail_cons]
      by_cases h : x = 0 <;> simp [h]
    | cons y ys => simp [cmpDiff]

theorem cmpDiff_self (a : List Int) : cmpDiff a a = 0 := by
  induction a with
  | nil => simp [cmpDiff, firstNZ]
  | cons x xs ih => simp [cmpDiff, ih]

theorem cmpDiff_swap (a : List Int) : ∀ b, cmpDiff b a = - cmpDiff a b := by
  induction a with
  | nil => intro b; simp [cmpDiff_nil_left, cmpDiff_nil_right]
  | cons x xs ih =>
    intro b
    cases b with
    | nil => simp [cmpDiff_nil_left, cmpDiff_nil_right]
    | cons y ys =>
      simp only [cmpDiff]
      by_cases h : x = y
      · subst h; simp [ih]
      · have : y ≠ x := fun e => h e.symm
        simp only [ne_eq, h, not_false_eq_true, ↓reduceIte, this]
        omega

/-- transitivity of `≤` with strictness tracking -/
theorem cmpDiff_trans_aux : ∀ (n : Nat) (a b c : List Int), a.length + b.length + c.length ≤ n →
    cmpDiff a b ≤ 0 → cmpDiff b c ≤ 0 →
    cmpDiff a c ≤ 0 ∧ ((cmpDiff a b < 0 ∨ cmpDiff b c < 0) → cmpDiff a c < 0) := by
  intro n
  induction n with
  | zero =>
    intro a b c hn
    have ha : a = [] := List.eq_nil_of_length_eq_zero (by omega)
    have hb : b = [] := List.eq_nil_of_length_eq_zero (by omega)
    have hc : c = [] := List.eq_nil_of_length_eq_zero (by omega)
    subst ha hb hc
    simp [cmpDiff, firstNZ]
  | succ n ih =>
    intro a b c hn
    by_cases hall : a = [] ∧ b = [] ∧ c = []
    · obtain ⟨ha, hb, hc⟩ := hall; subst ha hb hc; simp [cmpDiff, firstNZ]
    · have hlen : a.tail.length + b.tail.length + c.tail.length ≤ n := by
        simp only [List.length_tail]
        have : a.length ≠ 0 ∨ b.length ≠ 0 ∨ c.length ≠ 0 := by
          by_cases ha : a = []
          · by_cases hb : b = []
            · right; right
              intro hc
              exact hall ⟨ha, hb, List.eq_nil_of_length_eq_zero hc⟩
            · right; left; intro h; exact hb (List.eq_nil_of_length_eq_zero h)
          · left; intro h; exact ha (List.eq_nil_of_length_eq_zero h)
        omega
      have IH := ih a.tail b.tail c.tail hlen
      rw [cmpDiff_step a b, cmpDiff_step b c, cmpDiff_step a c]
      generalize a.headD 0 = x at *
      generalize b.headD 0 = y at *
      generalize c.headD 0 = z at *
      by_cases hxy : x = y
      · subst hxy
        by_cases hxz : x = z
        · subst hxz; simpa using IH
        · simp only [ne_eq, not_true_eq_false, ↓reduceIte, hxz, not_false_eq_true]
          intro _ h2
          constructor
          · omega
          · intro _; omega
      · by_cases hyz : y = z
        · subst hyz
          simp only [ne_eq, hxy, not_false_eq_true, ↓reduceIte, not_true_eq_false]
          intro h1 _
          constructor
          · omega
          · intro _; omega
        · simp only [ne_eq, hxy, not_false_eq_true, ↓reduceIte, hyz]
          intro h1 h2
          have hxz : x ≠ z := by omega
          simp only [hxz, not_false_eq_true, ↓reduceIte]
          constructor
          · omega
          · intro _; omega

theorem cmpDiff_trans {a b c : List Int} (h1 : cmpDiff a b ≤ 0) (h2 : cmpDiff b c ≤ 0) :
    cmpDiff a c ≤ 0 := (cmpDiff_trans_aux _ a b c (Nat.le_refl _) h1 h2).1

theorem cmpDiff_trans_lt {a b c : List Int} (h1 : cmpDiff a b ≤ 0) (h2 : cmpDiff b c ≤ 0)
    (h : cmpDiff a b < 0 ∨ cmpDiff b c < 0) : cmpDiff a c < 0 :=
  (cmpDiff_trans_aux _ a b c (Nat.le_refl _) h1 h2).2 h

/-- a zero difference means: one key is the other followed by zeros; in particular one is a
    prefix of the other -/
theorem cmpDiff_zero_prefix (a : List Int) : ∀ b, cmpDiff a b = 0 → a <+: b ∨ b <+: a := by
  induction a with
  | nil => intro b _; exact Or.inl (List.nil_prefix)
  | cons x xs ih =>
    intro b h
    cases b with
    | nil => exact Or.inr List.nil_prefix
    | cons y ys =>
      simp only [cmpDiff] at h
      by_cases hxy : x = y
      · subst hxy
        simp only [ne_eq, not_true_eq_false, ↓reduceIte] at h
        rcases ih ys h with h | h
        · exact Or.inl (List.cons_prefix_cons.mpr ⟨rfl, h⟩)
        · exact Or.inr (List.cons_prefix_cons.mpr ⟨rfl, h⟩)
      · simp only [ne_eq, hxy, not_false_eq_true, ↓reduceIte] at h
        omega

/-! ### sort keys are a prefix code -/

theorem Param.key_append_inj (p q : Param) (r r' : List Int) :
    p.key ++ r = q.key ++ r' → p = q ∧ r = r' := by
  intro h
  cases p <;> cases q <;> simp [Param.key] at h <;>
  · obtain ⟨h1, h2, h3⟩ := h
    refine ⟨?_, h3⟩
    congr 1 <;> omega

theorem paramsKey_append_inj (ps : List Param) : ∀ (qs : List Param) (r r' : List Int),
    ps.length = qs.length → paramsKey ps ++ r = paramsKey qs ++ r' → ps = qs ∧ r = r' := by
  induction ps with
  | nil => intro qs r r' hl h; cases qs <;> simp_all [paramsKey]
  | cons p ps ih =>
    intro qs r r' hl h
    cases qs with
    | nil => simp at hl
    | cons q qs =>
      simp only [paramsKey, List.append_assoc] at h
      obtain ⟨hp, h⟩ := Param.key_append_inj _ _ _ _ h
      obtain ⟨hps, hr⟩ := ih qs r r' (by simpa using hl) h
      simp [hp, hps, hr]

theorem Op1.order_inj {a b : Op1} (h : a.order = b.order) : a = b := by
  cases a <;> cases b <;> simp_all [Op1.order]
theorem Op2.order_inj {a b : Op2} (h : a.order = b.order) : a = b := by
  cases a <;> cases b <;> simp_all [Op2.order]
theorem Op12.order_ne (a : Op1) (b : Op2) : a.order ≠ b.order := by
  cases a <;> cases b <;> simp [Op1.order, Op2.order]
theorem Quant.order_inj {a b : Quant} (h : a.order = b.order) : a = b := by
  cases a <;> cases b <;> simp_all [Quant.order]
theorem Op.order_inj {a b : Op} (h : a.order = b.order) : a = b := by
  cases a with
  | u a => cases b with
    | u b => rw [Op1.order_inj (a := a) (b := b) h]
    | b b => exact absurd h (Op12.order_ne a b)
  | b a => cases b with
    | u b => exact absurd h.symm (Op12.order_ne b a)
    | b b => rw [Op2.order_inj (a := a) (b := b) h]

theorem Sent.key_append_inj (s : Sent) : ∀ (t : Sent) (r r' : List Int),
    s.ArityOK → t.ArityOK → s.key ++ r = t.key ++ r' → s = t ∧ r = r' := by
  induction s with
  | atom i j =>
    intro t r r' _ _ h
    cases t <;> simp [Sent.key, Pred.key] at h
    obtain ⟨h1, h2, h3⟩ := h
    refine ⟨?_, h3⟩
    congr 1 <;> omega
  | pred p ps =>
    intro t r r' hs ht h
    cases t with
    | pred p' ps' =>
      simp only [Sent.key, Pred.key, List.cons_append, List.cons.injEq, true_and, List.nil_append] at h
      obtain ⟨h1, h2, h3, h⟩ := h
      have hp : p = p' := by
        cases p; cases p'; simp at h1 h2 h3 ⊢; omega
      subst hp
      simp only [Sent.ArityOK, beq_iff_eq] at hs ht
      obtain ⟨hps, hr⟩ := paramsKey_append_inj ps ps' r r' (by omega) h
      simp [hps, hr]
    | atom => simp [Sent.key, Pred.key] at h
    | quant => simp [Sent.key, Pred.key] at h
    | op1 => simp [Sent.key, Pred.key] at h
    | op2 => simp [Sent.key, Pred.key] at h
  | quant q vi vs b ih =>
    intro t r r' hs ht h
    cases t with
    | quant q' vi' vs' b' =>
      simp only [Sent.key, List.cons_append, List.cons.injEq, true_and] at h
      obtain ⟨h1, h2, h3, h⟩ := h
      simp only [Sent.ArityOK] at hs ht
      obtain ⟨hb, hr⟩ := ih b' r r' hs ht h
      have hq : q = q' := Quant.order_inj (by omega)
      have : vi = vi' := by omega
      have : vs = vs' := by omega
      simp [*]
    | atom => simp [Sent.key, Pred.key] at h
    | pred => simp [Sent.key, Pred.key] at h
    | op1 => simp [Sent.key, Pred.key] at h
    | op2 => simp [Sent.key, Pred.key] at h
  | op1 o a ih =>
    intro t r r' hs ht h
    cases t with
    | op1 o' a' =>
      simp only [Sent.key, List.cons_append, List.cons.injEq, true_and] at h
      obtain ⟨h1, h⟩ := h
      simp only [Sent.ArityOK] at hs ht
      obtain ⟨hb, hr⟩ := ih a' r r' hs ht h
      have ho : o = o' := Op1.order_inj (by omega)
      simp [*]
    | op2 o' a' b' =>
      simp only [Sent.key, List.cons_append, List.cons.injEq, true_and] at h
      exact absurd (by omega) (Op12.order_ne o o')
    | atom => simp [Sent.key, Pred.key] at h
    | pred => simp [Sent.key, Pred.key] at h
    | quant => simp [Sent.key, Pred.key] at h
  | op2 o a b iha ihb =>
    intro t r r' hs ht h
    cases t with
    | op2 o' a' b' =>
      simp only [Sent.key, List.cons_append, List.cons.injEq, true_and, List.append_assoc] at h
      obtain ⟨h1, h⟩ := h
      simp only [Sent.ArityOK, Bool.and_eq_true] at hs ht
      obtain ⟨ha, h⟩ := iha a' _ _ hs.1 ht.1 h
      obtain ⟨hb, hr⟩ := ihb b' _ _ hs.2 ht.2 h
      have ho : o = o' := Op2.order_inj (by omega)
      simp [*]
    | op1 o' a' =>
      simp only [Sent.key, List.cons_append, List.cons.injEq, true_and] at h
      exact absurd (by omega) (Op12.order_ne o' o)
    | atom => simp [Sent.key, Pred.key] at h
    | pred => simp [Sent.key, Pred.key] at h
    | quant => simp [Sent.key, Pred.key] at h

/-- the first entry of every sort key is the type rank -/
theorem sortKey_head (x : Item) : ∃ t, sortKey x = (x.type.rank : Int) :: t := by
  cases x with
  | pred p => exact ⟨_, rfl⟩
  | param p => cases p <;> exact ⟨_, rfl⟩
  | quant q => exact ⟨_, rfl⟩
  | op o => exact ⟨_, rfl⟩
  | sent s => cases s <;> exact ⟨_, rfl⟩

theorem Sent.key_head (s : Sent) : ∃ t, s.key = (s.type.rank : Int) :: t := sortKey_head (.sent s)

theorem Sent.type_rank_ge (s : Sent) : 60 ≤ s.type.rank := by
  cases s <;> simp [Sent.type, LexType.rank]

/-- `sortKey x ++ r = sortKey y ++ r'` forces `x = y` -/
theorem sortKey_append_inj (x y : Item) (r r' : List Int) (hx : x.WF) (hy : y.WF)
    (h : sortKey x ++ r = sortKey y ++ r') : x = y ∧ r = r' := by
  cases x with
  | sent s =>
    cases y with
    | sent t =>
      obtain ⟨h1, h2⟩ := Sent.key_append_inj s t r r' hx hy h
      simp [h1, h2]
    | pred p =>
      obtain ⟨t, ht⟩ := Sent.key_head s
      have := Sent.type_rank_ge s
      simp [sortKey, ht, Pred.key] at h; omega
    | param p =>
      obtain ⟨t, ht⟩ := Sent.key_head s
      have := Sent.type_rank_ge s
      cases p <;> (simp [sortKey, ht, Param.key] at h; omega)
    | quant q =>
      obtain ⟨t, ht⟩ := Sent.key_head s
      have := Sent.type_rank_ge s
      simp [sortKey, ht, Quant.key] at h; omega
    | op o =>
      obtain ⟨t, ht⟩ := Sent.key_head s
      have := Sent.type_rank_ge s
      simp [sortKey, ht, Op.key] at h; omega
  | pred p =>
    cases y with
    | pred q =>
      simp only [sortKey, Pred.key, List.cons_append, List.cons.injEq, true_and, List.nil_append] at h
      obtain ⟨h1, h2, h3, h⟩ := h
      refine ⟨?_, h⟩
      cases p; cases q; simp at h1 h2 h3 ⊢; omega
    | sent s =>
      obtain ⟨t, ht⟩ := Sent.key_head s
      have := Sent.type_rank_ge s
      simp [sortKey, ht, Pred.key] at h; omega
    | param q => cases q <;> simp [sortKey, Pred.key, Param.key] at h
    | quant q => simp [sortKey, Pred.key, Quant.key] at h
    | op q => simp [sortKey, Pred.key, Op.key] at h
  | param p =>
    cases y with
    | param q =>
      obtain ⟨h1, h2⟩ := Param.key_append_inj p q r r' h
      simp [h1, h2]
    | sent s =>
      obtain ⟨t, ht⟩ := Sent.key_head s
      have := Sent.type_rank_ge s
      cases p <;> (simp [sortKey, ht, Param.key] at h; omega)
    | pred q => cases p <;> simp [sortKey, Pred.key, Param.key] at h
    | quant q => cases p <;> simp [sortKey, Param.key, Quant.key] at h
    | op q => cases p <;> simp [sortKey, Param.key, Op.key] at h
  | quant p =>
    cases y with
    | quant q =>
      simp only [sortKey, Quant.key, List.cons_append, List.cons.injEq, true_and, List.nil_append] at h
      have : p = q := Quant.order_inj (by omega)
      simp [this, h.2]
    | sent s =>
      obtain ⟨t, ht⟩ := Sent.key_head s
      have := Sent.type_rank_ge s
      simp [sortKey, ht, Quant.key] at h; omega
    | pred q => simp [sortKey, Pred.key, Quant.key] at h
    | param q => cases q <;> simp [sortKey, Param.key, Quant.key] at h
    | op q => simp [sortKey, Quant.key, Op.key] at h
  | op p =>
    cases y with
    | op q =>
      simp only [sortKey, Op.key, List.cons_append, List.cons.injEq, true_and, List.nil_append] at h
      have : p = q := Op.order_inj (by omega)
      simp [this, h.2]
    | sent s =>
      obtain ⟨t, ht⟩ := Sent.key_head s
      have := Sent.type_rank_ge s
      simp [sortKey, ht, Op.key] at h; omega
    | pred q => simp [sortKey, Pred.key, Op.key] at h
    | param q => cases q <;> simp [sortKey, Param.key, Op.key] at h
    | quant q => simp [sortKey, Quant.key, Op.key] at h

/-! ### sequences of sentences (Argument) -/

theorem seqCmp_swap (xs : List Sent) : ∀ ys, seqCmp ys xs = - seqCmp xs ys := by
  induction xs with
  | nil => intro ys; cases ys <;> simp [seqCmp]
  | cons x xs ih =>
    intro ys
    cases ys with
    | nil => simp [seqCmp]
    | cons y ys =>
      simp only [seqCmp]
      rw [cmpDiff_swap x.key y.key, ih ys]
      by_cases h : cmpDiff x.key y.key = 0 <;> simp [h]

theorem seqCmp_trans_aux (xs : List Sent) : ∀ ys zs, xs.length = ys.length → ys.length = zs.length →
    seqCmp xs ys ≤ 0 → seqCmp ys zs ≤ 0 →
    seqCmp xs zs ≤ 0 ∧ ((seqCmp xs ys < 0 ∨ seqCmp ys zs < 0) → seqCmp xs zs < 0) := by
  induction xs with
  | nil =>
    intro ys zs h1 h2
    cases ys with
    | nil => cases zs <;> simp_all [seqCmp]
    | cons => simp at h1
  | cons x xs ih =>
    intro ys zs h1 h2
    cases ys with
    | nil => simp at h1
    | cons y ys =>
      cases zs with
      | nil => simp at h2
      | cons z zs =>
        simp only [seqCmp]
        have IH := ih ys zs (by simpa using h1) (by simpa using h2)
        by_cases hxy : cmpDiff x.key y.key = 0
        · by_cases hyz : cmpDiff y.key z.key = 0
          · have hxz : cmpDiff x.key z.key = 0 := by
              have a := cmpDiff_trans (a := x.key) (b := y.key) (c := z.key) (by omega) (by omega)
              have b := cmpDiff_trans (a := z.key) (b := y.key) (c := x.key)
                (by rw [cmpDiff_swap]; omega) (by rw [cmpDiff_swap]; omega)
              rw [cmpDiff_swap] at b; omega
            simpa [hxy, hyz, hxz] using IH
          · simp only [hxy, hyz, ne_eq, not_true_eq_false, ↓reduceIte, not_false_eq_true]
            intro _ h
            have : cmpDiff x.key z.key < 0 :=
              cmpDiff_trans_lt (b := y.key) (by omega) (by omega) (Or.inr (by omega))
            have hne : cmpDiff x.key z.key ≠ 0 := by omega
            simp only [hne, not_false_eq_true, ↓reduceIte]
            exact ⟨by omega, fun _ => this⟩
        · simp only [hxy, ne_eq, not_false_eq_true, ↓reduceIte]
          intro h hh
          have hyz' : cmpDiff y.key z.key ≤ 0 := by
            by_cases hyz : cmpDiff y.key z.key = 0
            · omega
            · simpa [hyz] using hh
          have : cmpDiff x.key z.key < 0 :=
            cmpDiff_trans_lt (b := y.key) (by omega) hyz' (Or.inl (by omega))
          have hne : cmpDiff x.key z.key ≠ 0 := by omega
          simp only [hne, not_false_eq_true, ↓reduceIte]
          exact ⟨by omega, fun _ => this⟩

theorem seqCmp_zero (xs : List Sent) : ∀ ys, xs.length = ys.length →
    (∀ s ∈ xs, s.ArityOK) → (∀ s ∈ ys, s.ArityOK) → seqCmp xs ys = 0 → xs = ys := by
  induction xs with
  | nil => intro ys h; cases ys <;> simp_all
  | cons x xs ih =>
    intro ys hl hx hy h
    cases ys with
    | nil => simp at hl
    | cons y ys =>
      simp only [seqCmp] at h
      by_cases hxy : cmpDiff x.key y.key = 0
      · simp only [hxy, ne_eq, not_true_eq_false, ↓reduceIte] at h
        have e : x = y := by
          have wx : x.ArityOK := hx x (by simp)
          have wy : y.ArityOK := hy y (by simp)
          rcases cmpDiff_zero_prefix _ _ hxy with ⟨t, ht⟩ | ⟨t, ht⟩
          · exact (Sent.key_append_inj x y t [] wx wy (by simpa using ht)).1
          · exact ((Sent.key_append_inj y x t [] wy wx (by simpa using ht)).1).symm
        have := ih ys (by simpa using hl) (fun s hs => hx s (by simp [hs])) (fun s hs => hy s (by simp [hs])) h
        simp [e, this]
      · simp [hxy] at h

theorem seqCmp_self (xs : List Sent) : seqCmp xs xs = 0 := by
  induction xs with
  | nil => rfl
  | cons x xs ih => simp [seqCmp, cmpDiff_self, ih]

/-! ### the Bool-valued operators, read as statements about the integer `orderitems` -/

theorem Item.lt_iff (x y : Item) : x.lt y = true ↔ orderitems x y < 0 := by simp [Item.lt]
theorem Item.le_iff (x y : Item) : x.le y = true ↔ orderitems x y ≤ 0 := by simp [Item.le]
theorem Item.gt_iff (x y : Item) : x.gt y = true ↔ orderitems x y > 0 := by simp [Item.gt]
theorem Item.ge_iff (x y : Item) : x.ge y = true ↔ orderitems x y ≥ 0 := by simp [Item.ge]
theorem Item.eqv_iff0 (x y : Item) : x.eqv y = true ↔ orderitems x y = 0 := by simp [Item.eqv]

theorem ordOfInt_lt (d : Int) : ordOfInt d = .lt ↔ d < 0 := by
  unfold ordOfInt; by_cases h1 : d < 0 <;> by_cases h2 : d = 0 <;> simp [h1, h2]
theorem ordOfInt_eq (d : Int) : ordOfInt d = .eq ↔ d = 0 := by
  unfold ordOfInt; by_cases h1 : d < 0 <;> by_cases h2 : d = 0 <;> simp [h1, h2] <;> omega
theorem ordOfInt_gt (d : Int) : ordOfInt d = .gt ↔ d > 0 := by
  unfold ordOfInt; by_cases h1 : d < 0 <;> by_cases h2 : d = 0 <;> simp [h1, h2] <;> omega

theorem Item.cmp_lt_iff (x y : Item) : x.cmp y = .lt ↔ orderitems x y < 0 := ordOfInt_lt _
theorem Item.cmp_eq_iff0 (x y : Item) : x.cmp y = .eq ↔ orderitems x y = 0 := ordOfInt_eq _
theorem Item.cmp_gt_iff (x y : Item) : x.cmp y = .gt ↔ orderitems x y > 0 := ordOfInt_gt _

theorem orderitems_swap (x y : Item) : orderitems y x = - orderitems x y := cmpDiff_swap _ _

end Ptx
