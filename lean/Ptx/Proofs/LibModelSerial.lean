/-
  Ptx.Proofs.LibModelSerial — `SerialAccess.enforce()` as a function of the key SET and the pair SET:
  the world it invents is `max(keys) + 1` (a function of the set), the dead ends are the keys without
  an outgoing pair (a function of the sets).  Hence `enforce()` of EVERY Access class respects
  sameness of the sets (`Acc.enforce_set_congr_all`), the serial one included.
-/
import Ptx.Proofs.LibModelOrderEval
namespace Ptx.LibModel
open Ptx

namespace Acc

theorem foldl_max_le : ∀ (xs : List Nat) (a b : Nat), xs.foldl max a ≤ b ↔ a ≤ b ∧ ∀ x ∈ xs, x ≤ b
  | [], a, b => by simp
  | y :: t, a, b => by
      simp only [List.foldl_cons, List.mem_cons, forall_eq_or_imp]
      rw [foldl_max_le t]
      constructor
      · rintro ⟨h1, h2⟩; exact ⟨by omega, by omega, h2⟩
      · rintro ⟨h1, h2, h3⟩; exact ⟨by omega, h3⟩

/-- `max(self)` is a function of the SET of keys -/
theorem foldl_max_congr {xs ys : List Nat} (h : ∀ w, w ∈ xs ↔ w ∈ ys) : xs.foldl max 0 = ys.foldl max 0 := by
  apply Nat.le_antisymm
  · rw [foldl_max_le]
    exact ⟨Nat.zero_le _, fun x hx => (foldl_max_ge ys 0).2 x ((h x).1 hx)⟩
  · rw [foldl_max_le]
    exact ⟨Nat.zero_le _, fun x hx => (foldl_max_ge xs 0).2 x ((h x).2 hx)⟩

theorem succ_eq_nil_iff {R : Acc} {w : Nat} : R.succ w = [] ↔ ∀ b, (w, b) ∉ R.pairs := by
  constructor
  · intro h b hb
    have := mem_succ.2 hb
    rw [h] at this; cases this
  · intro h
    cases hs : R.succ w with
    | nil => rfl
    | cons b t =>
      have : b ∈ R.succ w := by rw [hs]; simp
      exact absurd (mem_succ.1 this) (h b)

/-- is there a world without a successor -/
def DeadEnd (R : Acc) : Prop := ∃ w ∈ R.keys, ∀ b, (w, b) ∉ R.pairs

/-- `SerialAccess.enforce()`, exactly: the finished pairs / keys in terms of membership -/
theorem enforceSerial_iff (R : Acc) :
    (∀ p, p ∈ R.enforceSerial.pairs ↔ p ∈ R.pairs ∨
      (R.DeadEnd ∧ p.2 = R.keys.foldl max 0 + 1 ∧
        (p.1 = R.keys.foldl max 0 + 1 ∨ (p.1 ∈ R.keys ∧ ∀ b, (p.1, b) ∉ R.pairs)))) ∧
    (∀ w, w ∈ R.enforceSerial.keys ↔ w ∈ R.keys ∨ (R.DeadEnd ∧ w = R.keys.foldl max 0 + 1)) := by
  have hneeds : ∀ w, w ∈ (R.keys.filter fun w => (R.succ w).isEmpty) ↔ w ∈ R.keys ∧ ∀ b, (w, b) ∉ R.pairs := by
    intro w
    rw [List.mem_filter, ← succ_eq_nil_iff]
    simp
  unfold enforceSerial
  simp only
  split
  · next hne =>
    have he : (R.keys.filter fun w => (R.succ w).isEmpty) = [] := by simpa using hne
    have hno : ¬ R.DeadEnd := by
      rintro ⟨w, hw, hd⟩
      have := (hneeds w).2 ⟨hw, hd⟩
      rw [he] at this; cases this
    simp [hno]
  · next hne =>
    have hde : R.DeadEnd := by
      cases hf : (R.keys.filter fun w => (R.succ w).isEmpty) with
      | nil => simp [hf] at hne
      | cons w t =>
        have : w ∈ (R.keys.filter fun w => (R.succ w).isEmpty) := by rw [hf]; simp
        obtain ⟨h1, h2⟩ := (hneeds w).1 this
        exact ⟨w, h1, h2⟩
    generalize R.keys.foldl max 0 + 1 = n
    constructor
    · intro p
      rw [mem_pairs_add, mem_pairs_addAll]
      simp only [List.mem_map, hneeds, hde, true_and]
      constructor
      · rintro ((h | ⟨w1, h1, rfl⟩) | rfl)
        · exact Or.inl h
        · exact Or.inr ⟨rfl, Or.inr h1⟩
        · exact Or.inr ⟨rfl, Or.inl rfl⟩
      · rintro (h | ⟨h1, h2 | h2⟩)
        · exact Or.inl (Or.inl h)
        · right
          cases p; simp only at h1 h2; subst h1 h2; rfl
        · left; right
          refine ⟨p.1, h2, ?_⟩
          cases p; simp only at h1; subst h1; rfl
    · intro w
      rw [mem_keys_add, mem_keys_addAll]
      simp only [List.mem_map, hneeds, hde, true_and]
      constructor
      · rintro ((h | ⟨q, ⟨w1, h1, rfl⟩, h⟩) | h | h)
        · exact Or.inl h
        · rcases h with rfl | rfl
          · exact Or.inl h1.1
          · exact Or.inr rfl
        · exact Or.inr h
        · exact Or.inr h
      · rintro (h | h)
        · exact Or.inl (Or.inl h)
        · exact Or.inr (Or.inl h)

/-- `SerialAccess.enforce()` is a function of the SET of keys and the SET of pairs -/
theorem enforceSerial_congr {R₁ R₂ : Acc} (hkeys : ∀ w, w ∈ R₁.keys ↔ w ∈ R₂.keys)
    (hpairs : ∀ p, p ∈ R₁.pairs ↔ p ∈ R₂.pairs) :
    (∀ w, w ∈ R₁.enforceSerial.keys ↔ w ∈ R₂.enforceSerial.keys) ∧
    (∀ p, p ∈ R₁.enforceSerial.pairs ↔ p ∈ R₂.enforceSerial.pairs) := by
  obtain ⟨p1, k1⟩ := enforceSerial_iff R₁
  obtain ⟨p2, k2⟩ := enforceSerial_iff R₂
  have hmax := foldl_max_congr hkeys
  have hde : R₁.DeadEnd ↔ R₂.DeadEnd := by
    unfold DeadEnd
    constructor
    · rintro ⟨w, hw, hd⟩; exact ⟨w, (hkeys w).1 hw, fun b hb => hd b ((hpairs _).2 hb)⟩
    · rintro ⟨w, hw, hd⟩; exact ⟨w, (hkeys w).2 hw, fun b hb => hd b ((hpairs _).1 hb)⟩
  constructor
  · intro w; rw [k1, k2, hmax, hde, hkeys]
  · intro p
    rw [p1, p2, hmax, hde, hkeys, hpairs]
    simp only [hpairs]

/-- `enforce()` of EVERY Access class is a function of the SET of keys and pairs -/
theorem enforce_set_congr_all (k : FrameKind) {R₁ R₂ : Acc} (h₁ : R₁.WF) (h₂ : R₂.WF)
    (hkeys : ∀ w, w ∈ R₁.keys ↔ w ∈ R₂.keys) (hpairs : ∀ p, p ∈ R₁.pairs ↔ p ∈ R₂.pairs) :
    (∀ w, w ∈ (Acc.enforce k R₁).1.keys ↔ w ∈ (Acc.enforce k R₂).1.keys) ∧
    (∀ p, p ∈ (Acc.enforce k R₁).1.pairs ↔ p ∈ (Acc.enforce k R₂).1.pairs) := by
  by_cases hk : k = .D
  · subst hk
    exact enforceSerial_congr hkeys hpairs
  · exact enforce_set_congr hk h₁ h₂ hkeys hpairs

end Acc
end Ptx.LibModel
-- 
