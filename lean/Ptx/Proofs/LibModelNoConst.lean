/-
  Ptx.Proofs.LibModelNoConst — a model WITHOUT constants denotes no structure (the domain of a structure is
  nonempty), so `C08_eval_is_spec` cannot speak about it.  What holds of the mirrored code:
    * a quantified sentence evaluates, whatever its body, to what the logic's fold program returns on the EMPTY
      list (`maxceil(…, default = minval)` / `minfloor(…, default = maxval)` / `reduce(…, initial)` / …) — a value
      the documented semantics does not define (the regenerated fold graphs have no entry for the empty set);
    * every quantifier-free sentence of `C08_eval_is_spec` (then necessarily without parameters) evaluates to its
      documented value in the structure with a one-point dummy domain.
-/
import Ptx.Proofs.LibModelOrderAny
namespace Ptx.LibModel
open Ptx

def qfree : Sent → Bool
  | .quant _ _ _ _ => false
  | .op1 _ a => qfree a
  | .op2 _ a b => qfree a && qfree b
  | _ => true

/-- the structure of a model without constants: a dummy one-point domain, predications read at the empty tuple -/
abbrev toStruct0 (L : LogicData) (m : Model) : Struct where
  W := Nat
  D := Unit
  R := fun a b => (a, b) ∈ m.R.pairs
  dflt := ()
  atomV := fun w i j => ((frameD m w).atomics.lookup (i, j)).getD L.T.unassigned
  predV := fun w p _ => (((frameD m w).interp p).lookup []).getD L.T.unassigned
  opaqueV := fun w s => ((frameD m w).opaques.lookup s).getD L.T.unassigned

def env0 : Env Unit := { c := fun _ _ => (), g := fun _ _ => () }

theorem valueOf_quant_noconst (L : LogicData) (m : Model) (hfin : m.finished = true) (hq : L.quantified = true)
    (hc : m.consts = []) (q : Quant) (vi vs : Nat) (b : Sent) (w : Nat) :
    valueOf L m (.quant q vi vs b) w = .ok (foldQV L q []) := by
  obtain ⟨n, hn⟩ : ∃ n, (Sent.quant q vi vs b).size = n + 1 :=
    ⟨_, (Nat.succ_pred_eq_of_pos (Sent.size_pos _)).symm⟩
  unfold valueOf
  rw [hn]
  unfold valueOfF
  simp only [hfin, Bool.not_true, Bool.false_eq_true, ↓reduceIte, isOpaque, hq, hc, List.map_nil]
  unfold foldQR foldQV
  exact runProgR_ok _ _ _ []

theorem valueOfF_noconst (L : LogicData) (hOK : foldProgramsOKB L = true) (hT : L.tablesTotalB = true)
    (m : Model) (hfin : m.finished = true) (hvals : m.ValsOK L) (S : Nat → Prop) (hS : WorldsOK L m S) :
    ∀ (fuel : Nat) (s : Sent), s.size ≤ fuel → okIn L [] [] s = true → qfree s = true → ∀ w, S w →
      valueOfF L m fuel s w = .ok (eval L (toStruct0 L m) env0 w s) ∧
      eval L (toStruct0 L m) env0 w s ∈ L.T.vals := by
  have hc := L.tables.closed_of_totalB _ _ _ hT
  intro fuel
  induction fuel with
  | zero => intro s hs; have := s.size_pos; omega
  | succ fuel ih =>
    intro s hs hok hqf w hw
    have hop := okIn_notOpaque L _ _ s hok
    have hfr := frameOf_ok (hS.frame w hw)
    have hfv := frameD_vals hvals w
    unfold valueOfF
    simp only [hfin, Bool.not_true, Bool.false_eq_true, ↓reduceIte, hop]
    cases s with
    | atom i j =>
      simp only [hfr, Except.map, eval, toStruct0]
      exact ⟨by first | rfl | trivial, getD_lookup_vals hc.una hfv.1 _⟩
    | pred p ps =>
      have hps : ps = [] := by
        cases ps with
        | nil => rfl
        | cons x t =>
          simp only [okIn, List.all_cons, Bool.and_eq_true] at hok
          cases x <;> simp at hok
      subst hps
      simp only [tupInConsts, tupIn, List.all_nil, Bool.not_true, Bool.false_eq_true, ↓reduceIte, hfr, Except.map, eval,
        toStruct0]
      exact ⟨by first | rfl | trivial, getD_lookup_vals hc.una (interp_vals hfv.2.2 p) _⟩
    | quant q vi vs b => simp [qfree] at hqf
    | op1 o a =>
      simp only [okIn, Bool.and_eq_true, Bool.or_eq_true, Bool.not_eq_true'] at hok
      obtain ⟨hmo, ha⟩ := hok
      simp only [Sent.size] at hs
      simp only [qfree] at hqf
      by_cases hmod : o.isModal = true
      · have hm : L.modal = true := by
          rcases hmo with h | h
          · rw [hmod] at h; cases h
          · exact h
        simp only [hmod, ↓reduceIte]
        have hinst : ∀ w2 ∈ m.R.succ w,
            valueOfF L m fuel a w2 = .ok (eval L (toStruct0 L m) env0 w2 a) ∧
            eval L (toStruct0 L m) env0 w2 a ∈ L.T.vals :=
          fun w2 h2 => ih a (by omega) ha hqf w2 (hS.succ w hw w2 h2)
        let g : Nat → V := fun w2 => eval L (toStruct0 L m) env0 w2 a
        have hlist : ((m.R.succ w).map fun w2 => valueOfF L m fuel a w2) = ((m.R.succ w).map g).map .ok :=
          map_ok_congr fun w2 h2 => (hinst w2 h2).1
        rw [hlist]
        unfold foldMR
        rw [runProgR_ok]
        have hxs : ∀ x ∈ (m.R.succ w).map g, x ∈ L.T.vals := by
          intro x hx; obtain ⟨w2, h2, rfl⟩ := List.mem_map.1 hx; exact (hinst w2 h2).2
        have hne : (m.R.succ w).map g ≠ [] ∨ L.emptyAccessOk = true := by
          by_cases he : L.emptyAccessOk = true
          · exact Or.inr he
          · left
            have := hS.serial (by simpa using he) w hw
            intro h
            apply this
            simpa using h
        have hfold := foldMV_eq_mfold L hOK hm o (Op1.modal_cases hmod) _ hxs hne
        unfold foldMV at hfold
        rw [hfold]
        have hcanon : L.T.canon ((m.R.succ w).map g) =
            L.T.canon (profile L.T (fun w' => (toStruct0 L m).R w w')
              (fun w' => eval L (toStruct0 L m) env0 w' a)) := by
          apply L.T.canon_congr
          intro v hv
          rw [mem_profile]
          constructor
          · intro h
            obtain ⟨w2, h2, rfl⟩ := List.mem_map.1 h
            exact ⟨hv, w2, Acc.mem_succ.1 h2, rfl⟩
          · rintro ⟨_, w2, h2, rfl⟩
            exact List.mem_map.2 ⟨w2, Acc.mem_succ.2 h2, rfl⟩
        have heq : eval L (toStruct0 L m) env0 w (.op1 o a) = L.T.mfold o ((m.R.succ w).map g) := by
          simp only [eval, hmod, hm, ↓reduceIte]
          unfold Tables.mfold
          rw [hcanon]
        rw [heq]
        refine ⟨rfl, ?_⟩
        unfold Tables.mfold
        refine hc.mf hm o (Op1.modal_cases hmod) _ (L.T.canon_mem_profiles _) ?_
        rcases hne with hne | he
        · exact Or.inl (canon_ne_nil L.T hxs hne)
        · exact Or.inr he
      · have hmod' : o.isModal = false := by simpa using hmod
        obtain ⟨h1, h2⟩ := ih a (by omega) ha hqf w hw
        simp only [hmod', Bool.false_eq_true, ↓reduceIte, h1, Except.map, eval]
        exact ⟨by first | rfl | trivial, hc.f1 o (Op1.nonmodal_cases hmod') _ h2⟩
    | op2 o a b =>
      simp only [okIn, Bool.and_eq_true] at hok
      simp only [Sent.size] at hs
      simp only [qfree, Bool.and_eq_true] at hqf
      obtain ⟨h1, h2⟩ := ih a (by omega) hok.1 hqf.1 w hw
      obtain ⟨h3, h4⟩ := ih b (by omega) hok.2 hqf.2 w hw
      simp only [h1, h3, Except.map, eval]
      exact ⟨by first | rfl | trivial, hc.f2 o _ h2 _ h4⟩

end Ptx.LibModel
